import sys, math, random
sys.path.insert(0, "/tmp/w_poly"); sys.path.insert(0, "/repo")
from harness import driver, sx as S
def v(i): return ("var", f"x{i}", "0")
def optc(ts, cfg="iiiiiii"):
    out = driver.run(["optc %s %s" % (cfg, S.show(t)) for t in ts], exe="driver_cost", src="DriverCost.lean", timeout=3000)
    res = []
    for o in out:
        text, calls, k = o.rsplit(" ", 2)
        res.append((S.parse1(text), int(calls), int(k)))
    return res
W2 = {"ne","notin","lt","le","notnone","notempty","falsy"}
def w(t):
    if isinstance(t, str): return 2 if t in W2 else 1
    h = t[0]
    if h in ("and","or","xor"): return 1 + w(t[1]) + w(t[2])
    if h in ("not","all","any"): return 1 + w(t[1])
    if h in W2: return 2
    return 1
def rtree(rng, n, leaves, ops=("and","or","xor","not")):
    if n <= 1: return rng.choice(leaves)
    op = rng.choice(ops)
    if op in ("not","all","any"):
        return (op, rtree(rng, n-1, leaves, ops))
    if n == 2: return ("not", rtree(rng, 1, leaves, ops)) if "not" in ops else rng.choice(leaves)
    k = rng.randint(1, n-2)
    return (op, rtree(rng, k, leaves, ops), rtree(rng, n-1-k, leaves, ops))
