from lib import *
def fam(k):
    t = v(0)
    for i in range(1, k+1):
        t = ("xor", ("and", t, v(1000+i)), v(2000+i))
    return t
for cfg in ("iiiiiii","ooooooo","fffffff"):
    ks = [2,4,8,16,32,64]
    rs = optc([fam(k) for k in ks], cfg)
    for k, r in zip(ks, rs):
        print(cfg, k, w(fam(k)), r[1], r[2], round(r[1]/w(fam(k))**2,3), S.show(r[0])[:100])
