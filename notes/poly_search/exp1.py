from lib import *
rng = random.Random(0)
leaves = [v(i) for i in range(3)] + ["tt","ff"]
for n in (5,10,20,40,80,160):
    ts = [rtree(rng, n, leaves) for _ in range(3000)]
    rs = optc(ts)
    best = max(zip(ts, rs), key=lambda x: x[1][1]/w(x[0]))
    print(n, "max calls/w", round(best[1][1]/w(best[0]),3), "w", w(best[0]), "calls", best[1][1], "k", best[1][2])
    if n<=20: print(S.show(best[0]))
