from lib import *
import itertools
rng = random.Random(1)
leaves = [v(i) for i in range(3)] + ["tt","ff"]
for cfg in ("iiiiiii","fffffff","ooooooo"):
    nonid = 0; worst = (0,None); tot=0; ex=[]
    for n in (4,6,8,12,16,24,40):
        ts = [rtree(rng, n, leaves) for _ in range(4000)]
        rs = optc(ts, cfg)
        os_ = [r[0] for r in rs]
        rs2 = optc(os_, cfg)
        for t, r, r2 in zip(ts, rs, rs2):
            tot+=1
            if r2[0] != r[0]:
                nonid += 1
                if len(ex)<5 and n<=8: ex.append((S.show(t), S.show(r[0]), S.show(r2[0])))
            ratio = r2[1]/w(r[0])
            if ratio > worst[0]: worst = (ratio, S.show(r[0]), r2[1])
    print(cfg, "total", tot, "non-idempotent", nonid, "worst T(o)/w(o)", worst)
    for e in ex: print("   ", e)
