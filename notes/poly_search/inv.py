from lib import *
def isand(t): return (not isinstance(t,str)) and t[0]=="and"
def isor(t): return (not isinstance(t,str)) and t[0]=="or"
def X(t):
    if isinstance(t,str): return 0
    h=t[0]
    if h in ("and","or"): return X(t[1])+X(t[2])
    if h=="xor": return X(t[1])+X(t[2]) + (0 if (not isand(t[1]) and isand(t[2])) else 1)
    if h in ("not","all","any"): return X(t[1])
    return 0
A=3
def M(t): return A*w(t)+X(t)
def e(t): return 0 if (isand(t) and (not isor(t[1])) and isor(t[2])) else 1
def check(ts, cfg, K=3):
    rs = optc(ts, cfg)
    bad=[]; tight=0
    for t,(o,calls,n) in zip(ts,rs):
        same = 1 if isand(t)==isand(o) else 0
        need = -(-(n+e(t))//(K*w(t)))
        have = M(t)-M(o)+same
        if need > have or w(o)>w(t): bad.append((S.show(t),S.show(o),n,need,have))
        if need==have: tight+=1
    return bad,tight
if __name__=="__main__":
    rng = random.Random(int(sys.argv[1]) if len(sys.argv)>1 else 0)
    pl = [v(i) for i in range(3)] + ["tt","ff"]
    ql = pl + [("ne","1"),("eq","1"),("ge","2"),("le","3"),"notnone","none"]
    for cfg in ("iiiiiii","fffffff","ooooooo"):
        for name, leaves, ops in (("prop",pl,("and","or","xor","not")),("all",ql,("and","or","xor","not","all","any","and","xor"))):
            tot=0; nb=0; tg=0
            for n in (2,3,4,5,6,8,10,14,20,30,50):
                ts=[rtree(rng,n,leaves,ops) for _ in range(3000)]
                bad,tight=check(ts,cfg); tot+=len(ts); nb+=len(bad); tg+=tight
                for b in bad[:3]: print("BAD",cfg,name,b)
            print(cfg,name,"total",tot,"bad",nb,"tight",tg)
