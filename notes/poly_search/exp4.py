from lib import *
def fam(k):
    t = v(0)
    for i in range(1, k+1):
        t = ("xor", ("and", t, v(1000+i)), v(2000+i))
    return t
for cfg in ("ooooooo","iiiiiii"):
    print(cfg, [(k, w(fam(k)), r[1], r[2]) for k, r in zip(range(1,7), optc([fam(k) for k in range(1,7)], cfg))])
