from inv import *
sys.path.insert(0,"/tmp/w_poly")
from harness.props import c12
def allm(m,t):
    for _ in range(m): t=("all",t)
    return t
ts=[]
for k in (2,4,8,16,32):
    t=v(0)
    for i in range(1,k+1): t=("xor",("and",t,v(1000+i)),v(2000+i))
    ts.append(t)
    for m in (2,8):
        t="notnone"
        for i in range(k): t=("and",allm(m,v(i)),("all",t))
        ts.append(t)
    t=v(0)
    for i in range(1,k+1): t=("xor",("xor",t,"tt"),v(i))
    ts.append(t)
    t=v(0)
    for i in range(1,k+1): t=("or",("any",t),("any",v(i)))
    ts.append(t)
for fam in c12.FAMILIES:
    ts += [c12.chain(fam,n) for n in (4,8,16,32)]
for cfg in ("iiiiiii","fffffff","ooooooo"):
    bad,tight=check(ts,cfg)
    print(cfg,len(ts),"bad",len(bad),"tight",tight)
    for b in bad[:5]: print(b[2:], b[0][:150])
# iterate results
rng=random.Random(5)
ql=[v(i) for i in range(3)]+["tt","ff",("ne","1"),("eq","1"),"notnone","none"]
cur=[rtree(rng,rng.randint(3,30),ql,("and","or","xor","not","all","any","xor","and")) for _ in range(5000)]
for it in range(4):
    bad,tight=check(cur,"iiiiiii"); print("iter",it,"bad",len(bad))
    for b in bad[:5]: print(b)
    cur=[r[0] for r in optc(cur)]
