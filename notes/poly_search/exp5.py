from lib import *
def fam(k):
    t = ("all", v(0))
    for i in range(1, k+1):
        t = ("and", ("all", v(i)), ("all", t))
    return t
ks=list(range(0,8))+[16,32,64]
for cfg in ("iiiiiii",):
    for k, r in zip(ks, optc([fam(k) for k in ks], cfg)):
        print(k, w(fam(k)), r[1], r[2], S.show(r[0])[:90])
