import sys, time, os
repo = sys.argv[1]
sys.path.insert(0, "/tmp/w_term"); sys.path.insert(0, repo)
os.environ["PYPRED_REPO"] = repo
sys.setrecursionlimit(100000)
from harness import lift, optcorr, sx as S
sys.path.insert(0, "/tmp/w_term/tools")
import cost_corr
def v(i): return ("var", f"x{i}", "0")
def fam(k):
    t = v(0)
    for i in range(1, k+1):
        t = ("any", ("not", ("and", ("or", t, v(1000+i)), v(i))))
    return t
for k in (2, 4, 8, 12, 16, 20, 24):
    t = fam(k)
    t0 = time.time()
    o, n = optcorr.optimize_counted(lift.lower(t, {}), None)
    dt = time.time() - t0
    o2, n2 = cost_corr.py_invocations(lift.lower(t, {}))
    print(k, S.size(t), n, n2, f"{dt:.2f}s", flush=True)
