import sys
sys.path.insert(0, "/tmp/w_term"); sys.path.insert(0, "/repo")
from harness import driver, sx as S
def v(i): return ("var", f"x{i}", "0")
fams = {
 "any(not(and(xor(p,u),v)))": lambda t,i: ("any", ("not", ("and", ("xor", t, v(1000+i)), v(i)))),
 "any(not(or(xor(p,u),v)))": lambda t,i: ("any", ("not", ("or", ("xor", t, v(1000+i)), v(i)))),
 "any(not(and(or(p,u),v)))": lambda t,i: ("any", ("not", ("and", ("or", t, v(1000+i)), v(i)))),
 "any(not(or(and(p,u),v)))": lambda t,i: ("any", ("not", ("or", ("and", t, v(1000+i)), v(i)))),
 "any(not(and(and(p,u),v)))": lambda t,i: ("any", ("not", ("and", ("and", t, v(1000+i)), v(i)))),
 "any(not(or(or(p,u),v)))": lambda t,i: ("any", ("not", ("or", ("or", t, v(1000+i)), v(i)))),
 "any(not(xor-in-or))": lambda t,i: ("any", ("not", ("or", v(i), ("xor", v(1000+i), t)))),
}
for name, f in fams.items():
    ts = []
    t = v(0)
    for i in range(1, 13):
        t = f(t, i); ts.append(t)
    out = driver.run(["optc iiiiiii " + S.show(t) for t in ts], exe="driver_cost", src="DriverCost.lean")
    print(name, [(S.size(t), int(o.rsplit(" ", 2)[1])) for t, o in zip(ts, out)])
