import sys
sys.path.insert(0, "/tmp/w_term"); sys.path.insert(0, "/repo")
from harness import driver, sx as S
def v(i): return ("var", f"x{i}", "0")
def fam(k):
    t = v(0)
    for i in range(1, k+1):
        t = ("any", ("not", ("and", t, v(i))))
    return t
ts = [fam(k) for k in range(1, 15)]
out = driver.run(["optc iiiiiii " + S.show(t) for t in ts], exe="driver_cost", src="DriverCost.lean")
for t, o in zip(ts, out):
    print(S.size(t), o.rsplit(" ", 2)[1:], )
