import itertools, math, os, sys
sys.path.insert(0, "/tmp/w_term")
sys.path.insert(0, "/repo")
from harness import driver, sx as S

def v(i): return ("var", f"x{i}", "0")
H = "HOLE"
base = {
 "not": lambda i,h: ("not", h), "all": lambda i,h: ("all", h), "any": lambda i,h: ("any", h),
 "and(h,v)": lambda i,h: ("and", h, v(i)), "and(v,h)": lambda i,h: ("and", v(i), h),
 "or(h,v)": lambda i,h: ("or", h, v(i)), "or(v,h)": lambda i,h: ("or", v(i), h),
 "xor(h,v)": lambda i,h: ("xor", h, v(i)), "xor(v,h)": lambda i,h: ("xor", v(i), h),
 "xor(h,tt)": lambda i,h: ("xor", h, "tt"), "xor(tt,h)": lambda i,h: ("xor", "tt", h),
 "and(h,all v)": lambda i,h: ("and", h, ("all", v(i))), "and(all v,h)": lambda i,h: ("and", ("all", v(i)), h),
 "or(h,any v)": lambda i,h: ("or", h, ("any", v(i))),
 "xor(h,not v)": lambda i,h: ("xor", h, ("not", v(i))),
 "and(h,ne)": lambda i,h: ("and", h, ("ne", str(i))),
 "or(h,not v)": lambda i,h: ("or", h, ("not", v(i))),
 "and(h,not v)": lambda i,h: ("and", h, ("not", v(i))),
 "xor(h,ff)": lambda i,h: ("xor", h, "ff"),
 "and(h,tt)": lambda i,h: ("and", h, "tt"),
}
seeds = [v(999), ("ne", "7"), "tt", ("all", v(998)), ("not", v(997))]
depth = int(sys.argv[1]) if len(sys.argv) > 1 else 2
K = [8, 12, 16]
names = list(base)
jobs = []
for d in range(1, depth + 1):
    for combo in itertools.product(names, repeat=d):
        if d > 1 and len(set(combo)) == 1: continue
        for si, s in enumerate(seeds):
            terms = []
            t = s
            lvl = 0
            for k in range(1, K[-1] + 1):
                for j, c in enumerate(reversed(combo)):
                    t = base[c](lvl, t); lvl += 1
                if k in K: terms.append(t)
            jobs.append((combo, si, terms))
lines = []
for combo, si, terms in jobs:
    for t in terms: lines.append("optc iiiiiii " + S.show(t))
print("terms", len(lines), file=sys.stderr)
out = driver.run(lines, exe="driver_cost", src="DriverCost.lean", timeout=30000)
idx = 0
flag = []
for combo, si, terms in jobs:
    cs = []
    for t in terms:
        o = out[idx]; idx += 1
        cs.append(int(o.rsplit(" ", 2)[1]))
    sz = [S.size(t) for t in terms]
    e = math.log(cs[2] / cs[1]) / math.log(sz[2] / sz[1])
    flag.append((e, combo, si, sz, cs))
flag.sort(reverse=True)
for f in flag[:25]: print(f)
