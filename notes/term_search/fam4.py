import sys
sys.path.insert(0, "/tmp/w_term"); sys.path.insert(0, "/repo")
from harness import driver, sx as S
def v(i): return ("var", f"x{i}", "0")
fams = {
 "not(xor(tt,any p))": (lambda t,i: ("not", ("xor", "tt", ("any", t))), ("ne", "7")),
 "any(and(xor(tt,p),not v))": (lambda t,i: ("any", ("and", ("xor", "tt", t), ("not", v(i)))), "tt"),
 "and(any(xor(tt,p)),all v)": (lambda t,i: ("and", ("any", ("xor", "tt", t)), ("all", v(i))), "tt"),
}
for name, (f, seed) in fams.items():
    ts = []
    t = seed
    for i in range(1, 41):
        t = f(t, i); ts.append(t)
    out = driver.run(["optc iiiiiii " + S.show(t) for t in ts], exe="driver_cost", src="DriverCost.lean")
    print(name, [(S.size(t), int(o.rsplit(" ", 2)[1])) for t, o in zip(ts, out)][::3])
