"""Adversarial search for super-quadratic optimize cost on the (repaired) model via driver_cost."""
import math, random, sys
sys.path.insert(0, "/tmp/w_term"); sys.path.insert(0, "/repo")
from harness import driver, sx as S
seed = int(sys.argv[1]) if len(sys.argv) > 1 else 0
rng = random.Random(seed)
def v(i): return ("var", f"x{i}", "0")
ATOMS = [v(i) for i in range(6)] + ["tt", "ff", ("ne", "1"), ("ge", "1"), ("eq", "1"), "notnone"]
UN = ["not", "all", "any"]
BIN = ["and", "or", "xor"]
def rand_tree(n):
    if n <= 1: return rng.choice(ATOMS)
    if rng.random() < 0.4: return (rng.choice(UN), rand_tree(n - 1))
    k = rng.randint(1, n - 2) if n > 2 else 1
    return (rng.choice(BIN), rand_tree(k), rand_tree(max(1, n - 1 - k)))
def subterms(t, path=()):
    yield path, t
    if isinstance(t, tuple) and t[0] in UN + BIN:
        for i, c in enumerate(t[1:], 1):
            yield from subterms(c, path + (i,))
def replace(t, path, new):
    if not path: return new
    l = list(t); l[path[0]] = replace(t[path[0]], path[1:], new); return tuple(l)
def mutate(t):
    subs = list(subterms(t))
    path, s = rng.choice(subs)
    r = rng.random()
    if r < 0.35:   # wrap
        if rng.random() < 0.5: new = (rng.choice(UN), s)
        else:
            o = rand_tree(rng.randint(1, 3))
            new = (rng.choice(BIN), s, o) if rng.random() < 0.5 else (rng.choice(BIN), o, s)
    elif r < 0.55: new = rand_tree(rng.randint(1, 4))
    elif r < 0.75:  # duplicate a context: replace s by a copy of an ancestor-ish subterm
        new = rng.choice(subs)[1]
    elif r < 0.9 and isinstance(s, tuple) and s[0] in UN + BIN:  # change operator
        new = ((rng.choice(UN),) + s[1:]) if s[0] in UN else ((rng.choice(BIN),) + s[1:])
    else:
        new = s[1] if isinstance(s, tuple) and s[0] in UN + BIN else rng.choice(ATOMS)
    return replace(t, path, new)
def score(ts):
    out = driver.run(["optc iiiiiii " + S.show(t) for t in ts], exe="driver_cost", src="DriverCost.lean", timeout=600)
    res = []
    for t, o in zip(ts, out):
        sz = S.size(t)
        if o.startswith(("FUEL", "ERR")): res.append((0.0, 0, sz)); continue
        c = int(o.rsplit(" ", 2)[1])
        res.append(((c / (sz * sz)) if sz >= 50 else 0.0, c, sz))
    return res
MAXSZ = 120
pop = [rand_tree(rng.randint(50, 70)) for _ in range(60)]
sc = score(pop)
best = (0, None)
for gen in range(int(sys.argv[2]) if len(sys.argv) > 2 else 150):
    cand = []
    for t in pop:
        for _ in range(4):
            m = mutate(t)
            if S.size(m) <= MAXSZ: cand.append(m)
    cs = score(cand)
    allp = list(zip(sc, pop)) + list(zip(cs, cand))
    # objective: calls/size^2, prefer larger sizes slightly
    allp.sort(key=lambda x: -(x[0][0] * (1 + 0.002 * x[0][2])))
    seen = set(); npop = []; nsc = []
    for s_, t in allp:
        k = S.show(t)
        if k in seen: continue
        seen.add(k); npop.append(t); nsc.append(s_)
        if len(npop) == 60: break
    pop, sc = npop, nsc
    if gen % 10 == 0: print(gen, sc[0], S.show(pop[0])[:200], flush=True)
print("FINAL", sc[0], S.show(pop[0]))
