import sys, os
repo = sys.argv[1]
sys.path.insert(0, "/tmp/w_term"); sys.path.insert(0, repo)
os.environ["PYPRED_REPO"] = repo
sys.setrecursionlimit(100000)
from harness import lift, optcorr, sx as S
def v(i): return ("var", f"x{i}", "0")
def chain(n):
    t = v(0)
    for i in range(1, n):
        t = ("any", ("not", ("and", ("or", t, v(i + n)), v(i))))
    return t
for n in [int(a) for a in sys.argv[2:]]:
    t = chain(n)
    o, c = optcorr.optimize_counted(lift.lower(t, {}), None)
    print(n, S.size(t), c, 20*S.size(t)**2+2000)
