import sys, time
sys.path.insert(0, "/tmp/w_term"); sys.path.insert(0, "/repo")
sys.setrecursionlimit(100000)
from harness import lift, optcorr, sx as S
def v(i): return ("var", f"x{i}", "0")
def fam(k):
    t = v(0)
    for i in range(1, k+1):
        t = ("any", ("not", ("and", ("or", t, v(1000+i)), v(i))))
    return t
for k in (4, 8, 12, 16, 20, 24, 26):
    t = fam(k)
    p = lift.lower(t, {})
    t0 = time.time()
    o, n = optcorr.optimize_counted(p, None)
    print(k, S.size(t), n, f"{time.time()-t0:.2f}s", flush=True)
