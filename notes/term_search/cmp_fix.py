import os, random, sys
repo = sys.argv[1]
sys.path.insert(0, "/tmp/w_term"); sys.path.insert(0, repo)
os.environ["PYPRED_REPO"] = repo
sys.setrecursionlimit(100000)
from harness import cases, lift, sx as S
from predicate import optimize
rng = random.Random(5)
qleaves = list(cases.quantified_atoms(cases.elem_preds()))[:60] + cases.coll_atoms() + ["tt", "ff"] + cases.prop_leaves(cases.NAMES3)
cs = [cases.random_tree(rng, rng.randint(3, 20), qleaves) for _ in range(20000)]
for s in cs:
    try:
        o = optimize(lift.lower(s, {}))
        print(S.show(s), "=>", S.show(lift.lift(o)))
    except Exception as e:
        print(S.show(s), "=> RAISED", type(e).__name__)
