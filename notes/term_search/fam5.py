import sys, math
sys.path.insert(0, "/tmp/w_term"); sys.path.insert(0, "/repo")
from harness import driver, sx as S
def v(i): return ("var", f"x{i}", "0")
def allm(m, t):
    for _ in range(m): t = ("all", t)
    return t
def fam(k, m):
    t = "notnone"
    for i in range(k):
        t = ("and", allm(m, v(i)), ("all", t))
    return t
rows = []
for k, m in [(4,4),(8,4),(16,4),(32,4),(4,8),(8,8),(16,8),(32,8),(8,16),(16,16),(32,16),(64,4),(64,8)]:
    rows.append((k, m, fam(k, m)))
out = driver.run(["optc iiiiiii " + S.show(t) for _,_,t in rows], exe="driver_cost", src="DriverCost.lean", timeout=3000)
for (k, m, t), o in zip(rows, out):
    sz = S.size(t); c = int(o.rsplit(" ", 2)[1])
    print(k, m, sz, c, round(c/sz**2, 3), round(math.log(c)/math.log(sz), 3))
