import itertools, sys, collections, re
sys.path.insert(0, "/repo")
from predicate import *
from predicate.predicate import *
from predicate.set_predicates import *
from predicate.standard_predicates import *
from predicate.range_predicate import *
from predicate.named_predicate import NamedPredicate
from predicate.str_predicates import *
from predicate.property_predicate import PropertyPredicate
from predicate.ip_address_predicates import *
f1 = lambda x: x > 2
f2 = lambda x: x > 3
ps = {
 'eq1': eq_p(1), 'eq2': eq_p(2), 'ne1': ne_p(1), 'ne2': ne_p(2), 'ge1': ge_p(1), 'ge2': ge_p(2), 'gt1': gt_p(1), 'gt2': gt_p(2),
 'le1': le_p(1), 'le2': le_p(2), 'lt1': lt_p(1), 'lt2': lt_p(2),
 'gele12': ge_le_p(1,2), 'gele13': ge_le_p(1,3), 'gele23': ge_le_p(2,3), 'gelt12': ge_lt_p(1,2), 'gelt13': ge_lt_p(1,3), 'gtle12': gt_le_p(1,2), 'gtle13': gt_le_p(1,3), 'gtlt12': gt_lt_p(1,2), 'gtlt13': gt_lt_p(1,3),
 'in12': in_p(1,2), 'in21': in_p(2,1), 'in13': in_p(1,3), 'nin12': not_in_p(1,2), 'nin13': not_in_p(1,3),
 'sub12': is_subset_p({1,2}), 'sub13': is_subset_p({1,3}), 'rsub12': is_real_subset_p({1,2}), 'rsub13': is_real_subset_p({1,3}),
 'sup12': is_superset_p({1,2}), 'sup13': is_superset_p({1,3}), 'rsup12': is_real_superset_p({1,2}), 'rsup13': is_real_superset_p({1,3}),
 'rx_foo': regex_p('^foo'), 'rx_bar': regex_p('^bar'), 'hk_a': has_key_p('a'), 'hk_b': has_key_p('b'), 'hl1': has_length_p(1), 'hl2': has_length_p(2),
 'int': is_int_p, 'str': is_str_p, 'fn1': fn_p(f1), 'fn2': fn_p(f2), 'fn1b': fn_p(f1), 'lazy_a': lazy_p('a'), 'lazy_b': lazy_p('b'),
 'named_p': NamedPredicate('p'), 'named_q': NamedPredicate('q'), 'named_pT': NamedPredicate('p', True),
 'all_eq1': all_p(eq_p(1)), 'all_eq2': all_p(eq_p(2)), 'any_eq1': any_p(eq_p(1)), 'any_eq2': any_p(eq_p(2)),
 'tup1': is_tuple_of_p(eq_p(1)), 'tup2': is_tuple_of_p(eq_p(2)), 'tup11': is_tuple_of_p(eq_p(1), eq_p(1)), 'set1': is_set_of_p(eq_p(1)), 'set2': is_set_of_p(eq_p(2)),
 'dict1': is_dict_of_p(('a', eq_p(1))), 'dict2': is_dict_of_p(('a', eq_p(2))), 'comp1': comp_p(len, eq_p(1)), 'comp2': comp_p(len, eq_p(2)), 'comp3': comp_p(abs, eq_p(1)),
 'tee1': tee_p(print), 'tee2': tee_p(repr), 'alpha': is_alpha_p, 'alnum': is_alnum_p, 'sw_a': starts_with_p('a'), 'sw_b': starts_with_p('b'),
 'ip1': is_ipv4_address_global_p, 'ip2': is_ipv4_address_private_p, 'none': is_none_p, 'notnone': is_not_none_p, 'empty': is_empty_p, 'nempty': is_not_empty_p, 'T': always_true_p, 'F': always_false_p, 'truthy': is_truthy_p, 'falsy': is_falsy_p,
 'this': this_p.predicate, 'root': root_p.predicate,
}
names = list(ps)
for a, b in itertools.combinations(names, 2):
    e1 = ps[a] == ps[b]; e2 = ps[b] == ps[a]
    if e1 != e2: print("ASYM", a, b)
    if e1: print("EQUAL", a, b)
for a in names:
    if not (ps[a] == ps[a]): print("NONREFL", a)
p, q = ps['ge1'], ps['lt2']
print((p & q) == (q & p), (p | q) == (q | p), (p ^ q) == (q ^ p), (p & q) == (p | q))
print(optimize(regex_p('^foo') | regex_p('^bar')))
