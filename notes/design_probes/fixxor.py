# monkeypatch: corrected xor rules, to see what else fails
import sys
sys.path.insert(0, "/repo")
import predicate.optimizer.xor_optimizer as X
import predicate.optimizer.predicate_optimizer as PO
from predicate.predicate import *
from predicate.set_predicates import InPredicate
from predicate.optimizer.in_optimizer import optimize_in_predicate

def optimize_xor_predicate(predicate):
    optimize = PO.optimize
    if optimized := X.optimize_xor_not(left=predicate.left, right=predicate.right):
        return optimized
    left = optimize(predicate.left); right = optimize(predicate.right)
    if optimized := X.optimize_xor_not(left=left, right=right):
        return optimized
    match left, right:
        case _, AlwaysFalsePredicate(): return left
        case AlwaysFalsePredicate(), _: return right
        case _, AlwaysTruePredicate(): return optimize(NotPredicate(predicate=left))
        case AlwaysTruePredicate(), _: return optimize(NotPredicate(predicate=right))
        case _, _ if left == right: return always_false_p
        case InPredicate(v1), InPredicate(v2): return optimize_in_predicate(InPredicate(v=v1 ^ v2))
        case InPredicate(v1), EqPredicate(v2): return optimize_in_predicate(InPredicate(v=v1 ^ {v2}))
        case _, AndPredicate(and_left, and_right):
            match and_left, and_right:
                case NotPredicate(not_predicate), _ if left == not_predicate:
                    return OrPredicate(left=left, right=and_right)
                case _, NotPredicate(not_predicate) if left == not_predicate:
                    return OrPredicate(left=left, right=and_left)
                case _ if left == and_left:
                    return AndPredicate(left=left, right=NotPredicate(and_right))
                case _ if left == and_right:
                    return AndPredicate(left=left, right=NotPredicate(and_left))
                case _:
                    return XorPredicate(left=left, right=right)
        case AndPredicate(), _:
            return optimize_xor_predicate(XorPredicate(left=right, right=left))
        case _, OrPredicate(or_left, or_right) if left == or_left:
            return AndPredicate(NotPredicate(left), or_right)
        case _, OrPredicate(or_left, or_right) if left == or_right:
            return AndPredicate(NotPredicate(left), or_left)
        case OrPredicate(or_left, or_right), _ if right == or_left:
            return AndPredicate(NotPredicate(right), or_right)
        case OrPredicate(or_left, or_right), _ if right == or_right:
            return AndPredicate(NotPredicate(right), or_left)
        case XorPredicate(xor_left, xor_right), _ if right == xor_left: return xor_right
        case XorPredicate(xor_left, xor_right), _ if right == xor_right: return xor_left
        case _: return XorPredicate(left=left, right=right)
X.optimize_xor_predicate = optimize_xor_predicate
PO.optimize_xor_predicate = optimize_xor_predicate
