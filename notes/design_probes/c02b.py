import itertools, sys, collections
sys.path.insert(0, "/repo")
import fixxor
exec(open('c02.py').read().split("bad = collections")[0])
atoms = [eq_p(1), eq_p(2), ne_p(2), ge_p(1), ge_p(2), gt_p(1), gt_p(2), le_p(2), le_p(3), lt_p(2), lt_p(3), in_p(1,2), in_p(2,3), in_p(2), not_in_p(2,3), not_in_p(1), in_p(), not_in_p(), is_none_p, is_truthy_p, is_int_p, is_str_p, always_true_p, always_false_p, ge_le_p(1,2)]
bad = collections.defaultdict(list); n=0
def check(p):
    global n
    n += 1
    try:
        o = optimize(p)
    except Exception as e:
        bad['EXC ' + type(e).__name__].append((p, repr(e))); return
    ats = atoms_of(p)
    for x in values_any:
        if not all(defined(a, x) for a in ats): continue
        try: got = o(x)
        except Exception as e:
            bad['EVAL-EXC'].append((p, o, x, repr(e))); break
        if bool(got) != bool(p(x)):
            bad['WRONG'].append((p, o, x)); break
ops = [lambda a,b: a & b, lambda a,b: a | b, lambda a,b: a ^ b]
for a, b, c in itertools.product(atoms, repeat=3):
    for o1 in ops:
        for o2 in ops:
            check(o1(o2(a,b),c)); check(o1(a,o2(b,c))); check(o1(~o2(a,b),c)); check(~o1(a,o2(~b,c)))
print("checked", n)
for k, v in sorted(bad.items()):
    print(k, len(v))
    for e in v[:15]: print('    ', e)
