import itertools, sys, collections
sys.path.insert(0, "/repo")
from predicate import optimize, always_true_p, always_false_p
from predicate.named_predicate import NamedPredicate
from predicate.predicate import AndPredicate, OrPredicate, XorPredicate, NotPredicate, AlwaysTruePredicate, AlwaysFalsePredicate

# AST as tuples
def build(t, env):
    k = t[0]
    if k == 'v': return env[t[1]]
    if k == 'T': return always_true_p
    if k == 'F': return always_false_p
    if k == 'n': return NotPredicate(build(t[1], env))
    c = {'a': AndPredicate, 'o': OrPredicate, 'x': XorPredicate}[k]
    return c(build(t[1], env), build(t[2], env))

def show(t):
    k=t[0]
    if k=='v': return "pqrs"[t[1]]
    if k=='T': return 'true'
    if k=='F': return 'false'
    if k=='n': return '~'+show(t[1])
    return '('+show(t[1])+' '+{'a':'&','o':'|','x':'^'}[k]+' '+show(t[2])+')'

def ev(t, asg):
    k=t[0]
    if k=='v': return asg[t[1]]
    if k=='T': return True
    if k=='F': return False
    if k=='n': return not ev(t[1], asg)
    l, r = ev(t[1],asg), ev(t[2],asg)
    return {'a': l and r, 'o': l or r, 'x': l != r}[k]

NV = 3
from functools import lru_cache
@lru_cache(None)
def terms(size):
    if size == 1:
        return [('v',i) for i in range(NV)] + [('T',),('F',)]
    out = [('n', t) for t in terms(size-1)]
    for ls in range(1, size-1):
        rs = size-1-ls
        for k in 'aox':
            for l in terms(ls):
                for r in terms(rs):
                    out.append((k,l,r))
    return out

def names_eval(pred, env, asg):
    for i,v in enumerate(env): v.v = asg[i]
    return pred(False)

bad = []
total = 0
maxsize = int(sys.argv[1])
for size in range(1, maxsize+1):
    for t in terms(size):
        total += 1
        env = [NamedPredicate(name="pqrs"[i]) for i in range(NV)]
        p = build(t, env)
        try:
            o = optimize(p)
        except Exception as e:
            bad.append((t, 'EXC '+repr(e))); continue
        for asg in itertools.product([False,True], repeat=NV):
            exp = ev(t, asg)
            got = names_eval(o, env, asg)
            if bool(got) != exp:
                bad.append((t, repr(o), asg)); break
print("total", total, "bad", len(bad))
seen = collections.Counter()
for b in bad[:40]:
    print(show(b[0]), '->', b[1], b[2:] )
