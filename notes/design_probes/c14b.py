import sys, itertools, collections
sys.path.insert(0, "/repo")
import predicate.parser as P
from predicate.named_predicate import NamedPredicate
from predicate.predicate import *
# monkeypatch F3 so multi-letter names work
def variable(self, item): return NamedPredicate(name=str(item[0]))
P._PredicateTransformer.variable = variable
from predicate.parser import parse_expression

TOK = ['a','b','c','true','~','&','|','^','(',')']
def strict(p):
    if isinstance(p, AndPredicate): return ('&', strict(p.left), strict(p.right))
    if isinstance(p, OrPredicate): return ('|', strict(p.left), strict(p.right))
    if isinstance(p, XorPredicate): return ('^', strict(p.left), strict(p.right))
    if isinstance(p, NotPredicate): return ('~', strict(p.predicate))
    if isinstance(p, AlwaysTruePredicate): return 'true'
    if isinstance(p, AlwaysFalsePredicate): return 'false'
    return p.name

# reference precedence parser: ~ > &,^ (left assoc, same level) > |
def ref_parse(toks):
    pos = [0]
    def peek(): return toks[pos[0]] if pos[0] < len(toks) else None
    def eat(): pos[0]+=1; return toks[pos[0]-1]
    def unary():
        t = peek()
        if t == '~': eat(); return ('~', unary())
        if t == '(':
            eat(); e = expr()
            if peek() != ')': raise SyntaxError
            eat(); return ('grp', e)
        if t is None or t in '&|^)': raise SyntaxError
        eat(); return t
    def term():
        l = unary()
        while peek() in ('&','^'):
            op = eat(); r = unary(); l = (op, l, r)
        return l
    def expr():
        l = term()
        while peek() == '|':
            eat(); r = term(); l = ('|', l, r)
        return l
    e = expr()
    if pos[0] != len(toks): raise SyntaxError
    return e
def strip(t):
    if isinstance(t, str): return t
    if t[0]=='grp': return strip(t[1])
    return (t[0],)+tuple(strip(x) for x in t[1:])
def ev(t, env):
    if isinstance(t,str): return {'true':True,'false':False}.get(t, env.get(t))
    if t[0]=='~': return not ev(t[1],env)
    a,b = ev(t[1],env), ev(t[2],env)
    return {'&': a and b, '|': a or b, '^': a!=b}[t[0]]
def table(t):
    return tuple(ev(t, dict(zip('abc',asg))) for asg in itertools.product([False,True],repeat=3))
def inorder(t):
    if isinstance(t,str): return [t]
    if t[0]=='~': return ['~']+inorder(t[1])
    return inorder(t[1])+[t[0]]+inorder(t[2])
def not_scope_ok(toks, tree):
    # every ~ in tree applies to: a name/const, a ~..., or a subtree that corresponds to a parenthesised group
    # check by re-deriving: the operand of ~ must be 'unary' in the ref grammar: name, ~unary, or group
    ref = ref_parse(toks)
    # collect operands-of-not in ref in order (structure sizes) and compare with tree's
    def nots(t, acc):
        if isinstance(t,str): return
        if t[0]=='~': acc.append(len(inorder(strip(t[1])))); nots(t[1],acc); return
        if t[0]=='grp': nots(t[1],acc); return
        nots(t[1],acc); nots(t[2],acc)
    def nots2(t, acc):
        if isinstance(t,str): return
        if t[0]=='~': acc.append(len(inorder(t[1]))); nots2(t[1],acc); return
        nots2(t[1],acc); nots2(t[2],acc)
    a=[]; b=[]; nots(ref,a); nots2(tree,b)
    return a==b
stats = collections.Counter(); examples = collections.defaultdict(list)
maxlen = int(sys.argv[1])
for n in range(1, maxlen+1):
    for toks in itertools.product(TOK, repeat=n):
        s = ' '.join(toks)
        try: ref = ref_parse(list(toks)); in_lang = True
        except (SyntaxError, RecursionError): in_lang = False
        try:
            r = parse_expression(s); impl = 'none' if r is None else 'tree'
        except Exception as e:
            impl = 'exc'
        if in_lang and impl != 'tree':
            stats['REJECTS-VALID']+=1; examples['REJECTS-VALID'].append(s); continue
        if not in_lang and impl == 'tree':
            stats['ACCEPTS-INVALID']+=1; examples['ACCEPTS-INVALID'].append((s, strict(r))); continue
        if not in_lang: stats['ok-reject-'+impl]+=1; continue
        t = strict(r)
        stoks = [x for x in toks if x not in '()']
        if inorder(t) != stoks: stats['BAD-ORDER']+=1; examples['BAD-ORDER'].append((s,t)); continue
        if not not_scope_ok(list(toks), t): stats['BAD-NOT-SCOPE']+=1; examples['BAD-NOT-SCOPE'].append((s,t)); continue
        mixed = '|' in stoks and ('&' in stoks or '^' in stoks)
        if table(t) != table(strip(ref)):
            if mixed or True:
                k = 'BAD-TABLE-mixed' if mixed else 'DIFF-TABLE-unmixed(&^ only)'
                stats[k]+=1; examples[k].append((s,t)); continue
        stats['ok-accept']+=1
print(dict(stats))
for k,v in examples.items():
    print(k, len(v)); 
    for e in v[:12]: print('    ', e)
