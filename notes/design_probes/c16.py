import sys
sys.path.insert(0, "/repo")
from predicate import *
from predicate.standard_predicates import *

def spec(base):
    def f(x):
        return base(x) or (isinstance(x, list) and all(f(e) for e in x))
    return f

def t1():
    P = is_str_p | is_list_of_p(this_p)
    return [P(x) for x in ["a", ["a"], [["a"], "b"], [1], 1, []]]
def t2():
    A = is_int_p | is_list_of_p(this_p)
    P = is_str_p | is_list_of_p(this_p)
    return [P(x) for x in ["a", ["a"], [["a"], "b"], [1], 1, []]]
def t3():
    P = is_str_p | is_list_of_p(this_p)
    A = is_int_p | is_list_of_p(this_p)
    return [P(x) for x in ["a", ["a"], [["a"], "b"], [1], 1, []]]
def t4():
    P = is_str_p | is_list_of_p(this_p)
    def inner(x):
        def inner2(x): return P(x)
        return inner2(x)
    return [inner(x) for x in ["a", ["a"], [["a"], "b"], [1], 1, []]]
def t5():
    other = is_int_p & is_str_p
    P = is_str_p | is_list_of_p(lazy_p("P"))
    return [P(x) for x in ["a", ["a"], [["a"], "b"], [1], 1, []]]
def t6():
    P = is_str_p | is_list_of_p(root_p)
    return [P(x) for x in ["a", ["a"], [["a"], "b"], [1], 1, []]]
def t7():
    A = is_int_p | is_list_of_p(root_p)
    P = is_str_p | is_list_of_p(root_p)
    return [P(x) for x in ["a", ["a"], [["a"], "b"], [1], 1, []]]
def t8():
    P = is_str_p | is_list_of_p(root_p)
    A = is_int_p | is_list_of_p(root_p)
    return [P(x) for x in ["a", ["a"], [["a"], "b"], [1], 1, []]]
exp = [spec(is_str_p)(x) for x in ["a", ["a"], [["a"], "b"], [1], 1, []]]
print("expected", exp)
for t in (t1,t2,t3,t4,t5,t6,t7,t8):
    try: print(t.__name__, t())
    except Exception as e: print(t.__name__, 'EXC', type(e).__name__, e)
from predicate.standard_predicates import is_json_p
for x in [{}, {"a": 1}, [], [1], {"a": [1, {"b": None}]}, 1, {1: 2}]:
    try: print("is_json_p", x, is_json_p(x))
    except Exception as e: print("is_json_p", x, 'EXC', type(e).__name__, e)
