import sys, itertools
sys.path.insert(0, "/repo")
from predicate import *
from predicate.predicate import *
from predicate.set_predicates import *
from predicate.standard_predicates import *
from predicate.str_predicates import *
from predicate.negate import negate
from predicate.named_predicate import NamedPredicate
atoms = [eq_p(1), ne_p(1), ge_p(1), gt_p(1), le_p(1), lt_p(1), ge_le_p(1,2), ge_lt_p(1,2), gt_le_p(1,2), gt_lt_p(1,2), in_p(), in_p(1), in_p(1,2), not_in_p(), not_in_p(1), not_in_p(1,2),
  is_none_p, is_not_none_p, is_truthy_p, is_falsy_p, is_empty_p, is_not_empty_p, always_true_p, always_false_p, is_int_p, is_instance_p(int,str), fn_p(lambda x: x>1), is_alpha_p,
  is_subset_p(set()), is_subset_p({1}), is_real_subset_p({1}), is_superset_p({1}), is_real_superset_p(set()), regex_p('a'), has_key_p('a'), has_length_p(1), NamedPredicate('p'), lazy_p('x'),
  is_tuple_of_p(is_int_p), is_set_of_p(is_int_p), comp_p(len, eq_p(1)), tee_p(print), is_dict_of_p(('a', is_int_p)), eq_p('a'), eq_p(None), eq_p(True)]
laws = {
 'p&~p=F': (lambda p: p & ~p, lambda p: always_false_p), '~p&p=F': (lambda p: ~p & p, lambda p: always_false_p),
 'p&neg=F': (lambda p: p & negate(p), lambda p: always_false_p), 'neg&p=F': (lambda p: negate(p) & p, lambda p: always_false_p),
 'p|~p=T': (lambda p: p | ~p, lambda p: always_true_p), '~p|p=T': (lambda p: ~p | p, lambda p: always_true_p),
 'p|neg=T': (lambda p: p | negate(p), lambda p: always_true_p), 'neg|p=T': (lambda p: negate(p) | p, lambda p: always_true_p),
 'p^~p=T': (lambda p: p ^ ~p, lambda p: always_true_p), '~p^p=T': (lambda p: ~p ^ p, lambda p: always_true_p),
 'p^neg=T': (lambda p: p ^ negate(p), lambda p: always_true_p), 'neg^p=T': (lambda p: negate(p) ^ p, lambda p: always_true_p),
 'p^p=F': (lambda p: p ^ p, lambda p: always_false_p),
 'p&p=p': (lambda p: p & p, optimize), 'p|p=p': (lambda p: p | p, optimize),
 'p&T=p': (lambda p: p & always_true_p, optimize), 'T&p=p': (lambda p: always_true_p & p, optimize),
 'p|F=p': (lambda p: p | always_false_p, optimize), 'F|p=p': (lambda p: always_false_p | p, optimize),
 'p^F=p': (lambda p: p ^ always_false_p, optimize), 'F^p=p': (lambda p: always_false_p ^ p, optimize),
 '~~p=p': (lambda p: ~~p, optimize),
 'p^T=~p': (lambda p: p ^ always_true_p, lambda p: optimize(~p)), 'T^p=~p': (lambda p: always_true_p ^ p, lambda p: optimize(~p)),
 'p&F=F': (lambda p: p & always_false_p, lambda p: always_false_p), 'F&p=F': (lambda p: always_false_p & p, lambda p: always_false_p),
 'p|T=T': (lambda p: p | always_true_p, lambda p: always_true_p), 'T|p=T': (lambda p: always_true_p | p, lambda p: always_true_p),
}
for name,(mk,exp) in laws.items():
    for a in atoms:
        try:
            got = optimize(mk(a)); e = exp(a)
            if not (got == e): print(f"{name:10s} atom={a!r:35.35s} got={got!r:40.40s} expected={e!r}")
        except Exception as ex:
            print(f"{name:10s} atom={a!r:35.35s} EXC {type(ex).__name__}: {str(ex)[:60]}")
