import sys, itertools
sys.path.insert(0, "/repo")
if len(sys.argv) > 1: import fixxor
from predicate import *
from predicate.predicate import *
from predicate.set_predicates import *
from predicate.standard_predicates import *
from predicate.range_predicate import *
from predicate.named_predicate import NamedPredicate

def w(p):
    match p:
        case AndPredicate(l, r) | OrPredicate(l, r) | XorPredicate(l, r): return 1 + w(l) + w(r)
        case NotPredicate(q) | AllPredicate(q) | AnyPredicate(q): return 1 + w(q)
        case NePredicate() | NotInPredicate() | IsNotNonePredicate() | IsNotEmptyPredicate() | IsFalsyPredicate(): return 2
        case LtPredicate() | LePredicate(): return 2   # negate(ge)=lt etc: symmetrical duals both directions -> need equal weights? test
        case _: return 1
# duals: negate(ge)=lt, negate(lt)=ge: Not(ge) (w=2) -> lt ; Not(lt) -> ge.  so lt<=2, ge<=1+w(lt)  ok with ge=1, lt=2; gt=1, le=2
def root_and(p): return isinstance(p, AndPredicate)
atoms = [always_true_p, always_false_p, NamedPredicate('p'), NamedPredicate('q'), eq_p(1), ne_p(1), ge_p(1), ge_p(2), lt_p(2), le_p(2), gt_p(1), in_p(1,2), in_p(1), in_p(), not_in_p(1,2), not_in_p(1), not_in_p(), is_none_p, is_not_none_p, is_empty_p, is_truthy_p, is_falsy_p, is_int_p, is_str_p, fn_p(lambda x: True), is_subset_p({1}), is_subset_p({2})]
from functools import lru_cache
def gen(size, pool):
    if size == 1:
        yield from pool; return
    for q in gen(size-1, pool):
        yield ~q; yield all_p(q); yield any_p(q)
    for ls in range(1, size-1):
        for l in gen(ls, pool):
            for r in gen(size-1-ls, pool):
                yield l & r; yield OrPredicate(l, r); yield l ^ r
bad=0; bad2=0; n=0
small = atoms[:4] + [eq_p(1), ne_p(1), ge_p(1), lt_p(2), in_p(1,2), not_in_p(1), is_none_p, is_not_none_p]
for size, pool in ((1, atoms), (2, atoms), (3, atoms), (4, small), (5, small[:7])):
    for p in gen(size, pool):
        n+=1
        try: o = optimize(p)
        except Exception as e: continue
        if w(o) > w(p):
            bad+=1
            if bad < 15: print("GROW", repr(p), '->', repr(o), w(p), w(o))
        if root_and(o) and not root_and(p) and not w(o) < w(p):
            bad2+=1
            if bad2 < 15: print("ROOTAND", repr(p), '->', repr(o), w(p), w(o))
print(n, bad, bad2)
