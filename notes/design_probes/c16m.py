import sys
sys.path.insert(0, "/repo")
from predicate import is_list_of_p, is_str_p, this_p, root_p, is_int_p, lazy_p

P = is_str_p | is_list_of_p(this_p)
for x in ["a", ["a"], [["a"]], [1]]:
    try: print("this/module", x, P(x))
    except Exception as e: print("this/module", x, "EXC", type(e).__name__, e)
R = is_str_p | is_list_of_p(root_p)
for x in ["a", ["a"], [["a"]], [1]]:
    try: print("root/module", x, R(x))
    except Exception as e: print("root/module", x, "EXC", type(e).__name__, e)
L = is_str_p | is_list_of_p(lazy_p("L"))
for x in ["a", ["a"], [["a"]], [1]]:
    try: print("lazy/module", x, L(x))
    except Exception as e: print("lazy/module", x, "EXC", type(e).__name__, e)
def f():
    Q = is_int_p | is_list_of_p(this_p)
    return [Q(x) for x in [1, [1], [[1]], ["a"]]]
print("this/function-with-module-P-visible", f())
