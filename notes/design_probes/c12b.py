import sys, copy, itertools, random
sys.path.insert(0, "/repo")
from predicate import *
from predicate.predicate import *
from predicate.set_predicates import *
from predicate.standard_predicates import *
from predicate.negate import negate
from predicate.implies import implies
from predicate.named_predicate import NamedPredicate
def snap(p, seen=None):
    # deep structural snapshot incl. set contents and identity of set objects
    if isinstance(p, Predicate):
        d = {k: snap(v) for k, v in vars(p).items() if k not in ('frame',)}
        return (type(p).__name__, id(p), tuple(sorted(d.items(), key=lambda kv: kv[0])))
    if isinstance(p, (set, frozenset)): return ('set', id(p), tuple(sorted(map(repr, p))))
    if isinstance(p, (list, tuple)): return (type(p).__name__, id(p), tuple(snap(x) for x in p))
    return ('val', repr(p))
atoms = [eq_p(1), ne_p(2), ge_p(1), lt_p(3), in_p(1,2), in_p(2,3), not_in_p(1), not_in_p(2,3), is_subset_p({1,2}), is_subset_p({2,3}), is_none_p, is_int_p, always_true_p, NamedPredicate('p'), all_p(in_p(1,2)), any_p(eq_p(1)), is_set_of_p(in_p(1,2)), ge_le_p(1,3)]
import signal
class TO(Exception): pass
def _h(s,f): raise TO()
signal.signal(signal.SIGALRM, _h)
def guarded(f):
    def g(p):
        signal.setitimer(signal.ITIMER_REAL, 0.2)
        try: return f(p)
        except TO: return 'TIMEOUT'
        finally: signal.setitimer(signal.ITIMER_REAL, 0)
    return g
def ops():
    yield 'optimize', lambda p: optimize(p)
    yield 'can_optimize', lambda p: can_optimize(p)
    yield 'negate', lambda p: negate(p)
    yield 'implies', lambda p: implies(p, p)
    yield 'to_json', lambda p: to_json(p)
    yield 'to_dot', lambda p: to_dot(p, show_optimized=True)
    def gt(p):
        try: return list(itertools.islice(generate_true(p), 3))
        except TO: raise
        except Exception: return None
    def gf(p):
        try: return list(itertools.islice(generate_false(p), 3))
        except TO: raise
        except Exception: return None
    yield 'gen_true', guarded(gt)
    yield 'gen_false', guarded(gf)
bad=0; n=0
for a,b in itertools.product(atoms, repeat=2):
    for mk in (lambda a,b: a&b, lambda a,b: a|b, lambda a,b: a^b, lambda a,b: ~(a&b)):
        p = mk(a,b)
        for name, op in ops():
            before = snap(p)
            try: op(p)
            except Exception as e: pass
            n+=1
            if snap(p) != before:
                bad+=1
                if bad<10: print("MUTATED by", name, repr(p))
print(n, bad)
