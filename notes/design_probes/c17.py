import sys, json, math
sys.path.insert(0, "/repo")
from predicate import *
from predicate.standard_predicates import *
from predicate.set_predicates import *
from predicate.str_predicates import *
from predicate.named_predicate import NamedPredicate
import predicate.standard_predicates as SP
from predicate.predicate import is_not_empty_p
cands = {
 'ge_le': ge_le_p(1,5), 'ge_lt': ge_lt_p(1,5), 'gt_le': gt_le_p(1,5), 'gt_lt': gt_lt_p(1,5), 'fn_lambda': fn_p(lambda x: x), 'fn_len': fn_p(len), 'is_finite': is_finite_p, 'is_alpha': is_alpha_p,
 'regex': regex_p('a'), 'has_key': has_key_p('a'), 'has_length': has_length_p(1), 'tuple_of': is_tuple_of_p(is_int_p), 'set_of': is_set_of_p(is_int_p), 'dict_of': is_dict_of_p(('a', is_int_p)), 'is_empty': is_empty_p, 'not_empty': is_not_empty_p, 'not_none': is_not_none_p,
 'comp': comp_p(len, eq_p(1)), 'and3': (ge_p(1) & le_p(2)) | ~eq_p(3), 'named': NamedPredicate('p') ^ NamedPredicate('q'), 'in': in_p(1,2), 'notin': not_in_p(1,2), 'sub': is_subset_p({1}), 'this': is_str_p | is_list_of_p(this_p), 'lazy': lazy_p('nope'),
 'inst2': is_instance_p(int, str), 'starts': starts_with_p('a'), 'eq': eq_p(1), 'tee': tee_p(print), 'is_int': is_int_p, 'callable': is_callable_p,
}
for k, p in cands.items():
    try:
        d = to_dot(p, "t", show_optimized=True)
        print("DOT ", k, 'OK', [l.strip() for l in d.body if 'label=' in l and 'cluster' not in l][:6])
    except Exception as e:
        print("DOT ", k, 'EXC', type(e).__name__, str(e)[:70])
    try:
        j = to_json(p); json.dumps(j)
        print("JSON", k, j)
    except Exception as e:
        print("JSON", k, 'EXC', type(e).__name__, str(e)[:70])
