import itertools, sys, collections
sys.path.insert(0, "/repo")
import fixxor
from predicate import *
from predicate.predicate import *
from predicate.set_predicates import *
from predicate.standard_predicates import *
from predicate.negate import negate
from predicate.implies import implies

elem_atoms = [eq_p(1), ne_p(1), ge_p(2), lt_p(2), in_p(1,2), not_in_p(1,2), is_none_p, is_not_none_p, always_true_p, always_false_p, is_int_p]
elem_preds = list(elem_atoms) + [~a for a in elem_atoms[:6]] + [a & b for a,b in itertools.product(elem_atoms[:5], repeat=2)] + [a | b for a,b in itertools.product(elem_atoms[:5], repeat=2)]
colls = [[], [1], [2], [3], [1,2], [2,3], [1,1], [1,2,3], (1,), (), {1,2}, set()]
quant = []
for e in elem_preds:
    quant += [all_p(e), any_p(e)]
quant += [is_empty_p, is_not_empty_p, always_true_p, always_false_p]
bad = collections.defaultdict(list); n=0
def check(p, dom):
    global n; n+=1
    try: o = optimize(p)
    except Exception as e:
        bad['EXC'].append((p, repr(e))); return
    for x in dom:
        try: exp = p(x)
        except TypeError: continue
        try: got = o(x)
        except Exception as e:
            bad['EVAL-EXC'].append((p,o,x,repr(e))); break
        if bool(got) != bool(exp):
            bad['WRONG'].append((p,o,x)); break
for q in quant:
    check(q, colls); check(~q, colls)
small = quant[:40] + quant[-4:]
for a,b in itertools.product(small, repeat=2):
    for mk in (lambda a,b: a&b, lambda a,b: a|b, lambda a,b: a^b, lambda a,b: ~(a&b), lambda a,b: ~a | b):
        check(mk(a,b), colls)
# nested quantifiers
nested_colls = [[], [[]], [[1]], [[1],[2]], [[],[1,2]], [[2,3],[3]]]
for e in elem_preds[:20]:
    for q1 in (all_p, any_p):
        for q2 in (all_p, any_p):
            check(q1(q2(e)), nested_colls); check(~q1(~q2(e)), nested_colls); check(q1(~q2(~e)), nested_colls)
# sets
sets = [set(), {1}, {2}, {1,2}, {2,3}, {1,2,3}, {4}]
satoms = []
for s in sets[:6]:
    satoms += [is_subset_p(s), is_real_subset_p(s), is_superset_p(s), is_real_superset_p(s)]
satoms += [is_empty_p, is_not_empty_p]
for a in satoms: check(a, sets); check(~a, sets)
for a,b in itertools.product(satoms, repeat=2):
    for mk in (lambda a,b: a&b, lambda a,b: a|b, lambda a,b: a^b, lambda a,b: ~(a&b)):
        check(mk(a,b), sets)
print("checked", n)
for k, v in sorted(bad.items()):
    print(k, len(v))
    for e in v[:12]: print('    ', e)
print("---- excluding any(true) family")
import predicate.optimizer.any_optimizer as AO
rest = [e for e in bad['WRONG'] if 'always_true_p' not in repr(e[0]) and 'eq_p(1) | ne_p(1)' not in repr(e[0]) and 'ne_p(1) | eq_p(1)' not in repr(e[0]) and 'ge_p(2) | lt_p(2)' not in repr(e[0]) and  'lt_p(2) | ge_p(2)' not in repr(e[0])]
print(len(rest))
for e in rest[:40]: print('   ', e)
