import sys, random, itertools, uuid, collections
import datetime as _dt
sys.path.insert(0, "/repo")
from predicate import *
from predicate.predicate import *
from predicate.set_predicates import *
from predicate.standard_predicates import *
from more_itertools import take
import signal
class TO(Exception): pass
def handler(s,f): raise TO()
signal.signal(signal.SIGALRM, handler)
def run(gen, p, n=40):
    res=[]
    signal.setitimer(signal.ITIMER_REAL, 0.5)
    try:
        it = gen(p)
        for i in range(n):
            try: res.append(next(it))
            except StopIteration: break
        return res, None
    except TO: return res, 'HANG'
    except Exception as e: return res, 'EXC '+type(e).__name__+': '+str(e)[:60]
    finally: signal.setitimer(signal.ITIMER_REAL, 0)
now = _dt.datetime(2024,1,1)
u = uuid.UUID(int=2**127)
ints=[0,1,-1,2,5,99,100,101,-100,-101,1000,-1000,sys.maxsize, -sys.maxsize, sys.maxsize+1]
floats=[0.0,1.0,-1.0,2.0,3.14,-1e-6,1e-7,1e6,2e6,-2e6,100.0,1e16,-1e16]
strs=['foo','','a','zzzzzzzzzzz','0']
def preds():
    for mk in (ge_p,gt_p,le_p,lt_p,eq_p,ne_p):
        for v in ints+floats+strs+[now,u]:
            yield mk(v)
    for s in [(), (1,), (1,2,3), ('a',), ('a','b'), (1,'a'), tuple(range(-100,101)), (None,), (1.5,)]:
        yield in_p(*s); yield not_in_p(*s)
    for a in [is_none_p,is_not_none_p,is_truthy_p,is_falsy_p,is_empty_p, is_not_empty_p, always_true_p,always_false_p,is_bool_p,is_int_p,is_float_p,is_str_p,is_complex_p,is_dict_p,is_set_p,is_datetime_p,is_uuid_p, is_list_p, is_tuple_p, is_callable_p]:
        yield a
    base=[ge_p(2), always_true_p, always_false_p, is_int_p, eq_p(1), is_none_p, in_p(1,2), ge_p(200), is_str_p]
    for b in base:
        yield all_p(b); yield any_p(b); yield is_set_of_p(b)
    yield ge_p(2) & le_p(5); yield ge_p(2) & le_p(1); yield is_int_p & ge_p(3); yield ge_p(3) & is_int_p; yield is_int_p | is_str_p; yield ge_p(5) | le_p(1); yield is_str_p & is_int_p
    yield is_tuple_of_p(is_int_p, is_str_p); yield is_tuple_of_p(); yield is_dict_of_p(('a', is_int_p)); yield is_dict_of_p((is_str_p, is_int_p), ('a', is_str_p)); yield has_key_p('k'); yield regex_p('^fo+$'); yield is_subset_p({1,2}); yield is_real_subset_p({1,2}); yield is_real_subset_p(set())
    yield ~ge_p(2); yield ge_p(1) ^ ge_p(2); yield is_superset_p({1}); yield has_length_p(2); yield ge_le_p(1,5)
for name, gen, want in (('TRUE', generate_true, True), ('FALSE', generate_false, False)):
    print("=====", name)
    cnt=collections.Counter()
    for p in preds():
        random.seed(1)
        res, err = run(gen, p)
        wrong = []
        for v in res:
            try: ok = bool(p(v)) == want
            except Exception as e: ok = 'EVAL-EXC'
            if ok is not True: wrong.append(v)
        status = []
        if err: status.append(err)
        if wrong: status.append(f'WRONG {wrong[:3]!r}')
        if not res and not err: status.append('EMPTY')
        if status: print(f"{p!r:45.45s} n={len(res)}", ' | '.join(status)[:150])
