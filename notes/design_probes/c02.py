import itertools, sys, collections
sys.path.insert(0, "/repo")
if len(sys.argv) > 2: import fixxor
from predicate import *
from predicate.predicate import *
from predicate.set_predicates import *
from predicate.range_predicate import *
from predicate.standard_predicates import *

f_even = fn_p(lambda x: isinstance(x,(int,float)) and x % 2 == 0)
consts = [1, 2, 3]
atoms = []
for c in consts:
    atoms += [eq_p(c), ne_p(c), ge_p(c), gt_p(c), le_p(c), lt_p(c)]
for a,b in [(1,2),(1,3),(2,3),(2,2),(3,1)]:
    atoms += [ge_le_p(a,b), ge_lt_p(a,b), gt_le_p(a,b), gt_lt_p(a,b)]
for s in [(), (1,), (2,), (1,2), (2,3), (1,2,3)]:
    atoms += [in_p(*s), not_in_p(*s)]
atoms += [is_none_p, is_not_none_p, is_truthy_p, is_falsy_p, is_int_p, is_bool_p, is_str_p, is_float_p, is_instance_p(int,str), f_even, always_true_p, always_false_p]
values = [0, 0.5, 1, 1.5, 2, 2.5, 3, 3.5, 4, True, False]   # comparable with all consts
values_any = values + [None, "a", ""]

def defined(p, x):
    try:
        p(x); return True
    except TypeError:
        return False

def atoms_of(p):
    match p:
        case AndPredicate(l, r) | OrPredicate(l, r) | XorPredicate(l, r):
            return atoms_of(l) + atoms_of(r)
        case NotPredicate(q): return atoms_of(q)
        case _: return [p]

bad = collections.defaultdict(list)
n = 0
def check(p):
    global n
    n += 1
    try:
        o = optimize(p)
    except Exception as e:
        bad['EXC ' + type(e).__name__].append((p, repr(e))); return
    ats = atoms_of(p)
    for x in values_any:
        if not all(defined(a, x) for a in ats): continue
        try:
            got = o(x)
        except Exception as e:
            bad['EVAL-EXC'].append((p, o, x)); break
        if bool(got) != bool(p(x)):
            bad[type(p).__name__ + ':' + type(p.left if hasattr(p,'left') else p.predicate if hasattr(p, 'predicate') else p).__name__ + ',' + type(getattr(p,'right',None)).__name__].append((p, o, x)); break

for a in atoms:
    check(a); check(~a)
for a, b in itertools.product(atoms, atoms):
    for mk in (lambda a,b: a & b, lambda a,b: a | b, lambda a,b: a ^ b, lambda a,b: ~a & b, lambda a,b: a | ~b, lambda a, b: ~(a & b), lambda a,b: ~(a|b)):
        check(mk(a, b))
print("checked", n)
for k, v in sorted(bad.items()):
    print(k, len(v), '   e.g.', v[0])
