import sys, itertools, re
sys.path.insert(0, "/repo")
from predicate import *
from predicate.predicate import is_not_empty_p
from predicate.standard_predicates import *
from predicate.set_predicates import *
from predicate.str_predicates import *
vals = [None, True, False, 0, 1, 2, 3, -1, 0.5, 1.0, 1.5, 2.5, "", "a", "ab", "A1", " ", [], [1], [1,2], ["a"], (), (1,), (1,"a"), (1,2), set(), {1}, {1,2}, {1,2,3}, {}, {"a":1}, {"b":2}, frozenset({1}), range(2), b"a"]
bad=[]
def chk(name, p, ref, dom=vals):
    for x in dom:
        try: exp = ref(x); e_exc=None
        except Exception as e: exp=None; e_exc=type(e).__name__
        try: got = p(x); g_exc=None
        except Exception as e: got=None; g_exc=type(e).__name__
        if e_exc != g_exc or (e_exc is None and bool(got) != bool(exp)) or (e_exc is None and not isinstance(got,bool)):
            bad.append((name, x, exp, e_exc, got, g_exc))
for v in [0,1,2,1.5,"a",True]:
    chk(f'eq{v}', eq_p(v), lambda x: x==v); chk(f'ne{v}', ne_p(v), lambda x: x!=v)
    chk(f'ge{v}', ge_p(v), lambda x: x>=v); chk(f'gt{v}', gt_p(v), lambda x: x>v); chk(f'le{v}', le_p(v), lambda x: x<=v); chk(f'lt{v}', lt_p(v), lambda x: x<v)
for lo,hi in [(0,2),(1,1),(2,0),(0.5,1.5)]:
    chk(f'gele{lo}{hi}', ge_le_p(lo,hi), lambda x: lo<=x and x<=hi); chk(f'gelt{lo}{hi}', ge_lt_p(lo,hi), lambda x: lo<=x and x<hi)
    chk(f'gtle{lo}{hi}', gt_le_p(lo,hi), lambda x: lo<x and x<=hi); chk(f'gtlt{lo}{hi}', gt_lt_p(lo,hi), lambda x: lo<x and x<hi)
hashable=[x for x in vals if getattr(x,'__hash__',None)]
for s in [(), (1,), (1,2), ("a",1), (None,)]:
    chk(f'in{s}', in_p(*s), lambda x: x in set(s), hashable); chk(f'nin{s}', not_in_p(*s), lambda x: x not in set(s), hashable)
sets=[set(), {1}, {1,2}, {1,2,3}, {2}]
for s in sets:
    chk(f'sub{s}', is_subset_p(s), lambda x: x<=s, sets); chk(f'rsub{s}', is_real_subset_p(s), lambda x: x<s, sets)
    chk(f'sup{s}', is_superset_p(s), lambda x: x>=s, sets); chk(f'rsup{s}', is_real_superset_p(s), lambda x: x>s, sets)
from collections.abc import Callable, Container, Iterable, Hashable
import datetime, uuid
for name,p,k in [('bool',is_bool_p,bool),('int',is_int_p,int),('float',is_float_p,float),('str',is_str_p,str),('list',is_list_p,list),('tuple',is_tuple_p,tuple),('set',is_set_p,set),('dict',is_dict_p,dict),('callable',is_callable_p,Callable),('container',is_container_p,Container),('iterable',is_iterable_p,Iterable),('hashable',is_hashable_p,Hashable),('complex',is_complex_p,complex),('range',is_range_p,range)]:
    chk(name,p,lambda x: isinstance(x,k))
chk('none', is_none_p, lambda x: x is None); chk('notnone', is_not_none_p, lambda x: x is not None)
chk('truthy', is_truthy_p, lambda x: bool(x)); chk('falsy', is_falsy_p, lambda x: not x)
iters=[x for x in vals if isinstance(x, Iterable)]
chk('empty', is_empty_p, lambda x: len(list(x))==0, iters); chk('notempty', is_not_empty_p, lambda x: len(list(x))>0, iters)
for n in [0,1,2]: chk(f'len{n}', has_length_p(n), lambda x: len(list(x))==n, iters)
dicts=[{}, {"a":1}, {"b":2}, {"a":None}]
chk('haskey', has_key_p("a"), lambda x: "a" in x, dicts)
strs=["", "a", "ab", "ba", "foo", "xfoo", "FOO", "a1", "1", " ", "Ab"]
chk('regex', regex_p("fo"), lambda x: re.match("fo", x) is not None, strs); chk('regex^', regex_p("^a"), lambda x: x.startswith("a"), strs)
for name,p,f in [('alnum',is_alnum_p,str.isalnum),('alpha',is_alpha_p,str.isalpha),('lower',is_lower_p,str.islower),('upper',is_upper_p,str.isupper),('title',is_title_p,str.istitle),('ident',is_identifier_p,str.isidentifier),('decimal',is_decimal_p,str.isdecimal),('ascii',is_ascii_p,str.isascii)]:
    chk(name,p,f,strs)
chk('starts', starts_with_p("a"), lambda x: x.startswith("a"), strs); chk('ends', ends_with_p("a"), lambda x: x.endswith("a"), strs)
tups=[(), (1,), ("a",), (1,"a"), ("a",1), (1,2), (1,"a",2)]
chk('tupof', is_tuple_of_p(is_int_p, is_str_p), lambda x: len(x)==2 and isinstance(x[0],int) and isinstance(x[1],str), tups)
chk('tupof0', is_tuple_of_p(), lambda x: len(x)==0, tups)
chk('setof', is_set_of_p(is_int_p), lambda x: all(isinstance(e,int) for e in x), [set(), {1}, {1,"a"}, {"a"}])
chk('listof', is_list_of_p(is_int_p), lambda x: isinstance(x,list) and all(isinstance(e,int) for e in x))
chk('iterof', is_iterable_of_p(is_int_p), lambda x: isinstance(x,Iterable) and all(isinstance(e,int) for e in x))
print(len(bad)); 
for b in bad[:30]: print(b)
