import sys, itertools, time
sys.path.insert(0, "/repo")
from predicate.constructor.construct import construct
from predicate.truth_table import truth_table
from predicate.named_predicate import NamedPredicate
from predicate.predicate import *
t=time.time()
g = construct([1, "a"], [None])
out = list(itertools.islice(g, 400))
print(len(out), time.time()-t, out[:5], out[-2:])
ok = all(all(p(x) for x in [None]) and not any(p(x) for x in [1,"a"]) for p in out)
print("all separate:", ok)
# truth table sharing/history
p = NamedPredicate("p"); q = NamedPredicate("q"); p2 = NamedPredicate("p")
f = (p & q) | (p2 ^ q)
p.v = True; p2.v = False
g1 = truth_table(f); g2 = truth_table(p | ~q)
rows=[]
for a,b in itertools.zip_longest(g1,g2): rows.append((a,b))
print(rows)
print(list(truth_table(always_true_p)))
r = NamedPredicate("r")
print(list(truth_table((r & p) | q))[:3])
