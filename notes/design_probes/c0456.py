import itertools, sys, collections, re
sys.path.insert(0, "/repo")
from predicate import *
from predicate.predicate import *
from predicate.set_predicates import *
from predicate.standard_predicates import *
from predicate.range_predicate import *
from predicate.negate import negate
from predicate.implies import implies
from predicate.named_predicate import NamedPredicate
from predicate.str_predicates import *
import math
consts=[1,2,3]
atoms=[]
for c in consts: atoms += [eq_p(c), ne_p(c), ge_p(c), gt_p(c), le_p(c), lt_p(c)]
for a,b in [(1,2),(1,3),(2,3),(2,2),(3,1)]: atoms += [ge_le_p(a,b), ge_lt_p(a,b), gt_le_p(a,b), gt_lt_p(a,b)]
for s in [(), (1,), (2,), (1,2), (2,3), (1,2,3)]: atoms += [in_p(*s), not_in_p(*s)]
atoms += [is_none_p, is_not_none_p, is_truthy_p, is_falsy_p, is_int_p, is_bool_p, is_str_p, always_true_p, always_false_p]
values=[0,0.5,1,1.5,2,2.5,3,3.5,4,True,False]
# C04
bad=[]
comp = atoms + [a&b for a,b in itertools.product(atoms[:8],repeat=2)] + [~a for a in atoms] + [a|b for a,b in itertools.product(atoms[:8],repeat=2)]
for p in comp:
    np_ = negate(p)
    for x in values:
        if bool(np_(x)) != (not p(x)): bad.append((p,np_,x)); break
coll_atoms=[is_empty_p,is_not_empty_p, all_p(eq_p(1)), any_p(eq_p(1))]
for p in coll_atoms:
    for x in [[],[1],[2],(),{1}]:
        if bool(negate(p)(x)) != (not p(x)): bad.append((p,x))
print("C04 bad", len(bad), bad[:5])
# C05 soundness + completeness
bad=[]; incomplete=collections.Counter()
dom = values
und = (EqPredicate, GePredicate, GtPredicate)
for p,q in itertools.product(comp[:60]+comp[60:200:3], repeat=2):
    try: imp = implies(p,q)
    except Exception as e: bad.append(('EXC',p,q,repr(e))); continue
    truth = all((not p(x)) or q(x) for x in dom)
    if imp and not truth: bad.append((p,q))
    if truth and not imp: incomplete[(type(p).__name__, type(q).__name__)] += 1
print("C05 unsound", len(bad), bad[:5])
for k,v in sorted(incomplete.items()):
    print("  incomplete", k, v)
