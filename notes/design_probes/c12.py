import sys, time
sys.path.insert(0, "/repo")
if len(sys.argv) > 1 and sys.argv[1] == 'fix': import fixxor
from predicate import *
from predicate.predicate import *
from predicate.named_predicate import NamedPredicate
sys.setrecursionlimit(100000)
def count_calls(p):
    import predicate.optimizer.predicate_optimizer as PO
    cnt = [0]
    def tracer(frame, event, arg):
        if event == 'call' and frame.f_code.co_name == 'optimize': cnt[0] += 1
        return None
    sys.setprofile(tracer)
    t=time.time()
    try: o = optimize(p)
    finally: sys.setprofile(None)
    return cnt[0], time.time()-t, o
def chain(kind, d):
    p = NamedPredicate('x0')
    for i in range(1, d+1):
        a = NamedPredicate(f'a{i}'); b = NamedPredicate(f'b{i}')
        if kind == 'xa': p = XorPredicate(AndPredicate(a, p), b)       # (a & P) ^ b
        elif kind == 'xa2': p = XorPredicate(AndPredicate(p, a), b)
        elif kind == 'ax': p = XorPredicate(b, AndPredicate(a, p))
        elif kind == 'ao': p = AndPredicate(a, OrPredicate(b, p))
        elif kind == 'oa': p = AndPredicate(OrPredicate(p, b), a)
        elif kind == 'allall': p = AndPredicate(AllPredicate(p) , AllPredicate(a))
        elif kind == 'xt': p = XorPredicate(p, always_true_p)
        elif kind == 'xx': p = XorPredicate(AndPredicate(a, p), AndPredicate(b, NamedPredicate(f'c{i}')))
        elif kind == 'nx': p = NotPredicate(XorPredicate(AndPredicate(a,p), b))
    return p
for kind in ['xa','xa2','ax','ao','oa','allall','xt','xx','nx']:
    print(kind, end=': ')
    for d in [2,4,6,8,10,12,14,16,18]:
        c,t,o = count_calls(chain(kind,d))
        print(f"d={d}:{c}", end=' ')
        if t > 5: break
    print()
