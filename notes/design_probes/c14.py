import sys
sys.path.insert(0, "/repo")
from predicate.parser import parse_expression
for s in ["a", "a & b", "a & b | c", "a | b & c", "a ^ b | c", "a | b ^ c", "a & b ^ c", "a ^ b & c", "~a & b", "~a | b", "~~a", "a & b & c", "a | b | c", "a ^ b ^ c", "true", "false", "truex", "tru", "true & a", "a b", "ab", "foo & bar", "", " ", "a &", "& a", "(a", "a)", "()", "(a) & (b)", "a&b", "A", "a1", "a_b", "~", "a ~ b", "a & ~b", "((a))", "a | ~b & c", "é", "a && b", "a & (b | c)", "~(a & b) | c", "true false"]:
    try:
        r = parse_expression(s)
        def strict(p):
            n = type(p).__name__
            if hasattr(p, 'left'): return f"{n[:-9]}({strict(p.left)}, {strict(p.right)})"
            if n == 'NotPredicate': return f"Not({strict(p.predicate)})"
            return repr(p)
        print(repr(s), '=>', strict(r) if r is not None else None)
    except Exception as e:
        print(repr(s), 'EXC', type(e).__name__, str(e).split('\n')[0][:80])
