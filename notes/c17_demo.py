import os, sys
sys.path.insert(0, os.environ.get("PYPRED_REPO", "/repo"))
def demo():
    from predicate import all_p, always_false_p, ge_le_p, ge_lt_p, gt_le_p, gt_lt_p, is_instance_p, is_none_p, lazy_p, to_dot
    from predicate.this_predicate import ThisPredicate
    def show(desc, th, **kw):
        try:
            b = [l.strip() for l in to_dot(th(), **kw).body if "[label" in l or "->" in l]
            print(f"  {desc:55s} -> {b}")
        except Exception as e:
            print(f"  {desc:55s} -> {type(e).__name__}: {e}")
    show("to_dot(ge_le_p(1, 2))", lambda: ge_le_p(1, 2))
    show("to_dot(ge_lt_p(1, 2))", lambda: ge_lt_p(1, 2))
    show("to_dot(gt_le_p(1, 2))", lambda: gt_le_p(1, 2))
    show("to_dot(gt_lt_p(1, 2))", lambda: gt_lt_p(1, 2))
    show("to_dot(is_instance_p(int, str))", lambda: is_instance_p(int, str))
    show("to_dot(is_instance_p())", lambda: is_instance_p())
    show("to_dot(~is_none_p, show_optimized=True)", lambda: ~is_none_p, show_optimized=True)
    show("to_dot(all_p(always_false_p), show_optimized=True)", lambda: all_p(always_false_p), show_optimized=True)
    show("to_dot(ThisPredicate() & ThisPredicate(), show_optimized=True)", lambda: ThisPredicate() & ThisPredicate(), show_optimized=True)
    show('to_dot(lazy_p("node"))', lambda: lazy_p("node"))
demo()
