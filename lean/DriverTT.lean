/-
Line-protocol driver for the truth-table model (C15) and the JSON model (C18).
One request per line on stdin, one answer per line on stdout.

  tt (objs (NAME V) …) (trees T …) (gens TI …) (sched GI …)
        -> (steps S …) (heap B …)       S = (r BITS T|F) | stop | ValueError | KeyError
  names (objs (NAME V) …) T -> (ok NAME …) | ValueError | KeyError
  rows N                    -> (BITS …)
  json P                    -> J     J = null | true | false | (str S) | (const N) | (obj (K J) …)
                                     (the name of function atom i is printed as @i)
  shape P                   -> SH    SH = leaf | (un OP SH) | (bin OP SH SH)
  ser (N …) P               -> T|F   json.dumps succeeds when the constants N … are the unserialisable ones
  T = tt | ff | (v OBJ) | (o KIND) | (and T T) | (or T T) | (xor T T) | (not T);  P as in Wire.lean
-/
import PyPred.Model.Core
import PyPred.Model.Wire
import PyPred.Model.TruthTable
import PyPred.Model.Json

open PyPred

namespace TTWire
open PyPred.TT

partial def toTree : Sexp → Option Tree
  | .atom "tt" => some .tt
  | .atom "ff" => some .ff
  | .list [.atom "v", o] => do some (.var (← Wire.natAtom? o))
  | .list [.atom "o", k] => do some (.other (← Wire.natAtom? k))
  | .list [.atom "and", l, r] => do some (.and (← toTree l) (← toTree r))
  | .list [.atom "or", l, r] => do some (.or (← toTree l) (← toTree r))
  | .list [.atom "xor", l, r] => do some (.xor (← toTree l) (← toTree r))
  | .list [.atom "not", p] => do some (.not (← toTree p))
  | _ => none

def toObj : Sexp → Option (String × Bool)
  | .list [.atom n, .atom v] => some (n, v == "1")
  | _ => none

def toObjs : Sexp → Option (List (String × Bool))
  | .list (.atom "objs" :: xs) => xs.mapM toObj
  | _ => none

def tagged (tag : String) : Sexp → Option (List Sexp)
  | .list (.atom t :: xs) => if t == tag then some xs else none
  | _ => none

def bits (r : List Bool) : String := String.ofList (r.map (fun b => if b then '1' else '0'))

def showErr : Err → String
  | .valueError => "ValueError"
  | .keyError => "KeyError"

def showStep : Step → String
  | .row r v => "(r " ++ (if r.isEmpty then "-" else bits r) ++ " " ++ (if v then "T" else "F") ++ ")"
  | .stop => "stop"
  | .raised e => showErr e

def runTT (objs : List (String × Bool)) (trees : List Tree) (gens sched : List Nat) : String :=
  let nm : ObjId → String := fun o => (objs.map Prod.fst).getD o ""
  let h0 : Heap := fun o => (objs.map Prod.snd).getD o false
  let gs : Nat → Gen := fun j =>
    match gens[j]? with
    | some ti => match trees[ti]? with
      | some t => .fresh t
      | none => .done
    | none => .done
  let (h, _, tr) := runSched nm h0 gs sched
  let heap := (List.range objs.length).map (fun o => if h o then "1" else "0")
  "(steps " ++ " ".intercalate (tr.map (fun p => showStep p.2)) ++ ") (heap " ++ " ".intercalate heap ++ ")"

end TTWire

namespace JWire

partial def showJson : Json Int → String
  | .null => "null"
  | .bool b => if b then "true" else "false"
  | .str s => "(str " ++ s ++ ")"
  | .const v => "(const " ++ toString v ++ ")"
  | .obj0 => "(obj)"
  | .obj1 k v => "(obj (" ++ k ++ " " ++ showJson v ++ "))"
  | .obj2 k₁ v₁ k₂ v₂ => "(obj (" ++ k₁ ++ " " ++ showJson v₁ ++ ") (" ++ k₂ ++ " " ++ showJson v₂ ++ "))"

partial def showShape : Shape → String
  | .leaf => "leaf"
  | .un op s => "(un " ++ op ++ " " ++ showShape s ++ ")"
  | .bin op l r => "(bin " ++ op ++ " " ++ showShape l ++ " " ++ showShape r ++ ")"

def fnName (i : Nat) : String := "@" ++ toString i

end JWire

def handle (line : String) : String :=
  match Sexp.parseAll line with
  | none => "ERR parse"
  | some [] => "ERR empty"
  | some (.atom cmd :: args) =>
    match cmd, args with
    | "tt", [objs, trees, gens, sched] =>
      match TTWire.toObjs objs, (TTWire.tagged "trees" trees).bind (·.mapM TTWire.toTree),
            (TTWire.tagged "gens" gens).bind Wire.nats?, (TTWire.tagged "sched" sched).bind Wire.nats? with
      | some objs, some trees, some gens, some sched => TTWire.runTT objs trees gens sched
      | _, _, _, _ => "ERR args"
    | "names", [objs, t] =>
      match TTWire.toObjs objs, TTWire.toTree t with
      | some objs, some t =>
        match TT.getNamed (fun o => (objs.map Prod.fst).getD o "") t with
        | .ok ns => "(ok" ++ String.join (ns.map (" " ++ ·)) ++ ")"
        | .error e => TTWire.showErr e
      | _, _ => "ERR args"
    | "rows", [n] =>
      match Wire.natAtom? n with
      | some n => "(" ++ " ".intercalate ((TT.rows n).map (fun r => if r.isEmpty then "-" else TTWire.bits r)) ++ ")"
      | none => "ERR args"
    | "json", [p] =>
      match Wire.toPred p with
      | some p => JWire.showJson (toJson JWire.fnName p)
      | none => "ERR args"
    | "ser", [.list bad, p] =>
      match Wire.ints? bad, Wire.toPred p with
      | some bad, some p => if (toJson JWire.fnName p).serialisable (fun v => !bad.contains v) then "T" else "F"
      | _, _ => "ERR args"
    | "shape", [p] =>
      match Wire.toPred p with
      | some p => JWire.showShape (shapeP p)
      | none => "ERR args"
    | _, _ => "ERR cmd"
  | _ => "ERR cmd"

partial def loop (hin hout : IO.FS.Stream) : IO Unit := do
  let line ← hin.getLine
  if line.isEmpty then return ()
  hout.putStrLn (handle line)
  loop hin hout

def main : IO Unit := do
  let hin ← IO.getStdin
  let hout ← IO.getStdout
  loop hin hout
  hout.flush
