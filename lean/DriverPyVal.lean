/-
Line-protocol driver over the M2 models (`PyVal`, `EvalTrace`).  One request per
line on stdin, one answer per line on stdout:

  evalpy <pred> <val>            ->  ok T | ok F | raised <Err>
  evt <table> <pred> <val>       ->  <outcome> ; (<id> <val>) (<id> <val>) ...
  pure <table> <pred> <val>      ->  T | F                      (evalB)
  deftable <table>               ->  <n>    registers a table; `evtn <n> <pred> <val>` = `evt` with it

Wire format (part of the harness, not a model of the library):
  values   N | (b 0|1) | (i n) | (f twice) | (s c*) | (l v*) | (t v*) | (S v*)
           | (d (k v)*) | (o cls id)
  table    ((id default (val ans)*)*)   ans = T | F | (raise Err); looked up by the
           printed form of the argument
-/
import PyPred.Model.PyVal
import PyPred.Model.EvalTrace
import PyPred.Model.Wire

open PyPred

namespace WireV

def a (s : String) : Sexp := .atom s

partial def toVal : Sexp → Option PyVal
  | .atom "N" => some .none
  | .list [.atom "b", .atom v] => some (.bool (v == "1"))
  | .list [.atom "i", v] => do some (.int (← Wire.intAtom? v))
  | .list [.atom "f", v] => do some (.flt (← Wire.intAtom? v))
  | .list (.atom "s" :: cs) => do some (.str (← Wire.nats? cs))
  | .list (.atom "l" :: xs) => do some (.list (← xs.mapM toVal))
  | .list (.atom "t" :: xs) => do some (.tuple (← xs.mapM toVal))
  | .list (.atom "S" :: xs) => do some (.set (← xs.mapM toVal))
  | .list (.atom "d" :: kvs) => do
      let items ← kvs.mapM (fun kv => match kv with
        | .list [k, v] => do some (PyVal.tuple [← toVal k, ← toVal v])
        | _ => none)
      some (.dict items)
  | .list [.atom "o", c, i] => do some (.obj (← Wire.natAtom? c) (← Wire.natAtom? i))
  | _ => none

partial def ofVal : PyVal → Sexp
  | .none => a "N"
  | .bool b => .list [a "b", a (if b then "1" else "0")]
  | .int n => .list [a "i", a (toString n)]
  | .flt t => .list [a "f", a (toString t)]
  | .str cs => .list (a "s" :: cs.map (fun c => a (toString c)))
  | .list xs => .list (a "l" :: xs.map ofVal)
  | .tuple xs => .list (a "t" :: xs.map ofVal)
  | .set xs => .list (a "S" :: xs.map ofVal)
  | .dict items => .list (a "d" :: items.map (fun it => .list [ofVal (PyVal.itemKey it), ofVal (PyVal.itemVal it)]))
  | .obj c i => .list [a "o", a (toString c), a (toString i)]

def toKlass : Sexp → Option PyVal.Klass
  | .atom "bool" => some .bool | .atom "int" => some .int | .atom "float" => some .float
  | .atom "str" => some .str | .atom "list" => some .list | .atom "tuple" => some .tuple
  | .atom "set" => some .set | .atom "dict" => some .dict | .atom "complex" => some .complex
  | .atom "datetime" => some .datetime | .atom "uuid" => some .uuid | .atom "range" => some .range
  | .atom "predicate" => some .predicate | .atom "iterable" => some .iterable
  | .atom "container" => some .container | .atom "hashable" => some .hashable
  | .atom "callable" => some .callable | .atom "object" => some .object
  | .atom "nonetype" => some .noneType
  | _ => none

def toStrKind : Sexp → Option Ascii.StrKind
  | .atom "alnum" => some .alnum | .atom "alpha" => some .alpha | .atom "ascii" => some .ascii
  | .atom "decimal" => some .decimal | .atom "digit" => some .digit
  | .atom "identifier" => some .identifier | .atom "lower" => some .lower
  | .atom "numeric" => some .numeric | .atom "printable" => some .printable
  | .atom "space" => some .space | .atom "title" => some .title | .atom "upper" => some .upper
  | _ => none

def toAtom : Sexp → Option Atom
  | .atom "tt" => some .tt
  | .atom "ff" => some .ff
  | .atom "none" => some .isNone
  | .atom "notnone" => some .isNotNone
  | .atom "truthy" => some .truthy
  | .atom "falsy" => some .falsy
  | .atom "empty" => some .isEmpty
  | .atom "notempty" => some .isNotEmpty
  | .atom "finite" => some .isFinite
  | .atom "inf" => some .isInf
  | .atom "nan" => some .isNan
  | .list [.atom "eq", v] => do some (.eq (← toVal v))
  | .list [.atom "ne", v] => do some (.ne (← toVal v))
  | .list [.atom "ge", v] => do some (.ge (← toVal v))
  | .list [.atom "gt", v] => do some (.gt (← toVal v))
  | .list [.atom "le", v] => do some (.le (← toVal v))
  | .list [.atom "lt", v] => do some (.lt (← toVal v))
  | .list [.atom "gele", x, y] => do some (.gele (← toVal x) (← toVal y))
  | .list [.atom "gelt", x, y] => do some (.gelt (← toVal x) (← toVal y))
  | .list [.atom "gtle", x, y] => do some (.gtle (← toVal x) (← toVal y))
  | .list [.atom "gtlt", x, y] => do some (.gtlt (← toVal x) (← toVal y))
  | .list (.atom "in" :: xs) => do some (.isin (← xs.mapM toVal))
  | .list (.atom "notin" :: xs) => do some (.notin (← xs.mapM toVal))
  | .list [.atom "subset", v] => do some (.subset (← toVal v))
  | .list [.atom "rsubset", v] => do some (.rsubset (← toVal v))
  | .list [.atom "superset", v] => do some (.superset (← toVal v))
  | .list [.atom "rsuperset", v] => do some (.rsuperset (← toVal v))
  | .list (.atom "inst" :: ks) => do some (.inst (← ks.mapM toKlass))
  | .list [.atom "haskey", v] => do some (.hasKey (← toVal v))
  | .list [.atom "haslen", v] => do some (.hasLength (← toVal v))
  | .list (.atom "regex" :: cs) => do some (.regex (← Wire.nats? cs))
  | .list [.atom "strtest", k] => do some (.strTest (← toStrKind k))
  | .list (.atom "startswith" :: cs) => do some (.startsWith (← Wire.nats? cs))
  | .list (.atom "endswith" :: cs) => do some (.endsWith (← Wire.nats? cs))
  | _ => none

def toBaseFn : Sexp → Option BaseFn
  | .atom "ident" => some .ident | .atom "len" => some .len
  | .atom "first" => some .first | .atom "values" => some .values
  | _ => none

def toFn : Sexp → Option Fn
  | .list [.atom "pf", i, b] => do some ⟨some (← Wire.natAtom? i), ← toBaseFn b⟩
  | s => do some ⟨none, ← toBaseFn s⟩

partial def toP : Sexp → Option P
  | .list [.atom "probe", i] => do some (.probe (← Wire.natAtom? i))
  | .list [.atom "and", l, r] => do some (.and (← toP l) (← toP r))
  | .list [.atom "or", l, r] => do some (.or (← toP l) (← toP r))
  | .list [.atom "xor", l, r] => do some (.xor (← toP l) (← toP r))
  | .list [.atom "not", p] => do some (.not (← toP p))
  | .list [.atom "all", p] => do some (.all (← toP p))
  | .list [.atom "any", p] => do some (.any (← toP p))
  | .list [.atom "setof", p] => do some (.setOf (← toP p))
  | .list [.atom "comp", f, p] => do some (.comp (← toFn f) (← toP p))
  | .list [.atom "tee", i] => do some (.tee (← Wire.natAtom? i))
  | .list (.atom "tupleof" :: ps) => do
      let ks ← ps.mapM toP
      some (.tupleOf (ks.foldr .pcons .pnil))
  | .list (.atom "dictof" :: kvs) => do
      let ks ← kvs.mapM (fun kv => match kv with
        | .list [k, v] => do some (← toP k, ← toP v)
        | _ => none)
      some (.dictOf (ks.foldr (fun kv acc => .pcons kv.1 (.pcons kv.2 acc)) .pnil))
  | s => do some (.atom (← toAtom s))

def errName : Err → String
  | .typeError => "TypeError" | .attributeError => "AttributeError" | .valueError => "ValueError"
  | .indexError => "IndexError" | .keyError => "KeyError" | .zeroDivisionError => "ZeroDivisionError"
  | .other n => s!"Other{n}"

def toErr : String → Err
  | "TypeError" => .typeError | "AttributeError" => .attributeError | "ValueError" => .valueError
  | "IndexError" => .indexError | "KeyError" => .keyError | "ZeroDivisionError" => .zeroDivisionError
  | _ => .other 0

def toAns : Sexp → Option Outcome
  | .atom "T" => some (.ok true)
  | .atom "F" => some (.ok false)
  | .list [.atom "raise", .atom e] => some (.raised (toErr e))
  | _ => none

/-- A probe table: for each identifier a default answer and exceptions keyed on the
printed argument. -/
def toTable (s : Sexp) : Option Table :=
  match s with
  | .list rows => do
    let rs ← rows.mapM (fun r => match r with
      | .list (i :: d :: cases) => do
        let cs ← cases.mapM (fun c => match c with
          | .list [v, ans] => do some ((ofVal (← toVal v)).toString, ← toAns ans)
          | _ => none)
        some (← Wire.natAtom? i, ← toAns d, cs)
      | _ => none)
    some (fun i x =>
      match rs.find? (fun r => r.1 == i) with
      | some (_, d, cs) =>
        let key := (ofVal x).toString
        match cs.find? (fun c => c.1 == key) with
        | some (_, ans) => ans
        | none => d
      | none => .ok false)
  | _ => none

def showOutcome : Outcome → String
  | .ok true => "ok T" | .ok false => "ok F"
  | .raised e => "raised " ++ errName e

def showEvents (t : List Event) : String :=
  " ".intercalate (t.map (fun e => "(" ++ toString e.id ++ " " ++ (ofVal e.arg).toString ++ ")"))

end WireV

/-- `tabs` = the probe tables registered so far with `deftable` (referred to by index in `evtn`). -/
def handle (tabs : Array Table) (line : String) : String × Array Table :=
  match Sexp.parseAll line with
  | none => ("ERR parse", tabs)
  | some [] => ("ERR empty", tabs)
  | some (.atom cmd :: args) =>
    match cmd, args with
    | "evalpy", [p, v] =>
      match WireV.toP p, WireV.toVal v with
      | some p, some v => (WireV.showOutcome (evalPy p v), tabs)
      | _, _ => ("ERR args", tabs)
    | "deftable", [t] =>
      match WireV.toTable t with
      | some t => (toString tabs.size, tabs.push t)
      | none => ("ERR args", tabs)
    | "evtn", [n, p, v] =>
      match (Wire.natAtom? n).bind (fun k => tabs[k]?), WireV.toP p, WireV.toVal v with
      | some t, some p, some v =>
        let r := evalE t p v
        (WireV.showOutcome r.1 ++ " ; " ++ WireV.showEvents r.2, tabs)
      | _, _, _ => ("ERR args", tabs)
    | "evt", [t, p, v] =>
      match WireV.toTable t, WireV.toP p, WireV.toVal v with
      | some t, some p, some v =>
        let r := evalE t p v
        (WireV.showOutcome r.1 ++ " ; " ++ WireV.showEvents r.2, tabs)
      | _, _, _ => ("ERR args", tabs)
    | "pure", [t, p, v] =>
      match WireV.toTable t, WireV.toP p, WireV.toVal v with
      | some t, some p, some v => ((if evalB t p v then "T" else "F"), tabs)
      | _, _, _ => ("ERR args", tabs)
    | _, _ => ("ERR cmd", tabs)
  | _ => ("ERR cmd", tabs)

partial def loop (hin hout : IO.FS.Stream) (tabs : Array Table) : IO Unit := do
  let line ← hin.getLine
  if line.isEmpty then return ()
  let (ans, tabs) := handle tabs line
  hout.putStrLn ans
  loop hin hout tabs

def main : IO Unit := do
  let hin ← IO.getStdin
  let hout ← IO.getStdout
  loop hin hout #[]
  hout.flush
