/-
Line-protocol driver for the `to_dot` model (C17).  One request per line:

  dot <showopt 0|1> <optimizer cfg> <dot cfg: two of i|f = instAll, optKinds> (<bound ref ids>) <pred>

answer: `OK (original ITEM…) [(optimized ITEM…)]` with
  ITEM = (n ID KIND-NAME TOK…) | (e SRC DST STYLE),  TOK = (l HEX-UTF8) | (c INT) | (s INT…) | (k NAT) | (f NAT) | (r INT)
or `ERROR ValueError` / `ERROR IndexError` / `FUEL`.  See harness/props/c17.py.
-/
import PyPred.Model.Core
import PyPred.Model.Optimize
import PyPred.Model.Wire
import PyPred.Model.Dot

open PyPred PyPred.Dot

def fuel : Nat := 100000

def hexDigit (n : Nat) : Char := "0123456789abcdef".toList.getD n '0'

def hexOf (s : String) : String :=
  let bs := s.toUTF8.toList
  if bs.isEmpty then "-" else
  String.ofList (bs.foldr (fun b acc => hexDigit (b.toNat / 16) :: hexDigit (b.toNat % 16) :: acc) [])

def tokS : Tok → String
  | .lit s => "(l " ++ hexOf s ++ ")"
  | .const v => "(c " ++ toString v ++ ")"
  | .set vs => "(s" ++ String.join (vs.map fun v => " " ++ toString v) ++ ")"
  | .cls k => "(k " ++ toString k ++ ")"
  | .fnn i => "(f " ++ toString i ++ ")"
  | .ref r => "(r " ++ toString r ++ ")"

def nodeS (n : Node) : String :=
  "(n " ++ toString n.id ++ " " ++ n.kind.name ++ String.join (n.label.map fun t => " " ++ tokS t) ++ ")"

def edgeS (e : Edge) : String :=
  "(e " ++ toString e.src ++ " " ++ toString e.dst ++ " " ++ e.style.name ++ ")"

def graphS (name : String) (g : Graph) : String :=
  "(" ++ name ++ String.join (g.nodes.map fun n => " " ++ nodeS n) ++ String.join (g.edges.map fun e => " " ++ edgeS e) ++ ")"

def errS : Err → String
  | .valueError => "ERROR ValueError"
  | .indexError => "ERROR IndexError"
  | .fuel => "FUEL"

def handle (line : String) : String :=
  match Sexp.parseAll line with
  | none => "ERR parse"
  | some [.atom "dot", .atom so, .atom c, .atom d, .list bound, p] =>
    match Wire.toCfg c, Wire.ints? bound, Wire.toPred p with
    | some cfg, some bound, some p =>
      let dc : DCfg := ⟨d.toList.getD 0 'f' == 'f', d.toList.getD 1 'f' == 'f'⟩
      match toDot cfg DriverInterp.fnc fuel dc bound (so == "1") p with
      | .error e => errS e
      | .ok [g1] => "OK " ++ graphS "original" g1
      | .ok [g1, g2] => "OK " ++ graphS "original" g1 ++ " " ++ graphS "optimized" g2
      | .ok _ => "ERR clusters"
    | _, _, _ => "ERR args"
  | some [.atom "decode", .atom d, p] =>
    -- round trip used by the harness as a sanity check of the decoder on the model's own output
    match Wire.toPred p with
    | some p =>
      match render ⟨d.toList.getD 0 'f' == 'f', d.toList.getD 1 'f' == 'f'⟩ 0 p with
      | .error e => errS e
      | .ok (g, _) =>
        match decode g with
        | none => "NONE"
        | some q => (Wire.ofPred q).toString
    | none => "ERR args"
  | _ => "ERR cmd"

partial def loop (hin hout : IO.FS.Stream) : IO Unit := do
  let line ← hin.getLine
  if line.isEmpty then return ()
  hout.putStrLn (handle line)
  loop hin hout

def main : IO Unit := do
  let hin ← IO.getStdin
  let hout ← IO.getStdout
  loop hin hout
  hout.flush
