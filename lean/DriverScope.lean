/-
Line-protocol driver for M7 `Scope` (C16).  One request per line:

  run <identity 0|1> <cacheNone 0|1> (defs (N pred)…) (cache (id binding)…) (site stack (c pred value)…)…

answer: one outcome letter per call, in order, separated by spaces
(T / F / V ValueError / Y TypeError / A AttributeError / R RecursionError).
The cache is threaded through all calls of the request in the order given.

  pred    ::= (base b) | (isseq k) | isdict | (or p p) | (and p p) | (all p) | (comp f p)
            | (ref this|root id) | (lazy id name) | (factory this|root) | (v N)
  binding ::= (p pred) | (o 0|1)
  stack   ::= (st (f (name binding)…)…)           innermost frame first
  value   ::= (a kind) | (s kind value…) | (d (keykind…) value…)
-/
import PyPred.Model.Scope
import PyPred.Model.Wire

open PyPred PyPred.Scope

abbrev Env := List (String × Scope.Pred)

def kind? : Sexp → Option RefKind
  | .atom "this" => some .this
  | .atom "root" => some .root
  | _ => none

partial def toPred (env : Env) : Sexp → Option Scope.Pred
  | .atom "isdict" => some .isDict
  | .list [.atom "base", b] => do some (.base (← Wire.natAtom? b))
  | .list [.atom "isseq", k] => do some (.isSeq (← Wire.natAtom? k))
  | .list [.atom "or", l, r] => do some (.or (← toPred env l) (← toPred env r))
  | .list [.atom "and", l, r] => do some (.and (← toPred env l) (← toPred env r))
  | .list [.atom "all", p] => do some (.all (← toPred env p))
  | .list [.atom "comp", f, p] => do some (.comp (← Wire.natAtom? f) (← toPred env p))
  | .list [.atom "ref", k, i] => do some (.ref (← kind? k) (← Wire.natAtom? i))
  | .list [.atom "lazy", i, .atom n] => do some (.lazy (← Wire.natAtom? i) n)
  | .list [.atom "factory", k] => do some (.factory (← kind? k))
  | .list [.atom "v", .atom n] => env.lookup n
  | _ => none

partial def toValue : Sexp → Option Value
  | .list [.atom "a", k] => do some (.atom (← Wire.natAtom? k))
  | .list (.atom "s" :: k :: xs) => do some (.seq (← Wire.natAtom? k) (← xs.mapM toValue))
  | .list (.atom "d" :: .list ks :: xs) => do some (.dict (← Wire.nats? ks) (← xs.mapM toValue))
  | _ => none

def toBinding (env : Env) : Sexp → Option Binding
  | .list [.atom "p", p] => do some (.pred (← toPred env p))
  | .list [.atom "o", .atom t] => some (.other (t == "1"))
  | _ => none

def toFrame (env : Env) : Sexp → Option Frame
  | .list (.atom "f" :: bs) => bs.mapM fun
      | .list [.atom n, b] => do some (n, ← toBinding env b)
      | _ => none
  | _ => none

def toStack (env : Env) : Sexp → Option Stack
  | .list (.atom "st" :: fs) => fs.mapM (toFrame env)
  | _ => none

def toDefs : Sexp → Option Env
  | .list (.atom "defs" :: ds) =>
    ds.foldlM (fun env d =>
      match d with
      | .list [.atom n, p] => do some ((n, ← toPred env p) :: env)
      | _ => none) []
  | _ => none

def toCache (env : Env) : Sexp → Option Cache
  | .list (.atom "cache" :: es) => es.mapM fun
      | .list [i, b] => do some (← Wire.natAtom? i, some (← toBinding env b))
      | _ => none
  | _ => none

/-- Scalar tests of the harness universe: atom kinds 0 str, 1 int, 2 float, 3 None,
4 bool (an `int` for `isinstance`), 5 any other object; test `b` accepts kind `b`,
and `is_int_p` (1) also accepts bools. -/
def driverI : Nat → Value → Bool
  | b, .atom k => k == b || (b == 1 && k == 4)
  | _, _ => false

def fuel : Nat := 64

def showOutcome : Outcome → String
  | .ok true => "T" | .ok false => "F" | .valueError => "V" | .typeError => "Y"
  | .attrError => "A" | .recursion => "R"

def runSites (cfg : Scope.Cfg) (env : Env) : List Sexp → Cache → List String → Option (List String)
  | [], _, acc => some acc.reverse
  | .list (.atom "site" :: st :: calls) :: rest, c, acc => do
    let stack ← toStack env st
    let (c', acc') ← calls.foldlM (fun (s : Cache × List String) call =>
      match call with
      | .list [.atom "c", p, v] => do
        let p ← toPred env p
        let v ← toValue v
        let (o, c2) := evalRec cfg driverI stack fuel p v s.1
        some (c2, showOutcome o :: s.2)
      | _ => none) (c, acc)
    runSites cfg env rest c' acc'
  | _, _, _ => none

def handle (line : String) : String :=
  match Sexp.parseAll line with
  | none => "ERR parse"
  | some (.atom "run" :: .atom i :: .atom cn :: defs :: cache :: sites) =>
    match toDefs defs with
    | none => "ERR defs"
    | some env =>
      match toCache env cache with
      | none => "ERR cache"
      | some c0 =>
        match runSites ⟨i == "1", cn == "1"⟩ env sites c0 [] with
        | none => "ERR sites"
        | some outs => " ".intercalate outs
  | _ => "ERR cmd"

partial def loop (hin hout : IO.FS.Stream) : IO Unit := do
  let line ← hin.getLine
  if line.isEmpty then return ()
  hout.putStrLn (handle line)
  loop hin hout

def main : IO Unit := do
  let hin ← IO.getStdin
  let hout ← IO.getStdout
  loop hin hout
  hout.flush
