/-
Line-protocol driver for the cost semantics of the optimizer model (C12).
  optc <cfg> <pred>   ->   <result s-expr> <invocations> <ticked trace length>     | FUEL | ERR …
See harness/driver.py for the client.
-/
import PyPred.Model.Core
import PyPred.Model.Optimize
import PyPred.Model.OptimizeCost
import PyPred.Model.Wire

open PyPred

def fuel : Nat := 100000

def handle (line : String) : String :=
  match Sexp.parseAll line with
  | none => "ERR parse"
  | some [] => "ERR empty"
  | some (.atom cmd :: args) =>
    match cmd, args with
    | "optc", [.atom c, p] =>
      match Wire.toCfg c, Wire.toPred p with
      | some cfg, some p =>
        match optimizeC cfg DriverInterp.fnc fuel p, cost cfg DriverInterp.fnc fuel p with
        | some (o, n), some k => (Wire.ofPred o).toString ++ " " ++ toString n ++ " " ++ toString k
        | _, _ => "FUEL"
      | _, _ => "ERR args"
    | _, _ => "ERR cmd"
  | _ => "ERR cmd"

partial def loop (hin hout : IO.FS.Stream) : IO Unit := do
  let line ← hin.getLine
  if line.isEmpty then return ()
  hout.putStrLn (handle line)
  loop hin hout

def main : IO Unit := do
  let hin ← IO.getStdin
  let hout ← IO.getStdout
  loop hin hout
  hout.flush
