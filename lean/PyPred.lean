import PyPred.Model.Core
import PyPred.Model.Optimize
import PyPred.Model.Wire
