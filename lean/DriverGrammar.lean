/-
Line-protocol driver for the grammar model (C14G).  One request per line on stdin, one answer per line on
stdout; fields are separated by TAB.

Texts travel as their Unicode code points in hex separated by '.', ("-" = empty text); predicate trees in Polish
notation as in DriverParser (`& l r`, `| l r`, `^ l r`, `~ t`, `T`, `F`, `v:<hex>`).

Derivation trees and Lark parse trees travel as s-expressions:
  derivation   (<origin>/<sym>,<sym>,… child …)   the rule is looked up in `Grammar.reference` by the names of its origin
                                              and of the symbols of its expansion
               <TYPE>:<hex text>              a token (leaf)
  parse tree   (<data> child …)              `lark.Tree`
               <TYPE>:<hex text>              `lark.Token`

  grammar                                   -> the items of `Grammar.referenceWire`, TAB separated, in the text form of
                                               harness/grammar_reflect.py (`rule …`, `terminal …`, `ignore …`, `start …`,
                                               `option …`, `callback …`)
  deriv <text> <derivation> <parse tree> <predicate tree or `-`>
        -> REJECT-LEX                         the text has no tokens
         | ERR <what>                         a request that cannot be read (unknown rule, unknown token type, …)
         | <tokens> TAB deriv=T|F TAB shape=T|F TAB build=<predicate tree>|none TAB same=T|F|-
     deriv: `isDerivation reference start tokens d`;  shape: `shape d` is the given parse tree;
     build: `build d`;  same: `build d` is the given predicate tree
-/
import PyPred.Model.Grammar

open PyPred.Parser PyPred.Grammar

/-! text and predicate-tree wire (as in DriverParser) -/

def hexVal (c : Char) : Option Nat :=
  if '0' ≤ c ∧ c ≤ '9' then some (c.toNat - '0'.toNat)
  else if 'a' ≤ c ∧ c ≤ 'f' then some (c.toNat - 'a'.toNat + 10)
  else none

def hexNat (s : String) : Option Nat :=
  if s.isEmpty then none else
  s.toList.foldl (fun acc c => match acc, hexVal c with
    | some a, some v => some (a * 16 + v)
    | _, _ => none) (some 0)

def decodeText (s : String) : Option (List Char) :=
  if s == "-" then some [] else
  (s.splitOn ".").foldr (fun w acc => match hexNat w, acc with
    | some n, some cs => if n.isValidChar then some (Char.ofNat n :: cs) else none
    | _, _ => none) (some [])

def hexOfNat (n : Nat) : String := String.ofList (Nat.toDigits 16 n)

def encodeText (cs : List Char) : String :=
  if cs.isEmpty then "-" else ".".intercalate (cs.map (fun c => hexOfNat c.toNat))

def showToken : Token → String
  | .name s => "n:" ++ encodeText s
  | .tt => "T" | .ff => "F" | .not => "~" | .and => "&" | .or => "|" | .xor => "^" | .lp => "(" | .rp => ")"

def showTokens (ts : List Token) : String := " ".intercalate (ts.map showToken)

def showTree : Tree → String
  | .var s => "v:" ++ encodeText s
  | .tt => "T"
  | .ff => "F"
  | .not t => "~ " ++ showTree t
  | .and l r => "& " ++ showTree l ++ " " ++ showTree r
  | .or l r => "| " ++ showTree l ++ " " ++ showTree r
  | .xor l r => "^ " ++ showTree l ++ " " ++ showTree r

def readTree : Nat → List String → Option (Tree × List String)
  | 0, _ => none
  | _, [] => none
  | n + 1, w :: r =>
    if w == "T" then some (.tt, r)
    else if w == "F" then some (.ff, r)
    else if w == "~" then (readTree n r).map (fun (t, r') => (.not t, r'))
    else if w == "&" || w == "|" || w == "^" then
      match readTree n r with
      | some (a, r') =>
        match readTree n r' with
        | some (b, r'') => some ((if w == "&" then Tree.and a b else if w == "|" then Tree.or a b else Tree.xor a b), r'')
        | none => none
      | none => none
    else if w.startsWith "v:" then
      match decodeText (w.drop 2).toString with
      | some cs => some (.var cs, r)
      | none => none
    else none

def parseTree (s : String) : Option Tree :=
  let ws := (s.splitOn " ").filter (· ≠ "")
  match readTree (ws.length + 1) ws with
  | some (t, []) => some t
  | _ => none

def tf (b : Bool) : String := if b then "T" else "F"

/-! s-expressions -/

inductive Sx where
  | atom (s : String)
  | list (xs : List Sx)
  deriving Inhabited

def sxTokens (s : String) : List String :=
  let flush (cur : List Char) (acc : List String) : List String :=
    if cur.isEmpty then acc else String.ofList cur.reverse :: acc
  let rec go (cs : List Char) (cur : List Char) (acc : List String) : List String :=
    match cs with
    | [] => (flush cur acc).reverse
    | c :: rest =>
      if c == '(' || c == ')' then go rest [] (String.singleton c :: flush cur acc)
      else if c == ' ' then go rest [] (flush cur acc)
      else go rest (c :: cur) acc
  go s.toList [] []

mutual
def sxOne : Nat → List String → Option (Sx × List String)
  | 0, _ => none
  | _ + 1, [] => none
  | n + 1, t :: rest =>
    if t == "(" then (sxItems n rest).map (fun (xs, r) => (.list xs, r))
    else if t == ")" then none
    else some (.atom t, rest)
def sxItems : Nat → List String → Option (List Sx × List String)
  | 0, _ => none
  | _ + 1, [] => none
  | n + 1, t :: rest =>
    if t == ")" then some ([], rest)
    else match sxOne n (t :: rest) with
      | none => none
      | some (x, r) => (sxItems n r).map (fun (xs, r') => (x :: xs, r'))
end

def sxParse (s : String) : Option Sx :=
  let ts := sxTokens s
  match sxOne (ts.length + 1) ts with
  | some (x, []) => some x
  | _ => none

/-! tokens, derivations, parse trees -/

def tokenOfText (cs : List Char) : Option Token :=
  if cs = trueW then some .tt else if cs = falseW then some .ff
  else match cs with
    | [c] => sym c
    | _ => none

/-- `<TYPE>:<hex>`: the token with that text, provided the terminal of that name matches it -/
def readLeaf (a : String) : Except String Token :=
  match a.splitOn ":" with
  | [ty, hx] =>
    match allTerm.find? (fun T => T.name == ty), decodeText hx with
    | some T, some cs =>
      let tok? := if T = .WORD then some (Token.name cs) else tokenOfText cs
      match tok? with
      | some tok => if T.matches tok then .ok tok else .error s!"token {a}: the terminal does not match the text"
      | none => .error s!"token {a}: no such token"
    | none, _ => .error s!"token {a}: unknown terminal"
    | _, none => .error s!"token {a}: unreadable text"
  | _ => .error s!"token {a}: not <TYPE>:<hex>"

def ruleKey (r : WRule) : String := r.origin ++ "/" ++ ",".intercalate (r.expansion.map (·.name))

def findRule (key : String) : Option Rule :=
  reference.find? (fun r => ruleKey r.wire == key)

mutual
def readD : Sx → Except String DTree
  | .atom a => (readLeaf a).map .leaf
  | .list (.atom k :: cs) =>
    match findRule k with
    | some r => (readDs cs).map (.node r)
    | none => .error s!"unknown rule {k}"
  | .list _ => .error "derivation node: (origin/symbols child …) expected"
def readDs : List Sx → Except String (List DTree)
  | [] => .ok []
  | c :: cs =>
    match readD c, readDs cs with
    | .ok d, .ok ds => .ok (d :: ds)
    | .error e, _ => .error e
    | _, .error e => .error e
end

mutual
def readRaw : Sx → Except String Raw
  | .atom a => (readLeaf a).map .tok
  | .list (.atom o :: cs) =>
    match allNT.find? (fun A => A.name == o) with
    | some A => (readRaws cs).map (.node A)
    | none => .error s!"unknown tree data {o}"
  | .list _ => .error "parse tree node: (data child …) expected"
def readRaws : List Sx → Except String (List Raw)
  | [] => .ok []
  | c :: cs =>
    match readRaw c, readRaws cs with
    | .ok d, .ok ds => .ok (d :: ds)
    | .error e, _ => .error e
    | _, .error e => .error e
end

mutual
def rawEq : Raw → Raw → Bool
  | .tok a, .tok b => a == b
  | .node A ks, .node B ls => A == B && rawsEq ks ls
  | _, _ => false
def rawsEq : List Raw → List Raw → Bool
  | [], [] => true
  | k :: ks, l :: ls => rawEq k l && rawsEq ks ls
  | _, _ => false
end

/-! the grammar as text items -/

def fb (b : Bool) : String := if b then "T" else "F"

def showWSym (s : WSym) : String :=
  (if s.isTerm then "T:" else "N:") ++ s.name ++ (if s.filterOut then "!" else "")

def showWRule (r : WRule) : String :=
  s!"rule {r.origin} expand1={fb r.expand1} keep_all={fb r.keepAll} alias={r.alias.getD "-"} : "
    ++ " ".intercalate (r.expansion.map showWSym)

def showWTerm (t : WTerm) : String :=
  s!"terminal {t.name} {if t.isRegexp then "re" else "str"} {encodeText t.value.toList} flags={",".intercalate t.flags} priority={t.priority}"

def grammarItems (g : WGrammar) : List String :=
  g.rules.map showWRule ++ g.terminals.map showWTerm ++ g.ignore.map ("ignore " ++ ·) ++ g.start.map ("start " ++ ·)
    ++ g.options.map (fun (k, v) => s!"option {k}={v}") ++ g.callbacks.map ("callback " ++ ·)
    ++ g.unsupported.map ("unsupported " ++ ·)

def handle (line : String) : String :=
  let line := (line.dropEndWhile (fun c => c == '\n' || c == '\r')).toString
  match line.splitOn "\t" with
  | ["grammar"] => "\t".intercalate (grammarItems referenceWire)
  | ["deriv", txt, dw, rw, tr] =>
    match decodeText txt with
    | none => "REJECT-LEX"
    | some cs => match lexChars cs with
      | none => "REJECT-LEX"
      | some ts =>
        match sxParse dw, sxParse rw with
        | some dx, some rx =>
          match readD dx, readRaw rx with
          | .ok d, .ok raw =>
            let b := build d
            let same := if tr == "-" then "-" else match parseTree tr with
              | some t => tf (b == some t)
              | none => "ERR"
            showTokens ts ++ "\tderiv=" ++ tf (isDerivation reference start ts d) ++ "\tshape=" ++ tf (rawEq (shape d) raw)
              ++ "\tbuild=" ++ (match b with | some t => showTree t | none => "none") ++ "\tsame=" ++ same
          | .error e, _ => "ERR " ++ e
          | _, .error e => "ERR " ++ e
        | _, _ => "ERR unreadable s-expression"
  | _ => "ERR cmd"

partial def loop (hin hout : IO.FS.Stream) : IO Unit := do
  let line ← hin.getLine
  if line.isEmpty then return ()
  hout.putStrLn (handle line)
  loop hin hout

def main : IO Unit := do
  let hin ← IO.getStdin
  let hout ← IO.getStdout
  loop hin hout
  hout.flush
