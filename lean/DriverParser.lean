/-
Line-protocol driver for the parser model (C14).  One request per line on stdin,
one answer per line on stdout; fields are separated by TAB.

Texts travel as their Unicode code points in hex, separated by '.', ("-" = empty
text), so that blanks, tabs, newlines, non-ASCII letters and lone surrogates
survive the line protocol.  Trees travel in Polish notation, blank separated:
  & l r | '|' l r | ^ l r | ~ t | T | F | v:<hex code points of the name>

  lex <text>                   -> OK <tokens> | REJECT
  parse <text>                 -> OK <tree> | REJECT-LEX | REJECT-PARSE
  case <text> <tree or `-`>      -> REJECT-LEX
                                | <tokens> TAB <tree or REJECT> TAB wf=T|F TAB faithful=T|N|F|none TAB same=T|F|none
     faithful: T = the tree is a reading of the tokens and is itself tight,
               N = a reading, but not itself tight (a witness is then needed: `tightsame`),
               F = not a reading of the tokens
     same: the given tree equals the model parser's tree up to re-association of equal operators
  tightsame <text> <tree> <tree'> -> T/F  (tree' is a tight reading of the text with the truth table of tree)
  printfull <tree>             -> <text of the fully parenthesised print, blank separated>
-/
import PyPred.Model.Parser

open PyPred.Parser

def hexVal (c : Char) : Option Nat :=
  if '0' ≤ c ∧ c ≤ '9' then some (c.toNat - '0'.toNat)
  else if 'a' ≤ c ∧ c ≤ 'f' then some (c.toNat - 'a'.toNat + 10)
  else none

def hexNat (s : String) : Option Nat :=
  if s.isEmpty then none else
  s.toList.foldl (fun acc c => match acc, hexVal c with
    | some a, some v => some (a * 16 + v)
    | _, _ => none) (some 0)

/-- code points -> characters; `none` if some code point is not a Unicode scalar value
(a lone surrogate): such a text contains a non-letter, hence is outside the language. -/
def decodeText (s : String) : Option (List Char) :=
  if s == "-" then some [] else
  (s.splitOn ".").foldr (fun w acc => match hexNat w, acc with
    | some n, some cs => if n.isValidChar then some (Char.ofNat n :: cs) else none
    | _, _ => none) (some [])

def hexOfNat (n : Nat) : String := String.ofList (Nat.toDigits 16 n)

def encodeText (cs : List Char) : String :=
  if cs.isEmpty then "-" else ".".intercalate (cs.map (fun c => hexOfNat c.toNat))

def showToken : Token → String
  | .name s => "n:" ++ encodeText s
  | .tt => "T" | .ff => "F" | .not => "~" | .and => "&" | .or => "|" | .xor => "^" | .lp => "(" | .rp => ")"

def showTokens (ts : List Token) : String := " ".intercalate (ts.map showToken)

def showTree : Tree → String
  | .var s => "v:" ++ encodeText s
  | .tt => "T"
  | .ff => "F"
  | .not t => "~ " ++ showTree t
  | .and l r => "& " ++ showTree l ++ " " ++ showTree r
  | .or l r => "| " ++ showTree l ++ " " ++ showTree r
  | .xor l r => "^ " ++ showTree l ++ " " ++ showTree r

def readTree : Nat → List String → Option (Tree × List String)
  | 0, _ => none
  | _, [] => none
  | n + 1, w :: r =>
    if w == "T" then some (.tt, r)
    else if w == "F" then some (.ff, r)
    else if w == "~" then (readTree n r).map (fun (t, r') => (.not t, r'))
    else if w == "&" || w == "|" || w == "^" then
      match readTree n r with
      | some (a, r') =>
        match readTree n r' with
        | some (b, r'') => some ((if w == "&" then Tree.and a b else if w == "|" then Tree.or a b else Tree.xor a b), r'')
        | none => none
      | none => none
    else if w.startsWith "v:" then
      match decodeText (w.drop 2).toString with
      | some cs => some (.var cs, r)
      | none => none
    else none

def parseTree (s : String) : Option Tree :=
  let ws := (s.splitOn " ").filter (· ≠ "")
  match readTree (ws.length + 1) ws with
  | some (t, []) => some t
  | _ => none

def tf (b : Bool) : String := if b then "T" else "F"

def faithfulCode (ts : List Token) (t : Tree) : String :=
  if isReading ts t then (if isTight ts t then "T" else "N") else "F"

def handle (line : String) : String :=
  let line := (line.dropEndWhile (fun c => c == '\n' || c == '\r')).toString
  match line.splitOn "\t" with
  | ["lex", txt] =>
    match decodeText txt with
    | none => "REJECT"
    | some cs => match lexChars cs with
      | some ts => "OK " ++ showTokens ts
      | none => "REJECT"
  | ["parse", txt] =>
    match decodeText txt with
    | none => "REJECT-LEX"
    | some cs => match lexChars cs with
      | none => "REJECT-LEX"
      | some ts => match parse ts with
        | some t => "OK " ++ showTree t
        | none => "REJECT-PARSE"
  | ["case", txt, tr] =>
    match decodeText txt with
    | none => "REJECT-LEX"
    | some cs => match lexChars cs with
      | none => "REJECT-LEX"
      | some ts =>
        let p := match parse ts with
          | some t => showTree t
          | none => "REJECT"
        let f := if tr == "-" then "-" else match parseTree tr with
          | some t => faithfulCode ts t
          | none => "ERR"
        let same := if tr == "-" then "-" else match parseTree tr, parse ts with
          | some t, some m => tf (sameModAssoc t m)
          | _, _ => "-"
        showTokens ts ++ "\t" ++ p ++ "\twf=" ++ tf (wellFormed ts) ++ "\tfaithful=" ++ f ++ "\tsame=" ++ same
  | ["tightsame", txt, tr, tr'] =>
    match decodeText txt, parseTree tr, parseTree tr' with
    | some cs, some t, some t' => match lexChars cs with
      | some ts => tf (isTight ts t' && sameTable t t')
      | none => "REJECT-LEX"
    | _, _, _ => "ERR args"
  | ["printfull", tr] =>
    match parseTree tr with
    | some t => encodeText (renderSp (printFull t))
    | none => "ERR args"
  | _ => "ERR cmd"

partial def loop (hin hout : IO.FS.Stream) : IO Unit := do
  let line ← hin.getLine
  if line.isEmpty then return ()
  hout.putStrLn (handle line)
  loop hin hout

def main : IO Unit := do
  let hin ← IO.getStdin
  let hout ← IO.getStdout
  loop hin hout
  hout.flush
