/-
Line-protocol driver for the CLI model (C20).  One request per line on stdin, one
answer per line on stdout; fields are separated by TAB.

Texts travel as their Unicode code points in hex, separated by '.', ("-" = empty
text).  Trees travel in Polish notation, blank separated (as in DriverParser.lean):
  & l r | '|' l r | ^ l r | ~ t | T | F | v:<hex code points of the name>

  cli <cfg> <table|json> <0|1> <text> <tree or `-`>
      -> ref=<O> TAB given=<O or `-`> TAB mtree=<tree or `-`> TAB same=T|F|-
     O = <exit>;<stderr class>;<stdout as hex text or HELP>;[<quirk arms fired>]
     stderr class: empty | text:<hex text> | tb:<exception class> | usage | FUEL
     ref   : the model on the text alone (reference parser)
     given : the model from the tree the implementation's parser returned for this text
             (only when both accept); `same` says whether that tree equals the reference
             parser's tree up to re-association of equal operators *and* is a reading of the text
  decode-table <text>  -> OK <name>,<name>… ; <bits>:<bit> … | FAIL      (Cli.decodeTable)
  decode-json <text>   -> OK <tree> | FAIL                                (Cli.readJson)
-/
import PyPred.Model.Cli
import PyPred.Model.CliDecode
import PyPred.Model.Wire

open PyPred PyPred.Parser PyPred.Cli

def hexVal (c : Char) : Option Nat :=
  if '0' ≤ c ∧ c ≤ '9' then some (c.toNat - '0'.toNat)
  else if 'a' ≤ c ∧ c ≤ 'f' then some (c.toNat - 'a'.toNat + 10)
  else none

def hexNat (s : String) : Option Nat :=
  if s.isEmpty then none else
  s.toList.foldl (fun acc c => match acc, hexVal c with
    | some a, some v => some (a * 16 + v)
    | _, _ => none) (some 0)

/-- code points -> characters; `none` if some code point is not a Unicode scalar value -/
def decodeText (s : String) : Option (List Char) :=
  if s == "-" then some [] else
  (s.splitOn ".").foldr (fun w acc => match hexNat w, acc with
    | some n, some cs => if n.isValidChar then some (Char.ofNat n :: cs) else none
    | _, _ => none) (some [])

def hexOfNat (n : Nat) : String := String.ofList (Nat.toDigits 16 n)

def encodeText (cs : List Char) : String :=
  if cs.isEmpty then "-" else ".".intercalate (cs.map (fun c => hexOfNat c.toNat))

def showTree : Tree → String
  | .var s => "v:" ++ encodeText s
  | .tt => "T"
  | .ff => "F"
  | .not t => "~ " ++ showTree t
  | .and l r => "& " ++ showTree l ++ " " ++ showTree r
  | .or l r => "| " ++ showTree l ++ " " ++ showTree r
  | .xor l r => "^ " ++ showTree l ++ " " ++ showTree r

def readTree : Nat → List String → Option (Tree × List String)
  | 0, _ => none
  | _, [] => none
  | n + 1, w :: r =>
    if w == "T" then some (.tt, r)
    else if w == "F" then some (.ff, r)
    else if w == "~" then (readTree n r).map (fun (t, r') => (.not t, r'))
    else if w == "&" || w == "|" || w == "^" then
      match readTree n r with
      | some (a, r') =>
        match readTree n r' with
        | some (b, r'') => some ((if w == "&" then Tree.and a b else if w == "|" then Tree.or a b else Tree.xor a b), r'')
        | none => none
      | none => none
    else if w.startsWith "v:" then
      match decodeText (w.drop 2).toString with
      | some cs => some (.var cs, r)
      | none => none
    else none

def parseTree (s : String) : Option Tree :=
  let ws := (s.splitOn " ").filter (· ≠ "")
  match readTree (ws.length + 1) ws with
  | some (t, []) => some t
  | _ => none

def tf (b : Bool) : String := if b then "T" else "F"

def showExc : Exc → String
  | .unexpectedCharacters => "UnexpectedCharacters"
  | .valueError => "ValueError"
  | .keyError => "KeyError"

def showErr : ErrOut → String
  | .empty => "empty"
  | .text s => "text:" ++ encodeText s
  | .traceback e => "tb:" ++ showExc e
  | .usage => "usage"
  | .outOfFuel => "FUEL"

def helpMark : Cmd → List Char := fun _ => ['\x00']

def showOut (o : Out) (qs : List Quirk) : String :=
  toString o.exit ++ ";" ++ showErr o.stderr ++ ";" ++ (if o.stdout = ['\x00'] then "HELP" else encodeText o.stdout)
    ++ ";[" ++ ",".intercalate (qs.map Wire.quirkName) ++ "]"

def handleCli (cfg : Cfg) (cmd : Cmd) (opt : Bool) (cs : List Char) (given : Option Tree) : String :=
  let res := parseExpression cs
  let ref := showOut (run helpMark cfg cmd opt cs) (if clickArg cs = .expr then quirksFired cfg opt res else [])
  match res, given, clickArg cs with
  | .tree m, some g, .expr =>
    let ok := sameModAssoc g m && (match lexChars cs with
      | some ts => isReading ts g
      | none => false)
    "ref=" ++ ref ++ "\tgiven=" ++ showOut (runParsed cfg cmd opt cs (.tree g)) (quirksFired cfg opt (.tree g))
      ++ "\tmtree=" ++ showTree m ++ "\tsame=" ++ tf ok
  | .tree m, _, _ => "ref=" ++ ref ++ "\tgiven=-\tmtree=" ++ showTree m ++ "\tsame=-"
  | _, _, _ => "ref=" ++ ref ++ "\tgiven=-\tmtree=-\tsame=-"

def showTable (d : List (List Char) × List (List Bool × Bool)) : String :=
  ",".intercalate (d.1.map String.ofList) ++ " ;" ++
    String.join (d.2.map fun (r, v) => " " ++ String.ofList (r.map bit) ++ ":" ++ String.ofList [bit v])

def handle (line : String) : String :=
  let line := (line.dropEndWhile (fun c => c == '\n' || c == '\r')).toString
  match line.splitOn "\t" with
  | ["cli", c, cmd, o, txt, tr] =>
    match Wire.toCfg c, decodeText txt with
    | some cfg, some cs =>
      let cmd? : Option Cmd := if cmd == "table" then some .table else if cmd == "json" then some .json else none
      match cmd? with
      | none => "ERR cmd"
      | some cmd =>
        if tr == "-" then handleCli cfg cmd (o == "1") cs none
        else match parseTree tr with
          | some g => handleCli cfg cmd (o == "1") cs (some g)
          | none => "ERR tree"
    | _, _ => "ERR args"
  | ["decode-table", txt] =>
    match decodeText txt with
    | some cs => match decodeTable cs with
      | some d => "OK " ++ showTable d
      | none => "FAIL"
    | none => "ERR args"
  | ["decode-json", txt] =>
    match decodeText txt with
    | some cs => match readJson cs with
      | some t => "OK " ++ showTree t
      | none => "FAIL"
    | none => "ERR args"
  | _ => "ERR cmd"

partial def loop (hin hout : IO.FS.Stream) : IO Unit := do
  let line ← hin.getLine
  if line.isEmpty then return ()
  hout.putStrLn (handle line)
  loop hin hout

def main : IO Unit := do
  let hin ← IO.getStdin
  let hout ← IO.getStdout
  loop hin hout
  hout.flush
