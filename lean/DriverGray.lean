/-
Line-protocol driver for the Gray / sorted model (C15G).  One request per line on stdin
(blank-separated words), one answer per line on stdout.  A tuple is printed as its members
joined by `:` (`-` for the empty tuple), a tuple of bools as a word over 0/1.

  gray M0 M1 …      -> ValueError | DIVERGED | T T …      `grayIdx` (the loop of Algorithm H)
  refl M0 M1 …      -> T T …                               `reflected` (the recursive description)
  states M0 M1 …    -> S S …   S = a:a:…|f:f:…|o:o:…       the work lists at every `yield` (fuel `prod`)
  grayb N           -> ValueError | DIVERGED | B B …       `grayBool N`
  comb N            -> ValueError | DIVERGED | B B …       `combinations N` = pySorted (grayBool N)
  rows N            -> B B …                               `TT.rows N`
  sorted B B …      -> B B …                               `pySorted`
  lt B B            -> T | F                               `tupleLt`
-/
import PyPred.Model.Gray
import PyPred.Model.TruthTable

open PyPred PyPred.Gray

def showTuple {α : Type} (sh : α → String) (t : List α) : String :=
  if t.isEmpty then "-" else ":".intercalate (t.map sh)

def showBits (r : List Bool) : String :=
  if r.isEmpty then "-" else String.ofList (r.map (fun b => if b then '1' else '0'))

def readBits (w : String) : Option (List Bool) :=
  if w == "-" then some []
  else w.toList.mapM (fun c => if c == '0' then some false else if c == '1' then some true else none)

def showRes {β : Type} (sh : β → String) : Res (List β) → String
  | .ok L => " ".intercalate (L.map sh)
  | .valueError => "ValueError"
  | .diverged => "DIVERGED"

def showSt (s : St) : String :=
  showTuple toString s.a ++ "|" ++ showTuple toString s.f ++ "|" ++ showTuple toString s.o

/-- The states at the successive `yield`s. -/
def states (ms : List Nat) : Nat → St → List St
  | 0, _ => []
  | fuel + 1, s =>
    s :: match step ms s with
      | none => []
      | some s' => states ms fuel s'

def handle (line : String) : String :=
  let ws := (line.splitOn " ").filter (· ≠ "") |>.map (fun w => w.trimAscii.toString) |>.filter (· ≠ "")
  match ws with
  | [] => "ERR empty"
  | cmd :: args =>
    let nats := args.mapM String.toNat?
    match cmd, nats with
    | "gray", some ms => showRes (showTuple toString) (grayIdx ms)
    | "refl", some ms => " ".intercalate ((reflected ms).map (showTuple toString))
    | "states", some ms => " ".intercalate ((states ms (prod ms) (init ms.length)).map showSt)
    | "grayb", some [n] => showRes showBits (grayBool n)
    | "comb", some [n] => showRes showBits (combinations n)
    | "rows", some [n] => " ".intercalate ((TT.rows n).map showBits)
    | "sorted", _ =>
      match args.mapM readBits with
      | some l => " ".intercalate ((pySorted l).map showBits)
      | none => "ERR args"
    | "lt", _ =>
      match args.mapM readBits with
      | some [a, b] => if tupleLt a b then "T" else "F"
      | _ => "ERR args"
    | _, _ => "ERR cmd"

partial def mainLoop (hin hout : IO.FS.Stream) : IO Unit := do
  let line ← hin.getLine
  if line.isEmpty then return ()
  hout.putStrLn (handle line)
  mainLoop hin hout

def main : IO Unit := do
  let hin ← IO.getStdin
  let hout ← IO.getStdout
  mainLoop hin hout
  hout.flush
