/-
Line-protocol driver over M6 (`GenVal`, `Gen`): properties C09, C10, C11.  One request per
line on stdin, one answer per line on stdout.  Client: harness/gencorr.py.

  gen T|F <fuel> <want> <pred> (<raw>*)   ->  <status> (<val>*) ((<kind> <lo> <hi>)*)      raw = n | (r n count)
        status = more | stopped | starved | error:<Err> | unsupported
        the first `want` results of successive next() calls (each with `fuel`), the values
        yielded and the requests made to the random source, in order
  eval <pred> <val>                       ->  ok T | ok F | raised <Err>
  nextup <f> / nextdown <f>               ->  <f'>         math.nextafter(x, ±inf) on float values ((f k) | (F n))
  floats <f|N> <f|N>                      ->  (<lower> <upper>)   the resolved bounds of random_floats(lower, upper)
  key <val>                               ->  n1 n2 …      GVal.key
  class <pred>                            ->  okT okF boundedT boundedF yieldsT total falseSupported   (0|1 each; Model/GenClass.lean)

Wire format (part of the harness, not a model of the library):
  values  N | (b 0|1) | (i n) | (f k) | (s c*) | (l v*) | (t v*) | (S v*) | (d (k v)*)
          | (D us) | (U n) | (C re im) | (F 0|1)     (f k = the double k·2^-1074; (F 0) = +inf, (F 1) = -inf)
  preds   tt ff none notnone truthy falsy empty | (eq v) (ne v) (ge v) (gt v) (le v) (lt v)
          (in v*) (notin v*) (subset v*) (rsubset v*) (inst klass*) (haskey v)
          (and <unsatT 0|1> <genF 0|1> p q) (or p q) (all p) (any p) (setof p)
          (tupleof p*) (dictof (k v)*)
-/
import PyPred.Model.GenVal
import PyPred.Model.Gen
import PyPred.Model.GenClass
import PyPred.Model.Wire

open PyPred
open PyPred.Gen

namespace WireG

def a (s : String) : Sexp := .atom s

partial def toVal : Sexp → Option GVal
  | .atom "N" => some .none
  | .list [.atom "b", .atom v] => some (.bool (v == "1"))
  | .list [.atom "i", v] => do some (.int (← Wire.intAtom? v))
  | .list [.atom "f", v] => do some (.flt (← Wire.intAtom? v))
  | .list [.atom "F", .atom v] => some (.inf (v == "1"))
  | .list (.atom "s" :: cs) => do some (.str (← Wire.nats? cs))
  | .list (.atom "l" :: xs) => do some (.list (← xs.mapM toVal))
  | .list (.atom "t" :: xs) => do some (.tuple (← xs.mapM toVal))
  | .list (.atom "S" :: xs) => do some (.set (← xs.mapM toVal))
  | .list (.atom "d" :: kvs) => do
      let items ← kvs.mapM (fun kv => match kv with
        | .list [k, v] => do some (GVal.tuple [← toVal k, ← toVal v])
        | _ => none)
      some (.dict items)
  | .list [.atom "D", v] => do some (.dt (← Wire.intAtom? v))
  | .list [.atom "U", v] => do some (.uuid (← Wire.natAtom? v))
  | .list [.atom "C", x, y] => do some (.cplx (← Wire.intAtom? x) (← Wire.intAtom? y))
  | _ => none

partial def ofVal : GVal → Sexp
  | .none => a "N"
  | .bool b => .list [a "b", a (if b then "1" else "0")]
  | .int n => .list [a "i", a (toString n)]
  | .flt t => .list [a "f", a (toString t)]
  | .inf n => .list [a "F", a (if n then "1" else "0")]
  | .str cs => .list (a "s" :: cs.map (fun c => a (toString c)))
  | .list xs => .list (a "l" :: xs.map ofVal)
  | .tuple xs => .list (a "t" :: xs.map ofVal)
  | .set xs => .list (a "S" :: xs.map ofVal)
  | .dict items => .list (a "d" :: items.map (fun it => .list [ofVal (GVal.itemKey it), ofVal (GVal.itemVal it)]))
  | .dt us => .list [a "D", a (toString us)]
  | .uuid n => .list [a "U", a (toString n)]
  | .cplx x y => .list [a "C", a (toString x), a (toString y)]

def toXF : GVal → Option XF
  | .flt k => some (.fin k)
  | .inf n => some (.inf n)
  | _ => none

/-- `N` = the argument is not given. -/
def optXF (s : Sexp) : Option (Option XF) :=
  match toVal s with
  | some .none => some none
  | some v => (toXF v).map some
  | none => none

def toKlass : Sexp → Option PyVal.Klass
  | .atom "bool" => some .bool | .atom "int" => some .int | .atom "float" => some .float
  | .atom "str" => some .str | .atom "list" => some .list | .atom "tuple" => some .tuple
  | .atom "set" => some .set | .atom "dict" => some .dict | .atom "complex" => some .complex
  | .atom "datetime" => some .datetime | .atom "uuid" => some .uuid | .atom "range" => some .range
  | .atom "predicate" => some .predicate | .atom "iterable" => some .iterable
  | .atom "container" => some .container | .atom "hashable" => some .hashable
  | .atom "callable" => some .callable | .atom "object" => some .object
  | .atom "nonetype" => some .noneType
  | _ => none

def bit? : Sexp → Option Bool
  | .atom "1" => some true
  | .atom "0" => some false
  | _ => none

partial def toPred : Sexp → Option GP
  | .atom "tt" => some .tt
  | .atom "ff" => some .ff
  | .atom "none" => some .isNone
  | .atom "notnone" => some .isNotNone
  | .atom "truthy" => some .truthy
  | .atom "falsy" => some .falsy
  | .atom "empty" => some .isEmpty
  | .list [.atom "eq", v] => do some (.eq (← toVal v))
  | .list [.atom "ne", v] => do some (.ne (← toVal v))
  | .list [.atom "ge", v] => do some (.ge (← toVal v))
  | .list [.atom "gt", v] => do some (.gt (← toVal v))
  | .list [.atom "le", v] => do some (.le (← toVal v))
  | .list [.atom "lt", v] => do some (.lt (← toVal v))
  | .list (.atom "in" :: xs) => do some (.isin (← xs.mapM toVal))
  | .list (.atom "notin" :: xs) => do some (.notin (← xs.mapM toVal))
  | .list (.atom "subset" :: xs) => do some (.subset (← xs.mapM toVal))
  | .list (.atom "rsubset" :: xs) => do some (.rsubset (← xs.mapM toVal))
  | .list (.atom "inst" :: ks) => do some (.inst (← ks.mapM toKlass))
  | .list [.atom "haskey", v] => do some (.hasKey (← toVal v))
  | .list [.atom "and", u, g, l, r] => do some (.and (← bit? u) (← bit? g) (← toPred l) (← toPred r))
  | .list [.atom "or", l, r] => do some (.or (← toPred l) (← toPred r))
  | .list [.atom "all", p] => do some (.all (← toPred p))
  | .list [.atom "any", p] => do some (.any (← toPred p))
  | .list [.atom "setof", p] => do some (.setOf (← toPred p))
  | .list (.atom "tupleof" :: ps) => do
      let qs ← ps.mapM toPred
      some (.tupleOf (qs.foldr .pcons .pnil))
  | .list (.atom "dictof" :: kvs) => do
      let qs ← kvs.mapM (fun kv => match kv with
        | .list [k, v] => do some [← toPred k, ← toPred v]
        | _ => none)
      some (.dictOf (qs.flatten.foldr .pcons .pnil))
  | _ => none

def errName : Err → String
  | .typeError => "TypeError" | .attributeError => "AttributeError" | .valueError => "ValueError"
  | .indexError => "IndexError" | .keyError => "KeyError" | .zeroDivisionError => "ZeroDivisionError"
  | .other n => s!"Other{n}"

def showOutcome : Outcome → String
  | .ok true => "ok T"
  | .ok false => "ok F"
  | .raised e => "raised " ++ errName e

def kindName : ReqKind → String
  | .randint => "randint" | .uniform => "uniform" | .randrange => "randrange" | .choices => "choices"
  | .uuid4 => "uuid4" | .now => "now" | .sample => "sample"

def showStatus : Status → String
  | .more => "more" | .stopped => "stopped" | .starved => "starved"
  | .error e => "error:" ++ errName e

def showRun (r : Run) : String :=
  let vals := Sexp.list (r.values.map ofVal)
  let reqs := Sexp.list (r.log.reverse.map fun q => .list [a (kindName q.kind), a (toString q.lo), a (toString q.hi)])
  showStatus r.status ++ " " ++ vals.toString ++ " " ++ reqs.toString

end WireG

/-- Tape entries: an integer, or `(r x n)` = `n` copies of `x` (run-length form for long tapes). -/
def rawsOf (xs : List Sexp) : Option (List Int) := do
  let parts ← xs.mapM fun x => match x with
    | .list [.atom "r", v, n] => do some (List.replicate (← Wire.natAtom? n) (← Wire.intAtom? v))
    | x => do some [← Wire.intAtom? x]
  some parts.flatten

open WireG in
def handle (line : String) : String :=
  match Sexp.parseAll line with
  | none => "ERR parse"
  | some [] => "ERR empty"
  | some (.atom cmd :: args) =>
    match cmd, args with
    | "gen", [.atom mode, f, w, p, .list raws] =>
      match Wire.natAtom? f, Wire.natAtom? w, toPred p, rawsOf raws with
      | some fuel, some want, some p, some raws =>
        let g? : Option G := if mode == "T" then some (genTrue p) else genFalse p
        match g? with
        | some g => showRun (takeN fuel want g ⟨raws, []⟩)
        | none => "unsupported () ()"
      | _, _, _, _ => "ERR args"
    | "eval", [p, v] =>
      match toPred p, toVal v with
      | some p, some v => showOutcome (evalG p v)
      | _, _ => "ERR args"
    | "nextup", [v] =>
      match (toVal v).bind toXF with
      | some x => (ofVal (nextUpX x).val).toString
      | none => "ERR args"
    | "nextdown", [v] =>
      match (toVal v).bind toXF with
      | some x => (ofVal (nextDownX x).val).toString
      | none => "ERR args"
    | "floats", [lo, hi] =>
      -- the resolved bounds of `random_floats(lower, upper)`; `N` = not given
      match optXF lo, optXF hi with
      | some l, some u =>
        match floatsFrom l u with
        | .floats a b _ => (Sexp.list [ofVal a.val, ofVal b.val]).toString
        | _ => "ERR floats"
      | _, _ => "ERR args"
    | "class", [p] =>
      match toPred p with
      | some p =>
        let b (x : Bool) : String := if x then "1" else "0"
        " ".intercalate [b (okT p), b (okF p), b (boundedT p), b (boundedF p), b (yieldsT p), b (total p), b (genFalse p).isSome]
      | none => "ERR args"
    | "key", [v] =>
      match toVal v with
      | some v => " ".intercalate ((GVal.key v).map toString)
      | none => "ERR args"
    | _, _ => "ERR cmd"
  | _ => "ERR cmd"

partial def loop (hin hout : IO.FS.Stream) : IO Unit := do
  let line ← hin.getLine
  if line.isEmpty then return ()
  hout.putStrLn (handle line)
  loop hin hout

def main : IO Unit := do
  let hin ← IO.getStdin
  let hout ← IO.getStdout
  loop hin hout
  hout.flush
