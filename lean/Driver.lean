/-
Line-protocol driver over the executable models.  One request per line on
stdin, one answer per line on stdout.  See harness/driver.py for the client.
-/
import PyPred.Model.Core
import PyPred.Model.Optimize
import PyPred.Model.Wire

open PyPred

def fuel : Nat := 100000

def showTrace (t : List Quirk) : String :=
  "[" ++ ",".intercalate (t.map Wire.quirkName) ++ "]"

def tf (b : Bool) : String := if b then "T" else "F"

def handle (line : String) : String :=
  match Sexp.parseAll line with
  | none => "ERR parse"
  | some [] => "ERR empty"
  | some (.atom cmd :: args) =>
    match cmd, args with
    | "opt", [.atom c, p] =>
      match Wire.toCfg c, Wire.toPred p with
      | some cfg, some p =>
        match optimizeT cfg DriverInterp.fnc fuel p with
        | none => "FUEL"
        | some (o, t) => (Wire.ofPred o).toString ++ " " ++ showTrace t
      | _, _ => "ERR args"
    | "neg", [p] =>
      match Wire.toPred p with
      | some p => (Wire.ofPred (negate p)).toString
      | none => "ERR args"
    | "imp", [p, q] =>
      match Wire.toPred p, Wire.toPred q with
      | some p, some q => tf (implies p q)
      | _, _ => "ERR args"
    | "beq", [p, q] =>
      match Wire.toPred p, Wire.toPred q with
      | some p, some q => tf (Pred.beq p q)
      | _, _ => "ERR args"
    | "eval", [p, v] =>
      match Wire.toPred p, Wire.toVal v with
      | some p, some v => tf (eval DriverInterp.interp p v)
      | _, _ => "ERR args"
    | "canopt", [.atom c, p] =>
      match Wire.toCfg c, Wire.toPred p with
      | some cfg, some p =>
        match canOptimize cfg DriverInterp.fnc fuel p with
        | none => "FUEL"
        | some b => tf b
      | _, _ => "ERR args"
    | _, _ => "ERR cmd"
  | _ => "ERR cmd"

partial def loop (hin hout : IO.FS.Stream) : IO Unit := do
  let line ← hin.getLine
  if line.isEmpty then return ()
  hout.putStrLn (handle line)
  loop hin hout

def main : IO Unit := do
  let hin ← IO.getStdin
  let hout ← IO.getStdout
  loop hin hout
  hout.flush
