/-
Line-protocol driver for M7 `Construct` (property C19).  One request per line on
stdin, one answer per line on stdout.  Client: harness/props/c19.py.

  construct <rounds> <limit> (<F-values>) (<T-values>)  ->  N p1 … pN   first `limit` yields, ≤ `rounds` rounds deep
  sep <pred> (<F-values>) (<T-values>)                  ->  T | F       the filter
  mutations <p1> … <pk>                                 ->  N q1 … qN   create_mutations
  round <k>                                             ->  N c1 … cN   candidate list of round k
  roundlen <k>                                          ->  N
  gray <n> <m>                                          ->  i:j …       gray_product(range(n), range(m))
-/
import PyPred.Model.Core
import PyPred.Model.Wire
import PyPred.Model.Construct

open PyPred

def tf (b : Bool) : String := if b then "T" else "F"

def showPreds (ps : List (Pred Int)) : String :=
  " ".intercalate (toString ps.length :: ps.map fun p => (Wire.ofPred p).toString)

def toVals : Sexp → Option (List (Val Int))
  | .list xs => xs.mapM Wire.toVal
  | _ => none

def handle (line : String) : String :=
  match Sexp.parseAll line with
  | none => "ERR parse"
  | some [] => "ERR empty"
  | some (.atom cmd :: args) =>
    match cmd, args with
    | "construct", [r, l, f, t] =>
      match Wire.natAtom? r, Wire.natAtom? l, toVals f, toVals t with
      | some r, some l, some F, some T =>
        showPreds (Construct.prefixFrom Construct.Ex.interp F T r l Construct.initial)
      | _, _, _, _ => "ERR args"
    | "sep", [p, f, t] =>
      match Wire.toPred p, toVals f, toVals t with
      | some p, some F, some T => tf (Construct.sepB Construct.Ex.interp F T p)
      | _, _, _ => "ERR args"
    | "mutations", ps =>
      match ps.mapM Wire.toPred with
      | some ps => showPreds (Construct.mutations ps)
      | none => "ERR args"
    | "round", [k] =>
      match Wire.natAtom? k with
      | some k => if k ≤ 2 then showPreds (Construct.round k) else "ERR too deep"
      | none => "ERR args"
    | "roundlen", [k] =>
      match Wire.natAtom? k with
      | some k => if k ≤ 2 then toString (Construct.round (V := Int) k).length else "ERR too deep"
      | none => "ERR args"
    | "gray", [n, m] =>
      match Wire.natAtom? n, Wire.natAtom? m with
      | some n, some m =>
        " ".intercalate ((Construct.grayPairs (List.range n) (List.range m)).map fun (i, j) => s!"{i}:{j}")
      | _, _ => "ERR args"
    | _, _ => "ERR cmd"
  | _ => "ERR cmd"

partial def loop (hin hout : IO.FS.Stream) : IO Unit := do
  let line ← hin.getLine
  if line.isEmpty then return ()
  hout.putStrLn (handle line)
  loop hin hout

def main : IO Unit := do
  let hin ← IO.getStdin
  let hout ← IO.getStdout
  loop hin hout
  hout.flush
