/-
Soundness of the optimizer model: every arm that is not an `impl` quirk
preserves `eval`.  Main result: `optimizeT_sound`.
-/
import PyPred.Lemmas.Implies

set_option linter.unusedSectionVars false
set_option linter.unusedVariables false

namespace PyPred
variable {V : Type} [LinearOrder V]

/-- The interpretation's function atoms agree, on scalars, with the table the
optimizer calls at optimisation time (`predicate_fn(v)` in AND10). -/
def Agrees (I : Interp V) (fnc : Nat → V → Bool) : Prop :=
  ∀ i ty a, I.fn i (.sc ty a) = fnc i a

/-- `o` means the same as `p`. -/
def Equiv (I : Interp V) (o p : Pred V) : Prop := ∀ x, eval I o x = eval I p x

def SoundRec (I : Interp V) (rec : Pred V → R V) : Prop :=
  ∀ p o, rec p = some (o, []) → Equiv I o p

theorem bindR_nil {r : R V} {f : Pred V → R V} {o : Pred V} (h : bindR r f = some (o, [])) :
    ∃ p, r = some (p, []) ∧ f p = some (o, []) := by
  unfold bindR at h
  split at h
  · simp at h
  · rename_i p t
    split at h
    · simp at h
    · rename_i q t' hf
      simp only [Option.some.injEq, Prod.mk.injEq, List.append_eq_nil_iff] at h
      obtain ⟨rfl, rfl, rfl⟩ := h
      exact ⟨p, rfl, hf⟩

theorem ret_nil {p o : Pred V} (h : (ret p : R V) = some (o, [])) : o = p := by
  simp [ret] at h; exact h.symm

theorem retQ_ne {q : Quirk} {p o : Pred V} : (retQ q p : R V) ≠ some (o, []) := by
  simp [retQ]

/-! ### sets -/

theorem optIn_sound (I : Interp V) (s : List V) : Equiv I (optIn s) (.isin s) := by
  intro x
  unfold optIn
  split
  · rename_i h
    cases x <;> simp [eval, onSc, dedup_eq_nil_mem h]
  · rename_i a h
    cases x <;> simp [eval, onSc, dedup_eq_singleton_mem h] <;> (rw [Bool.eq_iff_iff]; simp)
  · rfl

theorem optNotIn_sound (I : Interp V) (s : List V) : Equiv I (optNotIn s) (.notin s) := by
  intro x
  unfold optNotIn
  split
  · rename_i h
    cases x <;> simp [eval, onSc, dedup_eq_nil_mem h]
  · rename_i a h
    cases x <;> simp [eval, onSc, dedup_eq_singleton_mem h] <;> (rw [Bool.eq_iff_iff]; simp)
  · rfl

/-! ### all / any / not -/

theorem any_eq_not_all_not {α : Type} (l : List α) (f : α → Bool) :
    l.any f = !l.all (fun y => !f y) := by
  induction l <;> simp_all

theorem all_eq_not_any_not {α : Type} (l : List α) (f : α → Bool) :
    l.all f = !l.any (fun y => !f y) := by
  induction l <;> simp_all

theorem all_false_eq {α : Type} (l : List α) : l.all (fun _ => false) = l.isEmpty := by
  cases l <;> simp

theorem any_true_eq {α : Type} (l : List α) : l.any (fun _ => true) = !l.isEmpty := by
  cases l <;> simp

theorem allPost_sound (I : Interp V) (o : Pred V) : Equiv I (allPost o) (.all o) := by
  intro x
  unfold allPost
  split <;> simp [eval, all_false_eq, any_eq_not_all_not]

theorem stepAll_sound (I : Interp V) {rec : Pred V → R V} (hrec : SoundRec I rec) {q o : Pred V}
    (h : stepAll rec q = some (o, [])) : Equiv I o (.all q) := by
  intro x
  obtain ⟨o1, h1, h2⟩ := bindR_nil h
  have e1 := hrec _ _ h1
  rw [ret_nil h2, allPost_sound]
  simp [eval, e1 _]

theorem stepAny_sound (I : Interp V) (cfg : Cfg) {rec : Pred V → R V} (hrec : SoundRec I rec) {q o : Pred V}
    (h : stepAny cfg rec q = some (o, [])) : Equiv I o (.any q) := by
  intro x
  obtain ⟨o1, h1, h2⟩ := bindR_nil h
  have e1 := hrec _ _ h1
  split at h2
  · -- ANY1
    split at h2
    · exact absurd h2 retQ_ne
    · rw [ret_nil h2]; simp [eval, ← e1 _, any_true_eq]
    · rw [ret_nil h2]; simp [eval, ← e1 _]
  · rw [ret_nil h2]; simp [eval, ← e1 _]
  · rw [ret_nil h2]; simp [eval, ← e1 _, all_eq_not_any_not]
  · rw [ret_nil h2]; simp [eval, ← e1 _, all_eq_not_any_not]
  · rw [ret_nil h2]; simp [eval, e1 _]

theorem notPost_sound (I : Interp V) (o : Pred V) : Equiv I (notPost o) (.not o) := by
  intro x
  unfold notPost
  split
  · simp [eval, negate_sound, all_eq_not_any_not]
  · split
    · simp [eval, negate_sound]
    · split <;> simp [eval, negate_sound]
  · simp [eval, negate_sound, any_eq_not_all_not]
  · split
    · simp [eval, negate_sound]
    · split <;> simp [eval, negate_sound]
  · split
    · simp [eval]
    · split <;> simp [eval]
  · simp [eval, negate_sound]

theorem stepNot_sound (I : Interp V) {rec : Pred V → R V} (hrec : SoundRec I rec) {q o : Pred V}
    (h : stepNot rec q = some (o, [])) : Equiv I o (.not q) := by
  intro x
  unfold stepNot at h
  split at h
  · have e := hrec _ _ h
    simp [eval, e _]
  · obtain ⟨o1, h1, h2⟩ := bindR_nil h
    have e1 := hrec _ _ h1
    rw [ret_nil h2, notPost_sound]
    simp [eval, e1 _]

/-! ### and -/

theorem containsNegAnd_sound (I : Interp V) (node s : Pred V) (h : containsNegAnd node s = true)
    (x : Val V) (hn : eval I node x = true) : eval I s x = false := by
  induction node with
  | and a b iha ihb =>
    unfold containsNegAnd at h
    simp only [eval, Bool.and_eq_true] at hn
    split at h
    · rename_i hc
      simp only [Bool.or_eq_true] at hc
      rcases hc with hc | hc
      · have := beq_sound I hc x; rw [negate_sound] at this; simp_all
      · have := beq_sound I hc x; rw [negate_sound] at this; simp_all
    · split at h
      · exact iha h hn.1
      · split at h
        · exact ihb h hn.2
        · simp at h
  | _ => simp [containsNegAnd] at h

theorem andPre_sound (I : Interp V) {l r o : Pred V} (h : andPre l r = some o) : Equiv I o (.and l r) := by
  intro x
  unfold andPre at h
  split at h
  · rename_i a b
    unfold orElse at h
    split at h
    · rename_i o' ho
      split at ho
      · split at ho
        · rename_i q hq
          simp at ho h; subst ho; subst h
          have := beq_sound I hq x
          simp [eval, this]
          cases eval I r x <;> simp
        · simp at ho
      · simp at ho
    · split at h
      · split at h
        · rename_i q hq
          simp at h; subst h
          have := beq_sound I hq x
          simp [eval, this]
          cases eval I r x <;> simp
        · simp at h
      · simp at h
  · simp at h

theorem all_and_eq {α : Type} (l : List α) (f g : α → Bool) :
    l.all (fun y => f y && g y) = (l.all f && l.all g) := by
  induction l with
  | nil => simp
  | cons a t ih => simp only [List.all_cons, ih]; cases f a <;> cases g a <;> simp

theorem any_or_eq {α : Type} (l : List α) (f g : α → Bool) :
    l.any (fun y => f y || g y) = (l.any f || l.any g) := by
  induction l with
  | nil => simp
  | cons a t ih => simp only [List.any_cons, ih]; cases f a <;> cases g a <;> simp

theorem subOf_inter (x : Val V) (s t : List V) : subOf x (inter s t) = (subOf x s && subOf x t) := by
  unfold subOf
  rw [← all_and_eq]
  congr 1
  funext y
  cases y <;> simp [onSc]

theorem andRulesA_sound (I : Interp V) (cfg : Cfg) (fnc : Nat → V → Bool) (hA : Agrees I fnc)
    {l r o : Pred V} (h : andRulesA cfg fnc l r = some (some (o, []))) : Equiv I o (.and l r) := by
  intro x
  unfold andRulesA at h
  split at h
  all_goals (try split at h)
  all_goals (try split at h)
  all_goals (try split at h)
  all_goals (try (simp [ret, retQ] at h))
  all_goals (try subst h)
  all_goals (try rw [optIn_sound])
  all_goals (try rw [optNotIn_sound])
  all_goals (try simp only [isEmpty_iff_forall_not_mem, mem_inter, mem_diff, mem_union] at *)
  all_goals (try (cases x <;> simp [eval, onSc, subOf_inter, hA _ _ _] <;> grind))

theorem andRulesB_sound (I : Interp V) {node l r : Pred V}
    (hnode : ∀ x, eval I node x = (eval I l x && eval I r x)) : Equiv I (andRulesB node l r) (.and l r) := by
  intro x
  unfold andRulesB
  simp only [eval]
  split
  · rename_i h
    have := implies_sound I h x
    cases hl : eval I l x <;> simp_all
  · split
    · rename_i h
      have := implies_sound I h x
      cases hr : eval I r x <;> simp_all
    · split
      · rename_i h
        simp only [Bool.or_eq_true] at h
        rcases h with h | h
        · have := implies_sound I h x
          rw [negate_sound] at this
          cases hl : eval I l x <;> cases hr : eval I r x <;> simp_all [eval]
        · have := implies_sound I h x
          rw [negate_sound] at this
          cases hl : eval I l x <;> cases hr : eval I r x <;> simp_all [eval]
      · split
        · rename_i h
          have := containsNegAnd_sound I _ _ h x
          rw [hnode] at this
          cases hl : eval I l x <;> cases hr : eval I r x <;> simp_all [eval]
        · split
          · rename_i h
            have := containsNegAnd_sound I _ _ h x
            rw [hnode] at this
            cases hl : eval I l x <;> cases hr : eval I r x <;> simp_all [eval]
          · split
            · rename_i h
              have := beq_sound I h x
              cases hl : eval I l x <;> simp_all
            · simp [eval]

theorem andPhase2_sound (I : Interp V) (cfg : Cfg) (fnc : Nat → V → Bool) (hA : Agrees I fnc)
    {rec : Pred V → R V} (hrec : SoundRec I rec) {node l r o : Pred V}
    (hnode : ∀ x, eval I node x = (eval I l x && eval I r x))
    (h : andPhase2 cfg fnc rec node l r = some (o, [])) : Equiv I o (.and l r) := by
  intro x
  obtain ⟨l', hl, h⟩ := bindR_nil h
  obtain ⟨r', hr, h⟩ := bindR_nil h
  have el := hrec _ _ hl
  have er := hrec _ _ hr
  have key : eval I (.and l' r') x = eval I (.and l r) x := by simp [eval, el x, er x]
  rw [← key]
  split at h
  · rename_i res hres
    subst h
    exact andRulesA_sound I cfg fnc hA hres x
  · split at h
    · rename_i a b
      obtain ⟨y, hy, h⟩ := bindR_nil h
      have ey := hrec _ _ hy
      have eo := hrec _ _ h
      rw [eo x]
      simp [eval, ey _, all_and_eq]
    · rw [ret_nil h]
      refine andRulesB_sound I ?_ x
      intro y; rw [hnode, el y, er y]

theorem stepAnd_sound (I : Interp V) (cfg : Cfg) (fnc : Nat → V → Bool) (hA : Agrees I fnc)
    {rec : Pred V → R V} (hrec : SoundRec I rec) {l r o : Pred V}
    (h : stepAnd cfg fnc rec l r = some (o, [])) : Equiv I o (.and l r) := by
  intro x
  unfold stepAnd at h
  split at h
  · rename_i o' ho
    rw [ret_nil h]; exact andPre_sound I ho x
  · split at h
    · exact andPhase2_sound I cfg fnc hA hrec (fun _ => rfl) h x
    · split at h
      · have := hrec _ _ h x
        rw [this]; simp [eval, Bool.and_comm]
      · split at h
        · rename_i hb
          rw [ret_nil h]
          have := beq_negate_sound I hb x
          simp [eval, this]
        · exact andPhase2_sound I cfg fnc hA hrec (fun _ => rfl) h x

/-! ### or -/

theorem containsNegOr_sound (I : Interp V) (node s : Pred V) (h : containsNegOr node s = true)
    (x : Val V) (hn : eval I node x = false) : eval I s x = true := by
  induction node with
  | or a b iha ihb =>
    unfold containsNegOr at h
    simp only [eval, Bool.or_eq_false_iff] at hn
    split at h
    · exact iha h hn.1
    · simp only [Bool.or_eq_true] at h
      rcases h with hc | hc
      · have := beq_sound I hc x; rw [negate_sound] at this; simp_all
      · have := beq_sound I hc x; rw [negate_sound] at this; simp_all
  | _ => simp [containsNegOr] at h

theorem orAndAnd_sound (I : Interp V) (a b c d : Pred V) :
    Equiv I (orAndAnd (.and a b) (.and c d) a b c d) (.or (.and a b) (.and c d)) := by
  intro x
  unfold orAndAnd
  split
  · rename_i o ho
    split at ho
    · split at ho
      · rename_i x' y' hg
        simp only [Bool.and_eq_true] at hg
        simp at ho; subst ho
        have e1 := beq_sound I hg.1 x
        have e2 := beq_sound I hg.2 x
        simp only [eval, e1, e2]
        cases eval I c x <;> cases eval I b x <;> simp
      · simp at ho
    · simp at ho
  · split
    · rename_i o ho
      split at ho
      · split at ho
        · rename_i x' y' hg
          simp only [Bool.and_eq_true] at hg
          simp at ho; subst ho
          have e1 := beq_sound I hg.1 x
          have e2 := beq_sound I hg.2 x
          simp only [eval, e1, e2]
          cases eval I a x <;> cases eval I d x <;> simp
        · simp at ho
      · simp at ho
    · rfl

theorem orRulesA_sound (I : Interp V) {l r o : Pred V} (h : orRulesA l r = some o) : Equiv I o (.or l r) := by
  intro x
  unfold orRulesA at h
  split at h
  all_goals (try split at h)
  all_goals (try split at h)
  all_goals (try (simp at h))
  all_goals (try subst h)
  all_goals (try rw [optIn_sound])
  all_goals (try rw [optNotIn_sound])
  all_goals (try rw [orAndAnd_sound])
  all_goals (try simp only [isEmpty_iff_forall_not_mem, mem_inter, mem_diff, mem_union] at *)
  all_goals (try (cases x <;> simp [eval, onSc] <;> grind))
  rename_i hb
  have := beq_sound I hb x
  simp only [eval, this]
  cases eval I l x <;> simp

theorem orRulesB_sound (I : Interp V) {node l r : Pred V}
    (hnode : ∀ x, eval I node x = (eval I l x || eval I r x)) : Equiv I (orRulesB node l r) (.or l r) := by
  intro x
  unfold orRulesB
  simp only [eval]
  split
  · rename_i h
    have := implies_sound I h x
    cases hl : eval I l x <;> simp_all
  · split
    · rename_i h
      have := implies_sound I h x
      cases hr : eval I r x <;> simp_all
    · split
      · rename_i h
        have := containsNegOr_sound I _ _ h x
        rw [hnode] at this
        cases hl : eval I l x <;> cases hr : eval I r x <;> simp_all [eval]
      · split
        · rename_i h
          have := containsNegOr_sound I _ _ h x
          rw [hnode] at this
          cases hl : eval I l x <;> cases hr : eval I r x <;> simp_all [eval]
        · simp [eval]

theorem stepOr_sound (I : Interp V) {rec : Pred V → R V} (hrec : SoundRec I rec) {l r o : Pred V}
    (h : stepOr rec l r = some (o, [])) : Equiv I o (.or l r) := by
  intro x
  unfold stepOr at h
  split at h
  · rename_i hb
    rw [ret_nil h]
    have := beq_negate_sound I hb x
    simp [eval, this]
  · obtain ⟨l', hl, h⟩ := bindR_nil h
    obtain ⟨r', hr, h⟩ := bindR_nil h
    have el := hrec _ _ hl
    have er := hrec _ _ hr
    have key : eval I (.or l' r') x = eval I (.or l r) x := by simp [eval, el x, er x]
    rw [← key]
    split at h
    · rename_i hb
      rw [ret_nil h]
      have := beq_sound I hb x
      simp [eval, this]
    · split at h
      · rename_i hb
        rw [ret_nil h]
        have := beq_negate_sound I hb x
        simp [eval, this]
      · split at h
        · rename_i o' ho
          rw [ret_nil h]; exact orRulesA_sound I ho x
        · split at h
          · obtain ⟨y, hy, h⟩ := bindR_nil h
            have ey := hrec _ _ hy
            rw [ret_nil h]
            simp [eval, ey _, any_or_eq]
          · rw [ret_nil h]
            refine orRulesB_sound I ?_ x
            intro y; simp [eval, el y, er y]

/-! ### xor -/

theorem xorNot_sound (I : Interp V) {l r o : Pred V} (h : xorNot l r = some o) : Equiv I o (.xor l r) := by
  intro x
  unfold xorNot at h
  split at h
  · simp at h; subst h
    simp only [eval]
    cases eval I _ x <;> cases eval I _ x <;> simp
  · split at h
    · rename_i hb
      simp at h; subst h
      have := beq_negate_sound I hb x
      simp [eval, this]
    · simp at h

theorem xorAndGuard_sound (I : Interp V) (cfg : Cfg) {l c other o : Pred V}
    (h : xorAndGuard cfg l c other = some (some (o, []))) (x : Val V) :
    eval I o x = (eval I l x != (eval I c x && eval I other x)) := by
  unfold xorAndGuard at h
  split at h
  · split at h
    · rename_i q hb
      have e := beq_sound I hb x
      split at h
      · simp [retQ] at h
      · simp [ret] at h; subst h
        simp only [eval, e]; grind
      · simp at h
    · simp at h
  · simp at h

theorem xorAndDefault_sound (I : Interp V) (cfg : Cfg) {l a b o : Pred V}
    (h : xorAndDefault cfg l a b = some (o, [])) : Equiv I o (.xor l (.and a b)) := by
  intro x
  unfold xorAndDefault at h
  split at h
  · exact absurd h retQ_ne
  · split at h
    · rename_i hb
      have e := beq_sound I hb x
      rw [ret_nil h]; simp only [eval, e]; grind
    · split at h
      · rename_i hb
        have e := beq_sound I hb x
        rw [ret_nil h]; simp only [eval, e]; grind
      · rw [ret_nil h]
  · rw [ret_nil h]

theorem xorAnd_sound (I : Interp V) (cfg : Cfg) {l a b o : Pred V}
    (h : xorAnd cfg l a b = some (o, [])) : Equiv I o (.xor l (.and a b)) := by
  intro x
  unfold xorAnd at h
  split at h
  · rename_i res hres
    subst h
    rw [xorAndGuard_sound I cfg hres x]; simp [eval]
  · split at h
    · rename_i res hres
      subst h
      rw [xorAndGuard_sound I cfg hres x]; simp [eval, Bool.and_comm]
    · exact xorAndDefault_sound I cfg h x

theorem xorOrMk_sound (I : Interp V) (cfg : Cfg) {p q o : Pred V}
    (h : xorOrMk cfg p q = some (some (o, []))) (x : Val V) :
    eval I o x = (eval I p x != (eval I p x || eval I q x)) := by
  unfold xorOrMk at h
  split at h
  · simp [retQ] at h
  · simp [ret] at h; subst h
    simp only [eval]; grind
  · simp at h

theorem xorOrSide_sound (I : Interp V) (cfg : Cfg) {y d o : Pred V}
    (h : xorOrSide cfg y d = some (some (o, []))) (x : Val V) :
    eval I o x = (eval I y x != eval I d x) := by
  unfold xorOrSide at h
  split at h
  · split at h
    · rename_i hb
      have e := beq_sound I hb x
      rw [xorOrMk_sound I cfg h x]; simp only [eval, e]
    · split at h
      · rename_i hb
        have e := beq_sound I hb x
        rw [xorOrMk_sound I cfg h x]; simp only [eval, e]; grind
      · simp at h
  · simp at h

theorem xorOrRule_sound (I : Interp V) (cfg : Cfg) {l r o : Pred V}
    (h : xorOrRule cfg l r = some (some (o, []))) : Equiv I o (.xor l r) := by
  intro x
  unfold xorOrRule orElse at h
  split at h
  · rename_i res hres
    rw [← hres] at h
    exact (xorOrSide_sound I cfg h x).trans (by simp [eval])
  · rw [xorOrSide_sound I cfg h x]; simp [eval, bne_comm]

theorem stepXor_sound (I : Interp V) (cfg : Cfg) {rec : Pred V → R V} (hrec : SoundRec I rec)
    {l r o : Pred V} (h : stepXor cfg rec l r = some (o, [])) : Equiv I o (.xor l r) := by
  intro x
  unfold stepXor at h
  split at h
  · rename_i o' ho
    rw [ret_nil h]; exact xorNot_sound I ho x
  · obtain ⟨l', hl, h⟩ := bindR_nil h
    obtain ⟨r', hr, h⟩ := bindR_nil h
    have el := hrec _ _ hl
    have er := hrec _ _ hr
    have key : eval I (.xor l' r') x = eval I (.xor l r) x := by simp [eval, el x, er x]
    rw [← key]
    split at h
    · rename_i o' ho
      rw [ret_nil h]; exact xorNot_sound I ho x
    · split at h
      · rw [ret_nil h]; simp [eval]
      · rw [ret_nil h]; simp [eval]
      · rw [hrec _ _ h x]; simp [eval]
      · rw [hrec _ _ h x]; simp [eval]
      · split at h
        · rename_i hb
          rw [ret_nil h]
          have := beq_sound I hb x
          simp [eval, this]
        · split at h
          · rw [ret_nil h, optIn_sound]
            cases x <;> simp [eval, onSc] <;> grind
          · rw [ret_nil h, optIn_sound]
            cases x <;> simp [eval, onSc] <;> grind
          · exact xorAnd_sound I cfg h x
          · rw [hrec _ _ h x]; simp [eval, bne_comm]
          · split at h
            · rename_i res hres
              subst h
              exact xorOrRule_sound I cfg hres x
            · split at h
              · split at h
                · rename_i hb
                  have e := beq_sound I hb x
                  rw [ret_nil h]; simp only [eval, e]; grind
                · split at h
                  · rename_i hb
                    have e := beq_sound I hb x
                    rw [ret_nil h]; simp only [eval, e]; grind
                  · rw [ret_nil h]
              · rw [ret_nil h]

/-! ### the dispatcher and the fuelled iteration -/

theorem step_sound (I : Interp V) (cfg : Cfg) (fnc : Nat → V → Bool) (hA : Agrees I fnc)
    {rec : Pred V → R V} (hrec : SoundRec I rec) : SoundRec I (step cfg fnc rec) := by
  intro p o h
  unfold step at h
  split at h
  · exact stepAll_sound I hrec h
  · exact stepAnd_sound I cfg fnc hA hrec h
  · exact stepAny_sound I cfg hrec h
  · exact stepNot_sound I hrec h
  · exact stepOr_sound I hrec h
  · exact stepXor_sound I cfg hrec h
  · rw [ret_nil h]; exact optIn_sound I _
  · rw [ret_nil h]; exact optNotIn_sound I _
  · rw [ret_nil h]; intro x; rfl

/-- Main soundness theorem of the optimizer model: whenever no `impl` quirk arm
fired, the result means the same as the argument — for every fuel, every tree,
every interpretation of the opaque atoms and every value. -/
theorem optimizeT_sound (I : Interp V) (cfg : Cfg) (fnc : Nat → V → Bool) (hA : Agrees I fnc) (n : Nat) :
    SoundRec I (optimizeT cfg fnc n) := by
  induction n with
  | zero => intro p o h; simp [optimizeT] at h
  | succ n ih =>
    intro p o h
    simp only [optimizeT] at h
    exact step_sound I cfg fnc hA ih p o h

end PyPred
