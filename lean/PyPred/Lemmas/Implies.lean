/-
`implies` is sound (C05): over a linear order, `implies p q = true` means every
value satisfying `p` satisfies `q`.
-/
import Mathlib.Order.Defs.LinearOrder
import PyPred.Lemmas.Negate

set_option linter.unusedSectionVars false

namespace PyPred
variable {V : Type} [LinearOrder V]

theorem implies_sound (I : Interp V) {p q : Pred V} (h : implies p q = true) (x : Val V)
    (hp : eval I p x = true) : eval I q x = true := by
  cases p with
  | ff => simp [eval] at hp
  | tt =>
    simp only [implies] at h
    rw [beq_sound I h]; simp [eval]
  | and a b =>
    simp only [implies, Bool.or_eq_true] at h
    simp only [eval, Bool.and_eq_true] at hp
    rcases h with h | h
    · rw [beq_sound I h]; exact hp.1
    · rw [beq_sound I h]; exact hp.2
  | ge v =>
    cases q <;> simp [implies] at h
    all_goals (cases x <;> simp [eval, onSc] at hp ⊢ <;> grind)
  | gt v =>
    cases q <;> simp [implies] at h
    all_goals (cases x <;> simp [eval, onSc] at hp ⊢ <;> grind)
  | eq v =>
    cases q <;> simp [implies] at h
    all_goals (cases x <;> simp [eval, onSc] at hp ⊢ <;> grind)
  | rsubset s =>
    cases q <;> simp [implies] at h
    simp only [eval, Bool.and_eq_true] at hp ⊢
    rw [← subOf_congr h]; exact hp.1
  | rsuperset s =>
    cases q <;> simp [implies] at h
    simp only [eval, Bool.and_eq_true] at hp ⊢
    rw [← supOf_congr h]; exact hp.1
  | isin s =>
    cases q <;> simp [implies] at h
    cases x <;> simp [eval, onSc] at hp ⊢
    exact h _ hp
  | _ => simp [implies] at h

end PyPred
