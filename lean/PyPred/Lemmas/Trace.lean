/-
The trace of `optimizeT` only ever names quirks whose configured variant is
`impl`; hence for a configuration without `impl` entries the trace is empty.
-/
import PyPred.Model.Optimize

set_option linter.unusedSectionVars false
set_option linter.unusedVariables false

namespace PyPred
variable {V : Type} [DecidableEq V] [LT V] [LE V] [DecidableLT V] [DecidableLE V]

def TraceOk (cfg : Cfg) (r : R V) : Prop := ∀ o t, r = some (o, t) → ∀ q ∈ t, cfg q = .impl

theorem traceOk_ret (cfg : Cfg) (p : Pred V) : TraceOk cfg (ret p) := by
  intro o t h q hq; simp [ret] at h; obtain ⟨_, rfl⟩ := h; simp at hq

theorem traceOk_none (cfg : Cfg) : TraceOk cfg (none : R V) := by
  intro o t h; simp at h

theorem traceOk_retQ {cfg : Cfg} {k : Quirk} (hk : cfg k = .impl) (p : Pred V) : TraceOk cfg (retQ k p) := by
  intro o t h q hq; simp [retQ] at h; obtain ⟨_, rfl⟩ := h; simp at hq; subst hq; exact hk

theorem traceOk_bindR {cfg : Cfg} {r : R V} {f : Pred V → R V} (hr : TraceOk cfg r)
    (hf : ∀ p, TraceOk cfg (f p)) : TraceOk cfg (bindR r f) := by
  intro o t h q hq
  unfold bindR at h
  split at h
  · simp at h
  · rename_i p t1
    split at h
    · simp at h
    · rename_i o2 t2 hfp
      simp at h; obtain ⟨rfl, rfl⟩ := h
      simp only [List.mem_append] at hq
      rcases hq with hq | hq
      · exact hr _ _ rfl q hq
      · exact hf p _ _ hfp q hq

def TraceOkRec (cfg : Cfg) (rec : Pred V → R V) : Prop := ∀ p, TraceOk cfg (rec p)

theorem traceOk_some {cfg : Cfg} {r : R V} (h : ∀ res, r = res → TraceOk cfg res) : TraceOk cfg r := h r rfl

theorem stepAll_traceOk {cfg : Cfg} {rec : Pred V → R V} (hrec : TraceOkRec cfg rec) (q : Pred V) :
    TraceOk cfg (stepAll rec q) :=
  traceOk_bindR (hrec q) fun _ => traceOk_ret _ _

theorem stepAny_traceOk {cfg : Cfg} {rec : Pred V → R V} (hrec : TraceOkRec cfg rec) (q : Pred V) :
    TraceOk cfg (stepAny cfg rec q) := by
  refine traceOk_bindR (hrec q) fun o => ?_
  split
  · split
    · rename_i hm; exact traceOk_retQ hm _
    · exact traceOk_ret _ _
    · exact traceOk_ret _ _
  · exact traceOk_ret _ _
  · exact traceOk_ret _ _
  · exact traceOk_ret _ _
  · exact traceOk_ret _ _

theorem stepNot_traceOk {cfg : Cfg} {rec : Pred V → R V} (hrec : TraceOkRec cfg rec) (q : Pred V) :
    TraceOk cfg (stepNot rec q) := by
  unfold stepNot
  split
  · exact hrec _
  · exact traceOk_bindR (hrec _) fun _ => traceOk_ret _ _

theorem andRulesA_traceOk (cfg : Cfg) (fnc : Nat → V → Bool) (l r : Pred V) (res : R V)
    (h : andRulesA cfg fnc l r = some res) : TraceOk cfg res := by
  unfold andRulesA at h
  split at h
  all_goals (try split at h)
  all_goals (try split at h)
  all_goals (try split at h)
  all_goals (try (simp at h))
  all_goals (try subst h)
  all_goals (first | exact traceOk_ret _ _ | (apply traceOk_retQ; assumption))

theorem andPhase2_traceOk {cfg : Cfg} (fnc : Nat → V → Bool) {rec : Pred V → R V} (hrec : TraceOkRec cfg rec)
    (node l r : Pred V) : TraceOk cfg (andPhase2 cfg fnc rec node l r) := by
  refine traceOk_bindR (hrec l) fun l' => traceOk_bindR (hrec r) fun r' => ?_
  split
  · rename_i res hres; exact andRulesA_traceOk cfg fnc _ _ _ hres
  · split
    · exact traceOk_bindR (hrec _) fun _ => hrec _
    · exact traceOk_ret _ _

theorem stepAnd_traceOk {cfg : Cfg} (fnc : Nat → V → Bool) {rec : Pred V → R V} (hrec : TraceOkRec cfg rec)
    (l r : Pred V) : TraceOk cfg (stepAnd cfg fnc rec l r) := by
  unfold stepAnd
  split
  · exact traceOk_ret _ _
  · split
    · exact andPhase2_traceOk fnc hrec _ _ _
    · split
      · exact hrec _
      · split
        · exact traceOk_ret _ _
        · exact andPhase2_traceOk fnc hrec _ _ _

theorem stepOr_traceOk {cfg : Cfg} {rec : Pred V → R V} (hrec : TraceOkRec cfg rec)
    (l r : Pred V) : TraceOk cfg (stepOr rec l r) := by
  unfold stepOr
  split
  · exact traceOk_ret _ _
  · refine traceOk_bindR (hrec l) fun l' => traceOk_bindR (hrec r) fun r' => ?_
    split
    · exact traceOk_ret _ _
    · split
      · exact traceOk_ret _ _
      · split
        · exact traceOk_ret _ _
        · split
          · exact traceOk_bindR (hrec _) fun _ => traceOk_ret _ _
          · exact traceOk_ret _ _

theorem xorAndGuard_traceOk (cfg : Cfg) (l c other : Pred V) (res : R V)
    (h : xorAndGuard cfg l c other = some res) : TraceOk cfg res := by
  unfold xorAndGuard at h
  split at h
  · split at h
    · split at h
      · simp at h; subst h; apply traceOk_retQ; assumption
      · simp at h; subst h; exact traceOk_ret _ _
      · simp at h
    · simp at h
  · simp at h

theorem xorAndDefault_traceOk (cfg : Cfg) (l a b : Pred V) : TraceOk cfg (xorAndDefault cfg l a b) := by
  unfold xorAndDefault
  split
  · apply traceOk_retQ; assumption
  · split
    · exact traceOk_ret _ _
    · split <;> exact traceOk_ret _ _
  · exact traceOk_ret _ _

theorem xorAnd_traceOk (cfg : Cfg) (l a b : Pred V) : TraceOk cfg (xorAnd cfg l a b) := by
  unfold xorAnd
  split
  · rename_i res hres; exact xorAndGuard_traceOk cfg _ _ _ _ hres
  · split
    · rename_i res hres; exact xorAndGuard_traceOk cfg _ _ _ _ hres
    · exact xorAndDefault_traceOk cfg _ _ _

theorem xorOrMk_traceOk (cfg : Cfg) (p q : Pred V) (res : R V) (h : xorOrMk cfg p q = some res) :
    TraceOk cfg res := by
  unfold xorOrMk at h
  split at h
  · simp at h; subst h; apply traceOk_retQ; assumption
  · simp at h; subst h; exact traceOk_ret _ _
  · simp at h

theorem xorOrSide_traceOk (cfg : Cfg) (y d : Pred V) (res : R V) (h : xorOrSide cfg y d = some res) :
    TraceOk cfg res := by
  unfold xorOrSide at h
  split at h
  · split at h
    · exact xorOrMk_traceOk cfg _ _ _ h
    · split at h
      · exact xorOrMk_traceOk cfg _ _ _ h
      · simp at h
  · simp at h

theorem xorOrRule_traceOk (cfg : Cfg) (l r : Pred V) (res : R V) (h : xorOrRule cfg l r = some res) :
    TraceOk cfg res := by
  unfold xorOrRule orElse at h
  split at h
  · rename_i res' hres
    simp at h; subst h
    exact xorOrSide_traceOk cfg _ _ _ hres
  · exact xorOrSide_traceOk cfg _ _ _ h

theorem stepXor_traceOk {cfg : Cfg} {rec : Pred V → R V} (hrec : TraceOkRec cfg rec)
    (l r : Pred V) : TraceOk cfg (stepXor cfg rec l r) := by
  unfold stepXor
  split
  · exact traceOk_ret _ _
  · refine traceOk_bindR (hrec l) fun l' => traceOk_bindR (hrec r) fun r' => ?_
    split
    · exact traceOk_ret _ _
    · split
      · exact traceOk_ret _ _
      · exact traceOk_ret _ _
      · exact hrec _
      · exact hrec _
      · split
        · exact traceOk_ret _ _
        · split
          · exact traceOk_ret _ _
          · exact traceOk_ret _ _
          · exact xorAnd_traceOk cfg _ _ _
          · exact hrec _
          · split
            · rename_i res hres; exact xorOrRule_traceOk cfg _ _ _ hres
            · split
              · split
                · exact traceOk_ret _ _
                · split <;> exact traceOk_ret _ _
              · exact traceOk_ret _ _

theorem step_traceOk {cfg : Cfg} (fnc : Nat → V → Bool) {rec : Pred V → R V} (hrec : TraceOkRec cfg rec) :
    TraceOkRec cfg (step cfg fnc rec) := by
  intro p
  unfold step
  split
  · exact stepAll_traceOk hrec _
  · exact stepAnd_traceOk fnc hrec _ _
  · exact stepAny_traceOk hrec _
  · exact stepNot_traceOk hrec _
  · exact stepOr_traceOk hrec _ _
  · exact stepXor_traceOk hrec _ _
  · exact traceOk_ret _ _
  · exact traceOk_ret _ _
  · exact traceOk_ret _ _

theorem optimizeT_traceOk (cfg : Cfg) (fnc : Nat → V → Bool) (n : Nat) :
    TraceOkRec cfg (optimizeT cfg fnc n) := by
  induction n with
  | zero => intro p; exact traceOk_none cfg
  | succ n ih => intro p; exact step_traceOk fnc ih p

/-- With no `impl` entry in the configuration the trace is empty. -/
theorem noImpl_trace_nil {cfg : Cfg} (hq : cfg.noImpl) (fnc : Nat → V → Bool) {n : Nat} {p o : Pred V}
    {t : List Quirk} (h : optimizeT cfg fnc n p = some (o, t)) : t = [] := by
  cases t with
  | nil => rfl
  | cons q t' => exact absurd (optimizeT_traceOk cfg fnc n p o _ h q (by simp)) (hq q)

end PyPred
