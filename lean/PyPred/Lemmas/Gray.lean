/-
Lemmas about the *reflected* Gray code (`reflectedBool`, `weave`) and about the model of
`sorted` (Model/Gray.lean): permutation of `rows n`, one-position adjacency, `pySorted` is
a sorting function for Python's tuple order.  The loop of Algorithm H is tied to
`reflected` in Lemmas/GrayLoop.lean.
-/
import Mathlib.Data.List.Chain
import PyPred.Model.Gray
import PyPred.Lemmas.TTNames

namespace PyPred.Gray
open PyPred.TT (rows)

/-! ### In how many positions two tuples differ -/

/-- The number of positions (of the common prefix length) at which two tuples differ. -/
def diffs {α : Type} [DecidableEq α] : List α → List α → Nat
  | x :: xs, y :: ys => (if x = y then 0 else 1) + diffs xs ys
  | _, _ => 0

/-- Same length, different in exactly one position. -/
def Adj {α : Type} [DecidableEq α] (r s : List α) : Prop := r.length = s.length ∧ diffs r s = 1

instance {α : Type} [DecidableEq α] (r s : List α) : Decidable (Adj r s) := by
  unfold Adj; infer_instance

section
variable {α : Type} [DecidableEq α]

theorem diffs_self (r : List α) : diffs r r = 0 := by
  induction r with
  | nil => rfl
  | cons x xs ih => simp [diffs, ih]

theorem adj_cons_same (x : α) {r s : List α} (h : Adj r s) : Adj (x :: r) (x :: s) := by
  obtain ⟨hl, hd⟩ := h
  exact ⟨by simp [hl], by simp [diffs, hd]⟩

theorem adj_cons_ne {x y : α} (hxy : x ≠ y) (r : List α) : Adj (x :: r) (y :: r) :=
  ⟨rfl, by simp [diffs, hxy, diffs_self]⟩

/-- Adjacent tuples are different tuples. -/
theorem Adj.ne {r s : List α} (h : Adj r s) : r ≠ s := by
  intro e; subst e
  have := h.2; rw [diffs_self] at this; exact absurd this (by decide)

/-! ### `weave` keeps adjacency -/

omit [DecidableEq α] in
theorem weave_head? {fwd bwd : List α} (t : List α) (ts : List (List α)) :
    (weave fwd bwd (t :: ts)).head? = (fwd.head?.map (· :: t)).or (weave bwd fwd ts).head? := by
  cases fwd <;> simp [weave]

/-- The forward and the backward list each change the first coordinate at every step, and
each ends where the other begins: then `weave` of a chain of adjacent tuples is a chain of
adjacent tuples. -/
theorem weave_chain (L : List (List α)) :
    ∀ {fwd bwd : List α}, fwd ≠ [] → bwd ≠ [] →
      fwd.IsChain (· ≠ ·) → bwd.IsChain (· ≠ ·) →
      fwd.getLast? = bwd.head? → bwd.getLast? = fwd.head? →
      L.IsChain Adj → (weave fwd bwd L).IsChain Adj := by
  induction L with
  | nil => intros; simp [weave]
  | cons t ts ih =>
    intro fwd bwd hf hb cf cb h1 h2 hL
    simp only [weave]
    refine List.IsChain.append ?_ (ih hb hf cb cf h2 h1 hL.tail) ?_
    · exact List.isChain_map_of_isChain (· :: t) (fun a b hab => adj_cons_ne hab t) cf
    · intro x hx y hy
      cases ts with
      | nil => simp [weave] at hy
      | cons t' ts' =>
        rw [weave_head?] at hy
        obtain ⟨v, bs, rfl⟩ : ∃ v bs, bwd = v :: bs := by
          cases bwd with
          | nil => exact absurd rfl hb
          | cons v bs => exact ⟨v, bs, rfl⟩
        simp only [List.head?_cons, Option.map_some, Option.some_or, Option.mem_def,
          Option.some.injEq] at hy
        subst hy
        rw [List.getLast?_map, h1] at hx
        simp only [List.head?_cons, Option.map_some, Option.mem_def, Option.some.injEq] at hx
        subst hx
        have : Adj t t' := by
          have := hL
          rw [List.isChain_cons_cons] at this
          exact this.1
        exact adj_cons_same v this

end

/-! ### The binary reflected code -/

theorem weave_bool_perm (L : List (List Bool)) :
    (weave [false, true] [true, false] L).Perm (L.map (false :: ·) ++ L.map (true :: ·)) ∧
    (weave [true, false] [false, true] L).Perm (L.map (false :: ·) ++ L.map (true :: ·)) := by
  induction L with
  | nil => simp [weave]
  | cons t ts ih =>
    obtain ⟨ih1, ih2⟩ := ih
    constructor
    · simp only [weave, List.map_cons, List.map_nil, List.cons_append, List.nil_append]
      refine List.Perm.cons _ ?_
      refine (List.Perm.cons _ ih2).trans ?_
      exact List.perm_middle.symm
    · simp only [weave, List.map_cons, List.map_nil, List.cons_append, List.nil_append]
      refine (List.Perm.swap _ _ _).trans ?_
      refine List.Perm.cons _ ?_
      refine (List.Perm.cons _ ih1).trans ?_
      exact List.perm_middle.symm

theorem reflectedBool_perm (n : Nat) : (reflectedBool n).Perm (rows n) := by
  induction n with
  | zero => simp [reflectedBool, rows]
  | succ n ih =>
    simp only [reflectedBool, rows]
    exact (weave_bool_perm _).1.trans ((ih.map _).append (ih.map _))

theorem reflectedBool_chain (n : Nat) : (reflectedBool n).IsChain Adj := by
  induction n with
  | zero => simp [reflectedBool]
  | succ n ih =>
    simp only [reflectedBool]
    exact weave_chain _ (by simp) (by simp) (by simp) (by simp) (by simp) (by simp) ih

theorem reflectedBool_length (n : Nat) : (reflectedBool n).length = 2 ^ n := by
  rw [(reflectedBool_perm n).length_eq, TT.rows_length]

/-! ### Python's tuple order on tuples of bools -/

theorem tupleLt_iff_lt (a b : List Bool) : tupleLt a b = true ↔ a < b := by
  induction a generalizing b with
  | nil => cases b <;> simp [tupleLt]
  | cons x xs ih =>
    cases b with
    | nil => simp [tupleLt]
    | cons y ys =>
      simp only [tupleLt, List.cons_lt_cons_iff]
      by_cases hxy : x = y
      · subst hxy; simp [ih]
      · cases x <;> cases y <;> simp_all <;> decide

theorem tupleLt_irrefl (a : List Bool) : tupleLt a a = false := by
  induction a with
  | nil => rfl
  | cons x xs ih => simp [tupleLt, ih]

theorem tupleLt_asymm {a b : List Bool} (h : tupleLt a b = true) : tupleLt b a = false := by
  induction a generalizing b with
  | nil => cases b <;> simp_all [tupleLt]
  | cons x xs ih =>
    cases b with
    | nil => simp [tupleLt] at h
    | cons y ys =>
      simp only [tupleLt] at h ⊢
      by_cases hxy : x = y
      · subst hxy; simp_all
      · have : ¬ y = x := fun e => hxy e.symm
        cases x <;> cases y <;> simp_all

/-- `a ≤ b` in Python's order, as the sort sees it. -/
def tupleLe (a b : List Bool) : Prop := tupleLt b a = false

theorem tupleLe_of_lt {a b : List Bool} (h : tupleLt a b = true) : tupleLe a b := tupleLt_asymm h

theorem tupleLe_total (a b : List Bool) : tupleLe a b ∨ tupleLe b a := by
  unfold tupleLe
  cases h : tupleLt b a with
  | false => exact Or.inl rfl
  | true => exact Or.inr (tupleLt_asymm h)

theorem tupleLe_trans {a b c : List Bool} (h1 : tupleLe a b) (h2 : tupleLe b c) : tupleLe a c := by
  unfold tupleLe at *
  induction a generalizing b c with
  | nil => cases c <;> simp [tupleLt]
  | cons x xs ih =>
    cases b with
    | nil => simp [tupleLt] at h1
    | cons y ys =>
      cases c with
      | nil => simp [tupleLt] at h2
      | cons z zs =>
        simp only [tupleLt] at h1 h2 ⊢
        cases x <;> cases y <;> cases z <;> simp_all
        all_goals exact ih h1 h2

theorem tupleLe_antisymm {a b : List Bool} (h1 : tupleLe a b) (h2 : tupleLe b a) : a = b := by
  unfold tupleLe at *
  induction a generalizing b with
  | nil => cases b <;> simp_all [tupleLt]
  | cons x xs ih =>
    cases b with
    | nil => simp [tupleLt] at h1
    | cons y ys =>
      simp only [tupleLt] at h1 h2
      cases x <;> cases y <;> simp_all
      all_goals exact ih h1 h2

/-! ### `pySorted` sorts -/

theorem insertT_perm (x : List Bool) (l : List (List Bool)) : (insertT x l).Perm (x :: l) := by
  induction l with
  | nil => simp [insertT]
  | cons y ys ih =>
    simp only [insertT]
    split
    · exact (List.Perm.cons y ih).trans (List.Perm.swap _ _ _)
    · exact List.Perm.refl _

theorem pySorted_perm (l : List (List Bool)) : (pySorted l).Perm l := by
  induction l with
  | nil => simp [pySorted]
  | cons x xs ih =>
    have : pySorted (x :: xs) = insertT x (pySorted xs) := rfl
    rw [this]
    exact (insertT_perm x _).trans (List.Perm.cons x ih)

theorem insertT_sorted (x : List Bool) {l : List (List Bool)} (h : l.Pairwise tupleLe) :
    (insertT x l).Pairwise tupleLe := by
  induction l with
  | nil => simp [insertT]
  | cons y ys ih =>
    rw [List.pairwise_cons] at h
    simp only [insertT]
    split
    · rename_i hyx
      rw [List.pairwise_cons]
      refine ⟨?_, ih h.2⟩
      intro z hz
      rcases List.mem_cons.mp ((insertT_perm x ys).mem_iff.mp hz) with rfl | hz
      · exact tupleLe_of_lt hyx
      · exact h.1 z hz
    · rename_i hyx
      have hxy : tupleLe x y := by simpa [tupleLe] using hyx
      rw [List.pairwise_cons]
      refine ⟨?_, List.pairwise_cons.mpr h⟩
      intro z hz
      rcases List.mem_cons.mp hz with rfl | hz
      · exact hxy
      · exact tupleLe_trans hxy (h.1 z hz)

theorem pySorted_sorted (l : List (List Bool)) : (pySorted l).Pairwise tupleLe := by
  induction l with
  | nil => simp [pySorted]
  | cons x xs ih => exact insertT_sorted x ih

/-- `pySorted` of any arrangement of an ascending list is that list. -/
theorem pySorted_eq_of_perm {l s : List (List Bool)} (hp : l.Perm s) (hs : s.Pairwise tupleLe) :
    pySorted l = s :=
  List.Perm.eq_of_pairwise (fun _ _ _ _ h1 h2 => tupleLe_antisymm h1 h2)
    (pySorted_sorted l) hs ((pySorted_perm l).trans hp)

/-- Equal members stay in input order (the sort is stable): an ascending input is returned
unchanged, equal members included. -/
theorem pySorted_of_sorted {l : List (List Bool)} (h : l.Pairwise tupleLe) : pySorted l = l := by
  induction l with
  | nil => rfl
  | cons x xs ih =>
    rw [List.pairwise_cons] at h
    have : pySorted (x :: xs) = insertT x (pySorted xs) := rfl
    rw [this, ih h.2]
    cases xs with
    | nil => rfl
    | cons y ys =>
      have := h.1 y (by simp)
      simp only [insertT]
      unfold tupleLe at this
      simp [this]

end PyPred.Gray
