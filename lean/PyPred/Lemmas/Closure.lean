/-
A generic closure theorem for the optimizer model: every class `φ` of predicate
trees that is compositional on the connectives and quantifiers, closed under
`negate`, and closed under the handful of atom constructions the rewrite arms
perform (range from two bounds, point from `ge & le`, set algebra on membership
sets, `is_empty`/`is_not_empty`) is preserved by `optimize`:

    φ p → optimizeT cfg fnc n p = some (o, t) → φ o          (`optimizeT_closed`)

for every configuration (including the code as it is, `Cfg.allImpl`).
Instances (Props/C02, C17, C18): "mentions only constants from S", "mentions only
comparison constants from S", "built from the kinds to_dot lists", "rendered by
to_json without the unknown placeholder".
-/
import PyPred.Lemmas.Good

set_option linter.unusedSectionVars false
set_option linter.unusedVariables false
set_option linter.unusedSimpArgs false

namespace PyPred
variable {V : Type} [DecidableEq V] [LT V] [LE V] [DecidableLT V] [DecidableLE V]

/-- What a class of trees must satisfy to be preserved by the optimizer. -/
structure PClass (φ : Pred V → Prop) : Prop where
  and_ : ∀ l r, φ (.and l r) ↔ φ l ∧ φ r
  or_ : ∀ l r, φ (.or l r) ↔ φ l ∧ φ r
  xor_ : ∀ l r, φ (.xor l r) ↔ φ l ∧ φ r
  not_ : ∀ q, φ (.not q) ↔ φ q
  all_ : ∀ q, φ (.all q) ↔ φ q
  any_ : ∀ q, φ (.any q) ↔ φ q
  tt_ : φ .tt
  ff_ : φ .ff
  neg : ∀ p, φ p → φ (negate p)
  isEmpty_ : φ .isEmpty
  isNotEmpty_ : φ .isNotEmpty
  gele : ∀ a b, φ (.ge a) → φ (.le b) → φ (.gele a b)
  gelt : ∀ a b, φ (.ge a) → φ (.lt b) → φ (.gelt a b)
  gtle : ∀ a b, φ (.gt a) → φ (.le b) → φ (.gtle a b)
  gtlt : ∀ a b, φ (.gt a) → φ (.lt b) → φ (.gtlt a b)
  ge_eq : ∀ a, φ (.ge a) → φ (.eq a)
  eq_isin : ∀ a, φ (.eq a) → φ (.isin [a])
  isin_eq : ∀ s a, φ (.isin s) → a ∈ s → φ (.eq a)
  isin_mix : ∀ s t u, φ (.isin s) → φ (.isin t) → (∀ a, a ∈ u → a ∈ s ∨ a ∈ t) → φ (.isin u)
  subset_sub : ∀ s t, φ (.subset s) → (∀ a, a ∈ t → a ∈ s) → φ (.subset t)

/-! ### list facts -/

theorem cl_mem_dedup {s : List V} {a : V} (h : a ∈ dedup s) : a ∈ s := by
  induction s with
  | nil => simp [dedup] at h
  | cons b t ih =>
    simp only [dedup, List.mem_cons, List.mem_filter] at h
    rcases h with h | ⟨h, _⟩
    · exact List.mem_cons.2 (Or.inl h)
    · exact List.mem_cons.2 (Or.inr (ih h))

theorem cl_mem_inter {s t : List V} {a : V} (h : a ∈ inter s t) : a ∈ s := by
  simp [inter] at h; exact h.1
theorem cl_mem_diff {s t : List V} {a : V} (h : a ∈ diff s t) : a ∈ s := by
  simp [diff] at h; exact h.1
theorem cl_mem_union {s t : List V} {a : V} (h : a ∈ union s t) : a ∈ s ∨ a ∈ t := by
  simp [union] at h; rcases h with h | h
  · exact Or.inl h
  · exact Or.inr h.1
theorem cl_mem_symdiff {s t : List V} {a : V} (h : a ∈ symdiff s t) : a ∈ s ∨ a ∈ t := by
  simp [symdiff] at h; rcases h with h | h
  · exact Or.inl (cl_mem_diff h)
  · exact Or.inr (cl_mem_diff h)

namespace PClass
variable {φ : Pred V → Prop} (C : PClass φ)
include C

theorem isin_sub {s t : List V} (h : φ (.isin s)) (hs : ∀ a, a ∈ t → a ∈ s) : φ (.isin t) :=
  C.isin_mix s s t h h (fun a ha => Or.inl (hs a ha))

theorem notin_iff (s : List V) : φ (.notin s) ↔ φ (.isin s) :=
  ⟨fun h => by simpa [negate] using C.neg _ h, fun h => by simpa [negate] using C.neg _ h⟩

theorem ne_iff (a : V) : φ (.ne a) ↔ φ (.eq a) :=
  ⟨fun h => by simpa [negate] using C.neg _ h, fun h => by simpa [negate] using C.neg _ h⟩

theorem isNone_of (h : φ (.isNotNone : Pred V)) : φ (.isNone : Pred V) := by simpa [negate] using C.neg _ h

theorem optIn_ {s : List V} (h : φ (.isin s)) : φ (optIn s) := by
  unfold optIn
  split
  · exact C.ff_
  · rename_i a ha
    exact C.isin_eq s a h (cl_mem_dedup (by rw [ha]; simp))
  · exact h

theorem optNotIn_ {s : List V} (h : φ (.isin s)) : φ (optNotIn s) := by
  unfold optNotIn
  split
  · exact C.tt_
  · rename_i a ha
    exact (C.ne_iff a).2 (C.isin_eq s a h (cl_mem_dedup (by rw [ha]; simp)))
  · exact (C.notin_iff s).2 h

end PClass

/-- `rec` maps the class into itself. -/
def ClosedRec (φ : Pred V → Prop) (rec : Pred V → R V) : Prop := ∀ p o t, rec p = some (o, t) → φ p → φ o

section
variable {φ : Pred V → Prop} (C : PClass φ)
include C

macro "cl_simp" C:ident : tactic =>
  `(tactic| simp_all [PClass.and_ $C, PClass.or_ $C, PClass.xor_ $C, PClass.not_ $C, PClass.all_ $C, PClass.any_ $C,
      PClass.tt_ $C, PClass.ff_ $C, PClass.isEmpty_ $C, PClass.isNotEmpty_ $C, PClass.ne_iff $C, PClass.notin_iff $C])

theorem stepAll_closed {rec : Pred V → R V} (hrec : ClosedRec φ rec) {q o : Pred V} {t : List Quirk}
    (h : stepAll rec q = some (o, t)) (hp : φ (.all q)) : φ o := by
  obtain ⟨o1, t1, t2, h1, h2⟩ := bindR_some h
  have g := hrec _ _ _ h1 ((C.all_ q).1 hp)
  rw [ret_some h2]
  unfold allPost
  split
  · exact C.tt_
  · exact C.isEmpty_
  · cl_simp C
  · have := C.isNone_of g; cl_simp C
  · cl_simp C

theorem stepAny_closed (cfg : Cfg) {rec : Pred V → R V} (hrec : ClosedRec φ rec) {q o : Pred V} {t : List Quirk}
    (h : stepAny cfg rec q = some (o, t)) (hp : φ (.any q)) : φ o := by
  obtain ⟨o1, t1, t2, h1, h2⟩ := bindR_some h
  have g := hrec _ _ _ h1 ((C.any_ q).1 hp)
  split at h2
  · split at h2
    · rw [retQ_some h2]; exact C.tt_
    · rw [ret_some h2]; exact C.isNotEmpty_
    · rw [ret_some h2]; cl_simp C
  · rw [ret_some h2]; exact C.ff_
  · rw [ret_some h2]; cl_simp C
  · rw [ret_some h2]; cl_simp C
  · rw [ret_some h2]; cl_simp C

theorem notPost_closed (o : Pred V) (h : φ o) : φ (notPost o) := by
  unfold notPost
  split
  · have := C.neg _ ((C.all_ _).1 h); cl_simp C
  · rename_i a b
    have ha := C.neg _ ((C.and_ _ _).1 h).1
    have hb := C.neg _ ((C.and_ _ _).1 h).2
    split
    · cl_simp C
    · split
      · cl_simp C
      · exact C.neg _ h
  · have := C.neg _ ((C.any_ _).1 h); cl_simp C
  · rename_i a b
    have ha := C.neg _ ((C.or_ _ _).1 h).1
    have hb := C.neg _ ((C.or_ _ _).1 h).2
    split
    · cl_simp C
    · split
      · cl_simp C
      · exact C.neg _ h
  · split
    · cl_simp C
    · split <;> cl_simp C
  · exact C.neg _ h

theorem stepNot_closed {rec : Pred V → R V} (hrec : ClosedRec φ rec) {q o : Pred V} {t : List Quirk}
    (h : stepNot rec q = some (o, t)) (hp : φ (.not q)) : φ o := by
  unfold stepNot at h
  split at h
  · exact hrec _ _ _ h (by cl_simp C)
  · obtain ⟨o1, t1, t2, h1, h2⟩ := bindR_some h
    have g := hrec _ _ _ h1 ((C.not_ _).1 hp)
    rw [ret_some h2]
    exact notPost_closed C o1 g

/-! ### and -/

theorem andPre_closed {l r o : Pred V} (h : andPre l r = some o) (hp : φ (.and l r)) : φ o := by
  unfold andPre orElse at h
  split at h
  · split at h
    · rename_i res hres
      split at hres
      · split at hres
        · simp at hres h; subst hres; subst h; cl_simp C
        · simp at hres
      · simp at hres
    · split at h
      · split at h
        · simp at h; subst h; cl_simp C
        · simp at h
      · simp at h
  · simp at h

theorem andRulesA_closed (cfg : Cfg) (fnc : Nat → V → Bool) {l r o : Pred V} {t : List Quirk}
    (h : andRulesA cfg fnc l r = some (some (o, t))) (hl : φ l) (hr : φ r) : φ o := by
  unfold andRulesA at h
  split at h
  · simp [ret] at h; obtain ⟨rfl, _⟩ := h; exact hl
  · simp [ret] at h; obtain ⟨rfl, _⟩ := h; exact hr
  · split at h
    · simp [ret] at h; obtain ⟨rfl, _⟩ := h; exact C.gele _ _ hl hr
    · split at h
      · simp [ret] at h; obtain ⟨rfl, _⟩ := h; exact C.ge_eq _ hl
      · simp at h
  · split at h
    · simp [ret] at h; obtain ⟨rfl, _⟩ := h; exact C.gelt _ _ hl hr
    · simp at h
  · split at h
    · simp [ret] at h; obtain ⟨rfl, _⟩ := h; exact C.gtle _ _ hl hr
    · simp at h
  · split at h
    · simp [ret] at h; obtain ⟨rfl, _⟩ := h; exact C.gtlt _ _ hl hr
    · simp at h
  · split at h
    · split at h
      · simp [retQ] at h; obtain ⟨rfl, _⟩ := h; exact C.ff_
      · simp at h
    · simp at h
  · split at h
    · split at h
      · simp [retQ] at h; obtain ⟨rfl, _⟩ := h; exact C.ff_
      · simp [ret] at h; obtain ⟨rfl, _⟩ := h; exact C.subset_sub _ _ hl (fun a ha => cl_mem_inter ha)
      · simp at h
    · simp [ret] at h; obtain ⟨rfl, _⟩ := h; exact C.subset_sub _ _ hl (fun a ha => cl_mem_inter ha)
  · split at h
    · split at h
      · simp [retQ] at h; obtain ⟨rfl, _⟩ := h; exact C.tt_
      · simp [ret] at h; obtain ⟨rfl, _⟩ := h; exact hr
      · simp at h
    · simp [ret] at h; obtain ⟨rfl, _⟩ := h; exact C.ff_
  · split at h
    · simp [ret] at h; obtain ⟨rfl, _⟩ := h; exact C.ff_
    · simp [ret] at h; obtain ⟨rfl, _⟩ := h
      exact C.optIn_ (C.isin_sub hl (fun a ha => cl_mem_inter ha))
  · split at h
    · simp [ret] at h; obtain ⟨rfl, _⟩ := h; exact C.ff_
    · simp [ret] at h; obtain ⟨rfl, _⟩ := h
      exact C.optIn_ (C.isin_sub hl (fun a ha => cl_mem_diff ha))
  · split at h
    · simp at h
    · simp [ret] at h; obtain ⟨rfl, _⟩ := h
      exact C.optNotIn_ (C.isin_mix _ _ _ ((C.notin_iff _).1 hl) ((C.notin_iff _).1 hr) (fun a ha => cl_mem_union ha))
  · simp at h

theorem andRulesB_closed (node l r : Pred V) (hl : φ l) (hr : φ r) : φ (andRulesB node l r) := by
  unfold andRulesB
  repeat' split
  all_goals (first | exact hl | exact hr | exact C.ff_ | exact (C.and_ _ _).2 ⟨hl, hr⟩)

theorem andPhase2_closed (cfg : Cfg) (fnc : Nat → V → Bool) {rec : Pred V → R V} (hrec : ClosedRec φ rec)
    {node l r o : Pred V} {t : List Quirk} (h : andPhase2 cfg fnc rec node l r = some (o, t))
    (hl : φ l) (hr : φ r) : φ o := by
  obtain ⟨l', t1, t2, hl', h⟩ := bindR_some h
  obtain ⟨r', t3, t4, hr', h⟩ := bindR_some h
  have gl := hrec _ _ _ hl' hl
  have gr := hrec _ _ _ hr' hr
  split at h
  · rename_i res hres
    subst h
    exact andRulesA_closed C cfg fnc hres gl gr
  · split at h
    · obtain ⟨y, t5, t6, hy, h⟩ := bindR_some h
      have gy := hrec _ _ _ hy (by cl_simp C)
      exact hrec _ _ _ h (by cl_simp C)
    · rw [ret_some h]; exact andRulesB_closed C _ _ _ gl gr

theorem stepAnd_closed (cfg : Cfg) (fnc : Nat → V → Bool) {rec : Pred V → R V} (hrec : ClosedRec φ rec)
    {l r o : Pred V} {t : List Quirk} (h : stepAnd cfg fnc rec l r = some (o, t)) (hp : φ (.and l r)) : φ o := by
  have hl := ((C.and_ _ _).1 hp).1
  have hr := ((C.and_ _ _).1 hp).2
  unfold stepAnd at h
  split at h
  · rename_i o' ho
    rw [ret_some h]; exact andPre_closed C ho hp
  · split at h
    · exact andPhase2_closed C cfg fnc hrec h hl hr
    · split at h
      · exact hrec _ _ _ h ((C.and_ _ _).2 ⟨hr, hl⟩)
      · split at h
        · rw [ret_some h]; exact C.ff_
        · exact andPhase2_closed C cfg fnc hrec h hl hr

/-! ### or -/

theorem orAndAnd_closed (a b c d : Pred V) (h : φ (.or (.and a b) (.and c d))) :
    φ (orAndAnd (.and a b) (.and c d) a b c d) := by
  unfold orAndAnd
  split
  · rename_i o ho
    split at ho
    · split at ho
      · simp at ho; subst ho; cl_simp C
      · simp at ho
    · simp at ho
  · split
    · rename_i o ho
      split at ho
      · split at ho
        · simp at ho; subst ho; cl_simp C
        · simp at ho
      · simp at ho
    · exact h

theorem orRulesA_closed {l r o : Pred V} (h : orRulesA l r = some o) (hl : φ l) (hr : φ r) : φ o := by
  unfold orRulesA at h
  split at h
  · simp at h; subst h; exact C.tt_
  · simp at h; subst h; exact C.tt_
  · simp at h; subst h; exact orAndAnd_closed C _ _ _ _ ((C.or_ _ _).2 ⟨hl, hr⟩)
  · split at h
    · split at h
      · simp at h; subst h; cl_simp C
      · simp at h; subst h; cl_simp C
    · simp at h; subst h; cl_simp C
  · split at h
    · simp at h; subst h
      exact C.isin_mix _ _ _ hl (C.eq_isin _ hr) (fun a ha => by simpa using ha)
    · simp at h
  · split at h
    · simp at h; subst h
      exact C.isin_mix _ _ _ hr (C.eq_isin _ hl) (fun a ha => by simpa using ha)
    · simp at h
  · split at h
    · simp at h; subst h
      exact C.isin_mix _ _ _ (C.eq_isin _ hl) (C.eq_isin _ hr) (fun a ha => by simpa using ha)
    · simp at h
  · split at h
    · simp at h; subst h
      exact C.optNotIn_ (C.isin_sub ((C.notin_iff _).1 hr) (fun a ha => cl_mem_diff ha))
    · simp at h
  · split at h
    · simp at h
    · simp at h; subst h
      exact C.optIn_ (C.isin_mix _ _ _ hl hr (fun a ha => cl_mem_union ha))
  · split at h
    · simp at h; subst h; exact C.tt_
    · simp at h; subst h
      exact C.optNotIn_ (C.isin_sub ((C.notin_iff _).1 hr) (fun a ha => cl_mem_diff ha))
  · simp at h

theorem orRulesB_closed (node l r : Pred V) (hl : φ l) (hr : φ r) : φ (orRulesB node l r) := by
  unfold orRulesB
  repeat' split
  all_goals (first | exact hl | exact hr | exact C.tt_ | exact (C.or_ _ _).2 ⟨hl, hr⟩)

theorem stepOr_closed {rec : Pred V → R V} (hrec : ClosedRec φ rec)
    {l r o : Pred V} {t : List Quirk} (h : stepOr rec l r = some (o, t)) (hp : φ (.or l r)) : φ o := by
  have hl := ((C.or_ _ _).1 hp).1
  have hr := ((C.or_ _ _).1 hp).2
  unfold stepOr at h
  split at h
  · rw [ret_some h]; exact C.tt_
  · obtain ⟨l', t1, t2, hl', h⟩ := bindR_some h
    obtain ⟨r', t3, t4, hr', h⟩ := bindR_some h
    have gl := hrec _ _ _ hl' hl
    have gr := hrec _ _ _ hr' hr
    split at h
    · rw [ret_some h]; exact gl
    · split at h
      · rw [ret_some h]; exact C.tt_
      · split at h
        · rename_i o' ho
          rw [ret_some h]; exact orRulesA_closed C ho gl gr
        · split at h
          · obtain ⟨y, t5, t6, hy, h⟩ := bindR_some h
            have gy := hrec _ _ _ hy (by cl_simp C)
            rw [ret_some h]; cl_simp C
          · rw [ret_some h]; exact orRulesB_closed C _ _ _ gl gr

/-! ### xor -/

theorem xorNot_closed {l r o : Pred V} (h : xorNot l r = some o) (hp : φ (.xor l r)) : φ o := by
  unfold xorNot at h
  split at h
  · simp at h; subst h; cl_simp C
  · split at h
    · simp at h; subst h; exact C.tt_
    · simp at h

theorem xorAndGuard_closed (cfg : Cfg) {l c other o : Pred V} {t : List Quirk}
    (h : xorAndGuard cfg l c other = some (some (o, t))) (hl : φ l) (ho : φ other) : φ o := by
  unfold xorAndGuard at h
  split at h
  · split at h
    · split at h
      · simp [retQ] at h; obtain ⟨rfl, _⟩ := h; cl_simp C
      · simp [ret] at h; obtain ⟨rfl, _⟩ := h; cl_simp C
      · simp at h
    · simp at h
  · simp at h

theorem xorAndDefault_closed (cfg : Cfg) {l a b o : Pred V} {t : List Quirk}
    (h : xorAndDefault cfg l a b = some (o, t)) (hl : φ l) (ha : φ a) (hb : φ b) : φ o := by
  unfold xorAndDefault at h
  split at h
  · rw [retQ_some h]; cl_simp C
  · split at h
    · rw [ret_some h]; cl_simp C
    · split at h
      · rw [ret_some h]; cl_simp C
      · rw [ret_some h]; cl_simp C
  · rw [ret_some h]; cl_simp C

theorem xorAnd_closed (cfg : Cfg) {l a b o : Pred V} {t : List Quirk}
    (h : xorAnd cfg l a b = some (o, t)) (hl : φ l) (ha : φ a) (hb : φ b) : φ o := by
  unfold xorAnd at h
  split at h
  · rename_i res hres
    subst h
    exact xorAndGuard_closed C cfg hres hl hb
  · split at h
    · rename_i res hres
      subst h
      exact xorAndGuard_closed C cfg hres hl ha
    · exact xorAndDefault_closed C cfg h hl ha hb

theorem xorOrMk_closed (cfg : Cfg) {p q o : Pred V} {t : List Quirk}
    (h : xorOrMk cfg p q = some (some (o, t))) (hp : φ p) (hq : φ q) : φ o := by
  unfold xorOrMk at h
  split at h
  · simp [retQ] at h; obtain ⟨rfl, _⟩ := h; exact hq
  · simp [ret] at h; obtain ⟨rfl, _⟩ := h; cl_simp C
  · simp at h

theorem xorOrSide_closed (cfg : Cfg) {y d o : Pred V} {t : List Quirk}
    (h : xorOrSide cfg y d = some (some (o, t))) (hy : φ y) (hd : φ d) : φ o := by
  unfold xorOrSide at h
  split at h
  · have hab := (C.or_ _ _).1 hd
    split at h
    · exact xorOrMk_closed C cfg h hy hab.2
    · split at h
      · exact xorOrMk_closed C cfg h hy hab.1
      · simp at h
  · simp at h

theorem xorOrRule_closed (cfg : Cfg) {l r o : Pred V} {t : List Quirk}
    (h : xorOrRule cfg l r = some (some (o, t))) (hl : φ l) (hr : φ r) : φ o := by
  unfold xorOrRule orElse at h
  split at h
  · rename_i res hres
    rw [← hres] at h
    exact xorOrSide_closed C cfg h hl hr
  · exact xorOrSide_closed C cfg h hr hl

theorem stepXor_closed (cfg : Cfg) {rec : Pred V → R V} (hrec : ClosedRec φ rec)
    {l r o : Pred V} {t : List Quirk} (h : stepXor cfg rec l r = some (o, t)) (hp : φ (.xor l r)) : φ o := by
  have hl := ((C.xor_ _ _).1 hp).1
  have hr := ((C.xor_ _ _).1 hp).2
  unfold stepXor at h
  split at h
  · rename_i o' ho
    rw [ret_some h]; exact xorNot_closed C ho hp
  · obtain ⟨l', t1, t2, hl', h⟩ := bindR_some h
    obtain ⟨r', t3, t4, hr', h⟩ := bindR_some h
    have gl := hrec _ _ _ hl' hl
    have gr := hrec _ _ _ hr' hr
    split at h
    · rename_i o' ho
      rw [ret_some h]; exact xorNot_closed C ho ((C.xor_ _ _).2 ⟨gl, gr⟩)
    · split at h
      · rw [ret_some h]; exact gl
      · rw [ret_some h]; exact gr
      · exact hrec _ _ _ h ((C.not_ _).2 gl)
      · exact hrec _ _ _ h ((C.not_ _).2 gr)
      · split at h
        · rw [ret_some h]; exact C.ff_
        · split at h
          · rw [ret_some h]
            exact C.optIn_ (C.isin_mix _ _ _ gl gr (fun a ha => cl_mem_symdiff ha))
          · rw [ret_some h]
            exact C.optIn_ (C.isin_mix _ _ _ gl (C.eq_isin _ gr) (fun a ha => by
              rcases cl_mem_symdiff ha with h | h
              · exact Or.inl h
              · exact Or.inr h))
          · have hab := (C.and_ _ _).1 gr
            exact xorAnd_closed C cfg h gl hab.1 hab.2
          · exact hrec _ _ _ h ((C.xor_ _ _).2 ⟨gr, gl⟩)
          · split at h
            · rename_i res hres
              subst h
              exact xorOrRule_closed C cfg hres gl gr
            · split at h
              · have hab := (C.xor_ _ _).1 gl
                split at h
                · rw [ret_some h]; exact hab.2
                · split at h
                  · rw [ret_some h]; exact hab.1
                  · rw [ret_some h]; exact (C.xor_ _ _).2 ⟨gl, gr⟩
              · rw [ret_some h]; exact (C.xor_ _ _).2 ⟨gl, gr⟩

/-! ### dispatcher, iteration -/

theorem step_closed (cfg : Cfg) (fnc : Nat → V → Bool) {rec : Pred V → R V} (hrec : ClosedRec φ rec) :
    ClosedRec φ (step cfg fnc rec) := by
  intro p o t h hp
  unfold step at h
  split at h
  · exact stepAll_closed C hrec h hp
  · exact stepAnd_closed C cfg fnc hrec h hp
  · exact stepAny_closed C cfg hrec h hp
  · exact stepNot_closed C hrec h hp
  · exact stepOr_closed C hrec h hp
  · exact stepXor_closed C cfg hrec h hp
  · rw [ret_some h]; exact C.optIn_ hp
  · rw [ret_some h]; exact C.optNotIn_ ((C.notin_iff _).1 hp)
  · rw [ret_some h]; exact hp

/-- The optimizer never leaves a class of trees that satisfies `PClass`. -/
theorem optimizeT_closed (cfg : Cfg) (fnc : Nat → V → Bool) (n : Nat) : ClosedRec φ (optimizeT cfg fnc n) := by
  induction n with
  | zero => intro p o t h; simp [optimizeT] at h
  | succ n ih => intro p o t h; exact step_closed C cfg fnc ih p o t h

theorem optimize_closed (cfg : Cfg) (fnc : Nat → V → Bool) (n : Nat) {p o : Pred V}
    (h : optimize cfg fnc n p = some o) (hp : φ p) : φ o := by
  unfold optimize at h
  cases hr : optimizeT cfg fnc n p with
  | none => simp [hr] at h
  | some res =>
    obtain ⟨o', t⟩ := res
    simp [hr] at h
    subst h
    exact optimizeT_closed C cfg fnc n p o' t hr hp

end

end PyPred
