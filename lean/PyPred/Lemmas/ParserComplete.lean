/-
Completeness of the reference parser for the precedence grammar `Pr`
(`Pr 0 ts t → parse ts = some t`), hence `parse ts = some t ↔ Pr 0 ts t`,
uniqueness of `Pr`-trees and the print / parse round trip.
-/
import PyPred.Lemmas.ParserSound

namespace PyPred
namespace Parser

theorem pr_ne_nil : ∀ {k ts t}, Pr k ts t → ts ≠ [] := by
  intro k ts t h
  induction h <;> simp_all

def Shrinks (p : P) : Prop := ∀ ts x r, p ts = some (x, r) → r.length < ts.length

theorem shrinks_of_sound {p : P} {S : List Token → Tree → Prop} (hs : SoundFor p S)
    (hne : ∀ ts x, S ts x → ts ≠ []) : Shrinks p := by
  intro ts x r h
  obtain ⟨pre, rfl, hS⟩ := hs _ _ _ h
  have := hne _ _ hS
  cases pre with
  | nil => exact absurd rfl this
  | cons a b => simp; omega

/-- with enough fuel the result of `chain` does not depend on the fuel -/
theorem chain_fuel {op : Token} {mk : Tree → Tree → Tree} {sub : P} (hsh : Shrinks sub) :
    ∀ n m acc ts, ts.length < n → ts.length < m →
      chain op mk sub n acc ts = chain op mk sub m acc ts := by
  intro n
  induction n with
  | zero => intro m acc ts h; omega
  | succ n ih =>
    intro m acc ts hn hm
    cases m with
    | zero => omega
    | succ m =>
      cases ts with
      | nil => simp [chain]
      | cons tk rest =>
        simp only [chain]
        by_cases htk : tk = op
        · simp only [htk, if_true]
          cases hs : sub rest with
          | none => rfl
          | some xr =>
            obtain ⟨x, r'⟩ := xr
            have := hsh _ _ _ hs
            simp only [List.length_cons] at hn hm
            exact ih m _ _ (by omega) (by omega)
        · simp [htk]

/-- `sub` reads the phrase `ts` as `x` off the front of any admissible continuation -/
def SubC (sub : P) (ok : Option Token → Prop) (ts : List Token) (x : Tree) : Prop :=
  ∀ rest, ok rest.head? → sub (ts ++ rest) = some (x, rest)

/-- reading `ts ++ rest` at this level is the same as continuing the chain after `ts` with `t` in hand -/
def Q (op : Token) (mk : Tree → Tree → Tree) (sub : P) (ok : Option Token → Prop) (ts : List Token) (t : Tree) : Prop :=
  ∀ rest, ok rest.head? → ∀ n, (ts ++ rest).length < n →
    ∃ x r, sub (ts ++ rest) = some (x, r) ∧ chain op mk sub n x r = chain op mk sub n t rest

theorem Q_one {op mk sub ok ts t} (h : SubC sub ok ts t) : Q op mk sub ok ts t := by
  intro rest hok n _
  exact ⟨t, rest, h rest hok, rfl⟩

theorem Q_step {op : Token} {mk : Tree → Tree → Tree} {sub : P} {ok : Option Token → Prop}
    (hsh : Shrinks sub) (hop : ok (some op)) {l r : List Token} {a b : Tree}
    (hl : Q op mk sub ok l a) (hr : SubC sub ok r b) : Q op mk sub ok (l ++ op :: r) (mk a b) := by
  intro rest hok n hn
  have hlen : (l ++ (op :: r ++ rest)).length < n := by
    simp only [List.length_append, List.length_cons] at hn ⊢; omega
  obtain ⟨x, r0, hsub, hch⟩ := hl (op :: r ++ rest) (by simpa using hop) n hlen
  refine ⟨x, r0, by simpa [List.append_assoc] using hsub, ?_⟩
  rw [hch]
  cases n with
  | zero => omega
  | succ n =>
    have hb := hr rest hok
    have e1 : chain op mk sub (n + 1) a (op :: r ++ rest) = chain op mk sub n (mk a b) rest := by
      simp [chain, hb]
    rw [e1]
    apply chain_fuel hsh
    · simp only [List.length_append, List.length_cons] at hn; omega
    · simp only [List.length_append, List.length_cons] at hn; omega

theorem Q_done {op : Token} {mk : Tree → Tree → Tree} {sub : P} {ok : Option Token → Prop}
    (hsh : Shrinks sub) {ts : List Token} {t : Tree} (h : Q op mk sub ok ts t) :
    SubC (level op mk sub) (fun o => ok o ∧ o ≠ some op) ts t := by
  intro rest hok
  obtain ⟨x, r, hsub, hch⟩ := h rest hok.1 ((ts ++ rest).length + 1) (by omega)
  unfold level
  simp only [hsub]
  have hr := hsh _ _ _ hsub
  rw [chain_fuel hsh (r.length + 1) ((ts ++ rest).length + 1) x r (by omega) (by omega), hch]
  cases rest with
  | nil => simp [chain]
  | cons tk rest' =>
    have : tk ≠ op := by
      intro e; apply hok.2; simp [e]
    simp [chain, this]

/-! ### The four levels -/

def okAny : Option Token → Prop := fun _ => True
def ok1 : Option Token → Prop := fun o => o ≠ some .xor
def ok2 : Option Token → Prop := fun o => o ≠ some .xor ∧ o ≠ some .and
def ok3 : Option Token → Prop := fun o => o ≠ some .xor ∧ o ≠ some .and ∧ o ≠ some .or

theorem unary_shrinks {rec : P} (h : SoundFor rec (Pr 0)) : Shrinks (unary rec) :=
  shrinks_of_sound (unary_sound h) (fun _ _ => pr_ne_nil)
theorem xorLevel_shrinks {rec : P} (h : SoundFor rec (Pr 0)) : Shrinks (xorLevel rec) :=
  shrinks_of_sound (xorLevel_sound h) (fun _ _ => pr_ne_nil)
theorem andLevel_shrinks {rec : P} (h : SoundFor rec (Pr 0)) : Shrinks (andLevel rec) :=
  shrinks_of_sound (andLevel_sound h) (fun _ _ => pr_ne_nil)

/-- what is proved of a `Pr k` phrase, for every fuel `n ≥ |ts|` of `expr` -/
def Mot (k : Nat) (ts : List Token) (t : Tree) : Prop :=
  ∀ n, ts.length ≤ n →
    match k with
    | 3 => SubC (unary (expr n)) okAny ts t
    | 2 => Q .xor .xor (unary (expr n)) okAny ts t
    | 1 => Q .and .and (xorLevel (expr n)) ok1 ts t
    | 0 => Q .or .or (andLevel (expr n)) ok2 ts t
    | _ => True

theorem pr_mot : ∀ {k ts t}, Pr k ts t → Mot k ts t := by
  intro k ts t h
  induction h with
  | name s => intro n _ rest _; simp [unary]
  | tt => intro n _ rest _; simp [unary]
  | ff => intro n _ rest _; simp [unary]
  | @grp ts t _ ih =>
    intro n hn rest _
    simp only [List.length_cons, List.length_append] at hn
    cases n with
    | zero => omega
    | succ m =>
      have h0 := ih m (by omega)
      simp only at h0
      have hC := Q_done (andLevel_shrinks (expr_sound m)) h0 (.rp :: rest) (by simp [ok2])
      have : expr (m + 1) (ts ++ .rp :: rest) = some (t, .rp :: rest) := hC
      simp [unary, this]
  | @not ts t _ ih =>
    intro n hn rest hok
    have := ih n (by simp at hn; omega) rest trivial
    simp [unary, this]
  | up2 _ ih => intro n hn; exact Q_one (ih n hn)
  | @xor l r a b _ _ ih1 ih2 =>
    intro n hn
    simp only [List.length_cons, List.length_append] at hn
    exact Q_step (unary_shrinks (expr_sound n)) trivial (ih1 n (by omega)) (ih2 n (by omega))
  | up1 _ ih =>
    intro n hn
    apply Q_one
    intro rest hok
    exact Q_done (unary_shrinks (expr_sound n)) (ih n hn) rest ⟨trivial, hok⟩
  | @and l r a b _ _ ih1 ih2 =>
    intro n hn
    simp only [List.length_cons, List.length_append] at hn
    refine Q_step (xorLevel_shrinks (expr_sound n)) (by simp [ok1]) (ih1 n (by omega)) ?_
    intro rest hok
    exact Q_done (unary_shrinks (expr_sound n)) (ih2 n (by omega)) rest ⟨trivial, hok⟩
  | up0 _ ih =>
    intro n hn
    apply Q_one
    intro rest hok
    exact Q_done (xorLevel_shrinks (expr_sound n)) (ih n hn) rest ⟨hok.1, hok.2⟩
  | @or l r a b _ _ ih1 ih2 =>
    intro n hn
    simp only [List.length_cons, List.length_append] at hn
    refine Q_step (andLevel_shrinks (expr_sound n)) (by simp [ok2]) (ih1 n (by omega)) ?_
    intro rest hok
    exact Q_done (xorLevel_shrinks (expr_sound n)) (ih2 n (by omega)) rest ⟨hok.1, hok.2⟩

/-- The reference parser finds every tree of the precedence grammar. -/
theorem pr_parse {ts : List Token} {t : Tree} (h : Pr 0 ts t) : parse ts = some t := by
  have h0 := pr_mot h ts.length (Nat.le_refl _)
  simp only at h0
  have hC := Q_done (andLevel_shrinks (expr_sound ts.length)) h0 [] (by simp [ok2])
  have : expr (ts.length + 1) ts = some (t, []) := by simpa [expr, orLevel] using hC
  simp [parse, this]

theorem parse_iff_pr {ts : List Token} {t : Tree} : parse ts = some t ↔ Pr 0 ts t :=
  ⟨parse_pr, pr_parse⟩

/-- the precedence grammar is unambiguous -/
theorem pr_unique {ts : List Token} {t u : Tree} (h1 : Pr 0 ts t) (h2 : Pr 0 ts u) : t = u := by
  have a := pr_parse h1
  have b := pr_parse h2
  rw [a] at b; exact Option.some.inj b

/-! ### Print / parse -/

theorem printFull_pr3 : ∀ t : Tree, Pr 3 (.lp :: printFull t ++ [.rp]) t := by
  intro t
  induction t with
  | var s => exact .grp (.up0 (.up1 (.up2 (.name s))))
  | tt => exact .grp (.up0 (.up1 (.up2 .tt)))
  | ff => exact .grp (.up0 (.up1 (.up2 .ff)))
  | not t ih => exact .grp (.up0 (.up1 (.up2 (.not ih))))
  | and l r ih1 ih2 =>
    have : Pr 1 (printFull (.and l r)) (.and l r) := by
      have := Pr.and (.up1 (.up2 ih1)) (.up2 ih2)
      simpa [printFull] using this
    exact .grp (.up0 this)
  | or l r ih1 ih2 =>
    have : Pr 0 (printFull (.or l r)) (.or l r) := by
      have := Pr.or (.up0 (.up1 (.up2 ih1))) (.up1 (.up2 ih2))
      simpa [printFull] using this
    exact .grp this
  | xor l r ih1 ih2 =>
    have : Pr 2 (printFull (.xor l r)) (.xor l r) := by
      have := Pr.xor (.up2 ih1) ih2
      simpa [printFull] using this
    exact .grp (.up0 (.up1 this))

theorem printFull_pr0 : ∀ t : Tree, Pr 0 (printFull t) t := by
  intro t
  cases t with
  | var s => exact .up0 (.up1 (.up2 (.name s)))
  | tt => exact .up0 (.up1 (.up2 .tt))
  | ff => exact .up0 (.up1 (.up2 .ff))
  | not t => exact .up0 (.up1 (.up2 (.not (printFull_pr3 t))))
  | and l r =>
    have := Pr.and (.up1 (.up2 (printFull_pr3 l))) (.up2 (printFull_pr3 r))
    exact .up0 (by simpa [printFull] using this)
  | or l r =>
    have := Pr.or (.up0 (.up1 (.up2 (printFull_pr3 l)))) (.up1 (.up2 (printFull_pr3 r)))
    simpa [printFull] using this
  | xor l r =>
    have := Pr.xor (.up2 (printFull_pr3 l)) (printFull_pr3 r)
    exact .up0 (.up1 (by simpa [printFull] using this))

theorem parse_printFull (t : Tree) : parse (printFull t) = some t := pr_parse (printFull_pr0 t)

end Parser
end PyPred
