/-
Fuel monotonicity: more fuel never changes a result of `optimizeT`.
-/
import PyPred.Model.Optimize

set_option linter.unusedSectionVars false
set_option linter.unusedVariables false

namespace PyPred
variable {V : Type} [DecidableEq V] [LT V] [LE V] [DecidableLT V] [DecidableLE V]

/-- `r'` extends `r`. -/
def LeR (r r' : R V) : Prop := ∀ res, r = some res → r' = some res
def LeRec (rec rec' : Pred V → R V) : Prop := ∀ p, LeR (rec p) (rec' p)

theorem leR_refl (r : R V) : LeR r r := fun _ h => h

theorem bindR_mono {r r' : R V} {f f' : Pred V → R V} (hr : LeR r r') (hf : ∀ p, LeR (f p) (f' p)) :
    LeR (bindR r f) (bindR r' f') := by
  intro res h
  cases r with
  | none => simp [bindR] at h
  | some pt =>
    obtain ⟨p, t⟩ := pt
    have h1 := hr _ rfl
    cases hfp : f p with
    | none => simp [bindR, hfp] at h
    | some qt =>
      obtain ⟨q, t'⟩ := qt
      have h2 := hf p _ hfp
      simp [bindR, hfp] at h
      simp [bindR, h1, h2, h]

theorem stepAll_mono {rec rec' : Pred V → R V} (h : LeRec rec rec') (q : Pred V) :
    LeR (stepAll rec q) (stepAll rec' q) :=
  bindR_mono (h q) fun _ => leR_refl _

theorem stepAny_mono (cfg : Cfg) {rec rec' : Pred V → R V} (h : LeRec rec rec') (q : Pred V) :
    LeR (stepAny cfg rec q) (stepAny cfg rec' q) := by
  refine bindR_mono (h q) fun o => ?_
  split
  · exact leR_refl _
  · exact leR_refl _
  · exact leR_refl _
  · exact leR_refl _
  · exact leR_refl _

theorem stepNot_mono {rec rec' : Pred V → R V} (h : LeRec rec rec') (q : Pred V) :
    LeR (stepNot rec q) (stepNot rec' q) := by
  unfold stepNot
  split
  · exact h _
  · exact bindR_mono (h _) fun _ => leR_refl _

theorem andPhase2_mono (cfg : Cfg) (fnc : Nat → V → Bool) {rec rec' : Pred V → R V} (h : LeRec rec rec')
    (node l r : Pred V) : LeR (andPhase2 cfg fnc rec node l r) (andPhase2 cfg fnc rec' node l r) := by
  refine bindR_mono (h l) fun l' => bindR_mono (h r) fun r' => ?_
  split
  · exact leR_refl _
  · split
    · exact bindR_mono (h _) fun _ => h _
    · exact leR_refl _

theorem stepAnd_mono (cfg : Cfg) (fnc : Nat → V → Bool) {rec rec' : Pred V → R V} (h : LeRec rec rec')
    (l r : Pred V) : LeR (stepAnd cfg fnc rec l r) (stepAnd cfg fnc rec' l r) := by
  unfold stepAnd
  split
  · exact leR_refl _
  · split
    · exact andPhase2_mono cfg fnc h _ _ _
    · split
      · exact h _
      · split
        · exact leR_refl _
        · exact andPhase2_mono cfg fnc h _ _ _

theorem stepOr_mono {rec rec' : Pred V → R V} (h : LeRec rec rec') (l r : Pred V) :
    LeR (stepOr rec l r) (stepOr rec' l r) := by
  unfold stepOr
  split
  · exact leR_refl _
  · refine bindR_mono (h l) fun l' => bindR_mono (h r) fun r' => ?_
    split
    · exact leR_refl _
    · split
      · exact leR_refl _
      · split
        · exact leR_refl _
        · split
          · exact bindR_mono (h _) fun _ => leR_refl _
          · exact leR_refl _

theorem stepXor_mono (cfg : Cfg) {rec rec' : Pred V → R V} (h : LeRec rec rec') (l r : Pred V) :
    LeR (stepXor cfg rec l r) (stepXor cfg rec' l r) := by
  unfold stepXor
  split
  · exact leR_refl _
  · refine bindR_mono (h l) fun l' => bindR_mono (h r) fun r' => ?_
    split
    · exact leR_refl _
    · split
      · exact leR_refl _
      · exact leR_refl _
      · exact h _
      · exact h _
      · split
        · exact leR_refl _
        · split
          · exact leR_refl _
          · exact leR_refl _
          · exact leR_refl _
          · exact h _
          · exact leR_refl _

theorem step_mono (cfg : Cfg) (fnc : Nat → V → Bool) {rec rec' : Pred V → R V} (h : LeRec rec rec') :
    LeRec (step cfg fnc rec) (step cfg fnc rec') := by
  intro p
  unfold step
  split
  · exact stepAll_mono h _
  · exact stepAnd_mono cfg fnc h _ _
  · exact stepAny_mono cfg h _
  · exact stepNot_mono h _
  · exact stepOr_mono h _ _
  · exact stepXor_mono cfg h _ _
  · exact leR_refl _
  · exact leR_refl _
  · exact leR_refl _

theorem optimizeT_succ_mono (cfg : Cfg) (fnc : Nat → V → Bool) (n : Nat) :
    LeRec (optimizeT cfg fnc n) (optimizeT cfg fnc (n + 1)) := by
  induction n with
  | zero => intro p res h; simp [optimizeT] at h
  | succ n ih => intro p; exact step_mono cfg fnc ih p

/-- More fuel never changes a result. -/
theorem optimizeT_fuel_mono (cfg : Cfg) (fnc : Nat → V → Bool) {n m : Nat} (hnm : n ≤ m) {p : Pred V}
    {res : Pred V × List Quirk} (h : optimizeT cfg fnc n p = some res) : optimizeT cfg fnc m p = some res := by
  induction hnm with
  | refl => exact h
  | step _ ih => exact optimizeT_succ_mono cfg fnc _ p _ ih

theorem optimize_fuel_mono (cfg : Cfg) (fnc : Nat → V → Bool) {n m : Nat} (hnm : n ≤ m) {p o : Pred V}
    (h : optimize cfg fnc n p = some o) : optimize cfg fnc m p = some o := by
  unfold optimize at *
  cases hr : optimizeT cfg fnc n p with
  | none => simp [hr] at h
  | some res =>
    rw [optimizeT_fuel_mono cfg fnc hnm hr]
    simpa [hr] using h

/-- Two sufficiently fuelled runs agree. -/
theorem optimizeT_deterministic (cfg : Cfg) (fnc : Nat → V → Bool) {n m : Nat} {p : Pred V}
    {r1 r2 : Pred V × List Quirk} (h1 : optimizeT cfg fnc n p = some r1) (h2 : optimizeT cfg fnc m p = some r2) :
    r1 = r2 := by
  rcases Nat.le_total n m with h | h
  · have := optimizeT_fuel_mono cfg fnc h h1; rw [this] at h2; exact Option.some.inj h2
  · have := optimizeT_fuel_mono cfg fnc h h2; rw [this] at h1; exact (Option.some.inj h1).symm

end PyPred
