/-
The local characterisation of the language: a token list has a reading exactly
when the two-state scanner `wellFormed` accepts it (operand expected / operand
ended, count of open parentheses).
-/
import PyPred.Lemmas.ParserSound

namespace PyPred
namespace Parser

/-- reading a phrase moves the scanner from "operand expected" to "operand ended" at the same depth -/
theorem rd_scan : ∀ {b ts t}, Rd b ts t → ∀ d rest, scan true d (ts ++ rest) = scan false d rest := by
  intro b ts t h
  induction h with
  | name s => intro d rest; simp [scan]
  | tt => intro d rest; simp [scan]
  | ff => intro d rest; simp [scan]
  | grp _ ih =>
    intro d rest
    simp only [List.cons_append, List.append_assoc, scan, List.nil_append]
    rw [ih (d + 1) (.rp :: rest)]
    simp [scan]
  | not _ ih => intro d rest; simp only [List.cons_append, scan]; exact ih d rest
  | up _ ih => exact ih
  | and _ _ ih1 ih2 =>
    intro d rest
    rw [List.append_assoc, ih1 d]
    simp only [List.cons_append, scan]; exact ih2 d rest
  | or _ _ ih1 ih2 =>
    intro d rest
    rw [List.append_assoc, ih1 d]
    simp only [List.cons_append, scan]; exact ih2 d rest
  | xor _ _ ih1 ih2 =>
    intro d rest
    rw [List.append_assoc, ih1 d]
    simp only [List.cons_append, scan]; exact ih2 d rest

theorem reading_wellFormed {ts : List Token} {t : Tree} (h : Reading ts t) : wellFormed ts = true := by
  have := rd_scan h 0 []
  simp only [List.append_nil] at this
  unfold wellFormed; rw [this]; rfl

/-- how a continuation ends: at the end of the text at depth 0, or at the `)` that closes the current group -/
def Stop (d : Nat) (rest : List Token) : Prop :=
  (rest = [] ∧ d = 0) ∨ ∃ r' d', rest = .rp :: r' ∧ d = d' + 1 ∧ scan false d' r' = true

def ScanA (n : Nat) : Prop :=
  ∀ ts d, ts.length ≤ n → scan true d ts = true →
    ∃ pre rest t, ts = pre ++ rest ∧ Rd true pre t ∧ scan false d rest = true

def ScanB (n : Nat) : Prop :=
  ∀ ts d, ts.length ≤ n → scan false d ts = true → ∀ pre0 t0, Rd false pre0 t0 →
    ∃ pre rest t, ts = pre ++ rest ∧ Rd false (pre0 ++ pre) t ∧ Stop d rest

theorem scanA_step {n : Nat} (hA : ScanA n) (hB : ScanB n) : ScanA (n + 1) := by
  intro ts d hlen hs
  cases ts with
  | nil => simp [scan] at hs
  | cons x r =>
    have hr : r.length ≤ n := by simpa using hlen
    cases x <;> simp only [scan] at hs
    case name s => exact ⟨[.name s], r, _, rfl, .name s, hs⟩
    case tt => exact ⟨[.tt], r, _, rfl, .tt, hs⟩
    case ff => exact ⟨[.ff], r, _, rfl, .ff, hs⟩
    case not =>
      obtain ⟨pre, rest, t, rfl, hR, hs'⟩ := hA r d hr hs
      exact ⟨.not :: pre, rest, _, rfl, .not hR, hs'⟩
    case lp =>
      obtain ⟨p1, r1, t1, rfl, hR1, hs1⟩ := hA r (d + 1) hr hs
      have hr1 : r1.length ≤ n := by simp at hr; omega
      obtain ⟨p2, rest, t, rfl, hR, hstop⟩ := hB r1 (d + 1) hr1 hs1 p1 t1 (.up hR1)
      rcases hstop with ⟨_, h0⟩ | ⟨r', d', rfl, hd, hs'⟩
      · omega
      · have : d' = d := by omega
        subst this
        exact ⟨.lp :: (p1 ++ p2) ++ [.rp], r', t, by simp, .grp hR, hs'⟩
    all_goals cases hs

theorem scanB_step {n : Nat} (hA : ScanA n) (hB : ScanB n) : ScanB (n + 1) := by
  intro ts d hlen hs pre0 t0 h0
  cases ts with
  | nil =>
    simp [scan] at hs
    exact ⟨[], [], t0, rfl, by simpa using h0, .inl ⟨rfl, hs⟩⟩
  | cons x r =>
    have hr : r.length ≤ n := by simpa using hlen
    have bin : ∀ (op : Token) (mk : Tree → Tree → Tree),
        (∀ l a rr b, Rd false l a → Rd false rr b → Rd false (l ++ op :: rr) (mk a b)) →
        scan true d r = true →
        ∃ pre rest t, op :: r = pre ++ rest ∧ Rd false (pre0 ++ pre) t ∧ Stop d rest := by
      intro op mk hmk hs
      obtain ⟨p1, r1, t1, rfl, hR1, hs1⟩ := hA r d hr hs
      have hr1 : r1.length ≤ n := by simp at hr; omega
      obtain ⟨p2, rest, t, rfl, hR, hstop⟩ :=
        hB r1 d hr1 hs1 (pre0 ++ op :: p1) (mk t0 t1) (hmk _ _ _ _ h0 (.up hR1))
      exact ⟨op :: p1 ++ p2, rest, t, by simp, by simpa [List.append_assoc] using hR, hstop⟩
    cases x <;> simp only [scan] at hs
    case and => exact bin .and .and (fun _ _ _ _ => .and) hs
    case or => exact bin .or .or (fun _ _ _ _ => .or) hs
    case xor => exact bin .xor .xor (fun _ _ _ _ => .xor) hs
    case rp =>
      cases d with
      | zero => simp at hs
      | succ d' =>
        simp only at hs
        exact ⟨[], .rp :: r, t0, rfl, by simpa using h0, .inr ⟨r, d', rfl, rfl, hs⟩⟩
    all_goals cases hs

theorem scanAB : ∀ n, ScanA n ∧ ScanB n := by
  intro n
  induction n with
  | zero =>
    constructor
    · intro ts d hlen hs
      have : ts = [] := List.eq_nil_of_length_eq_zero (by omega)
      subst this; simp [scan] at hs
    · intro ts d hlen hs pre0 t0 h0
      have : ts = [] := List.eq_nil_of_length_eq_zero (by omega)
      subst this
      simp [scan] at hs
      exact ⟨[], [], t0, rfl, by simpa using h0, .inl ⟨rfl, hs⟩⟩
  | succ n ih => exact ⟨scanA_step ih.1 ih.2, scanB_step ih.1 ih.2⟩

theorem wellFormed_reading {ts : List Token} (h : wellFormed ts = true) : ∃ t, Reading ts t := by
  obtain ⟨p1, r1, t1, rfl, hR1, hs1⟩ := (scanAB _).1 ts 0 (Nat.le_refl _) h
  obtain ⟨p2, rest, t, rfl, hR, hstop⟩ := (scanAB _).2 r1 0 (Nat.le_refl _) hs1 p1 t1 (.up hR1)
  rcases hstop with ⟨rfl, _⟩ | ⟨_, _, _, hd, _⟩
  · exact ⟨t, by simpa [Reading] using hR⟩
  · omega

/-- **A token list belongs to the language iff the scanner accepts it.** -/
theorem wellFormed_iff {ts : List Token} : wellFormed ts = true ↔ ∃ t, Reading ts t :=
  ⟨wellFormed_reading, fun ⟨_, h⟩ => reading_wellFormed h⟩

end Parser
end PyPred
