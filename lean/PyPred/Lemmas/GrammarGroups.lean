/-
Every parenthesised group of a bracketing is a sub-tree: for every `(` of the token list there is a `)` behind it
such that the tokens between the two are a bracketing of a sub-tree of the whole tree.
-/
import PyPred.Lemmas.GrammarComplete

namespace PyPred
namespace Grammar
open Parser

theorem split_app {α : Type} {l r pre rest : List α} {x y : α} (hxy : x ≠ y) (e : l ++ y :: r = pre ++ x :: rest) :
    (∃ c, l = pre ++ x :: c ∧ rest = c ++ y :: r) ∨ (∃ a, r = a ++ x :: rest ∧ pre = l ++ y :: a) := by
  rcases List.append_eq_append_iff.1 e with ⟨a', h1, h2⟩ | ⟨c', h1, h2⟩
  · cases a' with
    | nil => simp at h2; exact absurd h2.1.symm hxy
    | cons z a'' =>
      simp at h2
      obtain ⟨rfl, rfl⟩ := h2
      exact Or.inr ⟨a'', rfl, h1⟩
  · cases c' with
    | nil => simp at h2; exact absurd h2.1 hxy
    | cons z c'' =>
      simp at h2
      obtain ⟨rfl, rfl⟩ := h2
      exact Or.inl ⟨c'', h1, rfl⟩

theorem Subtree.trans {u v t : Tree} (h1 : Subtree u v) (h2 : Subtree v t) : Subtree u t := by
  induction h2 with
  | refl => exact h1
  | not _ ih => exact .not ih
  | andL _ ih => exact .andL ih
  | andR _ ih => exact .andR ih
  | orL _ ih => exact .orL ih
  | orR _ ih => exact .orR ih
  | xorL _ ih => exact .xorL ih
  | xorR _ ih => exact .xorR ih

/-- the conclusion for the `(` that follows `pre` -/
def GroupAt (rest : List Token) (t : Tree) : Prop :=
  ∃ mid post u, rest = mid ++ .rp :: post ∧ Bracketing mid u ∧ Subtree u t

theorem groupAt_binary {l r pre rest : List Token} {a b t : Tree} {op : Token} (hop : Token.lp ≠ op)
    (ih1 : ∀ pre rest, l = pre ++ .lp :: rest → GroupAt rest a)
    (ih2 : ∀ pre rest, r = pre ++ .lp :: rest → GroupAt rest b)
    (sl : ∀ {u}, Subtree u a → Subtree u t) (sr : ∀ {u}, Subtree u b → Subtree u t)
    (e : l ++ op :: r = pre ++ .lp :: rest) : GroupAt rest t := by
  rcases split_app hop e with ⟨c, h1, h2⟩ | ⟨a', h1, _⟩
  · obtain ⟨mid, post, u, e', hb, hs⟩ := ih1 pre c h1
    refine ⟨mid, post ++ op :: r, u, ?_, hb, sl hs⟩
    rw [h2, e']; simp
  · obtain ⟨mid, post, u, e', hb, hs⟩ := ih2 a' rest h1
    exact ⟨mid, post, u, e', hb, sr hs⟩

theorem bracketing_group : ∀ {ts t}, Bracketing ts t → ∀ pre rest, ts = pre ++ .lp :: rest → GroupAt rest t := by
  intro ts t h
  induction h with
  | name s => intro pre rest e; cases pre <;> simp at e
  | tt => intro pre rest e; cases pre <;> simp at e
  | ff => intro pre rest e; cases pre <;> simp at e
  | @grp ts t hb ih =>
    intro pre rest e
    cases pre with
    | nil =>
      simp at e
      exact ⟨ts, [], t, e.symm, hb, .refl⟩
    | cons x pre' =>
      simp at e
      obtain ⟨_, e⟩ := e
      rcases split_app (by decide : Token.lp ≠ Token.rp) e with ⟨c, h1, h2⟩ | ⟨a', h1, _⟩
      · obtain ⟨mid, post, u, e', hb', hs⟩ := ih pre' c h1
        refine ⟨mid, post ++ [.rp], u, ?_, hb', hs⟩
        rw [h2, e']; simp
      · simp at h1
  | not _ ih =>
    intro pre rest e
    cases pre with
    | nil => simp at e
    | cons x pre' =>
      simp at e
      obtain ⟨mid, post, u, e', hb', hs⟩ := ih pre' rest e.2
      exact ⟨mid, post, u, e', hb', .not hs⟩
  | and _ _ ih1 ih2 => intro pre rest e; exact groupAt_binary (by decide) ih1 ih2 .andL .andR e
  | or _ _ ih1 ih2 => intro pre rest e; exact groupAt_binary (by decide) ih1 ih2 .orL .orR e
  | xor _ _ ih1 ih2 => intro pre rest e; exact groupAt_binary (by decide) ih1 ih2 .xorL .xorR e

end Grammar
end PyPred
