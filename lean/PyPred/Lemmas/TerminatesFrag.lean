/-
A fragment on which the number of invocations is provably linear (C12): trees built from
leaves with `and`, `or`, `not` only (`Pred.aon`: no `xor`, no quantifier).  There the arms
that re-optimise results cannot fire (AND14 / OR13 need a quantifier at the root of an
operand's result, and results of quantifier-free terms are quantifier-free; XOR3/4/9 need a
`xor` argument), so every node is visited once, twice when AND-p2 swaps:
`invocations ≤ 2 * size - 1`, ticked trace `≤ 4 * size - 2`.
-/
import PyPred.Lemmas.TerminatesCost

set_option linter.unusedSectionVars false
set_option linter.unusedVariables false
set_option linter.unusedSimpArgs false

namespace PyPred

section
variable {V : Type}

/-- `and` / `or` / `not` over leaves. -/
def Pred.aon : Pred V → Bool
  | .and l r => l.aon && r.aon
  | .or l r => l.aon && r.aon
  | .not p => p.aon
  | .xor _ _ => false
  | .all _ => false
  | .any _ => false
  | _ => true

/-- No quantifier reachable through the connectives. -/
def Pred.qf : Pred V → Bool
  | .and l r => l.qf && r.qf
  | .or l r => l.qf && r.qf
  | .xor l r => l.qf && r.qf
  | .not p => p.qf
  | .all _ => false
  | .any _ => false
  | _ => true

theorem qf_of_aon (p : Pred V) (h : p.aon = true) : p.qf = true := by
  induction p <;> simp_all [Pred.aon, Pred.qf]

/-- Bound on the number of invocations on the fragment: `2 * size - 1`, two less for a
conjunction that AND-p2 does not swap. -/
def ib (p : Pred V) : Nat :=
  2 * p.size - 1 - (match p with
    | .and l r => if !l.isOr && r.isOr then 0 else 2
    | _ => 0)

/-- Bound on the ticked trace (one marker and at most one quirk entry per invocation). -/
def tb (p : Pred V) : Nat := 2 * ib p

theorem size_pos (p : Pred V) : 1 ≤ p.size := by
  cases p <;> simp [Pred.size] <;> omega

theorem tb_le (p : Pred V) : tb p ≤ 4 * p.size - 2 := by
  unfold tb ib; omega

theorem tb_ge (p : Pred V) : 2 ≤ tb p := by
  have := size_pos p
  unfold tb ib
  split
  · rename_i l r
    have := size_pos l; have := size_pos r
    simp only [Pred.size]; split <;> omega
  · omega

end

variable {V : Type} [DecidableEq V] [LT V] [LE V] [DecidableLT V] [DecidableLE V]

theorem qf_negate (p : Pred V) : (negate p).qf = p.qf := by
  cases p <;> simp [negate, Pred.qf]

theorem qf_optIn (s : List V) : (optIn s).qf = true := by
  unfold optIn; split <;> simp [Pred.qf]
theorem qf_optNotIn (s : List V) : (optNotIn s).qf = true := by
  unfold optNotIn; split <;> simp [Pred.qf]

macro "qsimp" : tactic =>
  `(tactic| simp_all [Pred.qf, Pred.aon, qf_negate, qf_optIn, qf_optNotIn])

theorem notPost_qf (o : Pred V) (h : o.qf = true) : (notPost o).qf = true := by
  unfold notPost
  split
  · qsimp
  · split
    · qsimp
    · split <;> qsimp
  · qsimp
  · split
    · qsimp
    · split <;> qsimp
  · split
    · qsimp
    · split <;> qsimp
  · qsimp

theorem andPre_qf {l r o : Pred V} (h : andPre l r = some o) (hl : l.qf = true) (hr : r.qf = true) :
    o.qf = true := by
  unfold andPre orElse at h
  split at h
  · split at h
    · rename_i res hres
      split at hres
      · split at hres
        · simp at hres h; subst hres; subst h; qsimp
        · simp at hres
      · simp at hres
    · split at h
      · split at h
        · simp at h; subst h; qsimp
        · simp at h
      · simp at h
  · simp at h

theorem andRulesA_qf (cfg : Cfg) (fnc : Nat → V → Bool) {l r : Pred V} {res : R V}
    (h : andRulesA cfg fnc l r = some res) (hl : l.qf = true) (hr : r.qf = true) :
    Ans 1 res (fun o => o.qf = true) := by
  unfold andRulesA at h
  split at h
  all_goals (try split at h)
  all_goals (try split at h)
  all_goals (try split at h)
  all_goals (try (simp at h))
  all_goals (try subst h)
  all_goals (first | apply Ans.ret | refine Ans.retQ ?_ (Nat.le_refl _))
  all_goals qsimp

theorem andRulesB_qf (node l r : Pred V) (hl : l.qf = true) (hr : r.qf = true) :
    (andRulesB node l r).qf = true := by
  unfold andRulesB
  repeat' split
  all_goals qsimp

theorem andPhase2_frag {kl kr : Nat} (cfg : Cfg) (fnc : Nat → V → Bool) {rec : Pred V → R V} {node l r : Pred V}
    (hl : Ans kl (rec l) (fun o => o.qf = true)) (hr : Ans kr (rec r) (fun o => o.qf = true)) :
    Ans (kl + kr + 1) (andPhase2 cfg fnc rec node l r) (fun o => o.qf = true) := by
  unfold andPhase2
  refine Ans.bind (k2 := kr + 1) hl (fun l' hl' => ?_) (by omega)
  refine Ans.bind (k2 := 1) hr (fun r' hr' => ?_) (by omega)
  split
  · rename_i res hres
    exact andRulesA_qf cfg fnc hres hl' hr'
  · split
    · simp [Pred.qf] at hl'
    · exact Ans.ret (andRulesB_qf _ _ _ hl' hr')

theorem orAndAnd_qf (l r a b c d : Pred V) (hl : l = .and a b) (hr : r = .and c d)
    (h1 : l.qf = true) (h2 : r.qf = true) : (orAndAnd l r a b c d).qf = true := by
  subst hl hr
  unfold orAndAnd
  split
  · rename_i o ho
    split at ho
    · split at ho
      · simp at ho; subst ho; qsimp
      · simp at ho
    · simp at ho
  · split
    · rename_i o ho
      split at ho
      · split at ho
        · simp at ho; subst ho; qsimp
        · simp at ho
      · simp at ho
    · qsimp

theorem orRulesA_qf {l r o : Pred V} (h : orRulesA l r = some o) (hl : l.qf = true) (hr : r.qf = true) :
    o.qf = true := by
  unfold orRulesA at h
  split at h
  all_goals (try split at h)
  all_goals (try split at h)
  all_goals (try (simp at h))
  all_goals (try subst h)
  all_goals (try exact orAndAnd_qf _ _ _ _ _ _ rfl rfl hl hr)
  all_goals qsimp

theorem orRulesB_qf (node l r : Pred V) (hl : l.qf = true) (hr : r.qf = true) :
    (orRulesB node l r).qf = true := by
  unfold orRulesB
  repeat' split
  all_goals qsimp

/-- The oracle answers every fragment term below `p` within its bound, quantifier-free. -/
def FragBelow (p : Pred V) (rec : Pred V → R V) : Prop :=
  ∀ t, t.aon = true → μ t < μ p → Ans (tb t) (rec t) (fun o => o.qf = true)

theorem step_frag (cfg : Cfg) (fnc : Nat → V → Bool) {rec : Pred V → R V} {p : Pred V}
    (hp : p.aon = true) (hrec : FragBelow p rec) :
    Ans (tb p - 1) (step cfg fnc rec p) (fun o => o.qf = true) := by
  have h2 := tb_ge p
  unfold step
  split
  · simp [Pred.aon] at hp
  · -- and
    rename_i l r
    simp only [Pred.aon, Bool.and_eq_true] at hp
    have hsl := size_pos l
    have hsr := size_pos r
    have hL := hrec l hp.1 (μ_lt_of_w_lt (by have := w_pos r; simp [w]; omega))
    have hR := hrec r hp.2 (μ_lt_of_w_lt (by have := w_pos l; simp [w]; omega))
    have hbl := tb_le l
    have hbr := tb_le r
    unfold stepAnd
    split
    · rename_i o ho
      exact Ans.ret (andPre_qf ho (qf_of_aon _ hp.1) (qf_of_aon _ hp.2))
    · split
      · rename_i hlor
        refine (andPhase2_frag cfg fnc hL hR).weaken ?_
        simp [tb, ib, Pred.size, hlor]; omega
      · split
        · rename_i hlor hror
          have hsw : Pred.aon (.and r l) = true := by simp [Pred.aon, hp.1, hp.2]
          refine (hrec (.and r l) hsw (by simp_all [μ, swapBit, w]; omega)).weaken ?_
          simp [tb, ib, Pred.size, hlor, hror]; omega
        · split
          · exact Ans.ret (by simp [Pred.qf])
          · rename_i hlor hror _
            refine (andPhase2_frag cfg fnc hL hR).weaken ?_
            simp [tb, ib, Pred.size, hlor, hror]; omega
  · simp [Pred.aon] at hp
  · -- not
    rename_i q
    simp only [Pred.aon] at hp
    unfold stepNot
    split
    · rename_i q'
      simp only [Pred.aon] at hp
      have hb := tb_le q'
      have := size_pos q'
      refine (hrec q' hp (μ_lt_of_w_lt (by simp [w]; omega))).weaken ?_
      simp [tb, ib, Pred.size]; omega
    · have hb := tb_le q
      have := size_pos q
      refine Ans.bind (k2 := 0) (hrec q hp (μ_lt_of_w_lt (by simp [w]))) (fun o ho => Ans.ret (notPost_qf o ho)) ?_
      simp [tb, ib, Pred.size]; omega
  · -- or
    rename_i l r
    simp only [Pred.aon, Bool.and_eq_true] at hp
    have hsl := size_pos l
    have hsr := size_pos r
    have hL := hrec l hp.1 (μ_lt_of_w_lt (by have := w_pos r; simp [w]; omega))
    have hR := hrec r hp.2 (μ_lt_of_w_lt (by have := w_pos l; simp [w]; omega))
    have hbl := tb_le l
    have hbr := tb_le r
    unfold stepOr
    split
    · exact Ans.ret (by simp [Pred.qf])
    · refine Ans.bind (k2 := tb r) hL (fun l' hl' => ?_) (by simp [tb, ib, Pred.size]; omega)
      refine Ans.bind (k2 := 0) hR (fun r' hr' => ?_) (by omega)
      split
      · exact Ans.ret hl'
      · split
        · exact Ans.ret (by simp [Pred.qf])
        · split
          · rename_i o ho
            exact Ans.ret (orRulesA_qf ho hl' hr')
          · split
            · simp [Pred.qf] at hl'
            · exact Ans.ret (orRulesB_qf _ _ _ hl' hr')
  · simp [Pred.aon] at hp
  · exact Ans.ret (qf_optIn _)
  · exact Ans.ret (qf_optNotIn _)
  · rename_i h1 h2 h3 h4 h5 h6 h7 h8
    refine Ans.ret ?_
    cases p <;> simp_all [Pred.qf, Pred.aon]

/-- On the `and`/`or`/`not` fragment the ticked run answers within `tb p ≤ 4 * size - 2`. -/
theorem optimizeK_frag (cfg : Cfg) (fnc : Nat → V → Bool) (n : Nat) (p : Pred V) (hp : p.aon = true) (h : μ p < n) :
    Ans (tb p) (optimizeK cfg fnc n p) (fun o => o.qf = true) := by
  induction n generalizing p with
  | zero => omega
  | succ n ih =>
    have h2 := tb_ge p
    have := (step_frag cfg fnc hp fun t ht hμ => ih t ht (by omega)).tick
    exact this.weaken (by omega)

/-- Linear cost on the fragment. -/
theorem cost_frag_linear (cfg : Cfg) (fnc : Nat → V → Bool) (p : Pred V) (hp : p.aon = true) :
    ∃ c, cost cfg fnc (μ p + 1) p = some c ∧ c ≤ 4 * p.size - 2 := by
  obtain ⟨o, tr, h, _, hl⟩ := optimizeK_frag cfg fnc (μ p + 1) p hp (by omega)
  exact ⟨tr.length, by simp [cost, h], by have := tb_le p; omega⟩

end PyPred
