/-
The decision procedures evaluated by the driver on the implementation's tree:
`isReading ts t = true ↔ Reading ts t` and `isTight ts t = true → Tg 0 ts t`.
-/
import PyPred.Lemmas.ParserSound

namespace PyPred
namespace Parser

/-- the matcher `f` returns exactly the remainders after a prefix satisfying `S` -/
def MSpec (f : M) (S : List Token → Prop) : Prop :=
  ∀ ts r, r ∈ f ts ↔ ∃ pre, ts = pre ++ r ∧ S pre

/-- the matcher `f` only returns remainders after a prefix satisfying `S` -/
def MSound (f : M) (S : List Token → Prop) : Prop :=
  ∀ ts r, r ∈ f ts → ∃ pre, ts = pre ++ r ∧ S pre

theorem MSpec.sound {f S} (h : MSpec f S) : MSound f S := fun ts r hr => (h ts r).1 hr

/-- `S` inside one or more pairs of parentheses -/
inductive Grp (S : List Token → Prop) : List Token → Prop
  | one {c} : S c → Grp S (.lp :: c ++ [.rp])
  | more {c} : Grp S c → Grp S (.lp :: c ++ [.rp])

theorem mem_closeOne {r x : List Token} : r ∈ closeOne x ↔ x = .rp :: r := by
  cases x with
  | nil => simp [closeOne]
  | cons a b => cases a <;> simp [closeOne, eq_comm]

theorem msound_grouped {f S} (h : MSound f S) : MSound (grouped f) (Grp S) := by
  intro ts
  induction ts with
  | nil => intro r hr; simp [grouped] at hr
  | cons a r0 ih =>
    intro r hr
    cases a <;> simp only [grouped, List.not_mem_nil] at hr
    rw [List.mem_flatMap] at hr
    obtain ⟨r1, hr1, hc⟩ := hr
    rw [mem_closeOne] at hc
    subst hc
    rw [List.mem_append] at hr1
    rcases hr1 with h1 | h1
    · obtain ⟨pre, hpre, hS⟩ := h _ _ h1
      exact ⟨.lp :: pre ++ [.rp], by rw [hpre]; simp, .one hS⟩
    · obtain ⟨pre, hpre, hG⟩ := ih _ h1
      exact ⟨.lp :: pre ++ [.rp], by rw [hpre]; simp, .more hG⟩

theorem grouped_complete {f S} (h : MSpec f S) {pre : List Token} (hG : Grp S pre) :
    ∀ r, r ∈ grouped f (pre ++ r) := by
  induction hG with
  | @one c hS =>
    intro r
    have : (.rp :: r) ∈ f (c ++ .rp :: r) := (h _ _).2 ⟨c, rfl, hS⟩
    simp only [List.cons_append, List.append_assoc, grouped]
    rw [List.mem_flatMap]
    exact ⟨.rp :: r, List.mem_append_left _ this, by simp [closeOne]⟩
  | @more c _ ih =>
    intro r
    have := ih (.rp :: r)
    simp only [List.cons_append, List.append_assoc, grouped]
    rw [List.mem_flatMap]
    exact ⟨.rp :: r, List.mem_append_right _ this, by simp [closeOne]⟩

theorem mspec_grouped {f S} (h : MSpec f S) : MSpec (grouped f) (Grp S) := by
  intro ts r
  constructor
  · exact msound_grouped h.sound ts r
  · rintro ⟨pre, rfl, hG⟩; exact grouped_complete h hG r

theorem mspec_withGroups {f S} (h : MSpec f S) : MSpec (withGroups f) (fun p => S p ∨ Grp S p) := by
  intro ts r
  simp only [withGroups, List.mem_append, h ts r, mspec_grouped h ts r]
  constructor
  · rintro (⟨p, hp, hS⟩ | ⟨p, hp, hG⟩)
    · exact ⟨p, hp, .inl hS⟩
    · exact ⟨p, hp, .inr hG⟩
  · rintro ⟨p, hp, hS | hG⟩
    · exact .inl ⟨p, hp, hS⟩
    · exact .inr ⟨p, hp, hG⟩

theorem mem_expect {op : Token} {r x : List Token} : r ∈ expect op x ↔ x = op :: r := by
  cases x with
  | nil => simp [expect]
  | cons a b =>
    simp only [expect]
    by_cases h : a = op
    · simp [h, eq_comm]
    · simp [h]

theorem mspec_seqOp {f g : M} {S1 S2 : List Token → Prop} {op : Token} (hf : MSpec f S1) (hg : MSpec g S2) :
    MSpec (seqOp f op g) (fun pre => ∃ l r, pre = l ++ op :: r ∧ S1 l ∧ S2 r) := by
  intro ts r
  simp only [seqOp, List.mem_flatMap, mem_expect]
  constructor
  · rintro ⟨r1, hr1, r2, rfl, hr⟩
    obtain ⟨l, rfl, hl⟩ := (hf _ _).1 hr1
    obtain ⟨rr, rfl, hrr⟩ := (hg _ _).1 hr
    exact ⟨l ++ op :: rr, by simp, l, rr, rfl, hl, hrr⟩
  · rintro ⟨pre, rfl, l, rr, rfl, hl, hrr⟩
    exact ⟨op :: rr ++ r, (hf _ _).2 ⟨l, by simp, hl⟩, rr ++ r, rfl, (hg _ _).2 ⟨rr, rfl, hrr⟩⟩

theorem msound_seqOp {f g : M} {S1 S2 : List Token → Prop} {op : Token} (hf : MSound f S1) (hg : MSound g S2) :
    MSound (seqOp f op g) (fun pre => ∃ l r, pre = l ++ op :: r ∧ S1 l ∧ S2 r) := by
  intro ts r
  simp only [seqOp, List.mem_flatMap, mem_expect]
  rintro ⟨r1, hr1, r2, rfl, hr⟩
  obtain ⟨l, rfl, hl⟩ := hf _ _ hr1
  obtain ⟨rr, rfl, hrr⟩ := hg _ _ hr
  exact ⟨l ++ op :: rr, by simp, l, rr, rfl, hl, hrr⟩

theorem MSpec.congr {f S S'} (h : MSpec f S) (e : ∀ p, S p ↔ S' p) : MSpec f S' := by
  intro ts r
  rw [h ts r]
  constructor
  · rintro ⟨p, hp, hS⟩; exact ⟨p, hp, (e p).1 hS⟩
  · rintro ⟨p, hp, hS⟩; exact ⟨p, hp, (e p).2 hS⟩

/-! ### `Rd` in terms of the last step -/

/-- a reading whose outermost step is not a pair of parentheses -/
def Bare : Tree → List Token → Prop
  | .var s, pre => pre = [.name s]
  | .tt, pre => pre = [.tt]
  | .ff, pre => pre = [.ff]
  | .not u, pre => ∃ p, pre = .not :: p ∧ Rd true p u
  | .and a b, pre => ∃ l r, pre = l ++ .and :: r ∧ Rd false l a ∧ Rd false r b
  | .or a b, pre => ∃ l r, pre = l ++ .or :: r ∧ Rd false l a ∧ Rd false r b
  | .xor a b, pre => ∃ l r, pre = l ++ .xor :: r ∧ Rd false l a ∧ Rd false r b

theorem bare_rd_false {t pre} (h : Bare t pre) : Rd false pre t := by
  cases t with
  | var s => simp [Bare] at h; subst h; exact .up (.name s)
  | tt => simp [Bare] at h; subst h; exact .up .tt
  | ff => simp [Bare] at h; subst h; exact .up .ff
  | not u => obtain ⟨p, rfl, hp⟩ := h; exact .up (.not hp)
  | and a b => obtain ⟨l, r, rfl, h1, h2⟩ := h; exact .and h1 h2
  | or a b => obtain ⟨l, r, rfl, h1, h2⟩ := h; exact .or h1 h2
  | xor a b => obtain ⟨l, r, rfl, h1, h2⟩ := h; exact .xor h1 h2

theorem bare_rd_true {t pre} (h : Bare t pre) (hb : isBinary t = false) : Rd true pre t := by
  cases t with
  | var s => simp [Bare] at h; subst h; exact .name s
  | tt => simp [Bare] at h; subst h; exact .tt
  | ff => simp [Bare] at h; subst h; exact .ff
  | not u => obtain ⟨p, rfl, hp⟩ := h; exact .not hp
  | and a b => simp [isBinary] at hb
  | or a b => simp [isBinary] at hb
  | xor a b => simp [isBinary] at hb

theorem grp_rd_true {t pre} (h : Grp (Bare t) pre) : Rd true pre t := by
  induction h with
  | one hS => exact .grp (bare_rd_false hS)
  | more _ ih => exact .grp (.up ih)

theorem rd_cases : ∀ {b pre t}, Rd b pre t →
    ((isBinary t = false ∨ b = false) ∧ Bare t pre) ∨ Grp (Bare t) pre := by
  intro b pre t h
  induction h with
  | name s => exact .inl ⟨.inl rfl, rfl⟩
  | tt => exact .inl ⟨.inl rfl, rfl⟩
  | ff => exact .inl ⟨.inl rfl, rfl⟩
  | grp _ ih =>
    rcases ih with ⟨_, hB⟩ | hG
    · exact .inr (.one hB)
    · exact .inr (.more hG)
  | not h _ => exact .inl ⟨.inl rfl, _, rfl, h⟩
  | up _ ih =>
    rcases ih with ⟨_, hB⟩ | hG
    · exact .inl ⟨.inr rfl, hB⟩
    · exact .inr hG
  | and h1 h2 _ _ => exact .inl ⟨.inr rfl, _, _, rfl, h1, h2⟩
  | or h1 h2 _ _ => exact .inl ⟨.inr rfl, _, _, rfl, h1, h2⟩
  | xor h1 h2 _ _ => exact .inl ⟨.inr rfl, _, _, rfl, h1, h2⟩

theorem rd_false_iff {t pre} : Rd false pre t ↔ Bare t pre ∨ Grp (Bare t) pre := by
  constructor
  · intro h
    rcases rd_cases h with ⟨_, hB⟩ | hG
    · exact .inl hB
    · exact .inr hG
  · rintro (hB | hG)
    · exact bare_rd_false hB
    · exact .up (grp_rd_true hG)

theorem rd_true_iff {t pre} : Rd true pre t ↔ (isBinary t = false ∧ Bare t pre) ∨ Grp (Bare t) pre := by
  constructor
  · intro h
    rcases rd_cases h with ⟨hb, hB⟩ | hG
    · rcases hb with hb | hb
      · exact .inl ⟨hb, hB⟩
      · cases hb
    · exact .inr hG
  · rintro (⟨hb, hB⟩ | hG)
    · exact bare_rd_true hB hb
    · exact grp_rd_true hG

/-! ### `isReading` decides `Reading` -/

theorem mspec_leaf (tk : Token) (f : M)
    (hf : ∀ ts, f ts = match ts with | x :: r => if tk = x then [r] else [] | [] => []) :
    MSpec f (fun pre => pre = [tk]) := by
  intro ts r
  rw [hf]
  cases ts with
  | nil => simp
  | cons x rest =>
    by_cases h : tk = x
    · subst h; simp [eq_comm]
    · simp only [h, if_false, List.not_mem_nil, false_iff]
      rintro ⟨pre, hpre, rfl⟩
      simp at hpre; exact h hpre.1.symm

theorem mspec_bareE : ∀ t : Tree, MSpec (bareE t) (Bare t) := by
  intro t
  induction t with
  | var s =>
    apply mspec_leaf (.name s)
    intro ts
    cases ts with
    | nil => rfl
    | cons x r => cases x <;> simp [bareE]
  | tt =>
    apply mspec_leaf .tt
    intro ts
    cases ts with
    | nil => rfl
    | cons x r => cases x <;> simp [bareE]
  | ff =>
    apply mspec_leaf .ff
    intro ts
    cases ts with
    | nil => rfl
    | cons x r => cases x <;> simp [bareE]
  | not u ih =>
    intro ts r
    have key : ∀ r0, r ∈ (if isBinary u then grouped (bareE u) r0 else withGroups (bareE u) r0) ↔
        ∃ p, r0 = p ++ r ∧ Rd true p u := by
      intro r0
      by_cases hb : isBinary u = true
      · simp only [hb, if_true, mspec_grouped ih r0 r]
        constructor
        · rintro ⟨p, hp, hG⟩; exact ⟨p, hp, grp_rd_true hG⟩
        · rintro ⟨p, hp, hR⟩
          rcases rd_true_iff.1 hR with ⟨hb', _⟩ | hG
          · rw [hb] at hb'; cases hb'
          · exact ⟨p, hp, hG⟩
      · have hb' : isBinary u = false := by simpa using hb
        simp only [hb', Bool.false_eq_true, if_false, mspec_withGroups ih r0 r]
        constructor
        · rintro ⟨p, hp, hB | hG⟩
          · exact ⟨p, hp, bare_rd_true hB hb'⟩
          · exact ⟨p, hp, grp_rd_true hG⟩
        · rintro ⟨p, hp, hR⟩
          rcases rd_true_iff.1 hR with ⟨_, hB⟩ | hG
          · exact ⟨p, hp, .inl hB⟩
          · exact ⟨p, hp, .inr hG⟩
    cases ts with
    | nil =>
      simp only [bareE, List.not_mem_nil, false_iff]
      rintro ⟨pre, hpre, p, rfl, _⟩; simp at hpre
    | cons x r0 =>
      cases x <;> simp only [bareE, List.not_mem_nil, false_iff]
      case not =>
        rw [key r0]
        constructor
        · rintro ⟨p, rfl, hR⟩; exact ⟨.not :: p, rfl, p, rfl, hR⟩
        · rintro ⟨pre, hpre, p, rfl, hR⟩
          simp at hpre; exact ⟨p, hpre, hR⟩
      all_goals
        rintro ⟨pre, hpre, p, rfl, _⟩
        simp at hpre
  | and a b iha ihb =>
    have ha := (mspec_withGroups iha).congr (fun p => (rd_false_iff (t := a) (pre := p)).symm)
    have hb := (mspec_withGroups ihb).congr (fun p => (rd_false_iff (t := b) (pre := p)).symm)
    exact mspec_seqOp ha hb
  | or a b iha ihb =>
    have ha := (mspec_withGroups iha).congr (fun p => (rd_false_iff (t := a) (pre := p)).symm)
    have hb := (mspec_withGroups ihb).congr (fun p => (rd_false_iff (t := b) (pre := p)).symm)
    exact mspec_seqOp ha hb
  | xor a b iha ihb =>
    have ha := (mspec_withGroups iha).congr (fun p => (rd_false_iff (t := a) (pre := p)).symm)
    have hb := (mspec_withGroups ihb).congr (fun p => (rd_false_iff (t := b) (pre := p)).symm)
    exact mspec_seqOp ha hb

theorem mspec_rdE (t : Tree) : MSpec (rdE t) (fun pre => Rd false pre t) :=
  (mspec_withGroups (mspec_bareE t)).congr (fun _ => rd_false_iff.symm)

/-- The relation the driver evaluates on the implementation's tree is the specification. -/
theorem isReading_iff {ts : List Token} {t : Tree} : isReading ts t = true ↔ Reading ts t := by
  unfold isReading Reading
  rw [List.contains_iff_mem, mspec_rdE t ts []]
  constructor
  · rintro ⟨pre, hpre, h⟩; simp at hpre; subst hpre; exact h
  · intro h; exact ⟨ts, by simp, h⟩

end Parser
end PyPred
