/-
Cost invariant (`Cst`, see PolyPotential.lean) of the `and` and `or` arms of the optimizer model.
-/
import PyPred.Lemmas.PolyPotential

set_option linter.unusedSectionVars false
set_option linter.unusedVariables false
set_option linter.unusedSimpArgs false
set_option linter.unnecessarySeqFocus false

namespace PyPred
open PolyArith
variable {V : Type} [DecidableEq V] [LT V] [LE V] [DecidableLT V] [DecidableLE V]

theorem andPre_M {l r o : Pred V} (h : andPre l r = some o) : M o ≤ M (.and l r) ∧ ia o = 1 := by
  unfold andPre orElse at h
  split at h
  · split at h
    · rename_i res hres
      split at hres
      · split at hres
        · simp at hres h; subst hres; subst h; simp [M, X, w, ia, Pred.isAnd]; omega
        · simp at hres
      · simp at hres
    · split at h
      · split at h
        · simp at h; subst h; simp [M, X, w, ia, Pred.isAnd]; omega
        · simp at h
      · simp at h
  · simp at h

theorem andRulesA_M (cfg : Cfg) (fnc : Nat → V → Bool) {l r : Pred V} {res : R V}
    (h : andRulesA cfg fnc l r = some res) : AnsC res (fun o n => n ≤ 1 ∧ M o + 3 ≤ M l + M r) := by
  have hl := M_ge l
  have hr := M_ge r
  unfold andRulesA at h
  split at h
  all_goals (try split at h)
  all_goals (try split at h)
  all_goals (try split at h)
  all_goals (try (simp at h))
  all_goals (try subst h)
  all_goals (first | apply AnsC.ret | apply AnsC.retQ)
  all_goals (refine ⟨by omega, ?_⟩)
  all_goals (first
    | (rw [M_optIn]; simp [M, X, w]; done)
    | exact Nat.le_trans (Nat.add_le_add_right (M_optNotIn _) 3) (by simp [M, X, w])
    | (simp [M, X, w] at * <;> omega))

theorem andRulesB_M (node l r : Pred V) :
    andRulesB node l r = .and l r ∨ M (andRulesB node l r) + 3 ≤ M l + M r := by
  have hl := M_ge l
  have hr := M_ge r
  unfold andRulesB
  repeat' split
  all_goals (first | (left; rfl) | (right; simp [M, X, w] at *; omega))

/-- What the cost invariant of the operands' calls gives about the optimised operand. -/
theorem Cst.drop {t o : Pred V} {n : Nat} (h : Cst t o n) :
    ∃ q, 1 ≤ q ∧ n ≤ 3 * (w t * q) ∧ M o + q ≤ M t + 1 ∧ M o + q + ia t ≤ M t + 1 + ia o ∧
      M o + q + ia o ≤ M t + 1 + ia t := by
  obtain ⟨q, h1, hc, hm1, hm2⟩ := h
  have := ia_le t
  have := ia_le o
  exact ⟨q, h1, Nat.le_of_add_right_le hc, by omega, hm1, hm2⟩

theorem andPhase2_cst (cfg : Cfg) (fnc : Nat → V → Bool) {rec : Pred V → R V} {node l r : Pred V}
    (hrec : ∀ t, w t < 1 + w l + w r → AnsC (rec t) (fun o n => Post t o ∧ Cst t o n)) :
    AnsC (andPhase2 cfg fnc rec node l r) (fun o n => Cst (.and l r) o (n + 1)) := by
  unfold andPhase2
  have hl := w_pos l
  have hr := w_pos r
  have hW : w (.and l r) = 1 + w l + w r := by simp [w]
  have hMp : M (.and l r) = 3 + M l + M r := by simp [M, X, w]; omega
  have hip : ia (.and l r) = 1 := by simp [ia, Pred.isAnd]
  have hes := esw_le (.and l r)
  refine AnsC.bind (hrec l (by omega)) (fun l' nl hl' => ?_)
  refine AnsC.bind (hrec r (by omega)) (fun r' nr hr' => ?_)
  obtain ⟨hpl, hcl⟩ := hl'
  obtain ⟨hpr, hcr⟩ := hr'
  obtain ⟨ql, hql, hnl, hMl, -, -⟩ := hcl.drop
  obtain ⟨qr, hqr, hnr, hMr, -, -⟩ := hcr.drop
  have hwl : w l' ≤ w l := hpl.1
  have hwr : w r' ≤ w r := hpr.1
  split
  · rename_i res hres
    refine AnsC.mono (andRulesA_M cfg fnc hres) (fun o n ho => ?_)
    have hio := ia_le o
    refine ⟨ql + qr - 1, by omega, ?_, by omega, by omega⟩
    have := cst_bin (W := w (.and l r)) (R := 0) (ρ := 0) (c := 3) (r := ql + qr - 1) hnl hnr hql hqr
      (by omega) (by omega) (by omega) (by omega)
    omega
  · split
    · rename_i a b _
      have hwa : w (.and a b) < 1 + w l + w r := by simp [w] at *; omega
      refine AnsC.bind (hrec (.and a b) hwa) (fun x n3 hx => ?_)
      obtain ⟨hpx, hcx⟩ := hx
      have hwx : w (.all x) < 1 + w l + w r := by simp [Post, w] at *; omega
      refine AnsC.mono (hrec (.all x) hwx) (fun o n4 ho => ?_)
      obtain ⟨hpo, hco⟩ := ho
      obtain ⟨q3, hq3, hn3, hM3, -, -⟩ := hcx.drop
      obtain ⟨q4, hq4, hn4, -, hM4, hM4'⟩ := hco.drop
      have hio := ia_le o
      refine ⟨ql + qr - 1 + q3 + q4, by omega, ?_, ?_⟩
      · have h3 := cst_mono (W := w (.and l r)) hn3 (by omega)
        have h4 := cst_mono (W := w (.and l r)) hn4 (by omega)
        have := cst_bin (W := w (.and l r)) (c := 2) (r := ql + qr - 1 + q3 + q4) hnl hnr hql hqr
          (by omega) (cst_add h3 h4) (by omega) (by omega)
        omega
      · have e1 : M (.and a b) + 3 = M (.all a) + M (.all b) := by simp [M, X, w]; omega
        have e2 : M (.all x) = M x + 3 := by simp [M, X, w]; omega
        have e3 : ia (.all x) = 0 := by simp [ia, Pred.isAnd]
        omega
    · refine AnsC.ret ?_
      have hio := ia_le (andRulesB node l' r')
      refine ⟨ql + qr - 1, by omega, ?_, ?_⟩
      · have := cst_bin (W := w (.and l r)) (R := 0) (ρ := 0) (c := 2) (r := ql + qr - 1) hnl hnr hql hqr
          (by omega) (by omega) (by omega) (by omega)
        omega
      · rcases andRulesB_M node l' r' with h | h
        · rw [h]
          have e1 : M (.and l' r') = 3 + M l' + M r' := by simp [M, X, w]; omega
          have e2 : ia (.and l' r') = 1 := by simp [ia, Pred.isAnd]
          omega
        · omega

theorem stepAnd_cst (cfg : Cfg) (fnc : Nat → V → Bool) {rec : Pred V → R V} {l r : Pred V}
    (hrec : NiceC (.and l r) rec) : AnsC (stepAnd cfg fnc rec l r) (fun o n => Cst (.and l r) o (n + 1)) := by
  have hp2 : AnsC (andPhase2 cfg fnc rec (.and l r) l r) (fun o n => Cst (.and l r) o (n + 1)) :=
    andPhase2_cst cfg fnc fun t ht => hrec t (μ_lt_of_w_lt (by simp [w]; omega))
  have hl := w_pos l
  have hr := w_pos r
  have hW : w (.and l r) = 1 + w l + w r := by simp [w]
  have hMp : M (.and l r) = 3 + M l + M r := by simp [M, X, w]; omega
  have hip : ia (.and l r) = 1 := by simp [ia, Pred.isAnd]
  have hes := esw_le (.and l r)
  unfold stepAnd
  split
  · rename_i o ho
    refine AnsC.ret ?_
    have := andPre_M ho
    exact ⟨1, by omega, by omega, by omega, by omega⟩
  · split
    · exact hp2
    · split
      · rename_i hlor hror
        refine AnsC.mono (hrec (.and r l) (by simp_all [μ, swapBit, w]; omega)) (fun o n ho => ?_)
        obtain ⟨q, hq, hc, hm1, hm2⟩ := ho.2
        have e1 : esw (.and r l) = 1 := by simp_all [esw]
        have e2 : esw (.and l r) = 0 := by simp_all [esw]
        have e3 : w (.and r l) = w (.and l r) := by simp [w]; omega
        have e4 : M (.and r l) = M (.and l r) := by simp [M, X, w]; omega
        have e5 : ia (.and r l) = 1 := by simp [ia, Pred.isAnd]
        rw [e3] at hc
        exact ⟨q, hq, by omega, by omega, by omega⟩
      · split
        · refine AnsC.ret ?_
          have hMl := M_ge l
          have hMr := M_ge r
          have e1 : M (Pred.ff : Pred V) = 3 := by simp [M, X, w]
          have e2 : ia (Pred.ff : Pred V) = 0 := by simp [ia, Pred.isAnd]
          exact ⟨1, by omega, by omega, by omega, by omega⟩
        · exact hp2

end PyPred
