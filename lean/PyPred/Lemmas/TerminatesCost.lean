/-
What is proved about the *number of invocations* of the optimizer model (C12).

* `optimizeK_rel`     the ticked run answers exactly when `optimizeT` does, with the same
                      predicate, and the trace of `optimizeT` is a sublist of the ticked trace;
* `optimizeK_nice`    the ticked run answers above the measure, trace length `≤ callBound`;
* `step_restrict`     every oracle query of one invocation on `p` is on a term of measure
                      `< μ p` (the oracle may be cut off at `μ p` without changing the answer);
* `step_nice` (Terminates.lean)  one invocation makes at most four oracle queries
                      (trace `≤ 4 * B + 1` when oracle traces are `≤ B`);
* `cost_le_exp`       hence `cost ≤ (2 * 4 ^ (μ p + 1) - 2) / 3` — exponential, see REPORT_term.md
                      for why the method cannot give a polynomial.
-/
import PyPred.Model.OptimizeCost
import PyPred.Lemmas.Terminates
import PyPred.Lemmas.Mono

set_option linter.unusedSectionVars false
set_option linter.unusedVariables false

namespace PyPred
variable {V : Type} [DecidableEq V] [LT V] [LE V] [DecidableLT V] [DecidableLE V]

/-! ### The ticked run computes the same predicate -/

/-- `r'` is `r` with extra trace entries. -/
def RelR (r r' : R V) : Prop :=
  match r, r' with
  | none, none => True
  | some (o, t), some (o', t') => o = o' ∧ List.Sublist t t'
  | _, _ => False

def RelRec (rec rec' : Pred V → R V) : Prop := ∀ p, RelR (rec p) (rec' p)

theorem relR_refl (r : R V) : RelR r r := by
  cases r with
  | none => trivial
  | some x => exact ⟨rfl, List.Sublist.refl _⟩

theorem relR_tick {r r' : R V} (h : RelR r r') : RelR r (tick r') := by
  cases r with
  | none => cases r' with
    | none => trivial
    | some x => exact h.elim
  | some x => cases r' with
    | none => exact h.elim
    | some y => exact ⟨h.1, List.Sublist.cons _ h.2⟩

theorem bindR_rel {r r' : R V} {f f' : Pred V → R V} (hr : RelR r r') (hf : ∀ p, RelR (f p) (f' p)) :
    RelR (bindR r f) (bindR r' f') := by
  cases r with
  | none => cases r' with
    | none => trivial
    | some x => exact hr.elim
  | some x => cases r' with
    | none => exact hr.elim
    | some y =>
      obtain ⟨o, t⟩ := x
      obtain ⟨o', t'⟩ := y
      obtain ⟨rfl, hs⟩ := hr
      have h2 := hf o
      cases hfo : f o with
      | none => cases hfo' : f' o with
        | none => simp [bindR, hfo, hfo', RelR]
        | some z => simp [hfo, hfo', RelR] at h2
      | some z => cases hfo' : f' o with
        | none => simp [hfo, hfo', RelR] at h2
        | some z' =>
          obtain ⟨q, u⟩ := z
          obtain ⟨q', u'⟩ := z'
          simp only [hfo, hfo', RelR] at h2
          simp only [bindR, hfo, hfo', RelR]
          exact ⟨h2.1, List.Sublist.append hs h2.2⟩

theorem stepAll_rel {rec rec' : Pred V → R V} (h : RelRec rec rec') (q : Pred V) :
    RelR (stepAll rec q) (stepAll rec' q) :=
  bindR_rel (h q) fun _ => relR_refl _

theorem stepAny_rel (cfg : Cfg) {rec rec' : Pred V → R V} (h : RelRec rec rec') (q : Pred V) :
    RelR (stepAny cfg rec q) (stepAny cfg rec' q) := by
  refine bindR_rel (h q) fun o => ?_
  split
  · exact relR_refl _
  · exact relR_refl _
  · exact relR_refl _
  · exact relR_refl _
  · exact relR_refl _

theorem stepNot_rel {rec rec' : Pred V → R V} (h : RelRec rec rec') (q : Pred V) :
    RelR (stepNot rec q) (stepNot rec' q) := by
  unfold stepNot
  split
  · exact h _
  · exact bindR_rel (h _) fun _ => relR_refl _

theorem andPhase2_rel (cfg : Cfg) (fnc : Nat → V → Bool) {rec rec' : Pred V → R V} (h : RelRec rec rec')
    (node l r : Pred V) : RelR (andPhase2 cfg fnc rec node l r) (andPhase2 cfg fnc rec' node l r) := by
  refine bindR_rel (h l) fun l' => bindR_rel (h r) fun r' => ?_
  split
  · exact relR_refl _
  · split
    · exact bindR_rel (h _) fun _ => h _
    · exact relR_refl _

theorem stepAnd_rel (cfg : Cfg) (fnc : Nat → V → Bool) {rec rec' : Pred V → R V} (h : RelRec rec rec')
    (l r : Pred V) : RelR (stepAnd cfg fnc rec l r) (stepAnd cfg fnc rec' l r) := by
  unfold stepAnd
  split
  · exact relR_refl _
  · split
    · exact andPhase2_rel cfg fnc h _ _ _
    · split
      · exact h _
      · split
        · exact relR_refl _
        · exact andPhase2_rel cfg fnc h _ _ _

theorem stepOr_rel {rec rec' : Pred V → R V} (h : RelRec rec rec') (l r : Pred V) :
    RelR (stepOr rec l r) (stepOr rec' l r) := by
  unfold stepOr
  split
  · exact relR_refl _
  · refine bindR_rel (h l) fun l' => bindR_rel (h r) fun r' => ?_
    split
    · exact relR_refl _
    · split
      · exact relR_refl _
      · split
        · exact relR_refl _
        · split
          · exact bindR_rel (h _) fun _ => relR_refl _
          · exact relR_refl _

theorem stepXor_rel (cfg : Cfg) {rec rec' : Pred V → R V} (h : RelRec rec rec') (l r : Pred V) :
    RelR (stepXor cfg rec l r) (stepXor cfg rec' l r) := by
  unfold stepXor
  split
  · exact relR_refl _
  · refine bindR_rel (h l) fun l' => bindR_rel (h r) fun r' => ?_
    split
    · exact relR_refl _
    · split
      · exact relR_refl _
      · exact relR_refl _
      · exact h _
      · exact h _
      · split
        · exact relR_refl _
        · split
          · exact relR_refl _
          · exact relR_refl _
          · exact relR_refl _
          · exact h _
          · exact relR_refl _

theorem step_rel (cfg : Cfg) (fnc : Nat → V → Bool) {rec rec' : Pred V → R V} (h : RelRec rec rec') :
    RelRec (step cfg fnc rec) (step cfg fnc rec') := by
  intro p
  unfold step
  split
  · exact stepAll_rel h _
  · exact stepAnd_rel cfg fnc h _ _
  · exact stepAny_rel cfg h _
  · exact stepNot_rel h _
  · exact stepOr_rel h _ _
  · exact stepXor_rel cfg h _ _
  · exact relR_refl _
  · exact relR_refl _
  · exact relR_refl _

/-- Same fuel, same answer; the plain trace is the ticked trace with the markers removed
(stated as: it is a sublist). -/
theorem optimizeK_rel (cfg : Cfg) (fnc : Nat → V → Bool) (n : Nat) :
    RelRec (optimizeT cfg fnc n) (optimizeK cfg fnc n) := by
  induction n with
  | zero => intro p; trivial
  | succ n ih => intro p; exact relR_tick (step_rel cfg fnc ih p)

theorem optimizeK_fst (cfg : Cfg) (fnc : Nat → V → Bool) (n : Nat) (p : Pred V) :
    (optimizeK cfg fnc n p).map Prod.fst = (optimizeT cfg fnc n p).map Prod.fst := by
  have h := optimizeK_rel cfg fnc n p
  cases h1 : optimizeT cfg fnc n p with
  | none => cases h2 : optimizeK cfg fnc n p with
    | none => rfl
    | some y => simp [h1, h2, RelR] at h
  | some x => cases h2 : optimizeK cfg fnc n p with
    | none => simp [h1, h2, RelR] at h
    | some y =>
      obtain ⟨o, t⟩ := x
      obtain ⟨o', t'⟩ := y
      simp only [h1, h2, RelR] at h
      simp [h.1]

/-! ### Fuel monotonicity of the ticked run -/

theorem tick_mono {r r' : R V} (h : LeR r r') : LeR (tick r) (tick r') := by
  intro res hres
  cases r with
  | none => simp [tick] at hres
  | some x => rw [h x rfl]; exact hres

theorem optimizeK_succ_mono (cfg : Cfg) (fnc : Nat → V → Bool) (n : Nat) :
    LeRec (optimizeK cfg fnc n) (optimizeK cfg fnc (n + 1)) := by
  induction n with
  | zero => intro p res h; simp [optimizeK] at h
  | succ n ih => intro p; exact tick_mono (step_mono cfg fnc ih p)

theorem optimizeK_fuel_mono (cfg : Cfg) (fnc : Nat → V → Bool) {n m : Nat} (hnm : n ≤ m) {p : Pred V}
    {res : Pred V × List Quirk} (h : optimizeK cfg fnc n p = some res) : optimizeK cfg fnc m p = some res := by
  induction hnm with
  | refl => exact h
  | step _ ih => exact optimizeK_succ_mono cfg fnc _ p _ ih

/-- The cost, once defined, does not depend on the fuel. -/
theorem cost_fuel_mono (cfg : Cfg) (fnc : Nat → V → Bool) {n m : Nat} (hnm : n ≤ m) {p : Pred V} {c : Nat}
    (h : cost cfg fnc n p = some c) : cost cfg fnc m p = some c := by
  unfold cost at *
  cases hr : optimizeK cfg fnc n p with
  | none => simp [hr] at h
  | some res => rw [optimizeK_fuel_mono cfg fnc hnm hr]; simpa [hr] using h

/-! ### Bounds -/

theorem Ans.tick {k : Nat} {r : R V} {Q : Pred V → Prop} (h : Ans k r Q) : Ans (k + 1) (tick r) Q := by
  obtain ⟨o, tr, rfl, hq, hl⟩ := h
  exact ⟨o, _, rfl, hq, by simp; omega⟩

/-- The ticked run of fuel `n` answers every term of measure `< n`; its trace has at most
`callBound n` entries. -/
theorem optimizeK_nice (cfg : Cfg) (fnc : Nat → V → Bool) (n : Nat) (p : Pred V) (h : μ p < n) :
    Ans (callBound n) (optimizeK cfg fnc n p) (Post p) := by
  induction n generalizing p with
  | zero => omega
  | succ n ih => exact (step_nice cfg fnc fun t ht => ih t (by omega)).tick

theorem callBound_closed (n : Nat) : 3 * callBound n + 2 = 2 * 4 ^ n := by
  induction n with
  | zero => rfl
  | succ n ih => simp [callBound, Nat.pow_succ]; omega

/-- The cost is defined at fuel `μ p + 1` and is at most exponential in the measure. -/
theorem cost_le_exp (cfg : Cfg) (fnc : Nat → V → Bool) (p : Pred V) :
    ∃ c, cost cfg fnc (μ p + 1) p = some c ∧ 1 ≤ c ∧ 3 * c + 2 ≤ 2 * 4 ^ (μ p + 1) := by
  obtain ⟨o, tr, h, _, hl⟩ := optimizeK_nice cfg fnc (μ p + 1) p (by omega)
  refine ⟨tr.length, by simp [cost, h], ?_, ?_⟩
  · have : optimizeK cfg fnc (μ p + 1) p = tick (step cfg fnc (optimizeK cfg fnc (μ p)) p) := rfl
    rw [this] at h
    unfold tick at h
    split at h
    · simp at h
    · simp at h; rw [← h.2]; simp
  · have := callBound_closed (μ p + 1); omega

/-- Every oracle query made by one invocation on `p` is on a term of measure `< μ p`:
cutting the oracle off at `μ p` does not change the answer. -/
theorem step_restrict {B : Nat} (cfg : Cfg) (fnc : Nat → V → Bool) {rec : Pred V → R V} {p : Pred V}
    (hrec : NiceBelow B p rec) :
    step cfg fnc (fun t => if μ t < μ p then rec t else none) p = step cfg fnc rec p := by
  have hle : LeRec (fun t => if μ t < μ p then rec t else none) rec := by
    intro t res h
    by_cases ht : μ t < μ p
    · simpa [ht] using h
    · simp [ht] at h
  have hnice : NiceBelow B p (fun t => if μ t < μ p then rec t else none) := by
    intro t ht
    simpa [ht] using hrec t ht
  obtain ⟨o, tr, h, _⟩ := step_nice cfg fnc hnice
  rw [h, step_mono cfg fnc hle p _ h]

/-- In particular for the optimizer itself: an invocation at depth `n + 1` only needs the
answers of depth `n` on terms of smaller measure. -/
theorem optimizeT_restrict (cfg : Cfg) (fnc : Nat → V → Bool) (n : Nat) (p : Pred V) (h : μ p ≤ n) :
    optimizeT cfg fnc (n + 1) p =
      step cfg fnc (fun t => if μ t < μ p then optimizeT cfg fnc n t else none) p :=
  (step_restrict cfg fnc fun t ht => optimizeT_nice cfg fnc n t (by omega)).symm

end PyPred
