/-
Derivation trees of the reference grammar (Model/Grammar.lean): induction principle for the nested type,
inversion of `wf` / `wfs`, and the two directions between derivations and `Bracketing`.
-/
import PyPred.Model.Grammar

namespace PyPred
namespace Grammar
open Parser

/-- induction over derivation trees: a node may use the statement for each of its children -/
theorem DTree.ind {P : DTree → Prop} (leaf : ∀ t, P (.leaf t))
    (node : ∀ r cs, (∀ c ∈ cs, P c) → P (.node r cs)) : ∀ d, P d := by
  intro d
  refine DTree.rec (motive_1 := P) (motive_2 := fun cs => ∀ c ∈ cs, P c) leaf node ?_ ?_ d
  · intro c h; cases h
  · intro hd tl h1 h2 c hc
    rcases List.mem_cons.1 hc with rfl | h
    · exact h1
    · exact h2 c h

theorem wf_t {rules : List Rule} {T : Term} {f : Bool} {d : DTree} :
    wf rules (.t T f) d = true ↔ ∃ tok, d = .leaf tok ∧ T.matches tok = true := by
  cases d <;> simp [wf]

theorem wf_nt {rules : List Rule} {A : NT} {d : DTree} :
    wf rules (.nt A) d = true ↔ ∃ r cs, d = .node r cs ∧ r ∈ rules ∧ r.origin = A ∧ wfs rules r.expansion cs = true := by
  cases d <;> simp [wf, and_assoc]

theorem wfs_nil {rules : List Rule} {cs : List DTree} : wfs rules [] cs = true ↔ cs = [] := by
  cases cs <;> simp [wfs]

theorem wfs_cons {rules : List Rule} {s : Sym} {ss : List Sym} {cs : List DTree} :
    wfs rules (s :: ss) cs = true ↔ ∃ c cs', cs = c :: cs' ∧ wf rules s c = true ∧ wfs rules ss cs' = true := by
  cases cs with
  | nil => simp [wfs]
  | cons c cs' =>
    simp only [wfs, Bool.and_eq_true]
    constructor
    · intro h; exact ⟨c, cs', rfl, h⟩
    · rintro ⟨c', cs'', e, h⟩
      injection e with e1 e2; subst e1; subst e2; exact h

theorem matches_word {tok : Token} (h : Term.WORD.matches tok = true) : ∃ s, tok = .name s := by
  cases tok <;> simp [Term.matches] at h; exact ⟨_, rfl⟩
theorem matches_false {tok : Token} (h : Term.FALSE.matches tok = true) : tok = .ff := by
  cases tok <;> simp [Term.matches] at h; rfl
theorem matches_true {tok : Token} (h : Term.TRUE.matches tok = true) : tok = .tt := by
  cases tok <;> simp [Term.matches] at h; rfl
theorem matches_lpar {tok : Token} (h : Term.LPAR.matches tok = true) : tok = .lp := by
  cases tok <;> simp [Term.matches] at h; rfl
theorem matches_rpar {tok : Token} (h : Term.RPAR.matches tok = true) : tok = .rp := by
  cases tok <;> simp [Term.matches] at h; rfl
theorem matches_vbar {tok : Token} (h : Term.VBAR.matches tok = true) : tok = .or := by
  cases tok <;> simp [Term.matches] at h; rfl
theorem matches_amp {tok : Token} (h : Term.AMPERSAND.matches tok = true) : tok = .and := by
  cases tok <;> simp [Term.matches] at h; rfl
theorem matches_circ {tok : Token} (h : Term.CIRCUMFLEX.matches tok = true) : tok = .xor := by
  cases tok <;> simp [Term.matches] at h; rfl
theorem matches_tilde {tok : Token} (h : Term.TILDE.matches tok = true) : tok = .not := by
  cases tok <;> simp [Term.matches] at h; rfl

/-- what every sub-derivation of the reference grammar is turned into -/
def Good (d : DTree) : Prop := ∃ t, transform (shape d) = some (.pred t) ∧ Bracketing (yield d) t

end Grammar
end PyPred
