/-
Lemmas about `==` and the partial order of the `PyVal` universe: `==` is reflexive
and symmetric, the three-way comparison is antisymmetric (`b ? a` is the mirror of
`a ? b`, with the same `TypeError`s), and a value of an orderable type compares
equal to itself.
-/
import PyPred.Model.PyVal

set_option linter.unusedSimpArgs false

namespace PyPred
namespace PyVal

/-- Induction over values with the induction hypothesis for every member of a container. -/
theorem induct' {M : PyVal → Prop}
    (none : M .none) (bool : ∀ b, M (.bool b)) (int : ∀ n, M (.int n)) (flt : ∀ t, M (.flt t))
    (str : ∀ s, M (.str s))
    (list : ∀ xs, (∀ x ∈ xs, M x) → M (.list xs))
    (tuple : ∀ xs, (∀ x ∈ xs, M x) → M (.tuple xs))
    (set : ∀ xs, (∀ x ∈ xs, M x) → M (.set xs))
    (dict : ∀ xs, (∀ x ∈ xs, M x) → M (.dict xs))
    (obj : ∀ c i, M (.obj c i)) : ∀ v, M v := by
  intro v
  induction v using PyVal.rec (motive_2 := fun xs => ∀ x ∈ xs, M x) with
  | none => exact none
  | bool b => exact bool b
  | int n => exact int n
  | flt t => exact flt t
  | str s => exact str s
  | list xs ih => exact list xs ih
  | tuple xs ih => exact tuple xs ih
  | set xs ih => exact set xs ih
  | dict xs ih => exact dict xs ih
  | obj c i => exact obj c i
  | nil => rename_i x hx; cases hx
  | cons h t ihh iht =>
    rename_i x hx
    cases hx with
    | head => exact ihh
    | tail _ hm => exact iht x hm

theorem subL_eq (xs ys : List PyVal) : subL xs ys = xs.all (fun x => ys.any (fun y => pyEq x y)) := by
  induction xs with
  | nil => simp [subL]
  | cons a as ih => simp [subL, ih]

theorem anyL_eq (xs : List PyVal) (y : PyVal) : anyL xs y = xs.any (fun x => pyEq x y) := by
  induction xs with
  | nil => simp [anyL]
  | cons a as ih => simp [anyL, ih]

theorem supL_eq (xs ys : List PyVal) : supL xs ys = ys.all (fun y => xs.any (fun x => pyEq x y)) := by
  simp [supL, anyL_eq]

/-! ### `==` is reflexive -/

theorem eqL_refl (xs : List PyVal) (h : ∀ x ∈ xs, pyEq x x = true) : eqL xs xs = true := by
  induction xs with
  | nil => simp [eqL]
  | cons a as ih =>
    simp [eqL, h a (by simp)]
    exact ih (fun x hx => h x (by simp [hx]))

theorem incl_refl (xs : List PyVal) (h : ∀ x ∈ xs, pyEq x x = true) :
    (subL xs xs && xs.all (fun y => anyL xs y)) = true := by
  simp only [subL_eq, anyL_eq, Bool.and_eq_true, List.all_eq_true, List.any_eq_true]
  exact ⟨fun x hx => ⟨x, hx, h x hx⟩, fun x hx => ⟨x, hx, h x hx⟩⟩

/-- There is no NaN in the universe: every value is `==` to itself. -/
theorem pyEq_refl : ∀ a : PyVal, pyEq a a = true := by
  intro a
  induction a using induct' with
  | none => simp [pyEq]
  | bool b => cases b <;> simp [pyEq, num2]
  | int n => simp [pyEq, num2]
  | flt t => simp [pyEq, num2]
  | str s => simp [pyEq]
  | list xs ih => simp only [pyEq]; exact eqL_refl xs ih
  | tuple xs ih => simp only [pyEq]; exact eqL_refl xs ih
  | set xs ih => simp only [pyEq]; exact incl_refl xs ih
  | dict xs ih => simp only [pyEq]; exact incl_refl xs ih
  | obj c i => simp [pyEq]

/-! ### `==` is symmetric -/

theorem eqL_symm (xs : List PyVal) (h : ∀ x ∈ xs, ∀ y, pyEq x y = pyEq y x) :
    ∀ ys, eqL xs ys = eqL ys xs := by
  induction xs with
  | nil => intro ys; cases ys <;> simp [eqL]
  | cons a as ih =>
    intro ys
    cases ys with
    | nil => simp [eqL]
    | cons b bs =>
      simp only [eqL]
      rw [h a (by simp) b, ih (fun x hx => h x (by simp [hx])) bs]

theorem incl_symm (xs ys : List PyVal) (h : ∀ x ∈ xs, ∀ y, pyEq x y = pyEq y x) :
    (subL xs ys && ys.all (fun y => anyL xs y)) = (subL ys xs && xs.all (fun y => anyL ys y)) := by
  apply Bool.eq_iff_iff.mpr
  simp only [subL_eq, anyL_eq, Bool.and_eq_true, List.all_eq_true, List.any_eq_true]
  constructor
  · rintro ⟨h1, h2⟩
    refine ⟨fun y hy => ?_, fun x hx => ?_⟩
    · obtain ⟨x, hx, e⟩ := h2 y hy
      exact ⟨x, hx, by rw [← h x hx y]; exact e⟩
    · obtain ⟨y, hy, e⟩ := h1 x hx
      exact ⟨y, hy, by rw [← h x hx y]; exact e⟩
  · rintro ⟨h1, h2⟩
    refine ⟨fun x hx => ?_, fun y hy => ?_⟩
    · obtain ⟨y, hy, e⟩ := h2 x hx
      exact ⟨y, hy, by rw [h x hx y]; exact e⟩
    · obtain ⟨x, hx, e⟩ := h1 y hy
      exact ⟨x, hx, by rw [h x hx y]; exact e⟩

theorem pyEq_symm : ∀ a b : PyVal, pyEq a b = pyEq b a := by
  intro a
  induction a using induct' with
  | none => intro b; cases b <;> simp only [pyEq, num2] <;> first | rfl | exact BEq.comm | simp
  | bool v => intro b; cases b <;> simp only [pyEq, num2] <;> first | rfl | exact BEq.comm | simp
  | int n => intro b; cases b <;> simp only [pyEq, num2] <;> first | rfl | exact BEq.comm | simp
  | flt t => intro b; cases b <;> simp only [pyEq, num2] <;> first | rfl | exact BEq.comm | simp
  | str s => intro b; cases b <;> simp only [pyEq, num2] <;> first | rfl | exact BEq.comm | simp
  | list xs ih =>
    intro b
    cases b <;> simp only [pyEq, num2] <;> first | rfl | exact eqL_symm xs ih _ | simp
  | tuple xs ih =>
    intro b
    cases b <;> simp only [pyEq, num2] <;> first | rfl | exact eqL_symm xs ih _ | simp
  | set xs ih =>
    intro b
    cases b <;> simp only [pyEq, num2] <;> first | rfl | exact incl_symm xs _ ih | simp
  | dict xs ih =>
    intro b
    cases b <;> simp only [pyEq, num2] <;> first | rfl | exact incl_symm xs _ ih | simp
  | obj c i =>
    intro b
    cases b <;> simp only [pyEq, num2] <;> first | rfl | (rw [@BEq.comm _ _ _ c, @BEq.comm _ _ _ i]) | simp

/-! ### The comparison is antisymmetric -/

theorem cmpInt_flip (a b : Int) : cmpInt b a = (cmpInt a b).flip := by
  unfold cmpInt
  split <;> split <;> simp [Cmp.flip] <;> omega

theorem cmpInt_self (a : Int) : cmpInt a a = .eq := by simp [cmpInt]

theorem cmpStr_flip : ∀ a b : List Nat, cmpStr b a = (cmpStr a b).flip := by
  intro a
  induction a with
  | nil => intro b; cases b <;> simp [cmpStr, Cmp.flip]
  | cons x xs ih =>
    intro b
    cases b with
    | nil => simp [cmpStr, Cmp.flip]
    | cons y ys =>
      simp only [cmpStr]
      by_cases h1 : x < y
      · have : ¬ y < x := by omega
        simp [h1, this, Cmp.flip]
      · by_cases h2 : y < x
        · simp [h1, h2, Cmp.flip]
        · simp [h1, h2, ih ys]

theorem cmpStr_self (a : List Nat) : cmpStr a a = .eq := by
  induction a with
  | nil => simp [cmpStr]
  | cons x xs ih => simp [cmpStr, ih]

theorem cmpIncl_flip (p q : Bool) : cmpIncl q p = (cmpIncl p q).flip := by
  cases p <;> cases q <;> simp [cmpIncl, Cmp.flip]

theorem subL_supL (xs ys : List PyVal) : subL ys xs = supL xs ys := by
  rw [subL_eq, supL_eq]
  congr 1
  funext y
  congr 1
  funext x
  exact pyEq_symm y x

theorem cmpL_flip (xs : List PyVal) (h : ∀ x ∈ xs, ∀ y, pyCmp y x = (pyCmp x y).map Cmp.flip) :
    ∀ ys, cmpL ys xs = (cmpL xs ys).map Cmp.flip := by
  induction xs with
  | nil => intro ys; cases ys <;> simp [cmpL, Cmp.flip]
  | cons a as ih =>
    intro ys
    cases ys with
    | nil => simp [cmpL, Cmp.flip]
    | cons b bs =>
      simp only [cmpL]
      rw [pyEq_symm b a]
      by_cases hab : pyEq a b = true
      · simp [hab, ih (fun x hx => h x (by simp [hx])) bs]
      · simp [hab, h a (by simp) b]

/-- `b ? a` is the mirror image of `a ? b`, and raises `TypeError` exactly when `a ? b`
does.  Hence `x >= v` is `v <= x` and `x > v` is `v < x` on the whole universe. -/
theorem pyCmp_flip : ∀ a b : PyVal, pyCmp b a = (pyCmp a b).map Cmp.flip := by
  intro a
  induction a using induct' with
  | none => intro b; cases b <;> simp only [pyCmp, num2, Option.map_some, Option.map_none] <;> rfl
  | bool v =>
    intro b
    cases b <;> simp only [pyCmp, num2, Option.map_some, Option.map_none] <;>
      first | rfl | exact congrArg some (cmpInt_flip _ _)
  | int n =>
    intro b
    cases b <;> simp only [pyCmp, num2, Option.map_some, Option.map_none] <;>
      first | rfl | exact congrArg some (cmpInt_flip _ _)
  | flt t =>
    intro b
    cases b <;> simp only [pyCmp, num2, Option.map_some, Option.map_none] <;>
      first | rfl | exact congrArg some (cmpInt_flip _ _)
  | str s =>
    intro b
    cases b <;> simp only [pyCmp, num2, Option.map_some, Option.map_none] <;>
      first | rfl | exact congrArg some (cmpStr_flip _ _)
  | list xs ih =>
    intro b
    cases b <;> simp only [pyCmp, num2, Option.map_some, Option.map_none] <;>
      first | rfl | exact cmpL_flip xs ih _
  | tuple xs ih =>
    intro b
    cases b <;> simp only [pyCmp, num2, Option.map_some, Option.map_none] <;>
      first | rfl | exact cmpL_flip xs ih _
  | set xs _ =>
    intro b
    cases b <;> simp only [pyCmp, num2, Option.map_some, Option.map_none] <;>
      first | rfl | (rw [subL_supL, ← subL_supL _ xs, cmpIncl_flip])
  | dict xs _ => intro b; cases b <;> simp only [pyCmp, num2, Option.map_some, Option.map_none] <;> rfl
  | obj c i => intro b; cases b <;> simp only [pyCmp, num2, Option.map_some, Option.map_none] <;> rfl

/-- Types whose values can be ordered against themselves. -/
def orderable : PyVal → Bool
  | .none | .dict _ | .obj _ _ => false
  | _ => true

theorem cmpL_self (xs : List PyVal) : cmpL xs xs = some .eq := by
  induction xs with
  | nil => simp [cmpL]
  | cons a as ih => simp [cmpL, pyEq_refl a, ih]

theorem incl_self (xs : List PyVal) : subL xs xs = true ∧ supL xs xs = true := by
  have := incl_refl xs (fun x _ => pyEq_refl x)
  simpa [supL] using this

/-- A value of an orderable type compares equal to itself; the others raise. -/
theorem pyCmp_self (a : PyVal) : pyCmp a a = if orderable a then some .eq else Option.none := by
  cases a with
  | none => simp [pyCmp, orderable]
  | bool b => simp [pyCmp, num2, orderable, cmpInt_self]
  | int n => simp [pyCmp, num2, orderable, cmpInt_self]
  | flt t => simp [pyCmp, num2, orderable, cmpInt_self]
  | str s => simp [pyCmp, orderable, cmpStr_self]
  | list xs => simp [pyCmp, orderable, cmpL_self]
  | tuple xs => simp [pyCmp, orderable, cmpL_self]
  | set xs => simp [pyCmp, orderable, (incl_self xs).1, (incl_self xs).2, cmpIncl]
  | dict xs => simp [pyCmp, orderable]
  | obj c i => simp [pyCmp, orderable]

/-- If `a ? b` does not raise, `a` is of an orderable type. -/
theorem orderable_of_cmp_left {a b : PyVal} {c : Cmp} (h : pyCmp a b = some c) : orderable a = true := by
  cases a <;> simp_all [pyCmp, orderable]

theorem orderable_of_cmp_right {a b : PyVal} {c : Cmp} (h : pyCmp a b = some c) : orderable b = true := by
  have := pyCmp_flip a b
  rw [h] at this
  exact orderable_of_cmp_left this

theorem pyGe_eq_pyLe (x v : PyVal) : pyGe x v = pyLe v x := by
  unfold pyGe pyLe
  rw [pyCmp_flip v x]
  cases pyCmp v x with
  | none => rfl
  | some c => cases c <;> rfl

theorem pyGt_eq_pyLt (x v : PyVal) : pyGt x v = pyLt v x := by
  unfold pyGt pyLt
  rw [pyCmp_flip v x]
  cases pyCmp v x with
  | none => rfl
  | some c => cases c <;> rfl

end PyVal
end PyPred
