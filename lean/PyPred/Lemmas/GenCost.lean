/-
C11 machinery: a static fuel bound `cost g` and a static predicate `Bounded g` ("no rejection
loop, no failing conversion anywhere inside") on generator states such that one `next()` with
`cost g` units of fuel always completes — yields or stops, never runs out of fuel, never
raises — for *every* tape, and the successor state is again `Bounded` with no larger cost
(`pull_bounded`).  The bound depends on the shape of the state only, not on the magnitude of
any parameter.
-/
import PyPred.Lemmas.GenClauses

set_option linter.unusedSimpArgs false
set_option linter.unusedVariables false

namespace PyPred
namespace Gen

open GVal

/-- Fuel that suffices for one `next()` of a `Bounded` state and of all its successors. -/
def cost : G → Nat
  | .filter _ _ g => 1 + cost g
  | .chain g h => 1 + max (cost g) (cost h)
  | .zipCons g z => 1 + max (cost g) (cost z)
  | .flat z _ => 1 + cost z
  | .map _ g => 1 + cost g
  | .allT tmpl _ _ => 1 + cost tmpl
  | .anyT tmpl => 1 + cost tmpl
  | .setOfT tmpl => 1 + cost tmpl
  | .allF tmpl => 1 + cost tmpl
  | .setOfF tmpl => 1 + cost tmpl
  | .dicts _ => 7
  | .sets _ => 7
  | _ => 1

/-- No rejection loop and no failing conversion inside. -/
def Bounded : G → Prop
  | .filter p neg g => Bounded g ∧ ∀ v, Outs g v → evalG p v = .ok (!neg)
  | .chain g h => Bounded g ∧ Bounded h
  | .zipCons g z => Bounded g ∧ Bounded z ∧ ∀ v, Outs z v → ∃ xs, v = .tuple xs
  | .flat z _ => Bounded z
  | .map f g => Bounded g ∧ ∀ v, Outs g v → ∃ w, applyMap f v = .ok w
  | .allT tmpl _ _ => Bounded tmpl
  | .anyT tmpl => Bounded tmpl
  | .setOfT _ => False
  | .allF tmpl => Bounded tmpl
  | .setOfF tmpl => Bounded tmpl
  | .floats lo hi _ => XF.okPair lo hi = true    -- `random.uniform` is never called with an infinite end
  | _ => True

/-- One `next()` finished: a value and a `Bounded` successor that needs no more fuel, or the end. -/
def Done (g : G) (r : Res) : Prop :=
  (∃ v g' t', r = .yield v g' t' ∧ Bounded g' ∧ cost g' ≤ cost g) ∨ (∃ t', r = .stop t')

def StepBounded (fuel : Nat) : Prop :=
  ∀ g t, Bounded g → cost g ≤ fuel → Done g (pull fuel g t)

theorem hashableL_of_forall {xs : List GVal} (h : ∀ x ∈ xs, hashable x = true) : hashableL xs = true := by
  induction xs with
  | nil => rfl
  | cons a as ih =>
    simp only [hashableL, Bool.and_eq_true]
    exact ⟨h a (by simp), ih (fun x hx => h x (by simp [hx]))⟩

theorem mkSet_of_hashable {xs : List GVal} (h : ∀ x ∈ xs, hashable x = true) : mkSet xs = .ok (.set (dedup xs)) := by
  simp [mkSet, hashableL_of_forall h]

/-- `take` on a bounded generator never fails and never starves. -/
theorem takeWith_bounded {fuel : Nat} (hs : StepBounded fuel) :
    ∀ n g t, Bounded g → cost g ≤ fuel → ∃ vs t', takeWith (pull fuel) n g t = .ok vs t' := by
  intro n
  induction n with
  | zero => intro g t _ _; exact ⟨[], t, rfl⟩
  | succ n ih =>
    intro g t hb hc
    rcases hs g t hb hc with ⟨v, g', t', hp, hb', hc'⟩ | ⟨t', hp⟩
    · obtain ⟨vs, t'', hr⟩ := ih g' t' hb' (Nat.le_trans hc' hc)
      exact ⟨v :: vs, t'', by simp [takeWith, hp, hr]⟩
    · exact ⟨[], t', by simp [takeWith, hp]⟩

theorem cost_anys : cost anys = 5 := by simp [anys, cost]

theorem zipCons_tuple (g z : G) : ∀ v, Outs (.zipCons g z) v → ∃ xs, v = .tuple xs := by
  intro v hv
  obtain ⟨x, xs, rfl, _, _⟩ := hv
  exact ⟨_, rfl⟩

theorem zipNil_tuple : ∀ v, Outs .zipNil v → ∃ xs, v = .tuple xs := by
  intro v hv
  simp only [Outs] at hv
  exact ⟨_, hv⟩

theorem bounded_anys : Bounded anys := by
  simp only [anys, Bounded]
  and_intros
  all_goals first | exact zipNil_tuple | exact zipCons_tuple _ _ | (simp [XF.okPair]; done) | trivial

theorem hashable_anys {v : GVal} (h : Outs anys v) : hashable v = true := by
  rcases outs_anys h with ⟨a, rfl⟩ | ⟨cs, rfl⟩ | ⟨k, rfl⟩ <;> simp [hashable]

set_option maxHeartbeats 1600000 in
/-- **Uniform bound.**  A bounded state finishes one `next()` within `cost` units of fuel on every tape. -/
theorem pull_bounded : ∀ fuel, StepBounded fuel := by
  intro fuel
  induction fuel with
  | zero =>
    intro g t hb hc
    cases g <;> simp [cost] at hc <;> omega
  | succ fuel ih =>
    intro g t hb hc
    cases g with
    | ofList xs =>
      cases xs with
      | nil => exact Or.inr ⟨t, by simp [pull]⟩
      | cons x xs => exact Or.inl ⟨x, .ofList xs, t, by simp [pull], by simp [Bounded], by simp [cost]⟩
    | rep w => exact Or.inl ⟨w, .rep w, t, by simp [pull], by simp [Bounded], by simp [cost]⟩
    | cycBool b => exact Or.inl ⟨.bool b, .cycBool (!b), t, by simp [pull], by simp [Bounded], by simp [cost]⟩
    | ints lo hi ph j =>
      by_cases he : emptyRange lo hi = true
      · exact Or.inr ⟨t, by simp [pull, he]⟩
      · have he' : emptyRange lo hi = false := by simpa using he
        have hw := window_nonempty lo hi he' ((10 ^ ph : Nat) : Int) (Int.natCast_nonneg _)
        simp only [Done, pull, he', Bool.false_eq_true, if_false, hw, if_true]
        refine Or.inl ⟨_, _, _, rfl, ?_, ?_⟩
        · split <;> simp [Bounded]
        · split <;> simp [cost]
    | floats lo hi ph =>
      simp only [Bounded] at hb
      match ph with
      | 0 => exact Or.inl ⟨lo.val, .floats lo hi 1, t, by simp [pull], by simpa [Bounded] using hb, by simp [cost]⟩
      | 1 => exact Or.inl ⟨hi.val, .floats lo hi 2, t, by simp [pull], by simpa [Bounded] using hb, by simp [cost]⟩
      | k + 2 =>
        by_cases hlt : XF.lt lo hi = true
        · cases lo with
          | fin a => cases hi with
            | fin b => exact Or.inl ⟨.flt (t.uniform a b).1, .floats (.fin a) (.fin b) 2, (t.uniform a b).2, by simp [pull, hlt], by simpa [Bounded] using hb, by simp [cost]⟩
            | inf n => simp [XF.okPair, hlt] at hb
          | inf m => simp [XF.okPair, hlt] at hb
        · exact Or.inl ⟨lo.val, .floats lo hi 2, t, by simp [pull, hlt], by simpa [Bounded] using hb, by simp [cost]⟩
    | strings =>
      simp only [Done, pull]
      exact Or.inl ⟨_, _, _, rfl, by simp [Bounded], by simp [cost]⟩
    | uuids =>
      simp only [Done, pull]
      exact Or.inl ⟨_, _, _, rfl, by simp [Bounded], by simp [cost]⟩
    | nowOnce =>
      simp only [Done, pull]
      exact Or.inl ⟨_, _, _, rfl, by simp [Bounded], by simp [cost]⟩
    | dicts first =>
      cases first with
      | true => exact Or.inl ⟨.dict [], .dicts false, t, by simp [pull], by simp [Bounded], by simp [cost]⟩
      | false =>
        simp only [cost] at hc
        obtain ⟨ks, t1, h1⟩ := takeWith_bounded ih 5 .strings t trivial (by simp [cost]; omega)
        obtain ⟨vs, t2, h2⟩ := takeWith_bounded ih 5 anys t1 bounded_anys (by rw [cost_anys]; omega)
        simp only [Done, pull, h1, h2]
        exact Or.inl ⟨_, _, _, rfl, by simp [Bounded], by simp [cost]⟩
    | sets first =>
      cases first with
      | true => exact Or.inl ⟨.set [], .sets false, t, by simp [pull], by simp [Bounded], by simp [cost]⟩
      | false =>
        simp only [cost] at hc
        obtain ⟨vs, t2, h2⟩ := takeWith_bounded ih (t.randint 0 10).1.toNat anys (t.randint 0 10).2 bounded_anys (by rw [cost_anys]; omega)
        have hh := mkSet_of_hashable (xs := vs) (fun x hx => hashable_anys (take_outs (pull_sound fuel) h2 x hx))
        simp only [Done, pull, h2, hh]
        exact Or.inl ⟨_, _, _, rfl, by simp [Bounded], by simp [cost]⟩
    | filter p neg g =>
      simp only [Bounded] at hb
      simp only [cost] at hc
      rcases ih g t hb.1 (by omega) with ⟨v, g', t', hp, hb', hc'⟩ | ⟨t', hp⟩
      · have hv := (pull_sound fuel _ _ _ _ _ hp)
        have he := hb.2 v hv.1
        refine Or.inl ⟨v, .filter p neg g', t', ?_, ⟨hb', fun w hw => hb.2 w (hv.2 w hw)⟩, by simp [cost]; omega⟩
        simp only [pull, hp, he]
        cases neg <;> simp
      · exact Or.inr ⟨t', by simp [pull, hp]⟩
    | chain g1 g2 =>
      simp only [Bounded] at hb
      simp only [cost] at hc
      rcases ih g1 t hb.1 (by omega) with ⟨v, g', t', hp, hb', hc'⟩ | ⟨t', hp⟩
      · exact Or.inl ⟨v, .chain g' g2, t', by simp [pull, hp], ⟨hb', hb.2⟩, by simp only [cost]; omega⟩
      · rcases ih g2 t' hb.2 (by omega) with ⟨v, g', t'', hp2, hb', hc'⟩ | ⟨t'', hp2⟩
        · exact Or.inl ⟨v, g', t'', by simp [pull, hp, hp2], hb', by simp only [cost]; omega⟩
        · exact Or.inr ⟨t'', by simp [pull, hp, hp2]⟩
    | zipNil => exact Or.inl ⟨.tuple [], .zipNil, t, by simp [pull], by simp [Bounded], by simp [cost]⟩
    | zipCons g z =>
      simp only [Bounded] at hb
      simp only [cost] at hc
      rcases ih g t hb.1 (by omega) with ⟨x, g', t1, hp, hb', hc'⟩ | ⟨t1, hp⟩
      · rcases ih z t1 hb.2.1 (by omega) with ⟨w, z', t2, hp2, hbz, hcz⟩ | ⟨t2, hp2⟩
        · have hz := pull_sound fuel _ _ _ _ _ hp2
          obtain ⟨xs, rfl⟩ := hb.2.2 w hz.1
          exact Or.inl ⟨.tuple (x :: xs), .zipCons g' z', t2, by simp [pull, hp, hp2], ⟨hb', hbz, fun v hv => hb.2.2 v (hz.2 v hv)⟩, by simp only [cost]; omega⟩
        · exact Or.inr ⟨t2, by simp [pull, hp, hp2]⟩
      · exact Or.inr ⟨t1, by simp [pull, hp]⟩
    | flat z buf =>
      cases buf with
      | cons b bs => exact Or.inl ⟨b, .flat z bs, t, by simp [pull], hb, by simp [cost]⟩
      | nil =>
        simp only [Bounded] at hb
        simp only [cost] at hc
        rcases ih z t hb (by omega) with ⟨w, z', t1, hp, hbz, hcz⟩ | ⟨t1, hp⟩
        · match w, hp with
          | .tuple (x :: xs), hp => exact Or.inl ⟨x, .flat z' xs, t1, by simp [pull, hp], hbz, by simp only [cost]; omega⟩
          | .tuple [], hp => exact Or.inr ⟨t1, by simp [pull, hp]⟩
          | .none, hp => exact Or.inr ⟨t1, by simp [pull, hp]⟩
          | .bool _, hp => exact Or.inr ⟨t1, by simp [pull, hp]⟩
          | .int _, hp => exact Or.inr ⟨t1, by simp [pull, hp]⟩
          | .flt _, hp => exact Or.inr ⟨t1, by simp [pull, hp]⟩
          | .str _, hp => exact Or.inr ⟨t1, by simp [pull, hp]⟩
          | .list _, hp => exact Or.inr ⟨t1, by simp [pull, hp]⟩
          | .set _, hp => exact Or.inr ⟨t1, by simp [pull, hp]⟩
          | .dict _, hp => exact Or.inr ⟨t1, by simp [pull, hp]⟩
          | .dt _, hp => exact Or.inr ⟨t1, by simp [pull, hp]⟩
          | .uuid _, hp => exact Or.inr ⟨t1, by simp [pull, hp]⟩
          | .cplx _ _, hp => exact Or.inr ⟨t1, by simp [pull, hp]⟩
          | .inf _, hp => exact Or.inr ⟨t1, by simp [pull, hp]⟩
        · exact Or.inr ⟨t1, by simp [pull, hp]⟩
    | map f g =>
      simp only [Bounded] at hb
      simp only [cost] at hc
      rcases ih g t hb.1 (by omega) with ⟨v, g', t', hp, hb', hc'⟩ | ⟨t', hp⟩
      · have hv := pull_sound fuel _ _ _ _ _ hp
        obtain ⟨w, hw⟩ := hb.2 v hv.1
        exact Or.inl ⟨w, .map f g', t', by simp [pull, hp, hw], ⟨hb', fun u hu => hb.2 u (hv.2 u hu)⟩, by simp only [cost]; omega⟩
      · exact Or.inr ⟨t', by simp [pull, hp]⟩
    | allT tmpl ph n =>
      simp only [Bounded] at hb
      simp only [cost] at hc
      match ph with
      | 0 => exact Or.inl ⟨.list [], .allT tmpl 1 0, t, by simp [pull], hb, by simp [cost]⟩
      | 1 =>
        obtain ⟨vs, t2, h2⟩ := takeWith_bounded ih (t.randint 1 10).1.toNat tmpl (t.randint 1 10).2 hb (by omega)
        cases vs with
        | nil => exact Or.inr ⟨t2, by simp [pull, h2]⟩
        | cons a as =>
          simp only [Done, pull, h2]
          exact Or.inl ⟨_, _, _, rfl, hb, by simp [cost]⟩
      | 2 =>
        obtain ⟨vs, t2, h2⟩ := takeWith_bounded ih n tmpl t hb (by omega)
        cases vs with
        | nil => exact Or.inr ⟨t2, by simp [pull, h2]⟩
        | cons a as =>
          by_cases hh : hashableL (a :: as) = true
          · simp only [Done, pull, h2, hh, if_true]
            exact Or.inl ⟨_, _, _, rfl, hb, by simp [cost]⟩
          · -- the set variant is skipped: the list round runs in the same `next()`
            have hh' : hashableL (a :: as) = false := by simpa using hh
            obtain ⟨vs3, t3, h3⟩ := takeWith_bounded ih n tmpl t2 hb (by omega)
            cases vs3 with
            | nil => exact Or.inr ⟨t3, by simp [pull, h2, hh', allList, h3]⟩
            | cons b bs =>
              simp only [Done, pull, h2, hh', Bool.false_eq_true, if_false, allList, h3]
              exact Or.inl ⟨_, _, _, rfl, hb, by simp [cost]⟩
      | k + 3 =>
        obtain ⟨vs, t2, h2⟩ := takeWith_bounded ih n tmpl t hb (by omega)
        cases vs with
        | nil => exact Or.inr ⟨t2, by simp [pull, allList, h2]⟩
        | cons a as =>
          simp only [Done, pull, allList, h2]
          exact Or.inl ⟨_, _, _, rfl, hb, by simp [cost]⟩
    | anyT tmpl =>
      simp only [Bounded] at hb
      simp only [cost] at hc
      obtain ⟨vs, t2, h2⟩ := takeWith_bounded ih 10 tmpl t hb (by omega)
      cases vs with
      | nil => exact Or.inr ⟨t2, by simp [pull, h2]⟩
      | cons a as =>
        simp only [Done, pull, h2]
        exact Or.inl ⟨_, _, _, rfl, by simp [Bounded], by simp [cost]⟩
    | anyT2 vals =>
      cases vals with
      | nil => exact Or.inr ⟨t, by simp [pull]⟩
      | cons a as =>
        by_cases hh : hashableL (a :: as) = true
        · simp only [Done, pull, hh, if_true]
          exact Or.inl ⟨_, _, _, rfl, by simp [Bounded], by simp [cost]⟩
        · have hh' : hashableL (a :: as) = false := by simpa using hh
          exact Or.inr ⟨t, by simp only [pull, hh', Bool.false_eq_true, if_false]⟩
    | setOfT tmpl => exact absurd hb (by simp [Bounded])
    | allF tmpl =>
      simp only [Bounded] at hb
      simp only [cost] at hc
      obtain ⟨vs, t2, h2⟩ := takeWith_bounded ih (t.randint 1 10).1.toNat tmpl (t.randint 1 10).2 hb (by omega)
      cases vs with
      | nil => exact Or.inr ⟨t2, by simp [pull, h2]⟩
      | cons a as =>
        simp only [Done, pull, h2]
        exact Or.inl ⟨_, .allF tmpl, _, rfl, (by simpa [Bounded] using hb), by simp [cost]⟩
    | setOfF tmpl =>
      simp only [Bounded] at hb
      simp only [cost] at hc
      obtain ⟨vs, t2, h2⟩ := takeWith_bounded ih 10 tmpl t hb (by omega)
      cases hf : vs.filter hashable with
      | nil => exact Or.inr ⟨t2, by simp only [pull, h2, hf]⟩
      | cons a as =>
        simp only [Done, pull, h2, hf]
        exact Or.inl ⟨_, _, _, rfl, by simp [Bounded], by simp [cost]⟩

end Gen
end PyPred
