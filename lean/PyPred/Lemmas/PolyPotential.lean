/-
A quadratic bound on the number of invocations of the optimizer model (C12), for every tree.

Potential `M p = 3 * w p + X p`, where `X` counts the `xor` nodes that are *not* of the shape
`non-conjunction ^ conjunction` (the shape XOR9 swaps to).  Invariant of one answered call on `p`
with result `o` and ticked trace length `n` (`Cst p o n`): there is a number of rounds `r ≥ 1` with
`n ≤ 3 * w p * r` and `M o + r ≤ M p + 1`, and even `M o + r ≤ M p` when exactly one of `p`, `o` is a
conjunction.  The operand calls of a node share one round; every re-entrant call (AND14, OR13,
XOR3, XOR4, XOR9: a call on a *result*) pays its own rounds, and each of those arms releases the
potential for it (a node disappears, or an `xor` node gets its final shape).
-/
import PyPred.Lemmas.PolyArith
import PyPred.Lemmas.TerminatesCost

set_option linter.unusedSectionVars false
set_option linter.unusedVariables false
set_option linter.unusedSimpArgs false
set_option linter.unnecessarySeqFocus false

namespace PyPred
open PolyArith

section
variable {V : Type}

/-- 1 for a conjunction. -/
def ia (p : Pred V) : Nat := if p.isAnd then 1 else 0

/-- Bit of an `xor` node: 0 on the shape `non-conjunction ^ conjunction`. -/
def xb (l r : Pred V) : Nat := if !l.isAnd && r.isAnd then 0 else 1

/-- Number of `xor` nodes (reachable through the connectives and quantifiers) not in final shape. -/
def X : Pred V → Nat
  | .and l r => X l + X r
  | .or l r => X l + X r
  | .xor l r => X l + X r + xb l r
  | .not p => X p
  | .all p => X p
  | .any p => X p
  | _ => 0

/-- The potential. -/
def M (p : Pred V) : Nat := 3 * w p + X p

/-- 0 on the conjunctions that AND-p2 swaps, 1 elsewhere. -/
def esw : Pred V → Nat
  | .and l r => if !l.isOr && r.isOr then 0 else 1
  | _ => 1

theorem ia_le (p : Pred V) : ia p ≤ 1 := by unfold ia; split <;> omega
theorem esw_le (p : Pred V) : esw p ≤ 1 := by
  unfold esw; split
  · split <;> omega
  · omega

theorem xb_lin (l r : Pred V) : 1 ≤ xb l r + ia r ∧ ia l ≤ xb l r ∧ xb l r + ia r ≤ 1 + ia l ∧ xb l r ≤ 1 := by
  unfold xb ia
  cases l.isAnd <;> cases r.isAnd <;> simp

theorem X_le_w (p : Pred V) : X p ≤ w p := by
  induction p <;> simp [X, w] <;> try omega
  rename_i l r ihl ihr
  have := (xb_lin l r).2.2.2
  omega

theorem M_le (p : Pred V) : M p ≤ 4 * w p := by
  have := X_le_w p; unfold M; omega

theorem M_ge (p : Pred V) : 3 ≤ M p := by
  have := w_pos p; unfold M; omega

theorem ia_of_isAnd {p : Pred V} (h : p.isAnd = true) : ia p = 1 := by simp [ia, h]
theorem ia_of_not_isAnd {p : Pred V} (h : p.isAnd = false) : ia p = 0 := by simp [ia, h]

/-- Cost invariant of one answered call. -/
def Cst (p o : Pred V) (n : Nat) : Prop :=
  ∃ r, 1 ≤ r ∧ n + esw p ≤ 3 * (w p * r) ∧ M o + r + ia p ≤ M p + 1 + ia o ∧ M o + r + ia o ≤ M p + 1 + ia p

/-- `r` answers with a predicate and a trace length related by `Q`. -/
def AnsC (r : R V) (Q : Pred V → Nat → Prop) : Prop :=
  ∃ o tr, r = some (o, tr) ∧ Q o tr.length

theorem AnsC.ret {p : Pred V} {Q : Pred V → Nat → Prop} (h : Q p 0) : AnsC (ret p) Q :=
  ⟨p, [], rfl, h⟩

theorem AnsC.retQ {q : Quirk} {p : Pred V} {Q : Pred V → Nat → Prop} (h : Q p 1) : AnsC (retQ q p) Q :=
  ⟨p, [q], rfl, h⟩

theorem AnsC.bind {r : R V} {f : Pred V → R V} {Q1 Q2 : Pred V → Nat → Prop}
    (h1 : AnsC r Q1) (h2 : ∀ o n1, Q1 o n1 → AnsC (f o) (fun o2 n2 => Q2 o2 (n1 + n2))) : AnsC (bindR r f) Q2 := by
  obtain ⟨o, tr, rfl, hq⟩ := h1
  obtain ⟨o2, tr2, h, hq2⟩ := h2 o _ hq
  exact ⟨o2, tr ++ tr2, by simp [bindR, h], by simpa using hq2⟩

theorem AnsC.mono {r : R V} {Q1 Q2 : Pred V → Nat → Prop} (h1 : AnsC r Q1) (h2 : ∀ o n, Q1 o n → Q2 o n) :
    AnsC r Q2 := by
  obtain ⟨o, tr, h, hq⟩ := h1
  exact ⟨o, tr, h, h2 o _ hq⟩

theorem AnsC.tick {r : R V} {Q : Pred V → Nat → Prop} (h : AnsC r (fun o n => Q o (n + 1))) : AnsC (tick r) Q := by
  obtain ⟨o, tr, rfl, hq⟩ := h
  exact ⟨o, _, rfl, by simpa using hq⟩

/-- An `Ans` answer (predicate part) and an `AnsC` answer of the same call combine. -/
theorem AnsC.both {k : Nat} {r : R V} {Q1 : Pred V → Prop} {Q2 : Pred V → Nat → Prop}
    (h1 : Ans k r Q1) (h2 : AnsC r Q2) : AnsC r (fun o n => Q1 o ∧ Q2 o n) := by
  obtain ⟨o, tr, h, hq, _⟩ := h1
  obtain ⟨o', tr', h', hq'⟩ := h2
  rw [h] at h'
  simp only [Option.some.injEq, Prod.mk.injEq] at h'
  obtain ⟨rfl, rfl⟩ := h'
  exact ⟨o, tr, h, hq, hq'⟩

end

variable {V : Type} [DecidableEq V] [LT V] [LE V] [DecidableLT V] [DecidableLE V]

/-- The oracle answers every term below `p` with the weight facts (`Post`) and the cost invariant. -/
def NiceC (p : Pred V) (rec : Pred V → R V) : Prop :=
  ∀ t, μ t < μ p → AnsC (rec t) (fun o n => Post t o ∧ Cst t o n)

theorem X_negate (p : Pred V) : X (negate p) = X p := by
  cases p <;> simp [negate, X]

theorem M_negate (p : Pred V) : M (negate p) ≤ M p + 3 := by
  have := w_negate p; have := X_negate p; unfold M; omega

theorem M_optIn (s : List V) : M (optIn s) = 3 := by
  unfold optIn; split <;> simp [M, w, X]

theorem M_optNotIn (s : List V) : M (optNotIn s) ≤ 6 := by
  unfold optNotIn; split <;> simp [M, w, X]

theorem ia_optIn (s : List V) : ia (optIn s) = 0 := by simp [ia, isAnd_optIn]
theorem ia_optNotIn (s : List V) : ia (optNotIn s) = 0 := by simp [ia, isAnd_optNotIn]

/-- `negate` answers with a conjunction only by stripping a `not`. -/
theorem M_negate_of_isAnd (p : Pred V) (h : ia (negate p) = 1) : M (negate p) + 3 = M p ∧ ia p = 0 := by
  cases p <;> simp_all [negate, M, w, X, ia, Pred.isAnd] <;> omega

macro "msimp" : tactic =>
  `(tactic| ((try simp only [Post] at *);
             (try simp only [w_optIn, isAnd_optIn, isAnd_optNotIn, M_optIn, ia_optIn, ia_optNotIn] at *);
             simp_all [M, X, w, ia, esw, Pred.isAnd, Pred.isOr]))

/-! ### all, any, not -/

theorem stepAll_cst {rec : Pred V → R V} {q : Pred V} (hrec : NiceC (.all q) rec) :
    AnsC (stepAll rec q) (fun o n => Cst (.all q) o (n + 1)) := by
  unfold stepAll
  refine AnsC.bind (hrec q (μ_lt_of_w_lt (by simp [w]))) (fun o n ho => AnsC.ret ?_)
  obtain ⟨hp, r, hr1, hc, hm1, hm2⟩ := ho
  have hio := ia_le o
  have hiq := ia_le q
  refine ⟨r, hr1, ?_, ?_⟩
  · have := cst_un (W := w (.all q)) (R := 0) (ρ := 0) (c := 2) (r := r) (Nat.le_of_add_right_le hc) hr1
      (by simp [w]; omega) (by omega) (by omega) (by omega)
    simpa [esw] using this
  · unfold allPost
    split <;> msimp <;> omega

theorem stepAny_cst (cfg : Cfg) {rec : Pred V → R V} {q : Pred V} (hrec : NiceC (.any q) rec) :
    AnsC (stepAny cfg rec q) (fun o n => Cst (.any q) o (n + 1)) := by
  unfold stepAny
  refine AnsC.bind (hrec q (μ_lt_of_w_lt (by simp [w]))) (fun o n ho => ?_)
  obtain ⟨hp, r, hr1, hc, hm1, hm2⟩ := ho
  have hio := ia_le o
  have hiq := ia_le q
  have hcost : n + 3 ≤ 3 * (w (.any q) * r) := by
    have := cst_un (W := w (.any q)) (R := 0) (ρ := 0) (c := 3) (r := r) (Nat.le_of_add_right_le hc) hr1
      (by simp [w]; omega) (by omega) (by omega) (by omega)
    simpa using this
  have hcost' : ∀ k, k ≤ 1 → n + k + 1 + esw (.any q) ≤ 3 * (w (.any q) * r) := by
    intro k hk; simp only [esw]; omega
  split
  · split
    · exact AnsC.retQ ⟨r, hr1, hcost' 1 (by omega), by msimp <;> omega⟩
    · exact AnsC.ret ⟨r, hr1, hcost' 0 (by omega), by msimp <;> omega⟩
    · exact AnsC.ret ⟨r, hr1, hcost' 0 (by omega), by msimp <;> omega⟩
  · exact AnsC.ret ⟨r, hr1, hcost' 0 (by omega), by msimp <;> omega⟩
  · exact AnsC.ret ⟨r, hr1, hcost' 0 (by omega), by msimp <;> omega⟩
  · exact AnsC.ret ⟨r, hr1, hcost' 0 (by omega), by msimp <;> omega⟩
  · exact AnsC.ret ⟨r, hr1, hcost' 0 (by omega), by msimp <;> omega⟩

theorem notPost_M (o : Pred V) :
    M (notPost o) + ia (notPost o) ≤ M o + 3 ∧ M (notPost o) + 3 * ia (notPost o) ≤ M o + 3 + 3 * ia o := by
  have hio := ia_le o
  unfold notPost
  split
  · rename_i a; have := M_negate a; msimp; omega
  · rename_i a b
    split
    · have := M_negate a; msimp; omega
    · split
      · have := M_negate b; msimp; omega
      · simp [negate, M, X, w, ia, Pred.isAnd] <;> omega
  · rename_i a; have := M_negate a; msimp; omega
  · rename_i a b
    split
    · have := M_negate a; msimp; omega
    · split
      · have := M_negate b; msimp; omega
      · simp [negate, M, X, w, ia, Pred.isAnd] <;> omega
  · rename_i a b
    split
    · rename_i q
      have h1 := xb_lin (.not q) b; have h2 := xb_lin q b
      simp only [M, X, w, ia, Pred.isAnd] at *; simp; omega
    · split
      · rename_i q
        have h1 := xb_lin a (.not q); have h2 := xb_lin a q
        simp only [M, X, w, ia, Pred.isAnd] at *; simp; omega
      · have h1 := xb_lin (.not a) b; have h2 := xb_lin a b
        simp only [M, X, w, ia, Pred.isAnd] at *; simp at *; omega
  · have h1 := M_negate o
    have h2 := ia_le (negate o)
    by_cases h : ia (negate o) = 1
    · have := M_negate_of_isAnd o h; omega
    · omega

theorem stepNot_cst {rec : Pred V → R V} {q : Pred V} (hrec : NiceC (.not q) rec) :
    AnsC (stepNot rec q) (fun o n => Cst (.not q) o (n + 1)) := by
  unfold stepNot
  split
  · rename_i q'
    refine AnsC.mono (hrec q' (μ_lt_of_w_lt (by simp [w]; omega))) (fun o n ho => ?_)
    obtain ⟨hp, r, hr1, hc, hm1, hm2⟩ := ho
    have hio := ia_le o
    have hiq := ia_le q'
    refine ⟨r, hr1, ?_, ?_⟩
    · have := cst_un (W := w (.not (.not q'))) (R := 0) (ρ := 0) (c := 2) (r := r) (Nat.le_of_add_right_le hc) hr1
        (by simp [w]; omega) (by omega) (by omega) (by omega)
      simpa [esw] using this
    · simp only [M, X, w] at *; simp [ia, Pred.isAnd] at *; omega
  · refine AnsC.bind (hrec q (μ_lt_of_w_lt (by simp [w]))) (fun o n ho => AnsC.ret ?_)
    obtain ⟨hp, r, hr1, hc, hm1, hm2⟩ := ho
    have hio := ia_le o
    have hiq := ia_le q
    have hnp := notPost_M o
    have hinp := ia_le (notPost o)
    refine ⟨r, hr1, ?_, ?_⟩
    · have := cst_un (W := w (.not q)) (R := 0) (ρ := 0) (c := 2) (r := r) (Nat.le_of_add_right_le hc) hr1
        (by simp [w]; omega) (by omega) (by omega) (by omega)
      simpa [esw] using this
    · have h1 : M (.not q) = M q + 3 := by simp [M, X, w]; omega
      have h2 : ia (.not q) = 0 := by simp [ia, Pred.isAnd]
      omega

end PyPred
