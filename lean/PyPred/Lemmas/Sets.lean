/-
Helper lemmas about the list-as-set operations of `Model/Core.lean`, stated in
`∈` form (simp normal form of `List.contains`).
-/
import PyPred.Model.Optimize

namespace PyPred
variable {V : Type} [DecidableEq V]

@[simp] theorem subsetL_iff (s t : List V) : subsetL s t = true ↔ ∀ a ∈ s, a ∈ t := by
  simp [subsetL]

@[simp] theorem seteq_iff (s t : List V) : seteq s t = true ↔ ∀ a, a ∈ s ↔ a ∈ t := by
  simp only [seteq, Bool.and_eq_true, subsetL_iff]
  constructor
  · rintro ⟨h1, h2⟩ a; exact ⟨h1 a, h2 a⟩
  · intro h; exact ⟨fun a => (h a).1, fun a => (h a).2⟩

@[simp] theorem mem_inter (s t : List V) (a : V) : a ∈ inter s t ↔ a ∈ s ∧ a ∈ t := by
  simp [inter]

@[simp] theorem mem_diff (s t : List V) (a : V) : a ∈ diff s t ↔ a ∈ s ∧ a ∉ t := by
  simp [diff]

@[simp] theorem mem_union (s t : List V) (a : V) : a ∈ union s t ↔ a ∈ s ∨ a ∈ t := by
  simp only [union, List.mem_append, List.mem_filter]
  by_cases h : a ∈ s <;> simp [h]

@[simp] theorem mem_symdiff (s t : List V) (a : V) :
    a ∈ symdiff s t ↔ (a ∈ s ∧ a ∉ t) ∨ (a ∈ t ∧ a ∉ s) := by
  simp [symdiff]

@[simp] theorem mem_dedup (s : List V) (a : V) : a ∈ dedup s ↔ a ∈ s := by
  induction s with
  | nil => simp [dedup]
  | cons b t ih =>
    simp only [dedup, List.mem_cons, List.mem_filter, ih]
    by_cases h : a = b <;> simp [h]

theorem dedup_nil_iff (s : List V) : dedup s = [] ↔ s = [] := by
  cases s <;> simp [dedup]

theorem dedup_eq_nil_mem {s : List V} (h : dedup s = []) (a : V) : a ∉ s := by
  rw [(dedup_nil_iff s).1 h]; simp

theorem dedup_eq_singleton_mem {s : List V} {b : V} (h : dedup s = [b]) (a : V) : a ∈ s ↔ a = b := by
  rw [← mem_dedup, h]; simp

theorem isEmpty_iff_forall_not_mem (s : List V) : s.isEmpty = true ↔ ∀ a, a ∉ s := by
  cases s with
  | nil => simp
  | cons b t =>
    simp only [List.isEmpty_cons, Bool.false_eq_true, false_iff]
    intro h; exact h b (by simp)

theorem diff_self (s : List V) : diff s s = [] := by
  simp [diff]

theorem inter_self (s : List V) : inter s s = s := by
  simp [inter]

theorem union_self (s : List V) : union s s = s := by
  simp [union]

end PyPred
