/-
Lemmas about the run-time side of Model/TruthTable.lean: `getNamed`, `setNamed`,
`evalH`, one `next`, and the position-indexed generator states.  Core Lean only.
-/
import PyPred.Lemmas.TTNames

namespace PyPred.TT
variable (nm : ObjId → String)

/-! ### get_named_predicates -/

theorem mem_names {t : Tree} {x : String} : x ∈ names nm t ↔ x ∈ t.leafNames nm := by
  simp [names, mem_sortDedup]

theorem getNamed_ok {t : Tree} (ht : t.isProp = true) : getNamed nm t = .ok (names nm t) := by
  induction t with
  | tt => rfl
  | ff => rfl
  | var o => rfl
  | other k => simp [Tree.isProp] at ht
  | and l r ihl ihr | or l r ihl ihr | xor l r ihl ihr =>
    simp only [Tree.isProp, Bool.and_eq_true] at ht
    simp only [getNamed, ihl ht.1, ihr ht.2]
    congr 1
    apply sortDedup_eq_of_mem
    intro a
    simp [names, mem_sortDedup, Tree.leafNames, Tree.objs]
  | not p ih =>
    simp only [Tree.isProp] at ht
    simp only [getNamed, ih ht]
    congr 1
    apply sortDedup_eq_of_mem
    intro a
    simp [names, mem_sortDedup, Tree.leafNames, Tree.objs]

theorem getNamed_err {t : Tree} (ht : t.isProp = false) : getNamed nm t = .error .valueError := by
  induction t with
  | tt | ff | var o => simp [Tree.isProp] at ht
  | other k => rfl
  | and l r ihl ihr | or l r ihl ihr | xor l r ihl ihr =>
    simp only [Tree.isProp, Bool.and_eq_false_iff] at ht
    simp only [getNamed]
    cases hl : l.isProp with
    | false => simp [ihl hl]
    | true =>
      have hr : r.isProp = false := by simpa [hl] using ht
      simp [getNamed_ok nm hl, ihr hr]
  | not p ih =>
    simp only [Tree.isProp] at ht
    simp [getNamed, ih ht]

/-! ### set_named_values, then the call -/

/-- On a propositional tree whose names all have a value, `set_named_values` raises
nothing, leaves every variable object *of the tree* holding the value of its name —
however often and wherever the object occurs — and touches no other object. -/
theorem setNamed_spec (σ : String → Option Bool) {t : Tree} (ht : t.isProp = true)
    (hσ : ∀ o ∈ t.objs, (σ (nm o)).isSome = true) (h : Heap) :
    ∃ h', setNamed nm σ t h = (h', none) ∧ (∀ o ∈ t.objs, σ (nm o) = some (h' o)) ∧
      (∀ o, o ∉ t.objs → h' o = h o) := by
  induction t generalizing h with
  | tt | ff => exact ⟨h, rfl, by simp [Tree.objs], fun _ _ => rfl⟩
  | other k => simp [Tree.isProp] at ht
  | var o =>
    have := hσ o (by simp [Tree.objs])
    cases hv : σ (nm o) with
    | none => simp [hv] at this
    | some b =>
      refine ⟨h.set o b, by simp [setNamed, hv], ?_, ?_⟩
      · intro o' ho'
        have : o' = o := by simpa [Tree.objs] using ho'
        subst this
        simp [hv, Heap.set]
      · intro o' ho'
        have : o' ≠ o := by simpa [Tree.objs] using ho'
        simp [Heap.set, this]
  | not p ih =>
    simp only [Tree.isProp] at ht
    obtain ⟨h', e, a, b⟩ := ih ht (by simpa [Tree.objs] using hσ) h
    exact ⟨h', by simp [setNamed, e], by simpa [Tree.objs] using a, by simpa [Tree.objs] using b⟩
  | and l r ihl ihr | or l r ihl ihr | xor l r ihl ihr =>
    simp only [Tree.isProp, Bool.and_eq_true] at ht
    have hσl : ∀ o ∈ l.objs, (σ (nm o)).isSome = true := fun o ho => hσ o (by simp [Tree.objs, ho])
    have hσr : ∀ o ∈ r.objs, (σ (nm o)).isSome = true := fun o ho => hσ o (by simp [Tree.objs, ho])
    obtain ⟨h₁, e₁, a₁, b₁⟩ := ihl ht.1 hσl h
    obtain ⟨h₂, e₂, a₂, b₂⟩ := ihr ht.2 hσr h₁
    refine ⟨h₂, by simp [setNamed, e₁, e₂], ?_, ?_⟩
    · intro o ho
      by_cases hor : o ∈ r.objs
      · exact a₂ o hor
      · have hol : o ∈ l.objs := by
          have : o ∈ l.objs ∨ o ∈ r.objs := by simpa [Tree.objs] using ho
          exact this.resolve_right hor
        rw [b₂ o hor]; exact a₁ o hol
    · intro o ho
      have : o ∉ l.objs ∧ o ∉ r.objs := by simpa [Tree.objs] using ho
      rw [b₂ o this.2, b₁ o this.1]

/-- `set_named_values` returns normally only on propositional trees (so the call
`predicate(False)` that follows never sees a foreign node). -/
theorem setNamed_none_isProp (σ : String → Option Bool) {t : Tree} {h h' : Heap}
    (e : setNamed nm σ t h = (h', none)) : t.isProp = true := by
  induction t generalizing h h' with
  | tt | ff | var o => rfl
  | other k => simp [setNamed] at e
  | not p ih => exact ih (by simpa [setNamed] using e)
  | and l r ihl ihr | or l r ihl ihr | xor l r ihl ihr =>
    simp only [setNamed] at e
    cases hl : setNamed nm σ l h with
    | mk h₁ err =>
      cases err with
      | some x => simp [hl] at e
      | none =>
        simp only [hl] at e
        simp [Tree.isProp, ihl hl, ihr e]

/-- Reading the heap = reading the assignment, when every variable object of the
tree holds the value of its name. -/
theorem evalH_eq_evalS {σ : String → Bool} {h : Heap} {t : Tree}
    (hh : ∀ o ∈ t.objs, h o = σ (nm o)) : evalH h t = evalS nm σ t := by
  induction t with
  | tt | ff | other k => rfl
  | var o => simpa [evalH, evalS, Tree.objs] using hh
  | not p ih =>
    simp [evalH, evalS, ih (by simpa [Tree.objs] using hh)]
  | and l r ihl ihr | or l r ihl ihr | xor l r ihl ihr =>
    have hl : ∀ o ∈ l.objs, h o = σ (nm o) := fun o ho => hh o (by simp [Tree.objs, ho])
    have hr : ∀ o ∈ r.objs, h o = σ (nm o) := fun o ho => hh o (by simp [Tree.objs, ho])
    simp [evalH, evalS, ihl hl, ihr hr]

/-- One iteration of the loop on a propositional tree: whatever the heap was, the
row comes out with the value of the tree under `names ↦ r`; the generator advances;
only objects of this tree were written. -/
theorem stepRow_cons {t : Tree} (ht : t.isProp = true) (h : Heap) (r : List Bool)
    (rest : List (List Bool)) (hr : r.length = (names nm t).length) :
    ∃ h', stepRow nm h t (names nm t) (r :: rest)
        = (h', .running t (names nm t) rest, .row r (evalS nm (valuation (names nm t) r) t)) ∧
      (∀ o, o ∉ t.objs → h' o = h o) := by
  have hσ : ∀ o ∈ t.objs, (assign (names nm t) r (nm o)).isSome = true := by
    intro o ho
    apply assign_isSome _ hr
    rw [mem_names]
    exact List.mem_map.mpr ⟨o, ho, rfl⟩
  obtain ⟨h', e, a, b⟩ := setNamed_spec nm (assign (names nm t) r) ht hσ h
  refine ⟨h', ?_, b⟩
  have hv : evalH h' t = evalS nm (valuation (names nm t) r) t := by
    apply evalH_eq_evalS
    intro o ho
    simp [valuation, a o ho]
  simp [stepRow, e, hv]

/-! ### Generator states by position -/

/-- The state of a generator for `t` after `k` calls of `next` — as a function of
`t` and `k` only. -/
def stateAt (t : Tree) : Nat → Gen
  | 0 => .fresh t
  | k + 1 =>
    if t.isProp ∧ k < 2 ^ (names nm t).length then
      .running t (names nm t) ((rows (names nm t).length).drop (k + 1))
    else .done

theorem spec_length (t : Tree) : (spec nm t).length = 2 ^ (names nm t).length := by
  simp [spec, rows_length]

theorem respond_lt {t : Tree} (ht : t.isProp = true) {k : Nat} (hk : k < 2 ^ (names nm t).length) :
    respond nm t k = .row ((rows (names nm t).length)[k]'(by simpa [rows_length] using hk))
      (evalS nm (valuation (names nm t) ((rows (names nm t).length)[k]'(by simpa [rows_length] using hk))) t) := by
  have hk' : k < (rows (names nm t).length).length := by simpa [rows_length] using hk
  simp [respond, ht, spec, hk']

theorem respond_ge {t : Tree} (ht : t.isProp = true) {k : Nat} (hk : 2 ^ (names nm t).length ≤ k) :
    respond nm t k = .stop := by
  have : (spec nm t).length ≤ k := by simpa [spec_length] using hk
  simp [respond, ht, List.getElem?_eq_none this]

/-- The key fact: one `next` on the generator at position `k` moves it to position
`k+1` and answers `respond t k` — for **every** heap; and it writes only objects of
its own tree. -/
theorem next_stateAt (t : Tree) (k : Nat) (h : Heap) :
    ∃ h', next nm h (stateAt nm t k) = (h', stateAt nm t (k + 1), respond nm t k) ∧
      (∀ o, o ∉ t.objs → h' o = h o) := by
  cases ht : t.isProp with
  | false =>
    cases k with
    | zero =>
      exact ⟨h, by simp [stateAt, next, getNamed_err nm ht, respond, ht], fun _ _ => rfl⟩
    | succ k =>
      exact ⟨h, by simp [stateAt, next, respond, ht], fun _ _ => rfl⟩
  | true =>
    -- in every live position the generator runs `stepRow` on `rows.drop k`
    by_cases hk : k < 2 ^ (names nm t).length
    · have hk' : k < (rows (names nm t).length).length := by simpa [rows_length] using hk
      have hdrop := List.drop_eq_getElem_cons hk'
      have hlen : ((rows (names nm t).length)[k]).length = (names nm t).length :=
        mem_rows.mp (List.getElem_mem hk')
      obtain ⟨h', e, b⟩ := stepRow_cons nm ht h _ ((rows (names nm t).length).drop (k + 1)) hlen
      refine ⟨h', ?_, b⟩
      have hnext : next nm h (stateAt nm t k)
          = stepRow nm h t (names nm t) ((rows (names nm t).length).drop k) := by
        cases k with
        | zero => simp [stateAt, next, getNamed_ok nm ht]
        | succ k =>
          have : k < 2 ^ (names nm t).length := by omega
          simp [stateAt, next, ht, this]
      rw [hnext, hdrop, e, respond_lt nm ht hk]
      simp [stateAt, ht, hk]
    · have hk2 : 2 ^ (names nm t).length ≤ k := by omega
      refine ⟨h, ?_, fun _ _ => rfl⟩
      rw [respond_ge nm ht hk2]
      cases k with
      | zero => have : 0 < 2 ^ (names nm t).length := Nat.two_pow_pos _; omega
      | succ k =>
        by_cases hk3 : k < 2 ^ (names nm t).length
        · have hkk : k + 1 = 2 ^ (names nm t).length := by omega
          have hd : (rows (names nm t).length).drop (k + 1) = [] := by
            apply List.drop_eq_nil_of_le; simp [rows_length, hkk]
          simp [stateAt, ht, hk3, hk, next, hd, stepRow]
        · simp [stateAt, ht, hk3, hk, next]

end PyPred.TT
