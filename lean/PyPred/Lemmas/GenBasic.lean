/-
Basic facts about the pieces of M6 (`Model/Gen.lean`): the random source answers inside the
requested range, `math.nextafter` moves strictly, sampling with replacement only returns
members of the pool, `set(...)` / sorting keep membership.
-/
import PyPred.Model.Gen

namespace PyPred
namespace Gen

open GVal

/-! ### clamp: the contract of `random.randint` / `random.uniform` / `randrange` -/

theorem clamp_ge {r lo hi : Int} (_h : lo ≤ hi) : lo ≤ clamp r lo hi := by
  unfold clamp; omega

theorem clamp_le {r lo hi : Int} (h : lo ≤ hi) : clamp r lo hi ≤ hi := by
  unfold clamp; omega

/-- Every valid answer is the answer to some raw number (itself). -/
theorem clamp_of_mem {a lo hi : Int} (h1 : lo ≤ a) (h2 : a ≤ hi) : clamp a lo hi = a := by
  unfold clamp; omega

theorem randint_ge (t : Tape) {lo hi : Int} (h : lo ≤ hi) : lo ≤ (t.randint lo hi).1 := by
  simp only [Tape.randint]; exact clamp_ge h

theorem randint_le (t : Tape) {lo hi : Int} (h : lo ≤ hi) : (t.randint lo hi).1 ≤ hi := by
  simp only [Tape.randint]; exact clamp_le h

theorem uniform_ge (t : Tape) {lo hi : Int} (h : lo ≤ hi) : lo ≤ (t.uniform lo hi).1 := by
  simp only [Tape.uniform]; exact clamp_ge h

theorem uniform_le (t : Tape) {lo hi : Int} (h : lo ≤ hi) : (t.uniform lo hi).1 ≤ hi := by
  simp only [Tape.uniform]; exact clamp_le h

theorem randrange_lt (t : Tape) {n : Nat} (h : 0 < n) : (t.randrange n).1 < n := by
  simp only [Tape.randrange]
  have h1 : (0 : Int) ≤ (n : Int) - 1 := by omega
  have := clamp_le (r := (t.note .randrange 0 ((n : Int) - 1)).raw.1) h1
  have := clamp_ge (r := (t.note .randrange 0 ((n : Int) - 1)).raw.1) h1
  omega

/-! ### `math.nextafter` -/

theorem two_pow_pos (e : Nat) : 0 < 2 ^ e := Nat.pow_pos (by decide)

theorem nextUpNat_gt (m : Nat) : m < nextUpNat m := by
  unfold nextUpNat
  have := two_pow_pos (Nat.log2 m - 52)
  omega

theorem nextDownNat_lt {m : Nat} (h : 0 < m) : nextDownNat m < m := by
  unfold nextDownNat
  have h1 := two_pow_pos (Nat.log2 m - 53)
  have h2 := two_pow_pos (Nat.log2 m - 52)
  simp only
  split <;> omega

theorem nextUp_gt (k : Int) : k < nextUp k := by
  unfold nextUp
  split
  · have := nextUpNat_gt k.toNat
    omega
  · have := nextDownNat_lt (m := (-k).toNat) (by omega)
    omega

theorem nextDown_lt (k : Int) : nextDown k < k := by
  unfold nextDown
  have := nextUp_gt (-k)
  omega

theorem scale_pos : 0 < scale := by unfold scale; exact Int.pow_pos (by decide)

theorem cLo_neg : cLo < 0 := by
  unfold cLo
  have : (0 : Int) < 4722366482869645 * 2 ^ (1074 - 72) := Int.mul_pos (by decide) (Int.pow_pos (by decide))
  omega

theorem cHi_pos : 0 < cHi := by
  unfold cHi; exact Int.mul_pos (by decide) (Int.pow_pos (by decide))

theorem c314_pos : 0 < c314 := by
  unfold c314; exact Int.mul_pos (by decide) (Int.pow_pos (by decide))

/-! ### floats with the two infinities (`XF`) -/

theorem maxF_pos : 0 < maxF := by
  unfold maxF; exact Int.mul_pos (by decide) (Int.pow_pos (by decide))

/-- A 53-bit significand below the largest one with an exponent in range is below `maxF`. -/
theorem lt_maxF {m : Int} {e : Nat} (_h0 : 0 ≤ m) (hm : m < 2 ^ 53 - 1) (he : e ≤ 2045) : m * 2 ^ e < maxF := by
  have hA : (0 : Int) < 2 ^ e := Int.pow_pos (by decide)
  have hB : (0 : Int) < 2 ^ (2045 - e) := Int.pow_pos (by decide)
  have e1 : maxF = (2 ^ 53 - 1) * (2 ^ e * 2 ^ (2045 - e)) := by
    unfold maxF; rw [← Int.pow_add]; congr 2; omega
  rw [e1]
  generalize (2 : Int) ^ e = A at *
  generalize (2 : Int) ^ (2045 - e) = B at *
  have h1 : m * A < (2 ^ 53 - 1) * A := Int.mul_lt_mul_of_pos_right hm hA
  have h2 : (0 : Int) ≤ (2 ^ 53 - 1) * A := Int.mul_nonneg (by decide) (Int.le_of_lt hA)
  have h3 : (2 ^ 53 - 1) * A * 1 ≤ (2 ^ 53 - 1) * A * B := Int.mul_le_mul_of_nonneg_left (by omega) h2
  rw [Int.mul_one] at h3
  rw [← Int.mul_assoc]
  omega

theorem cHi_lt_maxF : cHi < maxF := by
  unfold cHi; exact lt_maxF (by decide) (by decide) (by decide)

theorem cLo_gt_neg_maxF : -maxF < cLo := by
  have : 4722366482869645 * 2 ^ (1074 - 72) < maxF := lt_maxF (by decide) (by decide) (by decide)
  unfold cLo; omega

namespace XF

theorem le_refl (a : XF) : le a a = true := by
  cases a with
  | fin k => simp [le]
  | inf n => cases n <;> simp [le]

theorem le_trans {a b c : XF} (h1 : le a b = true) (h2 : le b c = true) : le a c = true := by
  cases a with
  | fin x => cases b with
    | fin y => cases c with
      | fin z => simp [le] at *; omega
      | inf n => cases n <;> simp [le] at *
    | inf m => cases m <;> cases c with
      | fin z => simp [le] at *
      | inf n => cases n <;> simp [le] at *
  | inf l => cases l <;> cases b with
    | fin y => cases c with
      | fin z => simp [le] at *
      | inf n => cases n <;> simp [le] at *
    | inf m => cases m <;> cases c with
      | fin z => simp [le] at *
      | inf n => cases n <;> simp [le] at *

theorem le_total (a b : XF) : le a b = true ∨ le b a = true := by
  cases a with
  | fin x => cases b with
    | fin y => simp [le]; omega
    | inf n => cases n <;> simp [le]
  | inf m => cases m <;> cases b with
    | fin y => simp [le]
    | inf n => cases n <;> simp [le]

theorem le_of_lt {a b : XF} (h : lt a b = true) : le a b = true := by
  simp only [lt, Bool.not_eq_eq_eq_not, Bool.not_true] at h
  rcases le_total a b with h' | h'
  · exact h'
  · rw [h] at h'; cases h'

theorem le_of_not_lt {a b : XF} (h : lt a b = false) : le b a = true := by
  simpa [lt] using h

theorem min_le_left (a b : XF) : le (min a b) a = true := by
  unfold min; split
  · rename_i h; exact le_of_lt h
  · exact le_refl a

theorem min_le_right (a b : XF) : le (min a b) b = true := by
  unfold min; split
  · exact le_refl b
  · rename_i h; exact le_of_not_lt (by simpa using h)

theorem le_max_left (a b : XF) : le a (max a b) = true := by
  unfold max; split
  · rename_i h; exact le_of_lt h
  · exact le_refl a

theorem le_max_right (a b : XF) : le b (max a b) = true := by
  unfold max; split
  · exact le_refl b
  · rename_i h; exact le_of_not_lt (by simpa using h)

theorem lt_fin {a b : Int} : lt (.fin a) (.fin b) = decide (a < b) := by
  simp only [lt, le]
  by_cases h : a < b <;> simp [h] <;> omega

theorem le_fin {a b : Int} : le (.fin a) (.fin b) = decide (a ≤ b) := by
  simp [le]

theorem lt_irrefl (a : XF) : lt a a = false := by simp [lt, le_refl]

theorem lt_of_lt_of_le {a b c : XF} (h1 : lt a b = true) (h2 : le b c = true) : lt a c = true := by
  cases hca : le c a with
  | false => simp [lt, hca]
  | true =>
    have := le_trans h2 hca
    simp [lt, this] at h1

theorem lt_of_le_of_lt {a b c : XF} (h1 : le a b = true) (h2 : lt b c = true) : lt a c = true := by
  cases hca : le c a with
  | false => simp [lt, hca]
  | true =>
    have := le_trans hca h1
    simp [lt, this] at h2

/-- Both ends finite, or nothing strictly between them to draw: `random.uniform` is never called
with an infinite end. -/
def okPair (lo hi : XF) : Bool :=
  !(lt lo hi) || match lo, hi with
    | .fin _, .fin _ => true
    | _, _ => false

end XF

/-- `math.nextafter(x, inf)` moves strictly upwards, except at `+inf`. -/
theorem nextUpX_gt (x : XF) (h : x ≠ .inf false) : XF.lt x (nextUpX x) = true := by
  cases x with
  | fin k =>
    simp only [nextUpX]
    split
    · simp [XF.lt, XF.le]
    · have := nextUp_gt k
      simp [XF.lt, XF.le]; omega
  | inf n =>
    cases n
    · exact absurd rfl h
    · simp [nextUpX, XF.lt, XF.le]

theorem nextDownX_lt (x : XF) (h : x ≠ .inf true) : XF.lt (nextDownX x) x = true := by
  cases x with
  | fin k =>
    have := nextUp_gt (-k)
    by_cases hk : maxF ≤ -k
    · simp [nextDownX, XF.neg, nextUpX, hk, XF.lt, XF.le]
    · simp [nextDownX, XF.neg, nextUpX, hk, XF.lt, XF.le]; omega
  | inf n =>
    cases n
    · simp [nextDownX, XF.neg, nextUpX, XF.lt, XF.le]
    · exact absurd rfl h

/-- Inside the finite range the extended `nextafter` is the finite one. -/
theorem nextUpX_fin {k : Int} (h : k < maxF) : nextUpX (.fin k) = .fin (nextUp k) := by
  simp only [nextUpX]; split
  · omega
  · rfl

theorem nextDownX_fin {k : Int} (h : -maxF < k) : nextDownX (.fin k) = .fin (nextDown k) := by
  have hk : ¬ maxF ≤ -k := by omega
  simp [nextDownX, XF.neg, nextUpX, hk, nextDown]

/-- At the largest double `math.nextafter` leaves the finite range. -/
theorem nextUpX_maxF : nextUpX (.fin maxF) = .inf false := by simp [nextUpX]
theorem nextDownX_neg_maxF : nextDownX (.fin (-maxF)) = .inf true := by simp [nextDownX, XF.neg, nextUpX]

/-! ### the bounds `random_floats` / `random_ints` work with after the fixes -/

/-- fixes/gen-float-defaults.diff + gen-float-overflow.diff: the derived bound never crosses the
given one — at every magnitude, the infinities included. -/
theorem floatsFrom_ordered (lower upper : Option XF)
    (h : ∀ l u, lower = some l → upper = some u → XF.le l u = true) :
    ∃ lo hi, floatsFrom lower upper = .floats lo hi 0 ∧ XF.le lo hi = true
      ∧ (∀ l, lower = some l → lo = l) ∧ (∀ u, upper = some u → hi = u) := by
  cases lower <;> cases upper <;> simp only [floatsFrom]
  · exact ⟨_, _, rfl, XF.le_max_left _ _, by simp, by simp⟩
  · rename_i u
    exact ⟨_, _, rfl, XF.min_le_left _ _, by simp, by simp⟩
  · rename_i l
    exact ⟨_, _, rfl, XF.le_max_left _ _, by simp, by simp⟩
  · rename_i l u
    exact ⟨_, _, rfl, h l u rfl rfl, by simp, by simp⟩

theorem min_fin_maxF (a : XF) (h : a ≠ .inf true) : ∃ k, XF.min a (.fin maxF) = .fin k := by
  cases a with
  | fin x => unfold XF.min; split <;> exact ⟨_, rfl⟩
  | inf n =>
    cases n
    · exact ⟨maxF, by simp [XF.min, XF.lt, XF.le]⟩
    · exact absurd rfl h

theorem max_fin_neg_maxF (a : XF) (h : a ≠ .inf false) : ∃ k, XF.max a (.fin (-maxF)) = .fin k := by
  cases a with
  | fin x => unfold XF.max; split <;> exact ⟨_, rfl⟩
  | inf n =>
    cases n
    · exact absurd rfl h
    · exact ⟨-maxF, by simp [XF.max, XF.lt, XF.le]⟩

theorem max_cHi_ne (a : XF) : XF.max (.fin cHi) a ≠ .inf true := by
  cases a with
  | fin x => unfold XF.max; split <;> simp
  | inf n => cases n <;> simp [XF.max, XF.lt, XF.le]

theorem min_cLo_ne (a : XF) : XF.min (.fin cLo) a ≠ .inf false := by
  cases a with
  | fin x => unfold XF.min; split <;> simp
  | inf n => cases n <;> simp [XF.min, XF.lt, XF.le]

/-- fixes/gen-float-overflow.diff: `random.uniform` is never asked for a draw with an infinite end:
with one bound given, not `-inf` as a lower and not `+inf` as an upper bound (which is what the
comparison clauses pass for a finite constant), the resolved bounds are both finite or equal. -/
theorem floatsFrom_okPair (lower upper : Option XF)
    (h0 : lower = Option.none ∨ upper = Option.none)
    (hl : lower ≠ some (.inf true)) (hu : upper ≠ some (.inf false)) :
    ∃ lo hi, floatsFrom lower upper = .floats lo hi 0 ∧ XF.okPair lo hi = true := by
  cases lower with
  | none =>
    cases upper with
    | none =>
      obtain ⟨k, hk⟩ := min_fin_maxF (XF.max (.fin cHi) (XF.dbl (.fin cLo))) (max_cHi_ne _)
      refine ⟨_, _, rfl, ?_⟩
      simp only [hk]
      unfold XF.max; split <;> simp [XF.okPair]
    | some u =>
      obtain ⟨k, hk⟩ := max_fin_neg_maxF (XF.min (.fin cLo) u.dbl) (min_cLo_ne _)
      refine ⟨_, _, rfl, ?_⟩
      simp only [hk]
      cases u with
      | fin x => unfold XF.min; split <;> simp [XF.okPair]
      | inf n =>
        cases n
        · exact absurd rfl hu
        · simp [XF.min, XF.lt, XF.le, XF.okPair]
  | some l =>
    cases upper with
    | some u => rcases h0 with h0 | h0 <;> cases h0
    | none =>
      simp only [floatsFrom]
      obtain ⟨k, hk⟩ := min_fin_maxF (XF.max (.fin cHi) l.dbl) (max_cHi_ne _)
      refine ⟨_, _, rfl, ?_⟩
      simp only [hk]
      cases l with
      | fin x => unfold XF.max; split <;> simp [XF.okPair]
      | inf n =>
        cases n
        · simp [XF.max, XF.lt, XF.le, XF.okPair]
        · exact absurd rfl hl

/-- fixes/gen-int-windows.diff: the centre lies in `[lower, upper]`. -/
theorem center_ge (lo hi : Option Int) (h : emptyRange lo hi = false) : ∀ l, lo = some l → l ≤ center lo hi := by
  intro l hl
  subst hl
  cases hi <;> simp [center, emptyRange] at * <;> (repeat' split) <;> omega

theorem center_le (lo hi : Option Int) (h : emptyRange lo hi = false) : ∀ u, hi = some u → center lo hi ≤ u := by
  intro u hu
  subst hu
  cases lo <;> simp [center, emptyRange] at * <;> (repeat' split) <;> omega

/-- Every window contains the centre: it is never empty. -/
theorem window_nonempty (lo hi : Option Int) (h : emptyRange lo hi = false) (limit : Int) (hl : 0 ≤ limit) :
    windowLow lo (center lo hi) limit ≤ windowHigh hi (center lo hi) limit := by
  have h1 := center_ge lo hi h
  have h2 := center_le lo hi h
  cases lo <;> cases hi <;> simp only [windowLow, windowHigh]
  · omega
  · rename_i u; have := h2 u rfl; omega
  · rename_i l; have := h1 l rfl; omega
  · rename_i l u; have := h1 l rfl; have := h2 u rfl; omega

theorem windowLow_ge (lo : Option Int) (c limit : Int) : ∀ l, lo = some l → l ≤ windowLow lo c limit := by
  intro l hl; subst hl; simp only [windowLow]; omega

theorem windowHigh_le (hi : Option Int) (c limit : Int) : ∀ u, hi = some u → windowHigh hi c limit ≤ u := by
  intro u hu; subst hu; simp only [windowHigh]; omega

/-! ### membership facts -/

theorem pick_mem {vals : List GVal} (h : vals ≠ []) (i : Nat) : pick vals i ∈ vals := by
  unfold pick
  cases hg : vals[i]? with
  | some v => simp only [Option.getD_some]; exact List.mem_of_getElem? hg
  | none =>
    cases vals with
    | nil => exact absurd rfl h
    | cons a as => simp

theorem comb_mem {vals : List GVal} (h : vals ≠ []) (r : Nat) (t : Tape) :
    ∀ x ∈ (comb vals r t).1, x ∈ vals := by
  intro x hx
  simp only [comb, List.mem_map] at hx
  obtain ⟨i, _, rfl⟩ := hx
  exact pick_mem h i

theorem drawIdx_length (r n : Nat) (t : Tape) : (drawIdx r n t).1.length = r := by
  induction r generalizing t with
  | zero => simp [drawIdx]
  | succ r ih => simp [drawIdx, ih]

theorem insertNat_length (x : Nat) (xs : List Nat) : (insertNat x xs).length = xs.length + 1 := by
  induction xs with
  | nil => simp [insertNat]
  | cons y ys ih => simp only [insertNat]; split <;> simp [ih]

theorem sortNat_length (xs : List Nat) : (sortNat xs).length = xs.length := by
  induction xs with
  | nil => simp [sortNat]
  | cons y ys ih => simp [sortNat, insertNat_length, ih]

theorem comb_length (vals : List GVal) (r : Nat) (t : Tape) : (comb vals r t).1.length = r := by
  simp [comb, sortNat_length, drawIdx_length]

theorem comb_ne_nil (vals : List GVal) {r : Nat} (h : 0 < r) (t : Tape) : (comb vals r t).1 ≠ [] := by
  intro hc
  have := comb_length vals r t
  rw [hc] at this
  simp at this
  omega

theorem mem_dedup {x : GVal} {xs : List GVal} (h : x ∈ dedup xs) : x ∈ xs := by
  induction xs with
  | nil => simp [dedup] at h
  | cons a as ih =>
    simp only [dedup, List.mem_cons, List.mem_filter] at h
    rcases h with h | ⟨h, _⟩
    · simp [h]
    · simp [ih h]

theorem dedup_ne_nil {xs : List GVal} (h : xs ≠ []) : dedup xs ≠ [] := by
  cases xs with
  | nil => exact absurd rfl h
  | cons a as => simp [dedup]

theorem mem_insertKey {x y : GVal} {ys : List GVal} (h : x ∈ insertKey y ys) : x = y ∨ x ∈ ys := by
  induction ys with
  | nil => simp [insertKey] at h; exact Or.inl h
  | cons a as ih =>
    simp only [insertKey] at h
    split at h
    · simp only [List.mem_cons] at h ⊢; exact h
    · simp only [List.mem_cons] at h ⊢
      rcases h with h | h
      · exact Or.inr (Or.inl h)
      · rcases ih h with h | h
        · exact Or.inl h
        · exact Or.inr (Or.inr h)

theorem mem_sortKey {x : GVal} {xs : List GVal} (h : x ∈ sortKey xs) : x ∈ xs := by
  induction xs with
  | nil => simp [sortKey] at h
  | cons a as ih =>
    simp only [sortKey] at h
    rcases mem_insertKey h with h | h
    · simp [h]
    · simp [ih h]

theorem mkSet_ok {xs : List GVal} {s : GVal} (h : mkSet xs = .ok s) : s = .set (dedup xs) := by
  unfold mkSet at h
  split at h
  · cases h; rfl
  · cases h

/-! ### `take` -/

/-- What `takeWith` returns came out of the generator, if every step is sound for a
downward-closed family of "possible outputs". -/
theorem takeWith_mem (step : G → Tape → Res) (O : G → GVal → Prop)
    (hstep : ∀ g t v g' t', step g t = .yield v g' t' → O g v ∧ ∀ w, O g' w → O g w) :
    ∀ n g t vs t', takeWith step n g t = .ok vs t' → ∀ x ∈ vs, O g x := by
  intro n
  induction n with
  | zero => intro g t vs t' h x hx; simp [takeWith] at h; rw [h.1] at hx; cases hx
  | succ n ih =>
    intro g t vs t' h x hx
    simp only [takeWith] at h
    split at h
    · rename_i v g1 t1 hs
      obtain ⟨hv, hmono⟩ := hstep _ _ _ _ _ hs
      split at h
      · rename_i vs' t'' hrec
        cases h
        simp only [List.mem_cons] at hx
        rcases hx with rfl | hx
        · exact hv
        · exact hmono _ (ih _ _ _ _ hrec x hx)
      · rename_i hne
        exact absurd h (by intro h'; exact hne _ _ h')
    · cases h; cases hx
    · cases h
    · cases h

end Gen
end PyPred
