/-
Basic facts about the pieces of M6 (`Model/Gen.lean`): the random source answers inside the
requested range, `math.nextafter` moves strictly, sampling with replacement only returns
members of the pool, `set(...)` / sorting keep membership.
-/
import PyPred.Model.Gen

namespace PyPred
namespace Gen

open GVal

/-! ### clamp: the contract of `random.randint` / `random.uniform` / `randrange` -/

theorem clamp_ge {r lo hi : Int} (_h : lo ≤ hi) : lo ≤ clamp r lo hi := by
  unfold clamp; omega

theorem clamp_le {r lo hi : Int} (h : lo ≤ hi) : clamp r lo hi ≤ hi := by
  unfold clamp; omega

/-- Every valid answer is the answer to some raw number (itself). -/
theorem clamp_of_mem {a lo hi : Int} (h1 : lo ≤ a) (h2 : a ≤ hi) : clamp a lo hi = a := by
  unfold clamp; omega

theorem randint_ge (t : Tape) {lo hi : Int} (h : lo ≤ hi) : lo ≤ (t.randint lo hi).1 := by
  simp only [Tape.randint]; exact clamp_ge h

theorem randint_le (t : Tape) {lo hi : Int} (h : lo ≤ hi) : (t.randint lo hi).1 ≤ hi := by
  simp only [Tape.randint]; exact clamp_le h

theorem uniform_ge (t : Tape) {lo hi : Int} (h : lo ≤ hi) : lo ≤ (t.uniform lo hi).1 := by
  simp only [Tape.uniform]; exact clamp_ge h

theorem uniform_le (t : Tape) {lo hi : Int} (h : lo ≤ hi) : (t.uniform lo hi).1 ≤ hi := by
  simp only [Tape.uniform]; exact clamp_le h

theorem randrange_lt (t : Tape) {n : Nat} (h : 0 < n) : (t.randrange n).1 < n := by
  simp only [Tape.randrange]
  have h1 : (0 : Int) ≤ (n : Int) - 1 := by omega
  have := clamp_le (r := (t.note .randrange 0 ((n : Int) - 1)).raw.1) h1
  have := clamp_ge (r := (t.note .randrange 0 ((n : Int) - 1)).raw.1) h1
  omega

/-! ### `math.nextafter` -/

theorem two_pow_pos (e : Nat) : 0 < 2 ^ e := Nat.pow_pos (by decide)

theorem nextUpNat_gt (m : Nat) : m < nextUpNat m := by
  unfold nextUpNat
  have := two_pow_pos (Nat.log2 m - 52)
  omega

theorem nextDownNat_lt {m : Nat} (h : 0 < m) : nextDownNat m < m := by
  unfold nextDownNat
  have h1 := two_pow_pos (Nat.log2 m - 53)
  have h2 := two_pow_pos (Nat.log2 m - 52)
  simp only
  split <;> omega

theorem nextUp_gt (k : Int) : k < nextUp k := by
  unfold nextUp
  split
  · have := nextUpNat_gt k.toNat
    omega
  · have := nextDownNat_lt (m := (-k).toNat) (by omega)
    omega

theorem nextDown_lt (k : Int) : nextDown k < k := by
  unfold nextDown
  have := nextUp_gt (-k)
  omega

theorem scale_pos : 0 < scale := by unfold scale; exact Int.pow_pos (by decide)

theorem cLo_neg : cLo < 0 := by
  unfold cLo
  have : (0 : Int) < 4722366482869645 * 2 ^ (1074 - 72) := Int.mul_pos (by decide) (Int.pow_pos (by decide))
  omega

theorem cHi_pos : 0 < cHi := by
  unfold cHi; exact Int.mul_pos (by decide) (Int.pow_pos (by decide))

theorem c314_pos : 0 < c314 := by
  unfold c314; exact Int.mul_pos (by decide) (Int.pow_pos (by decide))

/-! ### the bounds `random_floats` / `random_ints` work with after the fixes -/

/-- fixes/gen-float-defaults.diff: the derived bound never crosses the given one. -/
theorem floatsFrom_ordered (lower upper : Option Int)
    (h : ∀ l u, lower = some l → upper = some u → l ≤ u) :
    ∃ lo hi, floatsFrom lower upper = .floats lo hi 0 ∧ lo ≤ hi
      ∧ (∀ l, lower = some l → lo = l) ∧ (∀ u, upper = some u → hi = u) := by
  have hlo := cLo_neg
  have hhi := cHi_pos
  cases lower <;> cases upper <;> simp only [floatsFrom]
  · exact ⟨_, _, rfl, by omega, by simp, by simp⟩
  · rename_i u
    exact ⟨_, _, rfl, by omega, by simp, by simp⟩
  · rename_i l
    exact ⟨_, _, rfl, by omega, by simp, by simp⟩
  · rename_i l u
    exact ⟨_, _, rfl, h l u rfl rfl, by simp, by simp⟩

/-- fixes/gen-int-windows.diff: the centre lies in `[lower, upper]`. -/
theorem center_ge (lo hi : Option Int) (h : emptyRange lo hi = false) : ∀ l, lo = some l → l ≤ center lo hi := by
  intro l hl
  subst hl
  cases hi <;> simp [center, emptyRange] at * <;> (repeat' split) <;> omega

theorem center_le (lo hi : Option Int) (h : emptyRange lo hi = false) : ∀ u, hi = some u → center lo hi ≤ u := by
  intro u hu
  subst hu
  cases lo <;> simp [center, emptyRange] at * <;> (repeat' split) <;> omega

/-- Every window contains the centre: it is never empty. -/
theorem window_nonempty (lo hi : Option Int) (h : emptyRange lo hi = false) (limit : Int) (hl : 0 ≤ limit) :
    windowLow lo (center lo hi) limit ≤ windowHigh hi (center lo hi) limit := by
  have h1 := center_ge lo hi h
  have h2 := center_le lo hi h
  cases lo <;> cases hi <;> simp only [windowLow, windowHigh]
  · omega
  · rename_i u; have := h2 u rfl; omega
  · rename_i l; have := h1 l rfl; omega
  · rename_i l u; have := h1 l rfl; have := h2 u rfl; omega

theorem windowLow_ge (lo : Option Int) (c limit : Int) : ∀ l, lo = some l → l ≤ windowLow lo c limit := by
  intro l hl; subst hl; simp only [windowLow]; omega

theorem windowHigh_le (hi : Option Int) (c limit : Int) : ∀ u, hi = some u → windowHigh hi c limit ≤ u := by
  intro u hu; subst hu; simp only [windowHigh]; omega

/-! ### membership facts -/

theorem pick_mem {vals : List GVal} (h : vals ≠ []) (i : Nat) : pick vals i ∈ vals := by
  unfold pick
  cases hg : vals[i]? with
  | some v => simp only [Option.getD_some]; exact List.mem_of_getElem? hg
  | none =>
    cases vals with
    | nil => exact absurd rfl h
    | cons a as => simp

theorem comb_mem {vals : List GVal} (h : vals ≠ []) (r : Nat) (t : Tape) :
    ∀ x ∈ (comb vals r t).1, x ∈ vals := by
  intro x hx
  simp only [comb, List.mem_map] at hx
  obtain ⟨i, _, rfl⟩ := hx
  exact pick_mem h i

theorem drawIdx_length (r n : Nat) (t : Tape) : (drawIdx r n t).1.length = r := by
  induction r generalizing t with
  | zero => simp [drawIdx]
  | succ r ih => simp [drawIdx, ih]

theorem insertNat_length (x : Nat) (xs : List Nat) : (insertNat x xs).length = xs.length + 1 := by
  induction xs with
  | nil => simp [insertNat]
  | cons y ys ih => simp only [insertNat]; split <;> simp [ih]

theorem sortNat_length (xs : List Nat) : (sortNat xs).length = xs.length := by
  induction xs with
  | nil => simp [sortNat]
  | cons y ys ih => simp [sortNat, insertNat_length, ih]

theorem comb_length (vals : List GVal) (r : Nat) (t : Tape) : (comb vals r t).1.length = r := by
  simp [comb, sortNat_length, drawIdx_length]

theorem comb_ne_nil (vals : List GVal) {r : Nat} (h : 0 < r) (t : Tape) : (comb vals r t).1 ≠ [] := by
  intro hc
  have := comb_length vals r t
  rw [hc] at this
  simp at this
  omega

theorem mem_dedup {x : GVal} {xs : List GVal} (h : x ∈ dedup xs) : x ∈ xs := by
  induction xs with
  | nil => simp [dedup] at h
  | cons a as ih =>
    simp only [dedup, List.mem_cons, List.mem_filter] at h
    rcases h with h | ⟨h, _⟩
    · simp [h]
    · simp [ih h]

theorem dedup_ne_nil {xs : List GVal} (h : xs ≠ []) : dedup xs ≠ [] := by
  cases xs with
  | nil => exact absurd rfl h
  | cons a as => simp [dedup]

theorem mem_insertKey {x y : GVal} {ys : List GVal} (h : x ∈ insertKey y ys) : x = y ∨ x ∈ ys := by
  induction ys with
  | nil => simp [insertKey] at h; exact Or.inl h
  | cons a as ih =>
    simp only [insertKey] at h
    split at h
    · simp only [List.mem_cons] at h ⊢; exact h
    · simp only [List.mem_cons] at h ⊢
      rcases h with h | h
      · exact Or.inr (Or.inl h)
      · rcases ih h with h | h
        · exact Or.inl h
        · exact Or.inr (Or.inr h)

theorem mem_sortKey {x : GVal} {xs : List GVal} (h : x ∈ sortKey xs) : x ∈ xs := by
  induction xs with
  | nil => simp [sortKey] at h
  | cons a as ih =>
    simp only [sortKey] at h
    rcases mem_insertKey h with h | h
    · simp [h]
    · simp [ih h]

theorem mkSet_ok {xs : List GVal} {s : GVal} (h : mkSet xs = .ok s) : s = .set (dedup xs) := by
  unfold mkSet at h
  split at h
  · cases h; rfl
  · cases h

/-! ### `take` -/

/-- What `takeWith` returns came out of the generator, if every step is sound for a
downward-closed family of "possible outputs". -/
theorem takeWith_mem (step : G → Tape → Res) (O : G → GVal → Prop)
    (hstep : ∀ g t v g' t', step g t = .yield v g' t' → O g v ∧ ∀ w, O g' w → O g w) :
    ∀ n g t vs t', takeWith step n g t = .ok vs t' → ∀ x ∈ vs, O g x := by
  intro n
  induction n with
  | zero => intro g t vs t' h x hx; simp [takeWith] at h; rw [h.1] at hx; cases hx
  | succ n ih =>
    intro g t vs t' h x hx
    simp only [takeWith] at h
    split at h
    · rename_i v g1 t1 hs
      obtain ⟨hv, hmono⟩ := hstep _ _ _ _ _ hs
      split at h
      · rename_i vs' t'' hrec
        cases h
        simp only [List.mem_cons] at hx
        rcases hx with rfl | hx
        · exact hv
        · exact hmono _ (ih _ _ _ _ hrec x hx)
      · rename_i hne
        exact absurd h (by intro h'; exact hne _ _ h')
    · cases h; cases hx
    · cases h
    · cases h

end Gen
end PyPred
