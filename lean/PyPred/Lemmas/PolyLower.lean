/-
A quadratic lower bound (C12): the family `s_0 = all f_0`, `s_{k+1} = all f_{k+1} & all s_k` (AND14 at every
level) costs exactly `3 k² + 10 k + 2` invocations in every configuration, for `w = 4 k + 2`.
-/
import PyPred.Lemmas.TerminatesCost

set_option linter.unusedSectionVars false
set_option linter.unusedVariables false
set_option linter.unusedSimpArgs false

namespace PyPred
variable {V : Type} [DecidableEq V] [LT V] [LE V] [DecidableLT V] [DecidableLE V]

/-- Body of the optimised member: `b_0 = f_0`, `b_{k+1} = f_{k+1} & all b_k`. -/
def lbBody : Nat → Pred V
  | 0 => .fn 0
  | k + 1 => .and (.fn (k + 1)) (.all (lbBody k))

/-- The family. -/
def lbFam : Nat → Pred V
  | 0 => .all (.fn 0)
  | k + 1 => .and (.all (.fn (k + 1))) (.all (lbFam k))

/-- `n` markers. -/
def marks (n : Nat) : List Quirk := List.replicate n Quirk.anyTrue

theorem optK_succ (cfg : Cfg) (fnc : Nat → V → Bool) (n : Nat) (p : Pred V) :
    optimizeK cfg fnc (n + 1) p = tick (step cfg fnc (optimizeK cfg fnc n) p) := rfl

theorem optK_fn (cfg : Cfg) (fnc : Nat → V → Bool) (n : Nat) (j : Nat) :
    optimizeK cfg fnc (n + 1) (.fn j : Pred V) = some (.fn j, marks 1) := by
  simp [optK_succ, step, tick, ret, marks]

theorem marks_add (a b : Nat) : marks a ++ marks b = marks (a + b) := by
  simp [marks, List.replicate_append_replicate]

theorem marks_cons (a : Nat) : Quirk.anyTrue :: marks a = marks (a + 1) := by
  simp [marks, List.replicate_succ]

/-- Re-optimising the optimised body `f_j & all b_k` (given the cost of `all b_k`). -/
theorem optK_body_step (cfg : Cfg) (fnc : Nat → V → Bool) (n j c : Nat) (b : Pred V)
    (h : optimizeK cfg fnc (n + 1) (.all b) = some (.all b, marks c)) :
    optimizeK cfg fnc (n + 2) (.and (.fn j) (.all b)) = some (.and (.fn j) (.all b), marks (c + 2)) := by
  rw [show n + 2 = (n + 1) + 1 from rfl, optK_succ]
  simp [step, stepAnd, andPre, orElse, Pred.isOr, negate, Pred.beq, andPhase2, optK_fn, h, bindR, andRulesA,
    andRulesB, implies, containsNegAnd, tick, ret, marks_add, marks_cons]
  congr 1; omega

theorem optK_all_fn (cfg : Cfg) (fnc : Nat → V → Bool) (n j : Nat) :
    optimizeK cfg fnc (n + 2) (.all (.fn j) : Pred V) = some (.all (.fn j), marks 2) := by
  rw [show n + 2 = (n + 1) + 1 from rfl, optK_succ]
  simp [step, stepAll, optK_fn, bindR, allPost, tick, ret, marks_add, marks_cons]

/-- Re-optimising an optimised member: a fixed point, `3 k + 2` invocations. -/
theorem optK_opt (cfg : Cfg) (fnc : Nat → V → Bool) (k n : Nat) :
    optimizeK cfg fnc (n + 2 * k + 2) (.all (lbBody k) : Pred V) = some (.all (lbBody k), marks (3 * k + 2)) := by
  induction k generalizing n with
  | zero => exact optK_all_fn cfg fnc n 0
  | succ k ih =>
    have hb := optK_body_step cfg fnc (n + 2 * k + 1) (k + 1) (3 * k + 2) (lbBody k) (ih n)
    rw [show n + 2 * (k + 1) + 2 = (n + 2 * k + 1 + 2) + 1 by omega, optK_succ]
    simp only [lbBody] at hb ⊢
    simp [step, stepAll, hb, bindR, allPost, tick, ret, marks_add, marks_cons]
    congr 1

theorem optK_opt' (cfg : Cfg) (fnc : Nat → V → Bool) (k : Nat) {N : Nat} (h : 2 * k + 2 ≤ N) :
    optimizeK cfg fnc N (.all (lbBody k) : Pred V) = some (.all (lbBody k), marks (3 * k + 2)) := by
  have := optK_opt cfg fnc k (N - (2 * k + 2))
  rwa [show N - (2 * k + 2) + 2 * k + 2 = N by omega] at this

theorem optK_body' (cfg : Cfg) (fnc : Nat → V → Bool) (k j : Nat) {N : Nat} (h : 2 * k + 3 ≤ N) :
    optimizeK cfg fnc N (.and (.fn j) (.all (lbBody k)) : Pred V) =
      some (.and (.fn j) (.all (lbBody k)), marks (3 * k + 4)) := by
  have := optK_body_step cfg fnc (N - 2) j (3 * k + 2) (lbBody k) (optK_opt' cfg fnc k (by omega))
  rwa [show N - 2 + 2 = N by omega] at this

/-- Invocations on the `k`-th member. -/
def lbCost (k : Nat) : Nat := 3 * k * k + 10 * k + 2

/-- **Exact cost of the family.** -/
theorem optK_fam (cfg : Cfg) (fnc : Nat → V → Bool) (k : Nat) {N : Nat} (h : 2 * k + 3 ≤ N) :
    optimizeK cfg fnc N (lbFam k : Pred V) = some (.all (lbBody k), marks (lbCost k)) := by
  induction k generalizing N with
  | zero =>
    have := optK_all_fn cfg fnc (N - 2) 0
    rwa [show N - 2 + 2 = N by omega] at this
  | succ k ih =>
    obtain ⟨N, rfl⟩ : ∃ N', N = N' + 1 := ⟨N - 1, by omega⟩
    have h1 : optimizeK cfg fnc N (.all (.fn (k + 1)) : Pred V) = some (.all (.fn (k + 1)), marks 2) := by
      have := optK_all_fn cfg fnc (N - 2) (k + 1)
      rwa [show N - 2 + 2 = N by omega] at this
    have h2 : optimizeK cfg fnc N (.all (lbFam k) : Pred V) = some (.all (.all (lbBody k)), marks (lbCost k + 1)) := by
      obtain ⟨N', rfl⟩ : ∃ N', N = N' + 1 := ⟨N - 1, by omega⟩
      rw [optK_succ]
      simp [step, stepAll, ih (N := N') (by omega), bindR, allPost, tick, ret, marks_add, marks_cons]
    have h3 := optK_body' cfg fnc k (k + 1) (N := N) (by omega)
    have h4 := optK_opt' cfg fnc (k + 1) (N := N) (by omega)
    simp only [lbBody] at h4
    rw [optK_succ]
    simp only [lbFam, lbBody]
    simp [step, stepAnd, andPre, orElse, Pred.isOr, negate, Pred.beq, andPhase2, h1, h2, h3, h4, bindR, andRulesA,
      tick, ret, marks_add, marks_cons]
    congr 1
    simp only [lbCost]
    have : 3 * (k + 1) * (k + 1) = 3 * k * k + 6 * k + 3 := by
      simp only [Nat.mul_add, Nat.add_mul, Nat.mul_one, Nat.one_mul]; omega
    omega

/-! ### The plain run on the family fires no quirk arm (so every entry of the ticked trace is an invocation) -/

theorem optT_succ (cfg : Cfg) (fnc : Nat → V → Bool) (n : Nat) (p : Pred V) :
    optimizeT cfg fnc (n + 1) p = step cfg fnc (optimizeT cfg fnc n) p := rfl

theorem optT_fn (cfg : Cfg) (fnc : Nat → V → Bool) (n : Nat) (j : Nat) :
    optimizeT cfg fnc (n + 1) (.fn j : Pred V) = some (.fn j, []) := by
  simp [optT_succ, step, ret]

theorem optT_body_step (cfg : Cfg) (fnc : Nat → V → Bool) (n j : Nat) (b : Pred V)
    (h : optimizeT cfg fnc (n + 1) (.all b) = some (.all b, [])) :
    optimizeT cfg fnc (n + 2) (.and (.fn j) (.all b)) = some (.and (.fn j) (.all b), []) := by
  rw [show n + 2 = (n + 1) + 1 from rfl, optT_succ]
  simp [step, stepAnd, andPre, orElse, Pred.isOr, negate, Pred.beq, andPhase2, optT_fn, h, bindR, andRulesA,
    andRulesB, implies, containsNegAnd, ret]

theorem optT_all_fn (cfg : Cfg) (fnc : Nat → V → Bool) (n j : Nat) :
    optimizeT cfg fnc (n + 2) (.all (.fn j) : Pred V) = some (.all (.fn j), []) := by
  rw [show n + 2 = (n + 1) + 1 from rfl, optT_succ]
  simp [step, stepAll, optT_fn, bindR, allPost, ret]

theorem optT_opt (cfg : Cfg) (fnc : Nat → V → Bool) (k n : Nat) :
    optimizeT cfg fnc (n + 2 * k + 2) (.all (lbBody k) : Pred V) = some (.all (lbBody k), []) := by
  induction k generalizing n with
  | zero => exact optT_all_fn cfg fnc n 0
  | succ k ih =>
    have hb := optT_body_step cfg fnc (n + 2 * k + 1) (k + 1) (lbBody k) (ih n)
    rw [show n + 2 * (k + 1) + 2 = (n + 2 * k + 1 + 2) + 1 by omega, optT_succ]
    simp only [lbBody] at hb ⊢
    simp [step, stepAll, hb, bindR, allPost, ret]

theorem optT_opt' (cfg : Cfg) (fnc : Nat → V → Bool) (k : Nat) {N : Nat} (h : 2 * k + 2 ≤ N) :
    optimizeT cfg fnc N (.all (lbBody k) : Pred V) = some (.all (lbBody k), []) := by
  have := optT_opt cfg fnc k (N - (2 * k + 2))
  rwa [show N - (2 * k + 2) + 2 * k + 2 = N by omega] at this

theorem optT_body' (cfg : Cfg) (fnc : Nat → V → Bool) (k j : Nat) {N : Nat} (h : 2 * k + 3 ≤ N) :
    optimizeT cfg fnc N (.and (.fn j) (.all (lbBody k)) : Pred V) = some (.and (.fn j) (.all (lbBody k)), []) := by
  have := optT_body_step cfg fnc (N - 2) j (lbBody k) (optT_opt' cfg fnc k (by omega))
  rwa [show N - 2 + 2 = N by omega] at this

theorem optT_fam (cfg : Cfg) (fnc : Nat → V → Bool) (k : Nat) {N : Nat} (h : 2 * k + 3 ≤ N) :
    optimizeT cfg fnc N (lbFam k : Pred V) = some (.all (lbBody k), []) := by
  induction k generalizing N with
  | zero =>
    have := optT_all_fn cfg fnc (N - 2) 0
    rwa [show N - 2 + 2 = N by omega] at this
  | succ k ih =>
    obtain ⟨N, rfl⟩ : ∃ N', N = N' + 1 := ⟨N - 1, by omega⟩
    have h1 : optimizeT cfg fnc N (.all (.fn (k + 1)) : Pred V) = some (.all (.fn (k + 1)), []) := by
      have := optT_all_fn cfg fnc (N - 2) (k + 1)
      rwa [show N - 2 + 2 = N by omega] at this
    have h2 : optimizeT cfg fnc N (.all (lbFam k) : Pred V) = some (.all (.all (lbBody k)), []) := by
      obtain ⟨N', rfl⟩ : ∃ N', N = N' + 1 := ⟨N - 1, by omega⟩
      rw [optT_succ]
      simp [step, stepAll, ih (N := N') (by omega), bindR, allPost, ret]
    have h3 := optT_body' cfg fnc k (k + 1) (N := N) (by omega)
    have h4 := optT_opt' cfg fnc (k + 1) (N := N) (by omega)
    simp only [lbBody] at h4
    rw [optT_succ]
    simp only [lbFam, lbBody]
    simp [step, stepAnd, andPre, orElse, Pred.isOr, negate, Pred.beq, andPhase2, h1, h2, h3, h4, bindR, andRulesA, ret]

theorem w_lbFam (k : Nat) : w (lbFam k : Pred V) = 4 * k + 2 := by
  induction k with
  | zero => simp [lbFam, w]
  | succ k ih => simp [lbFam, w, ih]; omega

theorem size_lbFam (k : Nat) : (lbFam k : Pred V).size = 4 * k + 2 := by
  induction k with
  | zero => simp [lbFam, Pred.size]
  | succ k ih => simp [lbFam, Pred.size, ih]; omega

end PyPred
