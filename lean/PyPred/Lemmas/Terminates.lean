/-
Termination of the optimizer model with an explicit depth bound (C12).

`Ans k r Q`: the call `r` answers (is not out of fuel), its predicate satisfies `Q`
and its trace has at most `k` entries (the trace length is what the cost model of
`Lemmas/TerminatesCost.lean` counts; for termination alone ignore `k`).
`Post p o`: the result `o` of optimising `p` is not heavier than `p`, and strictly
lighter when it is a conjunction and `p` is not (the clause that pays for XOR9).
`NiceBelow B p rec`: the oracle `rec` answers, with `Post` and traces of length `≤ B`,
on every term of measure below `μ p`.  One lemma per `step*` function:
`NiceBelow B p rec → Ans (4 * B + 1) (step … rec p) (Post p)`; every recursive call made
by `step` on `p` is justified by `μ t < μ p`, and there are at most four of them.
-/
import PyPred.Lemmas.Weight

set_option linter.unusedSectionVars false
set_option linter.unusedVariables false
set_option linter.unusedSimpArgs false

namespace PyPred
variable {V : Type} [DecidableEq V] [LT V] [LE V] [DecidableLT V] [DecidableLE V]

def Ans (k : Nat) (r : R V) (Q : Pred V → Prop) : Prop :=
  ∃ o tr, r = some (o, tr) ∧ Q o ∧ tr.length ≤ k

theorem Ans.ret {k : Nat} {p : Pred V} {Q : Pred V → Prop} (h : Q p) : Ans k (ret p) Q :=
  ⟨p, [], rfl, h, Nat.zero_le _⟩

theorem Ans.retQ {k : Nat} {q : Quirk} {p : Pred V} {Q : Pred V → Prop} (h : Q p) (hk : 1 ≤ k) :
    Ans k (retQ q p) Q :=
  ⟨p, [q], rfl, h, by simpa using hk⟩

theorem Ans.bind {k1 k2 k : Nat} {r : R V} {f : Pred V → R V} {Q1 Q2 : Pred V → Prop}
    (h1 : Ans k1 r Q1) (h2 : ∀ o, Q1 o → Ans k2 (f o) Q2) (hk : k1 + k2 ≤ k) : Ans k (bindR r f) Q2 := by
  obtain ⟨o, tr, rfl, hq, hl⟩ := h1
  obtain ⟨o2, tr2, h, hq2, hl2⟩ := h2 o hq
  exact ⟨o2, tr ++ tr2, by simp [bindR, h], hq2, by simp; omega⟩

theorem Ans.mono {k k' : Nat} {r : R V} {Q1 Q2 : Pred V → Prop} (h1 : Ans k r Q1) (h2 : ∀ o, Q1 o → Q2 o)
    (hk : k ≤ k') : Ans k' r Q2 := by
  obtain ⟨o, tr, h, hq, hl⟩ := h1
  exact ⟨o, tr, h, h2 o hq, by omega⟩

theorem Ans.weaken {k k' : Nat} {r : R V} {Q : Pred V → Prop} (h1 : Ans k r Q) (hk : k ≤ k') : Ans k' r Q :=
  h1.mono (fun _ h => h) hk

/-- Result `o` of optimising `p`: never heavier; strictly lighter when a conjunction
comes out of a non-conjunction. -/
def Post (p o : Pred V) : Prop :=
  w o ≤ w p ∧ (p.isAnd = false → o.isAnd = true → w o < w p)

def NiceBelow (B : Nat) (p : Pred V) (rec : Pred V → R V) : Prop :=
  ∀ t, μ t < μ p → Ans B (rec t) (Post t)

macro "wsimp" : tactic =>
  `(tactic| ((try simp only [Post] at *); (try simp only [w_optIn, isAnd_optIn, isAnd_optNotIn] at *);
             simp_all [w, Pred.isAnd, Pred.isOr]))

theorem Post.of_le {p o : Pred V} {n : Nat} (h1 : w o ≤ n) (h2 : o.isAnd = true → w o < n) (hn : n ≤ w p) :
    Post p o :=
  ⟨by omega, fun _ h => by have := h2 h; omega⟩

theorem isAnd_false_of_ne {p : Pred V} (h : ∀ a b, p = .and a b → False) : p.isAnd = false := by
  cases p <;> simp_all [Pred.isAnd]

/-! ### all, any, not -/

theorem stepAll_nice {B : Nat} {rec : Pred V → R V} {q : Pred V} (hrec : NiceBelow B (.all q) rec) :
    Ans B (stepAll rec q) (Post (.all q)) := by
  unfold stepAll
  refine Ans.bind (k2 := 0) (hrec q (μ_lt_of_w_lt (by simp [w]))) (fun o ho => Ans.ret ?_) (by omega)
  unfold allPost
  split <;> wsimp <;> omega

theorem stepAny_nice {B : Nat} (cfg : Cfg) {rec : Pred V → R V} {q : Pred V} (hrec : NiceBelow B (.any q) rec) :
    Ans (B + 1) (stepAny cfg rec q) (Post (.any q)) := by
  unfold stepAny
  refine Ans.bind (k2 := 1) (hrec q (μ_lt_of_w_lt (by simp [w]))) (fun o ho => ?_) (by omega)
  split
  · split
    · exact Ans.retQ (by have := w_pos q; wsimp <;> omega) (by omega)
    · exact Ans.ret (by have := w_pos q; wsimp <;> omega)
    · exact Ans.ret (by have := w_pos q; wsimp <;> omega)
  · exact Ans.ret (by have := w_pos q; wsimp <;> omega)
  · exact Ans.ret (by wsimp <;> omega)
  · exact Ans.ret (by wsimp <;> omega)
  · exact Ans.ret (by wsimp)

theorem notPost_post (o : Pred V) :
    w (notPost o) ≤ 1 + w o ∧ ((notPost o).isAnd = true → w (notPost o) < 1 + w o) := by
  unfold notPost
  split
  · rename_i a; have := w_negate a; wsimp; omega
  · rename_i a b
    split
    · have := w_negate a; wsimp; omega
    · split
      · have := w_negate b; wsimp; omega
      · simp [negate, w, Pred.isAnd]
  · rename_i a; have := w_negate a; wsimp; omega
  · rename_i a b
    split
    · have := w_negate a; wsimp; omega
    · split
      · have := w_negate b; wsimp; omega
      · simp [negate, w, Pred.isAnd]
  · split
    · wsimp; omega
    · split <;> wsimp <;> omega
  · exact ⟨by have := w_negate o; omega, fun h => by have := w_negate_of_isAnd o h; omega⟩

theorem stepNot_nice {B : Nat} {rec : Pred V → R V} {q : Pred V} (hrec : NiceBelow B (.not q) rec) :
    Ans B (stepNot rec q) (Post (.not q)) := by
  unfold stepNot
  split
  · rename_i q'
    refine Ans.mono (hrec q' (μ_lt_of_w_lt (by simp [w]; omega))) (fun o ho => ?_) (by omega)
    wsimp; omega
  · refine Ans.bind (k2 := 0) (hrec q (μ_lt_of_w_lt (by simp [w]))) (fun o ho => Ans.ret ?_) (by omega)
    obtain ⟨h1, h2⟩ := notPost_post o
    obtain ⟨h3, h4⟩ := ho
    refine ⟨by simp [w]; omega, fun _ h => ?_⟩
    have := h2 h
    simp [w]; omega

/-! ### and -/

theorem andPre_lt {l r o : Pred V} (h : andPre l r = some o) : w o < w (.and l r) := by
  unfold andPre orElse at h
  split at h
  · split at h
    · rename_i res hres
      split at hres
      · split at hres
        · simp at hres h; subst hres; subst h; simp [w]; omega
        · simp at hres
      · simp at hres
    · split at h
      · split at h
        · simp at h; subst h; simp [w]; omega
        · simp at h
      · simp at h
  · simp at h

theorem andRulesA_le (cfg : Cfg) (fnc : Nat → V → Bool) {l r : Pred V} {res : R V}
    (h : andRulesA cfg fnc l r = some res) : Ans 1 res (fun o => w o ≤ 1 + w l + w r) := by
  unfold andRulesA at h
  split at h
  all_goals (try split at h)
  all_goals (try split at h)
  all_goals (try split at h)
  all_goals (try (simp at h))
  all_goals (try subst h)
  all_goals (first | apply Ans.ret | refine Ans.retQ ?_ (Nat.le_refl _))
  all_goals (first | (simp [w, w_optIn] <;> omega) | (simp [w]; exact Nat.le_trans (w_optNotIn _) (by omega)))

theorem andRulesB_le (node l r : Pred V) : w (andRulesB node l r) ≤ 1 + w l + w r := by
  unfold andRulesB
  repeat' split
  all_goals (try simp [w])
  all_goals omega

theorem andPhase2_nice {B : Nat} (cfg : Cfg) (fnc : Nat → V → Bool) {rec : Pred V → R V} {node l r : Pred V}
    (hrec : ∀ t, w t < 1 + w l + w r → Ans B (rec t) (Post t)) :
    Ans (4 * B + 1) (andPhase2 cfg fnc rec node l r) (fun o => w o ≤ 1 + w l + w r) := by
  unfold andPhase2
  have hl := w_pos l
  have hr := w_pos r
  refine Ans.bind (k2 := 3 * B + 1) (hrec l (by omega)) (fun l' hl' => ?_) (by omega)
  refine Ans.bind (k2 := 2 * B + 1) (hrec r (by omega)) (fun r' hr' => ?_) (by omega)
  split
  · rename_i res hres
    exact Ans.mono (andRulesA_le cfg fnc hres) (fun o ho => by wsimp; omega) (by omega)
  · split
    · rename_i a b _
      refine Ans.bind (k2 := B) (hrec (.and a b) (by wsimp; omega)) (fun x hx => ?_) (by omega)
      refine Ans.mono (hrec (.all x) (by wsimp; omega)) (fun o ho => ?_) (by omega)
      wsimp; omega
    · exact Ans.ret (by have := andRulesB_le node l' r'; wsimp; omega)

theorem stepAnd_nice {B : Nat} (cfg : Cfg) (fnc : Nat → V → Bool) {rec : Pred V → R V} {l r : Pred V}
    (hrec : NiceBelow B (.and l r) rec) : Ans (4 * B + 1) (stepAnd cfg fnc rec l r) (Post (.and l r)) := by
  have hp2 : Ans (4 * B + 1) (andPhase2 cfg fnc rec (.and l r) l r) (Post (.and l r)) :=
    Ans.mono (andPhase2_nice cfg fnc fun t ht => hrec t (μ_lt_of_w_lt (by simp [w]; omega)))
      (fun o ho => by wsimp) (by omega)
  unfold stepAnd
  split
  · rename_i o ho
    exact Ans.ret (by have := andPre_lt ho; wsimp; omega)
  · split
    · exact hp2
    · split
      · rename_i hl hr
        refine Ans.mono (hrec (.and r l) (by simp_all [μ, swapBit, w]; omega)) (fun o ho => ?_) (by omega)
        wsimp; omega
      · split
        · exact Ans.ret (by have := w_pos l; wsimp; omega)
        · exact hp2

/-! ### or -/

theorem orAndAnd_le (l r a b c d : Pred V) (hl : l = .and a b) (hr : r = .and c d) :
    w (orAndAnd l r a b c d) ≤ 1 + w l + w r ∧ (orAndAnd l r a b c d).isAnd = false := by
  subst hl hr
  unfold orAndAnd
  split
  · rename_i o ho
    split at ho
    · split at ho
      · simp at ho; subst ho; simp [w, Pred.isAnd]; omega
      · simp at ho
    · simp at ho
  · split
    · rename_i o ho
      split at ho
      · split at ho
        · simp at ho; subst ho; simp [w, Pred.isAnd]; omega
        · simp at ho
      · simp at ho
    · simp [w, Pred.isAnd]

theorem orRulesA_le {l r o : Pred V} (h : orRulesA l r = some o) :
    w o ≤ 1 + w l + w r ∧ o.isAnd = false := by
  unfold orRulesA at h
  split at h
  all_goals (try split at h)
  all_goals (try split at h)
  all_goals (try (simp at h))
  all_goals (try subst h)
  all_goals (try exact orAndAnd_le _ _ _ _ _ _ rfl rfl)
  all_goals (try simp only [w_optIn, isAnd_optIn, isAnd_optNotIn])
  all_goals (first | (simp [w, Pred.isAnd] <;> omega)
                   | (simp [w, Pred.isAnd]; exact Nat.le_trans (w_optNotIn _) (by omega)))

theorem orRulesB_le (node l r : Pred V) :
    w (orRulesB node l r) ≤ 1 + w l + w r ∧ ((orRulesB node l r).isAnd = true → w (orRulesB node l r) < 1 + w l + w r) := by
  unfold orRulesB
  repeat' split
  all_goals (try simp [w, Pred.isAnd])
  all_goals omega

theorem stepOr_nice {B : Nat} {rec : Pred V → R V} {l r : Pred V}
    (hrec : NiceBelow B (.or l r) rec) : Ans (3 * B) (stepOr rec l r) (Post (.or l r)) := by
  have hrec' : ∀ t, w t < 1 + w l + w r → Ans B (rec t) (Post t) :=
    fun t ht => hrec t (μ_lt_of_w_lt (by simp [w]; omega))
  have hl := w_pos l
  have hr := w_pos r
  unfold stepOr
  split
  · exact Ans.ret (by wsimp; omega)
  · refine Ans.bind (k2 := 2 * B) (hrec' l (by omega)) (fun l' hl' => ?_) (by omega)
    refine Ans.bind (k2 := B) (hrec' r (by omega)) (fun r' hr' => ?_) (by omega)
    split
    · exact Ans.ret (by wsimp; omega)
    · split
      · exact Ans.ret (by wsimp; omega)
      · split
        · rename_i o ho
          exact Ans.ret (by have := orRulesA_le ho; wsimp; omega)
        · split
          · rename_i a b _ _ _
            refine Ans.bind (k2 := 0) (hrec' (.or a b) (by wsimp; omega)) (fun x hx => Ans.ret ?_) (by omega)
            wsimp; omega
          · refine Ans.ret ?_
            obtain ⟨h1, h2⟩ := orRulesB_le (.or l r) l' r'
            refine ⟨by wsimp; omega, fun _ h => ?_⟩
            have := h2 h
            wsimp; omega

/-! ### xor -/

theorem xorNot_lt {l r o : Pred V} (h : xorNot l r = some o) :
    w o < 1 + w l + w r ∧ o.isAnd = false := by
  have hl := w_pos l
  have hr := w_pos r
  unfold xorNot at h
  split at h
  · simp at h; subst h; simp [w, Pred.isAnd]; omega
  · split at h
    · simp at h; subst h; simp [w, Pred.isAnd]; omega
    · simp at h

/-- The guarded arms of XOR8 answer strictly lighter than `xor l (and c other)` (weight
`2 + w l + w c + w other`), never with a conjunction. -/
theorem xorAndGuard_le (cfg : Cfg) {l c other : Pred V} {res : R V}
    (h : xorAndGuard cfg l c other = some res) :
    Ans 1 res (fun o => w o ≤ w l + w c + w other ∧ o.isAnd = false) := by
  unfold xorAndGuard at h
  split at h
  · rename_i q
    have hq := w_pos q
    split at h
    · split at h
      · simp at h; subst h; exact Ans.retQ (by simp [w, Pred.isAnd]; omega) (by omega)
      · simp at h; subst h; exact Ans.ret (by simp [w, Pred.isAnd]; omega)
      · simp at h
    · simp at h
  · simp at h

theorem xorAndDefault_le (cfg : Cfg) (l a b : Pred V) :
    Ans 1 (xorAndDefault cfg l a b)
      (fun o => w o ≤ 2 + w l + w a + w b ∧ (o.isAnd = true → w o < 2 + w l + w a + w b)) := by
  have ha := w_pos a
  have hb := w_pos b
  unfold xorAndDefault
  split
  · exact Ans.retQ (by simp [w, Pred.isAnd]; omega) (by omega)
  · split
    · exact Ans.ret (by simp [w, Pred.isAnd]; omega)
    · split
      · exact Ans.ret (by simp [w, Pred.isAnd]; omega)
      · exact Ans.ret (by simp [w, Pred.isAnd]; omega)
  · exact Ans.ret (by simp [w, Pred.isAnd]; omega)

theorem xorAnd_le (cfg : Cfg) (l a b : Pred V) :
    Ans 1 (xorAnd cfg l a b)
      (fun o => w o ≤ 2 + w l + w a + w b ∧ (o.isAnd = true → w o < 2 + w l + w a + w b)) := by
  unfold xorAnd
  split
  · rename_i res hres
    exact Ans.mono (xorAndGuard_le cfg hres) (fun o ho => by simp_all; omega) (by omega)
  · split
    · rename_i res hres
      exact Ans.mono (xorAndGuard_le cfg hres) (fun o ho => by simp_all; omega) (by omega)
    · exact xorAndDefault_le cfg l a b

theorem xorOrMk_le (cfg : Cfg) {p q : Pred V} {res : R V} (h : xorOrMk cfg p q = some res) :
    Ans 1 res (fun o => w o ≤ 2 + w p + w q) := by
  unfold xorOrMk at h
  split at h
  · simp at h; subst h; exact Ans.retQ (by omega) (by omega)
  · simp at h; subst h; exact Ans.ret (by simp [w]; omega)
  · simp at h

theorem xorOrSide_lt (cfg : Cfg) {x d : Pred V} {res : R V} (h : xorOrSide cfg x d = some res) :
    Ans 1 res (fun o => w o < 1 + w x + w d) := by
  unfold xorOrSide at h
  split at h
  · rename_i a b
    have ha := w_pos a
    have hb := w_pos b
    split at h
    · exact Ans.mono (xorOrMk_le cfg h) (fun o ho => by simp [w]; omega) (by omega)
    · split at h
      · exact Ans.mono (xorOrMk_le cfg h) (fun o ho => by simp [w]; omega) (by omega)
      · simp at h
  · simp at h

theorem xorOrRule_lt (cfg : Cfg) {l r : Pred V} {res : R V} (h : xorOrRule cfg l r = some res) :
    Ans 1 res (fun o => w o < 1 + w l + w r) := by
  unfold xorOrRule orElse at h
  split at h
  · rename_i res' hres
    rw [← hres] at h
    exact xorOrSide_lt cfg h
  · exact Ans.mono (xorOrSide_lt cfg h) (fun o ho => by omega) (by omega)

theorem stepXor_nice {B : Nat} (cfg : Cfg) {rec : Pred V → R V} {l r : Pred V}
    (hrec : NiceBelow B (.xor l r) rec) : Ans (3 * B + 1) (stepXor cfg rec l r) (Post (.xor l r)) := by
  have hrec' : ∀ t, w t < 1 + w l + w r → Ans B (rec t) (Post t) :=
    fun t ht => hrec t (μ_lt_of_w_lt (by simp [w]; omega))
  have hl := w_pos l
  have hr := w_pos r
  unfold stepXor
  split
  · rename_i o ho
    exact Ans.ret (by have := xorNot_lt ho; wsimp; omega)
  · refine Ans.bind (k2 := 2 * B + 1) (hrec' l (by omega)) (fun l' hl' => ?_) (by omega)
    refine Ans.bind (k2 := B + 1) (hrec' r (by omega)) (fun r' hr' => ?_) (by omega)
    have hl1 := w_pos l'
    have hr1 := w_pos r'
    split
    · rename_i o ho
      exact Ans.ret (by have := xorNot_lt ho; wsimp; omega)
    · split
      · exact Ans.ret (by wsimp; omega)
      · exact Ans.ret (by wsimp; omega)
      · refine Ans.mono (hrec' (.not l') (by wsimp; omega)) (fun o ho => ?_) (by omega)
        wsimp; omega
      · refine Ans.mono (hrec' (.not r') (by wsimp; omega)) (fun o ho => ?_) (by omega)
        wsimp; omega
      · split
        · exact Ans.ret (by wsimp; omega)
        · split
          · exact Ans.ret (by wsimp; omega)
          · exact Ans.ret (by wsimp; omega)
          · rename_i a b _ _ _ _
            refine Ans.mono (xorAnd_le cfg l' a b) (fun o ho => ?_) (by omega)
            exact Post.of_le ho.1 ho.2 (by wsimp; omega)
          · rename_i a b _ _ _ _ hnotand
            have hra : r'.isAnd = false := isAnd_false_of_ne hnotand
            have hμ : μ (.xor r' (.and a b)) < μ (.xor l r) := by
              cases hla : l.isAnd
              · have := hl'.2 hla rfl
                exact μ_lt_of_w_lt (by simp [Post, w] at *; omega)
              · simp [Post, w] at hl' hr'
                simp only [μ, swapBit, hla, hra]
                simp [Pred.isAnd, w]; omega
            refine Ans.mono (hrec _ hμ) (fun o ho => ?_) (by omega)
            exact Post.of_le ho.1 (ho.2 rfl) (by wsimp; omega)
          · split
            · rename_i res hres
              refine Ans.mono (xorOrRule_lt cfg hres) (fun o ho => ?_) (by omega)
              wsimp; omega
            · split
              · split
                · exact Ans.ret (by wsimp; omega)
                · split
                  · exact Ans.ret (by wsimp; omega)
                  · exact Ans.ret (by wsimp; omega)
              · exact Ans.ret (by wsimp; omega)

/-! ### dispatcher, iteration -/

/-- One invocation on `p`: given an oracle that is nice below `p`, `step` answers with
`Post`; its trace is at most four oracle traces plus one local entry. -/
theorem step_nice {B : Nat} (cfg : Cfg) (fnc : Nat → V → Bool) {rec : Pred V → R V} {p : Pred V}
    (hrec : NiceBelow B p rec) : Ans (4 * B + 1) (step cfg fnc rec p) (Post p) := by
  unfold step
  split
  · exact (stepAll_nice hrec).weaken (by omega)
  · exact stepAnd_nice cfg fnc hrec
  · exact (stepAny_nice cfg hrec).weaken (by omega)
  · exact (stepNot_nice hrec).weaken (by omega)
  · exact (stepOr_nice hrec).weaken (by omega)
  · exact (stepXor_nice cfg hrec).weaken (by omega)
  · exact Ans.ret (by wsimp)
  · exact Ans.ret (by have := w_optNotIn ‹List V›; wsimp)
  · exact Ans.ret ⟨Nat.le_refl _, fun h1 h2 => by simp [h1] at h2⟩

/-- `callBound n` bounds the trace length of a run of depth `n` when every invocation
adds at most two entries of its own: `callBound (n + 1) = 4 * callBound n + 2`. -/
def callBound : Nat → Nat
  | 0 => 0
  | n + 1 => 4 * callBound n + 2

/-- Fuel `n` answers every term of measure `< n`, with `Post`. -/
theorem optimizeT_nice (cfg : Cfg) (fnc : Nat → V → Bool) (n : Nat) (p : Pred V) (h : μ p < n) :
    Ans (callBound n) (optimizeT cfg fnc n p) (Post p) := by
  induction n generalizing p with
  | zero => omega
  | succ n ih =>
    exact (step_nice cfg fnc fun t ht => ih t (by omega)).weaken (by simp [callBound])

theorem optimizeT_isSome (cfg : Cfg) (fnc : Nat → V → Bool) (p : Pred V) :
    (optimizeT cfg fnc (μ p + 1) p).isSome = true := by
  obtain ⟨o, tr, h, _⟩ := optimizeT_nice cfg fnc (μ p + 1) p (by omega)
  simp [h]

end PyPred
