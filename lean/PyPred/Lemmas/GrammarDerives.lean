/-
The executable `isDerivation` against the textbook definition of a parse tree of a context-free grammar
(`Derives`, an inductive relation that never mentions `wf` / `yield`).
-/
import PyPred.Lemmas.GrammarSound

namespace PyPred
namespace Grammar
open Parser

mutual
/-- `Derives rules s d ts`: `d` is a parse tree with root symbol `s` and frontier `ts` -/
inductive Derives (rules : List Rule) : Sym → DTree → List Token → Prop
  | leaf {T : Term} {f : Bool} {tok : Token} : T.matches tok = true → Derives rules (.t T f) (.leaf tok) [tok]
  | node {r : Rule} {cs : List DTree} {ts : List Token} :
      r ∈ rules → DerivesL rules r.expansion cs ts → Derives rules (.nt r.origin) (.node r cs) ts
/-- the children of a node derive the symbols of the expansion, one after the other -/
inductive DerivesL (rules : List Rule) : List Sym → List DTree → List Token → Prop
  | nil : DerivesL rules [] [] []
  | cons {s : Sym} {ss : List Sym} {c : DTree} {cs : List DTree} {ts ts' : List Token} :
      Derives rules s c ts → DerivesL rules ss cs ts' → DerivesL rules (s :: ss) (c :: cs) (ts ++ ts')
end

theorem derives_wf {rules : List Rule} {s : Sym} {d : DTree} {ts : List Token} (h : Derives rules s d ts) :
    wf rules s d = true ∧ yield d = ts := by
  refine Derives.rec (rules := rules)
    (motive_1 := fun s d ts _ => wf rules s d = true ∧ yield d = ts)
    (motive_2 := fun ss cs ts _ => wfs rules ss cs = true ∧ yields cs = ts)
    ?_ ?_ ?_ ?_ h
  · intro T f tok hm; simp [wf, yield, hm]
  · intro r cs ts hr _ ih; simp [wf, yield, hr, ih.1, ih.2]
  · simp [wfs, yields]
  · intro s ss c cs ts ts' _ _ ih1 ih2; simp [wfs, yields, ih1.1, ih1.2, ih2.1, ih2.2]

theorem wf_derives {rules : List Rule} : ∀ (d : DTree) (s : Sym), wf rules s d = true → Derives rules s d (yield d) := by
  intro d
  induction d using DTree.ind with
  | leaf tok =>
    intro s h
    cases s with
    | nt A => simp [wf] at h
    | t T f => simp [wf] at h; simpa [yield] using Derives.leaf (rules := rules) (f := f) h
  | node r cs ih =>
    intro s h
    cases s with
    | t T f => simp [wf] at h
    | nt A =>
      obtain ⟨r', cs', e, hr, ho, hw⟩ := wf_nt.1 h
      injection e with e1 e2; subst e1; subst e2; subst ho
      have key : ∀ (cs : List DTree) (ss : List Sym), (∀ c ∈ cs, ∀ s, wf rules s c = true → Derives rules s c (yield c)) →
          wfs rules ss cs = true → DerivesL rules ss cs (yields cs) := by
        intro cs
        induction cs with
        | nil => intro ss _ hw; rw [wfs_nil_right hw]; exact .nil
        | cons c cs ihc =>
          intro ss ihd hw
          cases ss with
          | nil => simp [wfs] at hw
          | cons s ss =>
            simp only [wfs, Bool.and_eq_true] at hw
            simpa [yields] using DerivesL.cons (ihd c (by simp) s hw.1) (ihc ss (fun c' hc' => ihd c' (by simp [hc'])) hw.2)
      simpa [yield] using Derives.node hr (key cs r.expansion ih hw)
where
  wfs_nil_right {rules : List Rule} {ss : List Sym} (h : wfs rules ss [] = true) : ss = [] := by
    cases ss <;> simp [wfs] at h ⊢

/-- `isDerivation` decides the textbook relation -/
theorem isDerivation_iff_derives {rules : List Rule} {A : NT} {ts : List Token} {d : DTree} :
    isDerivation rules A ts d = true ↔ Derives rules (.nt A) d ts := by
  rw [isDerivation_iff]
  constructor
  · rintro ⟨hw, rfl⟩; exact wf_derives d _ hw
  · exact derives_wf

end Grammar
end PyPred
