/-
The loop of Algorithm H (`Gray.step` / `Gray.loop`, the arm-for-arm model of
`more_itertools.gray_product`) yields the reflected mixed-radix Gray code `Gray.reflected`
and then breaks, with exactly `prod ms` passes.

Proof: simulation.  The machine for `m :: ms` is the machine for `ms` (focus pointers
shifted by one) with a sweep of the first coordinate from one end to the other between any
two of its steps.  `active s x d` is the big machine's state while the first coordinate
(value `x`, direction `d`) is moving, `parked s x d` its state after the coordinate reached
an end: then `f[0]` holds the small machine's `f[0]` (+1) and `f[1] = 1`.
-/
import PyPred.Lemmas.Gray

namespace PyPred.Gray

/-- The focus pointers are `n + 1` indices `≤ n`. -/
def FInv (n : Nat) (f : List Nat) : Prop := f.length = n + 1 ∧ ∀ v ∈ f, v ≤ n

def active (s : St) (x d : Int) : St := ⟨x :: s.a, 0 :: s.f.map (· + 1), d :: s.o⟩

def parked (s : St) (x d : Int) : St :=
  ⟨x :: s.a, (s.f.getD 0 0 + 1) :: 1 :: s.f.tail.map (· + 1), d :: s.o⟩

theorem init_succ (n : Nat) : init (n + 1) = active (init n) 0 1 := by
  simp only [init, active, List.replicate_succ, St.mk.injEq, true_and, and_true]
  rw [List.range_succ_eq_map]

theorem finv_init (n : Nat) : FInv n (init n).f := by
  refine ⟨by simp [init], ?_⟩
  intro v hv
  simp only [init, List.mem_range] at hv
  omega

theorem mem_set_sub {l : List Nat} {i v w : Nat} (h : w ∈ l.set i v) : w = v ∨ w ∈ l := by
  rcases List.mem_or_eq_of_mem_set h with h | h
  · exact Or.inr h
  · exact Or.inl h

theorem getD_le {l : List Nat} {n : Nat} (h : ∀ w ∈ l, w ≤ n) (i : Nat) : l.getD i 0 ≤ n := by
  rw [List.getD_eq_getElem?_getD]
  cases hg : l[i]? with
  | none => simp
  | some u => simpa using h u (List.mem_of_getElem? hg)

theorem finv_step {ms : List Nat} {s s' : St} (h : step ms s = some s') (hi : FInv ms.length s.f) :
    FInv ms.length s'.f := by
  obtain ⟨hl, hv⟩ := hi
  have h0 : ∀ w ∈ s.f.set 0 0, w ≤ ms.length := by
    intro w hw
    rcases mem_set_sub hw with rfl | hw
    · omega
    · exact hv w hw
  have hj : s.f.getD 0 0 ≤ ms.length := by
    cases hf : s.f with
    | nil => simp [hf] at hl
    | cons f0 ft => simpa [hf] using hv f0 (by simp [hf])
  unfold step at h
  simp only at h
  split at h
  · exact absurd h (by simp)
  · rename_i hne
    split at h
    · cases h
      refine ⟨by simp [hl], ?_⟩
      intro w hw
      rcases mem_set_sub hw with rfl | hw
      · omega
      · rcases mem_set_sub hw with rfl | hw
        · exact getD_le h0 _
        · exact h0 w hw
    · cases h
      exact ⟨by simp [hl], h0⟩

/-- A step of the small machine, seen in the big machine when the first coordinate is parked. -/
theorem step_parked (m : Nat) {ms : List Nat} {s : St} (hi : FInv ms.length s.f) (x d : Int) :
    step (m :: ms) (parked s x d) = (step ms s).map (fun s' => active s' x d) := by
  obtain ⟨a, f, o⟩ := s
  obtain ⟨hl, hv⟩ := hi
  cases f with
  | nil => simp at hl
  | cons f0 ft =>
    simp only [List.length_cons, Nat.add_right_cancel_iff] at hl
    have hf0 : f0 ≤ ms.length := hv f0 (by simp)
    simp only [step, parked, List.getD_cons_zero, List.set_cons_zero, List.length_cons,
      List.tail_cons, Nat.add_right_cancel_iff, List.getD_cons_succ, List.set_cons_succ]
    by_cases hj : f0 = ms.length
    · simp [hj]
    · have hlt : f0 < ms.length := by omega
      have hlt' : f0 < ft.length := by omega
      simp only [hj, if_false]
      split
      · simp only [Option.map_some, active, Option.some.injEq, St.mk.injEq, true_and, and_true,
          List.cons.injEq]
        rw [List.map_set, List.map_set]
        simp [List.getElem?_eq_getElem hlt']
      · simp [active]

/-- A step of the first coordinate. -/
theorem step_active (m : Nat) (ms : List Nat) {s : St} (hf : s.f ≠ []) (x d : Int) :
    step (m :: ms) (active s x d) =
      some (if x + d = 0 ∨ x + d = (m : Int) - 1 then parked s (x + d) (-d) else active s (x + d) d) := by
  obtain ⟨a, f, o⟩ := s
  cases f with
  | nil => exact absurd rfl hf
  | cons f0 ft =>
    simp only [step, active, List.getD_cons_zero, List.set_cons_zero, List.length_cons]
    have : ¬ (0 = ms.length + 1) := by omega
    simp only [this, if_false]
    split <;> simp [parked]

/-! ### The sweep of the first coordinate -/

theorem walk_succ_up (x : Int) (k : Nat) : walk x 1 (k + 1) = walk x 1 k ++ [x + k] := by
  induction k generalizing x with
  | zero => simp [walk]
  | succ k ih =>
    rw [walk, ih (x + 1)]
    simp only [walk, List.cons_append, List.cons.injEq, true_and, List.append_cancel_left_eq,
      List.cons.injEq, and_true]
    push_cast; omega

theorem walk_succ_down (x : Int) (k : Nat) : walk x (-1) (k + 1) = walk x (-1) k ++ [x - k] := by
  induction k generalizing x with
  | zero => simp [walk]
  | succ k ih =>
    rw [walk, ih (x + -1)]
    simp only [walk, List.cons_append, List.cons.injEq, true_and, List.append_cancel_left_eq,
      List.cons.injEq, and_true]
    push_cast; omega

/-- `k ≥ 1` more steps in direction `d` take the first coordinate from `x` to the end `e`. -/
def Run (m : Nat) (x d : Int) (k : Nat) (e : Int) : Prop :=
  (d = 1 ∧ x + k = e ∧ e = (m : Int) - 1 ∧ 0 ≤ x) ∨ (d = -1 ∧ x = k ∧ e = 0 ∧ x ≤ (m : Int) - 1)

theorem sweep (m : Nat) (ms : List Nat) {s : St} (hf : s.f ≠ []) (r : Nat) :
    ∀ (k : Nat) (x d e : Int), Run m x d (k + 1) e →
      loop (m :: ms) (k + 1 + r) (active s x d) =
        (loop (m :: ms) r (parked s e (-d))).map (fun L => (walk x d (k + 1)).map (· :: s.a) ++ L) := by
  intro k
  induction k with
  | zero =>
    intro x d e hr
    have he : x + d = e := by rcases hr with ⟨h1, h2, _, _⟩ | ⟨h1, h2, h3, _⟩ <;> omega
    have hend : x + d = 0 ∨ x + d = (m : Int) - 1 := by
      rcases hr with ⟨h1, h2, h3, _⟩ | ⟨h1, h2, h3, _⟩ <;> omega
    have : 0 + 1 + r = r + 1 := by omega
    rw [this, loop, step_active m ms hf, if_pos hend, he]
    dsimp only
    generalize loop (m :: ms) r (parked s e (-d)) = R
    cases R <;> simp [walk, active]
  | succ k ih =>
    intro x d e hr
    have hnot : ¬ (x + d = 0 ∨ x + d = (m : Int) - 1) := by
      rcases hr with ⟨h1, h2, h3, h4⟩ | ⟨h1, h2, h3, h4⟩ <;> omega
    have hr' : Run m (x + d) d (k + 1) e := by
      rcases hr with ⟨h1, h2, h3, h4⟩ | ⟨h1, h2, h3, h4⟩
      · exact Or.inl ⟨h1, by push_cast at h2 ⊢; omega, h3, by omega⟩
      · exact Or.inr ⟨h1, by push_cast at h2 ⊢; omega, h3, by omega⟩
    have : k + 1 + 1 + r = (k + 1 + r) + 1 := by omega
    rw [this, loop, step_active m ms hf, if_neg hnot]
    dsimp only
    rw [ih (x + d) d e hr']
    generalize loop (m :: ms) r (parked s e (-d)) = R
    cases R <;> simp [walk, active]

/-- The first coordinate is at an end, pointing inwards. -/
def AtEnd (m : Nat) (e d : Int) : Prop := (e = 0 ∧ d = 1) ∨ (e = (m : Int) - 1 ∧ d = -1)

theorem walk_full {m : Nat} (hm : 2 ≤ m) {e d : Int} (h : AtEnd m e d) :
    walk e d m = walk e d (m - 1) ++ [(m : Int) - 1 - e] := by
  obtain ⟨k, rfl⟩ : ∃ k, m = k + 1 := ⟨m - 1, by omega⟩
  rcases h with ⟨rfl, rfl⟩ | ⟨rfl, rfl⟩
  · rw [walk_succ_up]; simp
  · rw [walk_succ_down]; simp

/-- **Simulation.**  If the small machine, from `s`, yields `L` and breaks within `fuel`
passes, the big machine, from `s` with the first coordinate at an end, yields `weave … L`
and breaks within `m * fuel` passes. -/
theorem sim (m : Nat) (hm : 2 ≤ m) (ms : List Nat) :
    ∀ (fuel : Nat) (s : St) (L : List (List Int)) (e d : Int),
      FInv ms.length s.f → AtEnd m e d → loop ms fuel s = some L →
      loop (m :: ms) (m * fuel) (active s e d)
        = some (weave (walk e d m) (walk ((m : Int) - 1 - e) (-d) m) L) := by
  intro fuel
  induction fuel with
  | zero => intro s L e d _ _ h; simp [loop] at h
  | succ fuel ih =>
    intro s L e d hi he h
    have hf : s.f ≠ [] := by
      intro e0; have := hi.1; simp [e0] at this
    obtain ⟨k, rfl⟩ : ∃ k, m = k + 2 := ⟨m - 2, by omega⟩
    have hrun : Run (k + 2) e d (k + 1) ((k + 2 : Nat) - 1 - e) := by
      rcases he with ⟨rfl, rfl⟩ | ⟨rfl, rfl⟩
      · exact Or.inl ⟨rfl, by push_cast; omega, by push_cast; omega, by omega⟩
      · exact Or.inr ⟨rfl, by push_cast; omega, by push_cast; omega, by omega⟩
    have he' : AtEnd (k + 2) ((k + 2 : Nat) - 1 - e) (-d) := by
      rcases he with ⟨rfl, rfl⟩ | ⟨rfl, rfl⟩
      · exact Or.inr ⟨by omega, rfl⟩
      · exact Or.inl ⟨by omega, rfl⟩
    have hfuel : (k + 2) * (fuel + 1) = k + 1 + ((k + 2) * fuel + 1) := by
      rw [Nat.mul_succ]; omega
    rw [hfuel, sweep (k + 2) ms hf _ k e d _ hrun, loop, step_parked (k + 2) hi]
    have hw := walk_full (m := k + 2) (by omega) he
    have hk : k + 2 - 1 = k + 1 := by omega
    rw [hk] at hw
    rw [loop] at h
    cases hs : step ms s with
    | none =>
      simp only [hs] at h
      cases h
      simp only [Option.map_none, Option.map_some, weave, List.append_nil, Option.some.injEq]
      rw [hw]
      simp [parked]
    | some s' =>
      simp only [hs] at h
      cases hL : loop ms fuel s' with
      | none => rw [hL] at h; simp at h
      | some L' =>
        rw [hL] at h
        cases h
        have := ih s' L' _ _ (finv_step hs hi) he' hL
        have hback : ((k + 2 : Nat) : Int) - 1 - (((k + 2 : Nat) : Int) - 1 - e) = e := by omega
        rw [hback, Int.neg_neg] at this
        simp only [Option.map_some, this, weave, Option.some.injEq]
        rw [hw]
        simp [parked]

/-- **The loop of Algorithm H computes the reflected Gray code** and breaks after exactly
`prod ms` passes (every iterable has at least two items). -/
theorem loop_reflected (ms : List Nat) (h : ∀ m ∈ ms, 2 ≤ m) :
    loop ms (prod ms) (init ms.length) = some (reflected ms) := by
  induction ms with
  | nil => rfl
  | cons m ms ih =>
    have hm : 2 ≤ m := h m (by simp)
    have := sim m hm ms (prod ms) (init ms.length) (reflected ms) 0 1 (finv_init _)
      (Or.inl ⟨rfl, rfl⟩) (ih (fun m' hm' => h m' (by simp [hm'])))
    simp only [List.length_cons, init_succ, prod, reflected, up, down]
    simpa using this

theorem grayIdx_eq (ms : List Nat) :
    grayIdx ms = if ms.any (· < 2) then .valueError else .ok (reflected ms) := by
  unfold grayIdx
  split
  · rfl
  · rename_i hany
    rw [loop_reflected ms]
    intro m hm
    simp only [List.any_eq_true, decide_eq_true_eq, not_exists, not_and] at hany
    have := hany m hm
    omega

/-! ### Binary factors -/

theorem map_pick_weave {α : Type} [Inhabited α] (it : List α) (its : List (List α))
    (L : List (List Int)) : ∀ fwd bwd : List Int,
      (weave fwd bwd L).map (pick (it :: its)) =
        weave (fwd.map (fun k => it.getD k.toNat default)) (bwd.map (fun k => it.getD k.toNat default))
          (L.map (pick its)) := by
  induction L with
  | nil => intros; rfl
  | cons t ts ih =>
    intro fwd bwd
    simp only [weave, List.map_append, List.map_map, List.map_cons, ih]
    congr 1

theorem reflected_bool (n : Nat) :
    (reflected (List.replicate n 2)).map (pick (List.replicate n [false, true])) = reflectedBool n := by
  induction n with
  | zero => rfl
  | succ n ih =>
    simp only [List.replicate_succ, reflected, reflectedBool, map_pick_weave, ih]
    rfl

/-- `list(gray_product(*repeat((False, True), n)))` is the binary reflected Gray code. -/
theorem grayBool_eq (n : Nat) : grayBool n = .ok (reflectedBool n) := by
  unfold grayBool grayProduct
  have : (List.replicate n [false, true]).map List.length = List.replicate n 2 := by simp
  rw [this, grayIdx_eq]
  have hany : (List.replicate n 2).any (· < 2) = false := by
    simp
  simp only [hany, Bool.false_eq_true, if_false, Res.map, reflected_bool]

end PyPred.Gray
