/-
Arithmetic of the amortised cost bound (C12, polynomial bound).  A call on a term of weight `a`
that uses `q` "rounds" costs at most `3 * (a * q)`.  The two operand calls of a binary node of
weight `W ≥ a + b + 1` share one round; every re-entrant call (on a term of weight `≤ W`) pays its
own rounds; `c ≤ 3` is what the invocation itself adds.
-/
import Mathlib.Tactic.Linarith

namespace PyPred.PolyArith

theorem cst_leaf {c W : Nat} (hc : c ≤ 3) (hW : 1 ≤ W) : c ≤ 3 * (W * 1) := by omega

theorem cst_mono {n a q W : Nat} (h : n ≤ 3 * (a * q)) (ha : a ≤ W) : n ≤ 3 * (W * q) :=
  Nat.le_trans h (Nat.mul_le_mul_left 3 (Nat.mul_le_mul_right q ha))

theorem cst_add {R1 R2 W q1 q2 : Nat} (h1 : R1 ≤ 3 * (W * q1)) (h2 : R2 ≤ 3 * (W * q2)) :
    R1 + R2 ≤ 3 * (W * (q1 + q2)) := by
  rw [Nat.mul_add, Nat.mul_add]; omega

theorem cst_un {n a q W R ρ c r : Nat} (h : n ≤ 3 * (a * q)) (hq : 1 ≤ q) (hW : a + 1 ≤ W)
    (hR : R ≤ 3 * (W * ρ)) (hc : c ≤ 3) (hr : q + ρ ≤ r) : n + R + c ≤ 3 * (W * r) := by
  obtain ⟨u, rfl⟩ : ∃ u, q = u + 1 := ⟨q - 1, by omega⟩
  obtain ⟨d, rfl⟩ : ∃ d, W = a + 1 + d := ⟨W - (a + 1), by omega⟩
  obtain ⟨e, rfl⟩ : ∃ e, r = u + 1 + ρ + e := ⟨r - (u + 1 + ρ), by omega⟩
  nlinarith [Nat.zero_le (d * u), Nat.zero_le (d * e), Nat.zero_le (a * e), Nat.zero_le u, Nat.zero_le e,
    Nat.zero_le (d * ρ), Nat.zero_le (a * ρ), Nat.zero_le d]

theorem cst_bin {nl nr a b ql qr W R ρ c r : Nat} (hl : nl ≤ 3 * (a * ql)) (hr : nr ≤ 3 * (b * qr))
    (h1 : 1 ≤ ql) (h2 : 1 ≤ qr) (hW : a + b + 1 ≤ W) (hR : R ≤ 3 * (W * ρ)) (hc : c ≤ 3)
    (hq : ql + qr + ρ ≤ r + 1) : nl + nr + R + c ≤ 3 * (W * r) := by
  obtain ⟨u, rfl⟩ : ∃ u, ql = u + 1 := ⟨ql - 1, by omega⟩
  obtain ⟨v, rfl⟩ : ∃ v, qr = v + 1 := ⟨qr - 1, by omega⟩
  obtain ⟨d, rfl⟩ : ∃ d, W = a + b + 1 + d := ⟨W - (a + b + 1), by omega⟩
  obtain ⟨e, rfl⟩ : ∃ e, r = u + v + 1 + ρ + e := ⟨r - (u + v + 1 + ρ), by omega⟩
  nlinarith [Nat.zero_le (a * v), Nat.zero_le (b * u), Nat.zero_le (d * u), Nat.zero_le (d * v),
    Nat.zero_le (d * e), Nat.zero_le (a * e), Nat.zero_le (b * e), Nat.zero_le u, Nat.zero_le v, Nat.zero_le e,
    Nat.zero_le (d * ρ), Nat.zero_le (a * ρ), Nat.zero_le (b * ρ), Nat.zero_le d]

end PyPred.PolyArith
