/-
Weighted size `w` and termination measure `μ` of the optimizer model (C12).

`w` counts every node once, except the atoms whose `negate`-dual is lighter
(`ne`, `notin`, `lt`, `le`, `isNotNone`, `isNotEmpty`, `falsy`), which weigh 2: then
`w (negate p) ≤ w p + 1` and every rewrite arm of `step` is non-increasing in `w`.
`μ p = 2 * w p + swapBit p`; the bit pays for the two recursive calls of the
optimizer that keep the weight (the operand swaps AND-p2 and XOR9).
-/
import PyPred.Model.Optimize

set_option linter.unusedSectionVars false
set_option linter.unusedVariables false
set_option linter.unusedSimpArgs false

namespace PyPred

section
variable {V : Type}

/-- Weighted size. -/
def w : Pred V → Nat
  | .ne _ | .notin _ | .lt _ | .le _ | .isNotNone | .isNotEmpty | .falsy => 2
  | .box _ _ c => 1 + w c
  | .kcons h t => 1 + w h + w t
  | .and l r => 1 + w l + w r
  | .or l r => 1 + w l + w r
  | .xor l r => 1 + w l + w r
  | .not p => 1 + w p
  | .all p => 1 + w p
  | .any p => 1 + w p
  | _ => 1

/-- 1 on the two shapes from which `step` re-enters on a term of the same weight
(`and l r` with `r` an `or` and `l` not: AND-p2 swaps; `xor l r` unless `l` is not an
`and` and `r` is: XOR9 swaps to exactly that shape), 0 elsewhere. -/
def swapBit : Pred V → Nat
  | .and l r => if !l.isOr && r.isOr then 1 else 0
  | .xor l r => if !l.isAnd && r.isAnd then 0 else 1
  | _ => 0

/-- Termination measure: every recursive call of `step … p` is on a term of smaller `μ`. -/
def μ (p : Pred V) : Nat := 2 * w p + swapBit p

theorem w_pos (p : Pred V) : 1 ≤ w p := by
  cases p <;> simp [w] <;> omega

theorem swapBit_le_one (p : Pred V) : swapBit p ≤ 1 := by
  cases p <;> simp [swapBit] <;> split <;> omega

theorem size_le_w (p : Pred V) : p.size ≤ w p := by
  induction p <;> simp [w, Pred.size] <;> omega

theorem w_le_two_size (p : Pred V) : w p ≤ 2 * p.size := by
  induction p <;> simp [w, Pred.size] <;> omega

theorem μ_le (p : Pred V) : μ p ≤ 2 * w p + 1 := by
  have := swapBit_le_one p
  unfold μ; omega

theorem μ_lt_of_w_lt {t p : Pred V} (h : w t < w p) : μ t < μ p := by
  have := swapBit_le_one t
  unfold μ; omega

theorem μ_le_four_size (p : Pred V) : μ p ≤ 4 * p.size + 1 := by
  have := μ_le p
  have := w_le_two_size p
  omega

end

section
variable {V : Type} [DecidableEq V]

theorem w_negate (p : Pred V) : w (negate p) ≤ w p + 1 := by
  cases p <;> simp [negate, w] <;> omega

/-- `negate` answers with a conjunction only by stripping a `not`. -/
theorem w_negate_of_isAnd (p : Pred V) (h : (negate p).isAnd = true) : w (negate p) < w p := by
  cases p <;> simp_all [negate, w, Pred.isAnd]

theorem w_optIn (s : List V) : w (optIn s) = 1 := by
  unfold optIn; split <;> simp [w]

theorem w_optNotIn (s : List V) : w (optNotIn s) ≤ 2 := by
  unfold optNotIn; split <;> simp [w]

theorem isAnd_optIn (s : List V) : (optIn s).isAnd = false := by
  unfold optIn; split <;> simp [Pred.isAnd]

theorem isAnd_optNotIn (s : List V) : (optNotIn s).isAnd = false := by
  unfold optNotIn; split <;> simp [Pred.isAnd]

end

end PyPred
