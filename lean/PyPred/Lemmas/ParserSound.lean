/-
Soundness of the reference parser: whatever `parse` returns is derivable in the
unambiguous precedence grammar `Pr`; `Pr ⊆ Tg ⊆ Rd`; shape facts of readings.
-/
import PyPred.Model.Parser

namespace PyPred
namespace Parser

/-- "the parser `p` only returns `(x, r)` when it has read a phrase `S pre x` off the front" -/
def SoundFor (p : P) (S : List Token → Tree → Prop) : Prop :=
  ∀ ts x r, p ts = some (x, r) → ∃ pre, ts = pre ++ r ∧ S pre x

theorem chain_sound {op : Token} {mk : Tree → Tree → Tree} {sub : P} {S L : List Token → Tree → Prop}
    (hsub : SoundFor sub S)
    (hstep : ∀ l a r b, L l a → S r b → L (l ++ op :: r) (mk a b)) :
    ∀ n acc ts t r pre0, chain op mk sub n acc ts = some (t, r) → L pre0 acc →
      ∃ pre, ts = pre ++ r ∧ L (pre0 ++ pre) t := by
  intro n
  induction n with
  | zero => intro acc ts t r pre0 h; simp [chain] at h
  | succ n ih =>
    intro acc ts t r pre0 h hL
    cases ts with
    | nil =>
      simp [chain] at h
      obtain ⟨rfl, rfl⟩ := h
      exact ⟨[], by simp, by simpa using hL⟩
    | cons tk rest =>
      simp only [chain] at h
      by_cases htk : tk = op
      · subst htk
        simp only [if_true] at h
        cases hs : sub rest with
        | none => simp [hs] at h
        | some xr =>
          obtain ⟨x, r'⟩ := xr
          simp only [hs] at h
          obtain ⟨pre1, hpre1, hS⟩ := hsub _ _ _ hs
          obtain ⟨pre2, hpre2, hL2⟩ := ih _ _ _ _ (pre0 ++ tk :: pre1) h (hstep _ _ _ _ hL hS)
          refine ⟨tk :: pre1 ++ pre2, ?_, ?_⟩
          · rw [hpre1, hpre2]; simp
          · simpa [List.append_assoc] using hL2
      · simp only [htk, if_false] at h
        injection h with h
        injection h with h1 h2
        subst h1; subst h2
        exact ⟨[], by simp, by simpa using hL⟩

theorem level_sound {op : Token} {mk : Tree → Tree → Tree} {sub : P} {S L : List Token → Tree → Prop}
    (hsub : SoundFor sub S)
    (hup : ∀ ts t, S ts t → L ts t)
    (hstep : ∀ l a r b, L l a → S r b → L (l ++ op :: r) (mk a b)) :
    SoundFor (level op mk sub) L := by
  intro ts t r h
  unfold level at h
  cases hs : sub ts with
  | none => simp [hs] at h
  | some xr =>
    obtain ⟨x, r1⟩ := xr
    simp only [hs] at h
    obtain ⟨pre1, hpre1, hS⟩ := hsub _ _ _ hs
    obtain ⟨pre2, hpre2, hL⟩ := chain_sound hsub hstep _ _ _ _ _ pre1 h (hup _ _ hS)
    exact ⟨pre1 ++ pre2, by rw [hpre1, hpre2]; simp, hL⟩

theorem unary_sound {rec : P} (hrec : SoundFor rec (Pr 0)) : SoundFor (unary rec) (Pr 3) := by
  intro ts
  induction ts with
  | nil => intro x r h; simp [unary] at h
  | cons tk rest ih =>
    intro x r h
    cases tk with
    | name s =>
      simp [unary] at h; obtain ⟨rfl, rfl⟩ := h
      exact ⟨[.name s], rfl, .name s⟩
    | tt =>
      simp [unary] at h; obtain ⟨rfl, rfl⟩ := h
      exact ⟨[.tt], rfl, .tt⟩
    | ff =>
      simp [unary] at h; obtain ⟨rfl, rfl⟩ := h
      exact ⟨[.ff], rfl, .ff⟩
    | not =>
      simp only [unary] at h
      cases hu : unary rec rest with
      | none => simp [hu] at h
      | some xr =>
        obtain ⟨u, r'⟩ := xr
        simp [hu] at h; obtain ⟨rfl, rfl⟩ := h
        obtain ⟨pre, hpre, hP⟩ := ih _ _ hu
        exact ⟨.not :: pre, by rw [hpre]; rfl, .not hP⟩
    | lp =>
      simp only [unary] at h
      cases hu : rec rest with
      | none => simp [hu] at h
      | some xr =>
        obtain ⟨u, r'⟩ := xr
        cases r' with
        | nil => simp [hu] at h
        | cons c r'' =>
          cases c <;> simp [hu] at h
          obtain ⟨rfl, rfl⟩ := h
          obtain ⟨pre, hpre, hP⟩ := hrec _ _ _ hu
          exact ⟨.lp :: pre ++ [.rp], by rw [hpre]; simp, .grp hP⟩
    | and => simp [unary] at h
    | or => simp [unary] at h
    | xor => simp [unary] at h
    | rp => simp [unary] at h

theorem xorLevel_sound {rec : P} (hrec : SoundFor rec (Pr 0)) : SoundFor (xorLevel rec) (Pr 2) :=
  level_sound (unary_sound hrec) (fun _ _ h => .up2 h) (fun _ _ _ _ h1 h2 => .xor h1 h2)

theorem andLevel_sound {rec : P} (hrec : SoundFor rec (Pr 0)) : SoundFor (andLevel rec) (Pr 1) :=
  level_sound (xorLevel_sound hrec) (fun _ _ h => .up1 h) (fun _ _ _ _ h1 h2 => .and h1 h2)

theorem orLevel_sound {rec : P} (hrec : SoundFor rec (Pr 0)) : SoundFor (orLevel rec) (Pr 0) :=
  level_sound (andLevel_sound hrec) (fun _ _ h => .up0 h) (fun _ _ _ _ h1 h2 => .or h1 h2)

theorem expr_sound : ∀ n, SoundFor (expr n) (Pr 0) := by
  intro n
  induction n with
  | zero => intro ts x r h; simp [expr] at h
  | succ n ih => exact orLevel_sound ih

/-- The reference parser only returns trees of the precedence grammar. -/
theorem parse_pr {ts : List Token} {t : Tree} (h : parse ts = some t) : Pr 0 ts t := by
  unfold parse at h
  cases he : expr (ts.length + 1) ts with
  | none => simp [he] at h
  | some xr =>
    obtain ⟨x, r⟩ := xr
    cases r with
    | nil =>
      simp [he] at h; subst h
      obtain ⟨pre, hpre, hP⟩ := expr_sound _ _ _ _ he
      simp at hpre; subst hpre; exact hP
    | cons c r' => simp [he] at h

/-! ### `Pr ⊆ Tg ⊆ Rd` -/

/-- precedence level ↦ tight level: operand ↦ operand, `^`- and `&`-chains ↦ 1, `|`-chains ↦ 0 -/
def tgLevel : Nat → Nat
  | 0 => 0
  | 1 => 1
  | 2 => 1
  | _ => 2

theorem pr_tg : ∀ {k ts t}, Pr k ts t → Tg (tgLevel k) ts t := by
  intro k ts t h
  induction h with
  | name s => exact .name s
  | tt => exact .tt
  | ff => exact .ff
  | grp _ ih => exact .grp ih
  | not _ ih => exact .not ih
  | up2 _ ih => exact .up1 ih
  | xor _ _ ih1 ih2 => exact .xor ih1 (.up1 ih2)
  | up1 _ ih => exact ih
  | and _ _ ih1 ih2 => exact .and ih1 ih2
  | up0 _ ih => exact .up0 ih
  | or _ _ ih1 ih2 => exact .or ih1 (.up0 ih2)

theorem tg_rd : ∀ {k ts t}, Tg k ts t → Rd (k == 2) ts t := by
  intro k ts t h
  induction h with
  | name s => exact .name s
  | tt => exact .tt
  | ff => exact .ff
  | grp _ ih => exact .grp ih
  | not _ ih => exact .not ih
  | up1 _ ih => exact .up ih
  | and _ _ ih1 ih2 => exact .and ih1 ih2
  | xor _ _ ih1 ih2 => exact .xor ih1 ih2
  | up0 _ ih => exact ih
  | or _ _ ih1 ih2 => exact .or ih1 ih2

theorem tg0_reading {ts t} (h : Tg 0 ts t) : Reading ts t := tg_rd h

theorem pr0_tight {ts t} (h : Pr 0 ts t) : Tg 0 ts t := pr_tg h

/-! ### Shape of readings -/

theorem rd_inorder : ∀ {b ts t}, Rd b ts t → inorder t = noParens ts := by
  intro b ts t h
  induction h with
  | name s => rfl
  | tt => rfl
  | ff => rfl
  | grp _ ih => simp [noParens, isParen] at *; exact ih
  | not _ ih => simp [noParens, isParen, inorder] at *; exact ih
  | up _ ih => exact ih
  | and _ _ ih1 ih2 => simp [noParens, isParen, inorder] at *; rw [ih1, ih2]
  | or _ _ ih1 ih2 => simp [noParens, isParen, inorder] at *; rw [ih1, ih2]
  | xor _ _ ih1 ih2 => simp [noParens, isParen, inorder] at *; rw [ih1, ih2]

theorem rd_ne_nil : ∀ {b ts t}, Rd b ts t → ts ≠ [] := by
  intro b ts t h
  induction h <;> simp_all

/-- number of `(` minus number of `)` never matters: they are equal in a reading -/
theorem rd_balanced : ∀ {b ts t}, Rd b ts t → ts.count .lp = ts.count .rp := by
  intro b ts t h
  induction h with
  | name s => simp
  | tt => simp
  | ff => simp
  | grp _ ih => simp [List.count_append]; omega
  | not _ ih => simp; exact ih
  | up _ ih => exact ih
  | and _ _ ih1 ih2 => simp [List.count_append]; omega
  | or _ _ ih1 ih2 => simp [List.count_append]; omega
  | xor _ _ ih1 ih2 => simp [List.count_append]; omega

def startsOperand : Token → Bool
  | .name _ | .tt | .ff | .not | .lp => true
  | _ => false

def endsOperand : Token → Bool
  | .name _ | .tt | .ff | .rp => true
  | _ => false

theorem rd_head : ∀ {b ts t}, Rd b ts t → ∃ x r, ts = x :: r ∧ startsOperand x = true := by
  intro b ts t h
  induction h with
  | name s => exact ⟨_, _, rfl, rfl⟩
  | tt => exact ⟨_, _, rfl, rfl⟩
  | ff => exact ⟨_, _, rfl, rfl⟩
  | grp _ _ => exact ⟨_, _, rfl, rfl⟩
  | not _ _ => exact ⟨_, _, rfl, rfl⟩
  | up _ ih => exact ih
  | and _ _ ih1 _ => obtain ⟨x, r, rfl, hx⟩ := ih1; exact ⟨x, _, rfl, hx⟩
  | or _ _ ih1 _ => obtain ⟨x, r, rfl, hx⟩ := ih1; exact ⟨x, _, rfl, hx⟩
  | xor _ _ ih1 _ => obtain ⟨x, r, rfl, hx⟩ := ih1; exact ⟨x, _, rfl, hx⟩

theorem rd_last : ∀ {b ts t}, Rd b ts t → ∃ r x, ts = r ++ [x] ∧ endsOperand x = true := by
  intro b ts t h
  induction h with
  | name s => exact ⟨[], _, rfl, rfl⟩
  | tt => exact ⟨[], _, rfl, rfl⟩
  | ff => exact ⟨[], _, rfl, rfl⟩
  | @grp ts _ _ _ => exact ⟨.lp :: ts, .rp, rfl, rfl⟩
  | not _ ih => obtain ⟨r, x, rfl, hx⟩ := ih; exact ⟨_ :: r, x, rfl, hx⟩
  | up _ ih => exact ih
  | @and l _ _ _ _ _ _ ih2 => obtain ⟨r, x, rfl, hx⟩ := ih2; exact ⟨l ++ .and :: r, x, by simp, hx⟩
  | @or l _ _ _ _ _ _ ih2 => obtain ⟨r, x, rfl, hx⟩ := ih2; exact ⟨l ++ .or :: r, x, by simp, hx⟩
  | @xor l _ _ _ _ _ _ ih2 => obtain ⟨r, x, rfl, hx⟩ := ih2; exact ⟨l ++ .xor :: r, x, by simp, hx⟩

end Parser
end PyPred
