/-
The kinds `to_dot` lists (after the repairs recorded in known_findings.json) are
closed under `optimize`: instance of the generic closure theorem for
`Dot.supported DCfg.fixed`.  This is what makes `to_dot(p, show_optimized=True)`
total on supported trees (Props/C17 `C17_toDot_optimized_total`).
-/
import PyPred.Lemmas.Closure
import PyPred.Model.Dot

set_option linter.unusedSectionVars false
set_option linter.unusedVariables false
set_option linter.unusedSimpArgs false

namespace PyPred
namespace Dot

theorem supported_negate (p : Pred Int) (h : supported DCfg.fixed p = true) :
    supported DCfg.fixed (negate p) = true := by
  cases p <;> simp_all [negate, supported, DCfg.fixed]

theorem pclass_supported : PClass (fun p : Pred Int => supported DCfg.fixed p = true) where
  and_ l r := by simp [supported]
  or_ l r := by simp [supported]
  xor_ l r := by simp [supported]
  not_ q := by simp [supported]
  all_ q := by simp [supported]
  any_ q := by simp [supported]
  tt_ := by simp [supported]
  ff_ := by simp [supported]
  neg p h := supported_negate p h
  isEmpty_ := by simp [supported, DCfg.fixed]
  isNotEmpty_ := by simp [supported, DCfg.fixed]
  gele a b := by simp [supported]
  gelt a b := by simp [supported]
  gtle a b := by simp [supported]
  gtlt a b := by simp [supported]
  ge_eq a := by simp [supported]
  eq_isin a := by simp [supported]
  isin_eq s a h ha := by simp [supported]
  isin_mix s t u hs ht hu := by simp [supported]
  subset_sub s t hs ht := by simp [supported]

/-- `optimize` maps trees built from the kinds `to_dot` lists to such trees. -/
theorem supported_optimize (cfg : Cfg) (fnc : Nat → Int → Bool) (n : Nat) {p o : Pred Int}
    (h : optimize cfg fnc n p = some o) (hp : supported DCfg.fixed p = true) : supported DCfg.fixed o = true :=
  optimize_closed pclass_supported cfg fnc n h hp

end Dot
end PyPred
