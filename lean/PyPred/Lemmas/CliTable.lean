/-
Lemmas for C20, table half: the heap layout `ttFrom` (one variable object per leaf
occurrence) has the leaf names and the truth-table semantics of the predicate it was
made from, and the `table` command's output is the text of the specified table
(composition with `TT.C15_table_spec`).
-/
import PyPred.Props.C15
import PyPred.Model.CliDecode

namespace PyPred
namespace Cli
open TT

/-- the value of a propositional predicate under an assignment of the *names* -/
def evalP (σ : String → Bool) : Pred Int → Bool
  | .tt => true
  | .ff => false
  | .var n _ => σ n
  | .not p => !evalP σ p
  | .and l r => evalP σ l && evalP σ r
  | .or l r => evalP σ l || evalP σ r
  | .xor l r => evalP σ l != evalP σ r
  | _ => false

/-- the header of the table of `p`: its distinct names, ascending -/
def namesP (p : Pred Int) : List String := sortDedup (leafNames p)

theorem ttFrom_snd (p : Pred Int) : ∀ k, (ttFrom p k).2 = k + (leafNames p).length := by
  induction p <;> intro k <;> simp_all [ttFrom, leafNames] <;> omega

theorem ttFrom_isProp (p : Pred Int) : ∀ k, (ttFrom p k).1.isProp = p.isProp := by
  induction p <;> intro k <;> simp_all [ttFrom, Tree.isProp, Pred.isProp]

theorem leafNames_eq_names {p : Pred Int} (h : p.isProp = true) : leafNames p = p.names := by
  induction p <;> simp_all [leafNames, Pred.names, Pred.isProp]

/-- the objects `pre.length …` carry the leaf names of `p`, in order -/
theorem ttFrom_layout (p : Pred Int) : ∀ (pre suf : List String),
    ((ttFrom p pre.length).1.leafNames (fun o => (pre ++ leafNames p ++ suf).getD o "") = leafNames p) ∧
    (∀ σ, evalS (fun o => (pre ++ leafNames p ++ suf).getD o "") σ (ttFrom p pre.length).1 = evalP σ p) := by
  induction p with
  | var n v =>
    intro pre suf
    simp [ttFrom, leafNames, Tree.leafNames, Tree.objs, evalS, evalP, List.getD_eq_getElem?_getD]
  | not p ih =>
    intro pre suf
    have := ih pre suf
    simp_all [ttFrom, leafNames, Tree.leafNames, Tree.objs, evalS, evalP]
  | and l r ihl ihr =>
    intro pre suf
    have hl := ihl pre (leafNames r ++ suf)
    have hr := ihr (pre ++ leafNames l) suf
    simp only [List.append_assoc, List.length_append] at hl hr ⊢
    simp only [ttFrom, leafNames, Tree.leafNames, Tree.objs, evalS, evalP, ttFrom_snd, List.map_append,
      List.append_assoc] at hl hr ⊢
    exact ⟨by rw [hl.1, hr.1], fun σ => by rw [hl.2, hr.2]⟩
  | or l r ihl ihr =>
    intro pre suf
    have hl := ihl pre (leafNames r ++ suf)
    have hr := ihr (pre ++ leafNames l) suf
    simp only [List.append_assoc, List.length_append] at hl hr ⊢
    simp only [ttFrom, leafNames, Tree.leafNames, Tree.objs, evalS, evalP, ttFrom_snd, List.map_append,
      List.append_assoc] at hl hr ⊢
    exact ⟨by rw [hl.1, hr.1], fun σ => by rw [hl.2, hr.2]⟩
  | xor l r ihl ihr =>
    intro pre suf
    have hl := ihl pre (leafNames r ++ suf)
    have hr := ihr (pre ++ leafNames l) suf
    simp only [List.append_assoc, List.length_append] at hl hr ⊢
    simp only [ttFrom, leafNames, Tree.leafNames, Tree.objs, evalS, evalP, ttFrom_snd, List.map_append,
      List.append_assoc] at hl hr ⊢
    exact ⟨by rw [hl.1, hr.1], fun σ => by rw [hl.2, hr.2]⟩
  | _ => intro pre suf; simp [ttFrom, leafNames, Tree.leafNames, Tree.objs, evalS, evalP]

theorem toTT_leafNames (p : Pred Int) : (toTT p).leafNames (nmOf p) = leafNames p := by
  have := (ttFrom_layout p [] []).1
  simp only [List.nil_append, List.append_nil, List.length_nil] at this
  exact this

theorem toTT_evalS (p : Pred Int) (σ : String → Bool) : evalS (nmOf p) σ (toTT p) = evalP σ p := by
  have := (ttFrom_layout p [] []).2 σ
  simp only [List.nil_append, List.append_nil, List.length_nil] at this
  exact this

theorem toTT_isProp (p : Pred Int) : (toTT p).isProp = p.isProp := ttFrom_isProp p 0

theorem toTT_names (p : Pred Int) : names (nmOf p) (toTT p) = namesP p := by
  simp [names, namesP, toTT_leafNames]

/-- the rows the property describes: every assignment of the header's names in ascending binary order,
each with the value of `p` under it -/
def specRows (p : Pred Int) : List (List Bool × Bool) :=
  (rows (namesP p).length).map fun r => (r, evalP (valuation (namesP p) r) p)

theorem emitRows_rows (l : List (List Bool × Bool)) :
    emitRows (l.map (fun rv => Step.row rv.1 rv.2) ++ [.stop]) = ((l.map fun rv => fmtRow rv.1 rv.2).flatten, none) := by
  induction l with
  | nil => simp [emitRows]
  | cons a l ih => simp [emitRows, ih]

theorem spec_toTT (p : Pred Int) :
    spec (nmOf p) (toTT p) = (specRows p).map (fun rv => Step.row rv.1 rv.2) := by
  simp [spec, specRows, toTT_names, toTT_evalS, List.map_map, Function.comp_def]

/-- **The `table` command prints the specified table** of any propositional predicate: header, then the
`2^k` rows, nothing on stderr, exit status 0 — whatever the heap held and however the variable objects
are shared (`C15_table_spec` holds for every heap and aliasing). -/
theorem tableOut_spec (p : Pred Int) (hp : p.isProp = true) :
    tableOut p = ⟨tableText ((namesP p).map String.toList) (specRows p), .empty, 0⟩ := by
  have ht : (toTT p).isProp = true := by rw [toTT_isProp]; exact hp
  have hg := C15_getNamed (nmOf p) (toTT p) ht
  have hs := C15_table_spec (nmOf p) (toTT p) ht heap0
  rw [toTT_names] at hg hs
  rw [spec_toTT] at hs
  simp only [tableOut, hg, hs, emitRows_rows, tableText, fmtHeader]
  simp

/-- a predicate that is not propositional makes `get_named_predicates` raise before anything is written
(cannot happen for a parsed expression, optimised or not: `toPred_isProp`, `C01_prop_closed`) -/
theorem tableOut_not_prop (p : Pred Int) (hp : p.isProp = false) :
    tableOut p = uncaught [] .valueError := by
  have ht : (toTT p).isProp = false := by rw [toTT_isProp]; exact hp
  simp [tableOut, getNamed_err (nmOf p) ht, excOf]

end Cli
end PyPred
