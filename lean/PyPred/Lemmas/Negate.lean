/-
`negate` is the exact complement (C04); structure lemmas used by C13.
-/
import PyPred.Lemmas.Beq

set_option linter.unusedSectionVars false

namespace PyPred
variable {V : Type} [DecidableEq V] [LT V] [LE V] [DecidableLT V] [DecidableLE V]

/-- C04. No hypothesis on the order is needed: the totalised semantics makes
`le`/`lt` the complements of `gt`/`ge` by definition, and on scalars of a linear
order they are the usual relations (`C04_le_is_le` in Props/C04). -/
theorem negate_sound (I : Interp V) (p : Pred V) (x : Val V) :
    eval I (negate p) x = !eval I p x := by
  cases p <;> simp [negate, eval]

theorem negate_atom_involutive (p : Pred V) (h : p.isAtom = true) : negate (negate p) = p := by
  cases p <;> simp_all [negate, Pred.isAtom]

theorem negate_not (p : Pred V) : negate (.not p) = p := rfl

/-- An atom is never `==` to its own negation. -/
theorem beq_negate_atom (p : Pred V) (h : p.isAtom = true) : Pred.beq p (negate p) = false := by
  cases p <;> simp_all [negate, Pred.isAtom, Pred.beq]

theorem beq_negate_atom' (p : Pred V) (h : p.isAtom = true) : Pred.beq (negate p) p = false := by
  rw [beq_symm]; exact beq_negate_atom p h

/-- `p == negate q` makes `p` the complement of `q`. -/
theorem beq_negate_sound (I : Interp V) {p q : Pred V} (h : Pred.beq p (negate q) = true) (x : Val V) :
    eval I p x = !eval I q x := by
  rw [beq_sound I h, negate_sound]

end PyPred
