/-
Instances of the generic closure theorem (Lemmas/Closure.lean):
  * the constants of `optimize p` are constants of `p`;
  * the *comparison* constants (bounds of ge/gt/le/lt and of the four ranges) of
    `optimize p` are comparison constants of `p` — so the optimised predicate
    compares its argument with nothing the original did not compare it with
    (wherever all comparisons of the original are defined, e.g. no `TypeError`
    between an `int` bound and a `str` value, so are those of the result).
-/
import PyPred.Lemmas.Closure

set_option linter.unusedSectionVars false
set_option linter.unusedVariables false
set_option linter.unusedSimpArgs false

namespace PyPred
variable {V : Type} [DecidableEq V] [LT V] [LE V] [DecidableLT V] [DecidableLE V]

/-- All constants occurring in the atoms of a tree. -/
def Pred.consts : Pred V → List V
  | .eq v | .ne v | .ge v | .gt v | .le v | .lt v => [v]
  | .gele a b | .gelt a b | .gtle a b | .gtlt a b => [a, b]
  | .isin s | .notin s | .subset s | .rsubset s | .superset s | .rsuperset s => s
  | .box _ _ c => c.consts
  | .kcons h t => h.consts ++ t.consts
  | .and l r | .or l r | .xor l r => l.consts ++ r.consts
  | .not p | .all p | .any p => p.consts
  | _ => []

/-- The constants the argument is compared with by `<`, `<=`, `>`, `>=`. -/
def Pred.cmpConsts : Pred V → List V
  | .ge v | .gt v | .le v | .lt v => [v]
  | .gele a b | .gelt a b | .gtle a b | .gtlt a b => [a, b]
  | .box _ _ c => c.cmpConsts
  | .kcons h t => h.cmpConsts ++ t.cmpConsts
  | .and l r | .or l r | .xor l r => l.cmpConsts ++ r.cmpConsts
  | .not p | .all p | .any p => p.cmpConsts
  | _ => []

theorem consts_negate (p : Pred V) : (negate p).consts = p.consts := by
  cases p <;> simp [negate, Pred.consts]

theorem cmpConsts_negate (p : Pred V) : (negate p).cmpConsts = p.cmpConsts := by
  cases p <;> simp [negate, Pred.cmpConsts]

theorem pclass_consts (S : V → Prop) : PClass (fun p : Pred V => ∀ a, a ∈ p.consts → S a) where
  and_ l r := by simp [Pred.consts]; grind
  or_ l r := by simp [Pred.consts]; grind
  xor_ l r := by simp [Pred.consts]; grind
  not_ q := by simp [Pred.consts]
  all_ q := by simp [Pred.consts]
  any_ q := by simp [Pred.consts]
  tt_ := by simp [Pred.consts]
  ff_ := by simp [Pred.consts]
  neg p h := by simpa [consts_negate] using h
  isEmpty_ := by simp [Pred.consts]
  isNotEmpty_ := by simp [Pred.consts]
  gele a b := by simp [Pred.consts]; exact fun ha hb => ⟨ha, hb⟩
  gelt a b := by simp [Pred.consts]; exact fun ha hb => ⟨ha, hb⟩
  gtle a b := by simp [Pred.consts]; exact fun ha hb => ⟨ha, hb⟩
  gtlt a b := by simp [Pred.consts]; exact fun ha hb => ⟨ha, hb⟩
  ge_eq a := by simp [Pred.consts]
  eq_isin a := by simp [Pred.consts]
  isin_eq s a h ha := by simp [Pred.consts] at h ⊢; exact h a ha
  isin_mix s t u hs ht hu := by
    simp [Pred.consts] at hs ht ⊢
    intro a ha
    rcases hu a ha with h | h
    · exact hs a h
    · exact ht a h
  subset_sub s t hs ht := by
    simp [Pred.consts] at hs ⊢
    intro a ha
    exact hs a (ht a ha)

theorem pclass_cmpConsts (S : V → Prop) : PClass (fun p : Pred V => ∀ a, a ∈ p.cmpConsts → S a) where
  and_ l r := by simp [Pred.cmpConsts]; grind
  or_ l r := by simp [Pred.cmpConsts]; grind
  xor_ l r := by simp [Pred.cmpConsts]; grind
  not_ q := by simp [Pred.cmpConsts]
  all_ q := by simp [Pred.cmpConsts]
  any_ q := by simp [Pred.cmpConsts]
  tt_ := by simp [Pred.cmpConsts]
  ff_ := by simp [Pred.cmpConsts]
  neg p h := by simpa [cmpConsts_negate] using h
  isEmpty_ := by simp [Pred.cmpConsts]
  isNotEmpty_ := by simp [Pred.cmpConsts]
  gele a b := by simp [Pred.cmpConsts]; exact fun ha hb => ⟨ha, hb⟩
  gelt a b := by simp [Pred.cmpConsts]; exact fun ha hb => ⟨ha, hb⟩
  gtle a b := by simp [Pred.cmpConsts]; exact fun ha hb => ⟨ha, hb⟩
  gtlt a b := by simp [Pred.cmpConsts]; exact fun ha hb => ⟨ha, hb⟩
  ge_eq a := by simp [Pred.cmpConsts]
  eq_isin a := by simp [Pred.cmpConsts]
  isin_eq s a h ha := by simp [Pred.cmpConsts]
  isin_mix s t u hs ht hu := by simp [Pred.cmpConsts]
  subset_sub s t hs ht := by simp [Pred.cmpConsts]

/-- `optimize` invents no constants. -/
theorem consts_optimize (cfg : Cfg) (fnc : Nat → V → Bool) (n : Nat) {p o : Pred V}
    (h : optimize cfg fnc n p = some o) : ∀ a, a ∈ o.consts → a ∈ p.consts :=
  optimize_closed (pclass_consts (fun a => a ∈ p.consts)) cfg fnc n h (fun _ ha => ha)

/-- `optimize` compares its argument with no new bound. -/
theorem cmpConsts_optimize (cfg : Cfg) (fnc : Nat → V → Bool) (n : Nat) {p o : Pred V}
    (h : optimize cfg fnc n p = some o) : ∀ a, a ∈ o.cmpConsts → a ∈ p.cmpConsts :=
  optimize_closed (pclass_cmpConsts (fun a => a ∈ p.cmpConsts)) cfg fnc n h (fun _ ha => ha)

end PyPred
