/-
The cost invariant for the dispatcher and the iteration: every answered call of the ticked
optimizer satisfies `Cst`, hence `cost ≤ 3 * w p * (M p + 1 - M o) ≤ 12 * (w p)^2`.
-/
import PyPred.Lemmas.PolyXor

set_option linter.unusedSectionVars false
set_option linter.unusedVariables false
set_option linter.unusedSimpArgs false
set_option linter.unnecessarySeqFocus false

namespace PyPred
open PolyArith
variable {V : Type} [DecidableEq V] [LT V] [LE V] [DecidableLT V] [DecidableLE V]

theorem Cst.refl_leaf {p o : Pred V} (hM : M o ≤ M p) (hi : ia o = ia p) : Cst p o (0 + 1) := by
  have := esw_le p
  have := w_pos p
  exact ⟨1, by omega, by omega, by omega, by omega⟩

/-- One invocation on `p`, given an oracle that satisfies the invariant below `p`. -/
theorem step_cst (cfg : Cfg) (fnc : Nat → V → Bool) {rec : Pred V → R V} {p : Pred V}
    (hrec : NiceC p rec) : AnsC (step cfg fnc rec p) (fun o n => Cst p o (n + 1)) := by
  unfold step
  split
  · exact stepAll_cst hrec
  · exact stepAnd_cst cfg fnc hrec
  · exact stepAny_cst cfg hrec
  · exact stepNot_cst hrec
  · exact stepOr_cst hrec
  · exact stepXor_cst cfg hrec
  · exact AnsC.ret (Cst.refl_leaf (by rw [M_optIn]; simp [M, X, w]) (by rw [ia_optIn]; simp [ia, Pred.isAnd]))
  · exact AnsC.ret (Cst.refl_leaf (Nat.le_trans (M_optNotIn _) (by simp [M, X, w]))
      (by rw [ia_optNotIn]; simp [ia, Pred.isAnd]))
  · exact AnsC.ret (Cst.refl_leaf (Nat.le_refl _) rfl)

/-- The ticked run of fuel `n` answers every term of measure `< n` with the weight facts and the
cost invariant. -/
theorem optimizeK_cst (cfg : Cfg) (fnc : Nat → V → Bool) (n : Nat) (p : Pred V) (h : μ p < n) :
    AnsC (optimizeK cfg fnc n p) (fun o k => Post p o ∧ Cst p o k) := by
  induction n generalizing p with
  | zero => omega
  | succ n ih =>
    have h1 : AnsC (optimizeK cfg fnc (n + 1) p) (Cst p) :=
      (step_cst cfg fnc fun t ht => ih t (by omega)).tick
    exact AnsC.both (optimizeK_nice cfg fnc (n + 1) p h) h1

/-- Cost in terms of the potential released: linear when none is. -/
theorem cost_le_potential (cfg : Cfg) (fnc : Nat → V → Bool) (p : Pred V) :
    ∃ o tr, optimizeK cfg fnc (μ p + 1) p = some (o, tr) ∧ w o ≤ w p ∧ M o ≤ M p ∧
      tr.length ≤ 3 * (w p * (M p + 1 - M o)) := by
  obtain ⟨o, tr, h, hpost, r, hr1, hc, hm1, hm2⟩ := optimizeK_cst cfg fnc (μ p + 1) p (by omega)
  have := ia_le p
  have := ia_le o
  refine ⟨o, tr, h, hpost.1, by omega, ?_⟩
  have hr : r ≤ M p + 1 - M o := by omega
  exact Nat.le_trans (Nat.le_of_add_right_le hc) (Nat.mul_le_mul_left 3 (Nat.mul_le_mul_left _ hr))

/-- Quadratic bound on the length of the ticked trace (invocations + quirk arms fired). -/
theorem cost_quadratic (cfg : Cfg) (fnc : Nat → V → Bool) (p : Pred V) :
    ∃ c, cost cfg fnc (μ p + 1) p = some c ∧ c ≤ 12 * (w p) ^ 2 := by
  obtain ⟨o, tr, h, _, _, hl⟩ := cost_le_potential cfg fnc p
  refine ⟨tr.length, by simp [cost, h], ?_⟩
  have h1 := M_le p
  have h2 := M_ge o
  have h3 : M p + 1 - M o ≤ 4 * w p := by omega
  calc tr.length ≤ 3 * (w p * (M p + 1 - M o)) := hl
    _ ≤ 3 * (w p * (4 * w p)) := Nat.mul_le_mul_left 3 (Nat.mul_le_mul_left _ h3)
    _ = 12 * (w p) ^ 2 := by rw [Nat.pow_two, Nat.mul_left_comm (w p) 4 (w p), ← Nat.mul_assoc]

end PyPred
