/-
`Pred.beq` (Python `==` on predicates): soundness w.r.t. `eval`, reflexivity,
symmetry.
-/
import PyPred.Lemmas.Sets

set_option linter.unusedSectionVars false

namespace PyPred
variable {V : Type} [DecidableEq V] [LT V] [LE V] [DecidableLT V] [DecidableLE V]

theorem onSc_contains_congr {s t : List V} (h : ∀ a, a ∈ s ↔ a ∈ t) (x : Val V) :
    onSc (fun a => s.contains a) x = onSc (fun a => t.contains a) x := by
  cases x <;> simp [onSc, h]

theorem onSc_mem_congr {s t : List V} (h : ∀ a, a ∈ s ↔ a ∈ t) (x : Val V) :
    onSc (fun a => decide (a ∈ s)) x = onSc (fun a => decide (a ∈ t)) x := by
  cases x <;> simp [onSc, h]

theorem beq_comm' {α : Type} [BEq α] [LawfulBEq α] (a b : α) : (a == b) = (b == a) := by
  rw [Bool.eq_iff_iff]; simp only [beq_iff_eq]; exact eq_comm

theorem subOf_congr {s t : List V} (h : ∀ a, a ∈ s ↔ a ∈ t) (x : Val V) : subOf x s = subOf x t := by
  unfold subOf
  congr 1
  funext y
  exact onSc_contains_congr h y

theorem supOf_congr {s t : List V} (h : ∀ a, a ∈ s ↔ a ∈ t) (x : Val V) : supOf x s = supOf x t := by
  unfold supOf
  rw [Bool.eq_iff_iff]
  simp only [List.all_eq_true]
  constructor
  · intro h1 a ha; exact h1 a ((h a).2 ha)
  · intro h1 a ha; exact h1 a ((h a).1 ha)

theorem beq_sound_aux (I : Interp V) (p : Pred V) :
    ∀ q, Pred.beq p q = true → (∀ x, eval I p x = eval I q x) ∧ kidsSem I p = kidsSem I q := by
  induction p with
  | and a b iha ihb | or a b iha ihb | xor a b iha ihb =>
    intro q h
    cases q <;> simp [Pred.beq] at h
    all_goals (
      rcases h with ⟨h1, h2⟩ | ⟨h1, h2⟩
      · have e1 := (iha _ h1).1; have e2 := (ihb _ h2).1
        simp [eval, kidsSem, e1, e2]
      · have e1 := (iha _ h1).1; have e2 := (ihb _ h2).1
        simp [eval, kidsSem, e1, e2, Bool.and_comm, Bool.or_comm, bne_comm])
  | not a ih | all a ih | any a ih =>
    intro q h
    cases q <;> simp [Pred.beq] at h
    all_goals (have e := (ih _ h).1; simp [eval, kidsSem, e])
  | box k ps c ih =>
    intro q h
    cases q <;> simp [Pred.beq] at h
    obtain ⟨⟨h1, h2⟩, h3⟩ := h
    have e := (ih _ h3).2
    simp [eval, kidsSem, e, h1, h2]
  | kcons a b iha ihb =>
    intro q h
    cases q <;> simp [Pred.beq] at h
    obtain ⟨h1, h2⟩ := h
    have e1 := (iha _ h1).1; have e2 := (ihb _ h2).2
    refine ⟨by simp [eval], ?_⟩
    simp only [kidsSem, e2]
    congr 1
    funext x; exact e1 x
  | isin s | notin s | subset s | rsubset s | superset s | rsuperset s =>
    intro q h
    cases q <;> simp [Pred.beq] at h
    all_goals simp [eval, kidsSem, onSc_mem_congr h, subOf_congr h, supOf_congr h]
  | _ =>
    intro q h
    cases q <;> simp [Pred.beq] at h
    all_goals (try subst_vars); all_goals (try (obtain ⟨rfl, rfl⟩ := h)); all_goals simp [eval, kidsSem]

/-- C06: `p == q` implies `p` and `q` agree on every value, under every
interpretation of the opaque atoms. -/
theorem beq_sound (I : Interp V) {p q : Pred V} (h : Pred.beq p q = true) (x : Val V) :
    eval I p x = eval I q x := (beq_sound_aux I p q h).1 x

theorem beq_refl (p : Pred V) : Pred.beq p p = true := by
  induction p <;> simp_all [Pred.beq]

theorem beq_symm (p : Pred V) : ∀ q, Pred.beq p q = Pred.beq q p := by
  induction p with
  | and a b iha ihb | or a b iha ihb | xor a b iha ihb =>
    intro q; cases q <;> simp [Pred.beq]
    all_goals (rw [iha, ihb, iha, ihb]; simp [Bool.and_comm])
  | not a ih | all a ih | any a ih =>
    intro q; cases q <;> simp [Pred.beq, ih]
  | box k ps c ih =>
    intro q; cases q <;> simp [Pred.beq, ih]
    rename_i k' ps' c'
    rw [beq_comm' k, beq_comm' ps]
  | kcons a b iha ihb => intro q; cases q <;> simp [Pred.beq, iha, ihb]
  | isin s | notin s | subset s | rsubset s | superset s | rsuperset s =>
    intro q; cases q <;> simp [Pred.beq]
    all_goals (rw [Bool.eq_iff_iff]; simp only [seteq_iff]; exact ⟨fun h a => (h a).symm, fun h a => (h a).symm⟩)
  | var n v => intro q; cases q <;> simp [Pred.beq]; rename_i m w; rw [beq_comm' n, beq_comm' v]
  | leaf k ps => intro q; cases q <;> simp [Pred.beq]; rename_i m w; rw [beq_comm' k, beq_comm' ps]
  | gele a b | gelt a b | gtle a b | gtlt a b =>
    intro q; cases q <;> simp [Pred.beq]
    all_goals (rename_i c d; rw [beq_comm' a, beq_comm' b])
  | fn i | eq v | ne v | ge v | gt v | le v | lt v | inst k =>
    intro q; cases q <;> simp [Pred.beq]
    all_goals (rename_i w; exact beq_comm' _ w)
  | _ => intro q; cases q <;> simp [Pred.beq]

end PyPred
