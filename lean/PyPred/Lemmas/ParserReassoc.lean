/-
Every reading (ambiguous grammar `Rd`) can be re-bracketed into a derivation of the
precedence grammar `Pr`: the two grammars have the same language.  With
`pr_parse` this is the completeness of the reference parser for the expression
language.
-/
import PyPred.Lemmas.ParserComplete

namespace PyPred
namespace Parser

theorem orJoin {l a} (hl : Pr 0 l a) : ∀ {k r b}, Pr k r b → k = 0 → ∃ c, Pr 0 (l ++ .or :: r) c := by
  intro k r b h
  induction h <;> intro hk <;> try omega
  case up0 ts t h _ => exact ⟨_, .or hl h⟩
  case or r1 r2 b1 b2 _ h2 ih1 _ =>
    obtain ⟨c, hc⟩ := ih1 rfl
    exact ⟨_, by simpa [List.append_assoc] using Pr.or hc h2⟩

theorem andJoin1 {l a} (hl : Pr 1 l a) : ∀ {k r b}, Pr k r b → k = 1 → ∃ c, Pr 1 (l ++ .and :: r) c := by
  intro k r b h
  induction h <;> intro hk <;> try omega
  case up1 ts t h _ => exact ⟨_, .and hl h⟩
  case and r1 r2 b1 b2 _ h2 ih1 _ =>
    obtain ⟨c, hc⟩ := ih1 rfl
    exact ⟨_, by simpa [List.append_assoc] using Pr.and hc h2⟩

theorem andJoin0r {l a} (hl : Pr 1 l a) : ∀ {k r b}, Pr k r b → k = 0 → ∃ c, Pr 0 (l ++ .and :: r) c := by
  intro k r b h
  induction h <;> intro hk <;> try omega
  case up0 ts t h _ =>
    obtain ⟨c, hc⟩ := andJoin1 hl h rfl
    exact ⟨c, .up0 hc⟩
  case or r1 r2 b1 b2 _ h2 ih1 _ =>
    obtain ⟨c, hc⟩ := ih1 rfl
    exact ⟨_, by simpa [List.append_assoc] using Pr.or hc h2⟩

theorem andJoin {r b} (hr : Pr 0 r b) : ∀ {k l a}, Pr k l a → k = 0 → ∃ c, Pr 0 (l ++ .and :: r) c := by
  intro k l a h
  induction h <;> intro hk <;> try omega
  case up0 ts t h _ => exact andJoin0r h hr rfl
  case or l1 l2 a1 a2 h1 h2 _ _ =>
    obtain ⟨c2, hc2⟩ := andJoin0r h2 hr rfl
    obtain ⟨c, hc⟩ := orJoin h1 hc2 rfl
    exact ⟨c, by simpa [List.append_assoc] using hc⟩

theorem xorJoin2 {l a} (hl : Pr 2 l a) : ∀ {k r b}, Pr k r b → k = 2 → ∃ c, Pr 2 (l ++ .xor :: r) c := by
  intro k r b h
  induction h <;> intro hk <;> try omega
  case up2 ts t h _ => exact ⟨_, .xor hl h⟩
  case xor r1 r2 b1 b2 _ h2 ih1 _ =>
    obtain ⟨c, hc⟩ := ih1 rfl
    exact ⟨_, by simpa [List.append_assoc] using Pr.xor hc h2⟩

theorem xorJoin1r {l a} (hl : Pr 2 l a) : ∀ {k r b}, Pr k r b → k = 1 → ∃ c, Pr 1 (l ++ .xor :: r) c := by
  intro k r b h
  induction h <;> intro hk <;> try omega
  case up1 ts t h _ =>
    obtain ⟨c, hc⟩ := xorJoin2 hl h rfl
    exact ⟨c, .up1 hc⟩
  case and r1 r2 b1 b2 _ h2 ih1 _ =>
    obtain ⟨c, hc⟩ := ih1 rfl
    exact ⟨_, by simpa [List.append_assoc] using Pr.and hc h2⟩

theorem xorJoin0r {l a} (hl : Pr 2 l a) : ∀ {k r b}, Pr k r b → k = 0 → ∃ c, Pr 0 (l ++ .xor :: r) c := by
  intro k r b h
  induction h <;> intro hk <;> try omega
  case up0 ts t h _ =>
    obtain ⟨c, hc⟩ := xorJoin1r hl h rfl
    exact ⟨c, .up0 hc⟩
  case or r1 r2 b1 b2 _ h2 ih1 _ =>
    obtain ⟨c, hc⟩ := ih1 rfl
    exact ⟨_, by simpa [List.append_assoc] using Pr.or hc h2⟩

theorem xorJoin1l {r b} (hr : Pr 0 r b) : ∀ {k l a}, Pr k l a → k = 1 → ∃ c, Pr 0 (l ++ .xor :: r) c := by
  intro k l a h
  induction h <;> intro hk <;> try omega
  case up1 ts t h _ => exact xorJoin0r h hr rfl
  case and l1 l2 a1 a2 h1 h2 _ _ =>
    obtain ⟨c2, hc2⟩ := xorJoin0r h2 hr rfl
    obtain ⟨c, hc⟩ := andJoin0r h1 hc2 rfl
    exact ⟨c, by simpa [List.append_assoc] using hc⟩

theorem xorJoin {r b} (hr : Pr 0 r b) : ∀ {k l a}, Pr k l a → k = 0 → ∃ c, Pr 0 (l ++ .xor :: r) c := by
  intro k l a h
  induction h <;> intro hk <;> try omega
  case up0 ts t h _ => exact xorJoin1l hr h rfl
  case or l1 l2 a1 a2 h1 h2 _ _ =>
    obtain ⟨c2, hc2⟩ := xorJoin1l hr h2 rfl
    obtain ⟨c, hc⟩ := orJoin h1 hc2 rfl
    exact ⟨c, by simpa [List.append_assoc] using hc⟩

/-- every reading has a precedence reading of the same tokens -/
theorem rd_pr : ∀ {b ts t}, Rd b ts t → ∃ t', Pr (if b then 3 else 0) ts t' := by
  intro b ts t h
  induction h with
  | name s => exact ⟨_, .name s⟩
  | tt => exact ⟨_, .tt⟩
  | ff => exact ⟨_, .ff⟩
  | grp _ ih => obtain ⟨c, hc⟩ := ih; exact ⟨c, .grp hc⟩
  | not _ ih => obtain ⟨c, hc⟩ := ih; exact ⟨_, .not hc⟩
  | up _ ih => obtain ⟨c, hc⟩ := ih; exact ⟨c, .up0 (.up1 (.up2 hc))⟩
  | and _ _ ih1 ih2 =>
    obtain ⟨c1, h1⟩ := ih1; obtain ⟨c2, h2⟩ := ih2
    exact andJoin h2 h1 rfl
  | or _ _ ih1 ih2 =>
    obtain ⟨c1, h1⟩ := ih1; obtain ⟨c2, h2⟩ := ih2
    exact orJoin h1 h2 rfl
  | xor _ _ ih1 ih2 =>
    obtain ⟨c1, h1⟩ := ih1; obtain ⟨c2, h2⟩ := ih2
    exact xorJoin h2 h1 rfl

/-- Completeness of the reference parser for the expression language. -/
theorem parse_complete {ts : List Token} {t : Tree} (h : Reading ts t) : ∃ t', parse ts = some t' := by
  obtain ⟨c, hc⟩ := rd_pr h
  exact ⟨c, pr_parse hc⟩

end Parser
end PyPred
