/-
Every derivation of the reference grammar is turned by Lark's tree builder and `_PredicateTransformer`
into a tree that is a `Bracketing` of the derived tokens.
-/
import PyPred.Lemmas.GrammarBasic

namespace PyPred
namespace Grammar
open Parser

theorem wfs_one {rules : List Rule} {s : Sym} {cs : List DTree} (h : wfs rules [s] cs = true) :
    ∃ c, cs = [c] ∧ wf rules s c = true := by
  obtain ⟨c, cs', rfl, h1, h2⟩ := wfs_cons.1 h
  rw [wfs_nil.1 h2]; exact ⟨c, rfl, h1⟩

theorem wfs_two {rules : List Rule} {s1 s2 : Sym} {cs : List DTree} (h : wfs rules [s1, s2] cs = true) :
    ∃ c1 c2, cs = [c1, c2] ∧ wf rules s1 c1 = true ∧ wf rules s2 c2 = true := by
  obtain ⟨c, cs', rfl, h1, h2⟩ := wfs_cons.1 h
  obtain ⟨c2, rfl, h3⟩ := wfs_one h2
  exact ⟨c, c2, rfl, h1, h3⟩

theorem wfs_three {rules : List Rule} {s1 s2 s3 : Sym} {cs : List DTree} (h : wfs rules [s1, s2, s3] cs = true) :
    ∃ c1 c2 c3, cs = [c1, c2, c3] ∧ wf rules s1 c1 = true ∧ wf rules s2 c2 = true ∧ wf rules s3 c3 = true := by
  obtain ⟨c, cs', rfl, h1, h2⟩ := wfs_cons.1 h
  obtain ⟨c2, c3, rfl, h3, h4⟩ := wfs_two h2
  exact ⟨c, c2, c3, rfl, h1, h3, h4⟩

/-- an alternative of `?expression`: the node is replaced by its only child -/
theorem good_expand1 {o : NT} {B : NT} {cs : List DTree}
    (ih : ∀ c ∈ cs, ∀ A, wf reference (.nt A) c = true → Good c)
    (hw : wfs reference (mk1 o [.nt B]).expansion cs = true) : Good (.node (mk1 o [.nt B]) cs) := by
  obtain ⟨c, rfl, hc⟩ := wfs_one hw
  obtain ⟨t, ht, hb⟩ := ih c (by simp) B hc
  refine ⟨t, ?_, ?_⟩
  · simpa [shape, shapes, mk1, mk, Sym.filtered] using ht
  · simpa [yield, yields] using hb

/-- `predicate : expression | variable`: the callback returns its only item -/
theorem good_predicate {B : NT} {cs : List DTree}
    (ih : ∀ c ∈ cs, ∀ A, wf reference (.nt A) c = true → Good c)
    (hw : wfs reference (mk .predicate [.nt B]).expansion cs = true) : Good (.node (mk .predicate [.nt B]) cs) := by
  obtain ⟨c, rfl, hc⟩ := wfs_one hw
  obtain ⟨t, ht, hb⟩ := ih c (by simp) B hc
  refine ⟨t, ?_, ?_⟩
  · simp [shape, shapes, mk, Sym.filtered, transform, transforms, ht, callback]
  · simpa [yield, yields] using hb

theorem good_and {cs : List DTree} (ih : ∀ c ∈ cs, ∀ A, wf reference (.nt A) c = true → Good c)
    (hw : wfs reference rAnd.expansion cs = true) : Good (.node rAnd cs) := by
  obtain ⟨c1, c2, c3, rfl, h1, h2, h3⟩ := wfs_three hw
  obtain ⟨tok, rfl, hm⟩ := wf_t.1 h2
  have := matches_amp hm; subst this
  obtain ⟨a, ha, hba⟩ := ih c1 (by simp) _ h1
  obtain ⟨b, hb, hbb⟩ := ih c3 (by simp) _ h3
  refine ⟨.and a b, ?_, ?_⟩
  · simp [shape, shapes, rAnd, P, mk, Sym.filtered, transform, transforms, ha, hb, callback]
  · simpa [yield, yields] using Bracketing.and hba hbb

theorem good_or {cs : List DTree} (ih : ∀ c ∈ cs, ∀ A, wf reference (.nt A) c = true → Good c)
    (hw : wfs reference rOr.expansion cs = true) : Good (.node rOr cs) := by
  obtain ⟨c1, c2, c3, rfl, h1, h2, h3⟩ := wfs_three hw
  obtain ⟨tok, rfl, hm⟩ := wf_t.1 h2
  have := matches_vbar hm; subst this
  obtain ⟨a, ha, hba⟩ := ih c1 (by simp) _ h1
  obtain ⟨b, hb, hbb⟩ := ih c3 (by simp) _ h3
  refine ⟨.or a b, ?_, ?_⟩
  · simp [shape, shapes, rOr, P, mk, Sym.filtered, transform, transforms, ha, hb, callback]
  · simpa [yield, yields] using Bracketing.or hba hbb

theorem good_xor {cs : List DTree} (ih : ∀ c ∈ cs, ∀ A, wf reference (.nt A) c = true → Good c)
    (hw : wfs reference rXor.expansion cs = true) : Good (.node rXor cs) := by
  obtain ⟨c1, c2, c3, rfl, h1, h2, h3⟩ := wfs_three hw
  obtain ⟨tok, rfl, hm⟩ := wf_t.1 h2
  have := matches_circ hm; subst this
  obtain ⟨a, ha, hba⟩ := ih c1 (by simp) _ h1
  obtain ⟨b, hb, hbb⟩ := ih c3 (by simp) _ h3
  refine ⟨.xor a b, ?_, ?_⟩
  · simp [shape, shapes, rXor, P, mk, Sym.filtered, transform, transforms, ha, hb, callback]
  · simpa [yield, yields] using Bracketing.xor hba hbb

theorem good_grouped {cs : List DTree} (ih : ∀ c ∈ cs, ∀ A, wf reference (.nt A) c = true → Good c)
    (hw : wfs reference rGrouped.expansion cs = true) : Good (.node rGrouped cs) := by
  obtain ⟨c1, c2, c3, rfl, h1, h2, h3⟩ := wfs_three hw
  obtain ⟨tok1, rfl, hm1⟩ := wf_t.1 h1
  obtain ⟨tok3, rfl, hm3⟩ := wf_t.1 h3
  have := matches_lpar hm1; subst this
  have := matches_rpar hm3; subst this
  obtain ⟨a, ha, hba⟩ := ih c2 (by simp) _ h2
  refine ⟨a, ?_, ?_⟩
  · simp [shape, shapes, rGrouped, P, mk, Sym.filtered, transform, transforms, ha, callback]
  · simpa [yield, yields] using Bracketing.grp hba

theorem good_not {cs : List DTree} (ih : ∀ c ∈ cs, ∀ A, wf reference (.nt A) c = true → Good c)
    (hw : wfs reference rNot.expansion cs = true) : Good (.node rNot cs) := by
  obtain ⟨c1, c2, rfl, h1, h2⟩ := wfs_two hw
  obtain ⟨tok1, rfl, hm1⟩ := wf_t.1 h1
  have := matches_tilde hm1; subst this
  obtain ⟨a, ha, hba⟩ := ih c2 (by simp) _ h2
  refine ⟨.not a, ?_, ?_⟩
  · simp [shape, shapes, rNot, P, mk, Sym.filtered, transform, transforms, ha, callback]
  · simpa [yield, yields] using Bracketing.not hba

theorem good_false {cs : List DTree} (hw : wfs reference rFalse.expansion cs = true) : Good (.node rFalse cs) := by
  obtain ⟨c1, rfl, h1⟩ := wfs_one hw
  obtain ⟨tok1, rfl, hm1⟩ := wf_t.1 h1
  have := matches_false hm1; subst this
  refine ⟨.ff, ?_, ?_⟩
  · simp [shape, shapes, rFalse, mk, Sym.filtered, transform, transforms, callback]
  · simpa [yield, yields] using Bracketing.ff

theorem good_true {cs : List DTree} (hw : wfs reference rTrue.expansion cs = true) : Good (.node rTrue cs) := by
  obtain ⟨c1, rfl, h1⟩ := wfs_one hw
  obtain ⟨tok1, rfl, hm1⟩ := wf_t.1 h1
  have := matches_true hm1; subst this
  refine ⟨.tt, ?_, ?_⟩
  · simp [shape, shapes, rTrue, mk, Sym.filtered, transform, transforms, callback]
  · simpa [yield, yields] using Bracketing.tt

theorem good_variable {cs : List DTree} (hw : wfs reference rVariable.expansion cs = true) : Good (.node rVariable cs) := by
  obtain ⟨c1, rfl, h1⟩ := wfs_one hw
  obtain ⟨tok1, rfl, hm1⟩ := wf_t.1 h1
  obtain ⟨s, rfl⟩ := matches_word hm1
  refine ⟨.var s, ?_, ?_⟩
  · simp [shape, shapes, rVariable, mk, Sym.filtered, transform, transforms, callback, Token.chars]
  · simpa [yield, yields] using Bracketing.name s

/-- **every** sub-derivation of the reference grammar (whatever its non-terminal) is built into a predicate tree
that is a bracketing of its tokens -/
theorem good_of_wf : ∀ (d : DTree) (A : NT), wf reference (.nt A) d = true → Good d := by
  intro d
  induction d using DTree.ind with
  | leaf t => intro A h; simp [wf] at h
  | node r cs ih =>
    intro A h
    obtain ⟨r', cs', e, hr, _, hw⟩ := wf_nt.1 h
    injection e with e1 e2; subst e1; subst e2
    simp only [reference, List.mem_cons, List.not_mem_nil, or_false] at hr
    rcases hr with rfl | rfl | rfl | rfl | rfl | rfl | rfl | rfl | rfl | rfl | rfl | rfl | rfl | rfl | rfl | rfl | rfl
    · exact good_and ih hw
    · exact good_expand1 ih hw
    · exact good_expand1 ih hw
    · exact good_expand1 ih hw
    · exact good_expand1 ih hw
    · exact good_expand1 ih hw
    · exact good_expand1 ih hw
    · exact good_expand1 ih hw
    · exact good_false hw
    · exact good_grouped ih hw
    · exact good_not ih hw
    · exact good_or ih hw
    · exact good_predicate ih hw
    · exact good_predicate ih hw
    · exact good_true hw
    · exact good_variable hw
    · exact good_xor ih hw

theorem isDerivation_iff {rules : List Rule} {A : NT} {ts : List Token} {d : DTree} :
    isDerivation rules A ts d = true ↔ wf rules (.nt A) d = true ∧ yield d = ts := by
  simp [isDerivation]

theorem derivation_bracketing {A : NT} {ts : List Token} {d : DTree} (h : isDerivation reference A ts d = true) :
    ∃ t, build d = some t ∧ Bracketing ts t := by
  obtain ⟨hw, rfl⟩ := isDerivation_iff.1 h
  obtain ⟨t, ht, hb⟩ := good_of_wf d A hw
  exact ⟨t, by simp [build, ht], hb⟩

end Grammar
end PyPred
