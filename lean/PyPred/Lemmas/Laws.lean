/-
Behaviour of the optimizer model on atoms: one step, no change except the
empty / singleton collapse of in_p / not_in_p.  Used by C13.
-/
import PyPred.Lemmas.Negate
import PyPred.Lemmas.Mono

set_option linter.unusedSectionVars false
set_option linter.unusedVariables false

namespace PyPred
variable {V : Type} [DecidableEq V] [LT V] [LE V] [DecidableLT V] [DecidableLE V]

/-- `optimize` on an atom. -/
def atomOpt (p : Pred V) : Pred V :=
  match p with
  | .isin s => optIn s
  | .notin s => optNotIn s
  | p => p

theorem optIn_cases (s : List V) : optIn s = .ff ∨ (∃ a, optIn s = .eq a) ∨ optIn s = .isin s := by
  unfold optIn; split <;> simp

theorem optNotIn_cases (s : List V) : optNotIn s = .tt ∨ (∃ a, optNotIn s = .ne a) ∨ optNotIn s = .notin s := by
  unfold optNotIn; split <;> simp

theorem optimizeT_atom (cfg : Cfg) (fnc : Nat → V → Bool) (n : Nat) (p : Pred V) (h : p.isAtom = true) :
    optimizeT cfg fnc (n + 1) p = some (atomOpt p, []) := by
  cases p <;> simp_all [optimizeT, step, Pred.isAtom, atomOpt, ret]

theorem atomOpt_isAtom (p : Pred V) (h : p.isAtom = true) : (atomOpt p).isAtom = true := by
  cases p <;> simp_all [atomOpt, Pred.isAtom]
  · rename_i s; rcases optIn_cases s with h | ⟨a, h⟩ | h <;> simp [h, Pred.isAtom]
  · rename_i s; rcases optNotIn_cases s with h | ⟨a, h⟩ | h <;> simp [h, Pred.isAtom]

theorem atomOpt_idem (p : Pred V) (h : p.isAtom = true) : atomOpt (atomOpt p) = atomOpt p := by
  cases p <;> simp_all [atomOpt, Pred.isAtom]
  · rename_i s; rcases optIn_cases s with h | ⟨a, h⟩ | h <;> simp [h]
  · rename_i s; rcases optNotIn_cases s with h | ⟨a, h⟩ | h <;> simp [h]

/-- `optimize(~p)` for an atom `p`. -/
theorem optimizeT_not_atom (cfg : Cfg) (fnc : Nat → V → Bool) (n : Nat) (p : Pred V) (h : p.isAtom = true) :
    optimizeT cfg fnc (n + 2) (.not p) = some (negate (atomOpt p), []) := by
  have ha := atomOpt_isAtom p h
  have hr : optimizeT cfg fnc (n + 1) p = some (atomOpt p, []) := optimizeT_atom cfg fnc n p h
  have hnp : stepNot (optimizeT cfg fnc (n + 1)) p = bindR (optimizeT cfg fnc (n + 1) p) fun o => ret (notPost o) := by
    cases p <;> simp_all [stepNot, Pred.isAtom]
  have hpost : notPost (atomOpt p) = negate (atomOpt p) := by
    generalize atomOpt p = o at ha
    cases o <;> simp_all [notPost, Pred.isAtom]
  show step cfg fnc (optimizeT cfg fnc (n + 1)) (.not p) = _
  simp [step, hnp, hr, bindR, ret, hpost]

end PyPred
