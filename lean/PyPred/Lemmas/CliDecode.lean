/-
Lemmas for C20: the decoders of Model/CliDecode.lean are left inverses of the two
printers (`tableText`, `jsonText`), so the printed text determines the table / the tree.
-/
import PyPred.Model.CliDecode

namespace PyPred
namespace Cli
open Parser (Tree)

/-! ### splitting -/

theorem splitOnC_append (sep : Char) {w : List Char} (hw : sep ∉ w) (rest : List Char) :
    splitOnC sep (w ++ sep :: rest) = w :: splitOnC sep rest := by
  induction w with
  | nil => simp [splitOnC]
  | cons c w ih =>
    have hc : c ≠ sep := fun h => hw (by simp [h])
    have hw' : sep ∉ w := fun h => hw (by simp [h])
    simp [splitOnC, hc, ih hw']

theorem splitOnC_last (sep : Char) {w : List Char} (hw : sep ∉ w) : splitOnC sep w = [w] := by
  induction w with
  | nil => simp [splitOnC]
  | cons c w ih =>
    have hc : c ≠ sep := fun h => hw (by simp [h])
    have hw' : sep ∉ w := fun h => hw (by simp [h])
    simp [splitOnC, hc, ih hw']

theorem split_joinSp : ∀ (ns : List (List Char)), ns ≠ [] → (∀ w ∈ ns, ' ' ∉ w) → splitOnC ' ' (joinSp ns) = ns
  | [], h, _ => absurd rfl h
  | [w], _, hs => by simpa [joinSp] using splitOnC_last ' ' (hs w (by simp))
  | w :: u :: r, _, hs => by
    have hw := hs w (by simp)
    have ih := split_joinSp (u :: r) (by simp) (fun x hx => hs x (by simp [hx]))
    simp only [joinSp]
    rw [splitOnC_append ' ' hw, ih]

theorem joinSp_eq_nil : ∀ {ns : List (List Char)}, (∀ w ∈ ns, w ≠ []) → joinSp ns = [] → ns = []
  | [], _, _ => rfl
  | [w], hne, h => by simp [joinSp] at h; exact absurd h (hne w (by simp))
  | w :: u :: r, hne, h => by simp [joinSp] at h

theorem decodeHeader_joinSp {ns : List (List Char)} (hne : ∀ w ∈ ns, w ≠ []) (hs : ∀ w ∈ ns, ' ' ∉ w) :
    decodeHeader (joinSp ns) = ns := by
  unfold decodeHeader
  by_cases h : joinSp ns = []
  · have := joinSp_eq_nil hne h
    subst this
    simp [joinSp]
  · have : ns ≠ [] := by rintro rfl; exact h rfl
    simp [h, split_joinSp ns this hs]

theorem mem_joinSp {c : Char} : ∀ {ns : List (List Char)}, c ∈ joinSp ns → c = ' ' ∨ ∃ w ∈ ns, c ∈ w
  | [], h => by simp [joinSp] at h
  | [w], h => by simp [joinSp] at h; exact Or.inr ⟨w, by simp, h⟩
  | w :: u :: r, h => by
    simp only [joinSp, List.mem_append, List.mem_cons] at h
    rcases h with h | h | h
    · exact Or.inr ⟨w, by simp, h⟩
    · exact Or.inl h
    · rcases mem_joinSp h with h | ⟨x, hx, hc⟩
      · exact Or.inl h
      · exact Or.inr ⟨x, by simp [hx], hc⟩

/-! ### one row -/

theorem takeWhile_append_stop {p : Char → Bool} {w : List Char} (hw : ∀ c ∈ w, p c = true) {x : Char} (hx : p x = false)
    (rest : List Char) : (w ++ x :: rest).takeWhile p = w ∧ (w ++ x :: rest).dropWhile p = x :: rest := by
  induction w with
  | nil => simp [hx]
  | cons c w ih =>
    have hc := hw c (by simp)
    have := ih (fun d hd => hw d (by simp [hd]))
    simp [hc, this]

theorem bitOf_bit (b : Bool) : bitOf (bit b) = some b := by cases b <;> decide

theorem filterMap_fmtValues : ∀ r : List Bool, (fmtValues r).filterMap bitOf = r
  | [] => by simp [fmtValues, joinSp]
  | [b] => by simp [fmtValues, joinSp, bitOf_bit]
  | b :: b' :: r => by
    have ih := filterMap_fmtValues (b' :: r)
    simp only [fmtValues, List.map_cons, joinSp] at ih ⊢
    have hsp : bitOf ' ' = none := by decide
    simp [bitOf_bit, hsp, ih]

theorem fmtValues_no_colon (r : List Bool) : ∀ c ∈ fmtValues r, decide (c ≠ ':') = true := by
  intro c hc
  rcases mem_joinSp hc with h | ⟨w, hw, hcw⟩
  · subst h; decide
  · simp only [List.mem_map] at hw
    obtain ⟨b, _, rfl⟩ := hw
    simp only [List.mem_singleton] at hcw
    subst hcw
    cases b <;> decide

/-- the row line without its newline -/
def rowBody (rv : List Bool × Bool) : List Char := fmtValues rv.1 ++ [':', ' ', ' ', ' ', bit rv.2]

theorem fmtRow_eq (rv : List Bool × Bool) : fmtRow rv.1 rv.2 = rowBody rv ++ ['\n'] := by
  simp [fmtRow, rowBody]

theorem decodeRow_rowBody (rv : List Bool × Bool) : decodeRow (rowBody rv) = some rv := by
  obtain ⟨r, v⟩ := rv
  have h := takeWhile_append_stop (p := fun c => decide (c ≠ ':')) (fmtValues_no_colon r) (x := ':') (by decide) [' ', ' ', ' ', bit v]
  simp only [decodeRow, rowBody]
  rw [h.1, h.2]
  simp [bitOf_bit, filterMap_fmtValues]

theorem rowBody_no_nl (rv : List Bool × Bool) : '\n' ∉ rowBody rv := by
  obtain ⟨r, v⟩ := rv
  simp only [rowBody, List.mem_append, not_or]
  constructor
  · intro hc
    rcases mem_joinSp hc with h | ⟨w, hw, hcw⟩
    · exact absurd h (by decide)
    · simp only [List.mem_map] at hw
      obtain ⟨b, _, rfl⟩ := hw
      simp only [List.mem_singleton] at hcw
      cases b <;> exact absurd hcw (by decide)
  · cases v <;> decide

/-! ### the whole table -/

theorem split_lines (rows : List (List Bool × Bool)) :
    splitOnC '\n' (rows.map fun rv => fmtRow rv.1 rv.2).flatten = rows.map rowBody ++ [[]] := by
  induction rows with
  | nil => simp [splitOnC]
  | cons rv rows ih =>
    simp only [List.map_cons, List.flatten_cons]
    rw [fmtRow_eq, List.append_assoc, List.singleton_append, splitOnC_append '\n' (rowBody_no_nl rv), ih]
    simp

theorem mapM_decodeRow (rows : List (List Bool × Bool)) : rows.mapM (decodeRow ∘ rowBody) = some rows := by
  induction rows with
  | nil => simp
  | cons rv rows ih => simp [List.mapM_cons, decodeRow_rowBody, ih]

/-- names as the lexer produces them never contain a blank or a newline and are not empty -/
def NameOk (w : List Char) : Prop := w ≠ [] ∧ ' ' ∉ w ∧ '\n' ∉ w

/-- **The printed table determines names and rows.** -/
theorem decodeTable_tableText {ns : List (List Char)} (hn : ∀ w ∈ ns, NameOk w) (rows : List (List Bool × Bool)) :
    decodeTable (tableText ns rows) = some (ns, rows) := by
  have hnl : '\n' ∉ joinSp ns := by
    intro hc
    rcases mem_joinSp hc with h | ⟨w, hw, hcw⟩
    · exact absurd h (by decide)
    · exact (hn w hw).2.2 hcw
  simp only [decodeTable, tableText]
  rw [splitOnC_append '\n' hnl, split_lines]
  simp [mapM_decodeRow, decodeHeader_joinSp (fun w hw => (hn w hw).1) (fun w hw => (hn w hw).2.1)]

/-! ### the JSON text -/

theorem tl_variable : "variable".toList = ['v','a','r','i','a','b','l','e'] := by decide
theorem tl_true : "true".toList = ['t','r','u','e'] := by decide
theorem tl_false : "false".toList = ['f','a','l','s','e'] := by decide
theorem tl_not : "not".toList = ['n','o','t'] := by decide
theorem tl_predicate : "predicate".toList = ['p','r','e','d','i','c','a','t','e'] := by decide
theorem tl_and : "and".toList = ['a','n','d'] := by decide
theorem tl_or : "or".toList = ['o','r'] := by decide
theorem tl_xor : "xor".toList = ['x','o','r'] := by decide
theorem tl_left : "left".toList = ['l','e','f','t'] := by decide
theorem tl_right : "right".toList = ['r','i','g','h','t'] := by decide

theorem jsonText_var (s : List Char) : jsonText (.var s) = kOpen ++ (['v','a','r','i','a','b','l','e'] ++ (kVarMid ++ (s ++ kVarEnd))) := by
  simp [jsonText, toPred, toJson, dumps, dumpsStr, tl_variable, kOpen, kVarMid, kVarEnd]
theorem jsonText_tt : jsonText .tt = kOpen ++ (['t','r','u','e'] ++ kTrueEnd) := by
  simp [jsonText, toPred, toJson, dumps, dumpsStr, tl_true, kOpen, kTrueEnd]
theorem jsonText_ff : jsonText .ff = kOpen ++ (['f','a','l','s','e'] ++ kFalseEnd) := by
  simp [jsonText, toPred, toJson, dumps, dumpsStr, tl_false, kOpen, kFalseEnd]
theorem jsonText_not (t : Tree) : jsonText (.not t) = kOpen ++ (['n','o','t'] ++ (kNotMid ++ (jsonText t ++ kClose))) := by
  simp [jsonText, toPred, toJson, dumps, dumpsStr, tl_not, tl_predicate, kOpen, kNotMid, kClose]
theorem jsonText_and (l r : Tree) : jsonText (.and l r) = kOpen ++ (['a','n','d'] ++ (kLeft ++ (jsonText l ++ (kRight ++ (jsonText r ++ kClose))))) := by
  simp [jsonText, toPred, toJson, dumps, dumpsStr, tl_and, tl_left, tl_right, kOpen, kLeft, kRight, kClose]
theorem jsonText_or (l r : Tree) : jsonText (.or l r) = kOpen ++ (['o','r'] ++ (kLeft ++ (jsonText l ++ (kRight ++ (jsonText r ++ kClose))))) := by
  simp [jsonText, toPred, toJson, dumps, dumpsStr, tl_or, tl_left, tl_right, kOpen, kLeft, kRight, kClose]
theorem jsonText_xor (l r : Tree) : jsonText (.xor l r) = kOpen ++ (['x','o','r'] ++ (kLeft ++ (jsonText l ++ (kRight ++ (jsonText r ++ kClose))))) := by
  simp [jsonText, toPred, toJson, dumps, dumpsStr, tl_xor, tl_left, tl_right, kOpen, kLeft, kRight, kClose]

theorem stripPrefix_append (p s : List Char) : stripPrefix p (p ++ s) = some s := by
  induction p with
  | nil => simp [stripPrefix]
  | cons c p ih => simp [stripPrefix, ih]

/-- splitting at the closing quote of a key or a name -/
theorem split_quote {w : List Char} (hw : '"' ∉ w) (rest : List Char) :
    (w ++ '"' :: rest).takeWhile notQuote = w ∧ (w ++ '"' :: rest).dropWhile notQuote = '"' :: rest :=
  takeWhile_append_stop (p := notQuote) (fun c hc => by
    have : c ≠ '"' := fun h => hw (h ▸ hc)
    simp [notQuote, this]) (x := '"') (by decide) rest

def depth : Tree → Nat
  | .var _ | .tt | .ff => 0
  | .not t => depth t + 1
  | .and l r | .or l r | .xor l r => max (depth l) (depth r) + 1

/-- no name of the tree contains a double quote (true of every name the lexer produces) -/
def QuoteFree (t : Tree) : Prop := ∀ s ∈ Parser.names t, '"' ∉ s

theorem readJ_binary (n : Nat) (key : List Char) (mk : Tree → Tree → Tree) (hq : '"' ∉ key)
    (h1 : key ≠ ['v', 'a', 'r', 'i', 'a', 'b', 'l', 'e']) (h2 : key ≠ ['t', 'r', 'u', 'e']) (h3 : key ≠ ['f', 'a', 'l', 's', 'e'])
    (h4 : key ≠ ['n', 'o', 't']) (hb : binOf key = some mk) (l r : Tree) (jl jr rest : List Char)
    (ihl : ∀ rest, readJ n (jl ++ rest) = some (l, rest)) (ihr : ∀ rest, readJ n (jr ++ rest) = some (r, rest)) :
    readJ (n + 1) (kOpen ++ (key ++ (kLeft ++ (jl ++ (kRight ++ (jr ++ kClose))))) ++ rest) = some (mk l r, rest) := by
  simp only [List.append_assoc]
  rw [readJ, stripPrefix_append]
  simp only []
  have e1 : kLeft ++ (jl ++ (kRight ++ (jr ++ (kClose ++ rest))))
      = '"' :: ([':', ' ', '{', '"', 'l', 'e', 'f', 't', '"', ':', ' '] ++ (jl ++ (kRight ++ (jr ++ (kClose ++ rest))))) := by simp [kLeft]
  have hs := split_quote hq ([':', ' ', '{', '"', 'l', 'e', 'f', 't', '"', ':', ' '] ++ (jl ++ (kRight ++ (jr ++ (kClose ++ rest)))))
  rw [e1, hs.1, hs.2, ← e1]
  rw [if_neg h1, if_neg h2, if_neg h3, if_neg h4, hb]
  simp only [stripPrefix_append, ihl, ihr, Option.map_some]

/-- **The printed JSON determines the tree**: reading back what `json` printed (followed by anything)
returns the tree and exactly the remainder. -/
theorem readJ_jsonText : ∀ (t : Tree), QuoteFree t → ∀ (n : Nat) (rest : List Char), depth t < n →
    readJ n (jsonText t ++ rest) = some (t, rest) := by
  intro t
  induction t with
  | var s =>
    intro hq n rest hn
    obtain ⟨n, rfl⟩ : ∃ m, n = m + 1 := ⟨n - 1, by omega⟩
    have hs : '"' ∉ s := hq s (by simp [Parser.names])
    rw [jsonText_var]
    simp only [List.append_assoc]
    rw [readJ, stripPrefix_append]
    simp only []
    have h1 := split_quote (w := ['v','a','r','i','a','b','l','e']) (by decide) ([':', ' ', '"'] ++ (s ++ (kVarEnd ++ rest)))
    have e1 : kVarMid ++ (s ++ (kVarEnd ++ rest)) = '"' :: ([':', ' ', '"'] ++ (s ++ (kVarEnd ++ rest))) := by simp [kVarMid]
    rw [e1, h1.1, h1.2]
    rw [← e1, stripPrefix_append]
    have h2 := split_quote hs (['}'] ++ rest)
    have e2 : kVarEnd ++ rest = '"' :: (['}'] ++ rest) := by simp [kVarEnd]
    simp only [if_pos]
    rw [e2, h2.1, h2.2, ← e2, stripPrefix_append]
    simp
  | tt =>
    intro _ n rest hn
    obtain ⟨n, rfl⟩ : ∃ m, n = m + 1 := ⟨n - 1, by omega⟩
    rw [jsonText_tt]
    simp only [List.append_assoc]
    rw [readJ, stripPrefix_append]
    simp only []
    have e1 : kTrueEnd ++ rest = '"' :: ([':', ' ', 't', 'r', 'u', 'e', '}'] ++ rest) := by simp [kTrueEnd]
    have h1 := split_quote (w := ['t','r','u','e']) (by decide) ([':', ' ', 't', 'r', 'u', 'e', '}'] ++ rest)
    rw [e1, h1.1, h1.2, ← e1]
    rw [if_neg (by decide), if_pos rfl, stripPrefix_append]
    simp
  | ff =>
    intro _ n rest hn
    obtain ⟨n, rfl⟩ : ∃ m, n = m + 1 := ⟨n - 1, by omega⟩
    rw [jsonText_ff]
    simp only [List.append_assoc]
    rw [readJ, stripPrefix_append]
    simp only []
    have e1 : kFalseEnd ++ rest = '"' :: ([':', ' ', 'f', 'a', 'l', 's', 'e', '}'] ++ rest) := by simp [kFalseEnd]
    have h1 := split_quote (w := ['f','a','l','s','e']) (by decide) ([':', ' ', 'f', 'a', 'l', 's', 'e', '}'] ++ rest)
    rw [e1, h1.1, h1.2, ← e1]
    rw [if_neg (by decide), if_neg (by decide), if_pos rfl, stripPrefix_append]
    simp
  | not t ih =>
    intro hq n rest hn
    obtain ⟨n, rfl⟩ : ∃ m, n = m + 1 := ⟨n - 1, by simp [depth] at hn; omega⟩
    have iht := ih (fun s hs => hq s (by simpa [Parser.names] using hs)) n
    rw [jsonText_not]
    simp only [List.append_assoc]
    rw [readJ, stripPrefix_append]
    simp only []
    have e1 : kNotMid ++ (jsonText t ++ (kClose ++ rest))
        = '"' :: ([':', ' ', '{', '"', 'p', 'r', 'e', 'd', 'i', 'c', 'a', 't', 'e', '"', ':', ' '] ++ (jsonText t ++ (kClose ++ rest))) := by simp [kNotMid]
    have h1 := split_quote (w := ['n','o','t']) (by decide) ([':', ' ', '{', '"', 'p', 'r', 'e', 'd', 'i', 'c', 'a', 't', 'e', '"', ':', ' '] ++ (jsonText t ++ (kClose ++ rest)))
    rw [e1, h1.1, h1.2, ← e1]
    rw [if_neg (by decide), if_neg (by decide), if_neg (by decide), if_pos rfl]
    have iht' := fun rest => iht rest (by simp [depth] at hn; omega)
    simp only [stripPrefix_append, iht', Option.map_some]
  | and l r ihl ihr =>
    intro hq n rest hn
    obtain ⟨n, rfl⟩ : ∃ m, n = m + 1 := ⟨n - 1, by simp [depth] at hn; omega⟩
    have hl := ihl (fun s hs => hq s (by simp [Parser.names, hs])) n
    have hr := ihr (fun s hs => hq s (by simp [Parser.names, hs])) n
    rw [jsonText_and]
    exact readJ_binary n _ .and (by decide) (by decide) (by decide) (by decide) (by decide) (by simp [binOf]) l r _ _ rest
      (fun rest => hl rest (by simp [depth] at hn; omega)) (fun rest => hr rest (by simp [depth] at hn; omega))
  | or l r ihl ihr =>
    intro hq n rest hn
    obtain ⟨n, rfl⟩ : ∃ m, n = m + 1 := ⟨n - 1, by simp [depth] at hn; omega⟩
    have hl := ihl (fun s hs => hq s (by simp [Parser.names, hs])) n
    have hr := ihr (fun s hs => hq s (by simp [Parser.names, hs])) n
    rw [jsonText_or]
    exact readJ_binary n _ .or (by decide) (by decide) (by decide) (by decide) (by decide) (by simp [binOf]) l r _ _ rest
      (fun rest => hl rest (by simp [depth] at hn; omega)) (fun rest => hr rest (by simp [depth] at hn; omega))
  | xor l r ihl ihr =>
    intro hq n rest hn
    obtain ⟨n, rfl⟩ : ∃ m, n = m + 1 := ⟨n - 1, by simp [depth] at hn; omega⟩
    have hl := ihl (fun s hs => hq s (by simp [Parser.names, hs])) n
    have hr := ihr (fun s hs => hq s (by simp [Parser.names, hs])) n
    rw [jsonText_xor]
    exact readJ_binary n _ .xor (by decide) (by decide) (by decide) (by decide) (by decide) (by simp [binOf]) l r _ _ rest
      (fun rest => hl rest (by simp [depth] at hn; omega)) (fun rest => hr rest (by simp [depth] at hn; omega))

theorem depth_le_length (t : Tree) : depth t ≤ (jsonText t).length := by
  induction t with
  | var s => simp [depth]
  | tt => simp [depth]
  | ff => simp [depth]
  | not t ih => rw [jsonText_not]; simp [depth, kOpen]; omega
  | and l r ihl ihr => rw [jsonText_and]; simp [depth, kOpen]; omega
  | or l r ihl ihr => rw [jsonText_or]; simp [depth, kOpen]; omega
  | xor l r ihl ihr => rw [jsonText_xor]; simp [depth, kOpen]; omega

theorem readJson_jsonText (t : Tree) (hq : QuoteFree t) : readJson (jsonText t) = some t := by
  have := readJ_jsonText t hq ((jsonText t).length + 1) [] (by have := depth_le_length t; omega)
  simp only [List.append_nil] at this
  simp [readJson, this]

end Cli
end PyPred
