/-
C11 (b), strong form: possibility of progress for the rejection samplers from *every reachable
state*.  The reachable states of `random_anys()` are characterised explicitly (`AnysSt`: the
three member generators in any phase, at most two buffered values of the current round), this
family is closed under `next()` (`anysSt_step`), and from every state of it a filter
`(item for item in random_anys() if p(item))` yields after at most 3 raw answers and 10 units of
fuel (`filter_anys_progress`), provided `p` does not raise on ints, strs and floats and accepts one
of `0`, `1`, `''`, `'a'`.  Likewise `random_ints()` / `generate_ints` (`filter_ints_progress`,
at most 12 raw answers, for a witness within `[-100, 100]`) and `random_strings()`.
-/
import PyPred.Lemmas.GenCost

set_option linter.unusedSimpArgs false
set_option linter.unusedVariables false

namespace PyPred
namespace Gen

open GVal

/-! ### one step of a filter -/

theorem filter_accept {p : GP} {neg : Bool} {g g' : G} {F : Nat} {t t' : Tape} {v : GVal}
    (hp : pull F g t = .yield v g' t') (he : evalG p v = .ok (!neg)) :
    pull (F + 1) (.filter p neg g) t = .yield v (.filter p neg g') t' := by
  simp only [pull, hp, he]; cases neg <;> simp

theorem filter_reject {p : GP} {neg : Bool} {g g' : G} {F : Nat} {t t' : Tape} {v : GVal}
    (hp : pull F g t = .yield v g' t') (he : evalG p v = .ok neg) :
    pull (F + 1) (.filter p neg g) t = pull F (.filter p neg g') t' := by
  simp only [pull, hp, he]; cases neg <;> simp

/-- The filter yields at the next `next()` (with this fuel, on this tape). -/
def FYields (p : GP) (neg : Bool) (g : G) (t : Tape) (F : Nat) : Prop :=
  ∃ v g' t', pull F (.filter p neg g) t = .yield v g' t'

/-- A candidate on which `p` does not raise either is accepted, or is rejected and the
question passes to the successor. -/
theorem fyields_step {p : GP} {neg : Bool} {g g' : G} {F : Nat} {t t' : Tape} {v : GVal}
    (hp : pull F g t = .yield v g' t') (htot : ∃ b, evalG p v = .ok b)
    (h : evalG p v = .ok (!neg) ∨ FYields p neg g' t' F) : FYields p neg g t (F + 1) := by
  obtain ⟨b, hb⟩ := htot
  by_cases hacc : b = !neg
  · subst hacc; exact ⟨_, _, _, filter_accept hp hb⟩
  · have hbn : b = neg := by cases b <;> cases neg <;> simp_all
    subst hbn
    rcases h with h | ⟨v', g'', t'', h⟩
    · rw [hb] at h; cases b <;> simp at h
    · exact ⟨v', g'', t'', by rw [filter_reject hp hb]; exact h⟩

/-! ### the reachable states of `random_anys()` -/

/-- The zip of the three member generators of `random_anys()`, each in some phase. -/
def anysZip (ph j fph : Nat) : G :=
  .zipCons (.ints none none ph j) (.zipCons .strings (.zipCons (.floats (.fin cLo) (.fin cHi) fph) .zipNil))

def anysSt (ph j fph : Nat) (buf : List GVal) : G := .flat (anysZip ph j fph) buf

def isAnyV : GVal → Prop
  | .int _ => True
  | .str _ => True
  | .flt _ => True
  | _ => False

/-- A state of `random_anys()`: phases of the members and the rest of the current round. -/
def AnysSt (s : G) : Prop :=
  ∃ ph j fph buf, s = anysSt ph j fph buf ∧ (∀ x ∈ buf, isAnyV x) ∧ buf.length ≤ 2

theorem cLo_lt_cHi : XF.lt (.fin cLo) (.fin cHi) = true := by
  have := cLo_neg; have := cHi_pos; simp [XF.lt_fin]; omega

theorem anysSt_init : AnysSt anys := ⟨0, 0, 0, [], rfl, by simp, by simp⟩

theorem pow10_pos (ph : Nat) : (1 : Int) ≤ ((10 ^ ph : Nat) : Int) := by
  have : 0 < 10 ^ ph := Nat.pow_pos (by decide)
  omega

/-- A new round: the int candidate drawn from the current window, then the str and float
candidates buffered. -/
theorem anys_round (ph j fph k : Nat) (t : Tape) :
    ∃ ph' j' fph' x t',
      pull (k + 5) (anysSt ph j fph []) t =
        .yield (.int (t.randint (0 - ((10 ^ ph : Nat) : Int)) (0 + ((10 ^ ph : Nat) : Int))).1)
          (anysSt ph' j' fph'
            [.str ((((t.randint (0 - ((10 ^ ph : Nat) : Int)) (0 + ((10 ^ ph : Nat) : Int))).2.randint 0 10).2.choices
              ((t.randint (0 - ((10 ^ ph : Nat) : Int)) (0 + ((10 ^ ph : Nat) : Int))).2.randint 0 10).1.toNat).1.map popChar), .flt x]) t'
      ∧ (fph = 0 → x = cLo) := by
  have hw : (0 : Int) - ((10 ^ ph : Nat) : Int) ≤ 0 + ((10 ^ ph : Nat) : Int) := by
    have := pow10_pos ph; omega
  match fph with
  | 0 =>
    simp only [anysSt, anysZip, pull, emptyRange, center, windowLow, windowHigh, Bool.false_eq_true, if_false, hw, if_true, cLo_lt_cHi, XF.val]
    split <;> exact ⟨_, _, _, _, _, rfl, fun _ => rfl⟩
  | 1 =>
    simp only [anysSt, anysZip, pull, emptyRange, center, windowLow, windowHigh, Bool.false_eq_true, if_false, hw, if_true, cLo_lt_cHi, XF.val]
    split <;> exact ⟨_, _, _, _, _, rfl, fun h => absurd h (by decide)⟩
  | n + 2 =>
    simp only [anysSt, anysZip, pull, emptyRange, center, windowLow, windowHigh, Bool.false_eq_true, if_false, hw, if_true, cLo_lt_cHi, XF.val]
    split <;> exact ⟨_, _, _, _, _, rfl, fun h => absurd h (by omega)⟩

theorem anys_pop (ph j fph k : Nat) (b : GVal) (bs : List GVal) (t : Tape) :
    pull (k + 1) (anysSt ph j fph (b :: bs)) t = .yield b (anysSt ph j fph bs) t := by
  simp only [anysSt, pull]

/-- Inversion: a `zip` only yields when its tail does, with one unit of fuel less. -/
theorem zipCons_inv {F : Nat} {g z : G} {t : Tape} {v : GVal} {g' : G} {t' : Tape}
    (h : pull F (.zipCons g z) t = .yield v g' t') :
    ∃ F', F = F' + 1 ∧ ∃ w z1 t1, pull F' z t1 = .yield w z1 t' := by
  cases F with
  | zero => simp [pull] at h
  | succ F' =>
    refine ⟨F', rfl, ?_⟩
    simp only [pull] at h
    split at h
    · rename_i x g1 t1 hp
      split at h
      · rename_i xs z1 t2 hz
        simp only [Res.yield.injEq] at h
        exact ⟨_, _, _, h.2.2 ▸ hz⟩
      · cases h
      · cases h
      · cases h
      · cases h
    · cases h
    · cases h
    · cases h

theorem flat_nil_inv {F : Nat} {z : G} {t : Tape} {v : GVal} {g' : G} {t' : Tape}
    (h : pull F (.flat z []) t = .yield v g' t') :
    ∃ F', F = F' + 1 ∧ ∃ w z1, pull F' z t = .yield w z1 t' := by
  cases F with
  | zero => simp [pull] at h
  | succ F' =>
    refine ⟨F', rfl, ?_⟩
    simp only [pull] at h
    split at h
    · rename_i x xs z1 t1 hz
      simp only [Res.yield.injEq] at h
      exact ⟨_, _, h.2.2 ▸ hz⟩
    · cases h
    · cases h
    · cases h
    · cases h

/-- A round of `random_anys()` needs five units of fuel. -/
theorem anys_round_fuel {F ph j fph : Nat} {t : Tape} {v : GVal} {g' : G} {t' : Tape}
    (h : pull F (anysSt ph j fph []) t = .yield v g' t') : 5 ≤ F := by
  obtain ⟨F1, rfl, w1, z1, h1⟩ := flat_nil_inv h
  obtain ⟨F2, rfl, w2, z2, t2, h2⟩ := zipCons_inv h1
  obtain ⟨F3, rfl, w3, z3, t3, h3⟩ := zipCons_inv h2
  obtain ⟨F4, rfl, w4, z4, t4, h4⟩ := zipCons_inv h3
  cases F4 with
  | zero => simp [pull] at h4
  | succ n => omega

/-- The family is closed under `next()`: whatever `random_anys()` yields is an int, a str or a
float, and its successor is again a state of the family. -/
theorem anysSt_step {s : G} (hs : AnysSt s) (F : Nat) (t : Tape) {v : GVal} {s' : G} {t' : Tape}
    (h : pull F s t = .yield v s' t') : isAnyV v ∧ AnysSt s' := by
  obtain ⟨ph, j, fph, buf, rfl, hbuf, hlen⟩ := hs
  cases buf with
  | cons b bs =>
    match F, h with
    | F + 1, h =>
      rw [anys_pop] at h
      simp only [Res.yield.injEq] at h
      obtain ⟨rfl, rfl, rfl⟩ := h
      exact ⟨hbuf _ (by simp), ph, j, fph, bs, rfl, fun x hx => hbuf x (by simp [hx]), by simp at hlen; omega⟩
  | nil =>
    have hF := anys_round_fuel h
    obtain ⟨k, rfl⟩ : ∃ k, F = k + 5 := ⟨F - 5, by omega⟩
    · obtain ⟨ph', j', fph', x, t'', hr, _⟩ := anys_round ph j fph k t
      rw [hr] at h
      simp only [Res.yield.injEq] at h
      obtain ⟨rfl, rfl, rfl⟩ := h
      exact ⟨trivial, ph', j', fph', _, rfl, by intro y hy; simp at hy; rcases hy with rfl | rfl <;> trivial, by simp⟩

/-! ### reachability -/

/-- States reachable from `g0` by successful `next()` calls (any tape, any fuel). -/
inductive Reach (g0 : G) : G → Prop where
  | refl : Reach g0 g0
  | step {g g' : G} {F : Nat} {t t' : Tape} {v : GVal} :
      Reach g0 g → pull F g t = .yield v g' t' → Reach g0 g'

/-- A filter over a family of source states that is closed under `next()` stays a filter over
that family. -/
theorem filter_closed (S : G → Prop)
    (hS : ∀ s F t v s' t', S s → pull F s t = .yield v s' t' → S s') (p : GP) (neg : Bool) :
    ∀ (F : Nat) (s : G), S s → ∀ (t : Tape) (v : GVal) (g' : G) (t' : Tape),
    pull F (.filter p neg s) t = .yield v g' t' → ∃ s', S s' ∧ g' = .filter p neg s' := by
  intro F
  induction F with
  | zero => intro s _ t v g' t' h; simp [pull] at h
  | succ F ih =>
    intro s hs t v g' t' h
    simp only [pull] at h
    split at h
    · rename_i v1 s1 t1 hp
      have hs1 := hS _ _ _ _ _ _ hs hp
      split at h
      · split at h
        · simp only [Res.yield.injEq] at h
          exact ⟨s1, hs1, h.2.1.symm⟩
        · exact ih s1 hs1 _ _ _ _ h
      · cases h
    · cases h
    · cases h
    · cases h

theorem reach_filter (S : G → Prop)
    (hS : ∀ s F t v s' t', S s → pull F s t = .yield v s' t' → S s') (p : GP) (neg : Bool) {s0 g : G}
    (h0 : S s0) (h : Reach (.filter p neg s0) g) : ∃ s, S s ∧ g = .filter p neg s := by
  induction h with
  | refl => exact ⟨s0, h0, rfl⟩
  | step _ hp ih =>
    obtain ⟨s, hs, rfl⟩ := ih
    exact filter_closed S hS p neg _ s hs _ _ _ _ hp

theorem reach_filter_anys (p : GP) (neg : Bool) {g : G} (h : Reach (.filter p neg anys) g) :
    ∃ s, AnysSt s ∧ g = .filter p neg s :=
  reach_filter AnysSt (fun s F t v s' t' hs hp => (anysSt_step hs F t hp).2) p neg anysSt_init h

/-! ### progress of a filter over `random_anys()` -/

/-- What is needed of the predicate: it does not raise on ints, strs and floats, and it lets one
of the four simplest candidates through. -/
structure AnyAccept (p : GP) (neg : Bool) : Prop where
  total : ∀ x, isAnyV x → ∃ b, evalG p x = .ok b
  witness : evalG p (.int 0) = .ok (!neg) ∨ evalG p (.int 1) = .ok (!neg)
    ∨ evalG p (.str []) = .ok (!neg) ∨ evalG p (.str [97]) = .ok (!neg)

theorem clamp_small {r L : Int} (hL : 1 ≤ L) (h0 : 0 ≤ r) (h1 : r ≤ 1) : clamp r (0 - L) (0 + L) = r := by
  unfold clamp; omega

/-- From the start of a round: at most three raw answers. -/
theorem filter_anys_round {p : GP} {neg : Bool} (hA : AnyAccept p neg) (ph j fph k : Nat) (log : List Req) :
    ∃ raws : List Int, raws.length ≤ 3 ∧ FYields p neg (anysSt ph j fph []) ⟨raws, log⟩ (k + 7) := by
  have hL := pow10_pos ph
  rcases hA.witness with h0 | h1 | hs | hs
  · refine ⟨[], by simp, ?_⟩
    obtain ⟨ph', j', fph', x, t', hr, _⟩ := anys_round ph j fph (k + 1) ⟨[], log⟩
    have ha : ((⟨[], log⟩ : Tape).randint (0 - ((10 ^ ph : Nat) : Int)) (0 + ((10 ^ ph : Nat) : Int))).1 = 0 := by
      simp only [Tape.randint, Tape.note, Tape.raw, List.headD_nil]; exact clamp_small hL (by decide) (by decide)
    rw [ha] at hr
    exact fyields_step hr (hA.total _ trivial) (Or.inl h0)
  · refine ⟨[1], by simp, ?_⟩
    obtain ⟨ph', j', fph', x, t', hr, _⟩ := anys_round ph j fph (k + 1) ⟨[1], log⟩
    have ha : ((⟨[1], log⟩ : Tape).randint (0 - ((10 ^ ph : Nat) : Int)) (0 + ((10 ^ ph : Nat) : Int))).1 = 1 := by
      simp only [Tape.randint, Tape.note, Tape.raw, List.headD_cons]; exact clamp_small hL (by decide) (by decide)
    rw [ha] at hr
    exact fyields_step hr (hA.total _ trivial) (Or.inl h1)
  · refine ⟨[], by simp, ?_⟩
    obtain ⟨ph', j', fph', x, t', hr, _⟩ := anys_round ph j fph (k + 1) ⟨[], log⟩
    have hcs : ((((⟨[], log⟩ : Tape).randint (0 - ((10 ^ ph : Nat) : Int)) (0 + ((10 ^ ph : Nat) : Int))).2.randint 0 10).2.choices
        (((⟨[], log⟩ : Tape).randint (0 - ((10 ^ ph : Nat) : Int)) (0 + ((10 ^ ph : Nat) : Int))).2.randint 0 10).1.toNat).1.map popChar = [] := by
      have e0 : max (0 : Int) (min 0 10) = 0 := by decide
      simp [Tape.randint, Tape.note, Tape.raw, Tape.choices, Tape.rawsBelow, clamp, e0]
    rw [hcs] at hr
    refine fyields_step hr (hA.total _ trivial) (Or.inr ?_)
    exact fyields_step (anys_pop ph' j' fph' (k + 4) _ _ t') (hA.total _ trivial) (Or.inl hs)
  · refine ⟨[0, 1, 0], by simp, ?_⟩
    obtain ⟨ph', j', fph', x, t', hr, _⟩ := anys_round ph j fph (k + 1) ⟨[0, 1, 0], log⟩
    have hcs : ((((⟨[0, 1, 0], log⟩ : Tape).randint (0 - ((10 ^ ph : Nat) : Int)) (0 + ((10 ^ ph : Nat) : Int))).2.randint 0 10).2.choices
        (((⟨[0, 1, 0], log⟩ : Tape).randint (0 - ((10 ^ ph : Nat) : Int)) (0 + ((10 ^ ph : Nat) : Int))).2.randint 0 10).1.toNat).1.map popChar = [97] := by
      have e1 : max (0 : Int) (min 1 10) = 1 := by decide
      have e2 : max (0 : Int) (min 0 61) = 0 := by decide
      simp [Tape.randint, Tape.note, Tape.raw, Tape.choices, Tape.rawsBelow, clamp, popChar, e1, e2]
    rw [hcs] at hr
    refine fyields_step hr (hA.total _ trivial) (Or.inr ?_)
    exact fyields_step (anys_pop ph' j' fph' (k + 4) _ _ t') (hA.total _ trivial) (Or.inl hs)

/-- **Possibility of progress, every state.**  From every state of `random_anys()` a filter by an
accepting predicate yields after at most 3 raw answers, with 10 units of fuel. -/
theorem filter_anys_progress {p : GP} {neg : Bool} (hA : AnyAccept p neg) {s : G} (hs : AnysSt s) (log : List Req) :
    ∃ raws : List Int, raws.length ≤ 3 ∧ FYields p neg s ⟨raws, log⟩ 10 := by
  obtain ⟨ph, j, fph, buf, rfl, hbuf, hlen⟩ := hs
  match buf, hbuf, hlen with
  | [], _, _ => exact filter_anys_round hA ph j fph 3 log
  | [b], hbuf, _ =>
    obtain ⟨raws, hl, hy⟩ := filter_anys_round hA ph j fph 2 log
    exact ⟨raws, hl, fyields_step (anys_pop ph j fph 8 b [] _) (hA.total b (hbuf b (by simp))) (Or.inr hy)⟩
  | [b1, b2], hbuf, _ =>
    obtain ⟨raws, hl, hy⟩ := filter_anys_round hA ph j fph 1 log
    have h2 := fyields_step (anys_pop ph j fph 7 b2 [] ⟨raws, log⟩) (hA.total b2 (hbuf b2 (by simp))) (Or.inr hy)
    exact ⟨raws, hl, fyields_step (anys_pop ph j fph 8 b1 [b2] _) (hA.total b1 (hbuf b1 (by simp))) (Or.inr h2)⟩
  | _ :: _ :: _ :: _, _, hlen => simp at hlen

/-- … stated for the states reachable from the initial generator. -/
theorem reach_filter_anys_progress {p : GP} {neg : Bool} (hA : AnyAccept p neg) {g : G}
    (hg : Reach (.filter p neg anys) g) (log : List Req) :
    ∃ raws : List Int, raws.length ≤ 3 ∧ ∃ v g' t', pull 10 g ⟨raws, log⟩ = .yield v g' t' := by
  obtain ⟨s, hs, rfl⟩ := reach_filter_anys p neg hg
  exact filter_anys_progress hA hs log

/-! ### progress of a filter over `random_ints()` (generate_ints) -/

def IntsSt (s : G) : Prop := ∃ ph j, s = .ints none none ph j

theorem ints_pull (ph j F : Nat) (t : Tape) :
    pull (F + 1) (.ints none none ph j) t =
      .yield (.int (t.randint (0 - ((10 ^ ph : Nat) : Int)) (0 + ((10 ^ ph : Nat) : Int))).1)
        (if j + 1 < 10 ^ ph then .ints none none ph (j + 1) else .ints none none ((ph + 1) % 3) 0)
        (t.randint (0 - ((10 ^ ph : Nat) : Int)) (0 + ((10 ^ ph : Nat) : Int))).2 := by
  have hw : (0 : Int) - ((10 ^ ph : Nat) : Int) ≤ 0 + ((10 ^ ph : Nat) : Int) := by
    have := pow10_pos ph; omega
  simp only [pull, emptyRange, center, windowLow, windowHigh, Bool.false_eq_true, if_false, hw, if_true]

theorem intsSt_step {s : G} (hs : IntsSt s) (F : Nat) (t : Tape) {v : GVal} {s' : G} {t' : Tape}
    (h : pull F s t = .yield v s' t') : (∃ a, v = .int a) ∧ IntsSt s' := by
  obtain ⟨ph, j, rfl⟩ := hs
  cases F with
  | zero => simp [pull] at h
  | succ F =>
    rw [ints_pull] at h
    simp only [Res.yield.injEq] at h
    obtain ⟨rfl, rfl, rfl⟩ := h
    refine ⟨⟨_, rfl⟩, ?_⟩
    split
    · exact ⟨_, _, rfl⟩
    · exact ⟨_, _, rfl⟩

/-- Draws left before the window is `[-100, 100]` or wider. -/
def toWide (ph j : Nat) : Nat := if 2 ≤ ph then 0 else if ph = 1 then (10 - j) + 1 else 12

theorem replicate_randint (m : Nat) (a lo hi : Int) (log : List Req) :
    ∃ log', (⟨List.replicate (m + 1) a, log⟩ : Tape).randint lo hi = (clamp a lo hi, ⟨List.replicate m a, log'⟩) :=
  ⟨⟨.randint, lo, hi⟩ :: log, by simp [Tape.randint, Tape.note, Tape.raw, List.replicate_succ]⟩

/-- From every state of `random_ints()`: if the predicate does not raise on ints and accepts some
`a` in `[-100, 100]`, the filter yields after at most `toWide + 1 ≤ 13` raw answers (all equal to `a`). -/
theorem filter_ints_progress {p : GP} {neg : Bool} (htot : ∀ a, ∃ b, evalG p (.int a) = .ok b)
    {a : Int} (ha1 : -100 ≤ a) (ha2 : a ≤ 100) (hacc : evalG p (.int a) = .ok (!neg)) :
    ∀ (m ph j : Nat), toWide ph j ≤ m → ∀ log, FYields p neg (.ints none none ph j) ⟨List.replicate (m + 1) a, log⟩ (m + 2) := by
  have wide : ∀ (m ph j : Nat), 2 ≤ ph → ∀ log, FYields p neg (.ints none none ph j) ⟨List.replicate (m + 1) a, log⟩ (m + 2) := by
    intro m ph j hph log
    obtain ⟨log', hr⟩ := replicate_randint m a (0 - ((10 ^ ph : Nat) : Int)) (0 + ((10 ^ ph : Nat) : Int)) log
    have hp := ints_pull ph j m ⟨List.replicate (m + 1) a, log⟩
    rw [hr] at hp
    have hwide : (100 : Int) ≤ ((10 ^ ph : Nat) : Int) := by
      have : 10 ^ 2 ≤ 10 ^ ph := Nat.pow_le_pow_right (by decide) hph
      have h100 : (10 : Nat) ^ 2 = 100 := by decide
      omega
    have hc : clamp a (0 - ((10 ^ ph : Nat) : Int)) (0 + ((10 ^ ph : Nat) : Int)) = a := by unfold clamp; omega
    simp only [hc] at hp
    exact fyields_step hp (htot a) (Or.inl hacc)
  intro m
  induction m with
  | zero =>
    intro ph j hm log
    have hph : 2 ≤ ph := by
      unfold toWide at hm
      split at hm
      · assumption
      · split at hm <;> omega
    exact wide 0 ph j hph log
  | succ m ih =>
    intro ph j hm log
    by_cases h2 : 2 ≤ ph
    · exact wide (m + 1) ph j h2 log
    · obtain ⟨log', hr⟩ := replicate_randint (m + 1) a (0 - ((10 ^ ph : Nat) : Int)) (0 + ((10 ^ ph : Nat) : Int)) log
      have hp := ints_pull ph j (m + 1) ⟨List.replicate (m + 2) a, log⟩
      rw [hr] at hp
      simp only at hp
      refine fyields_step hp (htot _) (Or.inr ?_)
      -- the successor is closer to the wide window
      unfold toWide at hm
      simp only [h2, if_false] at hm
      split
      · rename_i hj
        apply ih
        unfold toWide
        simp only [h2, if_false]
        by_cases h1 : ph = 1
        · subst h1; simp at hj hm ⊢; omega
        · have h0 : ph = 0 := by omega
          subst h0; simp at hj
      · rename_i hj
        apply ih
        unfold toWide
        by_cases h1 : ph = 1
        · subst h1; simp
        · have h0 : ph = 0 := by omega
          subst h0; simp at hm ⊢; omega

/-- … for the reachable states of `generate_ints(p)`. -/
theorem reach_filter_ints_progress {p : GP} {neg : Bool} (htot : ∀ a, ∃ b, evalG p (.int a) = .ok b)
    {a : Int} (ha1 : -100 ≤ a) (ha2 : a ≤ 100) (hacc : evalG p (.int a) = .ok (!neg)) {g : G}
    (hg : Reach (.filter p neg (.ints none none 0 0)) g) (log : List Req) :
    ∃ raws : List Int, raws.length ≤ 13 ∧ ∃ v g' t', pull 14 g ⟨raws, log⟩ = .yield v g' t' := by
  obtain ⟨s, ⟨ph, j, rfl⟩, rfl⟩ := reach_filter IntsSt (fun s F t v s' t' hs hp => (intsSt_step hs F t hp).2) p neg ⟨0, 0, rfl⟩ hg
  have hm : toWide ph j ≤ 12 := by unfold toWide; split; omega; split <;> omega
  exact ⟨List.replicate 13 a, by simp, filter_ints_progress htot ha1 ha2 hacc 12 ph j hm log⟩

/-! ### the first `next()` of a filter over `random_anys()`, every tape -/

/-- If the predicate does not raise on ints, strs and floats and, whatever they are, accepts the
int candidate or the str candidate or the first float candidate `-1e-6`, the first `next()` of
`generate_anys(p)` yields within the first round: 8 units of fuel, every tape. -/
theorem filter_anys_first {p : GP} {neg : Bool} (htot : ∀ x, isAnyV x → ∃ b, evalG p x = .ok b)
    (hcase : ∀ a cs, evalG p (.int a) = .ok (!neg) ∨ evalG p (.str cs) = .ok (!neg) ∨ evalG p (.flt cLo) = .ok (!neg))
    (k : Nat) (t : Tape) : FYields p neg anys t (k + 8) := by
  obtain ⟨ph', j', fph', x, t', hr, hx⟩ := anys_round 0 0 0 (k + 2) t
  rw [hx rfl] at hr
  have hanys : anysSt 0 0 0 [] = anys := rfl
  rw [hanys] at hr
  refine fyields_step hr (htot _ trivial) ?_
  rcases hcase (t.randint (0 - ((10 ^ 0 : Nat) : Int)) (0 + ((10 ^ 0 : Nat) : Int))).1
      ((((t.randint (0 - ((10 ^ 0 : Nat) : Int)) (0 + ((10 ^ 0 : Nat) : Int))).2.randint 0 10).2.choices
        ((t.randint (0 - ((10 ^ 0 : Nat) : Int)) (0 + ((10 ^ 0 : Nat) : Int))).2.randint 0 10).1.toNat).1.map popChar)
    with h | h | h
  · exact Or.inl h
  · exact Or.inr (fyields_step (anys_pop ph' j' fph' (k + 5) _ _ t') (htot _ trivial) (Or.inl h))
  · refine Or.inr (fyields_step (anys_pop ph' j' fph' (k + 5) _ _ t') (htot _ trivial) (Or.inr ?_))
    exact fyields_step (anys_pop ph' j' fph' (k + 4) _ _ t') (htot _ trivial) (Or.inl h)

/-! ### progress of a filter over `random_strings()` (generate_strings) -/

theorem rawsBelow_exact (is : List Nat) (h : ∀ i ∈ is, i < 62) (rest : List Int) (log : List Req) :
    Tape.rawsBelow is.length 61 ⟨is.map (fun (i : Nat) => Int.ofNat i) ++ rest, log⟩ = (is, ⟨rest, log⟩) := by
  induction is with
  | nil => simp [Tape.rawsBelow]
  | cons a as ih =>
    have ha : a < 62 := h a (by simp)
    have hc : (clamp (Int.ofNat a) 0 61).toNat = a := by unfold clamp; simp only [Int.ofNat_eq_natCast]; omega
    simp only [List.length_cons, List.map_cons, List.cons_append, Tape.rawsBelow, Tape.raw, List.headD_cons, List.tail_cons, hc]
    rw [ih (fun i hi => h i (by simp [hi]))]

theorem strings_pull (F : Nat) (t : Tape) :
    pull (F + 1) .strings t =
      .yield (.str (((t.randint 0 10).2.choices (t.randint 0 10).1.toNat).1.map popChar)) .strings
        ((t.randint 0 10).2.choices (t.randint 0 10).1.toNat).2 := by
  simp only [pull]

/-- `generate_strings(p)` has a single state.  If `p` accepts some string of at most 10 letters /
digits (`is` are the indices into `ascii_letters + digits`), the filter yields after
`1 + |is| ≤ 11` raw answers, 2 units of fuel — from every reachable state. -/
theorem filter_strings_progress {p : GP} {neg : Bool} (is : List Nat) (hlen : is.length ≤ 10) (h62 : ∀ i ∈ is, i < 62)
    (hacc : evalG p (.str (is.map popChar)) = .ok (!neg)) {g : G}
    (hg : Reach (.filter p neg .strings) g) (log : List Req) :
    ∃ raws : List Int, raws.length ≤ 11 ∧ ∃ v g' t', pull 2 g ⟨raws, log⟩ = .yield v g' t' := by
  obtain ⟨s, hs, rfl⟩ := reach_filter (fun s => s = .strings) (by
    intro s F t v s' t' hs hp
    subst hs
    cases F with
    | zero => simp [pull] at hp
    | succ F => rw [strings_pull] at hp; simp only [Res.yield.injEq] at hp; exact hp.2.1.symm) p neg rfl hg
  subst hs
  refine ⟨(is.length : Int) :: is.map (fun (i : Nat) => Int.ofNat i), by simp; omega, ?_⟩
  have hn : ((⟨(is.length : Int) :: is.map (fun (i : Nat) => Int.ofNat i), log⟩ : Tape).randint 0 10)
      = ((is.length : Int), ⟨is.map (fun (i : Nat) => Int.ofNat i), ⟨.randint, 0, 10⟩ :: log⟩) := by
    have hc : clamp (is.length : Int) 0 10 = is.length := by unfold clamp; omega
    simp [Tape.randint, Tape.note, Tape.raw, hc]
  have hp := strings_pull 0 ⟨(is.length : Int) :: is.map (fun (i : Nat) => Int.ofNat i), log⟩
  rw [hn] at hp
  simp only [Int.toNat_natCast, Tape.choices, Tape.note] at hp
  have hr := rawsBelow_exact is h62 [] (⟨.choices, 62, is.length⟩ :: ⟨.randint, 0, 10⟩ :: log)
  simp only [List.append_nil] at hr
  rw [hr] at hp
  exact ⟨_, _, _, filter_accept hp hacc⟩

end Gen
end PyPred
