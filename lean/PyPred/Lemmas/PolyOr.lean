/-
Cost invariant (`Cst`, see PolyPotential.lean) of the `or` arms of the optimizer model.
-/
import PyPred.Lemmas.PolyAnd

set_option linter.unusedSectionVars false
set_option linter.unusedVariables false
set_option linter.unusedSimpArgs false
set_option linter.unnecessarySeqFocus false
set_option linter.unusedTactic false

namespace PyPred
open PolyArith
variable {V : Type} [DecidableEq V] [LT V] [LE V] [DecidableLT V] [DecidableLE V]

theorem orAndAnd_M (l r a b c d : Pred V) (hl : l = .and a b) (hr : r = .and c d) :
    M (orAndAnd l r a b c d) ≤ 3 + M l + M r ∧ ia (orAndAnd l r a b c d) = 0 := by
  subst hl hr
  have h1 := (xb_lin c b).2.2.2
  have h2 := (xb_lin a d).2.2.2
  unfold orAndAnd
  split
  · rename_i o ho
    split at ho
    · split at ho
      · simp at ho; subst ho; simp [M, X, w, ia, Pred.isAnd]; omega
      · simp at ho
    · simp at ho
  · split
    · rename_i o ho
      split at ho
      · split at ho
        · simp at ho; subst ho; simp [M, X, w, ia, Pred.isAnd]; omega
        · simp at ho
      · simp at ho
    · simp [M, X, w, ia, Pred.isAnd]; omega

theorem orRulesA_M {l r o : Pred V} (h : orRulesA l r = some o) :
    M o ≤ 3 + M l + M r ∧ ia o = 0 := by
  have hl := M_ge l
  have hr := M_ge r
  unfold orRulesA at h
  split at h
  all_goals (try split at h)
  all_goals (try split at h)
  all_goals (try (simp at h))
  all_goals (try subst h)
  all_goals (try exact orAndAnd_M _ _ _ _ _ _ rfl rfl)
  all_goals (refine ⟨?_, by first | exact ia_optIn _ | exact ia_optNotIn _ | simp [ia, Pred.isAnd]⟩)
  all_goals (first
    | (rw [M_optIn]; omega)
    | exact Nat.le_trans (M_optNotIn _) (by omega)
    | (simp [M, X, w] at * <;> omega))

theorem orRulesB_M (node l r : Pred V) :
    orRulesB node l r = .or l r ∨ M (orRulesB node l r) + 3 ≤ M l + M r := by
  have hl := M_ge l
  have hr := M_ge r
  unfold orRulesB
  repeat' split
  all_goals (first | (left; rfl) | (right; simp [M, X, w] at *; omega))

theorem stepOr_cst {rec : Pred V → R V} {l r : Pred V}
    (hrec : NiceC (.or l r) rec) : AnsC (stepOr rec l r) (fun o n => Cst (.or l r) o (n + 1)) := by
  have hrec' : ∀ t, w t < 1 + w l + w r → AnsC (rec t) (fun o n => Post t o ∧ Cst t o n) :=
    fun t ht => hrec t (μ_lt_of_w_lt (by simp [w]; omega))
  have hl := w_pos l
  have hr := w_pos r
  have hMl0 := M_ge l
  have hMr0 := M_ge r
  have hW : w (.or l r) = 1 + w l + w r := by simp [w]
  have hMp : M (.or l r) = 3 + M l + M r := by simp [M, X, w]; omega
  have hip : ia (.or l r) = 0 := by simp [ia, Pred.isAnd]
  have hes : esw (.or l r) = 1 := by simp [esw]
  have ett : M (Pred.tt : Pred V) = 3 := by simp [M, X, w]
  have itt : ia (Pred.tt : Pred V) = 0 := by simp [ia, Pred.isAnd]
  unfold stepOr
  split
  · exact AnsC.ret ⟨1, by omega, by omega, by omega, by omega⟩
  · refine AnsC.bind (hrec' l (by omega)) (fun l' nl hl' => ?_)
    refine AnsC.bind (hrec' r (by omega)) (fun r' nr hr' => ?_)
    obtain ⟨hpl, hcl⟩ := hl'
    obtain ⟨hpr, hcr⟩ := hr'
    obtain ⟨ql, hql, hnl, hMl, -, -⟩ := hcl.drop
    obtain ⟨qr, hqr, hnr, hMr, -, -⟩ := hcr.drop
    have hwl : w l' ≤ w l := hpl.1
    have hwr : w r' ≤ w r := hpr.1
    have hMl' := M_ge l'
    have hMr' := M_ge r'
    have hil := ia_le l'
    have hir := ia_le r'
    have hcost : nl + (nr + 0) + 1 + esw (.or l r) ≤ 3 * (w (.or l r) * (ql + qr - 1)) := by
      have := cst_bin (W := w (.or l r)) (R := 0) (ρ := 0) (c := 2) (r := ql + qr - 1) hnl hnr hql hqr
        (by omega) (by omega) (by omega) (by omega)
      omega
    split
    · exact AnsC.ret ⟨ql + qr - 1, by omega, hcost, by omega, by omega⟩
    · split
      · exact AnsC.ret ⟨ql + qr - 1, by omega, hcost, by omega, by omega⟩
      · split
        · rename_i o ho
          have := orRulesA_M ho
          exact AnsC.ret ⟨ql + qr - 1, by omega, hcost, by omega, by omega⟩
        · split
          · rename_i a b _ _ _
            have hwa : w (.or a b) < 1 + w l + w r := by simp [w] at *; omega
            refine AnsC.bind (hrec' (.or a b) hwa) (fun x n3 hx => AnsC.ret ?_)
            obtain ⟨hpx, hcx⟩ := hx
            obtain ⟨q3, hq3, hn3, hM3, -, -⟩ := hcx.drop
            refine ⟨ql + qr - 1 + q3, by omega, ?_, ?_⟩
            · have h3 := cst_mono (W := w (.or l r)) hn3 (by omega)
              have := cst_bin (W := w (.or l r)) (c := 2) (r := ql + qr - 1 + q3) hnl hnr hql hqr
                (by omega) h3 (by omega) (by omega)
              omega
            · have e1 : M (.or a b) + 3 = M (.any a) + M (.any b) := by simp [M, X, w]; omega
              have e2 : M (.any x) = M x + 3 := by simp [M, X, w]; omega
              have e3 : ia (.any x) = 0 := by simp [ia, Pred.isAnd]
              omega
          · refine AnsC.ret ⟨ql + qr - 1, by omega, hcost, ?_⟩
            have hio := ia_le (orRulesB (.or l r) l' r')
            rcases orRulesB_M (.or l r) l' r' with h | h
            · rw [h]
              have e1 : M (.or l' r') = 3 + M l' + M r' := by simp [M, X, w]; omega
              have e2 : ia (.or l' r') = 0 := by simp [ia, Pred.isAnd]
              omega
            · omega

end PyPred
