/-
The reflected *mixed-radix* Gray code `Gray.reflected ms` (what `gray_product` yields for
iterables of sizes `ms`, by `loop_reflected`): consecutive tuples differ in exactly one
position, and it lists every index tuple `t` with `0 ≤ tᵢ < msᵢ` exactly once.
-/
import Mathlib.Data.List.Nodup
import PyPred.Lemmas.GrayLoop

namespace PyPred.Gray

/-! ### `walk`, `up`, `down` -/

theorem walk_chain_ne {d : Int} (hd : d ≠ 0) (k : Nat) : ∀ x : Int, (walk x d k).IsChain (· ≠ ·) := by
  induction k with
  | zero => intro x; simp [walk]
  | succ k ih =>
    intro x
    cases k with
    | zero => simp [walk]
    | succ k =>
      have := ih (x + d)
      simp only [walk] at this ⊢
      rw [List.isChain_cons_cons]
      exact ⟨by omega, this⟩

theorem mem_walk_up (k : Nat) : ∀ x y : Int, y ∈ walk x 1 k ↔ x ≤ y ∧ y < x + k := by
  induction k with
  | zero => intro x y; simp [walk]
  | succ k ih =>
    intro x y
    simp only [walk, List.mem_cons, ih]
    push_cast
    omega

theorem walk_up_pairwise (k : Nat) : ∀ x : Int, (walk x 1 k).Pairwise (· < ·) := by
  induction k with
  | zero => intro x; simp [walk]
  | succ k ih =>
    intro x
    simp only [walk, List.pairwise_cons]
    refine ⟨?_, ih _⟩
    intro y hy
    have := (mem_walk_up k (x + 1) y).mp hy
    omega

theorem mem_up {m : Nat} {y : Int} : y ∈ up m ↔ 0 ≤ y ∧ y < m := by
  simp [up, mem_walk_up]

theorem up_nodup (m : Nat) : (up m).Nodup :=
  (walk_up_pairwise m 0).imp (fun h => by omega)

theorem up_succ (k : Nat) : up (k + 1) = up k ++ [(k : Int)] := by
  simp [up, walk_succ_up]

theorem down_succ (k : Nat) : down (k + 1) = (k : Int) :: down k := by
  have h1 : ((k + 1 : Nat) : Int) - 1 = k := by push_cast; omega
  have h2 : (k : Int) + -1 = (k : Int) - 1 := by omega
  simp only [down, walk, h1, h2]

theorem down_eq_reverse (m : Nat) : down m = (up m).reverse := by
  induction m with
  | zero => rfl
  | succ k ih => rw [down_succ, up_succ, ih]; simp

theorem down_perm (m : Nat) : (up m).Perm (down m) := by
  rw [down_eq_reverse]; exact (List.reverse_perm _).symm

/-! ### Adjacency -/

/-- Consecutive tuples of the reflected mixed-radix code differ in exactly one position. -/
theorem reflected_chain (ms : List Nat) (h : ∀ m ∈ ms, 1 ≤ m) : (reflected ms).IsChain Adj := by
  induction ms with
  | nil => simp [reflected]
  | cons m ms ih =>
    obtain ⟨k, rfl⟩ : ∃ k, m = k + 1 := ⟨m - 1, by have := h m (by simp); omega⟩
    simp only [reflected]
    refine weave_chain _ ?_ ?_ (walk_chain_ne (by decide) _ _) (walk_chain_ne (by decide) _ _) ?_ ?_
      (ih (fun m' hm' => h m' (by simp [hm'])))
    · simp [up_succ]
    · simp [down_succ]
    · simp [up_succ, down_succ]
    · rw [down_eq_reverse]; simp [up, walk]

/-! ### Every index tuple exactly once -/

/-- The Cartesian product of `range m₀, range m₁, …` (first coordinate fastest). -/
def tuples : List Nat → List (List Int)
  | [] => [[]]
  | m :: ms => (tuples ms).flatMap (fun t => (up m).map (· :: t))

theorem weave_perm {α : Type} {fwd bwd : List α} (h : fwd.Perm bwd) (L : List (List α)) :
    (weave fwd bwd L).Perm (L.flatMap fun t => fwd.map (· :: t)) ∧
    (weave bwd fwd L).Perm (L.flatMap fun t => fwd.map (· :: t)) := by
  induction L with
  | nil => simp [weave]
  | cons t ts ih =>
    simp only [weave, List.flatMap_cons]
    exact ⟨List.Perm.append_left _ ih.2, List.Perm.append (h.symm.map _) ih.1⟩

theorem reflected_perm (ms : List Nat) : (reflected ms).Perm (tuples ms) := by
  induction ms with
  | nil => simp [reflected, tuples]
  | cons m ms ih =>
    simp only [reflected, tuples]
    exact (weave_perm (down_perm m) _).1.trans (List.Perm.flatMap_right _ ih)

theorem mem_tuples {ms : List Nat} {t : List Int} :
    t ∈ tuples ms ↔ List.Forall₂ (fun x m => 0 ≤ x ∧ x < (m : Int)) t ms := by
  induction ms generalizing t with
  | nil => cases t <;> simp [tuples]
  | cons m ms ih =>
    simp only [tuples, List.mem_flatMap, List.mem_map]
    constructor
    · rintro ⟨t', ht', x, hx, rfl⟩
      exact List.Forall₂.cons (mem_up.mp hx) (ih.mp ht')
    · intro h
      cases h with
      | cons hx ht => exact ⟨_, ih.mpr ht, _, mem_up.mpr hx, rfl⟩

theorem tuples_nodup (ms : List Nat) : (tuples ms).Nodup := by
  induction ms with
  | nil => simp [tuples]
  | cons m ms ih =>
    simp only [tuples]
    rw [List.nodup_flatMap]
    refine ⟨fun t _ => (up_nodup m).map (fun a b hab => (List.cons.inj hab).1), ?_⟩
    refine ih.imp ?_
    intro a b hab
    simp only [Function.onFun, List.disjoint_left, List.mem_map]
    rintro x ⟨u, _, rfl⟩ ⟨v, _, hv⟩
    exact hab (List.cons.inj hv).2.symm

end PyPred.Gray
