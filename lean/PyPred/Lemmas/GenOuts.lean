/-
`Outs g v` — a static over-approximation of what the generator state `g` can ever yield,
defined by recursion on the state, and the theorem that ties it to the pull semantics:
whatever one `next()` yields is in `Outs`, and the successor state's `Outs` is contained in
the current one (`pull_sound`).  C09 / C10 then reduce to a static statement per clause:
every member of `Outs (genTrue p)` satisfies `p`.
-/
import PyPred.Lemmas.GenBasic

namespace PyPred
namespace Gen

open GVal

/-- Possible outputs of a generator state (and of all its successors). -/
def Outs : G → GVal → Prop
  | .ofList xs, v => v ∈ xs
  | .rep w, v => v = w
  | .cycBool _, v => ∃ c, v = .bool c
  | .ints lo hi _ _, v => ∃ a, v = .int a ∧ (∀ l, lo = some l → l ≤ a) ∧ (∀ u, hi = some u → a ≤ u)
  | .floats lo hi _, v => ∃ a : XF, v = a.val ∧ (XF.le lo hi = true → XF.le lo a = true ∧ XF.le a hi = true)
  | .strings, v => ∃ cs, v = .str cs
  | .uuids, v => ∃ n, v = .uuid n
  | .nowOnce, v => ∃ a, v = .dt a
  | .dicts _, v => ∃ items, v = .dict items
  | .sets _, v => ∃ xs, v = .set xs
  | .filter p neg g, v => Outs g v ∧ evalG p v = .ok (!neg)
  | .chain g h, v => Outs g v ∨ Outs h v
  | .zipNil, v => v = .tuple []
  | .zipCons g z, v => ∃ x xs, v = .tuple (x :: xs) ∧ Outs g x ∧ Outs z (.tuple xs)
  | .flat z buf, v => v ∈ buf ∨ ∃ xs, Outs z (.tuple xs) ∧ v ∈ xs
  | .map f g, v => ∃ w, Outs g w ∧ applyMap f w = .ok v
  | .allT tmpl _ _, v => ∃ xs, (∀ x ∈ xs, Outs tmpl x) ∧ (v = .list xs ∨ v = .tuple xs ∨ v = .set xs)
  | .anyT tmpl, v => ∃ xs, xs ≠ [] ∧ (∀ x ∈ xs, Outs tmpl x) ∧ (v = .tuple xs ∨ v = .set xs)
  | .anyT2 vals, v => ∃ xs, xs ≠ [] ∧ (∀ x ∈ xs, x ∈ vals) ∧ v = .set xs
  | .setOfT tmpl, v => ∃ xs, (∀ x ∈ xs, Outs tmpl x) ∧ v = .tuple xs
  | .allF tmpl, v => ∃ xs, xs ≠ [] ∧ (∀ x ∈ xs, Outs tmpl x) ∧ v = .tuple xs
  | .setOfF tmpl, v => ∃ xs, xs ≠ [] ∧ (∀ x ∈ xs, Outs tmpl x) ∧ v = .set xs

/-- The statement proved of one `next()`. -/
def StepSound (step : G → Tape → Res) : Prop :=
  ∀ g t v g' t', step g t = .yield v g' t' → Outs g v ∧ ∀ w, Outs g' w → Outs g w

theorem take_outs {step : G → Tape → Res} (h : StepSound step) {n : Nat} {g : G} {t : Tape}
    {vs : List GVal} {t' : Tape} (ht : takeWith step n g t = .ok vs t') : ∀ x ∈ vs, Outs g x :=
  takeWith_mem step Outs h n g t vs t' ht

theorem comb_outs {g : G} {vals : List GVal} (hv : ∀ x ∈ vals, Outs g x) (hne : vals ≠ []) (r : Nat) (t : Tape) :
    ∀ x ∈ (comb vals r t).1, Outs g x :=
  fun x hx => hv x (comb_mem hne r t x hx)

theorem allList_sound {step : G → Tape → Res} (hs : StepSound step) {tmpl : G} {ph m n : Nat} {t : Tape}
    {v : GVal} {g' : G} {t' : Tape} (h : allList step tmpl n t = .yield v g' t') :
    Outs (.allT tmpl ph m) v ∧ ∀ w, Outs g' w → Outs (.allT tmpl ph m) w := by
  simp only [allList] at h
  split at h
  · cases h
  · rename_i vals t2 hne htk
    simp only [Res.yield.injEq] at h
    obtain ⟨rfl, rfl, rfl⟩ := h
    have hv := take_outs hs htk
    exact ⟨⟨_, comb_outs hv hne _ _, Or.inl rfl⟩, fun w hw => by simpa [Outs] using hw⟩
  · cases h
  · cases h

theorem pull_zero (g : G) (t : Tape) : pull 0 g t = .starved := rfl

set_option maxHeartbeats 1600000 in
/-- One `next()` only yields possible outputs, and possible outputs only shrink. -/
theorem pull_sound : ∀ fuel, StepSound (pull fuel) := by
  intro fuel
  induction fuel with
  | zero => intro g t v g' t' h; simp [pull] at h
  | succ fuel ih =>
    intro g t v g' t' h
    cases g with
    | ofList xs =>
      cases xs with
      | nil => simp [pull] at h
      | cons x xs =>
        simp only [pull, Res.yield.injEq] at h
        obtain ⟨rfl, rfl, rfl⟩ := h
        exact ⟨by simp [Outs], fun w hw => by simp only [Outs] at hw ⊢; exact List.mem_cons_of_mem _ hw⟩
    | rep w =>
      simp only [pull, Res.yield.injEq] at h
      obtain ⟨rfl, rfl, rfl⟩ := h
      exact ⟨by simp [Outs], fun w hw => hw⟩
    | cycBool b =>
      simp only [pull, Res.yield.injEq] at h
      obtain ⟨rfl, rfl, rfl⟩ := h
      exact ⟨⟨b, rfl⟩, fun w hw => by simpa [Outs] using hw⟩
    | ints lo hi ph j =>
      simp only [pull] at h
      split at h
      · cases h
      · rename_i hne
        have hne' : emptyRange lo hi = false := by simpa using hne
        split at h
        · rename_i hle
          simp only [Res.yield.injEq] at h
          obtain ⟨rfl, rfl, rfl⟩ := h
          refine ⟨⟨_, rfl, ?_, ?_⟩, ?_⟩
          · intro l hl
            exact Int.le_trans (windowLow_ge lo _ _ l hl) (randint_ge t hle)
          · intro u hu
            exact Int.le_trans (randint_le t hle) (windowHigh_le hi _ _ u hu)
          · intro w hw
            split at hw <;> simpa [Outs] using hw
        · obtain ⟨h1, h2⟩ := ih _ _ _ _ _ h
          exact ⟨by simpa [Outs] using h1, fun w hw => by simpa [Outs] using h2 w hw⟩
    | floats lo hi ph =>
      simp only [pull] at h
      split at h
      · simp only [Res.yield.injEq] at h
        obtain ⟨rfl, rfl, rfl⟩ := h
        exact ⟨⟨lo, rfl, fun hle => ⟨XF.le_refl _, hle⟩⟩, fun w hw => by simpa [Outs] using hw⟩
      · simp only [Res.yield.injEq] at h
        obtain ⟨rfl, rfl, rfl⟩ := h
        exact ⟨⟨hi, rfl, fun hle => ⟨hle, XF.le_refl _⟩⟩, fun w hw => by simpa [Outs] using hw⟩
      · split at h
        · rename_i hlt
          split at h
          · rename_i a b
            simp only [Res.yield.injEq] at h
            obtain ⟨rfl, rfl, rfl⟩ := h
            have hab : a ≤ b := by
              have := XF.le_of_lt hlt
              simpa [XF.le] using this
            exact ⟨⟨.fin _, rfl, fun _ => ⟨by simpa [XF.le] using uniform_ge t hab, by simpa [XF.le] using uniform_le t hab⟩⟩,
              fun w hw => by simpa [Outs] using hw⟩
          · cases h
        · simp only [Res.yield.injEq] at h
          obtain ⟨rfl, rfl, rfl⟩ := h
          exact ⟨⟨lo, rfl, fun hle => ⟨XF.le_refl _, hle⟩⟩, fun w hw => by simpa [Outs] using hw⟩
    | strings =>
      simp only [pull, Res.yield.injEq] at h
      obtain ⟨rfl, rfl, rfl⟩ := h
      exact ⟨⟨_, rfl⟩, fun w hw => hw⟩
    | uuids =>
      simp only [pull, Res.yield.injEq] at h
      obtain ⟨rfl, rfl, rfl⟩ := h
      exact ⟨⟨_, rfl⟩, fun w hw => hw⟩
    | nowOnce =>
      simp only [pull, Res.yield.injEq] at h
      obtain ⟨rfl, rfl, rfl⟩ := h
      exact ⟨⟨_, rfl⟩, fun w hw => by simp [Outs] at hw⟩
    | dicts first =>
      cases first with
      | true =>
        simp only [pull, Res.yield.injEq] at h
        obtain ⟨rfl, rfl, rfl⟩ := h
        exact ⟨⟨_, rfl⟩, fun w hw => by simpa [Outs] using hw⟩
      | false =>
        simp only [pull] at h
        split at h
        · split at h
          · simp only [Res.yield.injEq] at h
            obtain ⟨rfl, rfl, rfl⟩ := h
            exact ⟨⟨_, rfl⟩, fun w hw => hw⟩
          · cases h
          · cases h
        · cases h
        · cases h
    | sets first =>
      cases first with
      | true =>
        simp only [pull, Res.yield.injEq] at h
        obtain ⟨rfl, rfl, rfl⟩ := h
        exact ⟨⟨_, rfl⟩, fun w hw => by simpa [Outs] using hw⟩
      | false =>
        simp only [pull] at h
        split at h
        · split at h
          · rename_i s hs
            simp only [Res.yield.injEq] at h
            obtain ⟨rfl, rfl, rfl⟩ := h
            exact ⟨⟨_, mkSet_ok hs⟩, fun w hw => hw⟩
          · cases h
        · cases h
        · cases h
    | filter p neg g =>
      simp only [pull] at h
      split at h
      · rename_i v1 g1 t1 hp
        obtain ⟨h1, h2⟩ := ih _ _ _ _ _ hp
        split at h
        · rename_i b hb
          split at h
          · rename_i hbn
            simp only [Res.yield.injEq] at h
            obtain ⟨rfl, rfl, rfl⟩ := h
            refine ⟨⟨h1, ?_⟩, fun w hw => ⟨h2 w hw.1, hw.2⟩⟩
            rw [hb]; cases b <;> cases neg <;> simp_all
          · obtain ⟨h3, h4⟩ := ih _ _ _ _ _ h
            exact ⟨⟨h2 _ h3.1, h3.2⟩, fun w hw => by
              have := h4 w hw
              exact ⟨h2 _ this.1, this.2⟩⟩
        · cases h
      · cases h
      · cases h
      · cases h
    | chain g1 g2 =>
      simp only [pull] at h
      split at h
      · rename_i v1 g1' t1 hp
        obtain ⟨h1, h2⟩ := ih _ _ _ _ _ hp
        simp only [Res.yield.injEq] at h
        obtain ⟨rfl, rfl, rfl⟩ := h
        exact ⟨Or.inl h1, fun w hw => by
          simp only [Outs] at hw ⊢
          rcases hw with hw | hw
          · exact Or.inl (h2 w hw)
          · exact Or.inr hw⟩
      · obtain ⟨h1, h2⟩ := ih _ _ _ _ _ h
        exact ⟨Or.inr h1, fun w hw => Or.inr (h2 w hw)⟩
      · cases h
      · cases h
    | zipNil =>
      simp only [pull, Res.yield.injEq] at h
      obtain ⟨rfl, rfl, rfl⟩ := h
      exact ⟨rfl, fun w hw => hw⟩
    | zipCons g z =>
      simp only [pull] at h
      split at h
      · rename_i x g1 t1 hp
        obtain ⟨h1, h2⟩ := ih _ _ _ _ _ hp
        split at h
        · rename_i xs z1 t2 hz
          obtain ⟨h3, h4⟩ := ih _ _ _ _ _ hz
          simp only [Res.yield.injEq] at h
          obtain ⟨rfl, rfl, rfl⟩ := h
          refine ⟨⟨x, xs, rfl, h1, h3⟩, ?_⟩
          intro w hw
          obtain ⟨y, ys, rfl, hy, hys⟩ := hw
          exact ⟨y, ys, rfl, h2 _ hy, h4 _ hys⟩
        · cases h
        · cases h
        · cases h
        · cases h
      · cases h
      · cases h
      · cases h
    | flat z buf =>
      cases buf with
      | cons b bs =>
        simp only [pull, Res.yield.injEq] at h
        obtain ⟨rfl, rfl, rfl⟩ := h
        refine ⟨Or.inl (by simp), ?_⟩
        intro w hw
        simp only [Outs] at hw ⊢
        rcases hw with hw | hw
        · exact Or.inl (List.mem_cons_of_mem _ hw)
        · exact Or.inr hw
      | nil =>
        simp only [pull] at h
        split at h
        · rename_i x xs z1 t1 hz
          obtain ⟨h1, h2⟩ := ih _ _ _ _ _ hz
          simp only [Res.yield.injEq] at h
          obtain ⟨rfl, rfl, rfl⟩ := h
          refine ⟨Or.inr ⟨_, h1, by simp⟩, ?_⟩
          intro w hw
          simp only [Outs] at hw ⊢
          rcases hw with hw | ⟨ys, hys, hw⟩
          · exact Or.inr ⟨_, h1, List.mem_cons_of_mem _ hw⟩
          · exact Or.inr ⟨ys, h2 _ hys, hw⟩
        · cases h
        · cases h
        · cases h
        · cases h
    | map f g =>
      simp only [pull] at h
      split at h
      · rename_i v1 g1 t1 hp
        obtain ⟨h1, h2⟩ := ih _ _ _ _ _ hp
        split at h
        · rename_i w1 hw1
          simp only [Res.yield.injEq] at h
          obtain ⟨rfl, rfl, rfl⟩ := h
          exact ⟨⟨_, h1, hw1⟩, fun w ⟨u, hu, hu2⟩ => ⟨u, h2 _ hu, hu2⟩⟩
        · cases h
      · cases h
      · cases h
      · cases h
    | allT tmpl ph n =>
      match ph with
      | 0 =>
        simp only [pull, Res.yield.injEq] at h
        obtain ⟨rfl, rfl, rfl⟩ := h
        exact ⟨⟨[], by simp, Or.inl rfl⟩, fun w hw => by simpa [Outs] using hw⟩
      | 1 =>
        simp only [pull] at h
        split at h
        · cases h
        · rename_i vals t2 hne htk
          simp only [Res.yield.injEq] at h
          obtain ⟨rfl, rfl, rfl⟩ := h
          have hv := take_outs ih htk
          have hne' : vals ≠ [] := hne
          exact ⟨⟨_, comb_outs hv hne' _ _, Or.inr (Or.inl rfl)⟩, fun w hw => by simpa [Outs] using hw⟩
        · cases h
        · cases h
      | 2 =>
        simp only [pull] at h
        split at h
        · cases h
        · rename_i vals t2 hne htk
          have hv := take_outs ih htk
          have hne' : vals ≠ [] := hne
          split at h
          · simp only [Res.yield.injEq] at h
            obtain ⟨rfl, rfl, rfl⟩ := h
            refine ⟨⟨_, ?_, Or.inr (Or.inr rfl)⟩, fun w hw => by simpa [Outs] using hw⟩
            intro x hx
            exact comb_outs hv hne' _ _ x (mem_dedup hx)
          · exact allList_sound ih h
        · cases h
        · cases h
      | k + 3 =>
        simp only [pull] at h
        exact allList_sound ih h
    | anyT tmpl =>
      simp only [pull] at h
      split at h
      · cases h
      · rename_i vals t2 hne htk
        simp only [Res.yield.injEq] at h
        obtain ⟨rfl, rfl, rfl⟩ := h
        have hv := take_outs ih htk
        have hne' : vals ≠ [] := hne
        refine ⟨⟨_, comb_ne_nil vals (by decide) _, comb_outs hv hne' _ _, Or.inl rfl⟩, ?_⟩
        intro w hw
        obtain ⟨xs, hx1, hx2, rfl⟩ := hw
        exact ⟨xs, hx1, fun x hx => hv x (hx2 x hx), Or.inr rfl⟩
      · cases h
      · cases h
    | anyT2 vals =>
      cases vals with
      | nil => simp [pull] at h
      | cons a as =>
        simp only [pull] at h
        split at h
        · simp only [Res.yield.injEq] at h
          obtain ⟨rfl, rfl, rfl⟩ := h
          refine ⟨⟨_, dedup_ne_nil (comb_ne_nil (a :: as) (by decide) t), ?_, rfl⟩, fun w hw => by simp [Outs] at hw⟩
          intro x hx
          exact comb_mem (by simp) _ _ x (mem_dedup hx)
        · cases h
    | setOfT tmpl =>
      simp only [pull] at h
      split at h
      · rename_i vals t2 htk
        have hv := take_outs ih htk
        split at h
        · simp only [Res.yield.injEq] at h
          obtain ⟨rfl, rfl, rfl⟩ := h
          refine ⟨⟨_, ?_, rfl⟩, fun w hw => hw⟩
          intro x hx
          exact hv x (mem_dedup (mem_sortKey hx))
        · obtain ⟨h1, h2⟩ := ih _ _ _ _ _ h
          exact ⟨h1, h2⟩
      · cases h
      · cases h
    | allF tmpl =>
      simp only [pull] at h
      split at h
      · cases h
      · rename_i vals t2 hne htk
        simp only [Res.yield.injEq] at h
        obtain ⟨rfl, rfl, rfl⟩ := h
        have hv := take_outs ih htk
        have hne' : vals ≠ [] := hne
        have hpos : 0 < (t.randint 1 10).1.toNat := by
          have := randint_ge t (lo := 1) (hi := 10) (by decide)
          omega
        exact ⟨⟨_, comb_ne_nil vals hpos _, comb_outs hv hne' _ _, rfl⟩, fun w hw => hw⟩
      · cases h
      · cases h
    | setOfF tmpl =>
      simp only [pull] at h
      split at h
      · rename_i vals t2 htk
        have hv := take_outs ih htk
        split at h
        · cases h
        · rename_i hv' hne
          simp only [Res.yield.injEq] at h
          obtain ⟨rfl, rfl, rfl⟩ := h
          have hsub : ∀ x ∈ vals.filter hashable, Outs tmpl x := fun x hx => hv x (List.mem_filter.mp hx).1
          refine ⟨⟨_, dedup_ne_nil (comb_ne_nil _ (by decide) t2), ?_, rfl⟩, fun w hw => by simp [Outs] at hw⟩
          intro x hx
          exact comb_outs hsub (by intro hc; exact hne hc) _ _ x (mem_dedup hx)
      · cases h
      · cases h

end Gen
end PyPred
