/-
Lemmas about M7 `Scope`: evaluation of reference-free predicates, the `all` loop
with a cache invariant, unfolding of `spec`, and the shape of `findRef` / `findLazy`.
-/
import PyPred.Model.Scope

namespace PyPred.Scope

/-! ### values -/

theorem depth_le_depthList {e : Value} {xs : List Value} (h : e ∈ xs) : e.depth ≤ depthList xs := by
  induction xs with
  | nil => cases h
  | cons a t ih =>
    simp only [depthList]
    rcases List.mem_cons.mp h with rfl | h'
    · exact Nat.le_max_left _ _
    · exact Nat.le_trans (ih h') (Nat.le_max_right _ _)

theorem specList_eq_all (I : Nat → Value → Bool) (base : Pred) (xs : List Value) :
    specList I base xs = xs.all (spec I base) := by
  induction xs with
  | nil => simp [specList]
  | cons a t ih => simp [specList, ih]

/-- `spec` is the recursive definition: `base x ∨ (x is a list ∧ every member satisfies spec)`. -/
theorem spec_unfold (I : Nat → Value → Bool) (base : Pred) (x : Value) :
    spec I base x = (evalS I base x || (match x with
      | .seq k xs => k == 0 && xs.all (spec I base)
      | _ => false)) := by
  cases x <;> simp [spec, specList_eq_all]

/-! ### evaluation -/

theorem evalP_simple (I : Nat → Value → Bool) (d : Pred → Value → Cache → Res) :
    ∀ (p : Pred), p.simple = true → ∀ x c, evalP I d p x c = (.ok (evalS I p x), c) := by
  intro p
  induction p with
  | base b => intro _ x c; simp [evalP, evalS]
  | isSeq k => intro _ x c; simp [evalP, evalS]
  | isDict => intro _ x c; simp [evalP, evalS]
  | or l r ihl ihr =>
    intro h x c
    simp only [Pred.simple, Bool.and_eq_true] at h
    simp only [evalP, ihl h.1, evalS]
    cases hl : evalS I l x <;> simp [ihr h.2]
  | and l r ihl ihr =>
    intro h x c
    simp only [Pred.simple, Bool.and_eq_true] at h
    simp only [evalP, ihl h.1, evalS]
    cases hl : evalS I l x <;> simp [ihr h.2]
  | all p _ => intro h; simp [Pred.simple] at h
  | comp f p _ => intro h; simp [Pred.simple] at h
  | ref k id => intro h; simp [Pred.simple] at h
  | lazy id n => intro h; simp [Pred.simple] at h
  | factory k => intro h; simp [Pred.simple] at h

/-- The `all` loop: if on every member `f` answers `g` and keeps the invariant, the
loop answers `xs.all g` and keeps the invariant. -/
theorem allList_inv {f : Value → Cache → Res} {g : Value → Bool} {Inv : Cache → Prop} :
    ∀ (xs : List Value),
      (∀ e ∈ xs, ∀ c, Inv c → ∃ c', f e c = (.ok (g e), c') ∧ Inv c') →
      ∀ c, Inv c → ∃ c', allList f xs c = (.ok (xs.all g), c') ∧ Inv c' := by
  intro xs
  induction xs with
  | nil => intro _ c hc; exact ⟨c, by simp [allList], hc⟩
  | cons a t ih =>
    intro h c hc
    obtain ⟨c1, h1, hc1⟩ := h a (List.mem_cons_self) c hc
    cases hg : g a with
    | false =>
      refine ⟨c1, ?_, hc1⟩
      simp [allList, h1, hg]
    | true =>
      obtain ⟨c2, h2, hc2⟩ := ih (fun e he => h e (List.mem_cons_of_mem _ he)) c1 hc1
      refine ⟨c2, ?_, hc2⟩
      simp [allList, h1, hg, h2]

/-- A node handled by `deref`. -/
def Pred.isNode : Pred → Bool
  | .ref _ _ => true
  | .lazy _ _ => true
  | _ => false

theorem evalP_node (I : Nat → Value → Bool) (d : Pred → Value → Cache → Res) {node : Pred}
    (h : node.isNode = true) (x : Value) (c : Cache) : evalP I d node x c = d node x c := by
  cases node <;> simp [Pred.isNode] at h <;> simp [evalP]

theorem Cache.get_cons_self (c : Cache) (id : Nat) (v : Option Binding) :
    Cache.get ((id, v) :: c) id = some v := by
  simp [Cache.get]

/-! ### resolution -/

/-- The node occurs in the tree, by identity, through `all / and / comp / or`. -/
def occurs (k : RefKind) (id : Nat) : Pred → Bool
  | .all p => occurs k id p
  | .and l r => occurs k id l || occurs k id r
  | .comp _ p => occurs k id p
  | .or l r => occurs k id l || occurs k id r
  | .ref k' j => k' == k && j == id
  | _ => false

theorem inTree_fixed (k : RefKind) (id : Nat) (p : Pred) : inTree Cfg.fixed k id p = occurs k id p := by
  induction p <;> simp_all [inTree, occurs, sameNode, Cfg.fixed]

/-- Some node of class `k`, or the factory of class `k`, occurs in the tree (what the
pinned `==` cannot tell apart from the node itself). -/
def occursKind (k : RefKind) : Pred → Bool
  | .all p => occursKind k p
  | .and l r => occursKind k l || occursKind k r
  | .comp _ p => occursKind k p
  | .or l r => occursKind k l || occursKind k r
  | .ref k' _ => k' == k
  | .factory k' => k' == k
  | _ => false

theorem inTree_pinned (k : RefKind) (id : Nat) (p : Pred) : inTree Cfg.pinned k id p = occursKind k p := by
  induction p <;> simp_all [inTree, occursKind, sameNode, Cfg.pinned]

theorem candidate_fixed_iff (k : RefKind) (id : Nat) (key : String) (v : Pred) :
    candidate Cfg.fixed k id key (.pred v) = true ↔ v ≠ .ref k id ∧ key ≠ "self" ∧ occurs k id v = true := by
  simp only [candidate, inTree_fixed, Bool.and_eq_true, Bool.not_eq_true', bne_iff_ne, ne_eq, and_assoc]
  constructor
  · rintro ⟨h1, h2, h3⟩
    refine ⟨?_, h2, h3⟩
    rintro rfl
    simp [sameNode, Cfg.fixed] at h1
  · rintro ⟨h1, h2, h3⟩
    refine ⟨?_, h2, h3⟩
    cases v <;> simp_all [sameNode, Cfg.fixed]

theorem candidate_pinned_iff (k : RefKind) (id : Nat) (key : String) (v : Pred) :
    candidate Cfg.pinned k id key (.pred v) = true ↔
      (∀ j, v ≠ .ref k j) ∧ key ≠ "self" ∧ occursKind k v = true := by
  simp only [candidate, inTree_pinned, Bool.and_eq_true, Bool.not_eq_true', bne_iff_ne, ne_eq, and_assoc]
  constructor
  · rintro ⟨h1, h2, h3⟩
    refine ⟨?_, h2, h3⟩
    rintro j rfl
    simp [sameNode, Cfg.pinned] at h1
  · rintro ⟨h1, h2, h3⟩
    refine ⟨?_, h2, h3⟩
    cases v <;> simp_all [sameNode, Cfg.pinned]

theorem pickCandidate_eq_some (cfg : Cfg) (k : RefKind) (id : Nat) (kb : String × Binding) (v : Pred) :
    pickCandidate cfg k id kb = some v ↔ kb.2 = .pred v ∧ candidate cfg k id kb.1 kb.2 = true := by
  obtain ⟨key, b⟩ := kb
  cases b with
  | pred w =>
    simp only [pickCandidate]
    by_cases hc : candidate cfg k id key (.pred w) = true
    · simp [hc]
    · simp [hc]
  | other t => simp [pickCandidate, candidate]

theorem pickCandidate_eq_none (cfg : Cfg) (k : RefKind) (id : Nat) (kb : String × Binding) :
    pickCandidate cfg k id kb = none ↔ candidate cfg k id kb.1 kb.2 = false := by
  obtain ⟨key, b⟩ := kb
  cases b with
  | pred w =>
    simp only [pickCandidate]
    by_cases hc : candidate cfg k id key (.pred w) = true
    · simp [hc]
    · simp [hc]
  | other t => simp [pickCandidate, candidate]

/-- No binding of the frame passes the candidate test. -/
def Frame.noCandidate (cfg : Cfg) (k : RefKind) (id : Nat) (fr : Frame) : Prop :=
  ∀ kb ∈ fr, candidate cfg k id kb.1 kb.2 = false

theorem scanFrame_eq_none (cfg : Cfg) (k : RefKind) (id : Nat) (fr : Frame) :
    scanFrame cfg k id fr = none ↔ fr.noCandidate cfg k id := by
  unfold scanFrame Frame.noCandidate
  rw [List.findSome?_eq_none_iff]
  cases k <;> simp [scanOrder, pickCandidate_eq_none]

/-- In scan order, `P` is the first binding that passes the candidate test. -/
def Frame.firstCandidate (cfg : Cfg) (k : RefKind) (id : Nat) (fr : Frame) (P : Pred) : Prop :=
  ∃ pre name post, scanOrder k fr = pre ++ (name, .pred P) :: post ∧
    (∀ kb ∈ pre, candidate cfg k id kb.1 kb.2 = false) ∧ candidate cfg k id name (.pred P) = true

theorem scanFrame_eq_some (cfg : Cfg) (k : RefKind) (id : Nat) (fr : Frame) (P : Pred) :
    scanFrame cfg k id fr = some P ↔ fr.firstCandidate cfg k id P := by
  unfold scanFrame Frame.firstCandidate
  rw [List.findSome?_eq_some_iff]
  constructor
  · rintro ⟨l1, a, l2, hl, ha, hpre⟩
    obtain ⟨name, b⟩ := a
    rw [pickCandidate_eq_some] at ha
    obtain ⟨hb, hc⟩ := ha
    simp only at hb hc
    subst hb
    exact ⟨l1, name, l2, hl, fun kb hkb => (pickCandidate_eq_none cfg k id kb).mp (hpre kb hkb), hc⟩
  · rintro ⟨pre, name, post, hl, hpre, hc⟩
    refine ⟨pre, (name, .pred P), post, hl, ?_, fun kb hkb => (pickCandidate_eq_none cfg k id kb).mpr (hpre kb hkb)⟩
    rw [pickCandidate_eq_some]
    exact ⟨rfl, hc⟩

/-- `findRef` returns the first candidate (in scan order) of the innermost frame that has one. -/
theorem findRef_eq_some_iff (cfg : Cfg) (k : RefKind) (id : Nat) (st : Stack) (P : Pred) :
    findRef cfg k id st = some P ↔
      ∃ inner fr outer, st = inner ++ fr :: outer ∧ (∀ f ∈ inner, Frame.noCandidate cfg k id f) ∧
        fr.firstCandidate cfg k id P := by
  induction st with
  | nil => simp [findRef]
  | cons f rest ih =>
    simp only [findRef]
    cases hs : scanFrame cfg k id f with
    | some q =>
      simp only [Option.some.injEq]
      constructor
      · rintro rfl
        exact ⟨[], f, rest, rfl, by simp, (scanFrame_eq_some cfg k id f q).mp hs⟩
      · rintro ⟨inner, fr, outer, hst, hin, hfc⟩
        cases inner with
        | nil =>
          simp only [List.nil_append, List.cons.injEq] at hst
          obtain ⟨rfl, rfl⟩ := hst
          have := (scanFrame_eq_some cfg k id f P).mpr hfc
          rw [hs] at this
          exact Option.some.inj this
        | cons g inner' =>
          simp only [List.cons_append, List.cons.injEq] at hst
          obtain ⟨rfl, _⟩ := hst
          have := (scanFrame_eq_none cfg k id f).mpr (hin f (List.mem_cons_self))
          rw [hs] at this
          cases this
    | none =>
      simp only
      rw [ih]
      have hnone := (scanFrame_eq_none cfg k id f).mp hs
      constructor
      · rintro ⟨inner, fr, outer, hst, hin, hfc⟩
        refine ⟨f :: inner, fr, outer, by simp [hst], ?_, hfc⟩
        intro g hg
        rcases List.mem_cons.mp hg with rfl | hg'
        · exact hnone
        · exact hin g hg'
      · rintro ⟨inner, fr, outer, hst, hin, hfc⟩
        cases inner with
        | nil =>
          simp only [List.nil_append, List.cons.injEq] at hst
          obtain ⟨rfl, rfl⟩ := hst
          have := (scanFrame_eq_some cfg k id f P).mpr hfc
          rw [hs] at this
          cases this
        | cons g inner' =>
          simp only [List.cons_append, List.cons.injEq] at hst
          obtain ⟨rfl, rfl⟩ := hst
          exact ⟨inner', fr, outer, rfl, fun g hg => hin g (List.mem_cons_of_mem _ hg), hfc⟩

theorem findRef_eq_none_iff (cfg : Cfg) (k : RefKind) (id : Nat) (st : Stack) :
    findRef cfg k id st = none ↔ ∀ f ∈ st, Frame.noCandidate cfg k id f := by
  induction st with
  | nil => simp [findRef]
  | cons f rest ih =>
    simp only [findRef]
    cases hs : scanFrame cfg k id f with
    | some q =>
      simp only [reduceCtorEq, false_iff]
      intro h
      have := (scanFrame_eq_none cfg k id f).mpr (h f (List.mem_cons_self))
      rw [hs] at this
      cases this
    | none =>
      simp only
      rw [ih]
      have hnone := (scanFrame_eq_none cfg k id f).mp hs
      constructor
      · intro h g hg
        rcases List.mem_cons.mp hg with rfl | hg'
        · exact hnone
        · exact h g hg'
      · intro h g hg
        exact h g (List.mem_cons_of_mem _ hg)

theorem lookupName_eq_none_iff (name : String) (fr : Frame) :
    lookupName name fr = none ↔ ∀ kb ∈ fr, kb.1 ≠ name := by
  induction fr with
  | nil => simp [lookupName]
  | cons a t ih =>
    obtain ⟨key, b⟩ := a
    simp only [lookupName]
    by_cases h : key = name
    · simp [h]
    · simp [h, ih]

/-- `findLazy` returns the binding of the name in the innermost frame that binds it. -/
theorem findLazy_eq_some_iff (name : String) (st : Stack) (b : Binding) :
    findLazy name st = some b ↔
      ∃ inner fr outer, st = inner ++ fr :: outer ∧ (∀ f ∈ inner, lookupName name f = none) ∧
        lookupName name fr = some b := by
  induction st with
  | nil => simp [findLazy]
  | cons f rest ih =>
    simp only [findLazy]
    cases hs : lookupName name f with
    | some q =>
      simp only [Option.some.injEq]
      constructor
      · rintro rfl
        exact ⟨[], f, rest, rfl, by simp, hs⟩
      · rintro ⟨inner, fr, outer, hst, hin, hfc⟩
        cases inner with
        | nil =>
          simp only [List.nil_append, List.cons.injEq] at hst
          obtain ⟨rfl, rfl⟩ := hst
          rw [hs] at hfc
          exact Option.some.inj hfc
        | cons g inner' =>
          simp only [List.cons_append, List.cons.injEq] at hst
          obtain ⟨rfl, _⟩ := hst
          have := hin f (List.mem_cons_self)
          rw [hs] at this
          cases this
    | none =>
      simp only
      rw [ih]
      constructor
      · rintro ⟨inner, fr, outer, hst, hin, hfc⟩
        refine ⟨f :: inner, fr, outer, by simp [hst], ?_, hfc⟩
        intro g hg
        rcases List.mem_cons.mp hg with rfl | hg'
        · exact hs
        · exact hin g hg'
      · rintro ⟨inner, fr, outer, hst, hin, hfc⟩
        cases inner with
        | nil =>
          simp only [List.nil_append, List.cons.injEq] at hst
          obtain ⟨rfl, rfl⟩ := hst
          rw [hs] at hfc
          cases hfc
        | cons g inner' =>
          simp only [List.cons_append, List.cons.injEq] at hst
          obtain ⟨rfl, rfl⟩ := hst
          exact ⟨inner', fr, outer, rfl, fun g hg => hin g (List.mem_cons_of_mem _ hg), hfc⟩

theorem findLazy_eq_none_iff (name : String) (st : Stack) :
    findLazy name st = none ↔ ∀ f ∈ st, lookupName name f = none := by
  induction st with
  | nil => simp [findLazy]
  | cons f rest ih =>
    simp only [findLazy]
    cases hs : lookupName name f with
    | some q =>
      simp only [reduceCtorEq, false_iff]
      intro h
      have := h f (List.mem_cons_self)
      rw [hs] at this
      cases this
    | none =>
      simp only
      rw [ih]
      constructor
      · intro h g hg
        rcases List.mem_cons.mp hg with rfl | hg'
        · exact hs
        · exact h g hg'
      · intro h g hg
        exact h g (List.mem_cons_of_mem _ hg)

end PyPred.Scope
