/-
Facts about the lexer model: blanks are irrelevant, a word token is exactly a
maximal run of letters, `true` / `false` are constants only as whole words,
any foreign character rejects the whole text, and every spelling of a token list
(with arbitrary blanks) lexes back to it.
-/
import PyPred.Model.Parser

namespace PyPred
namespace Parser

theorem flush_nil (r : List Token) : flush [] r = r := by simp [flush]

theorem flush_nil_fun : flush [] = id := funext flush_nil

theorem flush_ne {acc : List Char} (h : acc ≠ []) (r : List Token) : flush acc r = word acc :: r := by
  simp [flush, h]

/-- letters are only accumulated -/
theorem lexGo_letters : ∀ (w : List Char), (∀ c ∈ w, isLetter c = true) → ∀ acc rest,
    lexGo acc (w ++ rest) = lexGo (acc ++ w) rest := by
  intro w
  induction w with
  | nil => intro _ acc rest; simp
  | cons c w ih =>
    intro hw acc rest
    have hc : isLetter c = true := hw c (by simp)
    simp only [List.cons_append, lexGo, hc, if_true]
    rw [ih (fun d hd => hw d (by simp [hd]))]
    simp

/-- at a non-letter the pending word is emitted and lexing restarts -/
theorem lexGo_flush {c : Char} (hc : isLetter c = false) (acc cs) :
    lexGo acc (c :: cs) = (lexGo [] (c :: cs)).map (flush acc) := by
  simp only [lexGo, hc, Bool.false_eq_true, if_false]
  cases sym c with
  | some t => simp [flush_nil, Option.map_map, Function.comp_def]
  | none =>
    by_cases h : c = ' '
    · simp [h, flush_nil, Option.map_map, Function.comp_def]
    · simp [h]

def startsWithLetter : List Char → Bool
  | c :: _ => isLetter c
  | [] => false

/-- **A word token is exactly a maximal run of letters.** -/
theorem lex_word {w : List Char} (hne : w ≠ []) (hw : ∀ c ∈ w, isLetter c = true)
    {rest : List Char} (hr : startsWithLetter rest = false) :
    lexChars (w ++ rest) = (lexChars rest).map (fun ts => word w :: ts) := by
  unfold lexChars
  rw [lexGo_letters w hw, List.nil_append]
  cases rest with
  | nil => simp [lexGo, flush_ne hne, flush_nil]
  | cons c cs =>
    rw [lexGo_flush (by simpa [startsWithLetter] using hr)]
    congr 1
    funext ts
    exact flush_ne hne ts

/-- **Blanks are skipped.** -/
theorem lex_space (cs : List Char) : lexChars (' ' :: cs) = lexChars cs := by
  have h1 : isLetter ' ' = false := by decide
  have h2 : sym ' ' = none := by decide
  simp [lexChars, lexGo, h1, h2, flush_nil_fun]

theorem lex_nil : lexChars [] = some [] := by simp [lexChars, lexGo, flush]

def isSymTok : Token → Bool
  | .not | .and | .or | .xor | .lp | .rp => true
  | _ => false

theorem lex_sym {t : Token} (ht : isSymTok t = true) (cs : List Char) :
    lexChars (t.chars ++ cs) = (lexChars cs).map (fun ts => t :: ts) := by
  cases t <;> simp [isSymTok] at ht <;>
    simp [Token.chars, lexChars, lexGo, isLetter, sym, flush_nil]

/-- the characters the lexer tolerates -/
def okChar (c : Char) : Bool := isLetter c || (sym c).isSome || c == ' '

/-- **Any other character rejects the whole text** (digits, `_`, tabs, newlines, non-ASCII letters, …). -/
theorem lexGo_reject {c : Char} (hc : okChar c = false) : ∀ (cs : List Char), c ∈ cs → ∀ acc, lexGo acc cs = none := by
  have h1 : isLetter c = false := by simp [okChar] at hc; exact hc.1.1
  have h2 : sym c = none := by simp [okChar] at hc; simpa using hc.1.2
  have h3 : c ≠ ' ' := by simp [okChar] at hc; exact hc.2
  intro cs
  induction cs with
  | nil => intro h; simp at h
  | cons d ds ih =>
    intro hmem acc
    rcases List.mem_cons.1 hmem with rfl | hmem
    · simp [lexGo, h1, h2, h3]
    · simp only [lexGo]
      by_cases hd : isLetter d = true
      · simp [hd, ih hmem]
      · simp only [hd, Bool.false_eq_true, if_false]
        cases sym d with
        | some t => simp [ih hmem]
        | none => by_cases hs : d = ' ' <;> simp [hs, ih hmem]

theorem lex_reject {c : Char} (hc : okChar c = false) {cs : List Char} (h : c ∈ cs) : lexChars cs = none :=
  lexGo_reject hc cs h []

/-- accepted texts consist of letters, the six symbols and blanks only -/
theorem lex_chars_ok {cs : List Char} {ts : List Token} (h : lexChars cs = some ts) : ∀ c ∈ cs, okChar c = true := by
  intro c hc
  cases hk : okChar c with
  | true => rfl
  | false => rw [lex_reject hk hc] at h; cases h

/-! ### Spellings -/

/-- names the lexer can produce: non-empty, letters only, not a keyword -/
def Token.valid : Token → Prop
  | .name s => s ≠ [] ∧ (∀ c ∈ s, isLetter c = true) ∧ s ≠ trueW ∧ s ≠ falseW
  | _ => True

/-- `cs` spells the tokens `ts`: blanks anywhere, but a word must not run into a following letter -/
inductive Spells : List Token → List Char → Prop
  | nil : Spells [] []
  | space {ts cs} : Spells ts cs → Spells ts (' ' :: cs)
  | sym {t ts cs} : isSymTok t = true → Spells ts cs → Spells (t :: ts) (t.chars ++ cs)
  | word {t ts cs} : isWord t = true → t.valid → Spells ts cs → startsWithLetter cs = false →
      Spells (t :: ts) (t.chars ++ cs)

theorem word_chars {t : Token} (hw : isWord t = true) (hv : t.valid) :
    word t.chars = t ∧ t.chars ≠ [] ∧ ∀ c ∈ t.chars, isLetter c = true := by
  cases t <;> simp [isWord] at hw
  case name s =>
    obtain ⟨h1, h2, h3, h4⟩ := hv
    exact ⟨by simp [Token.chars, word, h3, h4], h1, h2⟩
  case tt => exact ⟨by decide, by decide, by decide⟩
  case ff => exact ⟨by decide, by decide, by decide⟩

/-- **Every spelling lexes to its tokens** (so blanks are optional and irrelevant). -/
theorem lex_spells {ts : List Token} {cs : List Char} (h : Spells ts cs) : lexChars cs = some ts := by
  induction h with
  | nil => exact lex_nil
  | space _ ih => rw [lex_space]; exact ih
  | sym ht _ ih => rw [lex_sym ht, ih]; rfl
  | word hw hv _ hs ih =>
    obtain ⟨e, hne, hl⟩ := word_chars hw hv
    rw [lex_word hne hl hs, ih, e]; rfl

theorem startsWithLetter_sym {t : Token} (ht : isSymTok t = true) (cs) : startsWithLetter (t.chars ++ cs) = false := by
  cases t <;> simp [isSymTok] at ht <;> simp [Token.chars, startsWithLetter] <;> decide

theorem isSym_of_not_word {t : Token} (h : isWord t = false) : isSymTok t = true := by
  cases t <;> simp_all [isWord, isSymTok]

theorem spells_renderSp : ∀ ts : List Token, (∀ t ∈ ts, t.valid) → Spells ts (renderSp ts) := by
  intro ts
  induction ts with
  | nil => intro _; exact .nil
  | cons t r ih =>
    intro hv
    have ihr := ih (fun u hu => hv u (by simp [hu]))
    have hsp : startsWithLetter (' ' :: renderSp r) = false := by simp [startsWithLetter]; decide
    cases r with
    | nil =>
      simp only [renderSp]
      by_cases hw : isWord t = true
      · simpa using Spells.word hw (hv t (by simp)) .nil (by simp [startsWithLetter])
      · simpa using Spells.sym (isSym_of_not_word (by simpa using hw)) .nil
    | cons u r' =>
      simp only [renderSp]
      by_cases hw : isWord t = true
      · exact .word hw (hv t (by simp)) (.space ihr) (by simp [startsWithLetter]; decide)
      · exact .sym (isSym_of_not_word (by simpa using hw)) (.space ihr)

/-- the blank-separated rendering lexes back -/
theorem lex_renderSp {ts : List Token} (hv : ∀ t ∈ ts, t.valid) : lexChars (renderSp ts) = some ts :=
  lex_spells (spells_renderSp ts hv)

theorem startsWithLetter_renderMin_sym {u : Token} (r : List Token) (hu : isWord u = false) :
    startsWithLetter (renderMin (u :: r)) = false := by
  have hs := isSym_of_not_word hu
  cases r with
  | nil => simpa [renderMin] using startsWithLetter_sym hs []
  | cons v r' =>
    simp only [renderMin, hu, Bool.false_and, Bool.false_eq_true, if_false]
    exact startsWithLetter_sym hs _

theorem spells_renderMin : ∀ ts : List Token, (∀ t ∈ ts, t.valid) → Spells ts (renderMin ts) := by
  intro ts
  induction ts with
  | nil => intro _; exact .nil
  | cons t r ih =>
    intro hv
    have ihr := ih (fun u hu => hv u (by simp [hu]))
    cases r with
    | nil =>
      simp only [renderMin]
      by_cases hw : isWord t = true
      · simpa using Spells.word hw (hv t (by simp)) .nil (by simp [startsWithLetter])
      · simpa using Spells.sym (isSym_of_not_word (by simpa using hw)) .nil
    | cons u r' =>
      simp only [renderMin]
      by_cases hw : isWord t = true
      · by_cases hu : isWord u = true
        · simp only [hw, hu, Bool.and_self, if_true]
          exact .word hw (hv t (by simp)) (.space ihr) (by simp [startsWithLetter]; decide)
        · simp only [hw, hu, Bool.true_and]
          exact .word hw (hv t (by simp)) ihr (startsWithLetter_renderMin_sym r' (by simpa using hu))
      · simp only [hw, Bool.false_and, Bool.false_eq_true, if_false]
        exact .sym (isSym_of_not_word (by simpa using hw)) ihr

/-- the rendering without any avoidable blank lexes back to the same tokens -/
theorem lex_renderMin {ts : List Token} (hv : ∀ t ∈ ts, t.valid) : lexChars (renderMin ts) = some ts :=
  lex_spells (spells_renderMin ts hv)

/-! ### Conversely: whatever the lexer returns is spelled by the text -/

theorem sym_chars {c : Char} {t : Token} (h : sym c = some t) : isSymTok t = true ∧ t.chars = [c] := by
  unfold sym at h
  repeat' split at h
  all_goals first
    | (cases h; rename_i hc; subst hc; exact ⟨rfl, rfl⟩)
    | cases h

theorem word_spec {acc : List Char} (hne : acc ≠ []) (hl : ∀ c ∈ acc, isLetter c = true) :
    isWord (word acc) = true ∧ (word acc).valid ∧ (word acc).chars = acc := by
  unfold word
  by_cases h1 : acc = trueW
  · simp [h1, isWord, Token.valid, Token.chars]
  · by_cases h2 : acc = falseW
    · subst h2
      have : falseW ≠ trueW := by decide
      simp [this, isWord, Token.valid, Token.chars]
    · simp only [h1, h2, if_false]
      exact ⟨rfl, ⟨hne, hl, h1, h2⟩, rfl⟩

theorem spells_flush {acc : List Char} (hl : ∀ c ∈ acc, isLetter c = true) {ts : List Token} {cs : List Char}
    (h : Spells ts cs) (hs : startsWithLetter cs = false) : Spells (flush acc ts) (acc ++ cs) := by
  by_cases hne : acc = []
  · subst hne; simpa [flush_nil] using h
  · rw [flush_ne hne]
    obtain ⟨hw, hv, hc⟩ := word_spec hne hl
    have := Spells.word hw hv h hs
    rwa [hc] at this

theorem lexGo_spells : ∀ (cs acc : List Char) (ts : List Token), (∀ c ∈ acc, isLetter c = true) →
    lexGo acc cs = some ts → Spells ts (acc ++ cs) := by
  intro cs
  induction cs with
  | nil =>
    intro acc ts hl h
    simp only [lexGo, Option.some.injEq] at h
    subst h
    exact spells_flush hl .nil rfl
  | cons c cs ih =>
    intro acc ts hl h
    simp only [lexGo] at h
    by_cases hc : isLetter c = true
    · simp only [hc, if_true] at h
      have := ih (acc ++ [c]) ts (by
        intro d hd
        rcases List.mem_append.1 hd with hd | hd
        · exact hl d hd
        · simp at hd; subst hd; exact hc) h
      simpa using this
    · have hc' : isLetter c = false := by simpa using hc
      simp only [hc', Bool.false_eq_true, if_false] at h
      cases hs : sym c with
      | some t =>
        simp only [hs] at h
        cases hr : lexGo [] cs with
        | none => simp [hr] at h
        | some ts' =>
          simp only [hr, Option.map_some, Option.some.injEq] at h
          subst h
          have h1 : Spells ts' cs := by simpa using ih [] ts' (by simp) hr
          obtain ⟨hsym, hch⟩ := sym_chars hs
          have h2 : Spells (t :: ts') (c :: cs) := by
            have := Spells.sym hsym h1
            rwa [hch] at this
          exact spells_flush hl h2 (by simpa [startsWithLetter] using hc')
      | none =>
        simp only [hs] at h
        by_cases hsp : c = ' '
        · simp only [hsp, if_true] at h
          cases hr : lexGo [] cs with
          | none => simp [hr] at h
          | some ts' =>
            simp only [hr, Option.map_some, Option.some.injEq] at h
            subst h
            have h1 : Spells ts' cs := by simpa using ih [] ts' (by simp) hr
            subst hsp
            exact spells_flush hl (.space h1) (by simp [startsWithLetter]; decide)
        · simp [hsp] at h

/-- **The lexer accepts a text with the tokens `ts` exactly when the text spells `ts`.** -/
theorem lex_iff_spells {cs : List Char} {ts : List Token} : lexChars cs = some ts ↔ Spells ts cs :=
  ⟨fun h => by simpa using lexGo_spells cs [] ts (by simp) h, lex_spells⟩

theorem spells_valid {ts : List Token} {cs : List Char} (h : Spells ts cs) : ∀ t ∈ ts, t.valid := by
  induction h with
  | nil => intro t ht; simp at ht
  | space _ ih => exact ih
  | sym hs _ ih =>
    intro u hu
    rcases List.mem_cons.1 hu with rfl | hu
    · rename_i t _ _; cases u <;> simp [isSymTok] at hs <;> trivial
    · exact ih u hu
  | word _ hv _ _ ih =>
    intro u hu
    rcases List.mem_cons.1 hu with rfl | hu
    · exact hv
    · exact ih u hu

/-- names returned by the lexer are non-empty runs of letters other than the keywords -/
theorem lex_valid {cs : List Char} {ts : List Token} (h : lexChars cs = some ts) : ∀ t ∈ ts, t.valid :=
  spells_valid (lex_iff_spells.1 h)

end Parser
end PyPred
