/-
The generator-side value universe `GVal` (exact floats, datetimes, UUIDs) extends C08's universe
`PyVal` (Model/PyVal.lean): `embed : PyVal → GVal` maps `flt twice` (= twice/2) to
`flt (twice · 2^1073)` and is the identity on the other constructors; opaque objects (`obj`) have
no image, so all statements are for object-free values (`objFree`).

`==`, the partial order, truthiness, iteration, hashing, set / key membership and `isinstance`
commute with `embed`, hence the reference evaluator `evalG` that the C09 / C10 theorems use agrees
with C08's `atomSem` on every atom kind both know (`evalG_embed_atom`).
-/
import PyPred.Lemmas.GenEval
import PyPred.Lemmas.PyValOrder
import PyPred.Model.EvalTrace

set_option linter.unusedSimpArgs false
set_option linter.unusedVariables false

namespace PyPred
namespace Gen

open PyVal (Cmp cmpInt cmpStr cmpIncl ofCmp Klass)

/-- `2^1073`: float units in ½. -/
def half : Int := 2 ^ 1073

theorem half_pos : 0 < half := by unfold half; exact Int.pow_pos (by decide)
theorem scale_eq : scale = 2 * half := by
  unfold scale half
  have : (1074 : Nat) = 1073 + 1 := rfl
  rw [this, Int.pow_succ, Int.mul_comm]

mutual
/-- C08's values inside the generators' universe. -/
def embed : PyVal → GVal
  | .none => .none
  | .bool b => .bool b
  | .int n => .int n
  | .flt t => .flt (t * half)
  | .str cs => .str cs
  | .list xs => .list (embedL xs)
  | .tuple xs => .tuple (embedL xs)
  | .set xs => .set (embedL xs)
  | .dict xs => .dict (embedL xs)
  | .obj _ _ => .none
termination_by structural x => x
def embedL : List PyVal → List GVal
  | [] => []
  | a :: as => embed a :: embedL as
termination_by structural x => x
end

mutual
def objFree : PyVal → Bool
  | .obj _ _ => false
  | .list xs => objFreeL xs
  | .tuple xs => objFreeL xs
  | .set xs => objFreeL xs
  | .dict xs => objFreeL xs
  | _ => true
termination_by structural x => x
def objFreeL : List PyVal → Bool
  | [] => true
  | a :: as => objFree a && objFreeL as
termination_by structural x => x
end

theorem embedL_eq_map (xs : List PyVal) : embedL xs = xs.map embed := by
  induction xs with
  | nil => rfl
  | cons a as ih => simp [embedL, ih]

theorem objFreeL_mem {xs : List PyVal} (h : objFreeL xs = true) {x : PyVal} (hx : x ∈ xs) : objFree x = true := by
  induction xs with
  | nil => cases hx
  | cons a as ih =>
    simp only [objFreeL, Bool.and_eq_true] at h
    cases hx with
    | head => exact h.1
    | tail _ hm => exact ih h.2 hm

theorem objFreeL_tail {a : PyVal} {as : List PyVal} (h : objFreeL (a :: as) = true) : objFree a = true ∧ objFreeL as = true := by
  simpa [objFreeL] using h

/-! ### numbers -/

theorem mul_half_inj {a b : Int} : a * half = b * half ↔ a = b := by
  have h := half_pos
  constructor
  · intro e; exact Int.eq_of_mul_eq_mul_right (by omega) e
  · intro e; rw [e]

theorem num_embed (v : PyVal) : GVal.num (embed v) = (PyVal.num2 v).map (· * half) := by
  cases v <;> simp [embed, GVal.num, PyVal.num2, scale_eq]
  · rename_i b; cases b <;> simp
  · rename_i n; simp [Int.mul_comm, Int.mul_assoc, Int.mul_left_comm]

theorem num_eq_embed (v : PyVal) (c : Int) :
    (GVal.num (embed v) == some (c * half)) = (PyVal.num2 v == some c) := by
  rw [num_embed]
  cases h : PyVal.num2 v with
  | none => simp
  | some x =>
    simp only [Option.map_some]
    by_cases e : x = c
    · subst e; simp
    · have : ¬ x * half = c * half := fun h' => e (mul_half_inj.mp h')
      simp [e, this, beq_eq_false_iff_ne.mpr e, beq_eq_false_iff_ne.mpr this]

theorem cmpInt_half (a b : Int) : cmpInt (a * half) (b * half) = cmpInt a b := by
  have h := half_pos
  have h1 : a * half < b * half ↔ a < b :=
    ⟨fun e => Int.lt_of_mul_lt_mul_right e (Int.le_of_lt h), fun e => Int.mul_lt_mul_of_pos_right e h⟩
  have h2 : b * half < a * half ↔ b < a :=
    ⟨fun e => Int.lt_of_mul_lt_mul_right e (Int.le_of_lt h), fun e => Int.mul_lt_mul_of_pos_right e h⟩
  unfold cmpInt
  simp only [h1, h2]

theorem scale_mul (n : Int) : n * scale = (2 * n) * half := by
  rw [scale_eq]; simp [Int.mul_comm, Int.mul_assoc, Int.mul_left_comm]

theorem bool_scale (b : Bool) : (if b then scale else 0) = (if b then (2 : Int) else 0) * half := by
  cases b <;> simp [scale_eq]

/-! ### `==` -/

theorem any_congr_mem {α : Type} {f g : α → Bool} (ys : List α) (h : ∀ y ∈ ys, f y = g y) : ys.any f = ys.any g := by
  induction ys with
  | nil => rfl
  | cons a as ih => simp only [List.any_cons, h a (by simp), ih (fun y hy => h y (by simp [hy]))]

theorem all_congr_mem {α : Type} {f g : α → Bool} (ys : List α) (h : ∀ y ∈ ys, f y = g y) : ys.all f = ys.all g := by
  induction ys with
  | nil => rfl
  | cons a as ih => simp only [List.all_cons, h a (by simp), ih (fun y hy => h y (by simp [hy]))]

/-- The statement proved of one left operand. -/
def EqOK (a : PyVal) : Prop := ∀ b, objFree a = true → objFree b = true → GVal.pyEq (embed a) (embed b) = PyVal.pyEq a b

theorem eqL_embed (xs : List PyVal) (ih : ∀ x ∈ xs, EqOK x) : ∀ ys, objFreeL xs = true → objFreeL ys = true →
    GVal.eqL (embedL xs) (embedL ys) = PyVal.eqL xs ys := by
  induction xs with
  | nil => intro ys _ _; cases ys <;> simp [embedL, GVal.eqL, PyVal.eqL]
  | cons a as ihx =>
    intro ys hx hy
    cases ys with
    | nil => simp [embedL, GVal.eqL, PyVal.eqL]
    | cons b bs =>
      obtain ⟨ha, has⟩ := objFreeL_tail hx
      obtain ⟨hb, hbs⟩ := objFreeL_tail hy
      simp only [embedL, GVal.eqL, PyVal.eqL]
      rw [ih a (by simp) b ha hb, ihx (fun x hx => ih x (by simp [hx])) bs has hbs]

theorem anyRow_embed (a : PyVal) (iha : EqOK a) (ha : objFree a = true) (ys : List PyVal) (hy : objFreeL ys = true) :
    (embedL ys).any (fun y => GVal.pyEq (embed a) y) = ys.any (fun y => PyVal.pyEq a y) := by
  rw [embedL_eq_map, List.any_map]
  exact any_congr_mem ys (fun y hm => iha y ha (objFreeL_mem hy hm))

theorem subL_embed (xs : List PyVal) (ih : ∀ x ∈ xs, EqOK x) (ys : List PyVal) (hx : objFreeL xs = true) (hy : objFreeL ys = true) :
    GVal.subL (embedL xs) (embedL ys) = PyVal.subL xs ys := by
  induction xs with
  | nil => simp [embedL, GVal.subL, PyVal.subL]
  | cons a as ihx =>
    obtain ⟨ha, has⟩ := objFreeL_tail hx
    simp only [embedL, GVal.subL, PyVal.subL]
    rw [anyRow_embed a (ih a (by simp)) ha ys hy, ihx (fun x hx => ih x (by simp [hx])) has]

theorem anyL_embed (xs : List PyVal) (ih : ∀ x ∈ xs, EqOK x) (hx : objFreeL xs = true) (y : PyVal) (hy : objFree y = true) :
    GVal.anyL (embedL xs) (embed y) = PyVal.anyL xs y := by
  induction xs with
  | nil => simp [embedL, GVal.anyL, PyVal.anyL]
  | cons a as ihx =>
    obtain ⟨ha, has⟩ := objFreeL_tail hx
    simp only [embedL, GVal.anyL, PyVal.anyL]
    rw [ih a (by simp) y ha hy, ihx (fun x hx => ih x (by simp [hx])) has]

theorem supAll_embed (xs : List PyVal) (ih : ∀ x ∈ xs, EqOK x) (hx : objFreeL xs = true) (ys : List PyVal) (hy : objFreeL ys = true) :
    (embedL ys).all (fun y => GVal.anyL (embedL xs) y) = ys.all (fun y => PyVal.anyL xs y) := by
  rw [embedL_eq_map, List.all_map]
  exact all_congr_mem ys (fun y hm => anyL_embed xs ih hx y (objFreeL_mem hy hm))

theorem pyEq_embed_aux : ∀ a : PyVal, EqOK a := by
  intro a
  induction a using PyVal.induct' with
  | none => intro b _ hb; cases b <;> simp_all [embed, GVal.pyEq, PyVal.pyEq, objFree]
  | bool v =>
    intro b _ hb
    simp only [embed, GVal.pyEq, PyVal.pyEq, bool_scale, num_eq_embed]
  | int n =>
    intro b _ hb
    simp only [embed, GVal.pyEq, PyVal.pyEq, scale_mul, num_eq_embed]
  | flt t =>
    intro b _ hb
    simp only [embed, GVal.pyEq, PyVal.pyEq, num_eq_embed]
  | str s => intro b _ hb; cases b <;> simp_all [embed, GVal.pyEq, PyVal.pyEq, objFree]
  | list xs ih =>
    intro b ha hb
    cases b <;> simp_all [embed, GVal.pyEq, PyVal.pyEq, objFree]
    exact eqL_embed xs ih _ ha hb
  | tuple xs ih =>
    intro b ha hb
    cases b <;> simp_all [embed, GVal.pyEq, PyVal.pyEq, objFree]
    exact eqL_embed xs ih _ ha hb
  | set xs ih =>
    intro b ha hb
    cases b <;> simp only [embed, GVal.pyEq, PyVal.pyEq, objFree] at ha hb ⊢ <;> try (first | rfl | cases hb)
    rename_i ys
    rw [subL_embed xs ih ys ha hb, supAll_embed xs ih ha ys hb]
  | dict xs ih =>
    intro b ha hb
    cases b <;> simp only [embed, GVal.pyEq, PyVal.pyEq, objFree] at ha hb ⊢ <;> try (first | rfl | cases hb)
    rename_i ys
    rw [subL_embed xs ih ys ha hb, supAll_embed xs ih ha ys hb]
  | obj c i => intro b ha _; simp [objFree] at ha

/-- `==` commutes with the embedding. -/
theorem pyEq_embed {a b : PyVal} (ha : objFree a = true) (hb : objFree b = true) :
    GVal.pyEq (embed a) (embed b) = PyVal.pyEq a b := pyEq_embed_aux a b ha hb

/-! ### the partial order -/

theorem subL_embed' (xs ys : List PyVal) (hx : objFreeL xs = true) (hy : objFreeL ys = true) :
    GVal.subL (embedL xs) (embedL ys) = PyVal.subL xs ys :=
  subL_embed xs (fun x _ => pyEq_embed_aux x) ys hx hy

theorem supL_embed (xs ys : List PyVal) (hx : objFreeL xs = true) (hy : objFreeL ys = true) :
    GVal.supL (embedL xs) (embedL ys) = PyVal.supL xs ys := by
  unfold GVal.supL PyVal.supL
  exact supAll_embed xs (fun x _ => pyEq_embed_aux x) hx ys hy

theorem numCmp_embed (y : PyVal) (c : Int) :
    (GVal.num (embed y)).map (cmpInt (c * half)) = (PyVal.num2 y).map (cmpInt c) := by
  rw [num_embed]
  cases PyVal.num2 y <;> simp [cmpInt_half]

theorem cmpNum_embed (y : PyVal) (c : Int) :
    GVal.cmpNum (c * half) (embed y) = (PyVal.num2 y).map (cmpInt c) := by
  rw [← numCmp_embed]
  cases y <;> simp [embed, GVal.cmpNum]

def CmpOK (a : PyVal) : Prop := ∀ b, objFree a = true → objFree b = true → GVal.pyCmp (embed a) (embed b) = PyVal.pyCmp a b

theorem cmpL_embed (xs : List PyVal) (ih : ∀ x ∈ xs, CmpOK x) : ∀ ys, objFreeL xs = true → objFreeL ys = true →
    GVal.cmpL (embedL xs) (embedL ys) = PyVal.cmpL xs ys := by
  induction xs with
  | nil => intro ys _ _; cases ys <;> simp [embedL, GVal.cmpL, PyVal.cmpL]
  | cons a as ihx =>
    intro ys hx hy
    cases ys with
    | nil => simp [embedL, GVal.cmpL, PyVal.cmpL]
    | cons b bs =>
      obtain ⟨ha, has⟩ := objFreeL_tail hx
      obtain ⟨hb, hbs⟩ := objFreeL_tail hy
      simp only [embedL, GVal.cmpL, PyVal.cmpL]
      rw [pyEq_embed ha hb, ih a (by simp) b ha hb, ihx (fun x hx => ih x (by simp [hx])) bs has hbs]

theorem pyCmp_embed_aux : ∀ a : PyVal, CmpOK a := by
  intro a
  induction a using PyVal.induct' with
  | none => intro b _ hb; cases b <;> simp_all [embed, GVal.pyCmp, PyVal.pyCmp, objFree]
  | bool v =>
    intro b _ hb
    simp only [embed, GVal.pyCmp, PyVal.pyCmp, bool_scale, cmpNum_embed]
  | int n =>
    intro b _ hb
    simp only [embed, GVal.pyCmp, PyVal.pyCmp, scale_mul, cmpNum_embed]
  | flt t =>
    intro b _ hb
    simp only [embed, GVal.pyCmp, PyVal.pyCmp, cmpNum_embed]
  | str s => intro b _ hb; cases b <;> simp_all [embed, GVal.pyCmp, PyVal.pyCmp, objFree]
  | list xs ih =>
    intro b ha hb
    cases b <;> simp_all [embed, GVal.pyCmp, PyVal.pyCmp, objFree]
    exact cmpL_embed xs ih _ ha hb
  | tuple xs ih =>
    intro b ha hb
    cases b <;> simp_all [embed, GVal.pyCmp, PyVal.pyCmp, objFree]
    exact cmpL_embed xs ih _ ha hb
  | set xs ih =>
    intro b ha hb
    cases b <;> simp only [embed, GVal.pyCmp, PyVal.pyCmp, objFree] at ha hb ⊢ <;> try (first | rfl | cases hb)
    rename_i ys
    rw [subL_embed' xs ys ha hb, supL_embed xs ys ha hb]
  | dict xs ih => intro b _ hb; cases b <;> simp_all [embed, GVal.pyCmp, PyVal.pyCmp, objFree]
  | obj c i => intro b ha _; simp [objFree] at ha

/-- `<`, `<=`, `>`, `>=` (with their `TypeError`s) commute with the embedding. -/
theorem pyCmp_embed {a b : PyVal} (ha : objFree a = true) (hb : objFree b = true) :
    GVal.pyCmp (embed a) (embed b) = PyVal.pyCmp a b := pyCmp_embed_aux a b ha hb

/-! ### truthiness, iteration, hashing, membership, isinstance -/

theorem embedL_isEmpty (xs : List PyVal) : (embedL xs).isEmpty = xs.isEmpty := by cases xs <;> rfl
theorem embedL_length (xs : List PyVal) : (embedL xs).length = xs.length := by simp [embedL_eq_map]

theorem mul_half_eq_zero (t : Int) : t * half = 0 ↔ t = 0 := by
  have h := half_pos
  constructor
  · intro e
    rcases Int.mul_eq_zero.mp e with e | e
    · exact e
    · omega
  · intro e; simp [e]

theorem truthy_embed {x : PyVal} (hx : objFree x = true) : GVal.truthy (embed x) = PyVal.truthy x := by
  cases x <;> simp [embed, GVal.truthy, PyVal.truthy, embedL_isEmpty, objFree] at hx ⊢
  rename_i t
  by_cases e : t = 0
  · subst e; simp
  · have h1 : (t != 0) = true := by simpa using e
    have h2 : (t * half != 0) = true := by simpa [mul_half_eq_zero] using e
    rw [h1, h2]

theorem itemKey_embed (it : PyVal) : GVal.itemKey (embed it) = embed (PyVal.itemKey it) := by
  cases it <;> simp [embed, GVal.itemKey, PyVal.itemKey]
  rename_i xs
  cases xs <;> simp [embedL, GVal.itemKey, PyVal.itemKey, embed]

theorem iterElems_embed {x : PyVal} (hx : objFree x = true) :
    GVal.iterElems (embed x) = (PyVal.iterElems x).map embedL := by
  cases x <;> simp [embed, GVal.iterElems, PyVal.iterElems, objFree] at hx ⊢
  · rename_i cs; simp [embedL_eq_map, embed]
  · rename_i items; simp [embedL_eq_map, itemKey_embed]

mutual
theorem hashable_embed : ∀ x : PyVal, objFree x = true → GVal.hashable (embed x) = PyVal.hashable x
  | .none, _ => rfl
  | .bool _, _ => rfl
  | .int _, _ => rfl
  | .flt _, _ => rfl
  | .str _, _ => rfl
  | .list _, _ => rfl
  | .set _, _ => rfl
  | .dict _, _ => rfl
  | .tuple xs, h => by
    simp only [embed, GVal.hashable, PyVal.hashable]
    exact hashableL_embed xs (by simpa [objFree] using h)
  | .obj _ _, h => by simp [objFree] at h
theorem hashableL_embed : ∀ xs : List PyVal, objFreeL xs = true → GVal.hashableL (embedL xs) = PyVal.hashableL xs
  | [], _ => rfl
  | a :: as, h => by
    obtain ⟨ha, has⟩ := objFreeL_tail h
    simp only [embedL, GVal.hashableL, PyVal.hashableL, hashable_embed a ha, hashableL_embed as has]
end

theorem setContains_embed {s : List PyVal} {x : PyVal} (hs : objFreeL s = true) (hx : objFree x = true) :
    GVal.setContains (embedL s) (embed x) = PyVal.setContains s x := by
  have hany : (embedL s).any (fun y => GVal.pyEq (embed x) y) = s.any (fun y => PyVal.pyEq x y) :=
    anyRow_embed x (pyEq_embed_aux x) hx s hs
  cases x <;> simp only [embed, GVal.setContains, PyVal.setContains] at hany ⊢ <;>
    first
      | (simp only [hany]; done)
      | (rw [show ∀ t, GVal.hashable (.tuple (embedL t)) = PyVal.hashable (.tuple t) from fun t => rfl]; done)
      | skip
  all_goals first
    | (simp [GVal.hashable, PyVal.hashable, hany]; done)
    | (rename_i xs
       have hh := hashable_embed (.tuple xs) hx
       simp only [embed] at hh
       simp only [hh, hany])
    | (simp [objFree] at hx)

theorem keysContain_embed {keys : List PyVal} {k : PyVal} (hs : objFreeL keys = true) (hk : objFree k = true) :
    GVal.keysContain (embedL keys) (embed k) = PyVal.keysContain keys k := by
  unfold GVal.keysContain PyVal.keysContain
  rw [hashable_embed k hk, anyRow_embed k (pyEq_embed_aux k) hk keys hs]

theorem isInst_embed (k : Klass) {x : PyVal} (hx : objFree x = true) : GVal.isInst k (embed x) = PyVal.isInst k x := by
  cases x <;> simp [objFree] at hx <;> cases k <;> rfl

/-! ### the atoms both evaluators know -/

/-- C08's atoms (Model/PyVal.lean `Atom`) as generator-side predicates.  Not translated: the range
atoms, `superset`, `isNotEmpty`, `hasLength`, `regex`, the string tests, `isFinite/isInf/isNan`
(no `generate_true` clause except `regex`, which is exrex's). -/
def trAtom : Atom → Option GP
  | .tt => some .tt
  | .ff => some .ff
  | .eq v => some (.eq (embed v))
  | .ne v => some (.ne (embed v))
  | .ge v => some (.ge (embed v))
  | .gt v => some (.gt (embed v))
  | .le v => some (.le (embed v))
  | .lt v => some (.lt (embed v))
  | .isin s => some (.isin (embedL s))
  | .notin s => some (.notin (embedL s))
  | .subset (.set s) => some (.subset (embedL s))
  | .rsubset (.set s) => some (.rsubset (embedL s))
  | .isNone => some .isNone
  | .isNotNone => some .isNotNone
  | .truthy => some .truthy
  | .falsy => some .falsy
  | .isEmpty => some .isEmpty
  | .inst ks => some (.inst ks)
  | .hasKey k => some (.hasKey (embed k))
  | _ => none

/-- The parameters of the atom contain no opaque object. -/
def atomObjFree : Atom → Bool
  | .eq v | .ne v | .ge v | .gt v | .le v | .lt v | .hasKey v | .subset v | .rsubset v => objFree v
  | .isin s | .notin s => objFreeL s
  | _ => true

theorem ofCmp_embed (f : Cmp → Bool) {a b : PyVal} (ha : objFree a = true) (hb : objFree b = true) :
    ofCmp f (GVal.pyCmp (embed a) (embed b)) = ofCmp f (PyVal.pyCmp a b) := by rw [pyCmp_embed ha hb]

theorem isNone_embed {x : PyVal} (hx : objFree x = true) :
    (match embed x with | .none => true | _ => false) = (match x with | .none => true | _ => false) := by
  cases x <;> simp [embed, objFree] at hx ⊢

/-- **The generators' reference evaluator is C08's.**  On every atom kind both know, with
object-free parameters, and every object-free value: `evalG` on the embedded value = `atomSem`. -/
theorem evalG_embed_atom (a : Atom) (g : GP) (hg : trAtom a = some g) (ha : atomObjFree a = true)
    (x : PyVal) (hx : objFree x = true) : evalG g (embed x) = atomSem a x := by
  cases a <;> simp only [trAtom, Option.some.injEq] at hg <;> (try cases hg) <;> simp only [atomObjFree] at ha
  case tt => rfl
  case ff => rfl
  case eq v => simp only [evalG, atomSem, pyEq_embed hx ha]
  case ne v => simp only [evalG, atomSem, pyEq_embed hx ha]
  case ge v => simp only [evalG, atomSem, GVal.pyGe, PyVal.pyGe, pyCmp_embed hx ha]
  case gt v => simp only [evalG, atomSem, GVal.pyGt, PyVal.pyGt, pyCmp_embed hx ha]
  case le v => simp only [evalG, atomSem, GVal.pyLe, PyVal.pyLe, pyCmp_embed hx ha]
  case lt v => simp only [evalG, atomSem, GVal.pyLt, PyVal.pyLt, pyCmp_embed hx ha]
  case isin s => simp only [evalG, atomSem, setContains_embed ha hx]
  case notin s => simp only [evalG, atomSem, setContains_embed ha hx]
  case subset v =>
    cases v <;> simp only [trAtom, Option.some.injEq] at hg <;> (try cases hg)
    rename_i s
    have := pyCmp_embed (a := x) (b := .set s) hx ha
    simp only [embed] at this
    simp only [evalG, atomSem, GVal.pyLe, PyVal.pyLe, this]
  case rsubset v =>
    cases v <;> simp only [trAtom, Option.some.injEq] at hg <;> (try cases hg)
    rename_i s
    have := pyCmp_embed (a := x) (b := .set s) hx ha
    simp only [embed] at this
    simp only [evalG, atomSem, GVal.pyLt, PyVal.pyLt, this]
  case isNone =>
    simp only [evalG, atomSem]
    cases x <;> simp [embed, objFree] at hx ⊢
  case isNotNone =>
    simp only [evalG, atomSem]
    cases x <;> simp [embed, objFree] at hx ⊢
  case truthy => simp only [evalG, atomSem, truthy_embed hx]
  case falsy => simp only [evalG, atomSem, truthy_embed hx]
  case isEmpty =>
    simp only [evalG, atomSem, iterElems_embed hx]
    cases PyVal.iterElems x <;> simp [embedL_isEmpty]
  case inst ks =>
    simp only [evalG, atomSem]
    congr 1
    exact any_congr_mem ks (fun k _ => isInst_embed k hx)
  case hasKey k =>
    cases x <;> simp only [embed, evalG, atomSem, objFree] at hx ⊢ <;> try (first | rfl | cases hx)
    rename_i items
    have hk := keysContain_embed (keys := items.map PyVal.itemKey) (k := k) (by
      -- the keys of an object-free dict are object-free
      induction items with
      | nil => rfl
      | cons it rest ih =>
        obtain ⟨h1, h2⟩ := objFreeL_tail hx
        simp only [List.map_cons, objFreeL, Bool.and_eq_true]
        refine ⟨?_, ih h2⟩
        cases it <;> simp [PyVal.itemKey, objFree] at h1 ⊢
        rename_i xs
        cases xs with
        | nil => simp [objFree]
        | cons a as => simp [objFreeL] at h1; exact h1.1) ha
    have hm : (embedL items).map GVal.itemKey = embedL (items.map PyVal.itemKey) := by
      simp [embedL_eq_map, itemKey_embed]
    rw [hm, hk]

/-! ### predicate trees: `&`, `|`, `all_p`, `any_p`, `set_of` over those atoms (C07/C08's `evalPy`) -/

/-- C08's trees (Model/EvalTrace.lean `P`) as generator-side predicates; the optimizer guards of `&`
are irrelevant to `evalG`.  Not translated: `~`, `^`, `comp_p`, `tee_p`, probes, `tuple_of`, `dict_of`. -/
def trP : P → Option GP
  | .atom a => trAtom a
  | .and l r => match trP l, trP r with
    | some a, some b => some (.and false true a b)
    | _, _ => none
  | .or l r => match trP l, trP r with
    | some a, some b => some (.or a b)
    | _, _ => none
  | .all q => (trP q).map .all
  | .any q => (trP q).map .any
  | .setOf q => (trP q).map .setOf
  | _ => none

def pObjFree : P → Bool
  | .atom a => atomObjFree a
  | .and l r => pObjFree l && pObjFree r
  | .or l r => pObjFree l && pObjFree r
  | .all q => pObjFree q
  | .any q => pObjFree q
  | .setOf q => pObjFree q
  | _ => true

theorem itemKey_objFree {it : PyVal} (h : objFree it = true) : objFree (PyVal.itemKey it) = true := by
  cases it <;> simp [PyVal.itemKey, objFree] at h ⊢
  rename_i xs
  cases xs with
  | nil => simp [objFree]
  | cons a as => simp [objFreeL] at h; exact h.1

theorem iter_objFree {x : PyVal} (hx : objFree x = true) {xs : List PyVal} (h : PyVal.iterElems x = some xs) :
    ∀ y ∈ xs, objFree y = true := by
  cases x <;> simp [PyVal.iterElems, objFree] at h hx
  · rename_i cs; subst h; intro y hy; simp at hy; obtain ⟨c, _, rfl⟩ := hy; rfl
  · subst h; exact fun y hy => objFreeL_mem hx hy
  · subst h; exact fun y hy => objFreeL_mem hx hy
  · subst h; exact fun y hy => objFreeL_mem hx hy
  · rename_i items; subst h
    intro y hy; simp at hy; obtain ⟨it, hit, rfl⟩ := hy
    exact itemKey_objFree (objFreeL_mem hx hit)

theorem allO_embed (g : GP) (f : PyVal → _root_.PyPred.Res) (xs : List PyVal) (h : ∀ y ∈ xs, evalG g (embed y) = (f y).1) :
    allO (fun y => evalG g y) (embedL xs) = (allE f xs).1 := by
  induction xs with
  | nil => simp [embedL, allO, allE]
  | cons a as ih =>
    have ha := h a (by simp)
    have ih' := ih (fun y hy => h y (by simp [hy]))
    simp only [embedL, allO, allE, ha]
    rcases hfa : f a with ⟨o, tr⟩
    simp only [hfa] at ha ⊢
    cases o with
    | ok b => cases b <;> simp [ih']
    | raised e => simp

theorem anyO_embed (g : GP) (f : PyVal → _root_.PyPred.Res) (xs : List PyVal) (h : ∀ y ∈ xs, evalG g (embed y) = (f y).1) :
    anyO (fun y => evalG g y) (embedL xs) = (anyE f xs).1 := by
  induction xs with
  | nil => simp [embedL, anyO, anyE]
  | cons a as ih =>
    have ha := h a (by simp)
    have ih' := ih (fun y hy => h y (by simp [hy]))
    simp only [embedL, anyO, anyE, ha]
    rcases hfa : f a with ⟨o, tr⟩
    simp only [hfa] at ha ⊢
    cases o with
    | ok b => cases b <;> simp [ih']
    | raised e => simp

theorem andThen_fst (a : _root_.PyPred.Res) (b : Unit → _root_.PyPred.Res) : (a.andThen b).1 = a.1.andThen (b ()).1 := by
  rcases a with ⟨o, t⟩
  cases o with
  | ok v => cases v <;> simp [_root_.PyPred.Res.andThen, Outcome.andThen]
  | raised e => simp [_root_.PyPred.Res.andThen, Outcome.andThen]

theorem orElse_fst (a : _root_.PyPred.Res) (b : Unit → _root_.PyPred.Res) : (a.orElse b).1 = a.1.orElse (b ()).1 := by
  rcases a with ⟨o, t⟩
  cases o with
  | ok v => cases v <;> simp [_root_.PyPred.Res.orElse, Outcome.orElse]
  | raised e => simp [_root_.PyPred.Res.orElse, Outcome.orElse]

/-- **`evalG` is C07/C08's `evalPy`** on the trees built from the common atoms with `&`, `|`,
`all_p`, `any_p`, `set_of`. -/
theorem evalG_embed : ∀ (p : P) (g : GP), trP p = some g → pObjFree p = true →
    ∀ x, objFree x = true → evalG g (embed x) = evalPy p x := by
  intro p
  induction p with
  | atom a =>
    intro g hg hp x hx
    simp only [trP] at hg
    simp only [pObjFree] at hp
    simp only [evalPy, value, evalE]
    exact evalG_embed_atom a g hg hp x hx
  | and l r ihl ihr =>
    intro g hg hp x hx
    simp only [pObjFree, Bool.and_eq_true] at hp
    simp only [trP] at hg
    cases hl : trP l with
    | none => simp [hl] at hg
    | some a =>
      cases hr : trP r with
      | none => simp [hl, hr] at hg
      | some b =>
        simp only [hl, hr, Option.some.injEq] at hg; subst hg
        simp only [evalPy, value, evalE, evalG, andThen_fst]
        have h1 := ihl a hl hp.1 x hx
        have h2 := ihr b hr hp.2 x hx
        simp only [evalPy, value] at h1 h2
        rw [h1, h2]
  | or l r ihl ihr =>
    intro g hg hp x hx
    simp only [pObjFree, Bool.and_eq_true] at hp
    simp only [trP] at hg
    cases hl : trP l with
    | none => simp [hl] at hg
    | some a =>
      cases hr : trP r with
      | none => simp [hl, hr] at hg
      | some b =>
        simp only [hl, hr, Option.some.injEq] at hg; subst hg
        simp only [evalPy, value, evalE, evalG, orElse_fst]
        have h1 := ihl a hl hp.1 x hx
        have h2 := ihr b hr hp.2 x hx
        simp only [evalPy, value] at h1 h2
        rw [h1, h2]
  | all q ih =>
    intro g hg hp x hx
    simp only [trP, Option.map_eq_some_iff] at hg
    obtain ⟨a, ha, rfl⟩ := hg
    simp only [pObjFree] at hp
    simp only [evalPy, value, evalE, evalG, iterElems_embed hx]
    cases hi : PyVal.iterElems x with
    | none => simp
    | some xs =>
      simp only [Option.map_some]
      exact allO_embed a _ xs (fun y hy => by
        have := ih a ha hp y (iter_objFree hx hi y hy)
        simpa [evalPy, value] using this)
  | any q ih =>
    intro g hg hp x hx
    simp only [trP, Option.map_eq_some_iff] at hg
    obtain ⟨a, ha, rfl⟩ := hg
    simp only [pObjFree] at hp
    simp only [evalPy, value, evalE, evalG, iterElems_embed hx]
    cases hi : PyVal.iterElems x with
    | none => simp
    | some xs =>
      simp only [Option.map_some]
      exact anyO_embed a _ xs (fun y hy => by
        have := ih a ha hp y (iter_objFree hx hi y hy)
        simpa [evalPy, value] using this)
  | setOf q ih =>
    intro g hg hp x hx
    simp only [trP, Option.map_eq_some_iff] at hg
    obtain ⟨a, ha, rfl⟩ := hg
    simp only [pObjFree] at hp
    simp only [evalPy, value, evalE, evalG, iterElems_embed hx]
    cases hi : PyVal.iterElems x with
    | none => simp
    | some xs =>
      simp only [Option.map_some]
      exact allO_embed a _ xs (fun y hy => by
        have := ih a ha hp y (iter_objFree hx hi y hy)
        simpa [evalPy, value] using this)
  | _ => intro g hg; simp [trP] at hg

end Gen
end PyPred
