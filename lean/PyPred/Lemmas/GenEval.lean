/-
Facts about the reference evaluator `evalG` on the values the generators produce:
`==` is reflexive (no NaN in the universe), the order on ints / floats / datetimes reduces
to the order of `Int`, `Outcome` connectives.
-/
import PyPred.Lemmas.GenBasic

set_option linter.unusedSimpArgs false

namespace PyPred
namespace Gen

open GVal
open PyVal (Cmp cmpInt cmpStr cmpIncl ofCmp Klass)

namespace GVal

theorem induct' {M : GVal → Prop}
    (none : M .none) (bool : ∀ b, M (.bool b)) (int : ∀ n, M (.int n)) (flt : ∀ t, M (.flt t))
    (str : ∀ s, M (.str s))
    (list : ∀ xs, (∀ x ∈ xs, M x) → M (.list xs))
    (tuple : ∀ xs, (∀ x ∈ xs, M x) → M (.tuple xs))
    (set : ∀ xs, (∀ x ∈ xs, M x) → M (.set xs))
    (dict : ∀ xs, (∀ x ∈ xs, M x) → M (.dict xs))
    (dt : ∀ a, M (.dt a)) (uuid : ∀ n, M (.uuid n)) (cplx : ∀ a b, M (.cplx a b))
    (inf : ∀ n, M (.inf n)) : ∀ v, M v := by
  intro v
  induction v using GVal.rec (motive_2 := fun xs => ∀ x ∈ xs, M x) with
  | none => exact none
  | bool b => exact bool b
  | int n => exact int n
  | flt t => exact flt t
  | str s => exact str s
  | list xs ih => exact list xs ih
  | tuple xs ih => exact tuple xs ih
  | set xs ih => exact set xs ih
  | dict xs ih => exact dict xs ih
  | dt a => exact dt a
  | uuid n => exact uuid n
  | cplx a b => exact cplx a b
  | inf n => exact inf n
  | nil => rename_i x hx; cases hx
  | cons h t ihh iht =>
    rename_i x hx
    cases hx with
    | head => exact ihh
    | tail _ hm => exact iht x hm

theorem subL_eq (xs ys : List GVal) : subL xs ys = xs.all (fun x => ys.any (fun y => pyEq x y)) := by
  induction xs with
  | nil => simp [subL]
  | cons a as ih => simp [subL, ih]

theorem anyL_eq (xs : List GVal) (y : GVal) : anyL xs y = xs.any (fun x => pyEq x y) := by
  induction xs with
  | nil => simp [anyL]
  | cons a as ih => simp [anyL, ih]

theorem eqL_refl (xs : List GVal) (h : ∀ x ∈ xs, pyEq x x = true) : eqL xs xs = true := by
  induction xs with
  | nil => simp [eqL]
  | cons a as ih =>
    simp [eqL, h a (by simp)]
    exact ih (fun x hx => h x (by simp [hx]))

theorem incl_refl (xs : List GVal) (h : ∀ x ∈ xs, pyEq x x = true) :
    (subL xs xs && xs.all (fun y => anyL xs y)) = true := by
  simp only [subL_eq, anyL_eq, Bool.and_eq_true, List.all_eq_true, List.any_eq_true]
  exact ⟨fun x hx => ⟨x, hx, h x hx⟩, fun x hx => ⟨x, hx, h x hx⟩⟩

/-- There is no NaN in the universe: every value is `==` to itself. -/
theorem pyEq_refl : ∀ a : GVal, pyEq a a = true := by
  intro a
  induction a using induct' with
  | none => simp [pyEq]
  | bool b => cases b <;> simp [pyEq, num]
  | int n => simp [pyEq, num]
  | flt t => simp [pyEq, num]
  | str s => simp [pyEq]
  | list xs ih => simp only [pyEq]; exact eqL_refl xs ih
  | tuple xs ih => simp only [pyEq]; exact eqL_refl xs ih
  | set xs ih => simp only [pyEq]; exact incl_refl xs ih
  | dict xs ih => simp only [pyEq]; exact incl_refl xs ih
  | dt a => simp [pyEq]
  | uuid n => simp [pyEq]
  | cplx a b => simp [pyEq]
  | inf n => simp [pyEq]

end GVal

open GVal

/-! ### order -/

theorem cmpInt_isGe (x y : Int) : (cmpInt x y).isGe = decide (y ≤ x) := by
  unfold cmpInt; split
  · simp [Cmp.isGe]; omega
  · split <;> simp [Cmp.isGe] <;> omega

theorem cmpInt_isGt (x y : Int) : (cmpInt x y).isGt = decide (y < x) := by
  unfold cmpInt; split
  · simp [Cmp.isGt]; omega
  · split <;> simp [Cmp.isGt] <;> omega

theorem cmpInt_isLe (x y : Int) : (cmpInt x y).isLe = decide (x ≤ y) := by
  unfold cmpInt; split
  · simp [Cmp.isLe]; omega
  · split <;> simp [Cmp.isLe] <;> omega

theorem cmpInt_isLt (x y : Int) : (cmpInt x y).isLt = decide (x < y) := by
  unfold cmpInt; split
  · simp [Cmp.isLt]; omega
  · split <;> simp [Cmp.isLt] <;> omega

theorem num_of_asInt {v : GVal} {n : Int} (h : asInt v = some n) : num v = some (n * scale) := by
  cases v <;> simp [asInt] at h
  · rename_i b; subst h; cases b <;> simp [num]
  · subst h; simp [num]

theorem scale_le {a b : Int} : a * scale ≤ b * scale ↔ a ≤ b := by
  have hs := scale_pos
  constructor
  · intro h
    exact Int.le_of_mul_le_mul_right h hs
  · intro h
    exact Int.mul_le_mul_of_nonneg_right h (Int.le_of_lt hs)

theorem scale_lt {a b : Int} : a * scale < b * scale ↔ a < b := by
  have hs := scale_pos
  constructor
  · intro h
    exact Int.lt_of_mul_lt_mul_right h (Int.le_of_lt hs)
  · intro h
    exact Int.mul_lt_mul_of_pos_right h hs

/-- Comparing a generated int with an int (or bool) bound. -/
theorem pyCmp_int_asInt {v : GVal} {n : Int} (h : asInt v = some n) (a : Int) :
    pyCmp (.int a) v = some (cmpInt (a * scale) (n * scale)) := by
  have hn := num_of_asInt h
  cases v <;> simp [asInt] at h <;> simp [pyCmp, cmpNum, hn]

theorem pyCmp_flt (a k : Int) : pyCmp (.flt a) (.flt k) = some (cmpInt a k) := by
  simp [pyCmp, cmpNum, num]

/-! ### floats with the infinities: the order of `evalG` on `XF.val` is the order of `XF` -/

theorem pyGe_val (a b : XF) : pyGe a.val b.val = .ok (XF.le b a) := by
  cases a with
  | fin x => cases b with
    | fin y => simp [XF.val, pyGe, pyCmp, cmpNum, num, ofCmp, cmpInt_isGe, XF.le]
    | inf n => cases n <;> simp [XF.val, pyGe, pyCmp, cmpNum, ofCmp, Cmp.isGe, XF.le]
  | inf m => cases m <;> cases b with
    | fin y => simp [XF.val, pyGe, pyCmp, cmpInf, num, ofCmp, Cmp.isGe, XF.le]
    | inf n => cases n <;> simp [XF.val, pyGe, pyCmp, cmpInf, ofCmp, Cmp.isGe, XF.le]

theorem pyGt_val (a b : XF) : pyGt a.val b.val = .ok (XF.lt b a) := by
  cases a with
  | fin x => cases b with
    | fin y => simp [XF.val, pyGt, pyCmp, cmpNum, num, ofCmp, cmpInt_isGt, XF.lt_fin]
    | inf n => cases n <;> simp [XF.val, pyGt, pyCmp, cmpNum, ofCmp, Cmp.isGt, XF.lt, XF.le]
  | inf m => cases m <;> cases b with
    | fin y => simp [XF.val, pyGt, pyCmp, cmpInf, num, ofCmp, Cmp.isGt, XF.lt, XF.le]
    | inf n => cases n <;> simp [XF.val, pyGt, pyCmp, cmpInf, ofCmp, Cmp.isGt, XF.lt, XF.le]

theorem pyLe_val (a b : XF) : pyLe a.val b.val = .ok (XF.le a b) := by
  cases a with
  | fin x => cases b with
    | fin y => simp [XF.val, pyLe, pyCmp, cmpNum, num, ofCmp, cmpInt_isLe, XF.le]
    | inf n => cases n <;> simp [XF.val, pyLe, pyCmp, cmpNum, ofCmp, Cmp.isLe, XF.le]
  | inf m => cases m <;> cases b with
    | fin y => simp [XF.val, pyLe, pyCmp, cmpInf, num, ofCmp, Cmp.isLe, XF.le]
    | inf n => cases n <;> simp [XF.val, pyLe, pyCmp, cmpInf, ofCmp, Cmp.isLe, XF.le]

theorem pyLt_val (a b : XF) : pyLt a.val b.val = .ok (XF.lt a b) := by
  cases a with
  | fin x => cases b with
    | fin y => simp [XF.val, pyLt, pyCmp, cmpNum, num, ofCmp, cmpInt_isLt, XF.lt_fin]
    | inf n => cases n <;> simp [XF.val, pyLt, pyCmp, cmpNum, ofCmp, Cmp.isLt, XF.lt, XF.le]
  | inf m => cases m <;> cases b with
    | fin y => simp [XF.val, pyLt, pyCmp, cmpInf, num, ofCmp, Cmp.isLt, XF.lt, XF.le]
    | inf n => cases n <;> simp [XF.val, pyLt, pyCmp, cmpInf, ofCmp, Cmp.isLt, XF.lt, XF.le]

/-- `+inf` is above every int, whatever its magnitude (no sentinel in the order). -/
theorem inf_gt_int (n : Int) : pyGt (.inf false) (.int n) = .ok true ∧ pyLt (.inf true) (.int n) = .ok true
    ∧ pyLt (.int n) (.inf false) = .ok true ∧ pyEq (.inf false) (.int n) = false := by
  simp [pyGt, pyLt, pyCmp, cmpInf, cmpNum, num, ofCmp, Cmp.isGt, Cmp.isLt, pyEq]

theorem pyCmp_dt (a b : Int) : pyCmp (.dt a) (.dt b) = some (cmpInt a b) := by
  simp [pyCmp]

/-! ### outcomes -/

theorem andThen_true {a b : Outcome} : a.andThen b = .ok true ↔ a = .ok true ∧ b = .ok true := by
  cases a with
  | ok x => cases x <;> simp [Outcome.andThen]
  | raised e => simp [Outcome.andThen]

theorem allO_true (f : GVal → Outcome) (xs : List GVal) (h : ∀ x ∈ xs, f x = .ok true) : allO f xs = .ok true := by
  induction xs with
  | nil => simp [allO]
  | cons a as ih =>
    simp only [allO, h a (by simp)]
    exact ih (fun x hx => h x (by simp [hx]))

theorem allO_false_of_head (f : GVal → Outcome) (xs : List GVal) (hne : xs ≠ []) (h : ∀ x ∈ xs, f x = .ok false) :
    allO f xs = .ok false := by
  cases xs with
  | nil => exact absurd rfl hne
  | cons a as => simp only [allO, h a (by simp)]

theorem anyO_true_of_head (f : GVal → Outcome) (xs : List GVal) (hne : xs ≠ []) (h : ∀ x ∈ xs, f x = .ok true) :
    anyO f xs = .ok true := by
  cases xs with
  | nil => exact absurd rfl hne
  | cons a as => simp only [anyO, h a (by simp)]

/-! ### the day lists -/

theorem mem_dayList {x : GVal} {a s : Int} {f : Nat} (h : x ∈ dayList a s f) :
    ∃ d : Nat, x = .dt (a + s * ((f + d : Nat) : Int) * dayUs) := by
  simp only [dayList, List.mem_map] at h
  obtain ⟨d, _, rfl⟩ := h
  exact ⟨d, rfl⟩

end Gen
end PyPred
