/-
Lemmas about `sortDedup` (Python `sorted(set(..))` on strings), `rows` and
`assign` of Model/TruthTable.lean.  Core Lean only.
-/
import PyPred.Model.TruthTable

namespace PyPred.TT

/-! ### sortDedup -/

abbrev Asc (l : List String) : Prop := l.Pairwise (· < ·)

theorem mem_insertS {x a : String} {l : List String} : a ∈ insertS x l ↔ a = x ∨ a ∈ l := by
  induction l with
  | nil => simp [insertS]
  | cons y ys ih =>
    simp only [insertS]
    split
    · simp
    · split
      · subst_vars; simp
      · simp [ih]; grind

theorem asc_insertS {x : String} {l : List String} (h : Asc l) : Asc (insertS x l) := by
  induction l with
  | nil => simp [insertS, Asc]
  | cons y ys ih =>
    simp only [insertS]
    have hy := List.pairwise_cons.mp h
    split
    · rename_i hxy
      refine List.pairwise_cons.mpr ⟨?_, h⟩
      intro a ha
      rcases List.mem_cons.mp ha with rfl | ha
      · exact hxy
      · exact String.lt_trans hxy (hy.1 a ha)
    · split
      · exact h
      · rename_i h1 h2
        have hyx : y < x := by
          rcases Std.lt_trichotomy x y with h | h | h
          · exact absurd h h1
          · exact absurd h h2
          · exact h
        refine List.pairwise_cons.mpr ⟨?_, ih hy.2⟩
        intro a ha
        rcases mem_insertS.mp ha with rfl | ha
        · exact hyx
        · exact hy.1 a ha

theorem mem_sortDedup {a : String} {l : List String} : a ∈ sortDedup l ↔ a ∈ l := by
  induction l with
  | nil => simp [sortDedup]
  | cons y ys ih =>
    have : sortDedup (y :: ys) = insertS y (sortDedup ys) := rfl
    rw [this, mem_insertS, ih]; simp

theorem asc_sortDedup (l : List String) : Asc (sortDedup l) := by
  induction l with
  | nil => simp [sortDedup, Asc]
  | cons y ys ih => exact asc_insertS ih

/-- A strictly ascending list is determined by its members. -/
theorem asc_ext : ∀ {l₁ l₂ : List String}, Asc l₁ → Asc l₂ → (∀ a, a ∈ l₁ ↔ a ∈ l₂) → l₁ = l₂
  | [], [], _, _, _ => rfl
  | [], b :: _, _, _, h => by have := (h b).mpr (by simp); simp at this
  | a :: _, [], _, _, h => by have := (h a).mp (by simp); simp at this
  | a :: as, b :: bs, h₁, h₂, h => by
    have p₁ := List.pairwise_cons.mp h₁
    have p₂ := List.pairwise_cons.mp h₂
    have hab : a = b := by
      have ha : a = b ∨ a ∈ bs := by simpa using (h a).mp (by simp)
      have hb : b = a ∨ b ∈ as := by simpa using (h b).mpr (by simp)
      rcases ha with rfl | ha
      · rfl
      rcases hb with rfl | hb
      · rfl
      exact absurd (p₁.1 b hb) (String.lt_asymm (p₂.1 a ha))
    subst hab
    congr 1
    refine asc_ext p₁.2 p₂.2 (fun c => ?_)
    constructor
    · intro hc
      have : c = a ∨ c ∈ bs := by simpa using (h c).mp (by simp [hc])
      rcases this with rfl | h'
      · exact absurd (p₁.1 _ hc) (String.lt_irrefl _)
      · exact h'
    · intro hc
      have : c = a ∨ c ∈ as := by simpa using (h c).mpr (by simp [hc])
      rcases this with rfl | h'
      · exact absurd (p₂.1 _ hc) (String.lt_irrefl _)
      · exact h'

theorem asc_nodup {l : List String} (h : Asc l) : l.Nodup := by
  refine List.Pairwise.imp ?_ h
  intro a b hab heq
  subst heq
  exact String.lt_irrefl _ hab

theorem sortDedup_eq_of_mem {l₁ l₂ : List String} (h : ∀ a, a ∈ l₁ ↔ a ∈ l₂) :
    sortDedup l₁ = sortDedup l₂ :=
  asc_ext (asc_sortDedup _) (asc_sortDedup _) (fun a => by simp [mem_sortDedup, h])

/-! ### rows -/

theorem rows_length (n : Nat) : (rows n).length = 2 ^ n := by
  induction n with
  | zero => simp [rows]
  | succ n ih => simp [rows, ih]; omega

theorem mem_rows {n : Nat} {r : List Bool} : r ∈ rows n ↔ r.length = n := by
  induction n generalizing r with
  | zero => simp [rows]
  | succ n ih =>
    simp only [rows, List.mem_append, List.mem_map]
    constructor
    · rintro (⟨a, ha, rfl⟩ | ⟨a, ha, rfl⟩) <;> simp [ih.mp ha]
    · intro h
      match r, h with
      | b :: r', h =>
        have hr : r' ∈ rows n := ih.mpr (by simpa using h)
        cases b
        · exact Or.inl ⟨r', hr, rfl⟩
        · exact Or.inr ⟨r', hr, rfl⟩

theorem foldl_val (r : List Bool) (acc : Nat) :
    r.foldl (fun acc b => 2 * acc + b.toNat) acc = acc * 2 ^ r.length + val r := by
  induction r generalizing acc with
  | nil => simp [val]
  | cons b r ih =>
    simp only [List.foldl_cons, List.length_cons, val]
    rw [ih, ih (2 * 0 + b.toNat)]
    rw [Nat.pow_succ]
    simp [Nat.add_mul, Nat.mul_assoc, Nat.mul_comm, Nat.add_assoc]

theorem val_cons (b : Bool) (r : List Bool) : val (b :: r) = b.toNat * 2 ^ r.length + val r := by
  simp only [val, List.foldl_cons]
  rw [foldl_val]; simp [val]

/-- Read as binary numbers, the rows are `0, 1, …, 2^n − 1` in this order. -/
theorem rows_val (n : Nat) : (rows n).map val = List.range (2 ^ n) := by
  induction n with
  | zero => simp [rows, val]
  | succ n ih =>
    have hlen : ∀ r ∈ rows n, r.length = n := fun r hr => mem_rows.mp hr
    have h0 : ((rows n).map (false :: ·)).map val = List.range (2 ^ n) := by
      rw [List.map_map, ← ih]
      apply List.map_congr_left
      intro r hr
      simp [val_cons]
    have h1 : ((rows n).map (true :: ·)).map val = (List.range (2 ^ n)).map (2 ^ n + ·) := by
      rw [List.map_map, ← ih, List.map_map]
      apply List.map_congr_left
      intro r hr
      simp [val_cons, hlen r hr]
    simp only [rows, List.map_append, h0, h1]
    rw [Nat.pow_succ, Nat.mul_two, List.range_add]

/-! ### assign -/

theorem assign_none {ns : List String} {bs : List Bool} {x : String} (h : x ∉ ns) :
    assign ns bs x = none := by
  induction ns generalizing bs with
  | nil => simp [assign]
  | cons n ns ih =>
    cases bs with
    | nil => simp [assign]
    | cons b bs =>
      simp only [List.mem_cons, not_or] at h
      simp [assign, ih h.2, h.1]

theorem assign_isSome {ns : List String} {bs : List Bool} {x : String}
    (hx : x ∈ ns) (hl : bs.length = ns.length) : (assign ns bs x).isSome = true := by
  induction ns generalizing bs with
  | nil => simp at hx
  | cons n ns ih =>
    cases bs with
    | nil => simp at hl
    | cons b bs =>
      simp only [assign]
      by_cases hxn : x ∈ ns
      · have := ih hxn (by simpa using hl)
        cases h : assign ns bs x with
        | none => simp [h] at this
        | some v => simp
      · have hxe : x = n := by simpa [hxn] using hx
        subst hxe
        simp [assign_none hxn]

/-- With distinct names the dictionary is positional: `ns[i] ↦ r[i]`. -/
theorem assign_getElem {ns : List String} {bs : List Bool} (hn : ns.Nodup) (hl : bs.length = ns.length)
    (i : Nat) (hi : i < ns.length) : assign ns bs ns[i] = some (bs[i]'(by omega)) := by
  induction ns generalizing bs i with
  | nil => simp at hi
  | cons n ns ih =>
    cases bs with
    | nil => simp at hl
    | cons b bs =>
      have hn' := List.nodup_cons.mp hn
      cases i with
      | zero => simp [assign, assign_none hn'.1]
      | succ i =>
        have hi' : i < ns.length := by simpa using hi
        have := ih hn'.2 (by simpa using hl) i hi'
        simp [assign, this]

end PyPred.TT
