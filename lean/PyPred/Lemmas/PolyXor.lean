/-
Cost invariant (`Cst`, see PolyPotential.lean) of the `xor` arms of the optimizer model.
-/
import PyPred.Lemmas.PolyOr

set_option linter.unusedSectionVars false
set_option linter.unusedVariables false
set_option linter.unusedSimpArgs false
set_option linter.unnecessarySeqFocus false
set_option linter.unusedTactic false

namespace PyPred
open PolyArith
variable {V : Type} [DecidableEq V] [LT V] [LE V] [DecidableLT V] [DecidableLE V]

theorem M_xor (l r : Pred V) : M (.xor l r) = 3 + M l + M r + xb l r := by
  simp [M, X, w]; omega

theorem xorNot_M {l r o : Pred V} (h : xorNot l r = some o) : M o + 6 ≤ M (.xor l r) ∧ ia o = 0 := by
  have hl := M_ge l
  have hr := M_ge r
  rw [M_xor]
  unfold xorNot at h
  split at h
  · rename_i a b
    simp at h; subst h
    have := (xb_lin a b).2.2.2
    have e1 : xb (.not a) (.not b) = 1 := by simp [xb, Pred.isAnd]
    clear hl hr
    simp [M, X, w, ia, Pred.isAnd, e1]; omega
  · split at h
    · simp at h; subst h; simp [M, X, w, ia, Pred.isAnd] at *; omega
    · simp at h

theorem xorAndGuard_M (cfg : Cfg) {l c other : Pred V} {res : R V}
    (h : xorAndGuard cfg l c other = some res) :
    AnsC res (fun o n => n ≤ 1 ∧ M o ≤ M l + M c + M other) := by
  unfold xorAndGuard at h
  split at h
  · rename_i q
    have hq := M_ge q
    split at h
    · split at h
      · simp at h; subst h; exact AnsC.retQ (by simp [M, X, w] at *; omega)
      · simp at h; subst h; exact AnsC.ret (by simp [M, X, w] at *; omega)
      · simp at h
    · simp at h
  · simp at h

theorem xorAndDefault_M (cfg : Cfg) (l a b : Pred V) :
    AnsC (xorAndDefault cfg l a b)
      (fun o n => n ≤ 1 ∧ (M o ≤ M l + M (.and a b) ∨ o = .xor l (.and a b))) := by
  have ha := M_ge a
  have hb := M_ge b
  unfold xorAndDefault
  split
  · exact AnsC.retQ ⟨by omega, Or.inl (by simp [M, X, w] at *; omega)⟩
  · split
    · exact AnsC.ret ⟨by omega, Or.inl (by simp [M, X, w] at *; omega)⟩
    · split
      · exact AnsC.ret ⟨by omega, Or.inl (by simp [M, X, w] at *; omega)⟩
      · exact AnsC.ret ⟨by omega, Or.inr rfl⟩
  · exact AnsC.ret ⟨by omega, Or.inr rfl⟩

theorem xorAnd_M (cfg : Cfg) (l a b : Pred V) :
    AnsC (xorAnd cfg l a b)
      (fun o n => n ≤ 1 ∧ (M o ≤ M l + M (.and a b) ∨ o = .xor l (.and a b))) := by
  have e : M (.and a b) = 3 + M a + M b := by simp [M, X, w]; omega
  unfold xorAnd
  split
  · rename_i res hres
    exact AnsC.mono (xorAndGuard_M cfg hres) (fun o n ho => ⟨ho.1, Or.inl (by omega)⟩)
  · split
    · rename_i res hres
      exact AnsC.mono (xorAndGuard_M cfg hres) (fun o n ho => ⟨ho.1, Or.inl (by omega)⟩)
    · exact xorAndDefault_M cfg l a b

theorem xorOrMk_M (cfg : Cfg) {p q : Pred V} {res : R V} (h : xorOrMk cfg p q = some res) :
    AnsC res (fun o n => n ≤ 1 ∧ M o ≤ 6 + M p + M q) := by
  unfold xorOrMk at h
  split at h
  · simp at h; subst h; exact AnsC.retQ ⟨by omega, by omega⟩
  · simp at h; subst h; exact AnsC.ret ⟨by omega, by simp [M, X, w]; omega⟩
  · simp at h

theorem xorOrSide_M (cfg : Cfg) {x d : Pred V} {res : R V} (h : xorOrSide cfg x d = some res) :
    AnsC res (fun o n => n ≤ 1 ∧ M o ≤ M x + M d) := by
  unfold xorOrSide at h
  split at h
  · rename_i a b
    have ha := M_ge a
    have hb := M_ge b
    have e : M (.or a b) = 3 + M a + M b := by simp [M, X, w]; omega
    split at h
    · exact AnsC.mono (xorOrMk_M cfg h) (fun o n ho => ⟨ho.1, by omega⟩)
    · split at h
      · exact AnsC.mono (xorOrMk_M cfg h) (fun o n ho => ⟨ho.1, by omega⟩)
      · simp at h
  · simp at h

theorem xorOrRule_M (cfg : Cfg) {l r : Pred V} {res : R V} (h : xorOrRule cfg l r = some res) :
    AnsC res (fun o n => n ≤ 1 ∧ M o ≤ M l + M r) := by
  unfold xorOrRule orElse at h
  split at h
  · rename_i res' hres
    rw [← hres] at h
    exact xorOrSide_M cfg h
  · exact AnsC.mono (xorOrSide_M cfg h) (fun o n ho => ⟨ho.1, by omega⟩)

theorem stepXor_cst (cfg : Cfg) {rec : Pred V → R V} {l r : Pred V}
    (hrec : NiceC (.xor l r) rec) : AnsC (stepXor cfg rec l r) (fun o n => Cst (.xor l r) o (n + 1)) := by
  have hrec' : ∀ t, w t < 1 + w l + w r → AnsC (rec t) (fun o n => Post t o ∧ Cst t o n) :=
    fun t ht => hrec t (μ_lt_of_w_lt (by simp [w]; omega))
  have hl := w_pos l
  have hr := w_pos r
  have hMl0 := M_ge l
  have hMr0 := M_ge r
  have hW : w (.xor l r) = 1 + w l + w r := by simp [w]
  have hMp := M_xor l r
  have hip : ia (.xor l r) = 0 := by simp [ia, Pred.isAnd]
  have hes : esw (.xor l r) = 1 := by simp [esw]
  have ett : M (Pred.tt : Pred V) = 3 := by simp [M, X, w]
  have itt : ia (Pred.tt : Pred V) = 0 := by simp [ia, Pred.isAnd]
  have eff : M (Pred.ff : Pred V) = 3 := by simp [M, X, w]
  have iff' : ia (Pred.ff : Pred V) = 0 := by simp [ia, Pred.isAnd]
  have hxb := xb_lin l r
  have hil0 := ia_le l
  have hir0 := ia_le r
  unfold stepXor
  split
  · rename_i o ho
    have := xorNot_M ho
    exact AnsC.ret ⟨1, by omega, by omega, by omega, by omega⟩
  · refine AnsC.bind (hrec' l (by omega)) (fun l' nl hl' => ?_)
    refine AnsC.bind (hrec' r (by omega)) (fun r' nr hr' => ?_)
    obtain ⟨hpl, hcl⟩ := hl'
    obtain ⟨hpr, hcr⟩ := hr'
    obtain ⟨ql, hql, hnl, hMl, hMl1, hMl2⟩ := hcl.drop
    obtain ⟨qr, hqr, hnr, hMr, hMr1, hMr2⟩ := hcr.drop
    have hwl : w l' ≤ w l := hpl.1
    have hwr : w r' ≤ w r := hpr.1
    have hMl' := M_ge l'
    have hMr' := M_ge r'
    have hil := ia_le l'
    have hir := ia_le r'
    have hl1 := w_pos l'
    have hr1 := w_pos r'
    have hxb' := xb_lin l' r'
    have hMo' := M_xor l' r'
    have hcost : ∀ k, k ≤ 1 → nl + (nr + k) + 1 + esw (.xor l r) ≤ 3 * (w (.xor l r) * (ql + qr - 1)) := by
      intro k hk
      have := cst_bin (W := w (.xor l r)) (R := 0) (ρ := 0) (c := 3) (r := ql + qr - 1) hnl hnr hql hqr
        (by omega) (by omega) (by omega) (by omega)
      omega
    split
    · rename_i o ho
      have := xorNot_M ho
      exact AnsC.ret ⟨ql + qr - 1, by omega, hcost 0 (by omega), by omega, by omega⟩
    · split
      · exact AnsC.ret ⟨ql + qr - 1, by omega, hcost 0 (by omega), by omega, by omega⟩
      · exact AnsC.ret ⟨ql + qr - 1, by omega, hcost 0 (by omega), by omega, by omega⟩
      · -- XOR3
        have hwn : w (.not l') < 1 + w l + w r := by simp [w]; omega
        refine AnsC.mono (hrec' (.not l') hwn) (fun o n3 ho => ?_)
        obtain ⟨q3, hq3, hn3, -, hM3, hM3'⟩ := ho.2.drop
        have hio := ia_le o
        refine ⟨ql + qr - 1 + q3, by omega, ?_, ?_⟩
        · have h3 := cst_mono (W := w (.xor l r)) hn3 (by simp [w] at *; omega)
          have := cst_bin (W := w (.xor l r)) (c := 2) (r := ql + qr - 1 + q3) hnl hnr hql hqr
            (by omega) h3 (by omega) (by omega)
          omega
        · have e1 : M (.not l') = M l' + 3 := by simp [M, X, w]; omega
          have e2 : ia (.not l') = 0 := by simp [ia, Pred.isAnd]
          omega
      · -- XOR4
        have hwn : w (.not r') < 1 + w l + w r := by simp [w]; omega
        refine AnsC.mono (hrec' (.not r') hwn) (fun o n3 ho => ?_)
        obtain ⟨q3, hq3, hn3, -, hM3, hM3'⟩ := ho.2.drop
        have hio := ia_le o
        refine ⟨ql + qr - 1 + q3, by omega, ?_, ?_⟩
        · have h3 := cst_mono (W := w (.xor l r)) hn3 (by simp [w] at *; omega)
          have := cst_bin (W := w (.xor l r)) (c := 2) (r := ql + qr - 1 + q3) hnl hnr hql hqr
            (by omega) h3 (by omega) (by omega)
          omega
        · have e1 : M (.not r') = M r' + 3 := by simp [M, X, w]; omega
          have e2 : ia (.not r') = 0 := by simp [ia, Pred.isAnd]
          omega
      · split
        · exact AnsC.ret ⟨ql + qr - 1, by omega, hcost 0 (by omega), by omega, by omega⟩
        · split
          · exact AnsC.ret ⟨ql + qr - 1, by omega, hcost 0 (by omega),
              by rw [M_optIn, ia_optIn]; omega, by rw [M_optIn, ia_optIn]; omega⟩
          · exact AnsC.ret ⟨ql + qr - 1, by omega, hcost 0 (by omega),
              by rw [M_optIn, ia_optIn]; omega, by rw [M_optIn, ia_optIn]; omega⟩
          · -- XOR8
            rename_i a b _ _ _ _
            refine AnsC.mono (xorAnd_M cfg l' a b) (fun o n ho => ?_)
            have hio := ia_le o
            have e2 : ia (.and a b) = 1 := by simp [ia, Pred.isAnd]
            refine ⟨ql + qr - 1, by omega, hcost n ho.1, ?_⟩
            rcases ho.2 with h | h
            · omega
            · subst h
              have e3 : ia (.xor l' (.and a b)) = 0 := by simp [ia, Pred.isAnd]
              omega
          · -- XOR9
            rename_i a b _ _ _ _ hnotand
            have hra : r'.isAnd = false := isAnd_false_of_ne hnotand
            have hμ : μ (.xor r' (.and a b)) < μ (.xor l r) := by
              cases hla : l.isAnd
              · have := hpl.2 hla rfl
                exact μ_lt_of_w_lt (by simp [Post, w] at *; omega)
              · simp [Post, w] at hpl hpr
                simp only [μ, swapBit, hla, hra]
                simp [Pred.isAnd, w]; omega
            refine AnsC.mono (hrec _ hμ) (fun o n3 ho => ?_)
            obtain ⟨q3, hq3, hn3, -, hM3, hM3'⟩ := ho.2.drop
            have hio := ia_le o
            have e1 : ia r' = 0 := ia_of_not_isAnd hra
            have e2 : ia (.and a b) = 1 := by simp [ia, Pred.isAnd]
            have e3 : M (.xor r' (.and a b)) = 3 + M r' + M (.and a b) := by
              rw [M_xor]; simp [xb, hra, Pred.isAnd]
            have e4 : ia (.xor r' (.and a b)) = 0 := by simp [ia, Pred.isAnd]
            refine ⟨ql + qr - 1 + q3, by omega, ?_, ?_⟩
            · have h3 := cst_mono (W := w (.xor l r)) hn3 (by simp [w] at *; omega)
              have := cst_bin (W := w (.xor l r)) (c := 2) (r := ql + qr - 1 + q3) hnl hnr hql hqr
                (by omega) h3 (by omega) (by omega)
              omega
            · omega
          · have hla : l'.isAnd = false := isAnd_false_of_ne (by assumption)
            have hra : r'.isAnd = false := isAnd_false_of_ne (by assumption)
            have e1 : ia l' = 0 := ia_of_not_isAnd hla
            have e2 : ia r' = 0 := ia_of_not_isAnd hra
            have e3 : ia (.xor l' r') = 0 := by simp [ia, Pred.isAnd]
            have hsub : ∀ a b : Pred V, l' = .xor a b →
                M a + 6 ≤ M l' ∧ M b + 6 ≤ M l' ∧ ia a ≤ 1 ∧ ia b ≤ 1 := by
              intro a b h
              have := M_ge a
              have := M_ge b
              have := M_xor a b
              subst h
              exact ⟨by omega, by omega, ia_le a, ia_le b⟩
            split
            · rename_i res hres
              refine AnsC.mono (xorOrRule_M cfg hres) (fun o n ho => ?_)
              have hio := ia_le o
              exact ⟨ql + qr - 1, by omega, hcost n ho.1, by omega, by omega⟩
            · split
              · have hs := hsub _ _ rfl
                split
                · exact AnsC.ret ⟨ql + qr - 1, by omega, hcost 0 (by omega), by omega, by omega⟩
                · split
                  · exact AnsC.ret ⟨ql + qr - 1, by omega, hcost 0 (by omega), by omega, by omega⟩
                  · exact AnsC.ret ⟨ql + qr - 1, by omega, hcost 0 (by omega), by omega, by omega⟩
              · exact AnsC.ret ⟨ql + qr - 1, by omega, hcost 0 (by omega), by omega, by omega⟩

end PyPred
