/-
Lemmas about the `to_dot` model (M5 `Dot`): the relation `Rend` abstracts the 40
arms of `render` into five shapes (leaf, one operand, two operands, dict, pairs);
everything else is proved by induction on `Rend`.
-/
import PyPred.Model.Dot

namespace PyPred
namespace Dot

/-! ### Labels of atoms read back -/

theorem parseClsTail_clsTail (ks : List Nat) : parseClsTail (clsTail ks) = some ks := by
  induction ks with
  | nil => simp [clsTail, parseClsTail]
  | cons k ks ih =>
    cases ks with
    | nil => simp [clsTail, parseClsTail]
    | cons k' ks' => simp [clsTail, parseClsTail] at ih ⊢; simpa [clsTail] using ih

theorem parseCls_instLabelAll (ks : List Nat) : parseCls (instLabelAll ks) = some ks := by
  cases ks with
  | nil => simp [instLabelAll, parseCls]
  | cons k ks =>
    have h := parseClsTail_clsTail ks
    cases ks with
    | nil => simp [instLabelAll, parseCls, clsTail, parseClsTail]
    | cons k' ks' => simp [instLabelAll, parseCls, clsTail] at h ⊢; simpa [clsTail] using h

theorem parseAtom_instLabel (dc : DCfg) (ks : List Nat) (lb : Label) (h : instLabel dc ks = .ok lb) :
    parseAtom .instance lb = some (erase dc (.inst ks)) := by
  unfold instLabel at h
  by_cases hd : dc.instAll = true
  · simp [hd] at h
    subst h
    simp [parseAtom, erase, hd, parseCls_instLabelAll]
  · simp [hd] at h
    cases ks with
    | nil => simp at h
    | cons k ks =>
      simp at h
      subst h
      simp [parseAtom, erase, hd, parseCls, parseClsTail]

/-! ### The shapes of a rendering -/

mutual
/-- What `to_dot` must draw for `p`, in pre-order: `some q` for every sub-predicate
`q` (operands of `and/or/xor/not/all/any/comp`, keys and values of `dict_of`), and
`none` for the extra `kv` node of every key/value pair of a `DictOfPredicate`. -/
def slots : Pred Int → List (Option (Pred Int))
  | .and l r => some (.and l r) :: (slots l ++ slots r)
  | .or l r => some (.or l r) :: (slots l ++ slots r)
  | .xor l r => some (.xor l r) :: (slots l ++ slots r)
  | .not q => some (.not q) :: slots q
  | .all q => some (.all q) :: slots q
  | .any q => some (.any q) :: slots q
  | .box kind ps kids =>
    if kind = boxComp then
      match kids with
      | .kcons q .knil => some (.box kind ps kids) :: slots q
      | _ => [some (.box kind ps kids)]
    else some (.box kind ps kids) :: slotsPairs kids
  | p => [some p]
def slotsPairs : Pred Int → List (Option (Pred Int))
  | .kcons key (.kcons val rest) => none :: (slots key ++ slots val ++ slotsPairs rest)
  | _ => []
end

inductive RMode where
  | tree
  | pairs (parent : Nat)

def kvNode (k : Nat) : Node := ⟨k, .kv, [.lit "kv"], none⟩

inductive Rend (dc : DCfg) : RMode → Nat → Pred Int → Graph → Nat → Prop
  | leaf {k : Nat} {kd : Kind} {lb : Label} {p : Pred Int} :
      parseAtom kd lb = some (erase dc p) → kd ≠ .dictOf → slots p = [some p] →
      Rend dc .tree k p ⟨[⟨k, kd, lb, some p⟩], []⟩ (k + 1)
  | un {k : Nat} {kd : Kind} {lb : Label} {p q : Pred Int} {g : Graph} {k' : Nat} (mk : Pred Int → Pred Int) :
      Rend dc .tree (k + 1) q g k' →
      (∀ t, build kd lb [.solid] [t] = some (mk t)) → erase dc p = mk (erase dc q) →
      slots p = some p :: slots q →
      Rend dc .tree k p ⟨⟨k, kd, lb, some p⟩ :: g.nodes, g.edges ++ [⟨k, k + 1, .solid⟩]⟩ k'
  | bin {k : Nat} {kd : Kind} {lb : Label} {p l r : Pred Int} {gl gr : Graph} {k1 k2 : Nat}
      (mk : Pred Int → Pred Int → Pred Int) :
      Rend dc .tree (k + 1) l gl k1 → Rend dc .tree k1 r gr k2 →
      (∀ a b, build kd lb [.solid, .solid] [a, b] = some (mk a b)) →
      erase dc p = mk (erase dc l) (erase dc r) → slots p = some p :: (slots l ++ slots r) →
      Rend dc .tree k p ⟨⟨k, kd, lb, some p⟩ :: (gl.nodes ++ gr.nodes),
        gl.edges ++ [⟨k, k + 1, .solid⟩] ++ (gr.edges ++ [⟨k, k1, .solid⟩])⟩ k2
  | dict {k : Nat} {ps : List Int} {kids : Pred Int} {g : Graph} {k' : Nat} :
      Rend dc (.pairs k) (k + 1) kids g k' →
      Rend dc .tree k (.box boxDictOf ps kids)
        ⟨⟨k, .dictOf, [.lit "is_dict_of"], some (.box boxDictOf ps kids)⟩ :: g.nodes, g.edges⟩ k'
  | nil {parent k : Nat} : Rend dc (.pairs parent) k .knil ⟨[], []⟩ k
  | cons {parent k : Nat} {key val rest : Pred Int} {gk gv gr : Graph} {k1 k2 k3 : Nat} :
      Rend dc .tree (k + 1) key gk k1 → Rend dc .tree k1 val gv k2 → Rend dc (.pairs parent) k2 rest gr k3 →
      Rend dc (.pairs parent) k (.kcons key (.kcons val rest))
        ⟨kvNode k :: (gk.nodes ++ gv.nodes ++ gr.nodes),
          [⟨parent, k, .solid⟩] ++ (gk.edges ++ [⟨k, k + 1, .key⟩]) ++ (gv.edges ++ [⟨k, k1, .value⟩]) ++ gr.edges⟩ k3

theorem rend_single (dc : DCfg) {k : Nat} {kd : Kind} {lb : Label} {p : Pred Int} {g : Graph} {k' : Nat}
    (h : single k kd lb p = .ok (g, k')) (hp : parseAtom kd lb = some (erase dc p)) (hk : kd ≠ .dictOf)
    (hs : slots p = [some p]) :
    Rend dc .tree k p g k' := by
  unfold single at h
  cases h
  exact .leaf hp hk hs

theorem rend_un (dc : DCfg) {k : Nat} {kd : Kind} {lb : Label} {p q : Pred Int} {r : Res} {g : Graph} {k' : Nat}
    (mk : Pred Int → Pred Int)
    (ih : ∀ g k', r = .ok (g, k') → Rend dc .tree (k + 1) q g k')
    (h : un k kd lb p r = .ok (g, k'))
    (hb : ∀ t, build kd lb [.solid] [t] = some (mk t)) (he : erase dc p = mk (erase dc q))
    (hs : slots p = some p :: slots q) :
    Rend dc .tree k p g k' := by
  unfold un at h
  split at h
  · simp at h
  · rename_i g0 k0
    cases h
    exact .un mk (ih _ _ rfl) hb he hs

theorem rend_bin (dc : DCfg) {k : Nat} {kd : Kind} {lb : Label} {p l rr : Pred Int} {gl : Graph} {k1 : Nat}
    {r : Res} {g : Graph} {k' : Nat} (mk : Pred Int → Pred Int → Pred Int)
    (hl : Rend dc .tree (k + 1) l gl k1)
    (ih : ∀ g k', r = .ok (g, k') → Rend dc .tree k1 rr g k')
    (h : bin k kd lb p gl k1 r = .ok (g, k'))
    (hb : ∀ a b, build kd lb [.solid, .solid] [a, b] = some (mk a b))
    (he : erase dc p = mk (erase dc l) (erase dc rr)) (hs : slots p = some p :: (slots l ++ slots rr)) :
    Rend dc .tree k p g k' := by
  unfold bin at h
  split at h
  · simp at h
  · rename_i g0 k0
    cases h
    exact .bin mk hl (ih _ _ rfl) hb he hs


theorem build_leaf (kd : Kind) (lb : Label) (h : kd ≠ .dictOf) : build kd lb [] [] = parseAtom kd lb := by
  cases kd <;> simp_all [build]

theorem render_rend (dc : DCfg) :
    (∀ k p g k', render dc k p = .ok (g, k') → Rend dc .tree k p g k') ∧
    (∀ parent k kids g k', renderPairs dc parent k kids = .ok (g, k') → Rend dc (.pairs parent) k kids g k') := by
  apply render.mutual_induct dc
    (motive_1 := fun k p => ∀ g k', render dc k p = .ok (g, k') → Rend dc .tree k p g k')
    (motive_2 := fun parent k kids => ∀ g k', renderPairs dc parent k kids = .ok (g, k') → Rend dc (.pairs parent) k kids g k')
  all_goals try (intros; rename_i h; rw [render] at h; exact rend_single dc h (by simp [parseAtom, erase]) (by decide) (by simp [slots]))
  -- all
  · intro k q ih g k' h
    rw [render] at h
    exact rend_un dc Pred.all ih h (by intro t; simp [build]) (by simp [erase]) (by simp [slots])
  -- and
  · intro k l r e h1 _ g k' h
    rw [render, h1] at h; simp at h
  · intro k l r gl k1 h1 ihl ihr g k' h
    rw [render, h1] at h
    exact rend_bin dc Pred.and (ihl _ _ h1) ihr h (by intro a b; simp [build]) (by simp [erase]) (by simp [slots])
  -- any
  · intro k q ih g k' h
    rw [render] at h
    exact rend_un dc Pred.any ih h (by intro t; simp [build]) (by simp [erase]) (by simp [slots])
  -- inst
  · intro k ks e hi g k' h
    rw [render, hi] at h; simp at h
  · intro k ks lb hi g k' h
    rw [render, hi] at h
    exact rend_single dc h (parseAtom_instLabel dc ks lb hi) (by decide) (by simp [slots])
  -- isNotNone / isEmpty / isNotEmpty
  · intro k ho g k' h
    rw [render] at h; simp [ho] at h
    exact rend_single dc h (by simp [parseAtom, erase]) (by decide) (by simp [slots])
  · intro k ho g k' h
    rw [render] at h; simp [ho] at h
  · intro k ho g k' h
    rw [render] at h; simp [ho] at h
    exact rend_single dc h (by simp [parseAtom, erase]) (by decide) (by simp [slots])
  · intro k ho g k' h
    rw [render] at h; simp [ho] at h
  · intro k ho g k' h
    rw [render] at h; simp [ho] at h
    exact rend_single dc h (by simp [parseAtom, erase]) (by decide) (by simp [slots])
  · intro k ho g k' h
    rw [render] at h; simp [ho] at h
  -- not
  · intro k q ih g k' h
    rw [render] at h
    exact rend_un dc Pred.not ih h (by intro t; simp [build]) (by simp [erase]) (by simp [slots])
  -- or
  · intro k l r e h1 _ g k' h
    rw [render, h1] at h; simp at h
  · intro k l r gl k1 h1 ihl ihr g k' h
    rw [render, h1] at h
    exact rend_bin dc Pred.or (ihl _ _ h1) ihr h (by intro a b; simp [build]) (by simp [erase]) (by simp [slots])
  -- xor
  · intro k l r e h1 _ g k' h
    rw [render, h1] at h; simp at h
  · intro k l r gl k1 h1 ihl ihr g k' h
    rw [render, h1] at h
    exact rend_bin dc Pred.xor (ihl _ _ h1) ihr h (by intro a b; simp [build]) (by simp [erase]) (by simp [slots])
  -- leaf
  · intro k kind ps g k' h
    rw [render] at h
    unfold leafNode at h
    split at h
    · rename_i hk
      split at h
      · rename_i r
        exact rend_single dc h (by simp [parseAtom, erase, hk]) (by decide) (by simp [slots])
      · simp at h
    · split at h
      · rename_i hk1 hk
        exact rend_single dc h (by simp [parseAtom, erase, hk, leafThis, leafLazy]) (by decide) (by simp [slots])
      · split at h
        · rename_i hk1 hk2 hk
          exact rend_single dc h (by simp [parseAtom, erase, hk, leafRoot, leafLazy]) (by decide) (by simp [slots])
        · split at h
          · rename_i hk1 hk2 hk3 hk
            exact rend_single dc h (by simp [parseAtom, erase, hk, leafTee, leafLazy]) (by decide) (by simp [slots])
          · simp at h
  -- box comp
  · intro k ps q ih g k' h
    rw [render] at h
    simp only [if_pos] at h
    exact rend_un dc (fun t => .box boxComp [] (.kcons t .knil)) ih h (by intro t; simp [build]) (by simp [erase]) (by simp [slots])
  · intro k ps kids hk g k' h
    rw [render] at h
    · simp at h
    · exact hk
  -- box dict
  · intro k ps kids e h1 hne _ g k' h
    rw [render.eq_def] at h
    simp [hne, h1] at h
  · intro k ps kids g0 k0 h1 hne ih g k' h
    rw [render.eq_def] at h
    simp only [hne, if_false, if_pos, h1] at h
    cases h
    exact .dict (ih _ _ h1)
  -- box other
  · intro k kind ps kids h1 h2 g k' h
    rw [render.eq_def] at h
    simp [h1, h2] at h
  -- knil / kcons
  · intro k g k' h
    simp [render] at h
  · intro k a b g k' h
    simp [render] at h
  -- pairs
  · intro parent k g k' h
    rw [renderPairs] at h
    cases h
    exact .nil
  · intro parent k key val rest e h1 _ g k' h
    rw [renderPairs, h1] at h; simp at h
  · intro parent k key val rest gk k1 h1 e h2 _ _ g k' h
    rw [renderPairs, h1] at h; simp only [h2] at h; simp at h
  · intro parent k key val rest gk k1 h1 gv k2 h2 e h3 _ _ _ g k' h
    rw [renderPairs, h1] at h; simp only [h2, h3] at h; simp at h
  · intro parent k key val rest gk k1 h1 gv k2 h2 gr k3 h3 ihk ihv ihr g k' h
    rw [renderPairs, h1] at h; simp only [h2, h3] at h
    cases h
    exact .cons (ihk _ _ h1) (ihv _ _ h2) (ihr _ _ h3)
  · intro t parent k hn hc g k' h
    rw [renderPairs] at h
    · simp at h
    · exact hn
    · exact hc


theorem rend_ids {dc : DCfg} {m : RMode} {k : Nat} {p : Pred Int} {g : Graph} {k' : Nat} (h : Rend dc m k p g k') :
    k' = k + g.nodes.length ∧ g.nodes.map (·.id) = List.range' k g.nodes.length := by
  induction h with
  | leaf _ _ _ => simp
  | un mk _ _ _ _ ih =>
    obtain ⟨h1, h2⟩ := ih
    refine ⟨by simp; omega, ?_⟩
    simp [List.range'_succ, h2]
  | bin mk _ _ _ _ _ ihl ihr =>
    obtain ⟨h1, h2⟩ := ihl
    obtain ⟨h3, h4⟩ := ihr
    refine ⟨by simp; omega, ?_⟩
    simp only [List.map_cons, List.map_append, List.length_cons, List.length_append, h2, h4, List.range'_succ]
    rw [h1]
    rw [← List.range'_append_1]
  | dict _ ih =>
    obtain ⟨h1, h2⟩ := ih
    refine ⟨by simp; omega, ?_⟩
    simp [List.range'_succ, h2]
  | nil => simp
  | cons _ _ _ ihk ihv ihr =>
    obtain ⟨h1, h2⟩ := ihk
    obtain ⟨h3, h4⟩ := ihv
    obtain ⟨h5, h6⟩ := ihr
    refine ⟨by simp; omega, ?_⟩
    simp only [List.map_cons, List.map_append, List.length_cons, List.length_append, h2, h4, h6, List.range'_succ, kvNode]
    rw [h3, h1, ← List.range'_append_1, ← List.range'_append_1]
    simp only [Nat.add_assoc]

theorem rend_tree_pos {dc : DCfg} {k : Nat} {p : Pred Int} {g : Graph} {k' : Nat} (h : Rend dc .tree k p g k') :
    k < k' := by
  have := (rend_ids h).1
  cases h <;> simp at this <;> omega

def srcOk : RMode → Nat → Nat → Nat → Prop
  | .tree, k, k', s => k ≤ s ∧ s < k'
  | .pairs parent, k, k', s => s = parent ∨ (k ≤ s ∧ s < k')

theorem rend_mono {dc : DCfg} {m : RMode} {k : Nat} {p : Pred Int} {g : Graph} {k' : Nat} (h : Rend dc m k p g k') :
    k ≤ k' := by
  have := (rend_ids h).1
  omega

theorem rend_edges {dc : DCfg} {m : RMode} {k : Nat} {p : Pred Int} {g : Graph} {k' : Nat} (h : Rend dc m k p g k') :
    ∀ e ∈ g.edges, e.style ≠ .dashed ∧ k ≤ e.dst ∧ e.dst < k' ∧ srcOk m k k' e.src := by
  induction h with
  | leaf _ _ _ => simp
  | un mk hq _ _ _ ih =>
    have hp := rend_tree_pos hq
    intro e he
    simp only [List.mem_append, List.mem_singleton] at he
    rcases he with he | rfl
    · obtain ⟨h1, h2, h3, h4⟩ := ih e he
      simp only [srcOk] at h4 ⊢
      exact ⟨h1, by omega, h3, by omega, h4.2⟩
    · simp [srcOk]; omega
  | bin mk hl hr _ _ _ ihl ihr =>
    have hpl := rend_tree_pos hl
    have hpr := rend_tree_pos hr
    intro e he
    simp only [List.mem_append, List.mem_singleton] at he
    rcases he with (he | rfl) | (he | rfl)
    · obtain ⟨h1, h2, h3, h4⟩ := ihl e he
      simp only [srcOk] at h4 ⊢
      exact ⟨h1, by omega, by omega, by omega, by omega⟩
    · simp [srcOk]; omega
    · obtain ⟨h1, h2, h3, h4⟩ := ihr e he
      simp only [srcOk] at h4 ⊢
      exact ⟨h1, by omega, by omega, by omega, by omega⟩
    · simp [srcOk]; omega
  | dict hp ih =>
    have hm := rend_mono hp
    intro e he
    obtain ⟨h1, h2, h3, h4⟩ := ih e he
    simp only [srcOk] at h4 ⊢
    exact ⟨h1, by omega, h3, by omega, by omega⟩
  | nil => simp
  | cons hk hv hr ihk ihv ihr =>
    have hpk := rend_tree_pos hk
    have hpv := rend_tree_pos hv
    have hmr := rend_mono hr
    intro e he
    simp only [List.mem_append, List.mem_singleton] at he
    rcases he with ((rfl | (he | rfl)) | (he | rfl)) | he
    · simp [srcOk]; omega
    · obtain ⟨h1, h2, h3, h4⟩ := ihk e he
      simp only [srcOk] at h4 ⊢
      exact ⟨h1, by omega, by omega, Or.inr ⟨by omega, by omega⟩⟩
    · simp [srcOk]; omega
    · obtain ⟨h1, h2, h3, h4⟩ := ihv e he
      simp only [srcOk] at h4 ⊢
      exact ⟨h1, by omega, by omega, Or.inr ⟨by omega, by omega⟩⟩
    · simp [srcOk]; omega
    · obtain ⟨h1, h2, h3, h4⟩ := ihr e he
      simp only [srcOk] at h4 ⊢
      refine ⟨h1, by omega, by omega, ?_⟩
      rcases h4 with h4 | h4
      · exact Or.inl h4
      · exact Or.inr ⟨by omega, by omega⟩

def outE (es : List Edge) (i : Nat) : List Edge := es.filter fun e => e.src == i && e.style != .dashed

theorem out_eq (G : Graph) (i : Nat) : G.out i = outE G.edges i := rfl

theorem outE_append (a b : List Edge) (i : Nat) : outE (a ++ b) i = outE a i ++ outE b i := by
  simp [outE]

theorem outE_nil (i : Nat) : outE [] i = [] := rfl

theorem outE_single_ne {e : Edge} {i : Nat} (h : e.src ≠ i) : outE [e] i = [] := by
  simp [outE, h]

theorem outE_single_eq {e : Edge} (h : e.style ≠ .dashed) : outE [e] e.src = [e] := by
  simp [outE, h]

theorem outE_eq_nil {es : List Edge} {i : Nat} (h : ∀ e ∈ es, e.src ≠ i) : outE es i = [] := by
  simp only [outE, List.filter_eq_nil_iff]
  intro e he
  simp [h e he]

theorem rend_out_nil_tree {dc : DCfg} {k : Nat} {p : Pred Int} {g : Graph} {k' : Nat} (h : Rend dc .tree k p g k')
    {i : Nat} (hi : i < k ∨ k' ≤ i) : outE g.edges i = [] := by
  apply outE_eq_nil
  intro e he
  have := (rend_edges h e he).2.2.2
  simp only [srcOk] at this
  omega

theorem rend_out_nil_pairs {dc : DCfg} {parent k : Nat} {p : Pred Int} {g : Graph} {k' : Nat}
    (h : Rend dc (.pairs parent) k p g k') {i : Nat} (hp : i ≠ parent) (hi : i < k ∨ k' ≤ i) : outE g.edges i = [] := by
  apply outE_eq_nil
  intro e he
  have := (rend_edges h e he).2.2.2
  simp only [srcOk] at this
  omega

theorem decodeAt_succ (G : Graph) (f i : Nat) :
    decodeAt G (f + 1) i =
      match G.find i with
      | none => none
      | some n =>
        match mapOpt (fun e => decodeAt G f e.dst) (G.out i) with
        | none => none
        | some kids => build n.kind n.label ((G.out i).map (·.style)) kids := rfl

def H1 (g G : Graph) : Prop := ∀ n ∈ g.nodes, G.find n.id = some n
def H2 (g G : Graph) (k k' : Nat) : Prop := ∀ i, k ≤ i → i < k' → G.out i = g.out i

def TreeOK (dc : DCfg) (k : Nat) (p : Pred Int) (g : Graph) (k' : Nat) : Prop :=
  ∀ G fuel, H1 g G → H2 g G k k' → g.nodes.length ≤ fuel → decodeAt G fuel k = some (erase dc p)

def PairsOK (dc : DCfg) (parent k : Nat) (kids : Pred Int) (g : Graph) (k' : Nat) : Prop :=
  parent < k → ∃ ds, flattenPairs ds = some (erase dc kids) ∧ ((g.out parent).all fun e => e.style == .solid) = true ∧
    ∀ G fuel, H1 g G → H2 g G k k' → g.nodes.length ≤ fuel →
      mapOpt (fun e => decodeAt G fuel e.dst) (g.out parent) = some ds

def DecOK (dc : DCfg) : RMode → Nat → Pred Int → Graph → Nat → Prop
  | .tree => TreeOK dc
  | .pairs parent => PairsOK dc parent

theorem rend_decode {dc : DCfg} {m : RMode} {k : Nat} {p : Pred Int} {g : Graph} {k' : Nat} (h : Rend dc m k p g k') :
    DecOK dc m k p g k' := by
  induction h with
  | @leaf k kd lb p hp hk _ =>
    intro G fuel h1 h2 hf
    have hfind := h1 _ (List.mem_singleton.2 rfl)
    have hout : G.out k = [] := by rw [h2 k (Nat.le_refl _) (Nat.lt_succ_self _)]; rfl
    cases fuel with
    | zero => simp at hf
    | succ f =>
      simp only at hfind
      rw [decodeAt_succ, hfind]
      simp only [hout, mapOpt, List.map_nil]
      rw [build_leaf _ _ hk, hp]
  | @un k kd lb p q g k' mk hq hb he _ ih =>
    intro G fuel h1 h2 hf
    have hpos := rend_tree_pos hq
    have hfind := h1 _ (List.mem_cons_self)
    have hg : ∀ i, outE (g.edges ++ [⟨k, k + 1, .solid⟩]) i = outE g.edges i ++ outE [⟨k, k + 1, .solid⟩] i :=
      fun i => outE_append _ _ i
    have hout : G.out k = [⟨k, k + 1, .solid⟩] := by
      rw [h2 k (Nat.le_refl _) (by omega), out_eq]
      simp only [hg, rend_out_nil_tree hq (Or.inl (Nat.lt_succ_self k))]
      exact outE_single_eq (e := ⟨k, k + 1, .solid⟩) (by simp)
    cases fuel with
    | zero => simp at hf
    | succ f =>
      simp only [List.length_cons] at hf
      have ihq : decodeAt G f (k + 1) = some (erase dc q) := by
        apply ih G f
        · intro n hn; exact h1 n (List.mem_cons_of_mem _ hn)
        · intro i hi1 hi2
          rw [h2 i (by omega) hi2, out_eq, out_eq]
          simp only [hg]
          rw [outE_single_ne (by simp; omega)]
          simp
        · omega
      simp only at hfind
      rw [decodeAt_succ, hfind]
      simp only [hout, mapOpt, ihq, List.map_cons, List.map_nil]
      rw [hb, he]
  | @bin k kd lb p l r gl gr k1 k2 mk hl hr hb he _ ihl ihr =>
    intro G fuel h1 h2 hf
    have hpl := rend_tree_pos hl
    have hpr := rend_tree_pos hr
    have hfind := h1 _ (List.mem_cons_self)
    have hg : ∀ i, outE (gl.edges ++ [⟨k, k + 1, .solid⟩] ++ (gr.edges ++ [⟨k, k1, .solid⟩])) i =
        outE gl.edges i ++ outE [⟨k, k + 1, .solid⟩] i ++ (outE gr.edges i ++ outE [⟨k, k1, .solid⟩] i) := by
      intro i; simp only [outE_append]
    have hout : G.out k = [⟨k, k + 1, .solid⟩, ⟨k, k1, .solid⟩] := by
      rw [h2 k (Nat.le_refl _) (by omega), out_eq]
      simp only [hg, rend_out_nil_tree hl (Or.inl (Nat.lt_succ_self k)), rend_out_nil_tree hr (i := k) (Or.inl (by omega))]
      rw [outE_single_eq (e := ⟨k, k + 1, .solid⟩) (by simp), outE_single_eq (e := ⟨k, k1, .solid⟩) (by simp)]
      rfl
    cases fuel with
    | zero => simp at hf
    | succ f =>
      simp only [List.length_cons, List.length_append] at hf
      have ih1 : decodeAt G f (k + 1) = some (erase dc l) := by
        apply ihl G f
        · intro n hn; exact h1 n (List.mem_cons_of_mem _ (List.mem_append_left _ hn))
        · intro i hi1 hi2
          rw [h2 i (by omega) (by omega), out_eq, out_eq]
          simp only [hg]
          rw [outE_single_ne (by simp; omega), outE_single_ne (by simp; omega), rend_out_nil_tree hr (Or.inl hi2)]
          simp
        · omega
      have ih2 : decodeAt G f k1 = some (erase dc r) := by
        apply ihr G f
        · intro n hn; exact h1 n (List.mem_cons_of_mem _ (List.mem_append_right _ hn))
        · intro i hi1 hi2
          rw [h2 i (by omega) (by omega), out_eq, out_eq]
          simp only [hg]
          rw [outE_single_ne (by simp; omega), outE_single_ne (by simp; omega), rend_out_nil_tree hl (Or.inr hi1)]
          simp
        · omega
      simp only at hfind
      rw [decodeAt_succ, hfind]
      simp only [hout, mapOpt, ih1, ih2, List.map_cons, List.map_nil]
      rw [hb, he]
  | @dict k ps kids g k' hp ih =>
    intro G fuel h1 h2 hf
    have hm := rend_mono hp
    have hfind := h1 _ (List.mem_cons_self)
    obtain ⟨ds, hfl, hsol, hds⟩ := ih (Nat.lt_succ_self k)
    have hout : G.out k = g.out k := by
      rw [h2 k (Nat.le_refl _) (by omega)]; rfl
    cases fuel with
    | zero => simp at hf
    | succ f =>
      simp only [List.length_cons] at hf
      have hkids := hds G f (fun n hn => h1 n (List.mem_cons_of_mem _ hn))
        (fun i hi1 hi2 => by rw [h2 i (by omega) hi2]; rfl) (by omega)
      simp only at hfind
      rw [decodeAt_succ, hfind]
      simp only [hout, hkids]
      have hsol' : ((g.out k).map (·.style)).all (· == Style.solid) = true := by
        simpa [List.all_map] using hsol
      simp [build, hsol', hfl, erase]
  | @nil parent k =>
    intro _
    refine ⟨[], by simp [flattenPairs, erase], by simp [Graph.out], ?_⟩
    intro G fuel _ _ _
    simp [Graph.out, mapOpt]
  | @cons parent k key val rest gk gv gr k1 k2 k3 hk hv hr ihk ihv ihr =>
    intro hpar
    have hpk := rend_tree_pos hk
    have hpv := rend_tree_pos hv
    have hmr := rend_mono hr
    obtain ⟨ds, hfl, hsol, hds⟩ := ihr (by omega)
    have hg : ∀ i, outE ([⟨parent, k, .solid⟩] ++ (gk.edges ++ [⟨k, k + 1, .key⟩]) ++ (gv.edges ++ [⟨k, k1, .value⟩]) ++ gr.edges) i =
        outE [⟨parent, k, .solid⟩] i ++ (outE gk.edges i ++ outE [⟨k, k + 1, .key⟩] i) ++
          (outE gv.edges i ++ outE [⟨k, k1, .value⟩] i) ++ outE gr.edges i := by
      intro i; simp only [outE_append]
    have houtp : outE ([⟨parent, k, .solid⟩] ++ (gk.edges ++ [⟨k, k + 1, .key⟩]) ++ (gv.edges ++ [⟨k, k1, .value⟩]) ++ gr.edges) parent =
        ⟨parent, k, .solid⟩ :: outE gr.edges parent := by
      rw [hg, outE_single_eq (e := ⟨parent, k, .solid⟩) (by simp), rend_out_nil_tree hk (Or.inl (by omega)),
        rend_out_nil_tree hv (Or.inl (by omega)), outE_single_ne (by simp; omega), outE_single_ne (by simp; omega)]
      simp
    refine ⟨.kcons (erase dc key) (erase dc val) :: ds, by simp [flattenPairs, hfl, erase], ?_, ?_⟩
    · rw [out_eq]; simp only [houtp]
      simpa [out_eq] using hsol
    · intro G fuel h1 h2 hf
      simp only [List.length_cons, List.length_append] at hf
      have hfind := h1 _ (List.mem_cons_self)
      have hout : G.out k = [⟨k, k + 1, .key⟩, ⟨k, k1, .value⟩] := by
        rw [h2 k (Nat.le_refl _) (by omega), out_eq]
        simp only [hg]
        rw [outE_single_ne (by simp; omega), rend_out_nil_tree hk (Or.inl (Nat.lt_succ_self k)),
          rend_out_nil_tree hv (i := k) (Or.inl (by omega)), rend_out_nil_pairs hr (i := k) (by omega) (Or.inl (by omega)),
          outE_single_eq (e := ⟨k, k + 1, .key⟩) (by simp), outE_single_eq (e := ⟨k, k1, .value⟩) (by simp)]
        rfl
      cases fuel with
      | zero => simp at hf
      | succ f =>
        have ih1 : decodeAt G f (k + 1) = some (erase dc key) := by
          apply ihk G f
          · intro n hn; exact h1 n (List.mem_cons_of_mem _ (List.mem_append_left _ (List.mem_append_left _ hn)))
          · intro i hi1 hi2
            rw [h2 i (by omega) (by omega), out_eq, out_eq]
            simp only [hg]
            rw [outE_single_ne (by simp; omega), outE_single_ne (by simp; omega), outE_single_ne (by simp; omega),
              rend_out_nil_tree hv (Or.inl hi2), rend_out_nil_pairs hr (by omega) (Or.inl (by omega))]
            simp
          · omega
        have ih2 : decodeAt G f k1 = some (erase dc val) := by
          apply ihv G f
          · intro n hn; exact h1 n (List.mem_cons_of_mem _ (List.mem_append_left _ (List.mem_append_right _ hn)))
          · intro i hi1 hi2
            rw [h2 i (by omega) (by omega), out_eq, out_eq]
            simp only [hg]
            rw [outE_single_ne (by simp; omega), outE_single_ne (by simp; omega), outE_single_ne (by simp; omega),
              rend_out_nil_tree hk (Or.inr hi1), rend_out_nil_pairs hr (by omega) (Or.inl hi2)]
            simp
          · omega
        have ihrest := hds G (f + 1)
          (fun n hn => h1 n (List.mem_cons_of_mem _ (List.mem_append_right _ hn)))
          (fun i hi1 hi2 => by
            rw [h2 i (by omega) hi2, out_eq, out_eq]
            simp only [hg]
            rw [outE_single_ne (by simp; omega), outE_single_ne (by simp; omega), outE_single_ne (by simp; omega),
              rend_out_nil_tree hk (Or.inr (by omega)), rend_out_nil_tree hv (Or.inr hi1)]
            simp) (by omega)
        have hkv : decodeAt G (f + 1) k = some (.kcons (erase dc key) (erase dc val)) := by
          simp only [kvNode] at hfind
          rw [decodeAt_succ, hfind]
          simp only [hout, mapOpt, ih1, ih2, List.map_cons, List.map_nil]
          simp [build]
        rw [out_eq]; simp only [houtp]
        rw [out_eq] at ihrest
        simp only [mapOpt, hkv, ihrest]

theorem find_of_ids {ns : List Node} {k : Nat} (h : ns.map (·.id) = List.range' k ns.length) :
    ∀ n ∈ ns, ns.find? (fun m => m.id == n.id) = some n := by
  induction ns generalizing k with
  | nil => simp
  | cons a t ih =>
    simp only [List.map_cons, List.length_cons, List.range'_succ, List.cons.injEq] at h
    obtain ⟨ha, ht⟩ := h
    intro n hn
    simp only [List.mem_cons] at hn
    rcases hn with rfl | hn
    · simp
    · have hid : n.id ∈ List.range' (k + 1) t.length := by
        rw [← ht]; exact List.mem_map.2 ⟨n, hn, rfl⟩
      have : k + 1 ≤ n.id := (List.mem_range'_1.1 hid).1
      rw [List.find?_cons]
      have hne : (a.id == n.id) = false := by simp; omega
      simp only [hne]
      exact ih ht n hn

theorem outE_append_dashed (es ds : List Edge) (h : ∀ e ∈ ds, e.style = .dashed) (i : Nat) :
    outE (es ++ ds) i = outE es i := by
  rw [outE_append]
  have : outE ds i = [] := by
    simp only [outE, List.filter_eq_nil_iff]
    intro e he; simp [h e he]
  simp [this]

theorem decode_rend_ext {dc : DCfg} {k : Nat} {p : Pred Int} {g : Graph} {k' : Nat} (h : Rend dc .tree k p g k')
    (ds : List Edge) (hd : ∀ e ∈ ds, e.style = .dashed) :
    decode ⟨g.nodes, g.edges ++ ds⟩ = some (erase dc p) := by
  have hids := rend_ids h
  have hpos := rend_tree_pos h
  have hdec : TreeOK dc k p g k' := rend_decode h
  unfold decode
  match hn : g.nodes with
  | [] => rw [hn] at hids; simp at hids; omega
  | n :: t =>
    simp only
    have hk : n.id = k := by
      have := hids.2; rw [hn] at this; simp [List.range'_succ] at this; exact this.1
    rw [hk, ← hn]
    apply hdec
    · intro m hm
      exact find_of_ids hids.2 m hm
    · intro i _ _
      rw [out_eq, out_eq]
      exact outE_append_dashed _ _ hd i
    · exact Nat.le_refl _

theorem decode_render {dc : DCfg} {k : Nat} {p : Pred Int} {g : Graph} {k' : Nat} (h : render dc k p = .ok (g, k')) :
    decode g = some (erase dc p) := by
  have := decode_rend_ext ((render_rend dc).1 k p g k' h) [] (by simp)
  simpa using this


def isRefLeaf : Pred Int → Bool
  | .leaf kind _ => kind = leafLazy || kind = leafRoot || kind = leafThis
  | _ => false

theorem dashTo_spec (m : List (Nat × Pred Int)) (i : Nat) (t : Option (Pred Int)) :
    ∀ e ∈ dashTo m i t, e.style = .dashed ∧ e.src = i ∧ e.dst ∈ m.map (·.1) := by
  intro e he
  unfold dashTo at he
  split at he
  · simp at he
  · rename_i t
    unfold findNode at he
    cases hf : m.find? (fun e => Pred.beq e.2 t) with
    | none => simp [hf] at he
    | some x =>
      simp [hf] at he
      subst he
      refine ⟨rfl, rfl, ?_⟩
      exact List.mem_map.2 ⟨x, List.mem_of_find?_eq_some hf, rfl⟩

theorem refLoop_spec (bound : List Int) (orig : Pred Int) (outer : List (Pred Int)) (m : List (Nat × Pred Int))
    (st : RefState) (l : List (Nat × Pred Int)) :
    ∀ e ∈ refLoop bound orig outer m st l,
      e.style = .dashed ∧ e.dst ∈ m.map (·.1) ∧ ∃ q, (e.src, q) ∈ l ∧ isRefLeaf q = true := by
  induction l generalizing st with
  | nil => simp [refLoop]
  | cons a t ih =>
    obtain ⟨i, q⟩ := a
    intro e he
    have lift : ∀ st', e ∈ refLoop bound orig outer m st' t →
        e.style = .dashed ∧ e.dst ∈ m.map (·.1) ∧ ∃ q', (e.src, q') ∈ (i, q) :: t ∧ isRefLeaf q' = true := by
      intro st' h
      obtain ⟨h1, h2, q', h3, h4⟩ := ih st' e h
      exact ⟨h1, h2, q', List.mem_cons_of_mem _ h3, h4⟩
    have here : ∀ tt, isRefLeaf q = true → e ∈ dashTo m i tt →
        e.style = .dashed ∧ e.dst ∈ m.map (·.1) ∧ ∃ q', (e.src, q') ∈ (i, q) :: t ∧ isRefLeaf q' = true := by
      intro tt hq h
      obtain ⟨h1, h2, h3⟩ := dashTo_spec m i tt e h
      exact ⟨h1, h3, q, by rw [h2]; exact List.mem_cons_self, hq⟩
    unfold refLoop at he
    split at he
    · rename_i kind ps
      split at he
      · rename_i hk
        split at he
        · simp only [List.mem_append] at he
          rcases he with he | he
          · exact here _ (by simp [isRefLeaf, hk]) he
          · exact lift _ he
        · exact lift _ he
      · split at he
        · rename_i hk
          simp only [List.mem_append] at he
          rcases he with he | he
          · exact here _ (by simp [isRefLeaf, hk]) he
          · exact lift _ he
        · split at he
          · rename_i hk
            simp only [List.mem_append] at he
            rcases he with he | he
            · exact here _ (by simp [isRefLeaf, hk]) he
            · exact lift _ he
          · exact lift _ he
    · exact lift _ he

theorem un_error {k : Nat} {kd : Kind} {lb : Label} {p : Pred Int} {r : Res} {e : Err}
    (h : un k kd lb p r = .error e) : r = .error e := by
  unfold un at h
  split at h
  · simpa using h
  · simp at h

theorem bin_error {k : Nat} {kd : Kind} {lb : Label} {p : Pred Int} {gl : Graph} {k1 : Nat} {r : Res} {e : Err}
    (h : bin k kd lb p gl k1 r = .error e) : r = .error e := by
  unfold bin at h
  split at h
  · simpa using h
  · simp at h

theorem render_error (dc : DCfg) (hi : dc.instAll = true) :
    (∀ k p e, render dc k p = .error e → e = .valueError) ∧
    (∀ parent k kids e, renderPairs dc parent k kids = .error e → e = .valueError) := by
  apply render.mutual_induct dc
    (motive_1 := fun k p => ∀ e, render dc k p = .error e → e = .valueError)
    (motive_2 := fun parent k kids => ∀ e, renderPairs dc parent k kids = .error e → e = .valueError)
  all_goals try (intros; rename_i h; rw [render] at h; simp [single] at h; done)
  all_goals try (intro k q ih e h; rw [render] at h; exact ih e (un_error h))
  all_goals try (intro k l r e1 h1 ih e h; rw [render, h1] at h; simp at h; exact ih e1 h1 ▸ h.symm ▸ rfl)
  all_goals try (intro k l r gl k1 h1 _ ihr e h; rw [render, h1] at h; exact ihr e (bin_error h))
  -- inst
  · intro k ks e1 h1 e h
    rw [render, h1] at h
    simp [instLabel, hi] at h1
  · intro k ks lb h1 e h
    rw [render, h1] at h; simp [single] at h
  -- isNotNone / isEmpty / isNotEmpty
  · intro k ho e h; rw [render] at h; simp [ho, single] at h
  · intro k ho e h; rw [render] at h; simp [ho] at h; exact h.symm
  · intro k ho e h; rw [render] at h; simp [ho, single] at h
  · intro k ho e h; rw [render] at h; simp [ho] at h; exact h.symm
  · intro k ho e h; rw [render] at h; simp [ho, single] at h
  · intro k ho e h; rw [render] at h; simp [ho] at h; exact h.symm
  -- leaf
  · intro k kind ps e h
    rw [render] at h
    unfold leafNode at h
    repeat' split at h
    all_goals simp [single] at h
    all_goals exact h.symm
  -- box comp
  · intro k ps q ih e h
    rw [render] at h
    simp only [if_pos] at h
    exact ih e (un_error h)
  · intro k ps kids hk e h
    rw [render] at h
    · simp at h; exact h.symm
    · exact hk
  -- box dict
  · intro k ps kids e1 h1 hne ih e h
    rw [render.eq_def] at h
    simp [hne, h1] at h
    exact h ▸ ih e1 h1
  · intro k ps kids g0 k0 h1 hne ih e h
    rw [render.eq_def] at h
    simp [hne, h1] at h
  · intro k kind ps kids h1 h2 e h
    rw [render.eq_def] at h
    simp [h1, h2] at h; exact h.symm
  · intro k e h; simp [render] at h; exact h.symm
  · intro k a b e h; simp [render] at h; exact h.symm
  -- pairs
  · intro parent k e h; simp [renderPairs] at h
  · intro parent k key val rest e1 h1 ih e h
    rw [renderPairs, h1] at h; simp at h; exact h ▸ ih e1 h1
  · intro parent k key val rest gk k1 h1 e2 h2 _ ih e h
    rw [renderPairs, h1] at h; simp only [h2] at h; simp at h; exact h ▸ ih e2 h2
  · intro parent k key val rest gk k1 h1 gv k2 h2 e3 h3 _ _ ih e h
    rw [renderPairs, h1] at h; simp only [h2, h3] at h; simp at h; exact h ▸ ih e3 h3
  · intro parent k key val rest gk k1 h1 gv k2 h2 gr k3 h3 _ _ _ e h
    rw [renderPairs, h1] at h; simp only [h2, h3] at h; simp at h
  · intro t parent k hn hc e h
    rw [renderPairs] at h
    · simp at h; exact h.symm
    · exact hn
    · exact hc

def okB : Res → Bool
  | .ok _ => true
  | .error _ => false

theorem okB_un (k : Nat) (kd : Kind) (lb : Label) (p : Pred Int) (r : Res) : okB (un k kd lb p r) = okB r := by
  unfold un; split <;> simp [okB]

theorem okB_bin (k : Nat) (kd : Kind) (lb : Label) (p : Pred Int) (gl : Graph) (k1 : Nat) (r : Res) :
    okB (bin k kd lb p gl k1 r) = okB r := by
  unfold bin; split <;> simp [okB]

theorem render_ok_supported (dc : DCfg) :
    (∀ k p, okB (render dc k p) = supported dc p) ∧
    (∀ parent k kids, okB (renderPairs dc parent k kids) = supportedPairs dc kids) := by
  apply render.mutual_induct dc
    (motive_1 := fun k p => okB (render dc k p) = supported dc p)
    (motive_2 := fun parent k kids => okB (renderPairs dc parent k kids) = supportedPairs dc kids)
  all_goals try (intros; rw [render]; simp [single, okB, supported]; done)
  all_goals try (intro k q ih; rw [render, okB_un, ih]; simp [supported]; done)
  all_goals try (intro k l r e1 h1 ih; rw [render, h1]; rw [h1] at ih; simp only [okB] at ih ⊢; simp [supported, ← ih]; done)
  all_goals try (intro k l r gl k1 h1 ihl ihr; rw [render, h1, okB_bin, ihr]; rw [h1] at ihl; simp only [okB] at ihl; simp [supported, ← ihl]; done)
  -- inst
  · intro k ks e1 h1
    rw [render, h1]
    unfold instLabel at h1
    by_cases hd : dc.instAll = true
    · simp [hd] at h1
    · cases ks with
      | nil => simp [okB, supported, hd]
      | cons a t => simp [hd] at h1
  · intro k ks lb h1
    rw [render, h1]
    unfold instLabel at h1
    by_cases hd : dc.instAll = true
    · simp [okB, single, supported, hd]
    · cases ks with
      | nil => simp [hd] at h1
      | cons a t => simp [okB, single, supported]
  · intro k ho; rw [render]; simp [ho, single, okB, supported]
  · intro k ho; rw [render]; simp [ho, okB, supported]
  · intro k ho; rw [render]; simp [ho, single, okB, supported]
  · intro k ho; rw [render]; simp [ho, okB, supported]
  · intro k ho; rw [render]; simp [ho, single, okB, supported]
  · intro k ho; rw [render]; simp [ho, okB, supported]
  -- leaf
  · intro k kind ps
    rw [render]
    unfold leafNode
    simp only [supported]
    repeat' split
    all_goals simp_all [single, okB]
    · rename_i hne
      intro hl
      match ps, hl with
      | [r], _ => exact hne r rfl
  -- box comp
  · intro k ps q ih
    rw [render]
    simp only [if_pos, okB_un, ih, supported]
  · intro k ps kids hk
    rw [render]
    · simp only [okB, supported, if_pos]
    · exact hk
  -- box dict
  · intro k ps kids e1 h1 hne ih
    rw [render.eq_def]
    rw [h1] at ih
    simp only [okB] at ih
    rw [supported.eq_def]
    simp [hne, h1, okB, ← ih]
  · intro k ps kids g0 k0 h1 hne ih
    rw [render.eq_def]
    rw [h1] at ih
    simp only [okB] at ih
    rw [supported.eq_def]
    simp [hne, h1, okB, ← ih]
  · intro k kind ps kids h1 h2
    rw [render.eq_def, supported.eq_def]
    simp [h1, h2, okB]
  · intro parent k; simp [renderPairs, okB, supportedPairs]
  · intro parent k key val rest e1 h1 ih
    rw [renderPairs, h1]; rw [h1] at ih; simp only [okB] at ih; simp [okB, supportedPairs, ← ih]
  · intro parent k key val rest gk k1 h1 e2 h2 ihk ihv
    rw [renderPairs, h1]; simp only [h2]; rw [h2] at ihv; rw [h1] at ihk; simp only [okB] at ihk ihv
    simp [okB, supportedPairs, ← ihk, ← ihv]
  · intro parent k key val rest gk k1 h1 gv k2 h2 e3 h3 ihk ihv ihr
    rw [renderPairs, h1]; simp only [h2, h3]; rw [h2] at ihv; rw [h1] at ihk; rw [h3] at ihr; simp only [okB] at ihk ihv ihr
    simp [okB, supportedPairs, ← ihk, ← ihv, ← ihr]
  · intro parent k key val rest gk k1 h1 gv k2 h2 gr k3 h3 ihk ihv ihr
    rw [renderPairs, h1]; simp only [h2, h3]; rw [h2] at ihv; rw [h1] at ihk; rw [h3] at ihr; simp only [okB] at ihk ihv ihr
    simp [okB, supportedPairs, ← ihk, ← ihv, ← ihr]
  · intro t parent k hn hc
    rw [renderPairs]
    · simp only [okB]
      unfold supportedPairs
      split
      · exact absurd rfl hn
      · rename_i key val rest; exact absurd rfl (hc key val rest)
      · rfl
    · exact hn
    · exact hc

def slotsOf : RMode → Pred Int → List (Option (Pred Int))
  | .tree, p => slots p
  | .pairs _, p => slotsPairs p

theorem rend_slots {dc : DCfg} {m : RMode} {k : Nat} {p : Pred Int} {g : Graph} {k' : Nat} (h : Rend dc m k p g k') :
    g.nodes.map (·.pred) = slotsOf m p := by
  induction h with
  | leaf _ _ hs => simp [slotsOf, hs]
  | un mk _ _ _ hs ih => simp only [slotsOf] at ih ⊢; simp [hs, ih]
  | bin mk _ _ _ _ hs ihl ihr => simp only [slotsOf] at ihl ihr ⊢; simp [hs, ihl, ihr]
  | dict _ ih => simp only [slotsOf] at ih ⊢; rw [slots.eq_def]; simp [boxDictOf, boxComp, ih]
  | nil => simp [slotsOf, slotsPairs]
  | cons _ _ _ ihk ihv ihr => simp only [slotsOf] at ihk ihv ihr ⊢; simp [slotsPairs, kvNode, ihk, ihv, ihr]

end Dot
end PyPred
