/-
`isTight ts t = true → Tg 0 ts t` (soundness of the second decision procedure the
driver evaluates on the implementation's tree), truth tables and `assocNorm`.
-/
import PyPred.Lemmas.ParserMatch

namespace PyPred
namespace Parser

/-- level of the derivation that `bareT t lvl` finds -/
def resLevel (t : Tree) (lvl : Nat) : Nat :=
  if isBinary t then (if lvl = 0 then 0 else 1) else 2

theorem tg_to1 {t pre} (h : Tg (resLevel t 1) pre t) : Tg 1 pre t := by
  unfold resLevel at h
  by_cases hb : isBinary t = true
  · simpa [hb] using h
  · have hb' : isBinary t = false := by simpa using hb
    simp [hb'] at h; exact .up1 h

theorem tg_to0 {t pre} (h : Tg (resLevel t 0) pre t) : Tg 0 pre t := by
  unfold resLevel at h
  by_cases hb : isBinary t = true
  · simpa [hb] using h
  · have hb' : isBinary t = false := by simpa using hb
    simp [hb'] at h; exact .up0 (.up1 h)

theorem grp_tg2 {t pre} (h : Grp (fun p => Tg 0 p t) pre) : Tg 2 pre t := by
  induction h with
  | one hS => exact .grp hS
  | more _ ih => exact .grp (.up0 (.up1 ih))

theorem MSound.mono {f S S'} (h : MSound f S) (e : ∀ p, S p → S' p) : MSound f S' := by
  intro ts r hr
  obtain ⟨p, hp, hS⟩ := h ts r hr
  exact ⟨p, hp, e p hS⟩

theorem msound_append {f g : M} {S} (hf : MSound f S) (hg : MSound g S) :
    MSound (fun ts => f ts ++ g ts) S := by
  intro ts r hr
  rcases List.mem_append.1 hr with h | h
  · exact hf ts r h
  · exact hg ts r h

theorem msound_leaf (tk : Token) (f : M)
    (hf : ∀ ts, f ts = match ts with | x :: r => if tk = x then [r] else [] | [] => []) :
    MSound f (fun pre => pre = [tk]) := by
  intro ts r
  rw [hf]
  cases ts with
  | nil => simp
  | cons x rest =>
    by_cases h : tk = x
    · subst h; simp [eq_comm]
    · simp [h]

theorem msound_bareT : ∀ (t : Tree) (lvl : Nat), MSound (bareT t lvl) (fun pre => Tg (resLevel t lvl) pre t) := by
  intro t
  induction t with
  | var s =>
    intro lvl
    refine (msound_leaf (.name s) _ ?_).mono ?_
    · intro ts; cases ts with
      | nil => rfl
      | cons x r => cases x <;> simp [bareT]
    · rintro p rfl; exact .name s
  | tt =>
    intro lvl
    refine (msound_leaf .tt _ ?_).mono ?_
    · intro ts; cases ts with
      | nil => rfl
      | cons x r => cases x <;> simp [bareT]
    · rintro p rfl; exact .tt
  | ff =>
    intro lvl
    refine (msound_leaf .ff _ ?_).mono ?_
    · intro ts; cases ts with
      | nil => rfl
      | cons x r => cases x <;> simp [bareT]
    · rintro p rfl; exact .ff
  | not u ih =>
    intro lvl ts r hr
    have hG : MSound (grouped (bareT u 0)) (fun p => Tg 2 p u) :=
      (msound_grouped ((ih 0).mono (fun _ h => tg_to0 h))).mono (fun _ h => grp_tg2 h)
    cases ts with
    | nil => simp [bareT] at hr
    | cons x r0 =>
      cases x <;> simp only [bareT, List.not_mem_nil] at hr
      have : ∃ p, r0 = p ++ r ∧ Tg 2 p u := by
        by_cases hb : isBinary u = true
        · simp only [hb, if_true] at hr
          exact hG _ _ hr
        · have hb' : isBinary u = false := by simpa using hb
          simp only [hb', Bool.false_eq_true, if_false] at hr
          rcases List.mem_append.1 hr with h | h
          · obtain ⟨p, hp, hT⟩ := ih 1 _ _ h
            refine ⟨p, hp, ?_⟩
            simpa [resLevel, hb'] using hT
          · exact hG _ _ h
      obtain ⟨p, rfl, hT⟩ := this
      exact ⟨.not :: p, rfl, by simpa [resLevel, isBinary] using Tg.not hT⟩
  | and a b iha ihb =>
    intro lvl
    have side : ∀ (c : Tree), (∀ lvl, MSound (bareT c lvl) (fun pre => Tg (resLevel c lvl) pre c)) →
        MSound (fun ts => bareT c 1 ts ++ grouped (bareT c 0) ts) (fun p => Tg 1 p c) := fun c ih =>
      msound_append ((ih 1).mono (fun _ h => tg_to1 h))
        ((msound_grouped ((ih 0).mono (fun _ h => tg_to0 h))).mono (fun _ h => .up1 (grp_tg2 h)))
    refine (msound_seqOp (side a iha) (side b ihb)).mono ?_
    rintro p ⟨l, r, rfl, h1, h2⟩
    have := Tg.and h1 h2
    unfold resLevel
    by_cases h0 : lvl = 0
    · simpa [isBinary, h0] using Tg.up0 this
    · simpa [isBinary, h0] using this
  | xor a b iha ihb =>
    intro lvl
    have side : ∀ (c : Tree), (∀ lvl, MSound (bareT c lvl) (fun pre => Tg (resLevel c lvl) pre c)) →
        MSound (fun ts => bareT c 1 ts ++ grouped (bareT c 0) ts) (fun p => Tg 1 p c) := fun c ih =>
      msound_append ((ih 1).mono (fun _ h => tg_to1 h))
        ((msound_grouped ((ih 0).mono (fun _ h => tg_to0 h))).mono (fun _ h => .up1 (grp_tg2 h)))
    refine (msound_seqOp (side a iha) (side b ihb)).mono ?_
    rintro p ⟨l, r, rfl, h1, h2⟩
    have := Tg.xor h1 h2
    unfold resLevel
    by_cases h0 : lvl = 0
    · simpa [isBinary, h0] using Tg.up0 this
    · simpa [isBinary, h0] using this
  | or a b iha ihb =>
    intro lvl
    by_cases h0 : lvl = 0
    · subst h0
      have side : ∀ (c : Tree), (∀ lvl, MSound (bareT c lvl) (fun pre => Tg (resLevel c lvl) pre c)) →
          MSound (fun ts => bareT c 0 ts ++ grouped (bareT c 0) ts) (fun p => Tg 0 p c) := fun c ih =>
        msound_append ((ih 0).mono (fun _ h => tg_to0 h))
          ((msound_grouped ((ih 0).mono (fun _ h => tg_to0 h))).mono (fun _ h => .up0 (.up1 (grp_tg2 h))))
      have := (msound_seqOp (op := .or) (side a iha) (side b ihb)).mono (S' := fun pre => Tg (resLevel (.or a b) 0) pre (.or a b)) (by
        rintro p ⟨l, r, rfl, h1, h2⟩
        simpa [resLevel, isBinary] using Tg.or h1 h2)
      intro ts r hr
      apply this ts r
      simpa [bareT] using hr
    · intro ts r hr
      simp [bareT, h0] at hr

/-- A `T` answer of the second decision procedure means the tree is a tight reading. -/
theorem isTight_sound {ts : List Token} {t : Tree} (h : isTight ts t = true) : Tg 0 ts t := by
  unfold isTight at h
  rw [List.contains_iff_mem] at h
  have hs : MSound (fun ts => bareT t 0 ts ++ grouped (bareT t 0) ts) (fun p => Tg 0 p t) :=
    msound_append ((msound_bareT t 0).mono (fun _ h => tg_to0 h))
      ((msound_grouped ((msound_bareT t 0).mono (fun _ h => tg_to0 h))).mono (fun _ h => .up0 (.up1 (grp_tg2 h))))
  obtain ⟨p, hp, hT⟩ := hs ts [] h
  simp at hp; subst hp; exact hT

/-! ### Truth tables are invariant under re-association of equal operators -/

theorem eval_appAnd (σ) (x : Tree) : ∀ y, eval σ (appAnd x y) = (eval σ x && eval σ y) := by
  intro y
  induction y with
  | and y z ih _ => simp [appAnd, eval, ih, Bool.and_assoc]
  | _ => simp [appAnd, eval]

theorem eval_appOr (σ) (x : Tree) : ∀ y, eval σ (appOr x y) = (eval σ x || eval σ y) := by
  intro y
  induction y with
  | or y z ih _ => simp [appOr, eval, ih, Bool.or_assoc]
  | _ => simp [appOr, eval]

theorem eval_appXor (σ) (x : Tree) : ∀ y, eval σ (appXor x y) = (eval σ x != eval σ y) := by
  intro y
  induction y with
  | xor y z ih _ =>
    simp only [appXor, eval, ih]
    cases eval σ x <;> cases eval σ y <;> cases eval σ z <;> rfl
  | _ => simp [appXor, eval]

theorem eval_assocNorm (σ) : ∀ t, eval σ (assocNorm t) = eval σ t := by
  intro t
  induction t with
  | not t ih => simp [assocNorm, eval, ih]
  | and l r ih1 ih2 => simp [assocNorm, eval, eval_appAnd, ih1, ih2]
  | or l r ih1 ih2 => simp [assocNorm, eval, eval_appOr, ih1, ih2]
  | xor l r ih1 ih2 => simp [assocNorm, eval, eval_appXor, ih1, ih2]
  | _ => simp [assocNorm]

theorem sameModAssoc_eval {t u : Tree} (h : sameModAssoc t u = true) (σ) : eval σ t = eval σ u := by
  unfold sameModAssoc at h
  have e : assocNorm t = assocNorm u := by simpa using h
  rw [← eval_assocNorm σ t, e, eval_assocNorm]

end Parser
end PyPred
