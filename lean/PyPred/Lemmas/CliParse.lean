/-
Lemmas for C20, front half: `toPred` of a parsed tree (propositional, same names, same
truth table), the names the lexer produces, the three-valued scanner `scan3`, and the
invariance of the printed table under re-association of equal operators.
-/
import PyPred.Props.C14
import PyPred.Lemmas.CliTable
import PyPred.Lemmas.CliDecode

namespace PyPred
namespace Cli
open Parser (Tree Token)
open TT (mem_sortDedup sortDedup_eq_of_mem)

/-! ### `toPred` -/

theorem toPred_isProp (t : Tree) : (toPred t).isProp = true := by
  induction t <;> simp_all [toPred, Pred.isProp]

theorem leafNames_toPred (t : Tree) : leafNames (toPred t) = (Parser.names t).map String.ofList := by
  induction t <;> simp_all [toPred, leafNames, Parser.names]

/-- an assignment of `str` names read as an assignment of the parser's names -/
def onChars (σ : String → Bool) : List Char → Bool := fun s => σ (String.ofList s)

theorem evalP_toPred (σ : String → Bool) (t : Tree) : evalP σ (toPred t) = Parser.eval (onChars σ) t := by
  induction t <;> simp_all [toPred, evalP, Parser.eval, onChars]

/-! ### names -/

theorem letter_facts {c : Char} (h : Parser.isLetter c = true) : c ≠ ' ' ∧ c ≠ '\n' ∧ c ≠ '"' := by
  refine ⟨?_, ?_, ?_⟩ <;> (rintro rfl; revert h; decide)

theorem nameOk_of_valid {s : List Char} (h : (Token.name s).valid) : NameOk s ∧ '"' ∉ s := by
  obtain ⟨h1, h2, _, _⟩ := h
  exact ⟨⟨h1, fun hc => (letter_facts (h2 _ hc)).1 rfl, fun hc => (letter_facts (h2 _ hc)).2.1 rfl⟩,
    fun hc => (letter_facts (h2 _ hc)).2.2 rfl⟩

/-- every variable of a parsed text is a name the lexer can produce -/
theorem parseChars_valid {cs : List Char} {t : Tree} (h : Parser.parseChars cs = some t) : t.valid := by
  unfold Parser.parseChars at h
  cases hl : Parser.lexChars cs with
  | none => simp [hl] at h
  | some ts =>
    simp only [hl, Option.bind_some] at h
    intro s hs
    have hr := C14_parse_sound h
    exact Parser.lex_valid hl _ ((Parser.rd_names hr s).1 hs)

theorem quoteFree_of_valid {t : Tree} (h : t.valid) : QuoteFree t := fun s hs => (nameOk_of_valid (h s hs)).2

theorem namesP_ok {t : Tree} (h : t.valid) : ∀ w ∈ (namesP (toPred t)).map String.toList, NameOk w := by
  intro w hw
  simp only [namesP, List.mem_map, mem_sortDedup, leafNames_toPred] at hw
  obtain ⟨n, ⟨s, hs, rfl⟩, rfl⟩ := hw
  simpa using (nameOk_of_valid (h s hs)).1

/-! ### the scanner with three verdicts -/

theorem scan3_accept : ∀ (ts : List Token) (b : Bool) (d : Nat), scan3 b d ts = .accept ↔ Parser.scan b d ts = true := by
  intro ts
  induction ts with
  | nil => intro b d; cases b <;> simp [scan3, Parser.scan]
  | cons t ts ih =>
    intro b d
    cases b <;> cases t <;> simp [scan3, Parser.scan, ih]
    cases d <;> simp [ih]

theorem parseExpression_tree {cs : List Char} {t : Tree} :
    parseExpression cs = .tree t ↔ Parser.parseChars cs = some t := by
  unfold parseExpression Parser.parseChars
  cases hl : Parser.lexChars cs with
  | none => simp
  | some ts =>
    cases hp : Parser.parse ts with
    | none => simp only [Option.bind_some, hp]; split <;> simp
    | some u => simp [hp]

/-- a text that is rejected with `None` is a proper prefix situation, never a sentence:
the three outcomes are exclusive and `tree` is exactly acceptance by the language -/
theorem parseExpression_reject {cs : List Char} (h : Parser.parseChars cs = none) :
    parseExpression cs = .none ∨ parseExpression cs = .raised := by
  unfold parseExpression
  unfold Parser.parseChars at h
  cases hl : Parser.lexChars cs with
  | none => simp
  | some ts =>
    simp only [hl, Option.bind_some] at h
    simp only [h]
    split <;> simp

/-! ### re-association does not change the table -/

theorem mem_names_appAnd (s : List Char) (x : Tree) : ∀ y, s ∈ Parser.names (Parser.appAnd x y) ↔ s ∈ Parser.names x ∨ s ∈ Parser.names y := by
  intro y
  induction y with
  | and y z ih _ => simp only [Parser.appAnd, Parser.names, List.mem_append, ih, or_assoc]
  | _ => simp [Parser.appAnd, Parser.names]

theorem mem_names_appOr (s : List Char) (x : Tree) : ∀ y, s ∈ Parser.names (Parser.appOr x y) ↔ s ∈ Parser.names x ∨ s ∈ Parser.names y := by
  intro y
  induction y with
  | or y z ih _ => simp only [Parser.appOr, Parser.names, List.mem_append, ih, or_assoc]
  | _ => simp [Parser.appOr, Parser.names]

theorem mem_names_appXor (s : List Char) (x : Tree) : ∀ y, s ∈ Parser.names (Parser.appXor x y) ↔ s ∈ Parser.names x ∨ s ∈ Parser.names y := by
  intro y
  induction y with
  | xor y z ih _ => simp only [Parser.appXor, Parser.names, List.mem_append, ih, or_assoc]
  | _ => simp [Parser.appXor, Parser.names]

theorem mem_names_assocNorm (s : List Char) : ∀ t, s ∈ Parser.names (Parser.assocNorm t) ↔ s ∈ Parser.names t := by
  intro t
  induction t with
  | not t ih => simpa [Parser.assocNorm, Parser.names] using ih
  | and l r ih1 ih2 => simp [Parser.assocNorm, Parser.names, mem_names_appAnd, ih1, ih2]
  | or l r ih1 ih2 => simp [Parser.assocNorm, Parser.names, mem_names_appOr, ih1, ih2]
  | xor l r ih1 ih2 => simp [Parser.assocNorm, Parser.names, mem_names_appXor, ih1, ih2]
  | _ => simp [Parser.assocNorm]

theorem namesP_congr {t u : Tree} (h : ∀ s, s ∈ Parser.names t ↔ s ∈ Parser.names u) :
    namesP (toPred t) = namesP (toPred u) := by
  unfold namesP
  apply sortDedup_eq_of_mem
  intro a
  simp only [leafNames_toPred, List.mem_map]
  constructor
  · rintro ⟨s, hs, rfl⟩; exact ⟨s, (h s).1 hs, rfl⟩
  · rintro ⟨s, hs, rfl⟩; exact ⟨s, (h s).2 hs, rfl⟩

theorem tableOut_sameModAssoc {t u : Tree} (h : Parser.sameModAssoc t u = true) :
    tableOut (toPred t) = tableOut (toPred u) := by
  have e : Parser.assocNorm t = Parser.assocNorm u := by simpa [Parser.sameModAssoc] using h
  have hn : namesP (toPred t) = namesP (toPred u) :=
    namesP_congr fun s => by rw [← mem_names_assocNorm s t, e, mem_names_assocNorm]
  rw [tableOut_spec _ (toPred_isProp t), tableOut_spec _ (toPred_isProp u)]
  simp only [specRows, hn, evalP_toPred]
  congr 2
  apply List.map_congr_left
  intro r _
  rw [Parser.sameModAssoc_eval h]

end Cli
end PyPred
