/-
Two closure facts about the optimizer model, proved in one pass: the result
mentions only variable names of the argument, and a propositional argument gives
a propositional result (so `truth_table(optimize(p))` is defined whenever
`truth_table(p)` is).  Used by C01 (`C01_vars_subset`, `C01_prop_closed`) and C20.
-/
import PyPred.Model.Optimize

set_option linter.unusedSectionVars false
set_option linter.unusedVariables false
set_option linter.unusedSimpArgs false

namespace PyPred
variable {V : Type} [DecidableEq V] [LT V] [LE V] [DecidableLT V] [DecidableLE V]

def Good (o p : Pred V) : Prop :=
  (∀ a, a ∈ o.names → a ∈ p.names) ∧ (p.isProp = true → o.isProp = true)

theorem good_refl (p : Pred V) : Good p p := ⟨fun _ h => h, fun h => h⟩

theorem good_trans {a b c : Pred V} (h1 : Good a b) (h2 : Good b c) : Good a c :=
  ⟨fun x hx => h2.1 x (h1.1 x hx), fun h => h1.2 (h2.2 h)⟩

theorem names_negate (p : Pred V) : (negate p).names = p.names := by
  cases p <;> simp [negate, Pred.names]

theorem isProp_negate_eq (p : Pred V) : (negate p).isProp = p.isProp := by
  cases p <;> simp [negate, Pred.isProp]

theorem isProp_negate (p : Pred V) (h : p.isProp = true) : (negate p).isProp = true := by
  rw [isProp_negate_eq]; exact h

theorem good_negate (p : Pred V) : Good (negate p) (.not p) :=
  ⟨fun a h => by simpa [names_negate, Pred.names] using h, fun h => isProp_negate p (by simpa [Pred.isProp] using h)⟩

theorem names_optIn (s : List V) : (optIn s).names = [] := by
  unfold optIn; split <;> simp [Pred.names]
theorem names_optNotIn (s : List V) : (optNotIn s).names = [] := by
  unfold optNotIn; split <;> simp [Pred.names]

def GoodRec (rec : Pred V → R V) : Prop := ∀ p o t, rec p = some (o, t) → Good o p

theorem bindR_some {r : R V} {f : Pred V → R V} {o : Pred V} {t : List Quirk} (h : bindR r f = some (o, t)) :
    ∃ p t1 t2, r = some (p, t1) ∧ f p = some (o, t2) := by
  cases r with
  | none => simp [bindR] at h
  | some pt =>
    obtain ⟨p, t1⟩ := pt
    cases hf : f p with
    | none => simp [bindR, hf] at h
    | some qt =>
      obtain ⟨q, t2⟩ := qt
      simp [bindR, hf] at h
      exact ⟨p, t1, t2, rfl, by rw [hf, h.1]⟩

theorem ret_some {p o : Pred V} {t : List Quirk} (h : (ret p : R V) = some (o, t)) : o = p := by
  simp [ret] at h; exact h.1.symm
theorem retQ_some {q : Quirk} {p o : Pred V} {t : List Quirk} (h : (retQ q p : R V) = some (o, t)) : o = p := by
  simp [retQ] at h; exact h.1.symm

macro "good_simp" : tactic =>
  `(tactic| simp_all [Good, Pred.names, Pred.isProp, names_negate, isProp_negate_eq, names_optIn, names_optNotIn])

theorem stepAll_good {rec : Pred V → R V} (hrec : GoodRec rec) {q o : Pred V} {t : List Quirk}
    (h : stepAll rec q = some (o, t)) : Good o (.all q) := by
  obtain ⟨o1, t1, t2, h1, h2⟩ := bindR_some h
  have g := hrec _ _ _ h1
  rw [ret_some h2]
  unfold allPost
  split <;> good_simp

theorem stepAny_good (cfg : Cfg) {rec : Pred V → R V} (hrec : GoodRec rec) {q o : Pred V} {t : List Quirk}
    (h : stepAny cfg rec q = some (o, t)) : Good o (.any q) := by
  obtain ⟨o1, t1, t2, h1, h2⟩ := bindR_some h
  have g := hrec _ _ _ h1
  split at h2
  · split at h2
    · rw [retQ_some h2]; good_simp
    · rw [ret_some h2]; good_simp
    · rw [ret_some h2]; good_simp
  · rw [ret_some h2]; good_simp
  · rw [ret_some h2]; good_simp
  · rw [ret_some h2]; good_simp
  · rw [ret_some h2]; good_simp

theorem notPost_good (o : Pred V) : Good (notPost o) (.not o) := by
  unfold notPost
  split
  · good_simp
  · split
    · good_simp <;> grind
    · split
      · good_simp <;> grind
      · exact good_negate _
  · good_simp
  · split
    · good_simp <;> grind
    · split
      · good_simp <;> grind
      · exact good_negate _
  · split
    · good_simp
    · split <;> good_simp
  · exact good_negate _

theorem good_not_congr {o q : Pred V} (h : Good o q) : Good (.not o) (.not q) := by good_simp
theorem good_and_congr {a b c d : Pred V} (h1 : Good a c) (h2 : Good b d) : Good (.and a b) (.and c d) := by
  good_simp; grind
theorem good_or_congr {a b c d : Pred V} (h1 : Good a c) (h2 : Good b d) : Good (.or a b) (.or c d) := by
  good_simp; grind
theorem good_xor_congr {a b c d : Pred V} (h1 : Good a c) (h2 : Good b d) : Good (.xor a b) (.xor c d) := by
  good_simp; grind

theorem stepNot_good {rec : Pred V → R V} (hrec : GoodRec rec) {q o : Pred V} {t : List Quirk}
    (h : stepNot rec q = some (o, t)) : Good o (.not q) := by
  unfold stepNot at h
  split at h
  · have g := hrec _ _ _ h; good_simp
  · obtain ⟨o1, t1, t2, h1, h2⟩ := bindR_some h
    have g := hrec _ _ _ h1
    rw [ret_some h2]
    exact good_trans (notPost_good o1) (good_not_congr g)

/-! ### and -/

theorem andPre_good {l r o : Pred V} (h : andPre l r = some o) : Good o (.and l r) := by
  unfold andPre orElse at h
  split at h
  · split at h
    · rename_i res hres
      split at hres
      · split at hres
        · simp at hres h; subst hres; subst h; good_simp <;> grind
        · simp at hres
      · simp at hres
    · split at h
      · split at h
        · simp at h; subst h; good_simp <;> grind
        · simp at h
      · simp at h
  · simp at h

theorem andRulesA_good (cfg : Cfg) (fnc : Nat → V → Bool) {l r o : Pred V} {t : List Quirk}
    (h : andRulesA cfg fnc l r = some (some (o, t))) : Good o (.and l r) := by
  unfold andRulesA at h
  split at h
  all_goals (try split at h)
  all_goals (try split at h)
  all_goals (try split at h)
  all_goals (try (simp [ret, retQ] at h))
  all_goals (try (obtain ⟨rfl, _⟩ := h))
  all_goals good_simp

theorem andRulesB_good (node l r : Pred V) : Good (andRulesB node l r) (.and l r) := by
  unfold andRulesB
  repeat' split
  all_goals good_simp

theorem andPhase2_good (cfg : Cfg) (fnc : Nat → V → Bool) {rec : Pred V → R V} (hrec : GoodRec rec)
    {node l r o : Pred V} {t : List Quirk} (h : andPhase2 cfg fnc rec node l r = some (o, t)) : Good o (.and l r) := by
  obtain ⟨l', t1, t2, hl, h⟩ := bindR_some h
  obtain ⟨r', t3, t4, hr, h⟩ := bindR_some h
  have gl := hrec _ _ _ hl
  have gr := hrec _ _ _ hr
  refine good_trans ?_ (good_and_congr gl gr)
  split at h
  · rename_i res hres
    subst h
    exact andRulesA_good cfg fnc hres
  · split at h
    · obtain ⟨y, t5, t6, hy, h⟩ := bindR_some h
      have gy := hrec _ _ _ hy
      have go := hrec _ _ _ h
      refine good_trans go ?_
      good_simp
    · rw [ret_some h]; exact andRulesB_good _ _ _

theorem stepAnd_good (cfg : Cfg) (fnc : Nat → V → Bool) {rec : Pred V → R V} (hrec : GoodRec rec)
    {l r o : Pred V} {t : List Quirk} (h : stepAnd cfg fnc rec l r = some (o, t)) : Good o (.and l r) := by
  unfold stepAnd at h
  split at h
  · rename_i o' ho
    rw [ret_some h]; exact andPre_good ho
  · split at h
    · exact andPhase2_good cfg fnc hrec h
    · split at h
      · have g := hrec _ _ _ h
        refine good_trans g ?_
        good_simp <;> grind
      · split at h
        · rw [ret_some h]; good_simp
        · exact andPhase2_good cfg fnc hrec h

/-! ### or -/

theorem orAndAnd_good (a b c d : Pred V) : Good (orAndAnd (.and a b) (.and c d) a b c d) (.or (.and a b) (.and c d)) := by
  unfold orAndAnd
  split
  · rename_i o ho
    split at ho
    · split at ho
      · simp at ho; subst ho; good_simp <;> grind
      · simp at ho
    · simp at ho
  · split
    · rename_i o ho
      split at ho
      · split at ho
        · simp at ho; subst ho; good_simp <;> grind
        · simp at ho
      · simp at ho
    · exact good_refl _

theorem orRulesA_good {l r o : Pred V} (h : orRulesA l r = some o) : Good o (.or l r) := by
  unfold orRulesA at h
  split at h
  all_goals (try split at h)
  all_goals (try split at h)
  all_goals (try (simp at h))
  all_goals (try subst h)
  all_goals (try exact orAndAnd_good _ _ _ _)
  all_goals good_simp
  all_goals grind

theorem orRulesB_good (node l r : Pred V) : Good (orRulesB node l r) (.or l r) := by
  unfold orRulesB
  repeat' split
  all_goals good_simp

theorem stepOr_good {rec : Pred V → R V} (hrec : GoodRec rec)
    {l r o : Pred V} {t : List Quirk} (h : stepOr rec l r = some (o, t)) : Good o (.or l r) := by
  unfold stepOr at h
  split at h
  · rw [ret_some h]; good_simp
  · obtain ⟨l', t1, t2, hl, h⟩ := bindR_some h
    obtain ⟨r', t3, t4, hr, h⟩ := bindR_some h
    have gl := hrec _ _ _ hl
    have gr := hrec _ _ _ hr
    refine good_trans ?_ (good_or_congr gl gr)
    split at h
    · rw [ret_some h]; good_simp
    · split at h
      · rw [ret_some h]; good_simp
      · split at h
        · rename_i o' ho
          rw [ret_some h]; exact orRulesA_good ho
        · split at h
          · obtain ⟨y, t5, t6, hy, h⟩ := bindR_some h
            have gy := hrec _ _ _ hy
            rw [ret_some h]
            good_simp
          · rw [ret_some h]; exact orRulesB_good _ _ _

/-! ### xor -/

theorem xorNot_good {l r o : Pred V} (h : xorNot l r = some o) : Good o (.xor l r) := by
  unfold xorNot at h
  split at h
  · simp at h; subst h; good_simp <;> grind
  · split at h
    · simp at h; subst h; good_simp
    · simp at h

theorem xorAndGuard_good (cfg : Cfg) {l c other o : Pred V} {t : List Quirk}
    (h : xorAndGuard cfg l c other = some (some (o, t))) :
    (∀ a, a ∈ o.names → a ∈ l.names ∨ a ∈ other.names) ∧ (l.isProp = true → other.isProp = true → o.isProp = true) := by
  unfold xorAndGuard at h
  split at h
  · split at h
    · split at h
      · simp [retQ] at h; obtain ⟨rfl, _⟩ := h; good_simp
      · simp [ret] at h; obtain ⟨rfl, _⟩ := h; good_simp
      · simp at h
    · simp at h
  · simp at h

theorem xorAndDefault_good (cfg : Cfg) {l a b o : Pred V} {t : List Quirk}
    (h : xorAndDefault cfg l a b = some (o, t)) : Good o (.xor l (.and a b)) := by
  unfold xorAndDefault at h
  split at h
  · rw [retQ_some h]; good_simp <;> grind
  · split at h
    · rw [ret_some h]; good_simp <;> grind
    · split at h
      · rw [ret_some h]; good_simp <;> grind
      · rw [ret_some h]; exact good_refl _
  · rw [ret_some h]; exact good_refl _

theorem xorAnd_good (cfg : Cfg) {l a b o : Pred V} {t : List Quirk}
    (h : xorAnd cfg l a b = some (o, t)) : Good o (.xor l (.and a b)) := by
  unfold xorAnd at h
  split at h
  · rename_i res hres
    subst h
    have := xorAndGuard_good cfg hres
    good_simp <;> grind
  · split at h
    · rename_i res hres
      subst h
      have := xorAndGuard_good cfg hres
      good_simp <;> grind
    · exact xorAndDefault_good cfg h

theorem xorOrMk_good (cfg : Cfg) {p q o : Pred V} {t : List Quirk}
    (h : xorOrMk cfg p q = some (some (o, t))) :
    (∀ a, a ∈ o.names → a ∈ p.names ∨ a ∈ q.names) ∧ (p.isProp = true → q.isProp = true → o.isProp = true) := by
  unfold xorOrMk at h
  split at h
  · simp [retQ] at h; obtain ⟨rfl, _⟩ := h; good_simp
  · simp [ret] at h; obtain ⟨rfl, _⟩ := h; good_simp
  · simp at h

theorem xorOrSide_good (cfg : Cfg) {y d o : Pred V} {t : List Quirk}
    (h : xorOrSide cfg y d = some (some (o, t))) :
    (∀ a, a ∈ o.names → a ∈ y.names ∨ a ∈ d.names) ∧ (y.isProp = true → d.isProp = true → o.isProp = true) := by
  unfold xorOrSide at h
  split at h
  · split at h
    · have := xorOrMk_good cfg h; good_simp <;> grind
    · split at h
      · have := xorOrMk_good cfg h; good_simp <;> grind
      · simp at h
  · simp at h

theorem xorOrRule_good (cfg : Cfg) {l r o : Pred V} {t : List Quirk}
    (h : xorOrRule cfg l r = some (some (o, t))) : Good o (.xor l r) := by
  unfold xorOrRule orElse at h
  split at h
  · rename_i res hres
    rw [← hres] at h
    have := xorOrSide_good cfg h
    good_simp <;> grind
  · have := xorOrSide_good cfg h
    good_simp <;> grind

theorem stepXor_good (cfg : Cfg) {rec : Pred V → R V} (hrec : GoodRec rec)
    {l r o : Pred V} {t : List Quirk} (h : stepXor cfg rec l r = some (o, t)) : Good o (.xor l r) := by
  unfold stepXor at h
  split at h
  · rename_i o' ho
    rw [ret_some h]; exact xorNot_good ho
  · obtain ⟨l', t1, t2, hl, h⟩ := bindR_some h
    obtain ⟨r', t3, t4, hr, h⟩ := bindR_some h
    have gl := hrec _ _ _ hl
    have gr := hrec _ _ _ hr
    refine good_trans ?_ (good_xor_congr gl gr)
    split at h
    · rename_i o' ho
      rw [ret_some h]; exact xorNot_good ho
    · split at h
      · rw [ret_some h]; good_simp
      · rw [ret_some h]; good_simp
      · have g := hrec _ _ _ h
        refine good_trans g ?_; good_simp
      · have g := hrec _ _ _ h
        refine good_trans g ?_; good_simp
      · split at h
        · rw [ret_some h]; good_simp
        · split at h
          · rw [ret_some h]; good_simp
          · rw [ret_some h]; good_simp
          · exact xorAnd_good cfg h
          · have g := hrec _ _ _ h
            refine good_trans g ?_; good_simp <;> grind
          · split at h
            · rename_i res hres
              subst h
              exact xorOrRule_good cfg hres
            · split at h
              · split at h
                · rw [ret_some h]; good_simp
                · split at h
                  · rw [ret_some h]; good_simp
                  · rw [ret_some h]; exact good_refl _
              · rw [ret_some h]; exact good_refl _

/-! ### dispatcher, iteration -/

theorem step_good (cfg : Cfg) (fnc : Nat → V → Bool) {rec : Pred V → R V} (hrec : GoodRec rec) :
    GoodRec (step cfg fnc rec) := by
  intro p o t h
  unfold step at h
  split at h
  · exact stepAll_good hrec h
  · exact stepAnd_good cfg fnc hrec h
  · exact stepAny_good cfg hrec h
  · exact stepNot_good hrec h
  · exact stepOr_good hrec h
  · exact stepXor_good cfg hrec h
  · rw [ret_some h]; good_simp
  · rw [ret_some h]; good_simp
  · rw [ret_some h]; exact good_refl _

theorem optimizeT_good (cfg : Cfg) (fnc : Nat → V → Bool) (n : Nat) : GoodRec (optimizeT cfg fnc n) := by
  induction n with
  | zero => intro p o t h; simp [optimizeT] at h
  | succ n ih => intro p o t h; exact step_good cfg fnc ih p o t h

end PyPred
