/-
Every `Bracketing` (hence every `Reading`) is produced by some derivation of the reference grammar, and the
language of bracketings is the language of readings (through the scanner `wellFormed`).
-/
import PyPred.Lemmas.GrammarSound
import PyPred.Lemmas.ParserScan

namespace PyPred
namespace Grammar
open Parser

/-- the canonical derivations: one per constructor of `Bracketing` -/
def dVar (s : List Char) : DTree := .node rPredVar [.node rVariable [.leaf (.name s)]]
def dTrue : DTree := .node rPredExpr [.node rExprTrue [.node rTrue [.leaf .tt]]]
def dFalse : DTree := .node rPredExpr [.node rExprFalse [.node rFalse [.leaf .ff]]]
def dGrp (d : DTree) : DTree := .node rPredExpr [.node rExprGrouped [.node rGrouped [.leaf .lp, d, .leaf .rp]]]
def dNot (d : DTree) : DTree := .node rPredExpr [.node rExprNot [.node rNot [.leaf .not, d]]]
def dAnd (l r : DTree) : DTree := .node rPredExpr [.node rExprAnd [.node rAnd [l, .leaf .and, r]]]
def dOr (l r : DTree) : DTree := .node rPredExpr [.node rExprOr [.node rOr [l, .leaf .or, r]]]
def dXor (l r : DTree) : DTree := .node rPredExpr [.node rExprXor [.node rXor [l, .leaf .xor, r]]]

/-- a derivation from `predicate` whose transformer value is the predicate `t` -/
def Deriv (ts : List Token) (t : Tree) (d : DTree) : Prop :=
  wf reference (.nt .predicate) d = true ∧ yield d = ts ∧ transform (shape d) = some (.pred t)

theorem deriv_var (s : List Char) : Deriv [.name s] (.var s) (dVar s) := by
  refine ⟨?_, ?_, ?_⟩
  · simp [dVar, wf, wfs, reference, rPredVar, rVariable, mk, Term.matches]
  · simp [dVar, yield, yields]
  · simp [dVar, shape, shapes, transform, transforms, callback, rPredVar, rVariable, mk, Sym.filtered, Token.chars]

theorem deriv_true : Deriv [.tt] .tt dTrue := by unfold Deriv; decide
theorem deriv_false : Deriv [.ff] .ff dFalse := by unfold Deriv; decide

theorem deriv_grp {ts t d} (h : Deriv ts t d) : Deriv (.lp :: ts ++ [.rp]) t (dGrp d) := by
  obtain ⟨h1, h2, h3⟩ := h
  refine ⟨?_, ?_, ?_⟩
  · simpa [dGrp, wf, wfs, reference, rPredExpr, rExprGrouped, rGrouped, mk1, mk, P, Term.matches] using h1
  · simp [dGrp, yield, yields, h2]
  · simp [dGrp, shape, shapes, transform, transforms, callback, rPredExpr, rExprGrouped, rGrouped, mk1, mk, P, Sym.filtered, h3]

theorem deriv_not {ts t d} (h : Deriv ts t d) : Deriv (.not :: ts) (.not t) (dNot d) := by
  obtain ⟨h1, h2, h3⟩ := h
  refine ⟨?_, ?_, ?_⟩
  · simpa [dNot, wf, wfs, reference, rPredExpr, rExprNot, rNot, mk1, mk, P, Term.matches] using h1
  · simp [dNot, yield, yields, h2]
  · simp [dNot, shape, shapes, transform, transforms, callback, rPredExpr, rExprNot, rNot, mk1, mk, P, Sym.filtered, h3]

theorem deriv_and {l r a b dl dr} (hl : Deriv l a dl) (hr : Deriv r b dr) : Deriv (l ++ .and :: r) (.and a b) (dAnd dl dr) := by
  obtain ⟨h1, h2, h3⟩ := hl
  obtain ⟨k1, k2, k3⟩ := hr
  refine ⟨?_, ?_, ?_⟩
  · simp only [reference, rPredExpr, rExprAnd, rAnd, mk1, mk, P] at h1 k1
    simp [dAnd, wf, wfs, reference, rPredExpr, rExprAnd, rAnd, mk1, mk, P, Term.matches, h1, k1]
  · simp [dAnd, yield, yields, h2, k2]
  · simp [dAnd, shape, shapes, transform, transforms, callback, rPredExpr, rExprAnd, rAnd, mk1, mk, P, Sym.filtered, h3, k3]

theorem deriv_or {l r a b dl dr} (hl : Deriv l a dl) (hr : Deriv r b dr) : Deriv (l ++ .or :: r) (.or a b) (dOr dl dr) := by
  obtain ⟨h1, h2, h3⟩ := hl
  obtain ⟨k1, k2, k3⟩ := hr
  refine ⟨?_, ?_, ?_⟩
  · simp only [reference, rPredExpr, rExprOr, rOr, mk1, mk, P] at h1 k1
    simp [dOr, wf, wfs, reference, rPredExpr, rExprOr, rOr, mk1, mk, P, Term.matches, h1, k1]
  · simp [dOr, yield, yields, h2, k2]
  · simp [dOr, shape, shapes, transform, transforms, callback, rPredExpr, rExprOr, rOr, mk1, mk, P, Sym.filtered, h3, k3]

theorem deriv_xor {l r a b dl dr} (hl : Deriv l a dl) (hr : Deriv r b dr) : Deriv (l ++ .xor :: r) (.xor a b) (dXor dl dr) := by
  obtain ⟨h1, h2, h3⟩ := hl
  obtain ⟨k1, k2, k3⟩ := hr
  refine ⟨?_, ?_, ?_⟩
  · simp only [reference, rPredExpr, rExprXor, rXor, mk1, mk, P] at h1 k1
    simp [dXor, wf, wfs, reference, rPredExpr, rExprXor, rXor, mk1, mk, P, Term.matches, h1, k1]
  · simp [dXor, yield, yields, h2, k2]
  · simp [dXor, shape, shapes, transform, transforms, callback, rPredExpr, rExprXor, rXor, mk1, mk, P, Sym.filtered, h3, k3]


/-- every bracketing is what some derivation of the reference grammar is built into -/
theorem bracketing_deriv {ts : List Token} {t : Tree} (h : Bracketing ts t) : ∃ d, Deriv ts t d := by
  induction h with
  | name s => exact ⟨_, deriv_var s⟩
  | tt => exact ⟨_, deriv_true⟩
  | ff => exact ⟨_, deriv_false⟩
  | grp _ ih => obtain ⟨d, hd⟩ := ih; exact ⟨_, deriv_grp hd⟩
  | not _ ih => obtain ⟨d, hd⟩ := ih; exact ⟨_, deriv_not hd⟩
  | and _ _ ih1 ih2 => obtain ⟨d1, hd1⟩ := ih1; obtain ⟨d2, hd2⟩ := ih2; exact ⟨_, deriv_and hd1 hd2⟩
  | or _ _ ih1 ih2 => obtain ⟨d1, hd1⟩ := ih1; obtain ⟨d2, hd2⟩ := ih2; exact ⟨_, deriv_or hd1 hd2⟩
  | xor _ _ ih1 ih2 => obtain ⟨d1, hd1⟩ := ih1; obtain ⟨d2, hd2⟩ := ih2; exact ⟨_, deriv_xor hd1 hd2⟩

theorem deriv_isDerivation {ts : List Token} {t : Tree} {d : DTree} (h : Deriv ts t d) :
    isDerivation reference start ts d = true ∧ build d = some t := by
  obtain ⟨h1, h2, h3⟩ := h
  exact ⟨isDerivation_iff.2 ⟨h1, h2⟩, by simp [build, h3]⟩

/-! ### Readings are bracketings; bracketings have readings -/

theorem rd_bracketing : ∀ {b ts t}, Rd b ts t → Bracketing ts t := by
  intro b ts t h
  induction h with
  | name s => exact .name s
  | tt => exact .tt
  | ff => exact .ff
  | grp _ ih => exact .grp ih
  | not _ ih => exact .not ih
  | up _ ih => exact ih
  | and _ _ ih1 ih2 => exact .and ih1 ih2
  | or _ _ ih1 ih2 => exact .or ih1 ih2
  | xor _ _ ih1 ih2 => exact .xor ih1 ih2

/-- reading a bracketed phrase moves the scanner from "operand expected" to "operand ended" at the same depth -/
theorem bracketing_scan : ∀ {ts t}, Bracketing ts t → ∀ d rest, scan true d (ts ++ rest) = scan false d rest := by
  intro ts t h
  induction h with
  | name s => intro d rest; simp [scan]
  | tt => intro d rest; simp [scan]
  | ff => intro d rest; simp [scan]
  | grp _ ih =>
    intro d rest
    simp only [List.cons_append, List.append_assoc, scan, List.nil_append]
    rw [ih (d + 1) (.rp :: rest)]
    simp [scan]
  | not _ ih => intro d rest; simp only [List.cons_append, scan]; exact ih d rest
  | and _ _ ih1 ih2 =>
    intro d rest
    rw [List.append_assoc, ih1 d]
    simp only [List.cons_append, scan]; exact ih2 d rest
  | or _ _ ih1 ih2 =>
    intro d rest
    rw [List.append_assoc, ih1 d]
    simp only [List.cons_append, scan]; exact ih2 d rest
  | xor _ _ ih1 ih2 =>
    intro d rest
    rw [List.append_assoc, ih1 d]
    simp only [List.cons_append, scan]; exact ih2 d rest

theorem bracketing_wellFormed {ts : List Token} {t : Tree} (h : Bracketing ts t) : wellFormed ts = true := by
  have := bracketing_scan h 0 []
  simp only [List.append_nil] at this
  unfold wellFormed; rw [this]; rfl

/-- the token lists that have a bracketing are those that have a reading (the trees may differ: scope of `~`) -/
theorem bracketing_has_reading {ts : List Token} {t : Tree} (h : Bracketing ts t) : ∃ t', Reading ts t' :=
  wellFormed_iff.1 (bracketing_wellFormed h)

/-! ### Shape of bracketings -/

theorem bracketing_inorder : ∀ {ts t}, Bracketing ts t → inorder t = noParens ts := by
  intro ts t h
  induction h with
  | name s => rfl
  | tt => rfl
  | ff => rfl
  | grp _ ih => simp [noParens, isParen] at *; exact ih
  | not _ ih => simp [noParens, isParen, inorder] at *; exact ih
  | and _ _ ih1 ih2 => simp [noParens, isParen, inorder] at *; rw [ih1, ih2]
  | or _ _ ih1 ih2 => simp [noParens, isParen, inorder] at *; rw [ih1, ih2]
  | xor _ _ ih1 ih2 => simp [noParens, isParen, inorder] at *; rw [ih1, ih2]

theorem bracketing_balanced : ∀ {ts t}, Bracketing ts t → ts.count .lp = ts.count .rp := by
  intro ts t h
  induction h with
  | name s => simp
  | tt => simp
  | ff => simp
  | grp _ ih => simp [List.count_append]; omega
  | not _ ih => simp; exact ih
  | and _ _ ih1 ih2 => simp [List.count_append]; omega
  | or _ _ ih1 ih2 => simp [List.count_append]; omega
  | xor _ _ ih1 ih2 => simp [List.count_append]; omega

theorem bracketing_names : ∀ {ts t}, Bracketing ts t → ∀ s, s ∈ names t ↔ Token.name s ∈ ts := by
  intro ts t h
  induction h with
  | name s => intro s'; simp [names]
  | tt => intro s; simp [names]
  | ff => intro s; simp [names]
  | grp _ ih => intro s; simp [ih s]
  | not _ ih => intro s; simp [names, ih s]
  | and _ _ ih1 ih2 => intro s; simp [names, ih1 s, ih2 s]
  | or _ _ ih1 ih2 => intro s; simp [names, ih1 s, ih2 s]
  | xor _ _ ih1 ih2 => intro s; simp [names, ih1 s, ih2 s]

end Grammar
end PyPred
