/-
`sameTable t u = true → ∀ σ, eval σ t = eval σ u` (soundness of the truth-table
comparison used when a tight witness is checked), validity of printed names.
-/
import PyPred.Lemmas.ParserTight
import PyPred.Lemmas.ParserLex
import PyPred.Lemmas.ParserComplete

namespace PyPred
namespace Parser

theorem eval_congr {σ τ : List Char → Bool} : ∀ t : Tree, (∀ s ∈ names t, σ s = τ s) → eval σ t = eval τ t := by
  intro t
  induction t with
  | var s => intro h; simpa [eval] using h s (by simp [names])
  | tt => intro _; rfl
  | ff => intro _; rfl
  | not t ih => intro h; simp [eval, ih (by simpa [names] using h)]
  | and l r ih1 ih2 =>
    intro h
    simp only [names, List.mem_append] at h
    simp [eval, ih1 (fun s hs => h s (.inl hs)), ih2 (fun s hs => h s (.inr hs))]
  | or l r ih1 ih2 =>
    intro h
    simp only [names, List.mem_append] at h
    simp [eval, ih1 (fun s hs => h s (.inl hs)), ih2 (fun s hs => h s (.inr hs))]
  | xor l r ih1 ih2 =>
    intro h
    simp only [names, List.mem_append] at h
    simp [eval, ih1 (fun s hs => h s (.inl hs)), ih2 (fun s hs => h s (.inr hs))]

theorem filter_mem_assignments (σ : List Char → Bool) : ∀ ns : List (List Char), ns.filter σ ∈ assignments ns := by
  intro ns
  induction ns with
  | nil => simp [assignments]
  | cons n ns ih =>
    simp only [assignments, List.mem_flatMap]
    refine ⟨ns.filter σ, ih, ?_⟩
    by_cases h : σ n = true
    · simp [h]
    · simp [h]

theorem mem_dedup {s : List Char} : ∀ l : List (List Char), s ∈ dedup l ↔ s ∈ l := by
  intro l
  induction l with
  | nil => simp [dedup]
  | cons a l ih =>
    simp only [dedup]
    by_cases h : (dedup l).contains a = true
    · simp only [h, if_true, ih, List.mem_cons]
      constructor
      · exact .inr
      · rintro (rfl | h')
        · rw [List.contains_iff_mem, ih] at h; exact h
        · exact h'
    · have h' : a ∉ dedup l := by
        intro hm; exact h (List.contains_iff_mem.2 hm)
      simp only [List.contains_eq_mem, decide_eq_true_eq] at *
      simp [h', ih]

/-- a `T` of the table comparison means equal truth tables under *every* assignment -/
theorem sameTable_sound {t u : Tree} (h : sameTable t u = true) (σ : List Char → Bool) : eval σ t = eval σ u := by
  unfold sameTable at h
  rw [List.all_eq_true] at h
  have ha := h _ (filter_mem_assignments σ (dedup (names t ++ names u)))
  have e : ∀ s ∈ names t ++ names u, σ s = ((dedup (names t ++ names u)).filter σ).contains s := by
    intro s hs
    cases hσ : σ s with
    | true =>
      symm; rw [List.contains_iff_mem, List.mem_filter]; exact ⟨(mem_dedup _).2 hs, hσ⟩
    | false =>
      symm
      cases hc : ((dedup (names t ++ names u)).filter σ).contains s with
      | false => rfl
      | true =>
        rw [List.contains_iff_mem, List.mem_filter] at hc
        rw [hσ] at hc; cases hc.2
  have e1 := eval_congr (σ := σ) (τ := fun s => ((dedup (names t ++ names u)).filter σ).contains s) t
    (fun s hs => e s (List.mem_append_left _ hs))
  have e2 := eval_congr (σ := σ) (τ := fun s => ((dedup (names t ++ names u)).filter σ).contains s) u
    (fun s hs => e s (List.mem_append_right _ hs))
  rw [e1, e2]
  simpa using ha

/-- all variable names of the tree are names the lexer can produce -/
def Tree.valid (t : Tree) : Prop := ∀ s ∈ names t, (Token.name s).valid

/-- the variable names of a reading are the name tokens of the text -/
theorem rd_names : ∀ {b ts t}, Rd b ts t → ∀ s, s ∈ names t ↔ Token.name s ∈ ts := by
  intro b ts t h
  induction h with
  | name s => intro s'; simp [names, eq_comm]
  | tt => intro s; simp [names]
  | ff => intro s; simp [names]
  | grp _ ih => intro s; simp [ih s]
  | not _ ih => intro s; simp [names, ih s]
  | up _ ih => exact ih
  | and _ _ ih1 ih2 => intro s; simp [names, ih1 s, ih2 s]
  | or _ _ ih1 ih2 => intro s; simp [names, ih1 s, ih2 s]
  | xor _ _ ih1 ih2 => intro s; simp [names, ih1 s, ih2 s]

theorem printFull_valid (t : Tree) (hv : t.valid) : ∀ tk ∈ printFull t, tk.valid := by
  intro tk h
  cases tk with
  | name s =>
    have hr : Rd false (printFull t) t := tg_rd (pr_tg (printFull_pr0 t))
    exact hv s ((rd_names hr s).2 h)
  | _ => trivial

end Parser
end PyPred
