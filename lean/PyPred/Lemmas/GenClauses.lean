/-
Per-clause facts for C09 / C10: what the helper-built generators of a clause can yield
(`cmpGen_outs`, `byFirstMember_outs`, `anys`), and the explicit, decidable parameter guards
`okT` / `okF` under which the soundness theorems hold.
-/
import PyPred.Model.GenClass
import PyPred.Lemmas.GenOuts
import PyPred.Lemmas.GenEval

set_option linter.unusedSimpArgs false

namespace PyPred
namespace Gen

open GVal
open PyVal (Cmp cmpInt ofCmp Klass)

theorem total_ok : ∀ p, total p = true → ∀ x, ∃ b, evalG p x = .ok b := by
  intro p
  induction p with
  | and u g l r ihl ihr =>
    intro h x
    simp only [total, Bool.and_eq_true] at h
    obtain ⟨a, ha⟩ := ihl h.1 x
    obtain ⟨b, hb⟩ := ihr h.2 x
    cases a <;> simp [evalG, ha, hb, Outcome.andThen]
  | or l r ihl ihr =>
    intro h x
    simp only [total, Bool.and_eq_true] at h
    obtain ⟨a, ha⟩ := ihl h.1 x
    obtain ⟨b, hb⟩ := ihr h.2 x
    cases a <;> simp [evalG, ha, hb, Outcome.orElse]
  | _ => intro h x; first | (simp [total] at h; done) | simp [evalG]

/-! ### helpers -/

theorem outs_ints_none {v : GVal} (h : Outs (.ints Option.none Option.none 0 0) v) : ∃ a, v = .int a := by
  obtain ⟨a, rfl, _⟩ := h; exact ⟨a, rfl⟩

/-- Between two finite bounds only finite floats. -/
theorem fin_of_between {lo hi : Int} {a : XF} (h1 : XF.le (.fin lo) a = true) (h2 : XF.le a (.fin hi) = true) :
    ∃ k, a = .fin k ∧ lo ≤ k ∧ k ≤ hi := by
  cases a with
  | fin k => exact ⟨k, rfl, by simpa [XF.le] using h1, by simpa [XF.le] using h2⟩
  | inf n => cases n <;> simp [XF.le] at h1 h2

theorem cLo_le_cHi : XF.le (.fin cLo) (.fin cHi) = true := by
  have := cLo_neg; have := cHi_pos; simp [XF.le]; omega

/-- `random_anys()` yields ints, strs and (finite) floats. -/
theorem outs_anys {v : GVal} (h : Outs anys v) : (∃ a, v = .int a) ∨ (∃ cs, v = .str cs) ∨ (∃ k, v = .flt k) := by
  simp only [anys, Outs, List.not_mem_nil, false_or] at h
  obtain ⟨xs, ⟨x1, r1, h1, ⟨a, rfl, _⟩, ⟨x2, r2, h2, ⟨cs, rfl⟩, ⟨x3, r3, h3, ⟨k', rfl, hk'⟩, h4⟩⟩⟩, hv⟩ := h
  obtain ⟨k, rfl, _, _⟩ := fin_of_between (hk' cLo_le_cHi).1 (hk' cLo_le_cHi).2
  simp only [XF.val] at *
  simp only [GVal.tuple.injEq] at h1 h2 h3 h4
  subst h4; subst h3; subst h2; subst h1
  simp only [List.mem_cons, List.not_mem_nil, or_false] at hv
  rcases hv with rfl | rfl | rfl
  · exact Or.inl ⟨_, rfl⟩
  · exact Or.inr (Or.inl ⟨_, rfl⟩)
  · exact Or.inr (Or.inr ⟨_, rfl⟩)

theorem byFirstMember_outs (p : GP) (neg : Bool) (s : List GVal) {v : GVal}
    (h : Outs (byFirstMember p neg s) v) : evalG p v = .ok (!neg) := by
  induction s with
  | nil => exact h.2
  | cons a as ih =>
    cases a <;> simp only [byFirstMember] at h <;> first | exact h.2 | exact ih h

/-- The float arm of a comparison clause: a float (possibly infinite) within the bounds that were passed. -/
theorem floats_between {flo fhi : XF → Option XF} (hf : ∀ k, flo k = Option.none ∨ fhi k = Option.none) (k : XF) {x : GVal}
    (h : Outs (floatsFrom (flo k) (fhi k)) x) :
    ∃ a : XF, x = a.val ∧ (∀ l, flo k = some l → XF.le l a = true) ∧ (∀ u, fhi k = some u → XF.le a u = true) := by
  obtain ⟨lo, hi, he, hle, h1, h2⟩ := floatsFrom_ordered (flo k) (fhi k) (by
    intro l u hl hu; rcases hf k with h' | h' <;> simp_all)
  rw [he] at h
  obtain ⟨a, rfl, hb⟩ := h
  obtain ⟨hb1, hb2⟩ := hb hle
  refine ⟨a, rfl, ?_, ?_⟩
  · intro l hl; rw [← h1 l hl]; exact hb1
  · intro u hu; rw [← h2 u hu]; exact hb2

/-- What a comparison clause can yield: a listed datetime, a float within the float bounds,
an int within the int bounds, or a value that passed the rejection filter. -/
theorem cmpGen_outs (p : GP) (neg : Bool) (v : GVal) (days : Int → List GVal)
    (flo fhi : XF → Option XF) (ilo ihi : Int → Option Int) (hf : ∀ k, flo k = Option.none ∨ fhi k = Option.none) {x : GVal}
    (h : Outs (cmpGen p neg v days flo fhi ilo ihi) x) :
    (∃ a, v = .dt a ∧ x ∈ days a)
    ∨ (∃ k a : XF, v = k.val ∧ x = a.val ∧ (∀ l, flo k = some l → XF.le l a = true) ∧ (∀ u, fhi k = some u → XF.le a u = true))
    ∨ (∃ n a, asInt v = some n ∧ x = .int a ∧ (∀ l, ilo n = some l → l ≤ a) ∧ (∀ u, ihi n = some u → a ≤ u))
    ∨ evalG p x = .ok (!neg) := by
  cases v with
  | dt a => exact Or.inl ⟨a, rfl, by simpa [cmpGen, Outs] using h⟩
  | flt k =>
    obtain ⟨a, ha, h1, h2⟩ := floats_between hf (.fin k) (by simpa [cmpGen] using h)
    exact Or.inr (Or.inl ⟨.fin k, a, rfl, ha, h1, h2⟩)
  | inf n =>
    obtain ⟨a, ha, h1, h2⟩ := floats_between hf (.inf n) (by simpa [cmpGen] using h)
    exact Or.inr (Or.inl ⟨.inf n, a, rfl, ha, h1, h2⟩)
  | str cs => exact Or.inr (Or.inr (Or.inr (by simpa [cmpGen, Outs] using h.2)))
  | uuid n => exact Or.inr (Or.inr (Or.inr (by simpa [cmpGen, Outs] using h.2)))
  | int n =>
    simp only [cmpGen, asInt] at h
    obtain ⟨a, rfl, h1, h2⟩ := h
    exact Or.inr (Or.inr (Or.inl ⟨n, a, rfl, rfl, h1, h2⟩))
  | bool b =>
    simp only [cmpGen, asInt] at h
    obtain ⟨a, rfl, h1, h2⟩ := h
    exact Or.inr (Or.inr (Or.inl ⟨_, a, rfl, rfl, h1, h2⟩))
  | none => simp [cmpGen, asInt, Outs] at h
  | list xs => simp [cmpGen, asInt, Outs] at h
  | tuple xs => simp [cmpGen, asInt, Outs] at h
  | set xs => simp [cmpGen, asInt, Outs] at h
  | dict xs => simp [cmpGen, asInt, Outs] at h
  | cplx a b => simp [cmpGen, asInt, Outs] at h

end Gen
end PyPred
