/-
M5 `Dot` — `predicate/formatter/format_dot.py`, arm for arm, over `Pred Int`
(constants are the coded integers of the wire format).

`render` is `render.to_value`: one node per call of `_add_node`, the id taken from
the shared counter *before* the operands are rendered, one solid edge per
`dot.edge(node, to_value(child))` in the order the code emits them (the edge to an
operand is emitted after that operand's subtree).  `refEdges` is
`render_lazy_references` (the dashed edges), `toDot` is `to_dot`.

Written against the code after the fix diffs of this property (fixes/dot-*.diff):
range arms bind `(lower, upper)` and print the sign of each end; `fn` falls back to
`__name__`; `IsNotNone/IsEmpty/IsNotEmpty` (results of `optimize`) have arms; a
reference that resolves outside the rendered cluster draws no edge.  Two places have
both variants (`DCfg`): the `is_instance` label (all class names joined / pinned
first class only, K9) and the arms for `IsNotNone/IsEmpty/IsNotEmpty`.

No import outside core Lean: compiled into `driver_dot`.
-/
import PyPred.Model.Core
import PyPred.Model.Optimize

namespace PyPred
namespace Dot

/-- The `name` argument of `_add_node` (the node id is `f"{name}_{n}"`).
`NotInPredicate` uses `"in"` like `InPredicate`. -/
inductive Kind where
  | all | F | T | and | any | comp | eq | falsy | truthy | fn | ge | gele | gelt | gt | gtle | gtlt
  | in_ | dictOf | kv | instance | none | notNone | empty | notEmpty
  | realSubset | subset | realSuperset | superset
  | lazy | le | lt | named | ne | not | or | root | tee | this | xor
  deriving DecidableEq, Repr, Inhabited

def Kind.name : Kind → String
  | .all => "all" | .F => "F" | .T => "T" | .and => "and" | .any => "any" | .comp => "comp"
  | .eq => "eq" | .falsy => "falsy" | .truthy => "truthy" | .fn => "fn" | .ge => "ge"
  | .gele => "gele" | .gelt => "gelt" | .gt => "gt" | .gtle => "gtle" | .gtlt => "gtlt"
  | .in_ => "in" | .dictOf => "dict_of" | .kv => "kv" | .instance => "instance"
  | .none => "none" | .notNone => "not_none" | .empty => "empty" | .notEmpty => "not_empty"
  | .realSubset => "real_subset" | .subset => "subset" | .realSuperset => "real_superset"
  | .superset => "superset" | .lazy => "lazy" | .le => "le" | .lt => "lt" | .named => "named"
  | .ne => "ne" | .not => "not" | .or => "or" | .root => "root" | .tee => "tee" | .this => "this"
  | .xor => "xor"

/-- A label is the f-string of the arm, kept as its pieces: literal text, a
constant (`str(v)`), a set (`set_to_str(v)`), a class name (`k.__name__`), a
function name, a reference name (interned string). -/
inductive Tok where
  | lit (s : String)
  | const (v : Int)
  | set (vs : List Int)
  | cls (k : Nat)
  | fnn (i : Nat)
  | ref (r : Int)
  deriving DecidableEq, Repr, Inhabited

abbrev Label := List Tok

/-- The label text over abstract renderings of the constants. -/
def Label.text (sh : Int → String) (shSet : List Int → String) (cn fnm : Nat → String) (rn : Int → String) :
    Label → String
  | [] => ""
  | .lit s :: t => s ++ Label.text sh shSet cn fnm rn t
  | .const v :: t => sh v ++ Label.text sh shSet cn fnm rn t
  | .set vs :: t => shSet vs ++ Label.text sh shSet cn fnm rn t
  | .cls k :: t => cn k ++ Label.text sh shSet cn fnm rn t
  | .fnn i :: t => fnm i ++ Label.text sh shSet cn fnm rn t
  | .ref r :: t => rn r ++ Label.text sh shSet cn fnm rn t

inductive Style where
  | solid | key | value | dashed
  deriving DecidableEq, Repr, Inhabited

def Style.name : Style → String
  | .solid => "solid" | .key => "key" | .value => "value" | .dashed => "dashed"

/-- `pred` is the entry of `node_predicate_mapping` (`none` for a `kv` node). -/
structure Node where
  id : Nat
  kind : Kind
  label : Label
  pred : Option (Pred Int)
  deriving Inhabited

structure Edge where
  src : Nat
  dst : Nat
  style : Style
  deriving DecidableEq, Repr, Inhabited

/-- Nodes in the order of allocation, edges in the order of emission. -/
structure Graph where
  nodes : List Node
  edges : List Edge
  deriving Inhabited

inductive Err where
  | valueError   -- `raise ValueError(f"Unknown predicate type {predicate}")`
  | indexError   -- pinned `klass[0]` on an empty class tuple
  | fuel         -- the optimizer model ran out of fuel (never on the compared inputs)
  deriving DecidableEq, Repr, Inhabited

/-- Which variant of two places of `to_value` the model follows.
`instAll`: the `IsInstancePredicate` label names all classes (fixes/dot-instance-label.diff)
or only `klass[0]` (pinned, K9).  `optKinds`: `IsNotNonePredicate`, `IsEmptyPredicate`,
`IsNotEmptyPredicate` — which `optimize` produces from supported kinds — have arms
(fixes/dot-optimizer-kinds.diff) or fall into `case _: raise ValueError` (pinned). -/
structure DCfg where
  instAll : Bool
  optKinds : Bool
  deriving DecidableEq, Repr, Inhabited

def DCfg.fixed : DCfg := ⟨true, true⟩
def DCfg.pinned : DCfg := ⟨false, false⟩

abbrev Res := Except Err (Graph × Nat)

-- leaf / box kind numbers of the wire format (harness/lift.py)
def leafLazy : Nat := 4
def leafThis : Nat := 5
def leafRoot : Nat := 6
def leafTee : Nat := 7
def boxComp : Nat := 1
def boxDictOf : Nat := 4

/-! ### Labels -/

def clsTail : List Nat → Label
  | [] => [.lit "_p"]
  | k :: ks => .lit "_or_" :: .cls k :: clsTail ks

/-- `f"is_{'_or_'.join(k.__name__ for k in klass)}_p"`. -/
def instLabelAll : List Nat → Label
  | [] => [.lit "is_", .lit "_p"]
  | k :: ks => .lit "is_" :: .cls k :: clsTail ks

/-- `IsInstancePredicate(klass)` arm. -/
def instLabel (dc : DCfg) (ks : List Nat) : Except Err Label :=
  if dc.instAll then .ok (instLabelAll ks)
  else match ks with
    | [] => .error .indexError
    | k :: _ => .ok [.lit "is_", .cls k, .lit "_p"]

/-- One `_add_node` without operands. -/
def single (k : Nat) (kd : Kind) (lb : Label) (p : Pred Int) : Res :=
  .ok (⟨[⟨k, kd, lb, some p⟩], []⟩, k + 1)

/-- `_add_node_with_child`: node, operand subtree, edge. -/
def un (k : Nat) (kd : Kind) (lb : Label) (p : Pred Int) (r : Res) : Res :=
  match r with
  | .error e => .error e
  | .ok (g, k') => .ok (⟨⟨k, kd, lb, some p⟩ :: g.nodes, g.edges ++ [⟨k, k + 1, .solid⟩]⟩, k')

/-- `_add_node_left_right`, second half: the left operand (`gl`, ids from `k+1`) is
rendered, `r` is the rendering of the right operand from `k1`. -/
def bin (k : Nat) (kd : Kind) (lb : Label) (p : Pred Int) (gl : Graph) (k1 : Nat) (r : Res) : Res :=
  match r with
  | .error e => .error e
  | .ok (gr, k2) =>
    .ok (⟨⟨k, kd, lb, some p⟩ :: (gl.nodes ++ gr.nodes),
          gl.edges ++ [⟨k, k + 1, .solid⟩] ++ (gr.edges ++ [⟨k, k1, .solid⟩])⟩, k2)

/-- `LazyPredicate / ThisPredicate / RootPredicate / TeePredicate` and the kinds
`to_dot` does not list (has_key, has_length, regex, property, factory, …). -/
def leafNode (k : Nat) (kind : Nat) (ps : List Int) : Res :=
  if kind = leafLazy then
    match ps with
    | [r] => single k .lazy [.ref r] (.leaf kind ps)
    | _ => .error .valueError
  else if kind = leafThis then single k .this [.lit "this"] (.leaf kind ps)
  else if kind = leafRoot then single k .root [.lit "root"] (.leaf kind ps)
  else if kind = leafTee then single k .tee [.lit "tee"] (.leaf kind ps)
  else .error .valueError

mutual
/-- `to_value(predicate)` with the counter at `k`. -/
def render (dc : DCfg) : Nat → Pred Int → Res
  | k, .all q => un k .all [.lit "∀"] (.all q) (render dc (k + 1) q)
  | k, .ff => single k .F [.lit "false"] .ff
  | k, .tt => single k .T [.lit "true"] .tt
  | k, .and l r =>
    match render dc (k + 1) l with
    | .error e => .error e
    | .ok (gl, k1) => bin k .and [.lit "∧"] (.and l r) gl k1 (render dc k1 r)
  | k, .any q => un k .any [.lit "∃"] (.any q) (render dc (k + 1) q)
  | k, .eq v => single k .eq [.lit "x = ", .const v] (.eq v)
  | k, .falsy => single k .falsy [.lit "falsy"] .falsy
  | k, .truthy => single k .truthy [.lit "truthy"] .truthy
  | k, .fn i => single k .fn [.lit "fn: ", .fnn i] (.fn i)
  | k, .ge v => single k .ge [.lit "x ≥ ", .const v] (.ge v)
  | k, .gele lo hi => single k .gele [.const lo, .lit " ≤ x ≤ ", .const hi] (.gele lo hi)
  | k, .gelt lo hi => single k .gelt [.const lo, .lit " ≤ x < ", .const hi] (.gelt lo hi)
  | k, .gt v => single k .gt [.lit "x > ", .const v] (.gt v)
  | k, .gtle lo hi => single k .gtle [.const lo, .lit " < x ≤ ", .const hi] (.gtle lo hi)
  | k, .gtlt lo hi => single k .gtlt [.const lo, .lit " < x < ", .const hi] (.gtlt lo hi)
  | k, .isin s => single k .in_ [.lit "x ∈ ", .set s] (.isin s)
  | k, .inst ks =>
    match instLabel dc ks with
    | .error e => .error e
    | .ok lb => single k .instance lb (.inst ks)
  | k, .isNone => single k .none [.lit "x = None"] .isNone
  | k, .isNotNone => if dc.optKinds then single k .notNone [.lit "x ≠ None"] .isNotNone else .error .valueError
  | k, .isEmpty => if dc.optKinds then single k .empty [.lit "empty"] .isEmpty else .error .valueError
  | k, .isNotEmpty => if dc.optKinds then single k .notEmpty [.lit "not empty"] .isNotEmpty else .error .valueError
  | k, .rsubset s => single k .realSubset [.lit "x ⊂ ", .set s] (.rsubset s)
  | k, .subset s => single k .subset [.lit "x ⊆ ", .set s] (.subset s)
  | k, .rsuperset s => single k .realSuperset [.lit "x ⊃ ", .set s] (.rsuperset s)
  | k, .superset s => single k .superset [.lit "x ⊇ ", .set s] (.superset s)
  | k, .le v => single k .le [.lit "x ≤ ", .const v] (.le v)
  | k, .lt v => single k .lt [.lit "x < ", .const v] (.lt v)
  | k, .var n v => single k .named [.lit n] (.var n v)
  | k, .notin s => single k .in_ [.lit "x ∉ ", .set s] (.notin s)
  | k, .ne v => single k .ne [.lit "x ≠ ", .const v] (.ne v)
  | k, .not q => un k .not [.lit "¬"] (.not q) (render dc (k + 1) q)
  | k, .or l r =>
    match render dc (k + 1) l with
    | .error e => .error e
    | .ok (gl, k1) => bin k .or [.lit "∨"] (.or l r) gl k1 (render dc k1 r)
  | k, .xor l r =>
    match render dc (k + 1) l with
    | .error e => .error e
    | .ok (gl, k1) => bin k .xor [.lit "⊻"] (.xor l r) gl k1 (render dc k1 r)
  | k, .leaf kind ps => leafNode k kind ps
  | k, .box kind ps kids =>
    if kind = boxComp then
      match kids with
      | .kcons q .knil => un k .comp [.lit "f"] (.box kind ps kids) (render dc (k + 1) q)
      | _ => .error .valueError
    else if kind = boxDictOf then
      match renderPairs dc k (k + 1) kids with
      | .error e => .error e
      | .ok (g, k') => .ok (⟨⟨k, .dictOf, [.lit "is_dict_of"], some (.box kind ps kids)⟩ :: g.nodes, g.edges⟩, k')
    else .error .valueError
  | _, .knil => .error .valueError
  | _, .kcons _ _ => .error .valueError

/-- The loop over `key_value_predicates` of the `DictOfPredicate` arm: a `kv`
node, the edge from the dict node, the key subtree and its edge, the value
subtree and its edge. -/
def renderPairs (dc : DCfg) (parent : Nat) : Nat → Pred Int → Res
  | k, .knil => .ok (⟨[], []⟩, k)
  | k, .kcons key (.kcons val rest) =>
    match render dc (k + 1) key with
    | .error e => .error e
    | .ok (gk, k1) =>
      match render dc k1 val with
      | .error e => .error e
      | .ok (gv, k2) =>
        match renderPairs dc parent k2 rest with
        | .error e => .error e
        | .ok (gr, k3) =>
          .ok (⟨⟨k, .kv, [.lit "kv"], none⟩ :: (gk.nodes ++ gv.nodes ++ gr.nodes),
                [⟨parent, k, .solid⟩] ++ (gk.edges ++ [⟨k, k + 1, .key⟩]) ++ (gv.edges ++ [⟨k, k1, .value⟩]) ++ gr.edges⟩, k3)
  | _, _ => .error .valueError
end

/-! ### `render_lazy_references` -/

/-- `predicate_in_predicate_tree(tree, x)` (this_predicate.py): only `all`, `and`,
`comp`, `or` are looked into; everything else is compared with `==`. -/
def inTree (x : Pred Int) : Pred Int → Bool
  | .all q => inTree x q
  | .and l r => inTree x l || inTree x r
  | .or l r => inTree x l || inTree x r
  | .box kind ps kids =>
    if kind = boxComp then
      match kids with
      | .kcons q .knil => inTree x q
      | _ => Pred.beq (.box kind ps kids) x
    else Pred.beq (.box kind ps kids) x
  | t => Pred.beq t x

/-- First candidate local that is a predicate different from `x` containing `x`. -/
def pick (x : Pred Int) (cands : List (Pred Int)) : Option (Pred Int) :=
  cands.find? fun c => !Pred.beq c x && inTree x c

/-- `find_in_mapping` (with the `None` default of fixes/dot-dangling-reference.diff). -/
def findNode (m : List (Nat × Pred Int)) (t : Pred Int) : Option Nat :=
  (m.find? fun e => Pred.beq e.2 t).map (·.1)

def dashTo (m : List (Nat × Pred Int)) (i : Nat) (t : Option (Pred Int)) : List Edge :=
  match t with
  | none => []
  | some t =>
    match findNode m t with
    | none => []
    | some j => [⟨i, j, .dashed⟩]

/-- The walrus locals `reference`, `root`, `this` of `render_lazy_references`: they
keep the value of the previous iteration and are themselves candidates of the
frame walk (they are locals of the first frame visited). -/
structure RefState where
  reference : Option (Pred Int)
  root : Option (Pred Int)
  this : Option (Pred Int)
  deriving Inhabited

def optL {α : Type} : Option α → List α
  | none => []
  | some a => [a]

/-- The loop of `render_lazy_references` over `node_predicate_mapping.items()`.
`bound` = the reference names some caller frame binds (to the predicate given to
`to_dot`, `orig`); `outer` = the predicates that are locals of the frames above
(`render`: the rendered predicate; for the optimized cluster then `render_optimized`:
the original). -/
def refLoop (bound : List Int) (orig : Pred Int) (outer : List (Pred Int)) (m : List (Nat × Pred Int)) :
    RefState → List (Nat × Pred Int) → List Edge
  | _, [] => []
  | st, (i, q) :: rest =>
    match q with
    | .leaf kind ps =>
      if kind = leafLazy then
        match ps with
        | [r] =>
          let res := if bound.contains r then some orig else none
          dashTo m i res ++ refLoop bound orig outer m { st with reference := res } rest
        | _ => refLoop bound orig outer m st rest
      else if kind = leafRoot then
        -- find_root_predicate: reversed(frame.f_locals.items())
        let res := pick q (optL st.this ++ optL st.root ++ optL st.reference ++ outer)
        dashTo m i res ++ refLoop bound orig outer m { st with root := res } rest
      else if kind = leafThis then
        let res := pick q (optL st.reference ++ optL st.root ++ optL st.this ++ outer)
        dashTo m i res ++ refLoop bound orig outer m { st with this := res } rest
      else refLoop bound orig outer m st rest
    | _ => refLoop bound orig outer m st rest

/-- `node_predicate_mapping` of a rendering. -/
def mapping (g : Graph) : List (Nat × Pred Int) :=
  g.nodes.filterMap fun n => n.pred.map fun p => (n.id, p)

def refEdges (bound : List Int) (orig : Pred Int) (outer : List (Pred Int)) (g : Graph) : List Edge :=
  refLoop bound orig outer (mapping g) ⟨none, none, none⟩ (mapping g)

/-- `render(dot, predicate, node_nr)`: the tree, then the dashed edges. -/
def cluster (dc : DCfg) (bound : List Int) (orig : Pred Int) (outer : List (Pred Int)) (k : Nat) (p : Pred Int) : Res :=
  match render dc k p with
  | .error e => .error e
  | .ok (g, k') => .ok (⟨g.nodes, g.edges ++ refEdges bound orig (p :: outer) g⟩, k')

/-- `to_dot(predicate, show_optimized=…)`: the clusters in order.  The caller's
frames hold no predicate other than `p` itself. -/
def toDot (cfg : Cfg) (fnc : Nat → Int → Bool) (fuel : Nat) (dc : DCfg) (bound : List Int) (showOpt : Bool)
    (p : Pred Int) : Except Err (List Graph) :=
  match cluster dc bound p [] 0 p with
  | .error e => .error e
  | .ok (g1, k1) =>
    if showOpt then
      match optimize cfg fnc fuel p with
      | none => .error .fuel
      | some o =>
        match cluster dc bound p [p] k1 o with
        | .error e => .error e
        | .ok (g2, _) => .ok [g1, g2]
    else .ok [g1]

/-! ### Reading a graph back -/

def parseClsTail : Label → Option (List Nat)
  | [.lit s] => if s = "_p" then some [] else none
  | .lit s :: .cls k :: rest => if s = "_or_" then (parseClsTail rest).map (k :: ·) else none
  | _ => none

def parseCls : Label → Option (List Nat)
  | [.lit a, .lit b] => if a = "is_" ∧ b = "_p" then some [] else none
  | .lit a :: .cls k :: rest => if a = "is_" then (parseClsTail rest).map (k :: ·) else none
  | _ => none

/-- The atom a node without operands stands for, from its name and label.  What
the label does not show is filled with a default (`erase`). -/
def parseAtom : Kind → Label → Option (Pred Int)
  | .F, [.lit s] => if s = "false" then some .ff else none
  | .T, [.lit s] => if s = "true" then some .tt else none
  | .eq, [.lit s, .const v] => if s = "x = " then some (.eq v) else none
  | .ne, [.lit s, .const v] => if s = "x ≠ " then some (.ne v) else none
  | .ge, [.lit s, .const v] => if s = "x ≥ " then some (.ge v) else none
  | .gt, [.lit s, .const v] => if s = "x > " then some (.gt v) else none
  | .le, [.lit s, .const v] => if s = "x ≤ " then some (.le v) else none
  | .lt, [.lit s, .const v] => if s = "x < " then some (.lt v) else none
  | .gele, [.const lo, .lit s, .const hi] => if s = " ≤ x ≤ " then some (.gele lo hi) else none
  | .gelt, [.const lo, .lit s, .const hi] => if s = " ≤ x < " then some (.gelt lo hi) else none
  | .gtle, [.const lo, .lit s, .const hi] => if s = " < x ≤ " then some (.gtle lo hi) else none
  | .gtlt, [.const lo, .lit s, .const hi] => if s = " < x < " then some (.gtlt lo hi) else none
  | .in_, [.lit s, .set vs] =>
    if s = "x ∈ " then some (.isin vs) else if s = "x ∉ " then some (.notin vs) else none
  | .realSubset, [.lit s, .set vs] => if s = "x ⊂ " then some (.rsubset vs) else none
  | .subset, [.lit s, .set vs] => if s = "x ⊆ " then some (.subset vs) else none
  | .realSuperset, [.lit s, .set vs] => if s = "x ⊃ " then some (.rsuperset vs) else none
  | .superset, [.lit s, .set vs] => if s = "x ⊇ " then some (.superset vs) else none
  | .falsy, [.lit s] => if s = "falsy" then some .falsy else none
  | .truthy, [.lit s] => if s = "truthy" then some .truthy else none
  | .none, [.lit s] => if s = "x = None" then some .isNone else none
  | .notNone, [.lit s] => if s = "x ≠ None" then some .isNotNone else none
  | .empty, [.lit s] => if s = "empty" then some .isEmpty else none
  | .notEmpty, [.lit s] => if s = "not empty" then some .isNotEmpty else none
  | .fn, [.lit s, .fnn i] => if s = "fn: " then some (.fn i) else none
  | .named, [.lit n] => some (.var n false)
  | .lazy, [.ref r] => some (.leaf leafLazy [r])
  | .this, [.lit s] => if s = "this" then some (.leaf leafThis []) else none
  | .root, [.lit s] => if s = "root" then some (.leaf leafRoot []) else none
  | .tee, [.lit s] => if s = "tee" then some (.leaf leafTee []) else none
  | .instance, lb => (parseCls lb).map .inst
  | _, _ => none

/-- `[kcons k₁ v₁, kcons k₂ v₂, …]` → `kcons k₁ (kcons v₁ (kcons k₂ …))`. -/
def flattenPairs : List (Pred Int) → Option (Pred Int)
  | [] => some .knil
  | .kcons a b :: rest => (flattenPairs rest).map fun t => .kcons a (.kcons b t)
  | _ => none

/-- The sub-tree a node stands for, from its name, its label, the styles of its
outgoing non-dashed edges (in order) and the sub-trees at their heads. -/
def build (kd : Kind) (lb : Label) (sts : List Style) (kids : List (Pred Int)) : Option (Pred Int) :=
  match kd, sts, kids with
  | .and, [.solid, .solid], [l, r] => if lb = [.lit "∧"] then some (.and l r) else none
  | .or, [.solid, .solid], [l, r] => if lb = [.lit "∨"] then some (.or l r) else none
  | .xor, [.solid, .solid], [l, r] => if lb = [.lit "⊻"] then some (.xor l r) else none
  | .not, [.solid], [q] => if lb = [.lit "¬"] then some (.not q) else none
  | .all, [.solid], [q] => if lb = [.lit "∀"] then some (.all q) else none
  | .any, [.solid], [q] => if lb = [.lit "∃"] then some (.any q) else none
  | .comp, [.solid], [q] => if lb = [.lit "f"] then some (.box boxComp [] (.kcons q .knil)) else none
  | .kv, [.key, .value], [a, b] => if lb = [.lit "kv"] then some (.kcons a b) else none
  | .dictOf, sts, kids =>
    if lb = [.lit "is_dict_of"] ∧ sts.all (· == .solid) then (flattenPairs kids).map (.box boxDictOf [])
    else none
  | kd, [], [] => parseAtom kd lb
  | _, _, _ => none

def Graph.find (G : Graph) (i : Nat) : Option Node := G.nodes.find? fun n => n.id == i

/-- The non-dashed edges leaving node `i`, in the order of emission. -/
def Graph.out (G : Graph) (i : Nat) : List Edge :=
  G.edges.filter fun e => e.src == i && e.style != .dashed

def mapOpt {α β : Type} (f : α → Option β) : List α → Option (List β)
  | [] => some []
  | a :: t =>
    match f a with
    | none => none
    | some b =>
      match mapOpt f t with
      | none => none
      | some bs => some (b :: bs)

/-- Read the tree below node `i` off the graph (node table + edges only). -/
def decodeAt (G : Graph) : Nat → Nat → Option (Pred Int)
  | 0, _ => none
  | fuel + 1, i =>
    match G.find i with
    | none => none
    | some n =>
      match mapOpt (fun e => decodeAt G fuel e.dst) (G.out i) with
      | none => none
      | some kids => build n.kind n.label ((G.out i).map (·.style)) kids

/-- Read a cluster: the tree below its first node. -/
def decode (G : Graph) : Option (Pred Int) :=
  match G.nodes with
  | [] => none
  | n :: _ => decodeAt G G.nodes.length n.id

/-! ### What a rendering determines -/

/-- What the labels do not show: the value of a `NamedPredicate`, the functions of
`comp`/`tee`, and (pinned `is_instance` arm) all classes but the first. -/
def erase (dc : DCfg) : Pred Int → Pred Int
  | .var n _ => .var n false
  | .inst ks => if dc.instAll then .inst ks else .inst (ks.take 1)
  | .leaf kind ps => if kind = leafLazy then .leaf kind ps else .leaf kind []
  | .box kind _ kids => .box kind [] (erase dc kids)
  | .kcons h t => .kcons (erase dc h) (erase dc t)
  | .and l r => .and (erase dc l) (erase dc r)
  | .or l r => .or (erase dc l) (erase dc r)
  | .xor l r => .xor (erase dc l) (erase dc r)
  | .not q => .not (erase dc q)
  | .all q => .all (erase dc q)
  | .any q => .any (erase dc q)
  | p => p

mutual
/-- Number of nodes `to_dot` draws for `p`: one per sub-predicate, plus one `kv`
node per key/value pair of a `DictOfPredicate`. -/
def count : Pred Int → Nat
  | .and l r | .or l r | .xor l r => 1 + count l + count r
  | .not q | .all q | .any q => 1 + count q
  | .box kind _ kids =>
    if kind = boxComp then
      match kids with
      | .kcons q .knil => 1 + count q
      | _ => 1
    else 1 + countPairs kids
  | _ => 1
def countPairs : Pred Int → Nat
  | .kcons key (.kcons val rest) => 1 + count key + count val + countPairs rest
  | _ => 0
end

mutual
/-- The kinds `to_dot` lists (after the fix diffs). -/
def supported (dc : DCfg) : Pred Int → Bool
  | .and l r | .or l r | .xor l r => supported dc l && supported dc r
  | .not q | .all q | .any q => supported dc q
  | .inst ks => dc.instAll || !ks.isEmpty
  | .isNotNone | .isEmpty | .isNotEmpty => dc.optKinds
  | .leaf kind ps =>
    if kind = leafLazy then ps.length == 1
    else kind = leafThis || kind = leafRoot || kind = leafTee
  | .box kind _ kids =>
    if kind = boxComp then
      match kids with
      | .kcons q .knil => supported dc q
      | _ => false
    else if kind = boxDictOf then supportedPairs dc kids
    else false
  | .knil | .kcons _ _ => false
  | _ => true
def supportedPairs (dc : DCfg) : Pred Int → Bool
  | .knil => true
  | .kcons key (.kcons val rest) => supported dc key && supported dc val && supportedPairs dc rest
  | _ => false
end

end Dot
end PyPred
