/-
M4  Lexer / Parser model of `predicate/parser.py` (C14).

The implementation hands the text to a Lark Earley parser (dynamic lexer,
`ambiguity="resolve"`) over the ambiguous grammar

    predicate : expression | variable          variable : WORD        (WORD = [a-zA-Z]+)
    expression: "(" predicate ")" | predicate "|" predicate | predicate "&" predicate
              | predicate "^" predicate | "~" predicate | "false" | "true"
    %ignore " "

and turns the resulting tree into predicate objects (`_PredicateTransformer`;
`variable` is modelled after fixes/parser-names.diff: `name = str(item[0])`).
Lark's engine is not modelled.  What is modelled is its observable outcome:

* `lexChars` – the tokens a text has (maximal runs of ASCII letters are words,
  the words `true`/`false` are constants, `' '` is skipped, everything else rejects);
* `parse` – a total precedence parser which reproduces the tree Lark's
  resolution picks (`|` loosest, then `&`, then `^`, then `~`: the alternative
  order of the `expression` rule) up to the bracketing of chains of one operator,
  which Lark does not fix uniformly; the reference parser brackets them to the left
  and is compared modulo `assocNorm`;
* the specification side, independent of `parse`: `Rd` (the readings of a token
  list: every bracketing in which groups are sub-trees and `~` governs exactly
  the operand that follows), `Tg` (readings in which `|` is loosest in every
  group), `Faithful`, and the executable decision procedures `isReading`,
  `isTight`, `sameTable` that the driver evaluates on the implementation's tree.

No imports outside core Lean.
-/

namespace PyPred
namespace Parser

/-! ## Tokens and trees -/

inductive Token where
  | name (s : List Char)
  | tt | ff
  | not | and | or | xor
  | lp | rp
  deriving DecidableEq, Repr, Inhabited

inductive Tree where
  | var (s : List Char)
  | tt | ff
  | not (t : Tree)
  | and (l r : Tree)
  | or (l r : Tree)
  | xor (l r : Tree)
  deriving DecidableEq, Repr, Inhabited

/-! ## Lexer -/

/-- `common.LETTER`: `"a".."z" | "A".."Z"` (ASCII only). -/
def isLetter (c : Char) : Bool :=
  (97 ≤ c.toNat && c.toNat ≤ 122) || (65 ≤ c.toNat && c.toNat ≤ 90)

def trueW : List Char := ['t', 'r', 'u', 'e']
def falseW : List Char := ['f', 'a', 'l', 's', 'e']

/-- A maximal run of letters: the keywords are constants, anything else a name. -/
def word (w : List Char) : Token :=
  if w = trueW then .tt else if w = falseW then .ff else .name w

def sym (c : Char) : Option Token :=
  if c = '~' then some .not else if c = '&' then some .and else if c = '|' then some .or
  else if c = '^' then some .xor else if c = '(' then some .lp else if c = ')' then some .rp
  else none

/-- emit the pending word (if any) in front of `r` -/
def flush (acc : List Char) (r : List Token) : List Token :=
  if acc = [] then r else word acc :: r

/-- `lexGo acc cs`: `acc` is the run of letters read so far. -/
def lexGo : List Char → List Char → Option (List Token)
  | acc, [] => some (flush acc [])
  | acc, c :: cs =>
    if isLetter c then lexGo (acc ++ [c]) cs
    else match sym c with
      | some t => (lexGo [] cs).map (fun r => flush acc (t :: r))
      | none => if c = ' ' then (lexGo [] cs).map (flush acc) else none

def lexChars (cs : List Char) : Option (List Token) := lexGo [] cs

def lex (s : String) : Option (List Token) := lexChars s.toList

/-! ## The reference parser (what Lark's resolution produces) -/

abbrev P := List Token → Option (Tree × List Token)

/-- left-associative chain `acc (op sub)*`; the fuel bounds the number of operators -/
def chain (op : Token) (mk : Tree → Tree → Tree) (sub : P) : Nat → Tree → List Token → Option (Tree × List Token)
  | 0, _, _ => none
  | n + 1, acc, ts =>
    match ts with
    | [] => some (acc, [])
    | t :: r =>
      if t = op then
        match sub r with
        | some (x, r') => chain op mk sub n (mk acc x) r'
        | none => none
      else some (acc, t :: r)

/-- one precedence level: `sub (op sub)*` -/
def level (op : Token) (mk : Tree → Tree → Tree) (sub : P) : P := fun ts =>
  match sub ts with
  | some (x, r) => chain op mk sub (r.length + 1) x r
  | none => none

/-- operand: a name, a constant, `~ operand`, or a parenthesised expression -/
def unary (rec : P) : P
  | .name s :: r => some (.var s, r)
  | .tt :: r => some (.tt, r)
  | .ff :: r => some (.ff, r)
  | .not :: r =>
    match unary rec r with
    | some (t, r') => some (.not t, r')
    | none => none
  | .lp :: r =>
    match rec r with
    | some (t, .rp :: r') => some (t, r')
    | _ => none
  | _ => none

def xorLevel (rec : P) : P := level .xor .xor (unary rec)
def andLevel (rec : P) : P := level .and .and (xorLevel rec)
def orLevel (rec : P) : P := level .or .or (andLevel rec)

/-- the fuel bounds the nesting depth of parentheses -/
def expr : Nat → P
  | 0 => fun _ => none
  | n + 1 => orLevel (expr n)

def parse (ts : List Token) : Option Tree :=
  match expr (ts.length + 1) ts with
  | some (t, []) => some t
  | _ => none

/-- the whole of `parse_expression` on the text -/
def parseChars (cs : List Char) : Option Tree := (lexChars cs).bind parse

/-! ## Printing -/

def isWord : Token → Bool
  | .name _ | .tt | .ff => true
  | _ => false

def Token.chars : Token → List Char
  | .name s => s
  | .tt => trueW
  | .ff => falseW
  | .not => ['~']
  | .and => ['&']
  | .or => ['|']
  | .xor => ['^']
  | .lp => ['(']
  | .rp => [')']

/-- tokens with one blank between any two -/
def renderSp : List Token → List Char
  | [] => []
  | [t] => t.chars
  | t :: u :: r => t.chars ++ ' ' :: renderSp (u :: r)

/-- tokens with a blank only where two words would otherwise run together -/
def renderMin : List Token → List Char
  | [] => []
  | [t] => t.chars
  | t :: u :: r => if isWord t && isWord u then t.chars ++ ' ' :: renderMin (u :: r) else t.chars ++ renderMin (u :: r)

/-- every operand of a binary operator and of `~` that is not a leaf is parenthesised -/
def printFull : Tree → List Token
  | .var s => [.name s]
  | .tt => [.tt]
  | .ff => [.ff]
  | .not t => .not :: .lp :: printFull t ++ [.rp]
  | .and l r => .lp :: printFull l ++ .rp :: .and :: .lp :: printFull r ++ [.rp]
  | .or l r => .lp :: printFull l ++ .rp :: .or :: .lp :: printFull r ++ [.rp]
  | .xor l r => .lp :: printFull l ++ .rp :: .xor :: .lp :: printFull r ++ [.rp]

/-- leaves and operators of the tree, left to right -/
def inorder : Tree → List Token
  | .var s => [.name s]
  | .tt => [.tt]
  | .ff => [.ff]
  | .not t => .not :: inorder t
  | .and l r => inorder l ++ .and :: inorder r
  | .or l r => inorder l ++ .or :: inorder r
  | .xor l r => inorder l ++ .xor :: inorder r

def isParen : Token → Bool
  | .lp | .rp => true
  | _ => false

def noParens (ts : List Token) : List Token := ts.filter (fun t => !isParen t)

/-! ## Specification: readings of a token list -/

/-- `Rd true ts t`: `ts` is an *operand* (name, constant, group, `~` operand) read as `t`;
`Rd false ts t`: `ts` is an expression read as `t`.  Binary operators may be bracketed
in any way; a group is always a sub-tree; `~` takes exactly the operand that follows. -/
inductive Rd : Bool → List Token → Tree → Prop
  | name (s) : Rd true [.name s] (.var s)
  | tt : Rd true [.tt] .tt
  | ff : Rd true [.ff] .ff
  | grp {ts t} : Rd false ts t → Rd true (.lp :: ts ++ [.rp]) t
  | not {ts t} : Rd true ts t → Rd true (.not :: ts) (.not t)
  | up {ts t} : Rd true ts t → Rd false ts t
  | and {l r a b} : Rd false l a → Rd false r b → Rd false (l ++ .and :: r) (.and a b)
  | or {l r a b} : Rd false l a → Rd false r b → Rd false (l ++ .or :: r) (.or a b)
  | xor {l r a b} : Rd false l a → Rd false r b → Rd false (l ++ .xor :: r) (.xor a b)

/-- the expression language over tokens -/
def Reading (ts : List Token) (t : Tree) : Prop := Rd false ts t

/-- Tight readings: level 2 operand, level 1 any bracketing of `&`/`^` over operands,
level 0 any bracketing of `|` over level-1 phrases.  (`|` is loosest in every group;
nothing is said about `&` against `^` or about associativity.) -/
inductive Tg : Nat → List Token → Tree → Prop
  | name (s) : Tg 2 [.name s] (.var s)
  | tt : Tg 2 [.tt] .tt
  | ff : Tg 2 [.ff] .ff
  | grp {ts t} : Tg 0 ts t → Tg 2 (.lp :: ts ++ [.rp]) t
  | not {ts t} : Tg 2 ts t → Tg 2 (.not :: ts) (.not t)
  | up1 {ts t} : Tg 2 ts t → Tg 1 ts t
  | and {l r a b} : Tg 1 l a → Tg 1 r b → Tg 1 (l ++ .and :: r) (.and a b)
  | xor {l r a b} : Tg 1 l a → Tg 1 r b → Tg 1 (l ++ .xor :: r) (.xor a b)
  | up0 {ts t} : Tg 1 ts t → Tg 0 ts t
  | or {l r a b} : Tg 0 l a → Tg 0 r b → Tg 0 (l ++ .or :: r) (.or a b)

/-- The unambiguous precedence grammar of the reference parser: level 3 operand,
2 `^`-chain, 1 `&`-chain, 0 `|`-chain, all left-associative. -/
inductive Pr : Nat → List Token → Tree → Prop
  | name (s) : Pr 3 [.name s] (.var s)
  | tt : Pr 3 [.tt] .tt
  | ff : Pr 3 [.ff] .ff
  | grp {ts t} : Pr 0 ts t → Pr 3 (.lp :: ts ++ [.rp]) t
  | not {ts t} : Pr 3 ts t → Pr 3 (.not :: ts) (.not t)
  | up2 {ts t} : Pr 3 ts t → Pr 2 ts t
  | xor {l r a b} : Pr 2 l a → Pr 3 r b → Pr 2 (l ++ .xor :: r) (.xor a b)
  | up1 {ts t} : Pr 2 ts t → Pr 1 ts t
  | and {l r a b} : Pr 1 l a → Pr 2 r b → Pr 1 (l ++ .and :: r) (.and a b)
  | up0 {ts t} : Pr 1 ts t → Pr 0 ts t
  | or {l r a b} : Pr 0 l a → Pr 1 r b → Pr 0 (l ++ .or :: r) (.or a b)

/-! ## Truth tables -/

def eval (σ : List Char → Bool) : Tree → Bool
  | .var s => σ s
  | .tt => true
  | .ff => false
  | .not t => !(eval σ t)
  | .and l r => eval σ l && eval σ r
  | .or l r => eval σ l || eval σ r
  | .xor l r => eval σ l != eval σ r

/-- What C14 asks of the tree returned for the tokens `ts`. -/
def Faithful (ts : List Token) (t : Tree) : Prop :=
  Reading ts t ∧ ∃ t', Tg 0 ts t' ∧ ∀ σ, eval σ t' = eval σ t

def names : Tree → List (List Char)
  | .var s => [s]
  | .tt | .ff => []
  | .not t => names t
  | .and l r | .or l r | .xor l r => names l ++ names r

/-- all assignments that make exactly a sub-list of `ns` true -/
def assignments : List (List Char) → List (List (List Char))
  | [] => [[]]
  | n :: ns => (assignments ns).flatMap (fun a => [a, n :: a])

/-- the list without repeated members -/
def dedup : List (List Char) → List (List Char)
  | [] => []
  | a :: l => if (dedup l).contains a then dedup l else a :: dedup l

def sameTable (t u : Tree) : Bool :=
  (assignments (dedup (names t ++ names u))).all (fun a => eval (fun s => a.contains s) t == eval (fun s => a.contains s) u)

/-! ## Decision procedures for `Rd` / `Tg`

A matcher takes the tokens and returns every possible remainder after reading the
tree from the front of the list (several, because closing parentheses may or may
not belong to the phrase). -/

abbrev M := List Token → List (List Token)

def closeOne : M
  | .rp :: r => [r]
  | _ => []

def expect (op : Token) : M
  | t :: r => if t = op then [r] else []
  | [] => []

/-- `f` inside one or more pairs of parentheses -/
def grouped (f : M) : M
  | .lp :: r => (f r ++ grouped f r).flatMap closeOne
  | _ => []

/-- `f` inside zero or more pairs of parentheses -/
def withGroups (f : M) : M := fun ts => f ts ++ grouped f ts

def isBinary : Tree → Bool
  | .and _ _ | .or _ _ | .xor _ _ => true
  | _ => false

def seqOp (f : M) (op : Token) (g : M) : M := fun ts =>
  (f ts).flatMap (fun r => (expect op r).flatMap g)

/-- bare (not parenthesised at the outside) expression read as the tree -/
def bareE : Tree → M
  | .var s => fun ts => match ts with
    | .name s' :: r => if s = s' then [r] else []
    | _ => []
  | .tt => fun ts => match ts with
    | .tt :: r => [r]
    | _ => []
  | .ff => fun ts => match ts with
    | .ff :: r => [r]
    | _ => []
  | .not u => fun ts => match ts with
    | .not :: r => if isBinary u then grouped (bareE u) r else withGroups (bareE u) r
    | _ => []
  | .and a b => seqOp (withGroups (bareE a)) .and (withGroups (bareE b))
  | .or a b => seqOp (withGroups (bareE a)) .or (withGroups (bareE b))
  | .xor a b => seqOp (withGroups (bareE a)) .xor (withGroups (bareE b))

def rdE (t : Tree) : M := withGroups (bareE t)

def isReading (ts : List Token) (t : Tree) : Bool := (rdE t ts).contains []

/-- bare tight phrase: `lvl = 0` may have `|` at the top, `lvl = 1` may have `&`/`^`
at the top, leaves and `~` are allowed at both; anything parenthesised restarts at 0. -/
def bareT : Tree → Nat → M
  | .var s, _ => fun ts => match ts with
    | .name s' :: r => if s = s' then [r] else []
    | _ => []
  | .tt, _ => fun ts => match ts with
    | .tt :: r => [r]
    | _ => []
  | .ff, _ => fun ts => match ts with
    | .ff :: r => [r]
    | _ => []
  | .not u, _ => fun ts => match ts with
    | .not :: r => if isBinary u then grouped (bareT u 0) r else bareT u 1 r ++ grouped (bareT u 0) r
    | _ => []
  | .and a b, _ =>
    seqOp (fun ts => bareT a 1 ts ++ grouped (bareT a 0) ts) .and (fun ts => bareT b 1 ts ++ grouped (bareT b 0) ts)
  | .xor a b, _ =>
    seqOp (fun ts => bareT a 1 ts ++ grouped (bareT a 0) ts) .xor (fun ts => bareT b 1 ts ++ grouped (bareT b 0) ts)
  | .or a b, lvl =>
    if lvl = 0 then
      seqOp (fun ts => bareT a 0 ts ++ grouped (bareT a 0) ts) .or (fun ts => bareT b 0 ts ++ grouped (bareT b 0) ts)
    else fun _ => []

def isTight (ts : List Token) (t : Tree) : Bool :=
  (bareT t 0 ts ++ grouped (bareT t 0) ts).contains []

/-! ## Trees up to associativity of equal operators

Lark's resolution does not bracket chains of one operator uniformly (`a & b & c` is read
`(a & b) & c`, `a & b & c ^ d` is read `a & (b & (c ^ d))`), and the property says nothing
about it, so the reference parser is tied to the implementation modulo re-association of
directly nested equal operators: both trees are brought to left-comb form. -/

def appAnd (x : Tree) : Tree → Tree
  | .and y z => .and (appAnd x y) z
  | y => .and x y

def appOr (x : Tree) : Tree → Tree
  | .or y z => .or (appOr x y) z
  | y => .or x y

def appXor (x : Tree) : Tree → Tree
  | .xor y z => .xor (appXor x y) z
  | y => .xor x y

def assocNorm : Tree → Tree
  | .not t => .not (assocNorm t)
  | .and l r => appAnd (assocNorm l) (assocNorm r)
  | .or l r => appOr (assocNorm l) (assocNorm r)
  | .xor l r => appXor (assocNorm l) (assocNorm r)
  | t => t

def sameModAssoc (t u : Tree) : Bool := assocNorm t == assocNorm u

/-! ## A local characterisation of the language (used as a second acceptance oracle) -/

/-- two-state scanner: `true` = an operand is expected, `false` = an operand has just ended;
`d` = number of open parentheses -/
def scan : Bool → Nat → List Token → Bool
  | true, _, [] => false
  | false, d, [] => d == 0
  | true, d, t :: r =>
    match t with
    | .name _ | .tt | .ff => scan false d r
    | .not => scan true d r
    | .lp => scan true (d + 1) r
    | _ => false
  | false, d, t :: r =>
    match t with
    | .and | .or | .xor => scan true d r
    | .rp => match d with
      | 0 => false
      | d' + 1 => scan false d' r
    | _ => false

def wellFormed (ts : List Token) : Bool := scan true 0 ts

end Parser
end PyPred
