/-
Wire format of the line protocol: s-expressions for predicates (constants are
`Int`) and values.  Not a model of anything in py-predicate; it is part of the
correspondence harness (trusted base) and is compiled into the driver.
-/
import PyPred.Model.Core
import PyPred.Model.Optimize

namespace PyPred

inductive Sexp where
  | atom (s : String)
  | list (xs : List Sexp)
  deriving Inhabited, Repr

namespace Sexp

/-- Tokenise: parentheses and whitespace-separated atoms. -/
def tokens (s : String) : List String :=
  let rec go (cs : List Char) (cur : List Char) (acc : List String) : List String :=
    let flush (cur : List Char) (acc : List String) : List String :=
      if cur.isEmpty then acc else String.ofList cur.reverse :: acc
    match cs with
    | [] => (flush cur acc).reverse
    | c :: rest =>
      if c == '(' || c == ')' then go rest [] (String.singleton c :: flush cur acc)
      else if c == ' ' || c == '\t' || c == '\n' || c == '\r' then go rest [] (flush cur acc)
      else go rest (c :: cur) acc
  go s.toList [] []

/-- Parse one s-expression from a token list (fuel = number of tokens). -/
def parseToks : Nat → List String → Option (Sexp × List String)
  | 0, _ => none
  | _ + 1, [] => none
  | n + 1, t :: rest =>
    if t == "(" then
      let rec items (k : Nat) (ts : List String) (acc : List Sexp) : Option (Sexp × List String) :=
        match k with
        | 0 => none
        | k + 1 =>
          match ts with
          | [] => none
          | ")" :: rest' => some (.list acc.reverse, rest')
          | ts =>
            match parseToks n ts with
            | none => none
            | some (e, rest') => items k rest' (e :: acc)
      items (n + 1) rest []
    else if t == ")" then none
    else some (.atom t, rest)

/-- All s-expressions on a line. -/
def parseAll (s : String) : Option (List Sexp) :=
  let ts := tokens s
  let rec go (k : Nat) (ts : List String) (acc : List Sexp) : Option (List Sexp) :=
    match k with
    | 0 => if ts.isEmpty then some acc.reverse else none
    | k + 1 =>
      match ts with
      | [] => some acc.reverse
      | ts =>
        match parseToks (ts.length + 1) ts with
        | none => none
        | some (e, rest) => go k rest (e :: acc)
  go (ts.length + 1) ts []

partial def toString : Sexp → String
  | .atom s => s
  | .list xs => "(" ++ " ".intercalate (xs.map toString) ++ ")"

end Sexp

def sortDedupInt (s : List Int) : List Int :=
  let a := (s.toArray.qsort (· < ·)).toList
  let rec go : List Int → List Int
    | a :: b :: t => if a == b then go (b :: t) else a :: go (b :: t)
    | l => l
  go a

namespace Wire

def intAtom? : Sexp → Option Int
  | .atom s => s.toInt?
  | _ => none

def natAtom? : Sexp → Option Nat
  | .atom s => s.toNat?
  | _ => none

def ints? (xs : List Sexp) : Option (List Int) := xs.mapM intAtom?
def nats? (xs : List Sexp) : Option (List Nat) := xs.mapM natAtom?

partial def toPred : Sexp → Option (Pred Int)
  | .atom "tt" => some .tt
  | .atom "ff" => some .ff
  | .atom "none" => some .isNone
  | .atom "notnone" => some .isNotNone
  | .atom "truthy" => some .truthy
  | .atom "falsy" => some .falsy
  | .atom "empty" => some .isEmpty
  | .atom "notempty" => some .isNotEmpty
  | .atom "knil" => some .knil
  | .list [.atom "var", .atom n, .atom v] => some (.var n (v == "1"))
  | .list [.atom "fn", i] => do some (.fn (← natAtom? i))
  | .list [.atom "eq", v] => do some (.eq (← intAtom? v))
  | .list [.atom "ne", v] => do some (.ne (← intAtom? v))
  | .list [.atom "ge", v] => do some (.ge (← intAtom? v))
  | .list [.atom "gt", v] => do some (.gt (← intAtom? v))
  | .list [.atom "le", v] => do some (.le (← intAtom? v))
  | .list [.atom "lt", v] => do some (.lt (← intAtom? v))
  | .list [.atom "gele", a, b] => do some (.gele (← intAtom? a) (← intAtom? b))
  | .list [.atom "gelt", a, b] => do some (.gelt (← intAtom? a) (← intAtom? b))
  | .list [.atom "gtle", a, b] => do some (.gtle (← intAtom? a) (← intAtom? b))
  | .list [.atom "gtlt", a, b] => do some (.gtlt (← intAtom? a) (← intAtom? b))
  | .list (.atom "in" :: xs) => do some (.isin (← ints? xs))
  | .list (.atom "notin" :: xs) => do some (.notin (← ints? xs))
  | .list (.atom "subset" :: xs) => do some (.subset (← ints? xs))
  | .list (.atom "rsubset" :: xs) => do some (.rsubset (← ints? xs))
  | .list (.atom "superset" :: xs) => do some (.superset (← ints? xs))
  | .list (.atom "rsuperset" :: xs) => do some (.rsuperset (← ints? xs))
  | .list (.atom "inst" :: xs) => do some (.inst (← nats? xs))
  | .list (.atom "leaf" :: k :: xs) => do some (.leaf (← natAtom? k) (← ints? xs))
  | .list (.atom "box" :: k :: .list ps :: kids) => do
      let ks ← kids.mapM toPred
      some (.box (← natAtom? k) (← ints? ps) (ks.foldr .kcons .knil))
  | .list [.atom "and", l, r] => do some (.and (← toPred l) (← toPred r))
  | .list [.atom "or", l, r] => do some (.or (← toPred l) (← toPred r))
  | .list [.atom "xor", l, r] => do some (.xor (← toPred l) (← toPred r))
  | .list [.atom "not", p] => do some (.not (← toPred p))
  | .list [.atom "all", p] => do some (.all (← toPred p))
  | .list [.atom "any", p] => do some (.any (← toPred p))
  | _ => none

def a (s : String) : Sexp := .atom s
def i (n : Int) : Sexp := .atom (toString n)
def n (k : Nat) : Sexp := .atom (toString k)

/-- Canonical printing: set members sorted and deduplicated. -/
partial def ofPred : Pred Int → Sexp
  | .tt => a "tt" | .ff => a "ff"
  | .var nm v => .list [a "var", a nm, a (if v then "1" else "0")]
  | .fn k => .list [a "fn", n k]
  | .eq v => .list [a "eq", i v] | .ne v => .list [a "ne", i v]
  | .ge v => .list [a "ge", i v] | .gt v => .list [a "gt", i v]
  | .le v => .list [a "le", i v] | .lt v => .list [a "lt", i v]
  | .gele x y => .list [a "gele", i x, i y] | .gelt x y => .list [a "gelt", i x, i y]
  | .gtle x y => .list [a "gtle", i x, i y] | .gtlt x y => .list [a "gtlt", i x, i y]
  | .isin s => .list (a "in" :: (sortDedupInt s).map i)
  | .notin s => .list (a "notin" :: (sortDedupInt s).map i)
  | .subset s => .list (a "subset" :: (sortDedupInt s).map i)
  | .rsubset s => .list (a "rsubset" :: (sortDedupInt s).map i)
  | .superset s => .list (a "superset" :: (sortDedupInt s).map i)
  | .rsuperset s => .list (a "rsuperset" :: (sortDedupInt s).map i)
  | .isNone => a "none" | .isNotNone => a "notnone"
  | .truthy => a "truthy" | .falsy => a "falsy"
  | .isEmpty => a "empty" | .isNotEmpty => a "notempty"
  | .inst k => .list (a "inst" :: k.map n)
  | .leaf k ps => .list (a "leaf" :: n k :: ps.map i)
  | .box k ps c => .list (a "box" :: n k :: .list (ps.map i) :: kidsOf c)
  | .knil => a "knil"
  | .kcons h t => .list [a "kcons", ofPred h, ofPred t]
  | .and l r => .list [a "and", ofPred l, ofPred r]
  | .or l r => .list [a "or", ofPred l, ofPred r]
  | .xor l r => .list [a "xor", ofPred l, ofPred r]
  | .not p => .list [a "not", ofPred p]
  | .all p => .list [a "all", ofPred p]
  | .any p => .list [a "any", ofPred p]
where
  kidsOf : Pred Int → List Sexp
    | .kcons h t => ofPred h :: kidsOf t
    | _ => []

/-- Values: `(s TY CODE)` scalar, `(c TY V…)` collection. -/
partial def toVal : Sexp → Option (Val Int)
  | .list [.atom "s", ty, c] => do some (.sc (← natAtom? ty) (← intAtom? c))
  | .list (.atom "c" :: ty :: xs) => do some (.coll (← natAtom? ty) (← xs.mapM toVal))
  | _ => none

def modeOf : Char → Option Mode
  | 'i' => some .impl | 'o' => some .off | 'f' => some .fixed | _ => none

def quirkIndex : Quirk → Nat
  | .xorNotAnd => 0 | .xorOr => 1 | .xorAndUnguarded => 2 | .fnEq => 3
  | .instDisjoint => 4 | .anyTrue => 5 | .subsetEmpty => 6

def quirkName : Quirk → String
  | .xorNotAnd => "xorNotAnd" | .xorOr => "xorOr" | .xorAndUnguarded => "xorAndUnguarded"
  | .fnEq => "fnEq" | .instDisjoint => "instDisjoint" | .anyTrue => "anyTrue"
  | .subsetEmpty => "subsetEmpty"

/-- `"iiifoif"` → `Cfg`, in the order of `quirkIndex`. -/
def toCfg (s : String) : Option Cfg :=
  let cs := s.toList
  if cs.length != 7 then none
  else do
    let ms ← cs.mapM modeOf
    some fun q => ms.getD (quirkIndex q) .impl

end Wire

/-! ### The interpretation used by the driver (the harness builds the same one
on the Python side: `harness/lift.py`). -/

namespace DriverInterp

/-- Function atom `i` on the constant with code `v`. -/
def fnc (i : Nat) (v : Int) : Bool := (v + i) % 2 == 0

-- type tags
def tyNone := 0
def tyBool := 1
def tyInt := 2
def tyFloat := 3
def tyStr := 4
def tyList := 5
def tyTuple := 6
def tySet := 7
def tyDict := 8

/-- code of the empty string -/
def emptyStr : Int := 200000

/-- `isinstance(value of tag ty, class c)`; class ids in `harness/lift.py`. -/
def instTable (c ty : Nat) : Bool :=
  match c with
  | 0 => ty == tyBool
  | 1 => ty == tyInt || ty == tyBool
  | 2 => ty == tyFloat
  | 3 => ty == tyStr
  | 4 => ty == tyList
  | 5 => ty == tyTuple
  | 6 => ty == tySet
  | 7 => ty == tyDict
  | 8 => ty == tyStr || ty == tyList || ty == tyTuple || ty == tySet || ty == tyDict       -- Iterable
  | 9 => ty == tyStr || ty == tyList || ty == tyTuple || ty == tySet || ty == tyDict       -- Container
  | 10 => ty == tyNone || ty == tyBool || ty == tyInt || ty == tyFloat || ty == tyStr || ty == tyTuple  -- Hashable
  | 17 => ty == tyNone
  | _ => false

def tyOf : Val Int → Nat
  | .sc ty _ => ty
  | .coll ty _ => ty

def interp : Interp Int where
  var := fun _ v => v
  fn := fun i x =>
    match x with
    | .sc _ a => fnc i a
    | .coll _ xs => (xs.length + i) % 2 == 0
  inst := fun c x => instTable c (tyOf x)
  isNone := fun x => tyOf x == tyNone
  truthy := fun x =>
    match x with
    | .sc ty a => if ty == tyNone then false else if ty == tyStr then a != emptyStr else a != 0
    | .coll _ xs => !xs.isEmpty
  leaf := fun _ _ _ => false
  box := fun _ _ _ _ => false

end DriverInterp

end PyPred
