/-
M2 `PyVal` — a concrete universe of Python values and the reference semantics of
the built-in atomic predicates of py-predicate over it.

No import outside core Lean: this file is compiled into `driver_pyval`.

What is modelled (Python 3.12 semantics of the built-in types only):
  * `==` across the numeric tower (`True == 1 == 1.0`), element-wise on lists and
    tuples, by mutual inclusion on sets and dicts;
  * the partial orders `<`, `<=`, `>`, `>=` with `TypeError` as an explicit outcome
    (numbers with numbers, str with str, list with list and tuple with tuple
    lexicographically, set with set by inclusion, everything else raises);
  * truthiness, `len`, iteration, `in` on sets and dict keys (with the hashability
    `TypeError`), the `isinstance` lattice of the classes the library exports,
    ASCII string classification, literal-prefix matching.
Source anchors: predicate/predicate.py, range_predicate.py, set_predicates.py,
is_instance_predicate.py, has_key_predicate.py, has_length_predicate.py,
regex_predicate.py, str_predicates.py, standard_predicates.py.
-/
namespace PyPred

/-- Exception classes that can be observed. -/
inductive Err where
  | typeError | attributeError | valueError | indexError | keyError | zeroDivisionError
  | other (n : Nat)
  deriving DecidableEq, Repr, Inhabited

/-- Result of calling a predicate: it returned a bool, or it raised. -/
inductive Outcome where
  | ok (b : Bool)
  | raised (e : Err)
  deriving DecidableEq, Repr, Inhabited

def Outcome.isOk : Outcome → Bool
  | .ok _ => true
  | .raised _ => false

/-- Python values.  `flt twice` is the float `twice / 2`; `str` carries code points;
a `dict` is the list of its items, each a 2-`tuple [key, value]`; `obj cls id` is an
opaque object (`cls`: 0 `object()`, 1 function, 2 Predicate instance, 3 complex,
4 datetime, 5 UUID), equal only to itself.  Sets and dict keys are expected to be
duplicate-free up to `==`, as Python keeps them. -/
inductive PyVal where
  | none
  | bool (b : Bool)
  | int (n : Int)
  | flt (twice : Int)
  | str (cs : List Nat)
  | list (xs : List PyVal)
  | tuple (xs : List PyVal)
  | set (xs : List PyVal)
  | dict (items : List PyVal)
  | obj (cls : Nat) (id : Nat)
  deriving Inhabited, Repr

namespace PyVal

/-- Twice the numeric value of a member of the numeric tower. -/
def num2 : PyVal → Option Int
  | .bool b => some (if b then 2 else 0)
  | .int n => some (2 * n)
  | .flt t => some t
  | _ => Option.none

mutual
/-- Python `x == y` on the built-in types. -/
def pyEq : PyVal → PyVal → Bool
  | .none, .none => true
  | .str a, .str b => a == b
  | .list xs, .list ys => eqL xs ys
  | .tuple xs, .tuple ys => eqL xs ys
  | .set xs, .set ys => subL xs ys && ys.all (fun y => anyL xs y)
  | .dict xs, .dict ys => subL xs ys && ys.all (fun y => anyL xs y)
  | .obj c i, .obj d j => c == d && i == j
  | .bool a, y => num2 y == some (if a then 2 else 0)
  | .int a, y => num2 y == some (2 * a)
  | .flt a, y => num2 y == some a
  | _, _ => false
termination_by structural x => x
/-- Element-wise equality of sequences. -/
def eqL : List PyVal → List PyVal → Bool
  | [], [] => true
  | a :: as, b :: bs => pyEq a b && eqL as bs
  | _, _ => false
termination_by structural x => x
/-- Every member of the first list is `==` to some member of the second. -/
def subL : List PyVal → List PyVal → Bool
  | [], _ => true
  | a :: as, ys => ys.any (fun y => pyEq a y) && subL as ys
termination_by structural x => x
/-- Some member of the list is `==` to `y`. -/
def anyL : List PyVal → PyVal → Bool
  | [], _ => false
  | a :: as, y => pyEq a y || anyL as y
termination_by structural x => x
end

/-- `xs ⊇ ys` up to `==`. -/
def supL (xs ys : List PyVal) : Bool := ys.all (fun y => anyL xs y)

/-- Result of a three-way comparison; `un` = unordered (two sets neither of which
includes the other). -/
inductive Cmp where
  | lt | eq | gt | un
  deriving DecidableEq, Repr, Inhabited

def Cmp.flip : Cmp → Cmp
  | .lt => .gt | .gt => .lt | c => c
def Cmp.isLt : Cmp → Bool | .lt => true | _ => false
def Cmp.isLe : Cmp → Bool | .lt | .eq => true | _ => false
def Cmp.isGt : Cmp → Bool | .gt => true | _ => false
def Cmp.isGe : Cmp → Bool | .gt | .eq => true | _ => false

def cmpInt (a b : Int) : Cmp := if a < b then .lt else if b < a then .gt else .eq

/-- Lexicographic order on code-point sequences (`str`). -/
def cmpStr : List Nat → List Nat → Cmp
  | [], [] => .eq
  | [], _ :: _ => .lt
  | _ :: _, [] => .gt
  | a :: as, b :: bs => if a < b then .lt else if b < a then .gt else cmpStr as bs

/-- Inclusion order on sets from the two inclusion tests. -/
def cmpIncl (sub sup : Bool) : Cmp :=
  match sub, sup with
  | true, true => .eq
  | true, false => .lt
  | false, true => .gt
  | false, false => .un

mutual
/-- Three-way comparison behind `<`, `<=`, `>`, `>=`; `none` = `TypeError`. -/
def pyCmp : PyVal → PyVal → Option Cmp
  | .str a, .str b => some (cmpStr a b)
  | .list xs, .list ys => cmpL xs ys
  | .tuple xs, .tuple ys => cmpL xs ys
  | .set xs, .set ys => some (cmpIncl (subL xs ys) (supL xs ys))
  | .bool a, y => (num2 y).map (cmpInt (if a then 2 else 0))
  | .int a, y => (num2 y).map (cmpInt (2 * a))
  | .flt a, y => (num2 y).map (cmpInt a)
  | _, _ => Option.none
termination_by structural x => x
/-- Sequences: the first pair of items that are not `==` decides (with the operator
applied to those items); if there is none, the lengths decide. -/
def cmpL : List PyVal → List PyVal → Option Cmp
  | [], [] => some .eq
  | [], _ :: _ => some .lt
  | _ :: _, [] => some .gt
  | a :: as, b :: bs => if pyEq a b then cmpL as bs else pyCmp a b
termination_by structural x => x
end

def ofCmp (f : Cmp → Bool) : Option Cmp → Outcome
  | some c => .ok (f c)
  | Option.none => .raised .typeError

/-- `a <= b`, `a < b`, `a >= b`, `a > b`. -/
def pyLe (a b : PyVal) : Outcome := ofCmp Cmp.isLe (pyCmp a b)
def pyLt (a b : PyVal) : Outcome := ofCmp Cmp.isLt (pyCmp a b)
def pyGe (a b : PyVal) : Outcome := ofCmp Cmp.isGe (pyCmp a b)
def pyGt (a b : PyVal) : Outcome := ofCmp Cmp.isGt (pyCmp a b)

/-- `bool(x)`. -/
def truthy : PyVal → Bool
  | .none => false
  | .bool b => b
  | .int n => n != 0
  | .flt t => t != 0
  | .str cs => !cs.isEmpty
  | .list xs => !xs.isEmpty
  | .tuple xs => !xs.isEmpty
  | .set xs => !xs.isEmpty
  | .dict xs => !xs.isEmpty
  | .obj _ _ => true

/-- First / second component of a dict item. -/
def itemKey : PyVal → PyVal
  | .tuple (k :: _) => k
  | _ => .none
def itemVal : PyVal → PyVal
  | .tuple (_ :: v :: _) => v
  | _ => .none

/-- What `iter(x)` yields (`none` = not iterable, `TypeError`). -/
def iterElems : PyVal → Option (List PyVal)
  | .str cs => some (cs.map (fun c => .str [c]))
  | .list xs => some xs
  | .tuple xs => some xs
  | .set xs => some xs
  | .dict items => some (items.map itemKey)
  | _ => Option.none

/-- `len(x)` (`none` = `TypeError`). -/
def pyLen : PyVal → Option Nat
  | .str cs => some cs.length
  | .list xs => some xs.length
  | .tuple xs => some xs.length
  | .set xs => some xs.length
  | .dict xs => some xs.length
  | _ => Option.none

mutual
/-- `hash(x)` succeeds. -/
def hashable : PyVal → Bool
  | .list _ => false
  | .set _ => false
  | .dict _ => false
  | .tuple xs => hashableL xs
  | .obj c _ => c != 2
  | _ => true
termination_by structural x => x
def hashableL : List PyVal → Bool
  | [] => true
  | a :: as => hashable a && hashableL as
termination_by structural x => x
end

/-- `x in s` for a set `s` given by its members: an unhashable `x` raises, except
that a `set` is looked up as the corresponding frozenset. -/
def setContains (s : List PyVal) (x : PyVal) : Outcome :=
  match x with
  | .set _ => .ok (s.any (fun y => pyEq x y))
  | _ => if hashable x then .ok (s.any (fun y => pyEq x y)) else .raised .typeError

/-- `k in d.keys()`: no frozenset fallback. -/
def keysContain (keys : List PyVal) (k : PyVal) : Outcome :=
  if hashable k then .ok (keys.any (fun y => pyEq k y)) else .raised .typeError

/-- The classes `is_instance_p` is used with in the library. -/
inductive Klass where
  | bool | int | float | str | list | tuple | set | dict | complex | datetime | uuid | range
  | predicate | iterable | container | hashable | callable | object | noneType
  deriving DecidableEq, Repr, Inhabited

/-- `isinstance(x, k)`. -/
def isInst : Klass → PyVal → Bool
  | .object, _ => true
  | .noneType, .none => true
  | .bool, .bool _ => true
  | .int, .bool _ => true
  | .int, .int _ => true
  | .float, .flt _ => true
  | .str, .str _ => true
  | .list, .list _ => true
  | .tuple, .tuple _ => true
  | .set, .set _ => true
  | .dict, .dict _ => true
  | .complex, .obj 3 _ => true
  | .datetime, .obj 4 _ => true
  | .uuid, .obj 5 _ => true
  | .predicate, .obj 2 _ => true
  | .callable, .obj 1 _ => true
  | .callable, .obj 2 _ => true
  | .iterable, .str _ => true
  | .iterable, .list _ => true
  | .iterable, .tuple _ => true
  | .iterable, .set _ => true
  | .iterable, .dict _ => true
  | .container, .str _ => true
  | .container, .list _ => true
  | .container, .tuple _ => true
  | .container, .set _ => true
  | .container, .dict _ => true
  | .hashable, .none => true
  | .hashable, .bool _ => true
  | .hashable, .int _ => true
  | .hashable, .flt _ => true
  | .hashable, .str _ => true
  | .hashable, .tuple _ => true
  | .hashable, .obj c _ => c != 2
  | _, _ => false

end PyVal

/-! ### ASCII string classification (`str.isalpha` … on code points < 128) -/
namespace Ascii

def isUpper (c : Nat) : Bool := 65 ≤ c && c ≤ 90
def isLower (c : Nat) : Bool := 97 ≤ c && c ≤ 122
def isAlpha (c : Nat) : Bool := isUpper c || isLower c
def isDigit (c : Nat) : Bool := 48 ≤ c && c ≤ 57
def isAlnum (c : Nat) : Bool := isAlpha c || isDigit c
def isSpace (c : Nat) : Bool := (9 ≤ c && c ≤ 13) || (28 ≤ c && c ≤ 32)
def isPrintable (c : Nat) : Bool := 32 ≤ c && c ≤ 126
def isAscii (c : Nat) : Bool := c < 128

/-- `str.istitle`: scan with "previous character is cased" and "seen a cased character". -/
def titleScan : List Nat → Bool → Bool → Bool
  | [], _, cased => cased
  | c :: cs, prev, cased =>
    if isUpper c then (if prev then false else titleScan cs true true)
    else if isLower c then (if prev then titleScan cs true true else false)
    else titleScan cs false cased

inductive StrKind where
  | alnum | alpha | ascii | decimal | digit | identifier | lower | numeric | printable
  | space | title | upper
  deriving DecidableEq, Repr, Inhabited

def classify : StrKind → List Nat → Bool
  | .alnum, cs => !cs.isEmpty && cs.all isAlnum
  | .alpha, cs => !cs.isEmpty && cs.all isAlpha
  | .ascii, cs => cs.all isAscii
  | .decimal, cs => !cs.isEmpty && cs.all isDigit
  | .digit, cs => !cs.isEmpty && cs.all isDigit
  | .numeric, cs => !cs.isEmpty && cs.all isDigit
  | .identifier, [] => false
  | .identifier, c :: cs => (isAlpha c || c == 95) && cs.all (fun d => isAlnum d || d == 95)
  | .lower, cs => cs.any isLower && !cs.any isUpper
  | .upper, cs => cs.any isUpper && !cs.any isLower
  | .printable, cs => cs.all isPrintable
  | .space, cs => !cs.isEmpty && cs.all isSpace
  | .title, cs => titleScan cs false false

end Ascii

/-- `pat` is a prefix of `s`. -/
def isPrefix : List Nat → List Nat → Bool
  | [], _ => true
  | _ :: _, [] => false
  | a :: as, b :: bs => a == b && isPrefix as bs

def isSuffix (pat s : List Nat) : Bool := isPrefix pat.reverse s.reverse

open PyVal in
/-- The built-in atomic predicates, parameters as Python values. -/
inductive Atom where
  | tt | ff
  | eq (v : PyVal) | ne (v : PyVal)
  | ge (v : PyVal) | gt (v : PyVal) | le (v : PyVal) | lt (v : PyVal)
  | gele (lo hi : PyVal) | gelt (lo hi : PyVal) | gtle (lo hi : PyVal) | gtlt (lo hi : PyVal)
  | isin (s : List PyVal) | notin (s : List PyVal)
  | subset (s : PyVal) | rsubset (s : PyVal) | superset (s : PyVal) | rsuperset (s : PyVal)
  | isNone | isNotNone | truthy | falsy | isEmpty | isNotEmpty
  | inst (ks : List Klass)
  | hasKey (k : PyVal)
  | hasLength (n : PyVal)
  | regex (pat : List Nat)
  | strTest (k : Ascii.StrKind)
  | startsWith (s : List Nat) | endsWith (s : List Nat)
  | isFinite | isInf | isNan
  deriving Inhabited, Repr

/-- Sequential `and` on outcomes: the right operand is only consulted when the left
returned `True` (`a and b`, chained comparisons). -/
def Outcome.andThen (a : Outcome) (b : Outcome) : Outcome :=
  match a with
  | .ok true => b
  | o => o

def Outcome.orElse (a : Outcome) (b : Outcome) : Outcome :=
  match a with
  | .ok false => b
  | o => o

def Outcome.not : Outcome → Outcome
  | .ok b => .ok (!b)
  | o => o

open PyVal in
/-- Reference semantics of the atoms: what each class's `__call__` computes. -/
def atomSem : Atom → PyVal → Outcome
  | .tt, _ => .ok true
  | .ff, _ => .ok false
  | .eq v, x => .ok (pyEq x v)
  | .ne v, x => .ok (!pyEq x v)
  | .ge v, x => pyGe x v
  | .gt v, x => pyGt x v
  | .le v, x => pyLe x v
  | .lt v, x => pyLt x v
  | .gele lo hi, x => (pyLe lo x).andThen (pyLe x hi)
  | .gelt lo hi, x => (pyLe lo x).andThen (pyLt x hi)
  | .gtle lo hi, x => (pyLt lo x).andThen (pyLe x hi)
  | .gtlt lo hi, x => (pyLt lo x).andThen (pyLt x hi)
  | .isin s, x => setContains s x
  | .notin s, x => (setContains s x).not
  | .subset s, x => pyLe x s
  | .rsubset s, x => pyLt x s
  | .superset s, x => pyGe x s
  | .rsuperset s, x => pyGt x s
  | .isNone, x => .ok (match x with | .none => true | _ => false)
  | .isNotNone, x => .ok (match x with | .none => false | _ => true)
  | .truthy, x => .ok (truthy x)
  | .falsy, x => .ok (!truthy x)
  | .isEmpty, x => match iterElems x with
    | some xs => .ok xs.isEmpty
    | Option.none => .raised .typeError
  | .isNotEmpty, x => match iterElems x with
    | some xs => .ok (!xs.isEmpty)
    | Option.none => .raised .typeError
  | .inst ks, x => .ok (ks.any (fun k => isInst k x))
  | .hasKey k, x => match x with
    | .dict items => keysContain (items.map itemKey) k
    | _ => .raised .attributeError
  | .hasLength n, x => match iterElems x with
    | some xs => .ok (pyEq (.int xs.length) n)
    | Option.none => .raised .typeError
  | .regex pat, x => match x with
    | .str cs => .ok (isPrefix pat cs)
    | _ => .raised .typeError
  | .strTest k, x => match x with
    | .str cs => .ok (Ascii.classify k cs)
    | _ => .raised .typeError
  | .startsWith s, x => match x with
    | .str cs => .ok (isPrefix s cs)
    | _ => .raised .attributeError
  | .endsWith s, x => match x with
    | .str cs => .ok (isSuffix s cs)
    | _ => .raised .attributeError
  | .isFinite, x => match num2 x with
    | some _ => .ok true
    | Option.none => .raised .typeError
  | .isInf, x => match num2 x with
    | some _ => .ok false
    | Option.none => .raised .typeError
  | .isNan, x => match num2 x with
    | some _ => .ok false
    | Option.none => .raised .typeError

end PyPred
