/-
M1 `Core` — the predicate algebra of py-predicate: the tree type, Python `==`
(`beq`), `negate`, `implies` and the (totalised) evaluation semantics.

No import outside core Lean: this file is also compiled into the driver.
Source anchors: predicate/predicate.py, set_predicates.py, range_predicate.py,
is_instance_predicate.py, named_predicate.py, negate.py, implies.py.
-/
namespace PyPred

/-- Predicate trees.  `V` is the type of constants.  `leaf`/`box` cover every
exported atom the optimizer treats as opaque (has_key, has_length, regex, lazy,
this, root, tee, property, … / comp, tuple_of, set_of, dict_of); `knil`/`kcons`
encode the child list of a `box` without a nested inductive. -/
inductive Pred (V : Type) where
  | tt | ff
  | var (name : String) (v : Bool)
  | fn (id : Nat)
  | eq (v : V) | ne (v : V) | ge (v : V) | gt (v : V) | le (v : V) | lt (v : V)
  | gele (lo hi : V) | gelt (lo hi : V) | gtle (lo hi : V) | gtlt (lo hi : V)
  | isin (s : List V) | notin (s : List V)
  | subset (s : List V) | rsubset (s : List V) | superset (s : List V) | rsuperset (s : List V)
  | isNone | isNotNone | truthy | falsy | isEmpty | isNotEmpty
  | inst (klass : List Nat)
  | leaf (kind : Nat) (params : List Int)
  | box (kind : Nat) (params : List Int) (kids : Pred V)
  | knil | kcons (h t : Pred V)
  | and (l r : Pred V) | or (l r : Pred V) | xor (l r : Pred V)
  | not (p : Pred V) | all (p : Pred V) | any (p : Pred V)
  deriving Repr, Inhabited

/-- Values: a scalar constant or a finite re-iterable collection.  `ty` is a
run-time type tag (bool / int / float / str / list / tuple / set …) that only the
uninterpreted part of the semantics (`Interp.inst`, `isNone`, `truthy`, `fn`) may
read: `True`, `1` and `1.0` carry the same constant and different tags, exactly
as they are `==` and distinguishable in Python. -/
inductive Val (V : Type) where
  | sc (ty : Nat) (a : V)
  | coll (ty : Nat) (xs : List (Val V))
  deriving Inhabited

def Val.elems {V : Type} : Val V → List (Val V)
  | .sc _ _ => []
  | .coll _ xs => xs

/-- The uninterpreted part of the semantics. -/
structure Interp (V : Type) where
  var : String → Bool → Bool
  fn : Nat → Val V → Bool
  inst : Nat → Val V → Bool
  isNone : Val V → Bool
  truthy : Val V → Bool
  leaf : Nat → List Int → Val V → Bool
  box : Nat → List Int → List (Val V → Bool) → Val V → Bool

section Sets
variable {V : Type} [DecidableEq V]

/-- Python sets are modelled as lists read up to membership. -/
def subsetL (s t : List V) : Bool := s.all (fun a => t.contains a)
def seteq (s t : List V) : Bool := subsetL s t && subsetL t s
def inter (s t : List V) : List V := s.filter (fun a => t.contains a)
def diff (s t : List V) : List V := s.filter (fun a => !t.contains a)
def union (s t : List V) : List V := s ++ t.filter (fun a => !s.contains a)
def symdiff (s t : List V) : List V := diff s t ++ diff t s

/-- Distinct members, first occurrence kept (`len(set)` is `(dedup s).length`). -/
def dedup : List V → List V
  | [] => []
  | a :: t => a :: (dedup t).filter (fun b => b != a)

end Sets

section Algebra
variable {V : Type} [DecidableEq V]

/-- Python `==` on predicates: dataclass field equality, sets by mutual
inclusion, `&`, `|`, `^` unordered (the three hand-written `__eq__`). -/
def Pred.beq : Pred V → Pred V → Bool
  | .tt, .tt => true
  | .ff, .ff => true
  | .var n v, .var m w => n == m && v == w
  | .fn i, .fn j => i == j
  | .eq v, .eq w => v == w
  | .ne v, .ne w => v == w
  | .ge v, .ge w => v == w
  | .gt v, .gt w => v == w
  | .le v, .le w => v == w
  | .lt v, .lt w => v == w
  | .gele a b, .gele c d => a == c && b == d
  | .gelt a b, .gelt c d => a == c && b == d
  | .gtle a b, .gtle c d => a == c && b == d
  | .gtlt a b, .gtlt c d => a == c && b == d
  | .isin s, .isin t => seteq s t
  | .notin s, .notin t => seteq s t
  | .subset s, .subset t => seteq s t
  | .rsubset s, .rsubset t => seteq s t
  | .superset s, .superset t => seteq s t
  | .rsuperset s, .rsuperset t => seteq s t
  | .isNone, .isNone => true
  | .isNotNone, .isNotNone => true
  | .truthy, .truthy => true
  | .falsy, .falsy => true
  | .isEmpty, .isEmpty => true
  | .isNotEmpty, .isNotEmpty => true
  | .inst k, .inst k' => k == k'
  | .leaf k ps, .leaf k' ps' => k == k' && ps == ps'
  | .box k ps c, .box k' ps' c' => k == k' && ps == ps' && Pred.beq c c'
  | .knil, .knil => true
  | .kcons h t, .kcons h' t' => Pred.beq h h' && Pred.beq t t'
  | .and a b, .and c d => (Pred.beq a c && Pred.beq b d) || (Pred.beq a d && Pred.beq b c)
  | .or a b, .or c d => (Pred.beq a c && Pred.beq b d) || (Pred.beq a d && Pred.beq b c)
  | .xor a b, .xor c d => (Pred.beq a c && Pred.beq b d) || (Pred.beq a d && Pred.beq b c)
  | .not p, .not q => Pred.beq p q
  | .all p, .all q => Pred.beq p q
  | .any p, .any q => Pred.beq p q
  | _, _ => false

/-- `negate` (predicate/negate.py): 18 registered duals, default `~p`. -/
def negate : Pred V → Pred V
  | .not q => q
  | .ff => .tt
  | .tt => .ff
  | .falsy => .truthy
  | .truthy => .falsy
  | .eq v => .ne v
  | .ne v => .eq v
  | .gt v => .le v
  | .ge v => .lt v
  | .isin s => .notin s
  | .notin s => .isin s
  | .lt v => .ge v
  | .le v => .gt v
  | .isNone => .isNotNone
  | .isNotNone => .isNone
  | .isEmpty => .isNotEmpty
  | .isNotEmpty => .isEmpty
  | p => .not p

variable [LT V] [LE V] [DecidableLT V] [DecidableLE V]

/-- `implies` (predicate/implies.py), clause for clause. -/
def implies : Pred V → Pred V → Bool
  | .ff, _ => true
  | .tt, q => Pred.beq q .tt
  | .and a b, q => Pred.beq q a || Pred.beq q b
  | .ge v, .ge w => decide (w ≤ v)
  | .ge v, .gt w => decide (w < v)
  | .gt v, .ge w => decide (w ≤ v)
  | .gt v, .gt w => decide (w ≤ v)
  | .eq v, .eq w => v == w
  | .eq v, .ne w => v != w
  | .eq v, .ge w => decide (w ≤ v)
  | .eq v, .gt w => decide (w < v)
  | .eq v, .isin s => s.contains v
  | .eq v, .notin s => !s.contains v
  | .rsubset s, .subset t => seteq s t
  | .rsuperset s, .superset t => seteq s t
  | .isin s, .isin t => subsetL s t
  | _, _ => false

/-- A scalar test lifted to values; collections fail it. -/
def onSc (f : V → Bool) : Val V → Bool
  | .sc _ a => f a
  | .coll _ _ => false

/-- Is the scalar `a` among the elements of `x`? -/
def hasSc (x : Val V) (a : V) : Bool := x.elems.any (onSc (fun b => b == a))

/-- `x ⊆ s` for a collection `x` of scalars (non-scalar elements are not in `s`). -/
def subOf (x : Val V) (s : List V) : Bool := x.elems.all (onSc (fun a => s.contains a))
/-- `s ⊆ x`. -/
def supOf (x : Val V) (s : List V) : Bool := s.all (hasSc x)

mutual
/-- Evaluation.  Order atoms on a non-scalar and collection atoms on a scalar are
totalised (`ge`/`gt` false, `le`/`lt` their complements, a scalar has no
elements); the correspondence only compares on values Python accepts. -/
def eval (I : Interp V) : Pred V → Val V → Bool
  | .tt, _ => true
  | .ff, _ => false
  | .var n v, _ => I.var n v
  | .fn i, x => I.fn i x
  | .eq v, x => onSc (fun a => a == v) x
  | .ne v, x => !onSc (fun a => a == v) x
  | .ge v, x => onSc (fun a => decide (v ≤ a)) x
  | .gt v, x => onSc (fun a => decide (v < a)) x
  | .le v, x => !onSc (fun a => decide (v < a)) x
  | .lt v, x => !onSc (fun a => decide (v ≤ a)) x
  | .gele lo hi, x => onSc (fun a => decide (lo ≤ a)) x && !onSc (fun a => decide (hi < a)) x
  | .gelt lo hi, x => onSc (fun a => decide (lo ≤ a)) x && !onSc (fun a => decide (hi ≤ a)) x
  | .gtle lo hi, x => onSc (fun a => decide (lo < a)) x && !onSc (fun a => decide (hi < a)) x
  | .gtlt lo hi, x => onSc (fun a => decide (lo < a)) x && !onSc (fun a => decide (hi ≤ a)) x
  | .isin s, x => onSc (fun a => s.contains a) x
  | .notin s, x => !onSc (fun a => s.contains a) x
  | .subset s, x => subOf x s
  | .rsubset s, x => subOf x s && !supOf x s
  | .superset s, x => supOf x s
  | .rsuperset s, x => supOf x s && !subOf x s
  | .isNone, x => I.isNone x
  | .isNotNone, x => !I.isNone x
  | .truthy, x => I.truthy x
  | .falsy, x => !I.truthy x
  | .isEmpty, x => x.elems.isEmpty
  | .isNotEmpty, x => !x.elems.isEmpty
  | .inst k, x => k.any (fun c => I.inst c x)
  | .leaf k ps, x => I.leaf k ps x
  | .box k ps c, x => I.box k ps (kidsSem I c) x
  | .knil, _ => false
  | .kcons _ _, _ => false
  | .and l r, x => eval I l x && eval I r x
  | .or l r, x => eval I l x || eval I r x
  | .xor l r, x => eval I l x != eval I r x
  | .not p, x => !eval I p x
  | .all p, x => x.elems.all (fun y => eval I p y)
  | .any p, x => x.elems.any (fun y => eval I p y)
/-- The meanings of the children of a `box`. -/
def kidsSem (I : Interp V) : Pred V → List (Val V → Bool)
  | .kcons h t => eval I h :: kidsSem I t
  | _ => []
end

end Algebra

section Shape
variable {V : Type}

def Pred.size : Pred V → Nat
  | .box _ _ c => 1 + c.size
  | .kcons h t => 1 + h.size + t.size
  | .and l r => 1 + l.size + r.size
  | .or l r => 1 + l.size + r.size
  | .xor l r => 1 + l.size + r.size
  | .not p => 1 + p.size
  | .all p => 1 + p.size
  | .any p => 1 + p.size
  | _ => 1

/-- Propositional trees: variables, constants and `& | ^ ~`. -/
def Pred.isProp : Pred V → Bool
  | .tt | .ff | .var _ _ => true
  | .and l r | .or l r | .xor l r => l.isProp && r.isProp
  | .not p => p.isProp
  | _ => false

/-- Variable names occurring in a tree (with repetitions, left to right). -/
def Pred.names : Pred V → List String
  | .var n _ => [n]
  | .box _ _ c => c.names
  | .kcons h t => h.names ++ t.names
  | .and l r | .or l r | .xor l r => l.names ++ r.names
  | .not p | .all p | .any p => p.names
  | _ => []

/-- Atoms: everything that is not a connective, a quantifier or list plumbing. -/
def Pred.isAtom : Pred V → Bool
  | .and _ _ | .or _ _ | .xor _ _ | .not _ | .all _ | .any _ | .knil | .kcons _ _ => false
  | _ => true

end Shape

end PyPred
