/-
M6 (part 1) `GenVal` — the value universe of the generators and the reference
evaluator `evalG` of the predicate kinds that `generate_true` / `generate_false`
support.

No import outside core Lean (compiled into `driver_gen`).

`GVal` is the universe of `Model/PyVal.lean` with *exact* numbers and the scalar types
the generators produce:
  * `flt k` is the finite IEEE-754 double `k · 2^-1074` (every finite double is such a
    multiple; Python: `int(Fraction(x) * 2**1074)`), so `int n` is compared with it as
    `n · 2^1074` — exactly what CPython's mixed int/float comparison computes;
  * `dt us` a naive `datetime` as microseconds from an arbitrary origin (only
    `± timedelta(days=k)`, `==` and `<` are used); `uuid n` the 128-bit integer of a `UUID`;
    `cplx re im` a complex number with integer parts (only `complex(1, 1)` is generated).
The definitions of `==`, the partial order, truthiness, hashing, `isinstance` are those of
`PyVal.lean` (C08's reference semantics), extended to the three scalar types; `Outcome`,
`Err`, `Cmp`, `Klass` are re-used from there.
`inf neg` is the float `+inf` (`neg = false`) or `-inf`: `math.nextafter` at the largest double
yields it, so `generate_true(gt_p(sys.float_info.max))` produces it.  It is larger (smaller) than
every member of the real numeric tower, whatever its magnitude (CPython compares an int with an
infinite float by sign), equal only to itself, truthy, hashable, an instance of `float`.
Not in the universe: NaN, opaque objects.
-/
import PyPred.Model.PyVal

namespace PyPred
namespace Gen

open PyVal (Cmp cmpInt cmpStr cmpIncl ofCmp Klass)

/-- `2^1074`: the number of float units in `1`. -/
def scale : Int := 2 ^ 1074

inductive GVal where
  | none
  | bool (b : Bool)
  | int (n : Int)
  | flt (k : Int)
  | str (cs : List Nat)
  | list (xs : List GVal)
  | tuple (xs : List GVal)
  | set (xs : List GVal)
  | dict (items : List GVal)
  | dt (us : Int)
  | uuid (n : Nat)
  | cplx (re im : Int)
  | inf (neg : Bool)
  deriving Inhabited, Repr

namespace GVal

/-- The value of a member of the real numeric tower in float units. -/
def num : GVal → Option Int
  | .bool b => some (if b then scale else 0)
  | .int n => some (n * scale)
  | .flt k => some k
  | _ => Option.none

/-- A finite number `a` (float units) against `y`. -/
def cmpNum (a : Int) (y : GVal) : Option Cmp :=
  match y with
  | .inf n => some (if n then .gt else .lt)
  | y => (num y).map (cmpInt a)

/-- The infinity `inf a` against `y`. -/
def cmpInf (a : Bool) (y : GVal) : Option Cmp :=
  match y with
  | .inf b => some (if a == b then .eq else if a then .lt else .gt)
  | y => (num y).map (fun _ => if a then .lt else .gt)

mutual
/-- Python `x == y`. -/
def pyEq : GVal → GVal → Bool
  | .none, .none => true
  | .inf a, .inf b => a == b
  | .str a, .str b => a == b
  | .list xs, .list ys => eqL xs ys
  | .tuple xs, .tuple ys => eqL xs ys
  | .set xs, .set ys => subL xs ys && ys.all (fun y => anyL xs y)
  | .dict xs, .dict ys => subL xs ys && ys.all (fun y => anyL xs y)
  | .dt a, .dt b => a == b
  | .uuid a, .uuid b => a == b
  | .cplx a b, .cplx c d => a == c && b == d
  | .bool a, y => num y == some (if a then scale else 0)
  | .int a, y => num y == some (a * scale)
  | .flt a, y => num y == some a
  | _, _ => false
termination_by structural x => x
def eqL : List GVal → List GVal → Bool
  | [], [] => true
  | a :: as, b :: bs => pyEq a b && eqL as bs
  | _, _ => false
termination_by structural x => x
def subL : List GVal → List GVal → Bool
  | [], _ => true
  | a :: as, ys => ys.any (fun y => pyEq a y) && subL as ys
termination_by structural x => x
def anyL : List GVal → GVal → Bool
  | [], _ => false
  | a :: as, y => pyEq a y || anyL as y
termination_by structural x => x
end

def supL (xs ys : List GVal) : Bool := ys.all (fun y => anyL xs y)

mutual
/-- Three-way comparison behind `<`, `<=`, `>`, `>=`; `none` = `TypeError`. -/
def pyCmp : GVal → GVal → Option Cmp
  | .str a, .str b => some (cmpStr a b)
  | .list xs, .list ys => cmpL xs ys
  | .tuple xs, .tuple ys => cmpL xs ys
  | .set xs, .set ys => some (cmpIncl (subL xs ys) (supL xs ys))
  | .dt a, .dt b => some (cmpInt a b)
  | .uuid a, .uuid b => some (cmpInt a b)
  | .bool a, y => cmpNum (if a then scale else 0) y
  | .int a, y => cmpNum (a * scale) y
  | .flt a, y => cmpNum a y
  | .inf a, y => cmpInf a y
  | _, _ => Option.none
termination_by structural x => x
def cmpL : List GVal → List GVal → Option Cmp
  | [], [] => some .eq
  | [], _ :: _ => some .lt
  | _ :: _, [] => some .gt
  | a :: as, b :: bs => if pyEq a b then cmpL as bs else pyCmp a b
termination_by structural x => x
end

def pyLe (a b : GVal) : Outcome := ofCmp Cmp.isLe (pyCmp a b)
def pyLt (a b : GVal) : Outcome := ofCmp Cmp.isLt (pyCmp a b)
def pyGe (a b : GVal) : Outcome := ofCmp Cmp.isGe (pyCmp a b)
def pyGt (a b : GVal) : Outcome := ofCmp Cmp.isGt (pyCmp a b)

/-- `bool(x)`. -/
def truthy : GVal → Bool
  | .none => false
  | .bool b => b
  | .int n => n != 0
  | .flt t => t != 0
  | .str cs => !cs.isEmpty
  | .list xs => !xs.isEmpty
  | .tuple xs => !xs.isEmpty
  | .set xs => !xs.isEmpty
  | .dict xs => !xs.isEmpty
  | .dt _ => true
  | .uuid _ => true
  | .cplx a b => a != 0 || b != 0
  | .inf _ => true

def itemKey : GVal → GVal
  | .tuple (k :: _) => k
  | _ => .none
def itemVal : GVal → GVal
  | .tuple (_ :: v :: _) => v
  | _ => .none

/-- What `iter(x)` yields (`none` = not iterable). -/
def iterElems : GVal → Option (List GVal)
  | .str cs => some (cs.map (fun c => .str [c]))
  | .list xs => some xs
  | .tuple xs => some xs
  | .set xs => some xs
  | .dict items => some (items.map itemKey)
  | _ => Option.none

mutual
def hashable : GVal → Bool
  | .list _ => false
  | .set _ => false
  | .dict _ => false
  | .tuple xs => hashableL xs
  | _ => true
termination_by structural x => x
def hashableL : List GVal → Bool
  | [] => true
  | a :: as => hashable a && hashableL as
termination_by structural x => x
end

/-- `x in s` for a set `s` (an unhashable `x` raises, except that a `set` is looked up as
the corresponding frozenset). -/
def setContains (s : List GVal) (x : GVal) : Outcome :=
  match x with
  | .set _ => .ok (s.any (fun y => pyEq x y))
  | _ => if hashable x then .ok (s.any (fun y => pyEq x y)) else .raised .typeError

def keysContain (keys : List GVal) (k : GVal) : Outcome :=
  if hashable k then .ok (keys.any (fun y => pyEq k y)) else .raised .typeError

/-- `isinstance(x, k)`. -/
def isInst : Klass → GVal → Bool
  | .object, _ => true
  | .noneType, .none => true
  | .bool, .bool _ => true
  | .int, .bool _ => true
  | .int, .int _ => true
  | .float, .flt _ => true
  | .float, .inf _ => true
  | .str, .str _ => true
  | .list, .list _ => true
  | .tuple, .tuple _ => true
  | .set, .set _ => true
  | .dict, .dict _ => true
  | .complex, .cplx _ _ => true
  | .datetime, .dt _ => true
  | .uuid, .uuid _ => true
  | .iterable, .str _ => true
  | .iterable, .list _ => true
  | .iterable, .tuple _ => true
  | .iterable, .set _ => true
  | .iterable, .dict _ => true
  | .container, .str _ => true
  | .container, .list _ => true
  | .container, .tuple _ => true
  | .container, .set _ => true
  | .container, .dict _ => true
  | .hashable, .none => true
  | .hashable, .bool _ => true
  | .hashable, .int _ => true
  | .hashable, .flt _ => true
  | .hashable, .str _ => true
  | .hashable, .tuple _ => true
  | .hashable, .dt _ => true
  | .hashable, .uuid _ => true
  | .hashable, .cplx _ _ => true
  | .hashable, .inf _ => true
  | _, _ => false

mutual
/-- A total order key used to put the members of a set in a reproducible order
(`random_permutation` of a set; canonical printing).  Not Python semantics. -/
def key : GVal → List Int
  | .none => [0]
  | .bool b => [1, if b then 1 else 0]
  | .int n => [2, n]
  | .flt k => [3, k]
  | .str cs => 4 :: (cs.length : Int) :: cs.map (fun (c : Nat) => (Int.ofNat c))
  | .list xs => 5 :: (xs.length : Int) :: keyL xs
  | .tuple xs => 6 :: (xs.length : Int) :: keyL xs
  | .set xs => 7 :: (xs.length : Int) :: keyL xs
  | .dict xs => 8 :: (xs.length : Int) :: keyL xs
  | .dt a => [9, a]
  | .uuid n => [10, (n : Int)]
  | .cplx a b => [11, a, b]
  | .inf n => [12, if n then 0 else 1]
termination_by structural x => x
def keyL : List GVal → List Int
  | [] => []
  | a :: as => key a ++ keyL as
termination_by structural x => x
end

/-- Lexicographic `≤` on keys. -/
def keyLe : List Int → List Int → Bool
  | [], _ => true
  | _ :: _, [] => false
  | a :: as, b :: bs => if a < b then true else if b < a then false else keyLe as bs

def insertKey (x : GVal) : List GVal → List GVal
  | [] => [x]
  | y :: ys => if keyLe (key x) (key y) then x :: y :: ys else y :: insertKey x ys

/-- Insertion sort by `key`. -/
def sortKey : List GVal → List GVal
  | [] => []
  | x :: xs => insertKey x (sortKey xs)

/-- `set(values)` keeps the first of `==` members. -/
def dedup : List GVal → List GVal
  | [] => []
  | x :: xs => let r := dedup xs
    x :: r.filter (fun y => !pyEq x y)

/-- `set(values)`: `TypeError` when a member is unhashable. -/
def mkSet (xs : List GVal) : Except Err GVal :=
  if hashableL xs then .ok (.set (dedup xs)) else .error .typeError

/-- `d[k] = v` on the item list: an existing `==` key keeps its position and its key
object, the value is replaced; a new key is appended. -/
def dictSet : List GVal → GVal → GVal → List GVal
  | [], k, v => [.tuple [k, v]]
  | it :: rest, k, v =>
    if pyEq k (itemKey it) then .tuple [itemKey it, v] :: rest else it :: dictSet rest k v

end GVal

open GVal

/-- The predicate kinds with a `generate_true` clause (all but `regex`, which is
`exrex`'s business).  `and` carries the two optimizer guards of the generators:
`unsatT` = `optimize(p) == always_false_p` (generate_true yields nothing then),
`genF` = `optimize(p) != always_true_p` (generate_false yields nothing otherwise).
`pnil`/`pcons` are the child lists of `tupleOf` (predicates) and `dictOf`
(key predicate, value predicate, …). -/
inductive GP where
  | tt | ff
  | eq (v : GVal) | ne (v : GVal)
  | ge (v : GVal) | gt (v : GVal) | le (v : GVal) | lt (v : GVal)
  | isin (s : List GVal) | notin (s : List GVal)
  | subset (s : List GVal) | rsubset (s : List GVal)
  | isNone | isNotNone | truthy | falsy | isEmpty
  | inst (ks : List Klass)
  | hasKey (k : GVal)
  | and (unsatT genF : Bool) (l r : GP) | or (l r : GP)
  | all (p : GP) | any (p : GP) | setOf (p : GP)
  | tupleOf (ps : GP) | dictOf (kvs : GP)
  | pnil | pcons (h t : GP)
  deriving Inhabited, Repr

/-- The built-in `all` over the outcomes of the members, left to right. -/
def allO (f : GVal → Outcome) : List GVal → Outcome
  | [] => .ok true
  | y :: ys =>
    match f y with
    | .ok true => allO f ys
    | o => o

def anyO (f : GVal → Outcome) : List GVal → Outcome
  | [] => .ok false
  | y :: ys =>
    match f y with
    | .ok false => anyO f ys
    | o => o

def GP.chainLen : GP → Nat
  | .pcons _ t => 1 + t.chainLen
  | _ => 0

mutual
/-- Reference evaluator: what calling the predicate object on the value does
(C07/C08's semantics: `Model/EvalTrace.lean` `evalE` without the trace, `atomSem`). -/
def evalG : GP → GVal → Outcome
  | .tt, _ => .ok true
  | .ff, _ => .ok false
  | .eq v, x => .ok (pyEq x v)
  | .ne v, x => .ok (!pyEq x v)
  | .ge v, x => pyGe x v
  | .gt v, x => pyGt x v
  | .le v, x => pyLe x v
  | .lt v, x => pyLt x v
  | .isin s, x => setContains s x
  | .notin s, x => (setContains s x).not
  | .subset s, x => pyLe x (.set s)
  | .rsubset s, x => pyLt x (.set s)
  | .isNone, x => .ok (match x with | .none => true | _ => false)
  | .isNotNone, x => .ok (match x with | .none => false | _ => true)
  | .truthy, x => .ok (truthy x)
  | .falsy, x => .ok (!truthy x)
  | .isEmpty, x => match iterElems x with
    | some xs => .ok xs.isEmpty
    | Option.none => .raised .typeError
  | .inst ks, x => .ok (ks.any (fun k => isInst k x))
  | .hasKey k, x => match x with
    | .dict items => keysContain (items.map itemKey) k
    | _ => .raised .attributeError
  | .and _ _ l r, x => (evalG l x).andThen (evalG r x)
  | .or l r, x => (evalG l x).orElse (evalG r x)
  | .all p, x =>
    match iterElems x with
    | some xs => allO (fun y => evalG p y) xs
    | Option.none => .raised .typeError
  | .any p, x =>
    match iterElems x with
    | some xs => anyO (fun y => evalG p y) xs
    | Option.none => .raised .typeError
  | .setOf p, x =>
    match iterElems x with
    | some xs => allO (fun y => evalG p y) xs
    | Option.none => .raised .typeError
  | .tupleOf ps, x =>
    match iterElems x with
    | some xs => if xs.length == ps.chainLen then evalTup ps xs else .ok false
    | Option.none => .raised .typeError
  | .dictOf kvs, x =>
    match x with
    | .dict items =>
      if items.isEmpty && kvs.chainLen != 0 then .ok false
      else (allO (fun it => anyKV kvs it) items).andThen (noBadKV kvs items)
    | _ => .ok false
  | .pnil, _ => .ok false
  | .pcons _ _, _ => .ok false
/-- `all(p(v) for p, v in zip(ps, x))`. -/
def evalTup : GP → List GVal → Outcome
  | .pcons h t, y :: ys => (evalG h y).andThen (evalTup t ys)
  | _, _ => .ok true
/-- `any(key_p(key) and value_p(value) for key_p, value_p in kvs)` for one item. -/
def anyKV : GP → GVal → Outcome
  | .pcons k (.pcons v rest), it =>
    ((evalG k (itemKey it)).andThen (evalG v (itemVal it))).orElse (anyKV rest it)
  | _, _ => .ok false
/-- Second loop of `DictOfPredicate.__call__`. -/
def noBadKV : GP → List GVal → Outcome
  | .pcons k (.pcons v rest), items =>
    match anyO (fun it => (evalG k (itemKey it)).andThen (evalG v (itemVal it)).not) items with
    | .ok false => noBadKV rest items
    | .ok true => .ok false
    | r => r
  | _, _ => .ok true
end

end Gen
end PyPred
