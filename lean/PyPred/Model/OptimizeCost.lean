/-
Cost semantics of the optimizer model (C12): the same `step`, iterated with one marker
pushed on the trace per invocation.  The only channel that `step` threads through all
of its oracle calls is the trace (`bindR` concatenates, tail calls pass it on), so
counting markers counts invocations without touching the model.

No import outside the models: this file can be compiled into a driver.
-/
import PyPred.Model.Optimize

namespace PyPred

section
variable {V : Type}

/-- Push one marker on the trace of an answered call (the marker is an arbitrary
`Quirk` value; only trace *lengths* are read off a ticked run). -/
def tick (r : R V) : R V :=
  match r with
  | none => none
  | some (o, t) => some (o, Quirk.anyTrue :: t)

end

section
variable {V : Type} [DecidableEq V] [LT V] [LE V] [DecidableLT V] [DecidableLE V]

/-- `optimizeT` with one marker per `optimize*` invocation on the trace.  Its trace is the
trace of `optimizeT` (quirk arms fired in `impl` mode) interleaved with the markers. -/
def optimizeK (cfg : Cfg) (fnc : Nat → V → Bool) : Nat → Pred V → R V
  | 0, _ => none
  | n + 1, p => tick (step cfg fnc (optimizeK cfg fnc n) p)

/-- Length of the ticked trace: number of invocations plus number of `impl` quirk arms
fired (at most one per invocation), so `invocations ≤ cost ≤ 2 * invocations`. -/
def cost (cfg : Cfg) (fnc : Nat → V → Bool) (n : Nat) (p : Pred V) : Option Nat :=
  (optimizeK cfg fnc n p).map fun r => r.2.length

/-- The optimised predicate and the number of `optimize*` invocations spent on it:
the ticked trace minus the entries that are there without ticking. -/
def optimizeC (cfg : Cfg) (fnc : Nat → V → Bool) (n : Nat) (p : Pred V) : Option (Pred V × Nat) :=
  match optimizeK cfg fnc n p, optimizeT cfg fnc n p with
  | some (o, tk), some (_, tt) => some (o, tk.length - tt.length)
  | _, _ => none

end

end PyPred
