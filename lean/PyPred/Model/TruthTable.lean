/-
M3 `TruthTable` — predicate/truth_table.py over a heap of variable objects.

`truth_table(p)` is a *generator*: calling it does nothing; the first `next`
calls `get_named_predicates(p)` (which raises `ValueError` on anything that is
not a variable, a constant or one of `& | ^ ~`), builds
`sorted(gray_product(*repeat((False, True), n)))` once, and then every `next`
takes the next combination, writes *all* `NamedPredicate.v` of the tree by name
(`set_named_values`) and only then calls the predicate (which reads the `.v`
fields).  Variable objects are mutable and may be shared: the same object may
occur several times in one tree and in several trees, and distinct objects may
carry the same name.  This file models exactly that: objects are `ObjId`s, the
(immutable) `name` field is a table `nm : ObjId → String`, the mutable `v`
field is the `Heap`.

No import outside core Lean: compiled into `driver_tt`.
Source anchors: predicate/truth_table.py (whole file), named_predicate.py.
-/
namespace PyPred.TT

abbrev ObjId := Nat

/-- The `.v` fields of all `NamedPredicate` objects. -/
abbrev Heap := ObjId → Bool

def Heap.set (h : Heap) (o : ObjId) (b : Bool) : Heap := fun x => if x = o then b else h x

/-- Trees as `truth_table` sees them.  `var o` is a *pointer* to a
`NamedPredicate` object.  `other k` is any node of another class (an atom such as
`eq_p(1)`, or `all_p(..)`, `comp_p(..)` … whatever is below it is never looked
at: both traversals raise on the node itself). -/
inductive Tree where
  | tt | ff
  | var (o : ObjId)
  | other (kind : Nat)
  | and (l r : Tree) | or (l r : Tree) | xor (l r : Tree)
  | not (p : Tree)
  deriving Repr, Inhabited, DecidableEq

inductive Err where
  | valueError | keyError
  deriving Repr, DecidableEq, Inhabited

/-- What one `next(gen)` gives back. -/
inductive Step where
  | row (r : List Bool) (v : Bool)   -- the tuple `(combination, value)`
  | stop                             -- StopIteration
  | raised (e : Err)
  deriving Repr, DecidableEq, Inhabited

/-- Variables, constants and `& | ^ ~` only. -/
def Tree.isProp : Tree → Bool
  | .tt | .ff | .var _ => true
  | .other _ => false
  | .and l r | .or l r | .xor l r => l.isProp && r.isProp
  | .not p => p.isProp

/-- The variable objects of a tree, left to right, with repetitions. -/
def Tree.objs : Tree → List ObjId
  | .var o => [o]
  | .and l r | .or l r | .xor l r => l.objs ++ r.objs
  | .not p => p.objs
  | _ => []

/-- The names at the variable leaves, left to right, with repetitions. -/
def Tree.leafNames (nm : ObjId → String) (t : Tree) : List String := t.objs.map nm

/-! ### `sorted(set(names))`

Python compares `str` lexicographically by code point; Lean's `<` on `String` is
the lexicographic order of the code-point lists (`String.lt`), so the two orders
are the same relation (exercised by the correspondence with mixed-case,
multi-letter and non-ASCII names). -/

/-- Insert into a strictly ascending list, dropping a duplicate. -/
def insertS (x : String) : List String → List String
  | [] => [x]
  | y :: ys => if x < y then x :: y :: ys else if x = y then y :: ys else y :: insertS x ys

def sortDedup (l : List String) : List String := l.foldr insertS []

/-- `get_named_predicates`, arm for arm: the recursion is on the *sorted,
deduplicated* lists of the operands (`yield from get_named_predicates(left)`),
and the whole is `sorted(set(..))` again.  `.error valueError` is
`raise ValueError(f"Type not allowed: …")`. -/
def getNamed (nm : ObjId → String) : Tree → Except Err (List String)
  | .and l r | .or l r | .xor l r =>
    match getNamed nm l with
    | .error e => .error e
    | .ok a =>
      match getNamed nm r with
      | .error e => .error e
      | .ok b => .ok (sortDedup (a ++ b))
  | .not p =>
    match getNamed nm p with
    | .error e => .error e
    | .ok a => .ok (sortDedup a)
  | .var o => .ok (sortDedup [nm o])
  | .tt | .ff => .ok (sortDedup [])
  | .other _ => .error .valueError

/-- The specification-side name list: the distinct names of the leaves, ascending. -/
def names (nm : ObjId → String) (t : Tree) : List String := sortDedup (t.leafNames nm)

/-! ### `sorted(gray_product(*repeat((False, True), n)))` -/

/-- All `n`-tuples over `False < True` in ascending (binary) order. -/
def rows : Nat → List (List Bool)
  | 0 => [[]]
  | n + 1 => (rows n).map (false :: ·) ++ (rows n).map (true :: ·)

/-- The number a row spells, most significant bit first. -/
def val (r : List Bool) : Nat := r.foldl (fun acc b => 2 * acc + b.toNat) 0

/-- `dict(zip(named_predicates, combination, strict=False))[x]`: `zip` stops at the
shorter list, a later pair overwrites an earlier one, `none` is `KeyError`. -/
def assign : List String → List Bool → String → Option Bool
  | n :: ns, b :: bs, x =>
    match assign ns bs x with
    | some v => some v
    | none => if x = n then some b else none
  | _, _, _ => none

/-- `set_named_values(predicate, values)`: left-to-right traversal writing
`named.v = values[named.name]`.  Returns the heap with the writes done so far and
the exception, if one stopped the traversal. -/
def setNamed (nm : ObjId → String) (σ : String → Option Bool) : Tree → Heap → Heap × Option Err
  | .and l r, h | .or l r, h | .xor l r, h =>
    match setNamed nm σ l h with
    | (h', none) => setNamed nm σ r h'
    | (h', some e) => (h', some e)
  | .not p, h => setNamed nm σ p h
  | .var o, h =>
    match σ (nm o) with
    | some b => (h.set o b, none)
    | none => (h, some .keyError)
  | .tt, h | .ff, h => (h, none)
  | .other _, h => (h, some .valueError)

/-- `predicate(False)` for a propositional tree: variables read their `.v`.
(`other` is never evaluated by `truth_table`: `set_named_values` has raised on the
same node before; see `setNamed_none_isProp`.) -/
def evalH (h : Heap) : Tree → Bool
  | .tt => true
  | .ff => false
  | .var o => h o
  | .other _ => false
  | .and l r => evalH h l && evalH h r
  | .or l r => evalH h l || evalH h r
  | .xor l r => evalH h l != evalH h r
  | .not p => !evalH h p

/-- State of one generator object. -/
inductive Gen where
  | fresh (t : Tree)                                              -- created, never resumed
  | running (t : Tree) (ns : List String) (rest : List (List Bool))  -- suspended at `yield`
  | done                                                          -- returned or raised
  deriving Repr, Inhabited

/-- One iteration of the `for combination in combinations` loop. -/
def stepRow (nm : ObjId → String) (h : Heap) (t : Tree) (ns : List String) :
    List (List Bool) → Heap × Gen × Step
  | [] => (h, .done, .stop)
  | r :: rest =>
    match setNamed nm (assign ns r) t h with
    | (h', some e) => (h', .done, .raised e)
    | (h', none) => (h', .running t ns rest, .row r (evalH h' t))

/-- `next(gen)`. -/
def next (nm : ObjId → String) (h : Heap) : Gen → Heap × Gen × Step
  | .done => (h, .done, .stop)
  | .fresh t =>
    match getNamed nm t with
    | .error e => (h, .done, .raised e)
    | .ok ns => stepRow nm h t ns (rows ns.length)
  | .running t ns rest => stepRow nm h t ns rest

/-- `k` successive `next` calls on one generator: the answers and the final heap. -/
def nexts (nm : ObjId → String) : Nat → Heap → Gen → List Step × Heap
  | 0, h, _ => ([], h)
  | k + 1, h, g =>
    match next nm h g with
    | (h', g', s) =>
      match nexts nm k h' g' with
      | (ss, h'') => (s :: ss, h'')

/-- A family of live generators (indexed by `Nat`) driven by a schedule: the
`j`-th entry says which generator gets the next `next`.  Returns the final heap,
the final generator states and the trace `(generator, answer)` in call order. -/
def runSched (nm : ObjId → String) : Heap → (Nat → Gen) → List Nat → Heap × (Nat → Gen) × List (Nat × Step)
  | h, gs, [] => (h, gs, [])
  | h, gs, i :: rest =>
    match next nm h (gs i) with
    | (h', g', s) =>
      match runSched nm h' (fun j => if j = i then g' else gs j) rest with
      | (h'', gs'', tr) => (h'', gs'', (i, s) :: tr)

/-! ### Specification side (no heap anywhere) -/

/-- The tree under an assignment of the *names*. -/
def evalS (nm : ObjId → String) (σ : String → Bool) : Tree → Bool
  | .tt => true
  | .ff => false
  | .var o => σ (nm o)
  | .other _ => false
  | .and l r => evalS nm σ l && evalS nm σ r
  | .or l r => evalS nm σ l || evalS nm σ r
  | .xor l r => evalS nm σ l != evalS nm σ r
  | .not p => !evalS nm σ p

/-- The assignment `ns[i] ↦ r[i]`. -/
def valuation (ns : List String) (r : List Bool) : String → Bool := fun x => (assign ns r x).getD false

/-- The truth table the property describes. -/
def spec (nm : ObjId → String) (t : Tree) : List Step :=
  (rows (names nm t).length).map (fun r => .row r (evalS nm (valuation (names nm t) r) t))

/-- The answer to the `k`-th `next` (from 0) on a generator for `t`, whatever
else has happened. -/
def respond (nm : ObjId → String) (t : Tree) (k : Nat) : Step :=
  if t.isProp then ((spec nm t)[k]?).getD .stop
  else if k = 0 then .raised .valueError else .stop

end PyPred.TT
