/-
Decoders for the two texts the CLI prints (C20): the printed truth table back to
(names, rows) and the printed JSON back to the expression tree.  They are the
left inverses used by `C20_text_determines_table` / `C20_json_roundtrip`
(Props/C20.lean): a bit inversion, a swapped column, a renamed variable or a
re-nested operator changes the text.  They are also run by `driver_cli` on the
*real* output of `main.py`.

No import outside core Lean.
-/
import PyPred.Model.Cli

namespace PyPred
namespace Cli

open Parser (Tree)

/-! ## The table -/

/-- `txt.split(sep)` -/
def splitOnC (sep : Char) : List Char → List (List Char)
  | [] => [[]]
  | c :: cs =>
    if c = sep then [] :: splitOnC sep cs
    else
      match splitOnC sep cs with
      | w :: ws => (c :: w) :: ws
      | [] => [[c]]

/-- names are never empty, so the empty header line is the empty list of names -/
def decodeHeader (line : List Char) : List (List Char) :=
  if line = [] then [] else splitOnC ' ' line

def bitOf (c : Char) : Option Bool :=
  if c = '0' then some false else if c = '1' then some true else none

/-- `b b b:   v` -/
def decodeRow (line : List Char) : Option (List Bool × Bool) :=
  match line.dropWhile (· ≠ ':') with
  | [':', ' ', ' ', ' ', v] => (bitOf v).map fun b => ((line.takeWhile (· ≠ ':')).filterMap bitOf, b)
  | _ => none

/-- header line, then one line per row, every line terminated by a newline -/
def decodeTable (txt : List Char) : Option (List (List Char) × List (List Bool × Bool)) :=
  match splitOnC '\n' txt with
  | [] => none
  | header :: rest =>
    if rest.getLast? = some [] then (rest.dropLast.mapM decodeRow).map fun rows => (decodeHeader header, rows)
    else none

/-- the table text from names and rows (what `table` prints, see `tableOut_spec`) -/
def tableText (ns : List (List Char)) (rows : List (List Bool × Bool)) : List Char :=
  joinSp ns ++ '\n' :: (rows.map fun rv => fmtRow rv.1 rv.2).flatten

/-! ## The JSON -/

def stripPrefix : List Char → List Char → Option (List Char)
  | [], s => some s
  | _ :: _, [] => none
  | c :: p, d :: s => if c = d then stripPrefix p s else none

def notQuote (c : Char) : Bool := c != '"'

def kOpen : List Char := ['{', '"']
def kVarMid : List Char := ['"', ':', ' ', '"']
def kVarEnd : List Char := ['"', '}']
def kTrueEnd : List Char := ['"', ':', ' ', 't', 'r', 'u', 'e', '}']
def kFalseEnd : List Char := ['"', ':', ' ', 'f', 'a', 'l', 's', 'e', '}']
def kNotMid : List Char := ['"', ':', ' ', '{', '"', 'p', 'r', 'e', 'd', 'i', 'c', 'a', 't', 'e', '"', ':', ' ']
def kLeft : List Char := ['"', ':', ' ', '{', '"', 'l', 'e', 'f', 't', '"', ':', ' ']
def kRight : List Char := [',', ' ', '"', 'r', 'i', 'g', 'h', 't', '"', ':', ' ']
def kClose : List Char := ['}', '}']

def binOf (key : List Char) : Option (Tree → Tree → Tree) :=
  if key = ['a', 'n', 'd'] then some .and
  else if key = ['o', 'r'] then some .or
  else if key = ['x', 'o', 'r'] then some .xor
  else none

/-- reads one rendered expression from the front of the text; the fuel bounds the nesting -/
def readJ : Nat → List Char → Option (Tree × List Char)
  | 0, _ => none
  | n + 1, s =>
    match stripPrefix kOpen s with
    | none => none
    | some s1 =>
      let key := s1.takeWhile notQuote
      let s2 := s1.dropWhile notQuote
      if key = ['v', 'a', 'r', 'i', 'a', 'b', 'l', 'e'] then
        match stripPrefix kVarMid s2 with
        | none => none
        | some s3 => (stripPrefix kVarEnd (s3.dropWhile notQuote)).map fun s4 => (.var (s3.takeWhile notQuote), s4)
      else if key = ['t', 'r', 'u', 'e'] then (stripPrefix kTrueEnd s2).map fun r => (.tt, r)
      else if key = ['f', 'a', 'l', 's', 'e'] then (stripPrefix kFalseEnd s2).map fun r => (.ff, r)
      else if key = ['n', 'o', 't'] then
        match stripPrefix kNotMid s2 with
        | none => none
        | some s3 =>
          match readJ n s3 with
          | none => none
          | some (t, s4) => (stripPrefix kClose s4).map fun r => (.not t, r)
      else
        match binOf key with
        | none => none
        | some mk =>
          match stripPrefix kLeft s2 with
          | none => none
          | some s3 =>
            match readJ n s3 with
            | none => none
            | some (a, s4) =>
              match stripPrefix kRight s4 with
              | none => none
              | some s5 =>
                match readJ n s5 with
                | none => none
                | some (b, s6) => (stripPrefix kClose s6).map fun r => (mk a b, r)

def readJson (txt : List Char) : Option Tree :=
  match readJ (txt.length + 1) txt with
  | some (t, []) => some t
  | _ => none

/-- what `json` prints for the expression tree `t` -/
def jsonText (t : Tree) : List Char := dumps (toJson noFnName (toPred t))

end Cli
end PyPred
