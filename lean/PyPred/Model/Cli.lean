/-
M7 `Cli` — the command-line interface `main.py` (commands `table` and `json`; `dot`
opens a viewer and is out of scope).

    argv --click--> expression text --parse_expression--> tree --(optimize)-->
         --truth_table / to_json--> text on stdout

Every stage already has a model; this file composes them arm for arm:

* click (typer): the single positional argument.  A word that starts with `-` and is
  longer than one character is taken for an option: `--help` prints the help page,
  anything else is a usage error (exit status 2).  `-` alone is an argument.
* `parse_expression` (Model/Parser.lean): `lexChars`, `parse`.  Rejected text has two
  observable classes: lark raises `UnexpectedEOF` — caught, `None` is returned and
  `main.py` prints `Could not parse expression: "<text>"` on stderr, exit status 0 —
  exactly when the text is a proper *viable prefix* of the language (`scan3 = eof`);
  otherwise lark raises `UnexpectedCharacters`, nobody catches it, typer prints a
  traceback, exit status 1 (`scan3 = dead`, or a character the lexer does not know).
* every occurrence of a name is a fresh `NamedPredicate(name, v=False)` (`toPred`);
  `if predicate := …` is a truthiness test on an object without `__bool__`/`__len__`:
  always true, so only `None` takes the `else` branch.
* `--optimize`: `optimizeT` (Model/Optimize.lean) with fuel `fuelFor`; running out of
  fuel is a model artefact (`ErrOut.outOfFuel`), never an answer.
* `table`: `get_named_predicates` for the header, then the *generator* `truth_table`
  is drained (`TT.nexts` of Model/TruthTable.lean over a heap with one object per
  leaf occurrence, `ttFrom`); one line per row.
* `json`: `json.dumps(to_json(p))` (`toJson` of Model/Json.lean, `dumps` below: separators
  `", "` and `": "`, no trailing newline).

Text is `List Char` (byte-exact for the ASCII the CLI can print); names are `String`
where the truth-table model needs them.  No import outside core Lean.
-/
import PyPred.Model.Parser
import PyPred.Model.Optimize
import PyPred.Model.TruthTable
import PyPred.Model.Json

namespace PyPred
namespace Cli

open Parser (Tree Token lexChars parse)

/-! ## From the parsed text to predicate objects -/

/-- `_PredicateTransformer`: `variable` builds `NamedPredicate(name=str(token))` (field `v`
defaults to `False`), `true`/`false` are the two constants. -/
def toPred : Tree → Pred Int
  | .var s => .var (String.ofList s) false
  | .tt => .tt
  | .ff => .ff
  | .not t => .not (toPred t)
  | .and l r => .and (toPred l) (toPred r)
  | .or l r => .or (toPred l) (toPred r)
  | .xor l r => .xor (toPred l) (toPred r)

/-- The names at the variable leaves reachable through `& | ^ ~`, left to right. -/
def leafNames : Pred Int → List String
  | .var n _ => [n]
  | .not p => leafNames p
  | .and l r | .or l r | .xor l r => leafNames l ++ leafNames r
  | _ => []

/-- The object graph `truth_table` walks: the `k`-th variable leaf (from the left) is the
object `k` — one object per occurrence, several objects may carry one name.  Anything that
is not a variable, a constant or `& | ^ ~` is a foreign node. -/
def ttFrom : Pred Int → Nat → TT.Tree × Nat
  | .tt, k => (.tt, k)
  | .ff, k => (.ff, k)
  | .var _ _, k => (.var k, k + 1)
  | .not p, k => ((ttFrom p k).1.not, (ttFrom p k).2)
  | .and l r, k => (.and (ttFrom l k).1 (ttFrom r (ttFrom l k).2).1, (ttFrom r (ttFrom l k).2).2)
  | .or l r, k => (.or (ttFrom l k).1 (ttFrom r (ttFrom l k).2).1, (ttFrom r (ttFrom l k).2).2)
  | .xor l r, k => (.xor (ttFrom l k).1 (ttFrom r (ttFrom l k).2).1, (ttFrom r (ttFrom l k).2).2)
  | _, k => (.other 0, k)

def toTT (p : Pred Int) : TT.Tree := (ttFrom p 0).1

/-- the `name` field of object `o` -/
def nmOf (p : Pred Int) : TT.ObjId → String := fun o => (leafNames p).getD o ""

/-- all `v` fields are `False` when the table starts -/
def heap0 : TT.Heap := fun _ => false

/-! ## `parse_expression` with its two ways of rejecting -/

inductive Verdict where
  | accept | eof | dead
  deriving DecidableEq, Repr, Inhabited

/-- The scanner of Model/Parser.lean (`scan`) with the rejecting runs split in two: `dead` — some
token cannot continue any sentence (lark: `UnexpectedCharacters`), `eof` — every token could,
but the text stops too early (lark: `UnexpectedEOF`). -/
def scan3 : Bool → Nat → List Token → Verdict
  | true, _, [] => .eof
  | false, d, [] => if d = 0 then .accept else .eof
  | true, d, t :: r =>
    match t with
    | .name _ | .tt | .ff => scan3 false d r
    | .not => scan3 true d r
    | .lp => scan3 true (d + 1) r
    | _ => .dead
  | false, d, t :: r =>
    match t with
    | .and | .or | .xor => scan3 true d r
    | .rp => match d with
      | 0 => .dead
      | d' + 1 => scan3 false d' r
    | _ => .dead

inductive ParseRes where
  | tree (t : Tree)     -- a predicate
  | none                -- `UnexpectedEOF` caught: `None`
  | raised              -- `UnexpectedCharacters` propagates
  deriving DecidableEq, Repr, Inhabited

def parseExpression (cs : List Char) : ParseRes :=
  match lexChars cs with
  | .none => .raised
  | some ts =>
    match parse ts with
    | some t => .tree t
    | .none => if scan3 true 0 ts = .dead then .raised else .none

/-! ## Output -/

inductive Exc where
  | unexpectedCharacters | valueError | keyError
  deriving DecidableEq, Repr, Inhabited

inductive ErrOut where
  | empty
  | text (s : List Char)       -- exactly this text
  | traceback (e : Exc)        -- uncaught exception: only its class is modelled
  | usage                      -- click's usage error
  | outOfFuel                  -- model artefact, never an answer of the program
  deriving DecidableEq, Repr, Inhabited

structure Out where
  stdout : List Char
  stderr : ErrOut
  exit : Nat
  deriving DecidableEq, Repr, Inhabited

/-- `failed_to_pass` -/
def couldNotParse (cs : List Char) : List Char :=
  "Could not parse expression: \"".toList ++ cs ++ ['"', '\n']

def failedToPass (cs : List Char) : Out := ⟨[], .text (couldNotParse cs), 0⟩

def uncaught (sofar : List Char) (e : Exc) : Out := ⟨sofar, .traceback e, 1⟩

/-! ## `table` -/

def bit (b : Bool) : Char := if b then '1' else '0'

/-- `" ".join(words)` -/
def joinSp : List (List Char) → List Char
  | [] => []
  | [w] => w
  | w :: u :: r => w ++ ' ' :: joinSp (u :: r)

/-- `format_header`, with the newline of the f-string -/
def fmtHeader (ns : List String) : List Char := joinSp (ns.map String.toList) ++ ['\n']

/-- `format_values` -/
def fmtValues (r : List Bool) : List Char := joinSp (r.map fun b => [bit b])

/-- `f"{format_values(row[0])}:   {as_bit(row[1])}\n"` -/
def fmtRow (r : List Bool) (v : Bool) : List Char := fmtValues r ++ [':', ' ', ' ', ' ', bit v, '\n']

def excOf : TT.Err → Exc
  | .valueError => .valueError
  | .keyError => .keyError

/-- the `for row in truth_table(predicate)` loop over the answers of successive `next` calls:
text written so far, and the exception that ended the loop (if any) -/
def emitRows : List TT.Step → List Char × Option TT.Err
  | [] => ([], none)
  | .row r v :: rest => (fmtRow r v ++ (emitRows rest).1, (emitRows rest).2)
  | .stop :: _ => ([], none)
  | .raised e :: _ => ([], some e)

/-- the body of `table` once there is a predicate -/
def tableOut (p : Pred Int) : Out :=
  match TT.getNamed (nmOf p) (toTT p) with
  | .error e => uncaught [] (excOf e)
  | .ok ns =>
    let body := emitRows (TT.nexts (nmOf p) (2 ^ ns.length + 1) heap0 (.fresh (toTT p))).1
    match body.2 with
    | none => ⟨fmtHeader ns ++ body.1, .empty, 0⟩
    | some e => uncaught (fmtHeader ns ++ body.1) (excOf e)

/-! ## `json` -/

/-- `json.dumps` of a string: for the names the lexer can produce (ASCII letters) the escaping is
the identity -/
def dumpsStr (s : List Char) : List Char := '"' :: s ++ ['"']

/-- `json.dumps` with the default separators -/
def dumps : Json Int → List Char
  | .null => "null".toList
  | .bool b => if b then "true".toList else "false".toList
  | .str s => dumpsStr s.toList
  | .const v => (toString v).toList
  | .obj0 => "{}".toList
  | .obj1 k v => '{' :: dumpsStr k.toList ++ ':' :: ' ' :: dumps v ++ ['}']
  | .obj2 k₁ v₁ k₂ v₂ =>
    '{' :: dumpsStr k₁.toList ++ ':' :: ' ' :: dumps v₁ ++ ',' :: ' ' :: dumpsStr k₂.toList ++ ':' :: ' ' :: dumps v₂ ++ ['}']

/-- no function atoms in a parsed expression; the name table is irrelevant -/
def noFnName : Nat → String := fun _ => ""

def jsonOut (p : Pred Int) : Out := ⟨dumps (toJson noFnName p), .empty, 0⟩

/-! ## The commands -/

inductive Cmd where
  | table | json
  deriving DecidableEq, Repr, Inhabited

def noFn : Nat → Int → Bool := fun _ _ => false

/-- generous: every recursive call of the optimizer is on a term no larger than its argument plus a
constant; the answer does not depend on the fuel (C12_deterministic) -/
def fuelFor (p : Pred Int) : Nat := 16 * p.size + 64

def render (cmd : Cmd) (p : Pred Int) : Out :=
  match cmd with
  | .table => tableOut p
  | .json => jsonOut p

/-- the command body from the outcome of `parse_expression` on -/
def runParsed (cfg : Cfg) (cmd : Cmd) (opt : Bool) (cs : List Char) : ParseRes → Out
  | .raised => uncaught [] .unexpectedCharacters
  | .none => failedToPass cs
  | .tree t =>
    if opt then
      match optimize cfg noFn (fuelFor (toPred t)) (toPred t) with
      | some o => render cmd o
      | none => ⟨[], .outOfFuel, 1⟩
    else render cmd (toPred t)

inductive Arg where
  | expr | help | usage
  deriving DecidableEq, Repr, Inhabited

/-- what click makes of the positional word -/
def clickArg (cs : List Char) : Arg :=
  match cs with
  | '-' :: _ :: _ => if cs = "--help".toList then .help else .usage
  | _ => .expr

/-- `python main.py <cmd> [-o] <word>`; `help` is the help page of the command (its text is typer's
business and is not modelled) -/
def run (help : Cmd → List Char) (cfg : Cfg) (cmd : Cmd) (opt : Bool) (cs : List Char) : Out :=
  match clickArg cs with
  | .help => ⟨help cmd, .empty, 0⟩
  | .usage => ⟨[], .usage, 2⟩
  | .expr => runParsed cfg cmd opt cs (parseExpression cs)

/-- the quirk arms of the optimizer that fired on the way (for the explanation of a finding) -/
def quirksFired (cfg : Cfg) (opt : Bool) : ParseRes → List Quirk
  | .tree t =>
    if opt then
      match optimizeT cfg noFn (fuelFor (toPred t)) (toPred t) with
      | some (_, tr) => tr
      | none => []
    else []
  | _ => []

def noHelp : Cmd → List Char := fun _ => []

def cliTable (opt : Bool) (cfg : Cfg) (s : String) : Out := run noHelp cfg .table opt s.toList
def cliJson (opt : Bool) (cfg : Cfg) (s : String) : Out := run noHelp cfg .json opt s.toList

end Cli
end PyPred
