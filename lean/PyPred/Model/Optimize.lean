/-
M1 `Optimize` — the rule-based optimizer of py-predicate, arm for arm
(predicate/optimizer/*.py).  One non-recursive `step` that receives the recursive
call as a parameter; `optimizeT` iterates it on a fuel argument (the Python code
recurses on *results* of optimisation, so structural recursion is not available).

Rule ids in comments (AND1 …) refer to DESIGN.md, Appendix A.
-/
import PyPred.Model.Core

namespace PyPred

/-- Rewrite arms of the pinned implementation that are known to break a
property (DESIGN.md §8).  They are part of the model because the model describes
the code that exists. -/
inductive Quirk where
  | xorNotAnd        -- K1  p ^ (~p & q) → ~(p | q)
  | xorOr            -- K2  p ^ (p | q) → q
  | xorAndUnguarded  -- F1  x ^ (a & b) → x & ~b   without a guard
  | fnEq             -- K3  fn & eq v → always_true_p
  | instDisjoint     -- K4  is_instance k1 & is_instance k2 (k1 ≠ k2) → always_false_p
  | anyTrue          -- K5  any(always_true_p) → always_true_p
  | subsetEmpty      -- K6  is_subset s & is_subset t, s ∩ t = ∅ → always_false_p
  deriving DecidableEq, Repr, Inhabited

/-- Which variant of a quirk arm the model follows: as implemented, arm deleted,
or the evident correct right-hand side. -/
inductive Mode where
  | impl | off | fixed
  deriving DecidableEq, Repr, Inhabited

abbrev Cfg := Quirk → Mode

def Cfg.allImpl : Cfg := fun _ => .impl
def Cfg.allFixed : Cfg := fun _ => .fixed
def Cfg.allOff : Cfg := fun _ => .off
def Cfg.noImpl (c : Cfg) : Prop := ∀ q, c q ≠ .impl

/-- Result of an optimizer call: the predicate and the list of quirk arms that
fired in their `impl` variant; `none` = out of fuel. -/
abbrev R (V : Type) := Option (Pred V × List Quirk)

section
variable {V : Type}

@[inline] def ret (p : Pred V) : R V := some (p, [])
@[inline] def retQ (q : Quirk) (p : Pred V) : R V := some (p, [q])

def bindR (r : R V) (f : Pred V → R V) : R V :=
  match r with
  | none => none
  | some (p, t) =>
    match f p with
    | none => none
    | some (q, t') => some (q, t ++ t')

/-- First applicable rule; the tail is lazy. -/
@[inline] def orElse {α : Type} (a : Option α) (b : Unit → Option α) : Option α :=
  match a with
  | some x => some x
  | none => b ()

end

section
variable {V : Type} [DecidableEq V] [LT V] [LE V] [DecidableLT V] [DecidableLE V]

/-! ### in_optimizer.py -/

def optIn (s : List V) : Pred V :=
  match dedup s with
  | [] => .ff
  | [a] => .eq a
  | _ => .isin s

def optNotIn (s : List V) : Pred V :=
  match dedup s with
  | [] => .tt
  | [a] => .ne a
  | _ => .notin s

/-! ### all_optimizer.py -/

def allPost (o : Pred V) : Pred V :=
  match o with
  | .tt => .tt                          -- ALL1
  | .ff => .isEmpty                     -- ALL2
  | .not q => .not (.any q)             -- ALL3
  | .isNotNone => .not (.any .isNone)   -- ALL4
  | o => .all o                         -- ALL5

def stepAll (rec : Pred V → R V) (q : Pred V) : R V :=
  bindR (rec q) fun o => ret (allPost o)

/-! ### any_optimizer.py -/

def stepAny (cfg : Cfg) (rec : Pred V → R V) (q : Pred V) : R V :=
  bindR (rec q) fun o =>
    match o with
    | .tt =>                                            -- ANY1 (quirk anyTrue)
      match cfg .anyTrue with
      | .impl => retQ .anyTrue .tt
      | .fixed => ret .isNotEmpty
      | .off => ret (.any .tt)
    | .ff => ret .ff                                    -- ANY2
    | .ne v => ret (.not (.all (.eq v)))                -- ANY3
    | .not q' => ret (.not (.all q'))                   -- ANY4 (after fixes/any-no-reoptimise.diff: no second optimisation of q')
    | o => ret (.any o)                                 -- ANY5

/-! ### not_optimizer.py -/

def notPost (o : Pred V) : Pred V :=
  match o with
  | .all a => .any (negate a)                           -- NOT1
  | .and a b =>                                         -- NOT2
    match b with
    | .not q => .or (negate a) q
    | _ =>
      match a with
      | .not q => .or q (negate b)
      | _ => negate o
  | .any a => .all (negate a)                           -- NOT3
  | .or a b =>                                          -- NOT4
    match b with
    | .not q => .and (negate a) q
    | _ =>
      match a with
      | .not q => .and q (negate b)
      | _ => negate o
  | .xor a b =>                                         -- NOT5
    match a with
    | .not q => .xor q b
    | _ =>
      match b with
      | .not q => .xor a q
      | _ => .xor (.not a) b
  | o => negate o                                       -- NOT6

def stepNot (rec : Pred V → R V) (q : Pred V) : R V :=
  match q with
  | .not q' => rec q'                                   -- NOT0
  | q => bindR (rec q) fun o => ret (notPost o)

/-! ### and_optimizer.py -/

/-- `and_contains_negate(predicate, sub_predicate)`. -/
def containsNegAnd : Pred V → Pred V → Bool
  | .and a b, s =>
    if Pred.beq (negate s) a || Pred.beq (negate s) b then true
    else
      match a with
      | .and _ _ => containsNegAnd a s
      | _ =>
        match b with
        | .and _ _ => containsNegAnd b s
        | _ => false
  | _, _ => false

/-- AND-p1: `(~p | q) & p`, `(q | ~p) & p`, tested on the raw operands. -/
def andPre (l r : Pred V) : Option (Pred V) :=
  match l with
  | .or a b =>
    orElse (match a with
            | .not q => if Pred.beq q r then some (.and b r) else none
            | _ => none) fun _ =>
    match b with
    | .not q => if Pred.beq q r then some (.and a r) else none
    | _ => none
  | _ => none

def Pred.isOr : Pred V → Bool
  | .or _ _ => true
  | _ => false

def Pred.isAnd : Pred V → Bool
  | .and _ _ => true
  | _ => false

/-- AND1 … AND13: the arms of the second `match` that need neither recursion nor
the original node. -/
def andRulesA (cfg : Cfg) (fnc : Nat → V → Bool) (l r : Pred V) : Option (R V) :=
  match l, r with
  | l, .tt => some (ret l)                                                -- AND1
  | .tt, r => some (ret r)                                                -- AND2
  | .ge v1, .le v2 =>
    if v1 < v2 then some (ret (.gele v1 v2))                              -- AND3
    else if v1 = v2 then some (ret (.eq v1))                              -- AND4
    else none
  | .ge v1, .lt v2 => if v1 < v2 then some (ret (.gelt v1 v2)) else none  -- AND5
  | .gt v1, .le v2 => if v1 < v2 then some (ret (.gtle v1 v2)) else none  -- AND6
  | .gt v1, .lt v2 => if v1 < v2 then some (ret (.gtlt v1 v2)) else none  -- AND7
  | .inst k1, .inst k2 =>                                                 -- AND8 (quirk instDisjoint)
    if k1 ≠ k2 then
      match cfg .instDisjoint with
      | .impl => some (retQ .instDisjoint .ff)
      | _ => none
    else none
  | .subset s, .subset t =>                                               -- AND9 (quirk subsetEmpty)
    if (inter s t).isEmpty then
      match cfg .subsetEmpty with
      | .impl => some (retQ .subsetEmpty .ff)
      | .fixed => some (ret (.subset (inter s t)))
      | .off => none
    else some (ret (.subset (inter s t)))
  | .fn f, .eq v =>                                                       -- AND10 (quirk fnEq)
    if fnc f v then
      match cfg .fnEq with
      | .impl => some (retQ .fnEq .tt)
      | .fixed => some (ret (.eq v))
      | .off => none
    else some (ret .ff)
  | .isin s, .isin t =>                                                   -- AND11
    if (inter s t).isEmpty then some (ret .ff) else some (ret (optIn (inter s t)))
  | .isin s, .notin t =>                                                  -- AND12
    if (diff s t).isEmpty then some (ret .ff) else some (ret (optIn (diff s t)))
  | .notin s, .notin t =>                                                 -- AND13
    if (union s t).isEmpty then none else some (ret (optNotIn (union s t)))
  | _, _ => none

/-- AND15 … AND21. -/
def andRulesB (node l r : Pred V) : Pred V :=
  if implies l r then l                                                   -- AND15
  else if implies r l then r                                              -- AND16
  else if implies l (negate r) || implies r (negate l) then .ff           -- AND17
  else if containsNegAnd node r then .ff                                  -- AND18
  else if containsNegAnd node l then .ff                                  -- AND19
  else if Pred.beq l r then l                                             -- AND20
  else .and l r                                                           -- AND21

def andPhase2 (cfg : Cfg) (fnc : Nat → V → Bool) (rec : Pred V → R V) (node l r : Pred V) : R V :=
  bindR (rec l) fun l' =>
  bindR (rec r) fun r' =>
    match andRulesA cfg fnc l' r' with
    | some res => res
    | none =>
      match l', r' with
      | .all a, .all b =>                                                 -- AND14
        bindR (rec (.and a b)) fun x => rec (.all x)
      | l', r' => ret (andRulesB node l' r')

def stepAnd (cfg : Cfg) (fnc : Nat → V → Bool) (rec : Pred V → R V) (l r : Pred V) : R V :=
  match andPre l r with
  | some o => ret o                                                       -- AND-p1
  | none =>
    if l.isOr then andPhase2 cfg fnc rec (.and l r) l r
    else if r.isOr then rec (.and r l)                                    -- AND-p2 (re-entry)
    else if Pred.beq l (negate r) then ret .ff                            -- AND-p3
    else andPhase2 cfg fnc rec (.and l r) l r

/-! ### or_optimizer.py -/

/-- `or_contains_negate(predicate, sub_predicate)`. -/
def containsNegOr : Pred V → Pred V → Bool
  | .or a b, s =>
    match a with
    | .or _ _ => containsNegOr a s
    | _ => Pred.beq (negate s) a || Pred.beq (negate s) b
  | _, _ => false

/-- OR5: `(~p & q) | (p & ~q)` and its mirror; terminal. -/
def orAndAnd (l r a b c d : Pred V) : Pred V :=
  match (match a, d with
         | .not x, .not y => if Pred.beq x c && Pred.beq y b then some (Pred.xor c b) else none
         | _, _ => none) with
  | some o => o
  | none =>
    match (match b, c with
           | .not x, .not y => if Pred.beq x d && Pred.beq y a then some (Pred.xor a d) else none
           | _, _ => none) with
    | some o => o
    | none => .or l r

/-- OR3 … OR12, the arms that need neither recursion nor the original node.
The result is final when `some`. -/
def orRulesA (l r : Pred V) : Option (Pred V) :=
  match l, r with
  | _, .tt => some .tt                                                    -- OR3
  | .tt, _ => some .tt                                                    -- OR4
  | .and a b, .and c d => some (orAndAnd l r a b c d)                     -- OR5 (terminal)
  | l, .and a b =>                                                        -- OR6 (terminal)
    match a with
    | .not x => if Pred.beq x l then some (.or l b) else some (.or l (.and a b))
    | _ => some (.or l (.and a b))
  | .isin s, .eq v => if !s.contains v then some (.isin (s ++ [v])) else none      -- OR7
  | .eq v, .isin s => if !s.contains v then some (.isin (s ++ [v])) else none      -- OR8
  | .eq v1, .eq v2 => if v1 ≠ v2 then some (.isin [v1, v2]) else none              -- OR9
  | .eq v, .notin s => if s.contains v then some (optNotIn (diff s [v])) else none -- OR10
  | .isin s, .isin t => if (union s t).isEmpty then none else some (optIn (union s t))  -- OR11
  | .isin s, .notin t =>                                                  -- OR12
    if (diff t (inter s t)).isEmpty then some .tt else some (optNotIn (diff t (inter s t)))
  | _, _ => none

/-- OR14 … OR18. -/
def orRulesB (node l r : Pred V) : Pred V :=
  if implies l r then r                                                   -- OR14
  else if implies r l then l                                              -- OR15
  else if containsNegOr node r then .tt                                   -- OR16
  else if containsNegOr node l then .tt                                   -- OR17
  else .or l r                                                            -- OR18

def stepOr (rec : Pred V → R V) (l r : Pred V) : R V :=
  if Pred.beq l (negate r) then ret .tt                                   -- OR-p
  else
    bindR (rec l) fun l' =>
    bindR (rec r) fun r' =>
      if Pred.beq l' r' then ret l'                                       -- OR1
      else if Pred.beq l' (negate r') then ret .tt                        -- OR2
      else
        match orRulesA l' r' with
        | some o => ret o
        | none =>
          match l', r' with
          | .any a, .any b => bindR (rec (.or a b)) fun x => ret (.any x) -- OR13
          | l', r' => ret (orRulesB (.or l r) l' r')

/-! ### xor_optimizer.py -/

/-- `optimize_xor_not`. -/
def xorNot (l r : Pred V) : Option (Pred V) :=
  match l, r with
  | .not a, .not b => some (.xor a b)                                     -- XOR-p1
  | l, r => if Pred.beq l (negate r) then some .tt else none              -- XOR-p2

/-- One guarded arm of XOR8 (quirk xorNotAnd): `c` is the conjunct tested for being
`~l`, `other` the remaining conjunct. -/
def xorAndGuard (cfg : Cfg) (l c other : Pred V) : Option (R V) :=
  match c with
  | .not q =>
    if Pred.beq l q then
      match cfg .xorNotAnd with
      | .impl => some (retQ .xorNotAnd (.not (.or l other)))
      | .fixed => some (ret (.or l other))
      | .off => none
    else none
  | _ => none

/-- The default arm of XOR8 (quirk xorAndUnguarded). -/
def xorAndDefault (cfg : Cfg) (l a b : Pred V) : R V :=
  match cfg .xorAndUnguarded with
  | .impl => retQ .xorAndUnguarded (.and l (.not b))
  | .fixed =>
    if Pred.beq l a then ret (.and l (.not b))
    else if Pred.beq l b then ret (.and l (.not a))
    else ret (.xor l (.and a b))
  | .off => ret (.xor l (.and a b))

/-- XOR8: right operand is a conjunction; terminal. -/
def xorAnd (cfg : Cfg) (l a b : Pred V) : R V :=
  match xorAndGuard cfg l a b with
  | some res => res
  | none =>
    match xorAndGuard cfg l b a with
    | some res => res
    | none => xorAndDefault cfg l a b

/-- `p ^ (p | q)` (quirk xorOr). -/
def xorOrMk (cfg : Cfg) (p q : Pred V) : Option (R V) :=
  match cfg .xorOr with
  | .impl => some (retQ .xorOr q)
  | .fixed => some (ret (.and (.not p) q))
  | .off => none

/-- `x ^ d` where `d` may be a disjunction containing `x`. -/
def xorOrSide (cfg : Cfg) (x d : Pred V) : Option (R V) :=
  match d with
  | .or a b =>
    if Pred.beq x a then xorOrMk cfg x b
    else if Pred.beq x b then xorOrMk cfg x a
    else none
  | _ => none

/-- XOR10 … XOR13 (quirk xorOr). -/
def xorOrRule (cfg : Cfg) (l r : Pred V) : Option (R V) :=
  orElse (xorOrSide cfg l r) fun _ => xorOrSide cfg r l       -- XOR10/11, then XOR12/13

def stepXor (cfg : Cfg) (rec : Pred V → R V) (l r : Pred V) : R V :=
  match xorNot l r with
  | some o => ret o
  | none =>
    bindR (rec l) fun l' =>
    bindR (rec r) fun r' =>
      match xorNot l' r' with
      | some o => ret o
      | none =>
        match l', r' with
        | l', .ff => ret l'                                               -- XOR1
        | .ff, r' => ret r'                                               -- XOR2
        | l', .tt => rec (.not l')                                        -- XOR3
        | .tt, r' => rec (.not r')                                        -- XOR4
        | l', r' =>
          if Pred.beq l' r' then ret .ff                                  -- XOR5
          else
            match l', r' with
            | .isin s, .isin t => ret (optIn (symdiff s t))               -- XOR6
            | .isin s, .eq v => ret (optIn (symdiff s [v]))               -- XOR7
            | l', .and a b => xorAnd cfg l' a b                           -- XOR8 (terminal)
            | .and a b, r' => rec (.xor r' (.and a b))                    -- XOR9 (re-entry)
            | l', r' =>
              match xorOrRule cfg l' r' with
              | some res => res
              | none =>
                match l' with
                | .xor a b =>
                  if Pred.beq r' a then ret b                             -- XOR14
                  else if Pred.beq r' b then ret a                        -- XOR15
                  else ret (.xor l' r')
                | _ => ret (.xor l' r')                                   -- XOR16

/-! ### predicate_optimizer.py -/

def step (cfg : Cfg) (fnc : Nat → V → Bool) (rec : Pred V → R V) (p : Pred V) : R V :=
  match p with
  | .all q => stepAll rec q
  | .and l r => stepAnd cfg fnc rec l r
  | .any q => stepAny cfg rec q
  | .not q => stepNot rec q
  | .or l r => stepOr rec l r
  | .xor l r => stepXor cfg rec l r
  | .isin s => ret (optIn s)
  | .notin s => ret (optNotIn s)
  | p => ret p

/-- `optimize` with fuel and a trace of the `impl` quirk arms that fired. -/
def optimizeT (cfg : Cfg) (fnc : Nat → V → Bool) : Nat → Pred V → R V
  | 0, _ => none
  | n + 1, p => step cfg fnc (optimizeT cfg fnc n) p

def optimize (cfg : Cfg) (fnc : Nat → V → Bool) (n : Nat) (p : Pred V) : Option (Pred V) :=
  (optimizeT cfg fnc n p).map Prod.fst

/-- `can_optimize(p)` = `optimize(p) != p`. -/
def canOptimize (cfg : Cfg) (fnc : Nat → V → Bool) (n : Nat) (p : Pred V) : Option Bool :=
  (optimize cfg fnc n p).map fun o => !Pred.beq o p

end

end PyPred
