/-
M5 `Json` — predicate/formatter/format_json.py over the predicate type of
Model/Core.lean.

`to_json(p)` is `dict([to_value(p)])`: a dictionary with one entry whose key is
picked by a `match` on the class of the root.  Every dictionary the function ever
builds has zero, one or two entries, so the JSON type below has exactly these
three object formers (no nested `List` in the inductive: structural recursion
everywhere).  `const v` is the Python constant `v` itself stored in the result
(`ne_p(v)` → `{"ne": {"v": v}}`): whether it can be serialised is a property of
the constant, not of `to_json`.

The model is written against the code *after* fixes/fn-name.diff: the name of a
function atom is a total function of the function object (`fnName`, by id);
before the patch it is `predicate_fn.__code__.co_name`, which does not exist for
built-ins and method descriptors (defect F5).

No import outside core Lean except Model/Core.
-/
import PyPred.Model.Core

namespace PyPred

inductive Json (V : Type) where
  | null
  | bool (b : Bool)
  | str (s : String)
  | const (v : V)
  | obj0                                                          -- {}
  | obj1 (k : String) (v : Json V)                                -- {k: v}
  | obj2 (k₁ : String) (v₁ : Json V) (k₂ : String) (v₂ : Json V)  -- {k₁: v₁, k₂: v₂}, insertion order
  deriving Repr, Inhabited, DecidableEq

/-- `leaf` kind of `TeePredicate` in the wire encoding (harness/lift.py `LEAF_TEE`). -/
def leafTee : Nat := 7

section
variable {V : Type}

/-- `to_value`, one arm per `case`; everything else (comparison atoms other than
`ne`, ranges, sets, `is_instance`, `has_key`, `regex`, `lazy`, `this`, `root`,
`property`, factories, `comp`, `tuple_of`, `set_of`, `dict_of`, …) is the default
arm.  `fnName i` is the name the code finds for the function with identity `i`. -/
def toJson (fnName : Nat → String) : Pred V → Json V
  | .all p => .obj1 "all" (.obj1 "predicate" (toJson fnName p))
  | .ff => .obj1 "false" (.bool false)
  | .tt => .obj1 "true" (.bool true)
  | .and l r => .obj1 "and" (.obj2 "left" (toJson fnName l) "right" (toJson fnName r))
  | .any p => .obj1 "any" (.obj1 "predicate" (toJson fnName p))
  | .fn i => .obj1 "fn" (.obj1 "name" (.str (fnName i)))
  | .falsy => .obj1 "is_falsy" .null
  | .var name _ => .obj1 "variable" (.str name)
  | .truthy => .obj1 "is_truthy" .null
  | .ne v => .obj1 "ne" (.obj1 "v" (.const v))
  | .not p => .obj1 "not" (.obj1 "predicate" (toJson fnName p))
  | .or l r => .obj1 "or" (.obj2 "left" (toJson fnName l) "right" (toJson fnName r))
  | .leaf k _ => if k = leafTee then .obj1 "tee" .null else .obj1 "unknown" .obj0
  | .xor l r => .obj1 "xor" (.obj2 "left" (toJson fnName l) "right" (toJson fnName r))
  | _ => .obj1 "unknown" .obj0

/-- Nesting skeletons: which connective, and the operands in order. -/
inductive Shape where
  | leaf
  | un (op : String) (s : Shape)
  | bin (op : String) (l r : Shape)
  deriving Repr, DecidableEq, Inhabited

/-- The nesting of a predicate through the connectives `to_json` renders. -/
def shapeP : Pred V → Shape
  | .and l r => .bin "and" (shapeP l) (shapeP r)
  | .or l r => .bin "or" (shapeP l) (shapeP r)
  | .xor l r => .bin "xor" (shapeP l) (shapeP r)
  | .not p => .un "not" (shapeP p)
  | .all p => .un "all" (shapeP p)
  | .any p => .un "any" (shapeP p)
  | _ => .leaf

/-- The nesting of a JSON value read the way the property describes it: a
one-key object whose value has exactly `left`/`right` (in this order) is a binary
node, one whose value has exactly `predicate` is a unary node, anything else is a
leaf. -/
def shapeJ : Json V → Shape
  | .obj1 k (.obj2 "left" a "right" b) => .bin k (shapeJ a) (shapeJ b)
  | .obj1 k (.obj1 "predicate" a) => .un k (shapeJ a)
  | _ => .leaf

/-- Number of entries of the top-level dictionary (`none`: not a dictionary). -/
def Json.keys : Json V → Option (List String)
  | .obj0 => some []
  | .obj1 k _ => some [k]
  | .obj2 k₁ _ k₂ _ => some [k₁, k₂]
  | _ => none

/-- The key that names the root's kind. -/
def kindKey : Pred V → String
  | .all _ => "all" | .ff => "false" | .tt => "true" | .and _ _ => "and" | .any _ => "any"
  | .fn _ => "fn" | .falsy => "is_falsy" | .var _ _ => "variable" | .truthy => "is_truthy"
  | .ne _ => "ne" | .not _ => "not" | .or _ _ => "or" | .xor _ _ => "xor"
  | .leaf k _ => if k = leafTee then "tee" else "unknown"
  | _ => "unknown"

/-- `json.dumps` accepts the value: every constant in it is accepted (`okV`);
`None`, `bool`, `str` and dictionaries with `str` keys always are. -/
def Json.serialisable (okV : V → Bool) : Json V → Bool
  | .null | .bool _ | .str _ | .obj0 => true
  | .const v => okV v
  | .obj1 _ v => v.serialisable okV
  | .obj2 _ v₁ _ v₂ => v₁.serialisable okV && v₂.serialisable okV

/-- The constants `to_json` copies into its result: those of the `ne` atoms that are
reached through rendered connectives. -/
def jsonConsts : Pred V → List V
  | .ne v => [v]
  | .and l r | .or l r | .xor l r => jsonConsts l ++ jsonConsts r
  | .not p | .all p | .any p => jsonConsts p
  | _ => []

end

end PyPred
