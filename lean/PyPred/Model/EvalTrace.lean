/-
M2 `EvalTrace` — predicate trees over the `PyVal` universe and their evaluation.

`evalE` is the *effectful* evaluator: it returns the outcome of calling the
predicate (a bool or an exception) together with the list of calls made to
instrumented leaves, in the order in which they happen.  `evalPy` is its outcome,
`evalB` a total, exception-free Boolean reading (the kind of semantics the
optimizer theorems use).

Source anchors: predicate/predicate.py (And/Or/Xor/Not/FnPredicate), all_predicate.py,
any_predicate.py, comp_predicate.py, tee_predicate.py, tuple_of_predicate.py,
set_of_predicate.py, dict_of_predicate.py, property_predicate.py.
-/
import PyPred.Model.PyVal

namespace PyPred
open PyVal (pyEq itemKey itemVal iterElems pyLen)

/-- One call of an instrumented callable (probe predicate, `comp_p` function,
`tee_p` function, property getter) with its argument. -/
structure Event where
  id : Nat
  arg : PyVal
  deriving Inhabited, Repr

/-- The named functions `comp_p` is used with. -/
inductive BaseFn where
  | ident            -- lambda x: x
  | len              -- len
  | first            -- lambda x: x[0]
  | values           -- lambda x: list(x.values())
  deriving DecidableEq, Repr, Inhabited

/-- A function for `comp_p`: optionally instrumented (records its call under `probe`,
and may be made to raise by the probe table). -/
structure Fn where
  probe : Option Nat
  base : BaseFn
  deriving Repr, Inhabited

inductive FnRes where
  | val (v : PyVal)
  | err (e : Err)
  deriving Inhabited

def dictLookup (items : List PyVal) (k : PyVal) : Option PyVal :=
  match items.find? (fun it => pyEq k (itemKey it)) with
  | some it => some (itemVal it)
  | none => none

def applyBase : BaseFn → PyVal → FnRes
  | .ident, x => .val x
  | .len, x => match pyLen x with
    | some n => .val (.int n)
    | none => .err .typeError
  | .first, .list (a :: _) => .val a
  | .first, .list [] => .err .indexError
  | .first, .tuple (a :: _) => .val a
  | .first, .tuple [] => .err .indexError
  | .first, .str (c :: _) => .val (.str [c])
  | .first, .str [] => .err .indexError
  | .first, .dict items => match dictLookup items (.int 0) with
    | some v => .val v
    | none => .err .keyError
  | .first, _ => .err .typeError
  | .values, .dict items => .val (.list (items.map itemVal))
  | .values, _ => .err .attributeError

/-- Predicate trees.  `probe id` is an instrumented `FnPredicate` (or a
`PropertyPredicate` around an instrumented getter); `pnil`/`pcons` are the child
lists of `tupleOf` (predicates) and `dictOf` (key predicate, value predicate, …). -/
inductive P where
  | atom (a : Atom)
  | probe (id : Nat)
  | and (l r : P) | or (l r : P) | xor (l r : P) | not (p : P)
  | all (p : P) | any (p : P)
  | comp (f : Fn) (p : P)
  | tee (id : Nat)
  | tupleOf (ps : P)
  | setOf (p : P)
  | dictOf (kvs : P)
  | pnil | pcons (h t : P)
  deriving Inhabited, Repr

/-- What an instrumented callable answers: by identifier and argument. -/
abbrev Table := Nat → PyVal → Outcome

abbrev Res := Outcome × List Event

/-- `for y in ys: if not f(y): return False` … `return True` (the built-in `all` over a
generator), with the calls made. -/
def allE (f : PyVal → Res) : List PyVal → Res
  | [] => (.ok true, [])
  | y :: ys =>
    match f y with
    | (.ok true, t) => let r := allE f ys; (r.1, t ++ r.2)
    | (o, t) => (o, t)

/-- The built-in `any` over a generator. -/
def anyE (f : PyVal → Res) : List PyVal → Res
  | [] => (.ok false, [])
  | y :: ys =>
    match f y with
    | (.ok false, t) => let r := anyE f ys; (r.1, t ++ r.2)
    | (o, t) => (o, t)

/-- `a and b` / `a or b` / `not a` with traces; `b` is only run when needed. -/
def Res.andThen (a : Res) (b : Unit → Res) : Res :=
  match a with
  | (.ok true, t) => let r := b (); (r.1, t ++ r.2)
  | r => r

def Res.orElse (a : Res) (b : Unit → Res) : Res :=
  match a with
  | (.ok false, t) => let r := b (); (r.1, t ++ r.2)
  | r => r

def Res.not (a : Res) : Res := (a.1.not, a.2)

/-- `a ^ b` on bools: both operands are run, left first (unless the left raised). -/
def Res.xor (a : Res) (b : Unit → Res) : Res :=
  match a with
  | (.ok u, t) =>
    match b () with
    | (.ok v, t') => (.ok (u != v), t ++ t')
    | (o, t') => (o, t ++ t')
  | r => r

/-- Number of `pcons` cells. -/
def P.chainLen : P → Nat
  | .pcons _ t => 1 + t.chainLen
  | _ => 0

mutual
/-- The effectful evaluator. -/
def evalE (T : Table) : P → PyVal → Res
  | .atom a, x => (atomSem a x, [])
  | .probe i, x => (T i x, [⟨i, x⟩])
  | .and l r, x => (evalE T l x).andThen (fun _ => evalE T r x)
  | .or l r, x => (evalE T l x).orElse (fun _ => evalE T r x)
  | .xor l r, x => (evalE T l x).xor (fun _ => evalE T r x)
  | .not p, x => (evalE T p x).not
  | .all p, x =>
    match iterElems x with
    | some xs => allE (fun y => evalE T p y) xs
    | none => (.raised .typeError, [])
  | .any p, x =>
    match iterElems x with
    | some xs => anyE (fun y => evalE T p y) xs
    | none => (.raised .typeError, [])
  | .setOf p, x =>
    match iterElems x with
    | some xs => allE (fun y => evalE T p y) xs
    | none => (.raised .typeError, [])
  | .comp f p, x =>
    let ev : List Event := match f.probe with
      | some i => [⟨i, x⟩]
      | none => []
    let pre : Option Err := match f.probe with
      | some i => (match T i x with | .raised e => some e | _ => none)
      | none => none
    match pre with
    | some e => (.raised e, ev)
    | none =>
      match applyBase f.base x with
      | .err e => (.raised e, ev)
      | .val y => let r := evalE T p y; (r.1, ev ++ r.2)
  | .tee i, x =>
    (match T i x with | .raised e => .raised e | _ => .ok true, [⟨i, x⟩])
  | .tupleOf ps, x =>
    match iterElems x with
    | some xs => if xs.length == ps.chainLen then evalTupE T ps xs else (.ok false, [])
    | none => (.raised .typeError, [])
  | .dictOf kvs, x =>
    match x with
    | .dict items =>
      if items.isEmpty && kvs.chainLen != 0 then (.ok false, [])
      else (allE (fun it => anyKV T kvs it) items).andThen (fun _ => noBadKV T kvs items)
    | _ => (.ok false, [])
  | .pnil, _ => (.ok false, [])
  | .pcons _ _, _ => (.ok false, [])
/-- `all(p(v) for p, v in zip(ps, x))`. -/
def evalTupE (T : Table) : P → List PyVal → Res
  | .pcons h t, y :: ys => (evalE T h y).andThen (fun _ => evalTupE T t ys)
  | _, _ => (.ok true, [])
/-- `any(key_p(key) and value_p(value) for key_p, value_p in kvs)` for one item. -/
def anyKV (T : Table) : P → PyVal → Res
  | .pcons k (.pcons v rest), it =>
    ((evalE T k (itemKey it)).andThen (fun _ => evalE T v (itemVal it))).orElse (fun _ => anyKV T rest it)
  | _, _ => (.ok false, [])
/-- Second loop of `DictOfPredicate.__call__`: no pair `(key_p, value_p)` may have an item
whose key satisfies `key_p` and whose value fails `value_p`. -/
def noBadKV (T : Table) : P → List PyVal → Res
  | .pcons k (.pcons v rest), items =>
    match anyE (fun it => (evalE T k (itemKey it)).andThen (fun _ => (evalE T v (itemVal it)).not)) items with
    | (.ok false, t) => let r := noBadKV T rest items; (r.1, t ++ r.2)
    | (.ok true, t) => (.ok false, t)
    | r => r
  | _, _ => (.ok true, [])
end

/-- Outcome and trace of a call. -/
def value (T : Table) (p : P) (x : PyVal) : Outcome := (evalE T p x).1
def trace (T : Table) (p : P) (x : PyVal) : List Event := (evalE T p x).2

/-- Table for trees without instrumented leaves. -/
def noProbes : Table := fun _ _ => .ok false

/-- Exception-aware evaluation of a probe-free tree (used for C08). -/
def evalPy (p : P) (x : PyVal) : Outcome := value noProbes p x

def Outcome.toBool : Outcome → Bool
  | .ok b => b
  | .raised _ => false

mutual
/-- Total Boolean semantics: exceptions read as `false`, no order of evaluation. -/
def evalB (T : Table) : P → PyVal → Bool
  | .atom a, x => (atomSem a x).toBool
  | .probe i, x => (T i x).toBool
  | .and l r, x => evalB T l x && evalB T r x
  | .or l r, x => evalB T l x || evalB T r x
  | .xor l r, x => evalB T l x != evalB T r x
  | .not p, x => !evalB T p x
  | .all p, x => ((iterElems x).getD []).all (fun y => evalB T p y)
  | .any p, x => ((iterElems x).getD []).any (fun y => evalB T p y)
  | .setOf p, x => ((iterElems x).getD []).all (fun y => evalB T p y)
  | .comp f p, x =>
    match applyBase f.base x with
    | .val y => evalB T p y
    | .err _ => false
  | .tee _, _ => true
  | .tupleOf ps, x =>
    let xs := (iterElems x).getD []
    xs.length == ps.chainLen && evalTupB T ps xs
  | .dictOf kvs, x => (value T (.dictOf kvs) x).toBool
  | .pnil, _ => false
  | .pcons _ _, _ => false
def evalTupB (T : Table) : P → List PyVal → Bool
  | .pcons h t, y :: ys => evalB T h y && evalTupB T t ys
  | _, _ => true
end

end PyPred
