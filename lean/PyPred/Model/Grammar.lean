/-
M4b  The Lark grammar of `predicate/parser.py` inside the model (C14, C20).

`predicate.parser.grammar` is a `Lark` object; the grammar it was built from is *data*.
This file holds that data as a Lean value, exactly as Lark compiles it:

* `reference : List Rule` – the 17 rules of `grammar.rules` (origin, expansion symbols with
  their `filter_out` flag, alias, `options.expand1`, `options.keep_all_tokens`), in the canonical
  order of `harness/grammar_reflect.py` (sorted by origin name, then by the names of the expansion).
  `rule.order` (the number of the alternative) and `options.priority` are left out: they only steer
  Lark's choice among several derivations, which is not modelled, so re-ordering alternatives does
  not touch anything proved here (it may change the precedence, which C14 observes);
* `terminals`, `ignore`, `start`, `options`, `callbacks` – `grammar.terminals` (name, pattern kind,
  pattern value, flags, priority), `grammar.ignore_tokens`, `grammar.options.start`, the parser
  options that select the algorithm, and the callback names of `_PredicateTransformer`;
* `referenceWire : WGrammar` – all of the above with names as strings.  On every run of the check
  `harness/grammar_reflect.py` reads the compiled Lark object of the code under test, prints it as a
  Lean term `g` and lets Lean check `example : g = PyPred.Grammar.referenceWire := by decide`.

On top of the data:

* `DTree` – derivation trees (node = rule applied + children, leaf = token);
* `isDerivation rules A ts d` – executable: `d` is a derivation of the token list `ts` from the
  non-terminal `A` with the rules `rules`;
* `shape` – Lark's parse-tree builder: what `grammar.parse` returns for a derivation (tokens whose
  symbol has `filter_out` are dropped unless the rule keeps all tokens; a rule with `expand1` and
  exactly one remaining child is replaced by that child; the node is labelled with the rule's origin);
* `transform` / `callback` – `_PredicateTransformer`, callback by callback (after fixes/parser-names.diff);
* `build d` – `_PredicateTransformer().transform(grammar.parse(text))` for the derivation Lark chose.

Tokens are those of `Model/Parser.lean` (`lexChars`): terminal `WORD` matches a name token, `TRUE` /
`FALSE` the keyword tokens (that Lark never reads the text `true` as a `WORD` is a fact about its
lexer and resolution; the check observes it on every sampled text, it is not derived here).
Lark's Earley engine and its choice among several derivations are not modelled.

No imports outside core Lean.
-/
import PyPred.Model.Parser

namespace PyPred
namespace Grammar
open Parser

/-! ## Symbols and rules -/

/-- the non-terminals (`rule.origin.name`) -/
inductive NT where
  | predicate | variable | expression
  | false_ | true_ | grouped | or_ | and_ | xor_ | not_
  deriving DecidableEq, Repr, Inhabited

/-- the terminals (`TerminalDef.name`); `IGNORE0` is `__IGNORE_0`, the blank of `%ignore " "` -/
inductive Term where
  | WORD | FALSE | TRUE | LPAR | RPAR | VBAR | AMPERSAND | CIRCUMFLEX | TILDE | IGNORE0
  deriving DecidableEq, Repr, Inhabited

/-- a symbol of an expansion; for a terminal `filterOut` is `Terminal.filter_out`
(set by Lark for anonymous string tokens such as `"("`) -/
inductive Sym where
  | nt (n : NT)
  | t (t : Term) (filterOut : Bool)
  deriving DecidableEq, Repr, Inhabited

structure Rule where
  origin : NT
  expansion : List Sym
  alias : Option String
  expand1 : Bool
  keepAll : Bool
  deriving DecidableEq, Repr, Inhabited

def NT.name : NT → String
  | .predicate => "predicate" | .variable => "variable" | .expression => "expression"
  | .false_ => "false" | .true_ => "true" | .grouped => "grouped_expression"
  | .or_ => "or_expression" | .and_ => "and_expression" | .xor_ => "xor_expression" | .not_ => "not_expression"

def Term.name : Term → String
  | .WORD => "WORD" | .FALSE => "FALSE" | .TRUE => "TRUE" | .LPAR => "LPAR" | .RPAR => "RPAR"
  | .VBAR => "VBAR" | .AMPERSAND => "AMPERSAND" | .CIRCUMFLEX => "CIRCUMFLEX" | .TILDE => "TILDE"
  | .IGNORE0 => "__IGNORE_0"

def allNT : List NT := [.predicate, .variable, .expression, .false_, .true_, .grouped, .or_, .and_, .xor_, .not_]
def allTerm : List Term := [.WORD, .FALSE, .TRUE, .LPAR, .RPAR, .VBAR, .AMPERSAND, .CIRCUMFLEX, .TILDE, .IGNORE0]

/-- an ordinary rule `origin : expansion` -/
def mk (o : NT) (e : List Sym) : Rule :=
  { origin := o, expansion := e, alias := none, expand1 := false, keepAll := false }

/-- an alternative of a `?rule` (Lark sets `expand1`) -/
def mk1 (o : NT) (e : List Sym) : Rule := { mk o e with expand1 := true }

def P : Sym := .nt .predicate

def rAnd : Rule := mk .and_ [P, .t .AMPERSAND true, P]
def rExprAnd : Rule := mk1 .expression [.nt .and_]
def rExprFalse : Rule := mk1 .expression [.nt .false_]
def rExprGrouped : Rule := mk1 .expression [.nt .grouped]
def rExprNot : Rule := mk1 .expression [.nt .not_]
def rExprOr : Rule := mk1 .expression [.nt .or_]
def rExprTrue : Rule := mk1 .expression [.nt .true_]
def rExprXor : Rule := mk1 .expression [.nt .xor_]
def rFalse : Rule := mk .false_ [.t .FALSE true]
def rGrouped : Rule := mk .grouped [.t .LPAR true, P, .t .RPAR true]
def rNot : Rule := mk .not_ [.t .TILDE true, P]
def rOr : Rule := mk .or_ [P, .t .VBAR true, P]
def rPredExpr : Rule := mk .predicate [.nt .expression]
def rPredVar : Rule := mk .predicate [.nt .variable]
def rTrue : Rule := mk .true_ [.t .TRUE true]
def rVariable : Rule := mk .variable [.t .WORD false]
def rXor : Rule := mk .xor_ [P, .t .CIRCUMFLEX true, P]

/-- `grammar.rules` of the pinned code, sorted by (origin name, names of the expansion) -/
def reference : List Rule :=
  [rAnd, rExprAnd, rExprFalse, rExprGrouped, rExprNot, rExprOr, rExprTrue, rExprXor, rFalse, rGrouped, rNot, rOr,
   rPredExpr, rPredVar, rTrue, rVariable, rXor]

/-- `grammar.options.start` -/
def start : NT := .predicate

/-! ## Terminals -/

structure TermDef where
  term : Term
  /-- `true`: `PatternRE`, `false`: `PatternStr` -/
  isRegexp : Bool
  /-- `pattern.value` -/
  value : String
  flags : List String
  priority : Int
  deriving DecidableEq, Repr

def strT (t : Term) (v : String) : TermDef := { term := t, isRegexp := false, value := v, flags := [], priority := 0 }

/-- `grammar.terminals`, sorted by name.  `WORD` is `common.WORD` = `LETTER+`, which Lark expands to the
regular expression below; `Parser.isLetter` is its character class. -/
def terminals : List TermDef :=
  [strT .AMPERSAND "&", strT .CIRCUMFLEX "^", strT .FALSE "false", strT .LPAR "(", strT .RPAR ")", strT .TILDE "~",
   strT .TRUE "true", strT .VBAR "|",
   { term := .WORD, isRegexp := true, value := "(?:(?:[A-Z]|[a-z]))+", flags := [], priority := 0 },
   strT .IGNORE0 " "]

/-- `grammar.ignore_tokens` -/
def ignore : List Term := [.IGNORE0]

/-- the parser options that select the algorithm and the form of its result (`ambiguity = resolve`: one tree) -/
def options : List (String × String) :=
  [("ambiguity", "resolve"), ("g_regex_flags", "0"), ("keep_all_tokens", "False"), ("lexer", "dynamic"),
   ("maybe_placeholders", "True"), ("parser", "earley")]

/-- which token a terminal matches (token level; the character level is `Parser.lexChars`) -/
def Term.matches : Term → Token → Bool
  | .WORD, .name _ => true
  | .FALSE, .ff => true
  | .TRUE, .tt => true
  | .LPAR, .lp => true
  | .RPAR, .rp => true
  | .VBAR, .or => true
  | .AMPERSAND, .and => true
  | .CIRCUMFLEX, .xor => true
  | .TILDE, .not => true
  | _, _ => false

/-! ## Derivation trees -/

inductive DTree where
  | leaf (t : Token)
  | node (r : Rule) (cs : List DTree)
  deriving Repr, Inhabited

mutual
/-- the tokens at the leaves, left to right -/
def yield : DTree → List Token
  | .leaf t => [t]
  | .node _ cs => yields cs
def yields : List DTree → List Token
  | [] => []
  | c :: cs => yield c ++ yields cs
end

mutual
/-- `wf rules s d`: `d` is a derivation tree for the symbol `s` – a leaf whose token the terminal matches, or a node
whose rule is one of `rules`, has origin `s`, and whose children are derivation trees for the symbols of the expansion -/
def wf (rules : List Rule) : Sym → DTree → Bool
  | .t T _, .leaf tok => T.matches tok
  | .nt A, .node r cs => decide (r ∈ rules) && decide (r.origin = A) && wfs rules r.expansion cs
  | _, _ => false
def wfs (rules : List Rule) : List Sym → List DTree → Bool
  | [], [] => true
  | s :: ss, c :: cs => wf rules s c && wfs rules ss cs
  | _, _ => false
end

/-- `d` is a derivation of the token list `ts` from the non-terminal `A` -/
def isDerivation (rules : List Rule) (A : NT) (ts : List Token) (d : DTree) : Bool :=
  wf rules (.nt A) d && decide (yield d = ts)

/-! ## What Lark hands to the transformer -/

/-- Lark's parse tree (`lark.Tree` / `lark.Token`) -/
inductive Raw where
  | tok (t : Token)
  | node (data : NT) (cs : List Raw)
  deriving Repr, Inhabited

def Sym.filtered : Sym → Bool
  | .t _ f => f
  | .nt _ => false

mutual
/-- `ParseTreeBuilder`: `ChildFilter` drops the tokens whose symbol has `filter_out` (unless the rule keeps all
tokens), `ExpandSingleChild` replaces a `?rule` node with exactly one child by that child -/
def shape : DTree → Raw
  | .leaf t => .tok t
  | .node r cs =>
    match r.expand1, shapes r.keepAll r.expansion cs with
    | true, [k] => k
    | _, ks => .node r.origin ks
def shapes (keep : Bool) : List Sym → List DTree → List Raw
  | s :: ss, c :: cs => if s.filtered && !keep then shapes keep ss cs else shape c :: shapes keep ss cs
  | _, _ => []
end

/-- what a callback of the transformer receives / returns: a predicate, or a token passed through unchanged -/
inductive V where
  | pred (t : Tree)
  | tok (t : Token)
  deriving DecidableEq, Repr, Inhabited

/-- the methods of `_PredicateTransformer`; `none` = the call raises or returns something that is not a predicate.
`expression` has no method (`__default__` would return a `lark.Tree`). -/
def callback : NT → List V → Option V
  | .predicate, v :: _ => some v                                    -- `return item[0]`
  | .grouped, v :: _ => some v                                      -- `return item[0]`
  | .and_, [.pred a, .pred b] => some (.pred (.and a b))            -- `left, right = items`
  | .or_, [.pred a, .pred b] => some (.pred (.or a b))
  | .xor_, [.pred a, .pred b] => some (.pred (.xor a b))
  | .not_, .pred a :: _ => some (.pred (.not a))                    -- `NotPredicate(predicate=item[0])`
  | .false_, _ => some (.pred .ff)                                  -- `always_false_p`
  | .true_, _ => some (.pred .tt)                                   -- `always_true_p`
  | .variable, .tok t :: _ => some (.pred (.var t.chars))           -- `NamedPredicate(name=str(item[0]))`
  | _, _ => none

/-- the names of the methods above, sorted -/
def callbacks : List NT := [.and_, .false_, .grouped, .not_, .or_, .predicate, .true_, .variable, .xor_]

mutual
/-- `Transformer.transform`: bottom-up, children first; tokens are passed through -/
def transform : Raw → Option V
  | .tok t => some (.tok t)
  | .node A ks =>
    match transforms ks with
    | some vs => callback A vs
    | none => none
def transforms : List Raw → Option (List V)
  | [] => some []
  | k :: ks =>
    match transform k, transforms ks with
    | some v, some vs => some (v :: vs)
    | _, _ => none
end

/-- `_PredicateTransformer().transform(grammar.parse(text))` for the derivation `d` that `grammar.parse` found -/
def build (d : DTree) : Option Tree :=
  match transform (shape d) with
  | some (.pred t) => some t
  | _ => none

/-! ## Specification: bracketings of a token list

What the grammar promises about the tree for the tokens `ts`, whatever derivation Lark picks: the same sequence
of names / constants / operators, every variable its exact name, every parenthesised group a sub-tree.  It is `Parser.Rd`
without the two levels: in a `Reading` the operand of `~` is the *operand* that follows (`~a & b` is `(~a) & b`), the
ambiguous grammar also has the derivation `~(a & b)`; which one `grammar.parse` returns is decided by Lark's
resolution (observed by the check of C14, not derived from the grammar). -/

inductive Bracketing : List Token → Tree → Prop
  | name (s) : Bracketing [.name s] (.var s)
  | tt : Bracketing [.tt] .tt
  | ff : Bracketing [.ff] .ff
  | grp {ts t} : Bracketing ts t → Bracketing (.lp :: ts ++ [.rp]) t
  | not {ts t} : Bracketing ts t → Bracketing (.not :: ts) (.not t)
  | and {l r a b} : Bracketing l a → Bracketing r b → Bracketing (l ++ .and :: r) (.and a b)
  | or {l r a b} : Bracketing l a → Bracketing r b → Bracketing (l ++ .or :: r) (.or a b)
  | xor {l r a b} : Bracketing l a → Bracketing r b → Bracketing (l ++ .xor :: r) (.xor a b)

/-- `u` occurs in `t` -/
inductive Subtree (u : Tree) : Tree → Prop
  | refl : Subtree u u
  | not {t} : Subtree u t → Subtree u (.not t)
  | andL {a b} : Subtree u a → Subtree u (.and a b)
  | andR {a b} : Subtree u b → Subtree u (.and a b)
  | orL {a b} : Subtree u a → Subtree u (.or a b)
  | orR {a b} : Subtree u b → Subtree u (.or a b)
  | xorL {a b} : Subtree u a → Subtree u (.xor a b)
  | xorR {a b} : Subtree u b → Subtree u (.xor a b)

/-! ## The compiled grammar with names as strings (what the reflection is compared with) -/

structure WSym where
  isTerm : Bool
  name : String
  filterOut : Bool
  deriving DecidableEq, Repr

structure WRule where
  origin : String
  expansion : List WSym
  alias : Option String
  expand1 : Bool
  keepAll : Bool
  deriving DecidableEq, Repr

structure WTerm where
  name : String
  isRegexp : Bool
  value : String
  flags : List String
  priority : Int
  deriving DecidableEq, Repr

structure WGrammar where
  rules : List WRule
  terminals : List WTerm
  ignore : List String
  start : List String
  options : List (String × String)
  callbacks : List String
  /-- features of the compiled grammar that the model has no field for (templates, empty indices, …) -/
  unsupported : List String
  deriving DecidableEq, Repr

def Sym.wire : Sym → WSym
  | .nt n => { isTerm := false, name := n.name, filterOut := false }
  | .t T f => { isTerm := true, name := T.name, filterOut := f }

def Rule.wire (r : Rule) : WRule :=
  { origin := r.origin.name, expansion := r.expansion.map Sym.wire, alias := r.alias,
    expand1 := r.expand1, keepAll := r.keepAll }

def TermDef.wire (t : TermDef) : WTerm :=
  { name := t.term.name, isRegexp := t.isRegexp, value := t.value, flags := t.flags, priority := t.priority }

def referenceWire : WGrammar :=
  { rules := reference.map Rule.wire, terminals := terminals.map TermDef.wire, ignore := ignore.map Term.name,
    start := [start.name], options := options, callbacks := callbacks.map NT.name, unsupported := [] }

end Grammar
end PyPred
