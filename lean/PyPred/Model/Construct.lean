/-
M7 `Construct` — predicate/constructor/construct.py as rounds of filtered candidates.

    def construct(false_set, true_set):
        predicates = list(initial_predicates())              -- `initial`   (14 type tests)
        while True:
            for predicate in predicates:                      -- candidate order
                if all_p(predicate)(true_set) and all_p(~predicate)(false_set):   -- `sepB`
                    yield predicate
            predicates = list(create_mutations(predicates))   -- `mutations`

    def create_mutations(candidates):
        for left, right in gray_product(candidates, candidates):   -- `grayPairs`
            if left != right:                                      -- `Pred.beq` (M1)
                yield left | right
                yield left & right

Candidates are M1 trees (`Pred V`, Model/Core.lean): the 14 initial predicates are
`ff tt (inst [bool]) (inst [datetime]) (inst [dict]) falsy (inst [float]) (inst [int])
(inst [list]) isNone isNotNone (inst [set]) (inst [str]) truthy`, class ids as in
harness/lift.py `CLASSES`.  `~p` is `NotPredicate(p)` = `.not p`, `all_p(p)` is
`.all p`, `!=` is the negation of Python `==` on predicates = `Pred.beq`.  The
example sets are Python lists = `List (Val V)`; what a type test / truthiness says
about an example is the uninterpreted `Interp` of M1, so everything proved holds
for every meaning of the 14 atoms.

The generator never terminates; the model exposes it through the number of
rounds entered (`constructRounds n`) and a length limit (`constructPrefix n limit`
= `take limit`); `prefixFrom` is the cheap form used by the driver (it does not
build the next round when the limit is already reached), proved equal in Props/C19.

No import outside core Lean (compiled into `driver_construct`).
-/
import PyPred.Model.Core

namespace PyPred
namespace Construct

/-! ### Class ids of harness/lift.py `CLASSES` used by the initial predicates -/
def cBool : Nat := 0
def cInt : Nat := 1
def cFloat : Nat := 2
def cStr : Nat := 3
def cList : Nat := 4
def cSet : Nat := 6
def cDict : Nat := 7
def cDatetime : Nat := 13

section Generic
variable {V : Type}

/-- `initial_predicates()`, in the order of the `yield`s. -/
def initial : List (Pred V) :=
  [ .ff, .tt, .inst [cBool], .inst [cDatetime], .inst [cDict], .falsy, .inst [cFloat],
    .inst [cInt], .inst [cList], .isNone, .isNotNone, .inst [cSet], .inst [cStr], .truthy ]

/-- `more_itertools.gray_product(A, B)` for two iterables (Knuth 7.2.1.1 Algorithm H
with two coordinates, first coordinate fastest): for the members `b` of `B` in
order, the members of `A` forwards, then backwards, then forwards … (boustrophedon),
so that consecutive pairs differ in one coordinate.  `gray_product` raises
`ValueError` when an iterable has fewer than two items; `construct` only calls it
with ≥ 14 candidates. -/
def grayGo {α : Type} (fwd bwd : List α) : List α → List (α × α)
  | [] => []
  | b :: rest => fwd.map (fun a => (a, b)) ++ grayGo bwd fwd rest

def grayPairs {α : Type} (A B : List α) : List (α × α) := grayGo A A.reverse B

variable [DecidableEq V]

/-- The two children of one ordered pair (none when `left == right`). -/
def mutatePair (lr : Pred V × Pred V) : List (Pred V) :=
  if Pred.beq lr.1 lr.2 then [] else [.or lr.1 lr.2, .and lr.1 lr.2]

/-- `create_mutations(candidates)`. -/
def mutations (cands : List (Pred V)) : List (Pred V) :=
  (grayPairs cands cands).flatMap mutatePair

/-- The candidate list of round `k` (independent of the example sets). -/
def round : Nat → List (Pred V)
  | 0 => initial
  | k + 1 => mutations (round k)

variable [LT V] [LE V] [DecidableLT V] [DecidableLE V]

/-- Type tag the harness gives a Python `list` (only `Interp` may read tags). -/
def tyList : Nat := 5

/-- The filter, literally: `all_p(p)(true_set) and all_p(~p)(false_set)` in the M1
semantics of `all` and `not`. -/
def sepB (I : Interp V) (F T : List (Val V)) (p : Pred V) : Bool :=
  eval I (.all p) (.coll tyList T) && eval I (.all (.not p)) (.coll tyList F)

/-- What one round yields, in candidate order. -/
def yieldsOf (I : Interp V) (F T : List (Val V)) (cands : List (Pred V)) : List (Pred V) :=
  cands.filter (sepB I F T)

/-- The stream through `n` rounds starting from the candidate list `cands`. -/
def streamFrom (I : Interp V) (F T : List (Val V)) : Nat → List (Pred V) → List (Pred V)
  | 0, _ => []
  | n + 1, cands => yieldsOf I F T cands ++ streamFrom I F T n (mutations cands)

/-- Everything `construct(F, T)` yields while it is in rounds `0 … n-1`. -/
def constructRounds (I : Interp V) (F T : List (Val V)) (n : Nat) : List (Pred V) :=
  streamFrom I F T n initial

/-- The first `limit` yields, looking at most `n` rounds deep. -/
def constructPrefix (I : Interp V) (F T : List (Val V)) (n limit : Nat) : List (Pred V) :=
  (constructRounds I F T n).take limit

/-- Cheap form for the driver: stop as soon as `limit` yields are there, without
building the next round. -/
def prefixFrom (I : Interp V) (F T : List (Val V)) : Nat → Nat → List (Pred V) → List (Pred V)
  | 0, _, _ => []
  | n + 1, limit, cands =>
    let ys := (yieldsOf I F T cands).take limit
    if limit ≤ ys.length then ys
    else
      match n with
      | 0 => ys          -- last round: do not build the next candidate list
      | m + 1 => ys ++ prefixFrom I F T (m + 1) (limit - ys.length) (mutations cands)

end Generic

/-! ### The concrete example universe of the driver

A value is a type tag plus a payload (`harness/props/c19.py: lift_example`): scalars
`sc ty code` (None, bool, int, float, str, datetime), collections `coll ty elems`
(list, set, dict — a dict is the collection of its keys).  Truthiness: None is
falsy, a datetime truthy, a string by emptiness, a number by `!= 0`, a collection
by emptiness.  `True` has tag bool and is both `is_bool_p` and `is_int_p`. -/
namespace Ex

def tyNone : Nat := 0
def tyBool : Nat := 1
def tyInt : Nat := 2
def tyFloat : Nat := 3
def tyStr : Nat := 4
-- 5 = list (tyList), 6 = tuple
def tySet : Nat := 7
def tyDict : Nat := 8
def tyDatetime : Nat := 9

/-- code of the empty string (harness/lift.py `STR_BASE`) -/
def emptyStr : Int := 200000

def tyOf : Val Int → Nat
  | .sc ty _ => ty
  | .coll ty _ => ty

/-- `isinstance(value of tag ty, CLASSES[c])` for the eight classes `construct` uses. -/
def instTable (c ty : Nat) : Bool :=
  match c with
  | 0 => ty == tyBool
  | 1 => ty == tyInt || ty == tyBool
  | 2 => ty == tyFloat
  | 3 => ty == tyStr
  | 4 => ty == tyList
  | 6 => ty == tySet
  | 7 => ty == tyDict
  | 13 => ty == tyDatetime
  | _ => false

def interp : Interp Int where
  var := fun _ v => v
  fn := fun _ _ => false
  inst := fun c x => instTable c (tyOf x)
  isNone := fun x => tyOf x == tyNone
  truthy := fun x =>
    match x with
    | .sc ty a =>
      if ty == tyNone then false else if ty == tyDatetime then true
      else if ty == tyStr then a != emptyStr else a != 0
    | .coll _ xs => !xs.isEmpty
  leaf := fun _ _ _ => false
  box := fun _ _ _ _ => false

end Ex

end Construct
end PyPred
