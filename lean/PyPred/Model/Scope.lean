/-
M7 `Scope` — the frame-walk resolution of `this_p` / `root_p` / `lazy_p`
(predicate/this_predicate.py, root_predicate.py, lazy_predicate.py) and evaluation
through resolved references (predicate.py `__call__`s, all_predicate.py,
comp_predicate.py, standard_predicates.py `PredicateFactory`).

What is modelled, arm for arm:

* `find_this_predicate` / `find_root_predicate`: frames innermost → outermost; in a
  frame the locals in insertion order (`this_p`) or reversed (`root_p`); a binding
  is accepted iff it is a Predicate, `value != node` (pinned) / `value is not node`
  (fixed), its name is not `self`, and `predicate_in_predicate_tree(value, node)`;
* `predicate_in_predicate_tree`: descends `All / And / Comp / Or`; a
  `PredicateFactory` matches when a *fresh* product of it `==` the node (pinned) /
  never (fixed); a leaf matches when `leaf == node` (pinned: every field-less
  reference node of the same class) / `leaf is node` (fixed);
* `find_predicate_by_ref`: first frame that binds the name, whatever the value is;
* `cached_property`: the first result — including `None` — is stored on the node,
  so the order of first calls matters (`Cache`);
* `__call__`: `or` / `and` short-circuit left to right, `all` stops at the first
  `False`, exceptions propagate and keep the cache entries made so far; a factory
  that is called raises `ValueError`; an unresolved reference raises `ValueError`;
  a `lazy_p` name bound to a non-predicate raises `TypeError` (truthy value) or
  `ValueError` (falsy value).

CPython is *not* modelled here: a request gives the stack of user frames as ordered
lists of bindings (the library's own frames between the call site and the reference
node bind only `self`, `x`, `iterable`, `.0` and are transparent as long as no value
is itself a Predicate and no `lazy_p` name is one of those four).

No imports outside core Lean (compiled into `driver_scope`).
-/

namespace PyPred.Scope

/-- Nested Python values.  `seq 0` = list, `seq 1` = tuple, `seq 2` = a
`dict_values` view; dictionary keys are atoms (given by their kind). -/
inductive Value where
  | atom (kind : Nat)
  | seq (kind : Nat) (xs : List Value)
  | dict (keys : List Nat) (vals : List Value)
  deriving Repr, Inhabited

mutual
  /-- Nesting depth: atoms 0, a container one more than its deepest member. -/
  def Value.depth : Value → Nat
    | .atom _ => 0
    | .seq _ xs => depthList xs + 1
    | .dict _ vs => depthList vs + 1
  def depthList : List Value → Nat
    | [] => 0
    | x :: xs => max x.depth (depthList xs)
end

/-- Kind of the one string atom of the universe: a one-character string, which
iterates to itself. -/
def strKind : Nat := 0

/-- `iter(x)`: `none` = `TypeError: object is not iterable`. -/
def elems : Value → Option (List Value)
  | .seq _ xs => some xs
  | .dict ks _ => some (ks.map .atom)
  | .atom k => if k == strKind then some [.atom k] else none

/-- The functions used with `comp_p`: 0 = `lambda x: x.values()`; `none` =
`AttributeError`.  Every other id is the identity. -/
def applyFn : Nat → Value → Option Value
  | 0, .dict _ vs => some (.seq 2 vs)
  | 0, _ => none
  | _, x => some x

inductive RefKind where
  | this | root
  deriving DecidableEq, Repr, Inhabited

/-- Predicate trees.  Reference nodes carry an object identity `id`. -/
inductive Pred where
  | base (b : Nat)                 -- an opaque total test (is_str_p, is_int_p, …)
  | isSeq (kind : Nat)             -- is_list_p (0), is_tuple_p (1)
  | isDict
  | or (l r : Pred)
  | and (l r : Pred)
  | all (p : Pred)
  | comp (f : Nat) (p : Pred)
  | ref (k : RefKind) (id : Nat)   -- ThisPredicate() / RootPredicate() object
  | lazy (id : Nat) (name : String)
  | factory (k : RefKind)          -- the PredicateFactory objects `this_p`, `root_p`
  deriving DecidableEq, Repr, Inhabited

/-- What a name is bound to in a frame. -/
inductive Binding where
  | pred (p : Pred)
  | other (truthy : Bool)          -- any non-Predicate object
  deriving DecidableEq, Repr, Inhabited

abbrev Frame := List (String × Binding)
/-- Innermost frame first. -/
abbrev Stack := List Frame

/-- `identity = false`: the pinned code (`==` / `!=`); `true`: the repaired code
(`is` / `is not`, factory arm never matches).
`cacheNone = true`: the pinned code (`cached_property` stores the `None` of a failed
walk, so the node raises forever); `false`: a failed walk stores nothing. -/
structure Cfg where
  identity : Bool
  cacheNone : Bool
  deriving DecidableEq, Repr, Inhabited

def Cfg.pinned : Cfg := ⟨false, true⟩
def Cfg.fixed : Cfg := ⟨true, false⟩

/-- `leaf == node` (pinned) / `leaf is node` (fixed) for a reference node `(k, id)`. -/
def sameNode (cfg : Cfg) (k : RefKind) (id : Nat) : Pred → Bool
  | .ref k' j => k' == k && (!cfg.identity || j == id)
  | _ => false

/-- `predicate_in_predicate_tree(tree, node)`. -/
def inTree (cfg : Cfg) (k : RefKind) (id : Nat) : Pred → Bool
  | .all p => inTree cfg k id p
  | .and l r => inTree cfg k id l || inTree cfg k id r
  | .comp _ p => inTree cfg k id p
  | .or l r => inTree cfg k id l || inTree cfg k id r
  | .factory k' => !cfg.identity && k' == k
  | t => sameNode cfg k id t

/-- The test applied to every local of a frame. -/
def candidate (cfg : Cfg) (k : RefKind) (id : Nat) (key : String) : Binding → Bool
  | .pred v => !sameNode cfg k id v && key != "self" && inTree cfg k id v
  | .other _ => false

def pickCandidate (cfg : Cfg) (k : RefKind) (id : Nat) : String × Binding → Option Pred
  | (key, .pred v) => if candidate cfg k id key (.pred v) then some v else none
  | (_, .other _) => none

/-- Scan order inside one frame. -/
def scanOrder (k : RefKind) (fr : Frame) : Frame :=
  match k with
  | .this => fr
  | .root => fr.reverse

def scanFrame (cfg : Cfg) (k : RefKind) (id : Nat) (fr : Frame) : Option Pred :=
  (scanOrder k fr).findSome? (pickCandidate cfg k id)

/-- `find_this_predicate` / `find_root_predicate`. -/
def findRef (cfg : Cfg) (k : RefKind) (id : Nat) : Stack → Option Pred
  | [] => none
  | fr :: rest =>
    match scanFrame cfg k id fr with
    | some p => some p
    | none => findRef cfg k id rest

def lookupName (name : String) : Frame → Option Binding
  | [] => none
  | (key, b) :: rest => if key == name then some b else lookupName name rest

/-- `find_predicate_by_ref`. -/
def findLazy (name : String) : Stack → Option Binding
  | [] => none
  | fr :: rest =>
    match lookupName name fr with
    | some b => some b
    | none => findLazy name rest

/-- The uncached resolution of a reference node (`none` also for non-reference nodes). -/
def resolveRaw (cfg : Cfg) (st : Stack) : Pred → Option Binding
  | .ref k id => (findRef cfg k id st).map .pred
  | .lazy _ name => findLazy name st
  | _ => none

def nodeId : Pred → Nat
  | .ref _ id => id
  | .lazy id _ => id
  | _ => 0

/-- `cached_property` storage: node id ↦ stored result (`none` = the stored `None`). -/
abbrev Cache := List (Nat × Option Binding)

def Cache.get (c : Cache) (id : Nat) : Option (Option Binding) :=
  match c with
  | [] => none
  | (j, v) :: rest => if j == id then some v else Cache.get rest id

/-- `if self.predicate:` — a Predicate or any other truthy object. -/
def truthy : Option Binding → Bool
  | some (.pred _) => true
  | some (.other t) => t
  | none => false

/-- Resolution with the cache: a stored result wins; otherwise resolve against the
stack of *this* call and store — the pinned code stores every result, the repaired
code (`del self.<attr>` before raising) only a result it can call. -/
def resolve (cfg : Cfg) (st : Stack) (node : Pred) (c : Cache) : Option Binding × Cache :=
  match c.get (nodeId node) with
  | some r => (r, c)
  | none =>
    let r := resolveRaw cfg st node
    (r, if cfg.cacheNone || truthy r then (nodeId node, r) :: c else c)

inductive Outcome where
  | ok (b : Bool)
  | valueError
  | typeError
  | attrError
  | recursion        -- out of fuel = RecursionError
  deriving DecidableEq, Repr, Inhabited

abbrev Res := Outcome × Cache

/-- `all(f(x) for x in xs)`. -/
def allList (f : Value → Cache → Res) : List Value → Cache → Res
  | [], c => (.ok true, c)
  | x :: xs, c =>
    match f x c with
    | (.ok true, c') => allList f xs c'
    | r => r

def isSeqB (kind : Nat) : Value → Bool
  | .seq k _ => k == kind
  | _ => false

def isDictB : Value → Bool
  | .dict _ _ => true
  | _ => false

/-- One call `p(x)`; reference nodes are handed to `deref`. -/
def evalP (I : Nat → Value → Bool) (deref : Pred → Value → Cache → Res) : Pred → Value → Cache → Res
  | .base b, x, c => (.ok (I b x), c)
  | .isSeq k, x, c => (.ok (isSeqB k x), c)
  | .isDict, x, c => (.ok (isDictB x), c)
  | .or l r, x, c =>
    match evalP I deref l x c with
    | (.ok false, c') => evalP I deref r x c'
    | res => res
  | .and l r, x, c =>
    match evalP I deref l x c with
    | (.ok true, c') => evalP I deref r x c'
    | res => res
  | .all p, x, c =>
    match elems x with
    | none => (.typeError, c)
    | some xs => allList (evalP I deref p) xs c
  | .comp f p, x, c =>
    match applyFn f x with
    | none => (.attrError, c)
    | some y => evalP I deref p y c
  | .factory _, _, c => (.valueError, c)
  | .ref k id, x, c => deref (.ref k id) x c
  | .lazy id n, x, c => deref (.lazy id n) x c

/-- What a reference node does with its (cached) resolution. -/
def derefWith (cfg : Cfg) (st : Stack) (call : Pred → Value → Cache → Res)
    (node : Pred) (x : Value) (c : Cache) : Res :=
  match resolve cfg st node c with
  | (none, c') => (.valueError, c')
  | (some (.pred t), c') => call t x c'
  | (some (.other true), c') => (.typeError, c')
  | (some (.other false), c') => (.valueError, c')

/-- `p(x)` called from a site whose user frames are `st`, with `fuel` bounding the
number of nested dereferences. -/
def evalRec (cfg : Cfg) (I : Nat → Value → Bool) (st : Stack) : Nat → Pred → Value → Cache → Res
  | 0, _, _, c => (.recursion, c)
  | n + 1, p, x, c => evalP I (derefWith cfg st (evalRec cfg I st n)) p x c

/-- Reference-free, total predicates (what `base` may be in `P = base | is_list_of_p(this_p)`). -/
def Pred.simple : Pred → Bool
  | .base _ => true
  | .isSeq _ => true
  | .isDict => true
  | .or l r => l.simple && r.simple
  | .and l r => l.simple && r.simple
  | _ => false

def evalS (I : Nat → Value → Bool) : Pred → Value → Bool
  | .base b, x => I b x
  | .isSeq k, x => isSeqB k x
  | .isDict, x => isDictB x
  | .or l r, x => evalS I l x || evalS I r x
  | .and l r, x => evalS I l x && evalS I r x
  | _, _ => false

mutual
  /-- The recursive definition that `P = base | is_list_of_p(<reference to P>)` is
  meant to denote. -/
  def spec (I : Nat → Value → Bool) (base : Pred) : Value → Bool
    | .atom k => evalS I base (.atom k)
    | .seq k xs => evalS I base (.seq k xs) || (k == 0 && specList I base xs)
    | .dict ks vs => evalS I base (.dict ks vs)
  def specList (I : Nat → Value → Bool) (base : Pred) : List Value → Bool
    | [] => true
    | x :: xs => spec I base x && specList I base xs
end

/-- `is_list_of_p(p)` = `is_list_p & all_p(p)`. -/
def listOf (p : Pred) : Pred := .and (.isSeq 0) (.all p)

/-- `base | is_list_of_p(node)`. -/
def recDef (base node : Pred) : Pred := .or base (listOf node)

/-! ### The library's own `is_json_p` (standard_predicates.py) -/

namespace Json
def bStr : Nat := 0
def bInt : Nat := 1
def bFloat : Nat := 2
def bNone : Nat := 3
def idValid : Nat := 1000     -- `_valid_json_p = lazy_p("is_json_p")`
def idValues : Nat := 1001    -- the `lazy_p("json_values")` inside `json_list_p`

def validJson : Pred := .lazy idValid "is_json_p"
def jsonList : Pred := .and (.isSeq 0) (.lazy idValues "json_values")
def jsonKeys : Pred := .all (.base bStr)
def jsonValues : Pred :=
  .all (.or (.or (.or (.or (.or (.base bStr) (.base bInt)) (.base bFloat)) jsonList) validJson) (.base bNone))
def jsonValuesP : Pred := .comp 0 jsonValues
def isJson : Pred := .or (.and (.and .isDict jsonKeys) jsonValuesP) jsonList

/-- Cache of the two library nodes after the proposed repair (both references
bound in the defining module at import time). -/
def seeded : Cache := [(idValid, some (.pred isJson)), (idValues, some (.pred jsonValues))]

mutual
  /-- JSON-shaped data: a dict with string keys and JSON values, or a list of JSON values. -/
  def jsonSpec (I : Nat → Value → Bool) : Value → Bool
    | .atom _ => false
    | .seq k xs => k == 0 && jsonVals I xs
    | .dict ks vs => ks.all (fun k => I bStr (.atom k)) && jsonVals I vs
  /-- every member is a JSON value: str / int / float / None, or JSON-shaped. -/
  def jsonVals (I : Nat → Value → Bool) : List Value → Bool
    | [] => true
    | x :: xs =>
      (I bStr x || I bInt x || I bFloat x || jsonSpec I x || I bNone x) && jsonVals I xs
end
end Json

end PyPred.Scope
