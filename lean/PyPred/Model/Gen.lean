/-
M6 (part 2) `Gen` — the value generators `generate_true` / `generate_false`
(predicate/generator/{helpers,generate_true,generate_false}.py, *after* the fix diffs
fixes/gen-*.diff, including the phase-2 ones gen-notin-fallback and gen-unhashable-set and the
clamp of gen-float-overflow at the edge of the double range) as first-order generator states `G` with a pull semantics driven by a tape.

No import outside core Lean (compiled into `driver_gen`).

Python generators are lazy and all draw from the global `random` state, so the order in which
nested / interleaved generators draw matters.  A generator object is a term of `G`
(defunctionalised: the constructor says which `while True:` body it is in, its fields are the
live local variables); `pull fuel g tape` is one `next()`:
  `yield v g' tape'` | `stop tape'` (StopIteration) | `error e` (an exception leaves the
  generator) | `starved` (fuel ran out before any of these — the model of "spins").
Every recursive descent (a sub-generator's `next`, a loop iteration that does not yield)
costs one unit of fuel.

Randomness.  The tape is a list of *raw* integers; a draw with contract `lo ≤ answer ≤ hi`
answers `clamp raw lo hi`, so every tape is a valid behaviour of the random source and every
valid answer is produced by some tape (`raw = answer`).  Past its end the tape reads `0`.
Every draw is logged as a request `(kind, lo, hi)`; the correspondence compares the log with
what the implementation asked of `random.*`, `uuid4`, `datetime.now`.
External pieces modelled from their documented behaviour: `random.randint/uniform/randrange/
choices`, `uuid.uuid4`, `datetime.now`, `more_itertools.take / interleave /
random_combination_with_replacement / random_permutation / powerset_of_sets`, `zip`,
`itertools.cycle/repeat`, `math.nextafter` (computed exactly on float units).
`random_permutation(set)` has no observable order (set iteration order is hash dependent):
the model yields the members sorted by `GVal.key`, and so does the patched `sample` in the harness.
-/
import PyPred.Model.GenVal

namespace PyPred
namespace Gen

open GVal (pyEq truthy hashable hashableL mkSet dictSet sortKey)
open PyVal (Klass)

/-! ### The random source -/

inductive ReqKind where
  | randint | uniform | randrange | choices | uuid4 | now | sample
  deriving DecidableEq, Repr, Inhabited

structure Req where
  kind : ReqKind
  lo : Int
  hi : Int
  deriving Repr, Inhabited

/-- Raw answers still to be consumed, and the requests made so far (latest first). -/
structure Tape where
  raws : List Int
  log : List Req
  deriving Inhabited

def clamp (r lo hi : Int) : Int := max lo (min r hi)

/-- One raw number (0 past the end). -/
def Tape.raw (t : Tape) : Int × Tape := (t.raws.headD 0, { t with raws := t.raws.tail })

def Tape.note (t : Tape) (k : ReqKind) (lo hi : Int) : Tape := { t with log := ⟨k, lo, hi⟩ :: t.log }

/-- `random.randint(lo, hi)` (called with `lo ≤ hi` only). -/
def Tape.randint (t : Tape) (lo hi : Int) : Int × Tape :=
  let (r, t') := (t.note .randint lo hi).raw
  (clamp r lo hi, t')

/-- `random.uniform(lo, hi)` in float units. -/
def Tape.uniform (t : Tape) (lo hi : Int) : Int × Tape :=
  let (r, t') := (t.note .uniform lo hi).raw
  (clamp r lo hi, t')

/-- `randrange(n)` for `n > 0`. -/
def Tape.randrange (t : Tape) (n : Nat) : Nat × Tape :=
  let (r, t') := (t.note .randrange 0 ((n : Int) - 1)).raw
  ((clamp r 0 ((n : Int) - 1)).toNat, t')

/-- `k` raw numbers clamped to `[0, hi]`. -/
def Tape.rawsBelow : Nat → Int → Tape → List Nat × Tape
  | 0, _, t => ([], t)
  | k + 1, hi, t =>
    let (r, t1) := t.raw
    let (rs, t2) := Tape.rawsBelow k hi t1
    ((clamp r 0 hi).toNat :: rs, t2)

/-- `choices(population, k=k)` over the 62 letters and digits: one request, `k` answers. -/
def Tape.choices (t : Tape) (k : Nat) : List Nat × Tape :=
  Tape.rawsBelow k 61 (t.note .choices 62 k)

def Tape.uuid4 (t : Tape) : Nat × Tape :=
  let (r, t') := (t.note .uuid4 0 (2 ^ 128 - 1)).raw
  ((clamp r 0 (2 ^ 128 - 1)).toNat, t')

/-- Microseconds from `datetime.min` to about the years 1902 and 2219. -/
def nowLo : Int := 60000000000000000
def nowHi : Int := 70000000000000000

/-- `datetime.now()`: any instant of the last or the next centuries. -/
def Tape.now (t : Tape) : Int × Tape :=
  let (r, t') := (t.note .now nowLo nowHi).raw
  (clamp r nowLo nowHi, t')

/-! ### Floats: `math.nextafter` on float units, the constants of the generators -/

def nextUpNat (m : Nat) : Nat := m + 2 ^ (Nat.log2 m - 52)

def nextDownNat (m : Nat) : Nat :=
  let e := Nat.log2 m
  if m == 2 ^ e && 53 ≤ e then m - 2 ^ (e - 53) else m - 2 ^ (e - 52)

/-- `math.nextafter(x, inf)` for a finite double below the largest one. -/
def nextUp (k : Int) : Int := if 0 ≤ k then (nextUpNat k.toNat : Int) else - (nextDownNat (-k).toNat : Int)
/-- `math.nextafter(x, -inf)` for a finite double above the smallest one. -/
def nextDown (k : Int) : Int := - nextUp (-k)

/-- `sys.float_info.max` = (2^53 − 1)·2^971 in float units. -/
def maxF : Int := (2 ^ 53 - 1) * 2 ^ (971 + 1074)

/-- A float that is not NaN: a finite number of float units, or an infinity.  The bounds
`random_floats` works with (`math.nextafter` leaves the finite range at `±maxF`; `2 * bound`
overflows beyond `maxF / 2`). -/
inductive XF where
  | fin (k : Int)
  | inf (neg : Bool)
  deriving Repr, Inhabited, DecidableEq

namespace XF

def val : XF → GVal
  | .fin k => .flt k
  | .inf n => .inf n

/-- `a <= b` on floats. -/
def le : XF → XF → Bool
  | .inf true, _ => true
  | _, .inf false => true
  | .fin a, .fin b => decide (a ≤ b)
  | _, _ => false

/-- `a < b`. -/
def lt (a b : XF) : Bool := !(le b a)

/-- Python `min(a, b)` / `max(a, b)` (the first argument unless the second is strictly better). -/
def min (a b : XF) : XF := if lt b a then b else a
def max (a b : XF) : XF := if lt a b then b else a

/-- `2 * x` in double arithmetic: exact (a change of exponent), or the infinity of the same
sign once the exact product lies beyond `±maxF`. -/
def dbl : XF → XF
  | .fin k => if maxF < 2 * k then .inf false else if 2 * k < -maxF then .inf true else .fin (2 * k)
  | .inf n => .inf n

def neg : XF → XF
  | .fin k => .fin (-k)
  | .inf n => .inf (!n)

end XF

/-- `math.nextafter(x, math.inf)`: `+inf` at (or beyond) the largest double, `-maxF` at `-inf`. -/
def nextUpX : XF → XF
  | .fin k => if maxF ≤ k then .inf false else .fin (nextUp k)
  | .inf true => .fin (-maxF)
  | .inf false => .inf false

/-- `math.nextafter(x, -math.inf)`. -/
def nextDownX (x : XF) : XF := (nextUpX x.neg).neg

/-- `-1e-6`, `1e6`, `3.14` in float units (`float.as_integer_ratio`: m / 2^e). -/
def cLo : Int := -(4722366482869645 * 2 ^ (1074 - 72))
def cHi : Int := 1000000 * 2 ^ 1074
def c314 : Int := 7070651414971679 * 2 ^ (1074 - 51)

/-- One day in microseconds. -/
def dayUs : Int := 86400000000

/-- `string.ascii_letters + string.digits`. -/
def popChar (i : Nat) : Nat := if i < 26 then 97 + i else if i < 52 then 65 + (i - 26) else 48 + (i - 52)

/-! ### Generator states -/

inductive MapFn where
  | toDict                -- `dict(chunked(candidate, 2))`
  | mergeKey (k : GVal)   -- `random_dict | {key: value}` on the pair `(random_dict, value)`
  deriving Inhabited, Repr

inductive G where
  | ofList (xs : List GVal)                 -- `yield from (a, b, …)`, a single `yield`, `yield from []`
  | rep (v : GVal)                          -- `itertools.repeat(v)`
  | cycBool (b : Bool)                      -- `cycle((False, True))`
  | ints (lo hi : Option Int) (ph j : Nat)  -- `random_ints`: window 10^ph, `j` draws made in it
  | floats (lo hi : XF) (ph : Nat)          -- `random_floats` with resolved bounds: lower, upper, then uniform (or lower)
  | strings                                 -- `random_strings()`
  | uuids                                   -- `random_uuids()`
  | nowOnce                                 -- `random_datetimes()`
  | dicts (first : Bool)                    -- `random_dicts()`
  | sets (first : Bool)                     -- `random_sets()`
  | filter (p : GP) (neg : Bool) (g : G)    -- `(item for item in g if p(item))` / `if not p(item)`
  | chain (g h : G)                         -- two `yield from` in sequence
  | zipNil                                  -- end of a `zip` argument list
  | zipCons (g z : G)                       -- `zip(g, *z)`: yields the tuple of one item of each
  | flat (z : G) (buf : List GVal)          -- `chain.from_iterable(z)` = `interleave`
  | map (f : MapFn) (g : G)
  | allT (tmpl : G) (ph n : Nat)            -- generate_true(all_p): `[]`, then tuple / set / list rounds
  | anyT (tmpl : G)                         -- generate_true(any_p) before its first yield
  | anyT2 (vals : List GVal)                --   … between its two yields
  | setOfT (tmpl : G)                       -- generate_true(set_of)
  | allF (tmpl : G)                         -- generate_false(all_p)
  | setOfF (tmpl : G)                       -- generate_false(set_of)
  deriving Inhabited, Repr

inductive Res where
  | yield (v : GVal) (g : G) (t : Tape)
  | stop (t : Tape)
  | error (e : Err)
  | starved
  deriving Inhabited

inductive TakeRes where
  | ok (vs : List GVal) (t : Tape)
  | error (e : Err)
  | starved
  deriving Inhabited

/-- `take(n, g)` = `list(islice(g, n))`, every `next` done by `step`. -/
def takeWith (step : G → Tape → Res) : Nat → G → Tape → TakeRes
  | 0, _, t => .ok [] t
  | n + 1, g, t =>
    match step g t with
    | .yield v g' t' =>
      match takeWith step n g' t' with
      | .ok vs t'' => .ok (v :: vs) t''
      | r => r
    | .stop t' => .ok [] t'
    | .error e => .error e
    | .starved => .starved

/-- `random_anys()` = `interleave(random_ints(), random_strings(), random_floats())`. -/
def anys : G :=
  .flat (.zipCons (.ints none none 0 0) (.zipCons .strings (.zipCons (.floats (.fin cLo) (.fin cHi) 0) .zipNil))) []

/-- `random_floats(lower=…, upper=…)` with the defaults of fixes/gen-float-defaults.diff as clamped by
fixes/gen-float-overflow.diff:
`lower = -1e-6 if upper is None else min(upper, max(min(-1e-6, 2 * upper), -sys.float_info.max))`,
`upper = max(lower, min(max(1e6, 2 * lower), sys.float_info.max))`. -/
def floatsFrom (lower upper : Option XF) : G :=
  let lo := match lower with
    | some l => l
    | none => match upper with
      | none => .fin cLo
      | some u => XF.min u (XF.max (XF.min (.fin cLo) u.dbl) (.fin (-maxF)))
  let hi := match upper with
    | some u => u
    | none => XF.max lo (XF.min (XF.max (.fin cHi) lo.dbl) (.fin maxF))
  .floats lo hi 0

/-- `random_ints`: the point of `[lower, upper]` nearest to zero (fixes/gen-int-windows.diff). -/
def center (lo hi : Option Int) : Int :=
  let c : Int := match lo with
    | some l => if l > 0 then l else 0
    | none => 0
  match hi with
  | some u => if u < 0 then u else c
  | none => c

def windowLow (lo : Option Int) (c limit : Int) : Int :=
  match lo with
  | none => c - limit
  | some l => max (c - limit) l

def windowHigh (hi : Option Int) (c limit : Int) : Int :=
  match hi with
  | none => c + limit
  | some u => min (c + limit) u

def emptyRange : Option Int → Option Int → Bool
  | some l, some u => l > u
  | _, _ => false

def insertNat (x : Nat) : List Nat → List Nat
  | [] => [x]
  | y :: ys => if x ≤ y then x :: y :: ys else y :: insertNat x ys

def sortNat : List Nat → List Nat
  | [] => []
  | x :: xs => insertNat x (sortNat xs)

/-- `pool[i]`. -/
def pick (vals : List GVal) (i : Nat) : GVal := (vals[i]?).getD (vals.headD .none)

def drawIdx : Nat → Nat → Tape → List Nat × Tape
  | 0, _, t => ([], t)
  | r + 1, n, t =>
    let (i, t1) := t.randrange n
    let (is, t2) := drawIdx r n t1
    (i :: is, t2)

/-- `random_combination_with_replacement(vals, r)` for a non-empty pool:
`sorted(randrange(n) for _ in range(r))`, then the members at those indices. -/
def comb (vals : List GVal) (r : Nat) (t : Tape) : List GVal × Tape :=
  let (is, t') := drawIdx r vals.length t
  ((sortNat is).map (pick vals), t')

/-- `dict(zip(keys, values))`. -/
def zipDict : List GVal → List GVal → List GVal → List GVal
  | k :: ks, v :: vs, acc => zipDict ks vs (dictSet acc k v)
  | _, _, acc => acc

/-- `dict(chunked(xs, 2))`: `TypeError` for an unhashable key, `ValueError` for an odd tail. -/
def chunkDict : List GVal → List GVal → Except Err (List GVal)
  | k :: v :: rest, acc => if hashable k then chunkDict rest (dictSet acc k v) else .error .typeError
  | [_], _ => .error .valueError
  | [], acc => .ok acc

def applyMap : MapFn → GVal → Except Err GVal
  | .toDict, .tuple xs => (chunkDict xs []).map GVal.dict
  | .mergeKey k, .tuple [.dict items, v] => if hashable k then .ok (.dict (dictSet items k v)) else .error .typeError
  | _, _ => .error (.other 0)

/-- The list round of `generate_true(all_p)`: `values = take(n, …)`, stop on an empty pool, else
`yield list(random_combination_with_replacement(values, n))`. -/
def allList (step : G → Tape → Res) (tmpl : G) (n : Nat) (t : Tape) : Res :=
  match takeWith step n tmpl t with
  | .ok [] t2 => .stop t2
  | .ok vals t2 =>
    let (xs, t3) := comb vals n t2
    .yield (.list xs) (.allT tmpl 1 0) t3
  | .error e => .error e
  | .starved => .starved

/-- One `next()`. -/
def pull : Nat → G → Tape → Res
  | 0, _, _ => .starved
  | fuel + 1, g, t =>
    match g with
    | .ofList [] => .stop t
    | .ofList (x :: xs) => .yield x (.ofList xs) t
    | .rep v => .yield v (.rep v) t
    | .cycBool b => .yield (.bool b) (.cycBool (!b)) t
    | .ints lo hi ph j =>
      if emptyRange lo hi then .stop t
      else
        let limit : Nat := 10 ^ ph
        let c := center lo hi
        let low := windowLow lo c limit
        let high := windowHigh hi c limit
        if low ≤ high then
          let (a, t') := t.randint low high
          .yield (.int a) (if j + 1 < limit then .ints lo hi ph (j + 1) else .ints lo hi ((ph + 1) % 3) 0) t'
        else pull fuel (.ints lo hi ((ph + 1) % 3) 0) t
    | .floats lo hi ph =>
      match ph with
      | 0 => .yield lo.val (.floats lo hi 1) t
      | 1 => .yield hi.val (.floats lo hi 2) t
      | _ =>
        -- `yield random.uniform(lower, upper) if lower < upper else lower`
        if lo.lt hi then
          match lo, hi with
          | .fin a, .fin b =>
            let (x, t') := t.uniform a b
            .yield (.flt x) (.floats lo hi 2) t'
          | _, _ => .error (.other 2)   -- `uniform` with an infinite end (inf or nan): outside the model; not reachable
                                        -- from a finite comparison bound (`Bounded`, `floatsFrom_okPair`)
        else .yield lo.val (.floats lo hi 2) t
    | .strings =>
      let (n, t1) := t.randint 0 10
      let (is, t2) := t1.choices n.toNat
      .yield (.str (is.map popChar)) .strings t2
    | .uuids =>
      let (n, t') := t.uuid4
      .yield (.uuid n) .uuids t'
    | .nowOnce =>
      let (a, t') := t.now
      .yield (.dt a) (.ofList []) t'
    | .dicts true => .yield (.dict []) (.dicts false) t
    | .dicts false =>
      match takeWith (pull fuel) 5 .strings t with
      | .ok keys t1 =>
        match takeWith (pull fuel) 5 anys t1 with
        | .ok vals t2 => .yield (.dict (zipDict keys vals [])) (.dicts false) t2
        | .error e => .error e
        | .starved => .starved
      | .error e => .error e
      | .starved => .starved
    | .sets true => .yield (.set []) (.sets false) t
    | .sets false =>
      let (n, t1) := t.randint 0 10
      match takeWith (pull fuel) n.toNat anys t1 with
      | .ok vals t2 =>
        match mkSet vals with
        | .ok s => .yield s (.sets false) t2
        | .error e => .error e
      | .error e => .error e
      | .starved => .starved
    | .filter p neg g =>
      match pull fuel g t with
      | .yield v g' t' =>
        match evalG p v with
        | .ok b => if b != neg then .yield v (.filter p neg g') t' else pull fuel (.filter p neg g') t'
        | .raised e => .error e
      | .stop t' => .stop t'
      | .error e => .error e
      | .starved => .starved
    | .chain g h =>
      match pull fuel g t with
      | .yield v g' t' => .yield v (.chain g' h) t'
      | .stop t' => pull fuel h t'
      | .error e => .error e
      | .starved => .starved
    | .zipNil => .yield (.tuple []) .zipNil t
    | .zipCons g z =>
      match pull fuel g t with
      | .yield x g' t1 =>
        match pull fuel z t1 with
        | .yield (.tuple xs) z' t2 => .yield (.tuple (x :: xs)) (.zipCons g' z') t2
        | .yield _ _ _ => .error (.other 1)
        | .stop t2 => .stop t2
        | .error e => .error e
        | .starved => .starved
      | .stop t1 => .stop t1
      | .error e => .error e
      | .starved => .starved
    | .flat z (v :: buf) => .yield v (.flat z buf) t
    | .flat z [] =>
      match pull fuel z t with
      | .yield (.tuple (x :: xs)) z' t' => .yield x (.flat z' xs) t'
      | .yield _ _ t' => .stop t'
      | .stop t' => .stop t'
      | .error e => .error e
      | .starved => .starved
    | .map f g =>
      match pull fuel g t with
      | .yield v g' t' =>
        match applyMap f v with
        | .ok w => .yield w (.map f g') t'
        | .error e => .error e
      | .stop t' => .stop t'
      | .error e => .error e
      | .starved => .starved
    | .allT tmpl 0 _ => .yield (.list []) (.allT tmpl 1 0) t
    | .allT tmpl 1 _ =>
      let (n, t1) := t.randint 1 10
      match takeWith (pull fuel) n.toNat tmpl t1 with
      | .ok [] t2 => .stop t2
      | .ok vals t2 =>
        let (xs, t3) := comb vals n.toNat t2
        .yield (.tuple xs) (.allT tmpl 2 n.toNat) t3
      | .error e => .error e
      | .starved => .starved
    | .allT tmpl 2 n =>
      match takeWith (pull fuel) n tmpl t with
      | .ok [] t2 => .stop t2
      | .ok vals t2 =>
        if hashableL vals then        -- `if all_hashable(values):` (fixes/gen-unhashable-set.diff)
          let (xs, t3) := comb vals n t2
          .yield (.set (GVal.dedup xs)) (.allT tmpl 3 n) t3
        else allList (pull fuel) tmpl n t2   -- the set variant is skipped: on to the list round, in the same `next()`
      | .error e => .error e
      | .starved => .starved
    | .allT tmpl _ n => allList (pull fuel) tmpl n t
    | .anyT tmpl =>
      match takeWith (pull fuel) 10 tmpl t with
      | .ok [] t2 => .stop t2
      | .ok vals t2 =>
        let (xs, t3) := comb vals 5 t2
        .yield (.tuple xs) (.anyT2 vals) t3
      | .error e => .error e
      | .starved => .starved
    | .anyT2 [] => .stop t   -- not reachable: `anyT` stops on an empty pool
    | .anyT2 vals =>
      if hashableL vals then
        let (xs, t3) := comb vals 5 t
        .yield (.set (GVal.dedup xs)) (.ofList []) t3
      else .stop t
    | .setOfT tmpl =>
      let (n, t1) := t.randint 0 10
      match takeWith (pull fuel) n.toNat tmpl t1 with
      | .ok vals t2 =>
        -- `if all_hashable(values) and len(result := set(values)) == length:`
        if hashableL vals && (GVal.dedup vals).length == n.toNat then
          let ys := GVal.dedup vals
          .yield (.tuple (sortKey ys)) (.setOfT tmpl) (t2.note .sample ys.length ys.length)
        else pull fuel (.setOfT tmpl) t2
      | .error e => .error e
      | .starved => .starved
    | .allF tmpl =>
      let (n, t1) := t.randint 1 10
      match takeWith (pull fuel) n.toNat tmpl t1 with
      | .ok [] t2 => .stop t2
      | .ok vals t2 =>
        let (xs, t3) := comb vals n.toNat t2
        .yield (.tuple xs) (.allF tmpl) t3
      | .error e => .error e
      | .starved => .starved
    | .setOfF tmpl =>
      match takeWith (pull fuel) 10 tmpl t with
      | .ok vals t2 =>
        -- `[value for value in take(10, …) if all_hashable((value,))]`
        match vals.filter hashable with
        | [] => .stop t2
        | hv =>
          let (xs, t3) := comb hv 5 t2
          .yield (.set (GVal.dedup xs)) (.ofList []) t3
      | .error e => .error e
      | .starved => .starved

/-! ### The dispatch tables -/

/-- `dt ± timedelta(days=d)` for `d` in `range(from, from + 5)`. -/
def dayList (a : Int) (sign : Int) (first : Nat) : List GVal :=
  (List.range 5).map (fun d => .dt (a + sign * ((first + d : Nat) : Int) * dayUs))

/-- The int a `case int():` pattern sees (`bool` is a subclass of `int`). -/
def asInt : GVal → Option Int
  | .int n => some n
  | .bool b => some (if b then 1 else 0)
  | _ => Option.none

/-- `r`-element sublists in index order (`itertools.combinations`). -/
def combos : Nat → List GVal → List (List GVal)
  | 0, _ => [[]]
  | _ + 1, [] => []
  | r + 1, x :: xs => (combos r xs).map (x :: ·) ++ combos (r + 1) xs

/-- `powerset_of_sets(s)`. -/
def powerset (s : List GVal) : List GVal :=
  ((List.range (s.length + 1)).map (fun r => (combos r s).map GVal.set)).flatten

/-- The `for item in predicate.v: match item: case int(): … case str(): …` loop of
`generate_not_in` / `generate_false(in_p)`: the first int or str member decides; without one the
clause falls back to `generate_anys`. -/
def byFirstMember (p : GP) (neg : Bool) : List GVal → G
  | [] => .filter p neg anys      -- no int or str member: fixes/gen-notin-fallback.diff
  | .int _ :: _ => .filter p neg (.ints none none 0 0)
  | .bool _ :: _ => .filter p neg (.ints none none 0 0)
  | .str _ :: _ => .filter p neg .strings
  | _ :: rest => byFirstMember p neg rest

/-- Generator for a comparison `x ? v` given the int / float bounds to use. -/
def cmpGen (p : GP) (neg : Bool) (v : GVal) (days : Int → List GVal)
    (flo fhi : XF → Option XF) (ilo ihi : Int → Option Int) : G :=
  match v with
  | .dt a => .ofList (days a)
  | .flt k => floatsFrom (flo (.fin k)) (fhi (.fin k))
  | .inf n => floatsFrom (flo (.inf n)) (fhi (.inf n))    -- `case float():` also sees an infinite bound
  | .str _ => .filter p neg .strings
  | .uuid _ => .filter p neg .uuids
  | v => match asInt v with
    | some n => .ints (ilo n) (ihi n) 0 0
    | Option.none => .ofList []

mutual
/-- `generate_true`, clause for clause. -/
def genTrue : GP → G
  | .tt => .ofList [.bool true]
  | .ff => .ofList []
  | .eq v => .rep v
  | .ne v => .ofList [.bool (!truthy v)]
  | .ge v => cmpGen (.ge v) false v (fun a => dayList a 1 0) some (fun _ => none) some (fun _ => none)
  | .gt v => cmpGen (.gt v) false v (fun a => dayList a 1 1) (fun x => some (nextUpX x)) (fun _ => none)
      (fun n => some (n + 1)) (fun _ => none)
  | .le v => cmpGen (.le v) false v (fun a => dayList a (-1) 0) (fun _ => none) some (fun _ => none) some
  | .lt v => cmpGen (.lt v) false v (fun a => dayList a (-1) 1) (fun _ => none) (fun x => some (nextDownX x))
      (fun _ => none) (fun n => some (n - 1))
  | .isin s => .ofList s
  | .notin s => byFirstMember (.notin s) false s
  | .subset s => .ofList (powerset s)
  | .rsubset s => .ofList ((powerset s).filter (fun v => !pyEq v (.set s)))
  | .isNone => .ofList [.none]
  | .isNotNone => .filter .isNotNone false anys
  | .truthy => .ofList [.bool true, .int 1, .str [116, 114, 117, 101], .set [.int 1], .flt c314]
  | .falsy => .ofList [.bool false, .int 0, .tuple [], .str [], .dict []]
  | .isEmpty => .ofList [.list [], .dict [], .tuple [], .str [], .set []]
  | .inst ks =>
    match ks with
    | .str :: _ => .strings
    | .bool :: _ => .cycBool false
    | .complex :: _ => .ofList [.cplx 1 1]
    | .datetime :: _ => .nowOnce
    | .dict :: _ => .dicts true
    | .float :: _ => floatsFrom none none
    | .uuid :: _ => .uuids
    | .int :: _ => .ints none none 0 0
    | .set :: _ => .sets true
    | _ => .ofList []
  | .hasKey k => .map (.mergeKey k) (.zipCons (.dicts true) (.zipCons anys .zipNil))
  | .and unsatT _ l r =>
    if unsatT then .ofList []
    else .chain (.filter r false (genTrue l)) (.filter l false (genTrue r))
  | .or l r => .flat (.zipCons (genTrue l) (.zipCons (genTrue r) .zipNil)) []
  | .all q => .allT (genTrue q) 0 0
  | .any q => .anyT (genTrue q)
  | .setOf q => .setOfT (genTrue q)
  | .tupleOf .pnil => .ofList []
  | .tupleOf ps => zipOf ps
  | .dictOf .pnil => .ofList []
  | .dictOf kvs => .map .toDict (zipOf kvs)
  | .pnil => .ofList []
  | .pcons _ _ => .ofList []
/-- `zip(*(generate_true(p) for p in ps))`. -/
def zipOf : GP → G
  | .pcons h t => .zipCons (genTrue h) (zipOf t)
  | _ => .zipNil
end

/-- `generate_false`, clause for clause; `none` = no clause registered
(`ValueError("Please register …")`, raised by the call itself). -/
def genFalse : GP → Option G
  | .tt => some (.ofList [])
  | .ff => some anys
  | .eq v => some (.filter (.eq v) true anys)
  | .ne v => some (.ofList [v])
  | .ge v => some (cmpGen (.ge v) true v (fun a => dayList a (-1) 1) (fun _ => none) (fun x => some (nextDownX x))
      (fun _ => none) (fun n => some (n - 1)))
  | .gt v => some (cmpGen (.gt v) true v (fun a => dayList a (-1) 0) (fun _ => none) some (fun _ => none) some)
  | .falsy => some (.filter .truthy false anys)
  | .isin s => some (byFirstMember (.isin s) true s)
  | .isEmpty => some (.ofList [.list [.int 1], .set [.int 1, .int 2, .int 3], .tuple [.int 1], .str [97, 97, 112]])
  | .isNone => some (.filter .isNotNone false anys)
  | .isNotNone => some (.ofList [.none])
  | .truthy => some (.ofList [.bool false, .int 0, .tuple [], .str [], .dict []])
  | .inst ks => some (.filter (.inst ks) true anys)
  | .and _ genF l r =>
    if genF then
      match genFalse l, genFalse r with
      | some a, some b => some (.chain a b)
      | _, _ => Option.none
    else some (.ofList [])
  | .or l r =>
    match genFalse l, genFalse r with
    | some a, some b => some (.chain (.filter r true a) (.filter l true b))
    | _, _ => Option.none
  | .all q => (genFalse q).map .allF
  | .setOf q => (genFalse q).map .setOfF
  | _ => Option.none

/-! ### Streams -/

inductive Status where
  | more | stopped | starved | error (e : Err)
  deriving Repr, Inhabited, DecidableEq

structure Run where
  values : List GVal
  status : Status
  log : List Req
  deriving Inhabited

/-- The first `want` results of successive `next()` calls, each with `fuel`. -/
def takeN (fuel : Nat) : Nat → G → Tape → Run
  | 0, _, t => ⟨[], .more, t.log⟩
  | want + 1, g, t =>
    match pull fuel g t with
    | .yield v g' t' =>
      let r := takeN fuel want g' t'
      ⟨v :: r.values, r.status, r.log⟩
    | .stop t' => ⟨[], .stopped, t'.log⟩
    | .error e => ⟨[], .error e, t.log⟩
    | .starved => ⟨[], .starved, t.log⟩

end Gen
end PyPred
