/-
M6 (part 3) `GenClass` — the decidable classes of predicates the C09 / C10 / C11 theorems are
stated for.  They are plain Boolean functions of the predicate tree, kept on the model side so
that `driver_gen` can report them (`class <pred>`): the checks take their expectations
("this request must never starve", "this spec is inside the proved region") from the very
definitions the theorems use, not from a re-implementation.
No import outside core Lean.
-/
import PyPred.Model.Gen

namespace PyPred
namespace Gen

open GVal (hashable hashableL)
open PyVal (Klass)

/-- `p` never raises (syntactic sufficient condition). -/
def total : GP → Bool
  | .tt | .ff | .eq _ | .ne _ | .isNone | .isNotNone | .truthy | .falsy | .inst _ => true
  | .and _ _ l r => total l && total r
  | .or l r => total l && total r
  | _ => false

def isPosInf : GVal → Bool
  | .inf false => true
  | _ => false

def isNegInf : GVal → Bool
  | .inf true => true
  | _ => false

/-- The parameter region in which `generate_true` is proved sound (C09).  Outside it:
* `or l r` whose left operand can raise on the right operand's values (KF-gen-or-raises);
* `dictOf` with more than one key/value pair (overlapping key predicates, KF-gen-dictof-overlap);
* `isin` / `hasKey` with unhashable parameters (cannot be constructed in Python);
* `gt_p(inf)` / `lt_p(-inf)`: no float satisfies them, the float arm yields the infinity itself
  (an infinite *bound* is outside the property; the infinite *values* are inside). -/
def okT : GP → Bool
  | .gt v => !isPosInf v
  | .lt v => !isNegInf v
  | .isin s => hashableL s
  | .hasKey k => hashable k
  | .and _ _ l r => okT l && okT r
  | .or l r => okT l && okT r && total l
  | .all q | .any q | .setOf q => okT q
  | .tupleOf ps => okT ps
  | .dictOf .pnil => true
  | .dictOf (.pcons k (.pcons v .pnil)) => okT k && okT v
  | .dictOf _ => false
  | .pcons h t => okT h && okT t
  | _ => true

/-- The parameter region in which `generate_false` is proved sound (C10).  Outside it:
`and l r` whose left operand can raise on the values that falsify the right operand
(KF-gen-and-raises); `ge_p(-inf)`, which no float falsifies (the float arm yields `-inf`). -/
def okF : GP → Bool
  | .ge v => !isNegInf v
  | .and _ _ l r => okF l && okF r && total l
  | .or l r => okF l && okF r
  | .all q | .setOf q => okF q
  | _ => true

/-- Bound of a comparison that is served by `random_ints` / `random_floats` / a day list
(not by rejection from `random_strings` / `random_uuids`); a float bound is finite (with an
infinite bound given, `random_floats` may call `random.uniform` with an infinite end). -/
def directBound : GVal → Bool
  | .str _ => false
  | .uuid _ => false
  | .inf _ => false
  | _ => true

/-- The `generate_true` requests with a uniform bound (no rejection loop). -/
def boundedT : GP → Bool
  | .tt | .ff | .eq _ | .ne _ | .isin _ | .subset _ | .rsubset _ => true
  | .isNone | .isNotNone | .truthy | .falsy | .isEmpty | .inst _ => true
  | .ge v | .gt v | .le v | .lt v => directBound v
  | .or l r => boundedT l && boundedT r
  | .all q => boundedT q
  | .any q => boundedT q
  | _ => false

def boundedF : GP → Bool
  | .tt | .ff | .ne _ | .isEmpty | .isNone | .isNotNone | .truthy => true
  | .ge v | .gt v => directBound v
  | .and _ _ l r => boundedF l && boundedF r
  | .all q => boundedF q
  | .setOf q => boundedF q
  | _ => false

/-- The listed `generate_true` requests that are satisfiable (by a value the generator knows). -/
def yieldsT : GP → Bool
  | .tt | .eq _ | .ne _ | .isNone | .isNotNone | .truthy | .falsy | .isEmpty => true
  | .ge v | .gt v | .le v | .lt v => match v with
    | .int _ | .bool _ | .flt _ | .dt _ => true
    | _ => false
  | .isin s => !s.isEmpty
  | .inst (k :: _) => k == .str || k == .bool || k == .complex || k == .datetime || k == .dict || k == .float
      || k == .uuid || k == .int || k == .set
  | .all _ => true
  | _ => false

/-- The listed `generate_false` requests that yield at the first `next()` on every tape
(`all_p` over them is covered separately: `C11_false_yields_all`). -/
def yieldsF : GP → Bool
  | .ff | .eq _ | .ne _ | .falsy | .isEmpty | .isNone | .isNotNone | .truthy => true
  | .ge v | .gt v => match v with
    | .int _ | .bool _ | .flt _ | .dt _ => true
    | _ => false
  | .inst ks => !((ks.any fun k => GVal.isInst k (.int 0)) && (ks.any fun k => GVal.isInst k (.str [])))
  | _ => false

end Gen
end PyPred
