/-
M3g `Gray` — `more_itertools.gray_product(*iterables)` and `sorted` on tuples of bools:
the two library calls behind the row enumeration of `truth_table`
(`combinations = sorted(gray_product(*repeat((False, True), n)))`).

    def gray_product(*iterables, repeat=1):                    -- more_itertools/more.py
        all_iterables = tuple(map(tuple, iterables)) * repeat
        iterable_count = len(all_iterables)
        for iterable in all_iterables:
            if len(iterable) < 2:
                raise ValueError("each iterable must have two or more items")
        a = [0] * iterable_count                                -- `init`
        f = list(range(iterable_count + 1))
        o = [1] * iterable_count
        while True:                                             -- `loop`
            yield tuple(all_iterables[i][a[i]] for i in range(iterable_count))   -- `pick`
            j = f[0]                                            -- `step`
            f[0] = 0
            if j == iterable_count:
                break
            a[j] = a[j] + o[j]
            if a[j] == 0 or a[j] == len(all_iterables[j]) - 1:
                o[j] = -o[j]
                f[j] = f[j + 1]
                f[j + 1] = j + 1

This is Knuth 7.2.1.1 Algorithm H (loopless reflected mixed-radix Gray generation with
focus pointers `f` and directions `o`).  `step`/`loop` below are that loop arm for arm
on the three lists (`a`, `o` hold Python ints, hence `Int`; `f` holds indices);
`reflected` is the textbook recursive description of the same sequence (first
coordinate fastest, boustrophedon).  Lemmas/GrayLoop.lean proves that the loop
produces `reflected`; Props/C15G.lean states what that sequence is.

No import outside core Lean: compiled into `driver_gray`.
-/

namespace PyPred.Gray

/-- The three work lists of Algorithm H. -/
structure St where
  a : List Int    -- index tuple about to be yielded
  f : List Nat    -- focus pointers, length n + 1
  o : List Int    -- directions, +1 / -1
  deriving Repr, DecidableEq, Inhabited

/-- `a = [0] * n; f = list(range(n + 1)); o = [1] * n`. -/
def init (n : Nat) : St := ⟨List.replicate n 0, List.range (n + 1), List.replicate n 1⟩

/-- One pass through the body of `while True:` after the `yield`; `none` is `break`.
`ms` are the lengths of the iterables, `ms.length` is `iterable_count`. -/
def step (ms : List Nat) (s : St) : Option St :=
  let j := s.f.getD 0 0                                -- j = f[0]
  let f := s.f.set 0 0                                 -- f[0] = 0
  if j = ms.length then none                           -- if j == iterable_count: break
  else
    let aj := s.a.getD j 0 + s.o.getD j 0              -- a[j] = a[j] + o[j]
    let a := s.a.set j aj
    if aj = 0 ∨ aj = (ms.getD j 0 : Int) - 1 then      -- if a[j] == 0 or a[j] == len(..[j]) - 1:
      some ⟨a, (f.set j (f.getD (j + 1) 0)).set (j + 1) (j + 1), s.o.set j (- s.o.getD j 0)⟩
    else some ⟨a, f, s.o⟩

/-- The `while True:` loop with fuel: the list of yielded index tuples, `none` when the
fuel runs out before `break` (never, with fuel `prod ms`: `loop_reflected`). -/
def loop (ms : List Nat) : Nat → St → Option (List (List Int))
  | 0, _ => none
  | fuel + 1, s =>
    match step ms s with
    | none => some [s.a]
    | some s' => (loop ms fuel s').map (s.a :: ·)

def prod : List Nat → Nat
  | [] => 1
  | m :: ms => m * prod ms

/-- What a call returns. -/
inductive Res (β : Type) where
  | ok (v : β)
  | valueError        -- "each iterable must have two or more items"
  | diverged          -- fuel exhausted (proved impossible)
  deriving Repr, DecidableEq, Inhabited

def Res.map {β γ : Type} (g : β → γ) : Res β → Res γ
  | .ok v => .ok (g v)
  | .valueError => .valueError
  | .diverged => .diverged

/-- `gray_product(range(m₀), range(m₁), …)`: the yielded index tuples. -/
def grayIdx (ms : List Nat) : Res (List (List Int)) :=
  if ms.any (· < 2) then .valueError
  else match loop ms (prod ms) (init ms.length) with
    | some L => .ok L
    | none => .diverged

/-- `tuple(all_iterables[i][a[i]] for i in range(n))`. -/
def pick {α : Type} [Inhabited α] (its : List (List α)) (a : List Int) : List α :=
  List.zipWith (fun it k => it.getD k.toNat default) its a

/-- `list(gray_product(*its))`. -/
def grayProduct {α : Type} [Inhabited α] (its : List (List α)) : Res (List (List α)) :=
  (grayIdx (its.map List.length)).map (·.map (pick its))

/-- `list(gray_product(*repeat((False, True), n)))`. -/
def grayBool (n : Nat) : Res (List (List Bool)) := grayProduct (List.replicate n [false, true])

/-! ### The reflected mixed-radix Gray code, recursively -/

/-- `k` values starting at `x` in steps of `d`. -/
def walk (x d : Int) : Nat → List Int
  | 0 => []
  | k + 1 => x :: walk (x + d) d k

/-- `0, 1, …, m−1` and `m−1, …, 1, 0`. -/
def up (m : Nat) : List Int := walk 0 1 m
def down (m : Nat) : List Int := walk ((m : Int) - 1) (-1) m

/-- For the tuples `t` of `ts` in order: `fwd` put in front of the first, `bwd` in front of
the second, `fwd` in front of the third, … -/
def weave {α : Type} (fwd bwd : List α) : List (List α) → List (List α)
  | [] => []
  | t :: ts => fwd.map (· :: t) ++ weave bwd fwd ts

/-- The reflected Gray code for radices `ms`, first coordinate fastest. -/
def reflected : List Nat → List (List Int)
  | [] => [[]]
  | m :: ms => weave (up m) (down m) (reflected ms)

/-- The binary reflected Gray code on `n` bits, first bit fastest. -/
def reflectedBool : Nat → List (List Bool)
  | 0 => [[]]
  | n + 1 => weave [false, true] [true, false] (reflectedBool n)

/-! ### `sorted` on tuples of bools -/

/-- Python's `<` on tuples of bools: the first differing position decides (`False < True`),
a proper prefix is smaller. -/
def tupleLt : List Bool → List Bool → Bool
  | [], [] => false
  | [], _ :: _ => true
  | _ :: _, [] => false
  | x :: xs, y :: ys => if x = y then tupleLt xs ys else (!x && y)

/-- Insert in front of the first member that is not smaller (stable). -/
def insertT (x : List Bool) : List (List Bool) → List (List Bool)
  | [] => [x]
  | y :: ys => if tupleLt y x then y :: insertT x ys else x :: y :: ys

/-- `sorted(l)` for a list of tuples of bools (stable insertion sort). -/
def pySorted (l : List (List Bool)) : List (List Bool) := l.foldr insertT []

/-- `sorted(gray_product(*repeat((False, True), n)))`, the `combinations` of `truth_table`. -/
def combinations (n : Nat) : Res (List (List Bool)) := (grayBool n).map pySorted

end PyPred.Gray
