import PyPred.Props.C04
open PyPred
#print axioms C04_negate_complement
#print axioms C04_duals
#print axioms C04_default_wraps
#print axioms C04_negate_atom_involutive
#print axioms C04_order_duals
