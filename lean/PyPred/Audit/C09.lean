import PyPred.Props.C09
open PyPred
#print axioms Gen.C09_generate_true_sound
#print axioms Gen.C09_every_position
#print axioms Gen.C09_states
#print axioms Gen.genTrue_sound
#print axioms Gen.pull_sound
#print axioms Gen.takeN_outs
#print axioms Gen.C09_or_left_raises_stream
#print axioms Gen.C09_or_left_raises
#print axioms Gen.C09_dictof_overlap_stream
#print axioms Gen.C09_dictof_overlap
#print axioms Gen.C09_pinned_ints_round_empty
#print axioms Gen.clamp_of_mem
#print axioms Gen.randint_ge
#print axioms Gen.randint_le
#print axioms Gen.uniform_ge
#print axioms Gen.uniform_le
#print axioms Gen.subset_sound
#print axioms Gen.rsubset_sound
#print axioms Gen.C09_judged_by_C08_evaluator
#print axioms Gen.evalG_embed
#print axioms Gen.evalG_embed_atom
#print axioms Gen.pyEq_embed
#print axioms Gen.pyCmp_embed
