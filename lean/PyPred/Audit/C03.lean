import PyPred.Props.C03
open PyPred
#print axioms C03_optimize_preserves
#print axioms C03_partial_impl
#print axioms C03_not_all
#print axioms C03_not_any
#print axioms C03_all_and
#print axioms C03_any_or
#print axioms C03_all_false
#print axioms C03_any_ne
#print axioms C03_subset_inter
#print axioms C03_empty
#print axioms C03_witness_anyTrue
#print axioms C03_witness_subsetEmpty
#print axioms C03_fixed_agrees
#print axioms optimizeT_sound
