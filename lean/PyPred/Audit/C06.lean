import PyPred.Props.C06
open PyPred
#print axioms C06_beq_sound
#print axioms C06_beq_refl
#print axioms C06_beq_symm
#print axioms C06_beq_comm
#print axioms C06_beq_atom_iff
#print axioms C06_beq_kinds
#print axioms C06_can_optimize_def
