import PyPred.Props.C01
