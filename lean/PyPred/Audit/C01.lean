import PyPred.Props.C01
import PyPred.Props.C01Total
open PyPred
#print axioms C01_optimize_preserves
#print axioms C01_partial_impl
#print axioms C01_assignments
#print axioms C01_vars_subset
#print axioms C01_prop_closed
#print axioms C01_witness_xorNotAnd
#print axioms C01_witness_xorOr
#print axioms C01_witness_xorAndUnguarded
#print axioms C01_fixed_agrees
#print axioms optimizeT_sound
#print axioms noImpl_trace_nil
#print axioms beq_sound
#print axioms negate_sound
#print axioms implies_sound
#print axioms optimizeF_spec
#print axioms C01_optimize_total_preserves
#print axioms C01_optimize_total_closed
