import PyPred.Props.C02
open PyPred
#print axioms C02_optimize_preserves
#print axioms C02_partial_impl
#print axioms C02_scalar_semantics
#print axioms C02_range_is_conj
#print axioms C02_ge_le_point
#print axioms C02_in_algebra
#print axioms C02_witness_fnEq
#print axioms C02_witness_instDisjoint
#print axioms C02_fixed_agrees
#print axioms optimizeT_sound
#print axioms noImpl_trace_nil
#print axioms C02_no_new_constants
#print axioms C02_defined_preserved
#print axioms optimizeT_closed
