import PyPred.Props.C05
open PyPred
#print axioms C05_implies_sound
#print axioms C05_implies_complete
#print axioms C05_false_implies_all
#print axioms C05_and_implies_conjunct
#print axioms C05_real_subset_implies_subset
#print axioms C05_int_gap
