import PyPred.Props.C15G
open PyPred
#print axioms Gray.C15G_loop_reflected
#print axioms Gray.C15G_grayIdx
#print axioms Gray.C15G_gray_total
#print axioms Gray.C15G_gray_perm
#print axioms Gray.C15G_gray_length
#print axioms Gray.C15G_gray_each_once
#print axioms Gray.C15G_gray_adjacent
#print axioms Gray.C15G_gray_first
#print axioms Gray.C15G_tupleLt_lex
#print axioms Gray.C15G_pySorted_sorts
#print axioms Gray.C15G_pySorted_stable
#print axioms Gray.C15G_sorted_gray_eq_rows
#print axioms Gray.C15G_sorted_any_perm
#print axioms Gray.C15G_zero
#print axioms Gray.C15G_mixed_adjacent
#print axioms Gray.C15G_mixed_each_once
