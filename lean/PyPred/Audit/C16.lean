import PyPred.Props.C16
open PyPred
#print axioms C16_spec_iff
#print axioms C16_denotes
#print axioms C16_denotes_sequence
#print axioms C16_unresolved_raises
#print axioms C16_unresolved_raises_def
#print axioms C16_unresolved_sticky
#print axioms C16_lazy_nonpredicate
#print axioms C16_fixed_unresolved_then_recovers
#print axioms C16_pinned_unresolved_poisons
#print axioms C16_resolves_iff
#print axioms C16_lazy_resolves_iff
#print axioms C16_fixed_any_scope
#print axioms C16_lazy_any_scope
#print axioms C16_pinned_any_scope_partial
#print axioms C16_pinned_two_in_scope
#print axioms C16_pinned_root_two_in_scope
#print axioms C16_pinned_module_factory
#print axioms C16_pinned_any_scope_fails
#print axioms C16_json_denotes
#print axioms C16_json_any_caller
#print axioms C16_json_caller_partial
#print axioms C16_json_pinned_caller_fails
