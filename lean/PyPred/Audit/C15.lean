import PyPred.Props.C15
open PyPred
#print axioms TT.C15_rows_length
#print axioms TT.C15_rows_binary
#print axioms TT.C15_rows_ascending
#print axioms TT.C15_rows_lex
#print axioms TT.C15_rows_nodup
#print axioms TT.C15_rows_complete
#print axioms TT.C15_names_sorted
#print axioms TT.C15_names_nodup
#print axioms TT.C15_names_exact
#print axioms TT.C15_getNamed
#print axioms TT.C15_row_is_assignment
#print axioms TT.C15_table_spec
#print axioms TT.C15_history_independent
#print axioms TT.C15_no_variables
#print axioms TT.C15_rejects
#print axioms TT.C15_rejects_iff
#print axioms TT.C15_no_other_exception
#print axioms TT.C15_interleave
#print axioms TT.C15_frame
#print axioms TT.next_stateAt
#print axioms TT.setNamed_spec
#print axioms TT.setNamed_none_isProp
