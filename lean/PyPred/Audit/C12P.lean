import PyPred.Props.C12P
open PyPred
#print axioms C12_cost_quadratic
#print axioms C12_cost_polynomial
#print axioms C12_cost_quadratic_size
#print axioms C12_cost_quadratic_any_fuel
#print axioms C12_invocations_quadratic
#print axioms C12_cost_potential
#print axioms C12_potential_bounds
#print axioms C12_cost_linear_fixpoint
#print axioms C12_step_invariant
#print axioms C12_cost_lower_exact
#print axioms C12_cost_lower_quadratic
