import PyPred.Props.C10
open PyPred
#print axioms Gen.C10_generate_false_sound
#print axioms Gen.C10_every_position
#print axioms Gen.genFalse_sound
#print axioms Gen.C10_and_left_raises_stream
#print axioms Gen.C10_and_left_raises
#print axioms Gen.C10_judged_by_C08_evaluator
#print axioms Gen.C10_ge_neg_maxF
#print axioms Gen.C10_ge_neg_maxF_stream
#print axioms Gen.C10_ge_ninf_outside
