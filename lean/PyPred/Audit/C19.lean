import PyPred.Props.C19
open PyPred
#print axioms C19_filter_iff
#print axioms C19_filter_def
#print axioms C19_yields_separate
#print axioms C19_yields_separate_at
#print axioms C19_complete
#print axioms C19_rounds_succ
#print axioms C19_stream_eq_filter
#print axioms C19_stream_order
#print axioms C19_mem_iff
#print axioms C19_prefix_mono
#print axioms C19_first_round
#print axioms C19_first_round_head
#print axioms C19_first_round_each
#print axioms C19_round0
#print axioms C19_empty_filter
#print axioms C19_empty_sets
#print axioms C19_empty_T
#print axioms C19_empty_F
#print axioms C19_gray_mem
#print axioms C19_gray_length
#print axioms C19_mem_mutations
#print axioms C19_indistinguishable
#print axioms C19_overlap
#print axioms C19_prefixFrom_eq
#print axioms C19_round_sizes
