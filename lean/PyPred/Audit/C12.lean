import PyPred.Props.C12
open PyPred
#print axioms C12_fuel_mono
#print axioms C12_deterministic
#print axioms C12_atoms_terminate
#print axioms C12_step_shape
