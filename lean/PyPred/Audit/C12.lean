import PyPred.Props.C12
import PyPred.Props.C12T
import PyPred.Props.C12P
open PyPred
#print axioms C12_fuel_mono
#print axioms C12_deterministic
#print axioms C12_atoms_terminate
#print axioms C12_step_shape
#print axioms C12_terminates
#print axioms C12_depth_linear
#print axioms C12_answers_above
#print axioms C12_weight_le
#print axioms C12_andRoot_shrinks
#print axioms C12_size_le_weight
#print axioms C12_measure_linear
#print axioms C12_depth_le_size
#print axioms C12_size_le
#print axioms C12_optimize_total
#print axioms C12_cost_same_answer
#print axioms C12_calls_below
#print axioms C12_branching
#print axioms C12_cost_le_exp
#print axioms C12_cost_fuel_mono
#print axioms C12_cost_linear_aon
#print axioms C12_cost_quadratic
#print axioms C12_cost_polynomial
#print axioms C12_cost_quadratic_size
#print axioms C12_cost_quadratic_any_fuel
#print axioms C12_invocations_quadratic
#print axioms C12_cost_potential
#print axioms C12_potential_bounds
#print axioms C12_cost_linear_fixpoint
#print axioms C12_step_invariant
#print axioms C12_cost_lower_exact
#print axioms C12_cost_lower_quadratic
