import PyPred.Props.C18
open PyPred
#print axioms C18_one_key
#print axioms C18_keys
#print axioms C18_shape
#print axioms C18_binary
#print axioms C18_unary
#print axioms C18_variable_name
#print axioms C18_ne_constant
#print axioms C18_fn_name
#print axioms C18_constants_and_tee
#print axioms C18_unknown_placeholder
#print axioms C18_unknown_only
#print axioms C18_serialisable
#print axioms C18_serialisable_iff
