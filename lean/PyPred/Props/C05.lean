/-
C05  implies(p, q) is sound, and exact on the atom pairs it understands.
-/
import PyPred.Lemmas.Implies
import Mathlib.Order.Basic

namespace PyPred
variable {V : Type} [LinearOrder V]

/-- Soundness: for all predicates (atoms and composites), all interpretations,
all values. -/
theorem C05_implies_sound (I : Interp V) {p q : Pred V} (h : implies p q = true) (x : Val V)
    (hp : eval I p x = true) : eval I q x = true :=
  implies_sound I h x hp

/-- The pairs on which `implies` claims to be exact. -/
def listedPair : Pred V → Pred V → Bool
  | .ge _, .ge _ | .ge _, .gt _ | .gt _, .ge _ | .gt _, .gt _ => true
  | .eq _, .eq _ | .eq _, .ne _ | .eq _, .ge _ | .eq _, .gt _ | .eq _, .isin _ | .eq _, .notin _ => true
  | .isin _, .isin _ => true
  | _, _ => false

/-- Completeness on the listed pairs: if the entailment holds on every scalar of a
dense linear order, `implies` says so.  (Density is what
makes `x > v ⇒ x ≥ w` fail for `v < w`; over the integers `x > 1 ⇒ x ≥ 2` holds
and `implies` still answers False — that is the documented scope.) -/
theorem C05_implies_complete [DenselyOrdered V] (I : Interp V) (p q : Pred V)
    (hl : listedPair p q = true)
    (h : ∀ ty a, eval I p (.sc ty a) = true → eval I q (.sc ty a) = true) : implies p q = true := by
  cases p <;> cases q <;> simp [listedPair] at hl
  case ge.ge v w => simpa [implies, eval, onSc] using h 0 v
  case ge.gt v w => simpa [implies, eval, onSc] using h 0 v
  case gt.ge v w =>
    simp only [implies, decide_eq_true_eq]
    by_contra hc
    rw [not_le] at hc
    obtain ⟨c, hc1, hc2⟩ := exists_between hc
    have := h 0 c
    simp [eval, onSc] at this
    exact absurd (this hc1) (not_le.2 hc2)
  case gt.gt v w =>
    simp only [implies, decide_eq_true_eq]
    by_contra hc
    rw [not_le] at hc
    have := h 0 w
    simp [eval, onSc] at this
    exact absurd hc (not_lt.2 this)
  case eq.eq v w => simpa [implies, eval, onSc] using h 0 v
  case eq.ne v w => simpa [implies, eval, onSc] using h 0 v
  case eq.ge v w => simpa [implies, eval, onSc] using h 0 v
  case eq.gt v w => simpa [implies, eval, onSc] using h 0 v
  case eq.isin v s => simpa [implies, eval, onSc] using h 0 v
  case eq.notin v s => simpa [implies, eval, onSc] using h 0 v
  case isin.isin s t =>
    simp only [implies, subsetL_iff]
    intro a ha
    simpa [eval, onSc, ha] using h 0 a

theorem C05_false_implies_all (q : Pred V) : implies (.ff : Pred V) q = true := by
  simp [implies]

theorem C05_and_implies_conjunct (a b : Pred V) :
    implies (.and a b) a = true ∧ implies (.and a b) b = true := by
  simp [implies, beq_refl]

theorem C05_real_subset_implies_subset (s : List V) :
    implies (.rsubset s) (.subset s) = true ∧ implies (.rsuperset s) (.superset s) = true := by
  simp [implies]

/-- Density is essential: over the integers `x > 1` entails `x ≥ 2`, and `implies`
answers False (outside the property's scope, recorded so the hypothesis of
`C05_implies_complete` is not mistaken for decoration). -/
theorem C05_int_gap :
    implies (.gt (1 : Int)) (.ge 2) = false ∧ ∀ a : Int, 1 < a → 2 ≤ a := by
  refine ⟨by decide, ?_⟩
  intro a h; omega

/-- Non-vacuity of soundness: `implies` does return True on non-trivial pairs. -/
example : implies (.eq (3 : Int)) (.isin [1, 3]) = true ∧ implies (.gt (3 : Int)) (.ge 3) = true ∧
    implies (.and (.ge (1 : Int)) (.le 2)) (.le 2) = true := by decide

end PyPred
