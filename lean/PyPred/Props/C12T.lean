/-
C12 (termination half)  optimize() always terminates — now a theorem of the model.

For every configuration `cfg` (in particular `Cfg.allImpl`, the code as it is), every
interpretation `fnc` of the function atoms, every constant type `V` and every tree `p`:

* `C12_terminates`      the fuelled model answers for some fuel;
* `C12_depth_linear`    fuel `μ p + 1` suffices, `μ p = 2 * w p + swapBit p ≤ 4 * size p + 1`:
                        the recursion *depth* of `optimize` is linear in the node count;
* `C12_weight_le`       the result is never heavier than the argument (weighted size `w`);
* `C12_size_le_weight`  `size p ≤ w p ≤ 2 * size p`.

Fuel is recursion depth, not the number of invocations.  About the *number of invocations*
(`optimizeK` / `cost` / `optimizeC` of Model/OptimizeCost.lean, a ticked run of the same `step`)
this file proves: same answers as `optimizeT` (`C12_cost_same_answer`), every invocation
queries the oracle only on terms of smaller measure (`C12_calls_below`) and at most four
times (`C12_branching`), hence a finite explicit — exponential — bound (`C12_cost_le_exp`).
A polynomial bound is NOT proved in general (REPORT_term.md says why the method cannot give
one); on the `and`/`or`/`not` fragment the cost is linear (`C12_cost_linear_aon`).

The model is the optimizer after fixes/any-no-reoptimise.diff (ANY4 without the second
optimisation): before that repair the invocation count of the real code was exponential.
-/
import PyPred.Lemmas.Terminates
import PyPred.Lemmas.TerminatesCost
import PyPred.Lemmas.TerminatesFrag
import PyPred.Lemmas.Mono

set_option linter.unusedSectionVars false

namespace PyPred
variable {V : Type} [DecidableEq V] [LT V] [LE V] [DecidableLT V] [DecidableLE V]

/-- Explicit fuel: the recursion depth of `optimize p` is at most `μ p + 1`. -/
theorem C12_depth_linear (cfg : Cfg) (fnc : Nat → V → Bool) (p : Pred V) :
    (optimizeT cfg fnc (μ p + 1) p).isSome = true :=
  optimizeT_isSome cfg fnc p

theorem C12_terminates (cfg : Cfg) (fnc : Nat → V → Bool) (p : Pred V) :
    ∃ n, (optimizeT cfg fnc n p).isSome = true :=
  ⟨μ p + 1, C12_depth_linear cfg fnc p⟩

/-- Any fuel above the measure answers, and all such runs agree. -/
theorem C12_answers_above (cfg : Cfg) (fnc : Nat → V → Bool) (p : Pred V) {n : Nat} (hn : μ p < n) :
    optimizeT cfg fnc n p = optimizeT cfg fnc (μ p + 1) p ∧ (optimizeT cfg fnc n p).isSome = true := by
  obtain ⟨o, tr, h, _⟩ := optimizeT_nice cfg fnc (μ p + 1) p (by omega)
  have := optimizeT_fuel_mono cfg fnc (show μ p + 1 ≤ n by omega) h
  simp [this, h]

/-- The result is never heavier than the argument. -/
theorem C12_weight_le (cfg : Cfg) (fnc : Nat → V → Bool) {n : Nat} {p o : Pred V} {t : List Quirk}
    (h : optimizeT cfg fnc n p = some (o, t)) : w o ≤ w p := by
  obtain ⟨o', tr, h', hpost, _⟩ := optimizeT_nice cfg fnc (μ p + 1) p (by omega)
  have := optimizeT_deterministic cfg fnc h h'
  simp at this
  rw [this.1]; exact hpost.1

/-- A conjunction that comes out of a non-conjunction is strictly lighter (the clause
that bounds the XOR9 operand swap). -/
theorem C12_andRoot_shrinks (cfg : Cfg) (fnc : Nat → V → Bool) {n : Nat} {p o : Pred V} {t : List Quirk}
    (h : optimizeT cfg fnc n p = some (o, t)) (hp : p.isAnd = false) (ho : o.isAnd = true) : w o < w p := by
  obtain ⟨o', tr, h', hpost, _⟩ := optimizeT_nice cfg fnc (μ p + 1) p (by omega)
  have := optimizeT_deterministic cfg fnc h h'
  simp at this
  rw [this.1] at ho ⊢; exact hpost.2 hp ho

theorem C12_size_le_weight (p : Pred V) : p.size ≤ w p ∧ w p ≤ 2 * p.size :=
  ⟨size_le_w p, w_le_two_size p⟩

/-- The measure, hence the depth bound, is linear in the plain node count. -/
theorem C12_measure_linear (p : Pred V) : 2 * p.size ≤ μ p ∧ μ p ≤ 4 * p.size + 1 := by
  have := size_le_w p
  exact ⟨by unfold μ; omega, μ_le_four_size p⟩

/-- Depth bound in terms of the node count only. -/
theorem C12_depth_le_size (cfg : Cfg) (fnc : Nat → V → Bool) (p : Pred V) :
    (optimizeT cfg fnc (4 * p.size + 2) p).isSome = true :=
  (C12_answers_above cfg fnc p (by have := μ_le_four_size p; omega)).2

/-- The result has at most twice the nodes of the argument. -/
theorem C12_size_le (cfg : Cfg) (fnc : Nat → V → Bool) {n : Nat} {p o : Pred V} {t : List Quirk}
    (h : optimizeT cfg fnc n p = some (o, t)) : o.size ≤ 2 * p.size := by
  have := C12_weight_le cfg fnc h
  have := size_le_w o
  have := w_le_two_size p
  omega

/-- `optimize` (the trace-free projection) is total above the measure. -/
theorem C12_optimize_total (cfg : Cfg) (fnc : Nat → V → Bool) (p : Pred V) :
    ∃ o, optimize cfg fnc (μ p + 1) p = some o ∧ w o ≤ w p := by
  obtain ⟨o, tr, h, hpost, _⟩ := optimizeT_nice cfg fnc (μ p + 1) p (by omega)
  exact ⟨o, by simp [optimize, h], hpost.1⟩

/-! ### Number of invocations -/

/-- The ticked run (one marker per invocation) answers with the same predicate as
`optimizeT`, at the same fuel. -/
theorem C12_cost_same_answer (cfg : Cfg) (fnc : Nat → V → Bool) (n : Nat) (p : Pred V) :
    (optimizeK cfg fnc n p).map Prod.fst = (optimizeT cfg fnc n p).map Prod.fst :=
  optimizeK_fst cfg fnc n p

/-- Every recursive call of one invocation on `p` is on a term of measure `< μ p`: the
invocation at depth `n + 1` gives the same answer when the depth-`n` oracle is cut off at `μ p`. -/
theorem C12_calls_below (cfg : Cfg) (fnc : Nat → V → Bool) (n : Nat) (p : Pred V) (h : μ p ≤ n) :
    optimizeT cfg fnc (n + 1) p =
      step cfg fnc (fun t => if μ t < μ p then optimizeT cfg fnc n t else none) p :=
  optimizeT_restrict cfg fnc n p h

/-- One invocation makes at most four recursive calls (and fires at most one quirk arm of
its own): if every oracle answer below `p` carries a trace of length `≤ B`, the invocation's
trace has length `≤ 4 * B + 1`. -/
theorem C12_branching {B : Nat} (cfg : Cfg) (fnc : Nat → V → Bool) {rec : Pred V → R V} {p : Pred V}
    (hrec : NiceBelow B p rec) : Ans (4 * B + 1) (step cfg fnc rec p) (Post p) :=
  step_nice cfg fnc hrec

/-- The number of invocations is defined at fuel `μ p + 1`, is at least 1 and at most
`(2 * 4 ^ (μ p + 1) - 2) / 3`.  (Exponential: a consequence of depth × branching only.) -/
theorem C12_cost_le_exp (cfg : Cfg) (fnc : Nat → V → Bool) (p : Pred V) :
    ∃ c, cost cfg fnc (μ p + 1) p = some c ∧ 1 ≤ c ∧ 3 * c + 2 ≤ 2 * 4 ^ (μ p + 1) :=
  cost_le_exp cfg fnc p

/-- The cost does not depend on the fuel once it is defined. -/
theorem C12_cost_fuel_mono (cfg : Cfg) (fnc : Nat → V → Bool) {n m : Nat} (hnm : n ≤ m) {p : Pred V} {c : Nat}
    (h : cost cfg fnc n p = some c) : cost cfg fnc m p = some c :=
  cost_fuel_mono cfg fnc hnm h

/-- Linear on the `and`/`or`/`not` fragment (`Pred.aon`: leaves, `and`, `or`, `not`; no `xor`, no
quantifier): there no arm that re-optimises a result can fire, every node is visited once, twice
when AND-p2 swaps.  The ticked trace (invocations + quirk arms fired) is at most `4 * size - 2`. -/
theorem C12_cost_linear_aon (cfg : Cfg) (fnc : Nat → V → Bool) (p : Pred V) (hp : p.aon = true) :
    ∃ c, cost cfg fnc (μ p + 1) p = some c ∧ c ≤ 4 * p.size - 2 :=
  cost_frag_linear cfg fnc p hp

/-! ### Non-vacuity -/

section Examples
def ex7 : Pred Int := .xor (.and (.var "a" true) (.var "b" true)) (.or (.var "c" true) (.not (.var "d" true)))

example : ex7.size = 8 ∧ w ex7 = 8 ∧ μ ex7 = 17 := by decide
/-- The bound is met with room: the answer is there at the fuel of the theorem … -/
example : (optimizeT Cfg.allImpl (fun _ _ => false) (μ ex7 + 1) ex7).isSome = true := by decide
/-- … fuel really is depth: this tree of height 4 (XOR9 swap, then XOR8 on the swapped node) needs fuel 5 … -/
example : (optimizeT Cfg.allImpl (fun _ _ => false) 4 ex7).isNone = true := by decide
example : (optimizeT Cfg.allImpl (fun _ _ => false) 5 ex7).isSome = true := by decide
/-- … and a chain of `not`/`all` needs fuel proportional to its length. -/
example : (optimizeT Cfg.allImpl (fun _ _ => false) 6
    (.all (.any (.all (.any (.all (.any (.ge 1)))))) : Pred Int)).isNone = true := by decide
example : (optimizeT Cfg.allImpl (fun _ _ => false) 7
    (.all (.any (.all (.any (.all (.any (.ge 1)))))) : Pred Int)).isSome = true := by decide
/-- Weights of 2 are needed: `any (ne v)` ↦ `not (all (eq v))` keeps `w` and grows `size`. -/
example : (optimize Cfg.allImpl (fun _ _ => false) 5 (.any (.ne 3) : Pred Int)).map Pred.size = some 3 ∧
    (Pred.any (.ne 3) : Pred Int).size = 2 ∧ w (Pred.any (.ne 3) : Pred Int) = 3 := by decide
/-- The swap bit is needed: AND-p2 re-enters on a term of the same weight. -/
example : w (Pred.and (.var "a" true) (.or (.var "b" true) (.var "c" true)) : Pred Int) =
      w (Pred.and (.or (.var "b" true) (.var "c" true)) (.var "a" true) : Pred Int) ∧
    μ (Pred.and (.or (.var "b" true) (.var "c" true)) (.var "a" true) : Pred Int) <
      μ (Pred.and (.var "a" true) (.or (.var "b" true) (.var "c" true)) : Pred Int) := by decide

/-! The number of invocations is not linear in the size: `any^k (ne 1)` (ANY-rule then k-1 times
ANY4 on the growing `not (all …)`, each level re-optimised by NOT1 one level up) costs
`k + 1` invocations after the repair; before the repair it cost `k (k + 3) / 2`. -/
example : (optimizeC Cfg.allImpl (fun _ _ => false) 20 (.any (.any (.any (.any (.ne 1)))) : Pred Int)).map Prod.snd
    = some 5 := by decide

/-- One level of the family on which the unrepaired ANY4 was exponential,
`p_k = any (not (and (or p_{k-1} u_k) v_k))`: after the repair 6 invocations per level. -/
def expFam : Nat → Pred Int
  | 0 => .var "x0" true
  | k + 1 => .any (.not (.and (.or (expFam k) (.var s!"u{k}" true)) (.var s!"v{k}" true)))

example : (optimizeC Cfg.allImpl (fun _ _ => false) 40 (expFam 1)).map Prod.snd = some 7 := by decide
example : (optimizeC Cfg.allImpl (fun _ _ => false) 40 (expFam 2)).map Prod.snd = some 13 := by decide
example : (optimizeC Cfg.allImpl (fun _ _ => false) 40 (expFam 3)).map Prod.snd = some 19 := by decide
/-- AND14 re-optimises results: `and (all a) (all b)` costs 12 invocations for 5 nodes. -/
example : (optimizeC Cfg.allImpl (fun _ _ => false) 20
    (.and (.all (.var "a" true)) (.all (.var "b" true)) : Pred Int)).map Prod.snd = some 12 := by decide
/-- The fragment bound is tight up to the quirk entries: AND-p2 visits the node twice. -/
example : (Pred.and (.var "a" true) (.or (.var "b" true) (.var "c" true)) : Pred Int).aon = true ∧
    (optimizeC Cfg.allImpl (fun _ _ => false) 20
      (.and (.var "a" true) (.or (.var "b" true) (.var "c" true)) : Pred Int)).map Prod.snd = some 6 := by decide
end Examples

end PyPred
