/-
C01–C03 with the fuel removed: soundness (Props/C01) + termination (Props/C12T).

`optimizeT` takes a fuel argument only because the Python code recurses on results
of optimisation; `C12_depth_le_size` shows that fuel `4·size + 2` always suffices
and `C12_fuel_mono` that more fuel never changes the answer.  So "the optimizer"
is a total function of the model, `optimizeF`, and the properties can be stated
about it without mentioning fuel.
-/
import PyPred.Props.C01
import PyPred.Props.C12T
import PyPred.Lemmas.ClosureInst

namespace PyPred

section
variable {V : Type} [DecidableEq V] [LT V] [LE V] [DecidableLT V] [DecidableLE V]

/-- The optimizer as a total function: the answer of `optimizeT` at a fuel that
always suffices (junk value `p` never taken, see `optimizeF_spec`). -/
def optimizeF (cfg : Cfg) (fnc : Nat → V → Bool) (p : Pred V) : Pred V :=
  ((optimize cfg fnc (4 * p.size + 2) p).getD p)

/-- `optimizeF` is what `optimize` answers, at every fuel at which it answers. -/
theorem optimizeF_spec (cfg : Cfg) (fnc : Nat → V → Bool) (p : Pred V) :
    optimize cfg fnc (4 * p.size + 2) p = some (optimizeF cfg fnc p) ∧
    ∀ n o, optimize cfg fnc n p = some o → o = optimizeF cfg fnc p := by
  have h := C12_depth_le_size cfg fnc p
  cases hr : optimizeT cfg fnc (4 * p.size + 2) p with
  | none => simp [hr] at h
  | some res =>
    obtain ⟨o', t⟩ := res
    have h1 : optimize cfg fnc (4 * p.size + 2) p = some o' := by simp [optimize, hr]
    refine ⟨by simp [optimizeF, h1], fun n o ho => ?_⟩
    simp only [optimizeF, h1, Option.getD_some]
    unfold optimize at ho
    cases hn : optimizeT cfg fnc n p with
    | none => simp [hn] at ho
    | some res2 =>
      obtain ⟨o2, t2⟩ := res2
      simp [hn] at ho; subst ho
      have := optimizeT_deterministic cfg fnc hn hr
      exact congrArg Prod.fst this

/-- Non-vacuity: the total optimizer computes. -/
example : Pred.beq (optimizeF Cfg.allImpl (fun _ _ => false) (.and (.ge 1) (.le 3) : Pred Int)) (.gele 1 3) = true := by decide

end

variable {V : Type} [LinearOrder V]

/-- **C01–C03, fuel-free**: for every configuration without a known-bad arm, the
optimizer is a total function whose result agrees with its argument under every
interpretation and on every value. -/
theorem C01_optimize_total_preserves (cfg : Cfg) (hq : cfg.noImpl) (fnc : Nat → V → Bool) (p : Pred V)
    (I : Interp V) (hA : Agrees I fnc) (x : Val V) :
    eval I (optimizeF cfg fnc p) x = eval I p x :=
  C01_optimize_preserves cfg hq fnc _ (optimizeF_spec cfg fnc p).1 I hA x

/-- Fuel-free closure facts (every configuration): names, propositionality,
constants, comparison constants. -/
theorem C01_optimize_total_closed (cfg : Cfg) (fnc : Nat → V → Bool) (p : Pred V) :
    (∀ a, a ∈ (optimizeF cfg fnc p).names → a ∈ p.names) ∧
    (p.isProp = true → (optimizeF cfg fnc p).isProp = true) ∧
    (∀ a, a ∈ (optimizeF cfg fnc p).consts → a ∈ p.consts) ∧
    (∀ a, a ∈ (optimizeF cfg fnc p).cmpConsts → a ∈ p.cmpConsts) := by
  have h := (optimizeF_spec cfg fnc p).1
  exact ⟨C01_vars_subset cfg fnc _ h, fun hp => C01_prop_closed cfg fnc _ hp h, consts_optimize cfg fnc _ h,
    cmpConsts_optimize cfg fnc _ h⟩

end PyPred
