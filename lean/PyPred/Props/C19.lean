/-
C19  construct() only yields predicates that separate the two example sets.

Model: PyPred/Model/Construct.lean (M7).  Everything here is for an arbitrary
constant type `V`, an arbitrary interpretation `I` of the uninterpreted atoms
(what `isinstance`, `is None` and truthiness say about an example) and arbitrary
example lists `F` (false_set) and `T` (true_set): duplicates, overlapping sets,
empty sets and values of any type are all covered.  `n` (rounds entered) and
`limit` are unbounded.

  * `C19_filter_iff`         the filter `all_p(p)(T) and all_p(~p)(F)` is exactly "p separates"
  * `C19_yields_separate`    every member of every prefix of the stream separates      (the property, part 1)
  * `C19_yields_separate_at` … at every position `i` of the stream through any number of rounds
  * `C19_prefix_mono`        the stream through `n` rounds is a prefix of the stream through `n + m` rounds
                             (positions are stable: "the" unbounded stream is well defined)
  * `C19_first_round`        some initial type test separates ⇒ a separating predicate at a position < 14
                             of the first-round prefix                                   (the property, part 2)
  * `C19_first_round_head`   … indeed the very first yield is an initial type test that separates, at any depth/limit
  * `C19_first_round_each`   … and every separating initial test is yielded at a position < 14
  * `C19_stream_eq_filter`   stream = (candidates of round 0 ++ round 1 ++ …).filter sep  (order = candidate order, nothing dropped)
  * `C19_mem_iff`            q is yielded within n rounds ↔ q is a candidate of a round < n that separates
  * `C19_empty_sets`         F = T = [] ⇒ every candidate is yielded
  * `C19_indistinguishable`  an example in both … more generally a T-example and an F-example on which the 14
                             initial tests agree ⇒ nothing is ever yielded (the generator spins: "starved")
  * `C19_prefixFrom_eq`      the driver's cheap `prefixFrom` is `constructPrefix`
  * `C19_gray_mem`, `C19_gray_length`, examples: the order of `gray_product`
-/
import PyPred.Model.Construct

set_option linter.unusedSectionVars false

namespace PyPred
open Construct

section
variable {V : Type} [DecidableEq V] [LT V] [LE V] [DecidableLT V] [DecidableLE V]

/-! ### The filter -/

/-- `all_p(p)(T) and all_p(~p)(F)` (M1 semantics of `all`, `not`) ⇔ `p` is True on every
member of `T` and False on every member of `F`. -/
theorem C19_filter_iff (I : Interp V) (F T : List (Val V)) (p : Pred V) :
    sepB I F T p = true ↔ (∀ x ∈ T, eval I p x = true) ∧ (∀ x ∈ F, eval I p x = false) := by
  simp [sepB, eval, Val.elems]

/-- The filter is the conjunction of the two `all_p` calls of the source, literally. -/
theorem C19_filter_def (I : Interp V) (F T : List (Val V)) (p : Pred V) :
    sepB I F T p = (eval I (.all p) (.coll tyList T) && eval I (.all (.not p)) (.coll tyList F)) := rfl

/-! ### Shape of the stream -/

/-- `k` rounds of mutation, peeled from the front (the way `streamFrom` walks). -/
def iterM : Nat → List (Pred V) → List (Pred V)
  | 0, c => c
  | k + 1, c => iterM k (mutations c)

theorem iterM_mutations (k : Nat) (c : List (Pred V)) : iterM k (mutations c) = mutations (iterM k c) := by
  induction k generalizing c with
  | zero => rfl
  | succ k ih => simp [iterM, ih]

theorem round_eq_iterM (k : Nat) : round (V := V) k = iterM k initial := by
  induction k with
  | zero => rfl
  | succ k ih => simp [round, iterM, ih, iterM_mutations]

theorem streamFrom_succ (I : Interp V) (F T : List (Val V)) (n : Nat) (c : List (Pred V)) :
    streamFrom I F T (n + 1) c = streamFrom I F T n c ++ yieldsOf I F T (iterM n c) := by
  induction n generalizing c with
  | zero => simp [streamFrom, iterM]
  | succ n ih =>
    rw [streamFrom, ih (mutations c)]
    simp [streamFrom, iterM, List.append_assoc]

/-- One more round appends that round's filtered candidates. -/
theorem C19_rounds_succ (I : Interp V) (F T : List (Val V)) (n : Nat) :
    constructRounds I F T (n + 1) = constructRounds I F T n ++ (round n).filter (sepB I F T) := by
  simp [constructRounds, streamFrom_succ, round_eq_iterM, yieldsOf]

/-- All candidates of rounds `0 … n-1`, in the order `construct` looks at them. -/
def candidatesThrough (n : Nat) : List (Pred V) := (List.range n).flatMap round

/-- The stream is the candidate sequence filtered by "separates": same order, nothing
else dropped, nothing added. -/
theorem C19_stream_eq_filter (I : Interp V) (F T : List (Val V)) (n : Nat) :
    constructRounds I F T n = (candidatesThrough n).filter (sepB I F T) := by
  induction n with
  | zero => simp [constructRounds, streamFrom, candidatesThrough]
  | succ n ih =>
    rw [C19_rounds_succ, ih]
    simp [candidatesThrough, List.range_succ, List.flatMap_append, List.filter_append]

theorem C19_stream_order (I : Interp V) (F T : List (Val V)) (n : Nat) :
    (constructRounds I F T n).Sublist (candidatesThrough n) := by
  rw [C19_stream_eq_filter]; exact List.filter_sublist

theorem C19_mem_iff (I : Interp V) (F T : List (Val V)) (n : Nat) (q : Pred V) :
    q ∈ constructRounds I F T n ↔ ∃ k, k < n ∧ q ∈ round k ∧ sepB I F T q = true := by
  rw [C19_stream_eq_filter]
  simp only [candidatesThrough, List.mem_filter, List.mem_flatMap, List.mem_range]
  constructor
  · rintro ⟨⟨k, hk, hq⟩, hs⟩; exact ⟨k, hk, hq, hs⟩
  · rintro ⟨k, hk, hq, hs⟩; exact ⟨⟨k, hk, hq⟩, hs⟩

/-- The stream through `n` rounds is a prefix of the stream through more rounds: positions
never change, so "position i of the unbounded stream" is well defined. -/
theorem C19_prefix_mono (I : Interp V) (F T : List (Val V)) (n m : Nat) :
    constructRounds I F T n <+: constructRounds I F T (n + m) := by
  induction m with
  | zero => exact List.prefix_refl _
  | succ m ih =>
    rw [← Nat.add_assoc, C19_rounds_succ]
    exact ih.trans (List.prefix_append _ _)

/-! ### Part 1: every yield separates -/

/-- Every predicate in every prefix of the stream (any number of rounds, any limit, any
example sets) is True on all of `T` and False on all of `F`. -/
theorem C19_yields_separate (I : Interp V) (F T : List (Val V)) (n limit : Nat) (q : Pred V)
    (h : q ∈ constructPrefix I F T n limit) :
    (∀ x ∈ T, eval I q x = true) ∧ (∀ x ∈ F, eval I q x = false) := by
  have h' : q ∈ constructRounds I F T n := List.mem_of_mem_take h
  obtain ⟨_, _, _, hs⟩ := (C19_mem_iff I F T n q).1 h'
  exact (C19_filter_iff I F T q).1 hs

/-- … at every position. -/
theorem C19_yields_separate_at (I : Interp V) (F T : List (Val V)) (n i : Nat) (q : Pred V)
    (h : (constructRounds I F T n)[i]? = some q) :
    (∀ x ∈ T, eval I q x = true) ∧ (∀ x ∈ F, eval I q x = false) := by
  have h' : q ∈ constructRounds I F T n := List.mem_iff_getElem?.2 ⟨i, h⟩
  have : q ∈ constructPrefix I F T n (constructRounds I F T n).length := by
    simpa [constructPrefix] using h'
  exact C19_yields_separate I F T n _ q this

/-- Conversely no separating candidate is skipped. -/
theorem C19_complete (I : Interp V) (F T : List (Val V)) (n k : Nat) (c : Pred V) (hk : k < n)
    (hc : c ∈ round k) (hT : ∀ x ∈ T, eval I c x = true) (hF : ∀ x ∈ F, eval I c x = false) :
    c ∈ constructRounds I F T n :=
  (C19_mem_iff I F T n c).2 ⟨k, hk, hc, (C19_filter_iff I F T c).2 ⟨hT, hF⟩⟩

/-! ### Part 2: the first round -/

theorem initial_length : (initial (V := V)).length = 14 := rfl

theorem rounds_succ_eq (I : Interp V) (F T : List (Val V)) (n : Nat) :
    constructRounds I F T (n + 1) =
      initial.filter (sepB I F T) ++ streamFrom I F T n (mutations initial) := rfl

/-- Every initial type test that separates is yielded at a position < 14 of the stream
(whatever the number of rounds entered). -/
theorem C19_first_round_each (I : Interp V) (F T : List (Val V)) (n : Nat) (c : Pred V)
    (hc : c ∈ initial) (hs : sepB I F T c = true) :
    ∃ i, i < 14 ∧ (constructRounds I F T (n + 1))[i]? = some c := by
  have hmem : c ∈ initial.filter (sepB I F T) := List.mem_filter.2 ⟨hc, hs⟩
  obtain ⟨i, hi, hget⟩ := List.mem_iff_getElem.1 hmem
  have hle : (initial.filter (sepB I F T)).length ≤ 14 := by
    have := List.length_filter_le (sepB I F T) (initial (V := V))
    simpa [initial_length] using this
  refine ⟨i, Nat.lt_of_lt_of_le hi hle, ?_⟩
  rw [rounds_succ_eq, List.getElem?_append_left hi, List.getElem?_eq_getElem hi, hget]

/-- When some initial type test separates the sets, a separating predicate appears within
the first round: at a position `i < 14` of the first-round prefix. -/
theorem C19_first_round (I : Interp V) (F T : List (Val V))
    (h : ∃ c ∈ initial, sepB I F T c = true) :
    ∃ i, i < 14 ∧ ∃ q, (constructPrefix I F T 1 14)[i]? = some q ∧
      (∀ x ∈ T, eval I q x = true) ∧ (∀ x ∈ F, eval I q x = false) := by
  obtain ⟨c, hc, hs⟩ := h
  obtain ⟨i, hi, hget⟩ := C19_first_round_each I F T 0 c hc hs
  refine ⟨i, hi, c, ?_, (C19_filter_iff I F T c).1 hs⟩
  simp [constructPrefix, hi, hget]

/-- … indeed the very first yield, at any depth and any limit ≥ 1, is an initial type
test, and it separates. -/
theorem C19_first_round_head (I : Interp V) (F T : List (Val V)) (n limit : Nat)
    (h : ∃ c ∈ initial, sepB I F T c = true) :
    ∃ q, (constructPrefix I F T (n + 1) (limit + 1))[0]? = some q ∧ q ∈ initial ∧
      (∀ x ∈ T, eval I q x = true) ∧ (∀ x ∈ F, eval I q x = false) := by
  obtain ⟨c, hc, hs⟩ := h
  have hmem : c ∈ initial.filter (sepB I F T) := List.mem_filter.2 ⟨hc, hs⟩
  cases hY : initial.filter (sepB I F T) with
  | nil => rw [hY] at hmem; cases hmem
  | cons q rest =>
    have hq : q ∈ initial.filter (sepB I F T) := by rw [hY]; exact List.mem_cons_self
    obtain ⟨hqi, hqs⟩ := List.mem_filter.1 hq
    refine ⟨q, ?_, hqi, (C19_filter_iff I F T q).1 hqs⟩
    simp [constructPrefix, rounds_succ_eq, hY]

/-- The first round yields exactly the separating initial tests, in `initial` order. -/
theorem C19_round0 (I : Interp V) (F T : List (Val V)) :
    constructRounds I F T 1 = initial.filter (sepB I F T) := by
  simp [constructRounds, streamFrom, yieldsOf]

/-! ### Empty example sets -/

/-- With no examples at all every candidate passes the filter … -/
theorem C19_empty_filter (I : Interp V) (p : Pred V) : sepB I [] [] p = true := by
  simp [C19_filter_iff]

/-- … so the stream is the whole candidate sequence. -/
theorem C19_empty_sets (I : Interp V) (n : Nat) :
    constructRounds I [] [] n = candidatesThrough n := by
  rw [C19_stream_eq_filter]
  exact List.filter_eq_self.2 (fun p _ => C19_empty_filter I p)

/-- Only `T` empty: the filter is "False on all of F"; only `F` empty: "True on all of T". -/
theorem C19_empty_T (I : Interp V) (F : List (Val V)) (p : Pred V) :
    sepB I F [] p = true ↔ ∀ x ∈ F, eval I p x = false := by simp [C19_filter_iff]

theorem C19_empty_F (I : Interp V) (T : List (Val V)) (p : Pred V) :
    sepB I [] T p = true ↔ ∀ x ∈ T, eval I p x = true := by simp [C19_filter_iff]

/-! ### gray_product -/

theorem mem_grayGo {α : Type} (fwd bwd B : List α) (a b : α) :
    (a, b) ∈ grayGo fwd bwd B → (a ∈ fwd ∨ a ∈ bwd) ∧ b ∈ B := by
  induction B generalizing fwd bwd with
  | nil => simp [grayGo]
  | cons b' rest ih =>
    simp only [grayGo, List.mem_append, List.mem_map, Prod.mk.injEq]
    rintro (⟨a', ha', rfl, rfl⟩ | h)
    · exact ⟨Or.inl ha', List.mem_cons_self⟩
    · obtain ⟨h1, h2⟩ := ih bwd fwd h
      exact ⟨h1.symm, List.mem_cons_of_mem _ h2⟩

theorem grayGo_complete {α : Type} (fwd bwd B : List α) (hfb : ∀ a, a ∈ fwd ↔ a ∈ bwd) (a b : α)
    (ha : a ∈ fwd) (hb : b ∈ B) : (a, b) ∈ grayGo fwd bwd B := by
  induction B generalizing fwd bwd with
  | nil => cases hb
  | cons b' rest ih =>
    simp only [grayGo, List.mem_append, List.mem_map, Prod.mk.injEq]
    rcases List.mem_cons.1 hb with rfl | hb'
    · exact Or.inl ⟨a, ha, rfl, rfl⟩
    · exact Or.inr (ih bwd fwd (fun a => (hfb a).symm) ((hfb a).1 ha) hb')

/-- `gray_product(A, B)` enumerates exactly the pairs of `A × B` … -/
theorem C19_gray_mem {α : Type} (A B : List α) (a b : α) :
    (a, b) ∈ grayPairs A B ↔ a ∈ A ∧ b ∈ B := by
  constructor
  · intro h
    obtain ⟨h1, h2⟩ := mem_grayGo A A.reverse B a b h
    exact ⟨by simpa using h1, h2⟩
  · rintro ⟨ha, hb⟩
    exact grayGo_complete A A.reverse B (fun a => by simp) a b ha hb

theorem grayGo_length {α : Type} (fwd bwd B : List α) (h : fwd.length = bwd.length) :
    (grayGo fwd bwd B).length = fwd.length * B.length := by
  induction B generalizing fwd bwd with
  | nil => simp [grayGo]
  | cons b rest ih =>
    simp [grayGo, ih bwd fwd h.symm, Nat.mul_succ, h, Nat.add_comm]

/-- … each once (`|A|·|B|` pairs). -/
theorem C19_gray_length {α : Type} (A B : List α) : (grayPairs A B).length = A.length * B.length :=
  grayGo_length A A.reverse B (by simp)

/-- Every mutation is `l | r` or `l & r` of two candidates that are not `==`. -/
theorem C19_mem_mutations (c : List (Pred V)) (q : Pred V) :
    q ∈ mutations c ↔ ∃ l ∈ c, ∃ r ∈ c, Pred.beq l r = false ∧ (q = .or l r ∨ q = .and l r) := by
  simp only [mutations, List.mem_flatMap, Prod.exists, C19_gray_mem, mutatePair]
  constructor
  · rintro ⟨l, r, ⟨hl, hr⟩, hq⟩
    by_cases hb : Pred.beq l r = true
    · simp [hb] at hq
    · simp [hb] at hq
      exact ⟨l, hl, r, hr, by simpa using hb, hq⟩
  · rintro ⟨l, hl, r, hr, hb, hq⟩
    exact ⟨l, r, ⟨hl, hr⟩, by simpa [hb] using hq⟩

/-! ### When nothing can separate -/

theorem round_agree (I : Interp V) (x y : Val V)
    (h : ∀ c ∈ initial, eval I c x = eval I c y) (k : Nat) :
    ∀ c ∈ round k, eval I c x = eval I c y := by
  induction k with
  | zero => exact h
  | succ k ih =>
    intro c hc
    obtain ⟨l, hl, r, hr, _, hq⟩ := (C19_mem_mutations (round k) c).1 hc
    rcases hq with rfl | rfl <;> simp [eval, ih l hl, ih r hr]

/-- If the 14 initial tests cannot tell some member of `T` from some member of `F` (in
particular if a value occurs in both), no candidate of any round separates: the stream is
empty however many rounds are entered — the real generator spins for ever. -/
theorem C19_indistinguishable (I : Interp V) (F T : List (Val V)) (x y : Val V)
    (hx : x ∈ T) (hy : y ∈ F) (h : ∀ c ∈ initial, eval I c x = eval I c y) (n : Nat) :
    constructRounds I F T n = [] := by
  rw [List.eq_nil_iff_forall_not_mem]
  intro q hq
  obtain ⟨k, _, hqk, hs⟩ := (C19_mem_iff I F T n q).1 hq
  obtain ⟨hT, hF⟩ := (C19_filter_iff I F T q).1 hs
  have := round_agree I x y h k q hqk
  rw [hT x hx, hF y hy] at this
  cases this

theorem C19_overlap (I : Interp V) (F T : List (Val V)) (x : Val V) (hx : x ∈ T) (hy : x ∈ F) (n : Nat) :
    constructRounds I F T n = [] :=
  C19_indistinguishable I F T x x hx hy (fun _ _ => rfl) n

/-! ### The driver's cheap prefix -/

theorem prefixFrom_eq (I : Interp V) (F T : List (Val V)) (n limit : Nat) (c : List (Pred V)) :
    prefixFrom I F T n limit c = (streamFrom I F T n c).take limit := by
  induction n generalizing limit c with
  | zero => simp [prefixFrom, streamFrom]
  | succ n ih =>
    by_cases hle : limit ≤ (yieldsOf I F T c).length
    · have h1 : limit ≤ ((yieldsOf I F T c).take limit).length := by
        rw [List.length_take]; omega
      rw [prefixFrom.eq_def]
      simp only [streamFrom]
      rw [if_pos h1, List.take_append_of_le_length hle]
    · have hlt : (yieldsOf I F T c).length < limit := by omega
      have h1 : ¬ limit ≤ ((yieldsOf I F T c).take limit).length := by
        rw [List.length_take]; omega
      rw [prefixFrom.eq_def]
      simp only [streamFrom]
      rw [if_neg h1, List.take_of_length_le (Nat.le_of_lt hlt), List.take_append,
        List.take_of_length_le (Nat.le_of_lt hlt)]
      cases n with
      | zero => simp [streamFrom]
      | succ m => simp only []; rw [ih]

theorem C19_prefixFrom_eq (I : Interp V) (F T : List (Val V)) (n limit : Nat) :
    prefixFrom I F T n limit initial = constructPrefix I F T n limit :=
  prefixFrom_eq I F T n limit initial

end

/-! ### Concrete facts and non-vacuity (the driver's example universe `Construct.Ex`) -/

section Examples
open Construct.Ex

/-- 14 initial candidates, 14·13·2 = 364 in round 1 (no two initial tests are `==`). -/
theorem C19_round_sizes : (round (V := Int) 0).length = 14 ∧ (round (V := Int) 1).length = 364 := by
  constructor
  · rfl
  · set_option maxRecDepth 100000 in decide

-- example values
def vNone : Val Int := .sc tyNone 100000
def vTrue : Val Int := .sc tyBool 2
def vOne : Val Int := .sc tyInt 2
def vZero : Val Int := .sc tyInt 0
def vEmptyStr : Val Int := .sc tyStr 200000
def vStrA : Val Int := .sc tyStr 200001
def vEmptyList : Val Int := .coll tyList []
def vDatetime : Val Int := .sc tyDatetime 0

/-- construct([None], [1]) first yields is_int_p, is_not_none_p, is_truthy_p. -/
example : constructRounds interp [vNone] [vOne] 1 = [.inst [cInt], .isNotNone, .truthy] := by rfl

/-- `True` is a bool and an int: construct([1], [True]) yields only is_bool_p in round 0;
construct([None], [True]) yields is_bool_p, is_int_p, is_not_none_p, is_truthy_p. -/
example : constructRounds interp [vOne] [vTrue] 1 = [.inst [cBool]] := by rfl
example : constructRounds interp [vNone] [vTrue] 1 = [.inst [cBool], .inst [cInt], .isNotNone, .truthy] := by rfl

/-- A datetime is truthy and not None. -/
example : constructRounds interp [vNone, vZero] [vDatetime] 1 = [.inst [cDatetime], .truthy] := by rfl

/-- Nothing in round 0, something in round 1: T = [0, ""], F = [None, []] (all four falsy);
the first yield is `is_str_p | is_int_p`. -/
example : constructRounds interp [vNone, vEmptyList] [vZero, vEmptyStr] 1 = [] := by rfl
set_option maxRecDepth 100000 in
example : constructPrefix interp [vNone, vEmptyList] [vZero, vEmptyStr] 2 1 = [.or (.inst [cStr]) (.inst [cInt])] := by rfl
set_option maxRecDepth 100000 in
example : constructRounds interp [vNone, vEmptyList] [vZero, vEmptyStr] 2 =
    [.or (.inst [cStr]) (.inst [cInt]), .or (.inst [cInt]) (.inst [cStr])] := by rfl

/-- Empty sets: the first 14 yields are the 14 initial tests. -/
example : constructPrefix interp [] [] 1 14 = initial := by rfl

/-- An overlapping pair: nothing, ever. -/
example (n : Nat) : constructRounds interp [vOne] [vOne, vStrA] n = [] :=
  C19_overlap interp _ _ vOne (by simp) (by simp) n

/-- The order of `gray_product('abc', 'abc')` and `gray_product('abcd', 'ab')` as
more_itertools produces it. -/
example : grayPairs ['a', 'b', 'c'] ['a', 'b', 'c'] =
    [('a','a'), ('b','a'), ('c','a'), ('c','b'), ('b','b'), ('a','b'), ('a','c'), ('b','c'), ('c','c')] := by decide
example : grayPairs [0, 1, 2, 3] [0, 1] = [(0,0), (1,0), (2,0), (3,0), (3,1), (2,1), (1,1), (0,1)] := by decide

/-- The first mutations of round 1, as create_mutations produces them. -/
example : (round (V := Int) 1).take 4 = [.or .tt .ff, .and .tt .ff, .or (.inst [cBool]) .ff, .and (.inst [cBool]) .ff] := by rfl

/-- `all_p(~p)` is not `~all_p(p)`: on F = [None, 1] and p = is_int_p the first is False
(1 is an int), the second True. -/
example : eval interp (.all (.not (.inst [cInt]))) (.coll tyList [vNone, vOne]) = false ∧
    eval interp (.not (.all (.inst [cInt]))) (.coll tyList [vNone, vOne]) = true := by decide

end Examples

end PyPred
