/-
C01  optimize() preserves the Boolean function of a propositional predicate.

Property theorems only; helper lemmas are in PyPred/Lemmas.  The statements are
about `optimizeT`/`optimize` of Model/Optimize.lean and `eval` of Model/Core.lean;
the tie to /repo is the correspondence run by `./check C01`.
-/
import PyPred.Lemmas.OptSound
import PyPred.Lemmas.Trace
import PyPred.Lemmas.Good

namespace PyPred
variable {V : Type} [LinearOrder V]

/-- Full statement, for every configuration in which no known-bad arm is present
in its implemented form: whatever the fuel, whenever the optimizer returns, the
result agrees with the argument under every interpretation (hence under every
assignment of the variables) and on every value. -/
theorem C01_optimize_preserves (cfg : Cfg) (hq : cfg.noImpl) (fnc : Nat → V → Bool) (n : Nat)
    {p o : Pred V} (h : optimize cfg fnc n p = some o) (I : Interp V) (hA : Agrees I fnc) (x : Val V) :
    eval I o x = eval I p x := by
  unfold optimize at h
  cases hr : optimizeT cfg fnc n p with
  | none => simp [hr] at h
  | some r =>
    obtain ⟨o', t⟩ := r
    simp [hr] at h; subst h
    have ht := noImpl_trace_nil hq fnc hr
    subst ht
    exact optimizeT_sound I cfg fnc hA n p o' hr x

/-- Partial statement for the code as it is (any configuration, in particular
`Cfg.allImpl`): if none of the known-bad arms fired on the way, the result
agrees with the argument. -/
theorem C01_partial_impl (cfg : Cfg) (fnc : Nat → V → Bool) (n : Nat)
    {p o : Pred V} (h : optimizeT cfg fnc n p = some (o, [])) (I : Interp V) (hA : Agrees I fnc) (x : Val V) :
    eval I o x = eval I p x :=
  optimizeT_sound I cfg fnc hA n p o h x

/-- The propositional reading of the property: an assignment `σ` of the variable
names is an interpretation, so C01 is the instance `I.var n _ := σ n`. -/
theorem C01_assignments (cfg : Cfg) (hq : cfg.noImpl) (n : Nat) {p o : Pred V}
    (h : optimize cfg (fun _ _ => false) n p = some o) (σ : String → Bool) :
    let I : Interp V := ⟨fun nm _ => σ nm, fun _ _ => false, fun _ _ => false, fun _ => false, fun _ => false,
      fun _ _ _ => false, fun _ _ _ _ => false⟩
    ∀ x, eval I o x = eval I p x := by
  intro I x
  exact C01_optimize_preserves cfg hq _ n h I (fun _ _ _ => rfl) x

/-- The result mentions only variables of the argument (any configuration). -/
theorem C01_vars_subset (cfg : Cfg) (fnc : Nat → V → Bool) (n : Nat) {p o : Pred V}
    (h : optimize cfg fnc n p = some o) : ∀ a, a ∈ o.names → a ∈ p.names := by
  unfold optimize at h
  cases hr : optimizeT cfg fnc n p with
  | none => simp [hr] at h
  | some r =>
    obtain ⟨o', t⟩ := r
    simp [hr] at h; subst h
    exact (optimizeT_good cfg fnc n p o' t hr).1

/-- A propositional argument gives a propositional result, so `truth_table` of the
optimised predicate is defined whenever it is for the original (any configuration). -/
theorem C01_prop_closed (cfg : Cfg) (fnc : Nat → V → Bool) (n : Nat) {p o : Pred V}
    (hp : p.isProp = true) (h : optimize cfg fnc n p = some o) : o.isProp = true := by
  unfold optimize at h
  cases hr : optimizeT cfg fnc n p with
  | none => simp [hr] at h
  | some r =>
    obtain ⟨o', t⟩ := r
    simp [hr] at h; subst h
    exact (optimizeT_good cfg fnc n p o' t hr).2 hp

/-! ### Negation witnesses: the implemented arms really break the property
(these terms are the known-finding witnesses replayed on /repo by the check). -/

section Witnesses

def σI (σ : String → Bool) : Interp Int :=
  ⟨fun nm _ => σ nm, fun _ _ => false, fun _ _ => false, fun _ => false, fun _ => false,
   fun _ _ _ => false, fun _ _ _ _ => false⟩

def differsAt (cfg : Cfg) (p : Pred Int) (σ : String → Bool) : Bool :=
  match optimize cfg (fun _ _ => false) 6 p with
  | some o => eval (σI σ) o (.sc 0 0) != eval (σI σ) p (.sc 0 0)
  | none => false

private def vp : Pred Int := .var "p" false
private def vq : Pred Int := .var "q" false
private def vr : Pred Int := .var "r" false

/-- K1: `p ^ (~p & q)` is rewritten to `~(p | q)`; they differ at p=1, q=0. -/
theorem C01_witness_xorNotAnd :
    differsAt Cfg.allImpl (.xor vp (.and (.not vp) vq)) (fun n => n == "p") = true := by decide

/-- K2: `p ^ (p | q)` is rewritten to `q`; they differ at p=1, q=1. -/
theorem C01_witness_xorOr :
    differsAt Cfg.allImpl (.xor vp (.or vp vq)) (fun _ => true) = true := by decide

/-- F1 (repaired in /repo): `p ^ (q & r)` was rewritten to `p & ~r`; they differ at p=1,q=0,r=1. -/
theorem C01_witness_xorAndUnguarded :
    differsAt Cfg.allImpl (.xor vp (.and vq vr)) (fun n => n == "p" || n == "r") = true := by decide

/-- … and the corrected right-hand sides do not differ there. -/
theorem C01_fixed_agrees :
    differsAt Cfg.allFixed (.xor vp (.and (.not vp) vq)) (fun n => n == "p") = false ∧
    differsAt Cfg.allFixed (.xor vp (.or vp vq)) (fun _ => true) = false ∧
    differsAt Cfg.allFixed (.xor vp (.and vq vr)) (fun n => n == "p" || n == "r") = false := by decide

end Witnesses

/-! ### Non-vacuity: the hypotheses are met by terms on which rules really fire. -/

example : Cfg.allFixed.noImpl := by intro q; simp [Cfg.allFixed]
example : Cfg.allOff.noImpl := by intro q; simp [Cfg.allOff]

/-- `(p & ~p) | q` optimises (to `q`) without any quirk, so `C01_partial_impl`
applies to it under the implemented configuration. -/
example : (optimizeT Cfg.allImpl (fun _ _ => false) 6
    (.or (.and (.var "p" false) (.not (.var "p" false))) (.var "q" false) : Pred Int)).map Prod.snd = some [] := by
  decide

end PyPred
