import PyPred.Model.Optimize
