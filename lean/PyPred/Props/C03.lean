/-
C03  optimize() preserves quantified, emptiness and set-inclusion predicates.

Again the main theorem is `optimizeT_sound`: `Val` has collections, `all`/`any`
are `List.all`/`List.any` over the elements (true/false on the empty one).  The
corollaries state the five quantifier rewrites and the subset-intersection
rewrite as equations on every collection, the empty one included.
-/
import PyPred.Props.C02

namespace PyPred
variable {V : Type} [LinearOrder V]

theorem C03_optimize_preserves (cfg : Cfg) (hq : cfg.noImpl) (fnc : Nat → V → Bool) (n : Nat)
    {p o : Pred V} (h : optimize cfg fnc n p = some o) (I : Interp V) (hA : Agrees I fnc) (x : Val V) :
    eval I o x = eval I p x :=
  C01_optimize_preserves cfg hq fnc n h I hA x

theorem C03_partial_impl (cfg : Cfg) (fnc : Nat → V → Bool) (n : Nat)
    {p o : Pred V} (h : optimizeT cfg fnc n p = some (o, [])) (I : Interp V) (hA : Agrees I fnc) (x : Val V) :
    eval I o x = eval I p x :=
  C01_partial_impl cfg fnc n h I hA x

/-- not-all is any-not (with `negate` as the inner complement). -/
theorem C03_not_all (I : Interp V) (p : Pred V) (x : Val V) :
    eval I (.not (.all p)) x = eval I (.any (negate p)) x := by
  simp [eval, negate_sound, all_eq_not_any_not]

theorem C03_not_any (I : Interp V) (p : Pred V) (x : Val V) :
    eval I (.not (.any p)) x = eval I (.all (negate p)) x := by
  simp [eval, negate_sound, any_eq_not_all_not]

/-- all(p) & all(q) is all(p & q). -/
theorem C03_all_and (I : Interp V) (p q : Pred V) (x : Val V) :
    eval I (.and (.all p) (.all q)) x = eval I (.all (.and p q)) x := by
  simp [eval, all_and_eq]

/-- any(p) | any(q) is any(p | q). -/
theorem C03_any_or (I : Interp V) (p q : Pred V) (x : Val V) :
    eval I (.or (.any p) (.any q)) x = eval I (.any (.or p q)) x := by
  simp [eval, any_or_eq]

/-- all(false) is 'is empty'; any(true) is 'is not empty' (not `always_true_p`). -/
theorem C03_all_false (I : Interp V) (x : Val V) :
    eval I (.all .ff) x = eval I .isEmpty x ∧ eval I (.any .tt) x = eval I .isNotEmpty x := by
  simp [eval, all_false_eq, any_true_eq]

/-- any(x != v) is not all(x == v). -/
theorem C03_any_ne (I : Interp V) (v : V) (x : Val V) :
    eval I (.any (.ne v)) x = eval I (.not (.all (.eq v))) x := by
  simp [eval, all_eq_not_any_not]

/-- subset(s) & subset(t) is subset(s ∩ t) — also when the intersection is empty. -/
theorem C03_subset_inter (I : Interp V) (s t : List V) (x : Val V) :
    eval I (.and (.subset s) (.subset t)) x = eval I (.subset (inter s t)) x := by
  simp [eval, subOf_inter]

/-- On the empty collection: all is true, any is false, every subset test holds. -/
theorem C03_empty (I : Interp V) (p : Pred V) (s : List V) (ty : Nat) :
    eval I (.all p) (.coll ty []) = true ∧ eval I (.any p) (.coll ty []) = false ∧
    eval I (.subset s) (.coll ty []) = true ∧ eval I .isEmpty (.coll ty []) = true := by
  simp [eval, subOf, Val.elems]

/-! ### Negation witnesses -/

section Witnesses

private def I1 : Interp Int :=
  ⟨fun _ v => v, fun _ _ => false, fun _ _ => false, fun _ => false, fun _ => false, fun _ _ _ => false, fun _ _ _ _ => false⟩

private def differsAt3 (cfg : Cfg) (p : Pred Int) (x : Val Int) : Bool :=
  match optimize cfg (fun _ _ => false) 6 p with
  | some o => eval I1 o x != eval I1 p x
  | none => false

/-- K5: `any_p(always_true_p)` is rewritten to `always_true_p`, wrong on `[]`. -/
theorem C03_witness_anyTrue : differsAt3 Cfg.allImpl (.any .tt) (.coll 5 []) = true := by decide

/-- K6: `is_subset_p({1}) & is_subset_p({2})` is rewritten to `always_false_p`,
wrong on the empty set. -/
theorem C03_witness_subsetEmpty :
    differsAt3 Cfg.allImpl (.and (.subset [2]) (.subset [4])) (.coll 7 []) = true := by decide

theorem C03_fixed_agrees :
    differsAt3 Cfg.allFixed (.any .tt) (.coll 5 []) = false ∧
    differsAt3 Cfg.allFixed (.and (.subset [2]) (.subset [4])) (.coll 7 []) = false := by decide

end Witnesses

/-! ### Non-vacuity: the quantifier rewrites fire without any quirk. -/

example : (optimizeT Cfg.allImpl (fun _ _ => false) 8 (.not (.all (.ge 1)) : Pred Int)).map Prod.snd = some [] := by decide
example : (optimizeT Cfg.allImpl (fun _ _ => false) 8 (.and (.all (.ge 1)) (.all (.le 5)) : Pred Int)).map Prod.snd = some [] := by decide
example : (optimizeT Cfg.allImpl (fun _ _ => false) 8 (.any (.ne 3) : Pred Int)).map Prod.snd = some [] := by decide

end PyPred
