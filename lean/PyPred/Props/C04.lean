/-
C04  negate(p) is the exact complement of p.
-/
import PyPred.Lemmas.Negate
import Mathlib.Order.Defs.LinearOrder

set_option linter.unusedSectionVars false

namespace PyPred

section
variable {V : Type} [DecidableEq V] [LT V] [LE V] [DecidableLT V] [DecidableLE V]

/-- For every predicate (every constructor: the 18 registered duals, the unwrapping
of `~p`, the default wrapping), every interpretation and every value. -/
theorem C04_negate_complement (I : Interp V) (p : Pred V) (x : Val V) :
    eval I (negate p) x = !eval I p x :=
  negate_sound I p x

/-- The table itself, so that it cannot drift silently. -/
theorem C04_duals (v : V) (s : List V) (q : Pred V) :
    negate (.eq v) = .ne v ∧ negate (.ne v) = .eq v ∧
    negate (.ge v) = .lt v ∧ negate (.lt v) = .ge v ∧
    negate (.gt v) = .le v ∧ negate (.le v) = .gt v ∧
    negate (.isin s) = .notin s ∧ negate (.notin s) = .isin s ∧
    negate (.isNone : Pred V) = .isNotNone ∧ negate (.isNotNone : Pred V) = .isNone ∧
    negate (.isEmpty : Pred V) = .isNotEmpty ∧ negate (.isNotEmpty : Pred V) = .isEmpty ∧
    negate (.truthy : Pred V) = .falsy ∧ negate (.falsy : Pred V) = .truthy ∧
    negate (.tt : Pred V) = .ff ∧ negate (.ff : Pred V) = .tt ∧
    negate (.not q) = q := by
  simp [negate]

/-- Everything without a dedicated dual is wrapped. -/
theorem C04_default_wraps (p : Pred V)
    (h : match p with
         | .not _ | .ff | .tt | .falsy | .truthy | .eq _ | .ne _ | .gt _ | .ge _ | .isin _ | .notin _
         | .lt _ | .le _ | .isNone | .isNotNone | .isEmpty | .isNotEmpty => False
         | _ => True) : negate p = .not p := by
  cases p <;> simp_all [negate]

theorem C04_negate_atom_involutive (p : Pred V) (h : p.isAtom = true) : negate (negate p) = p :=
  negate_atom_involutive p h

end

/-- The order duals are the usual complements on scalars of a linear order
(this is where 'no NaN' enters: `¬ a ≥ v ↔ a < v`). -/
theorem C04_order_duals {V : Type} [LinearOrder V] (I : Interp V) (v a : V) (ty : Nat) :
    eval I (negate (.ge v)) (.sc ty a) = decide (a < v) ∧ eval I (negate (.gt v)) (.sc ty a) = decide (a ≤ v) ∧
    eval I (negate (.le v)) (.sc ty a) = decide (v < a) ∧ eval I (negate (.lt v)) (.sc ty a) = decide (v ≤ a) := by
  simp [negate, eval, onSc]
  grind

/-- Non-vacuity / sanity on a concrete composite. -/
example : negate (.and (.ge (1 : Int)) (.not (.le 3))) = .not (.and (.ge 1) (.not (.le 3))) := rfl

end PyPred
