/-
C10 — every value produced by `generate_false(p)` violates `p`.

Model and tie as for C09 (`genFalse` in Model/Gen.lean, written against the library after
fixes/gen-int-windows, gen-float-defaults, gen-float-epsilon, gen-false-ne, gen-empty-pool;
harness/props/c10.py).  `genFalse p = none` = no clause registered (`ValueError("Please
register …")`): outside the property ("every kind that generate_false supports").

Main theorem `C10_generate_false_sound`: for every predicate with a clause, in the guard region
`okF`, every tape, fuel and prefix length, each value of the stream makes `p` evaluate to
`False` (`evalG p v = ok false`: returns `False`, does not raise).
`okF` excludes exactly `l & r` where `l` can raise (syntactically: is not built from
tt/ff/eq/ne/none/truthy/falsy/type tests): the values that falsify `r` are yielded unfiltered and
`l` may raise on them (`C10_and_left_raises`, KF-gen-and-raises).
-/
import PyPred.Props.C09

set_option linter.unusedSimpArgs false
set_option linter.unusedVariables false
set_option exponentiation.threshold 2000
set_option maxRecDepth 8000

namespace PyPred
namespace Gen

open GVal
open PyVal (Cmp cmpInt ofCmp Klass)

/-- The static core of C10. -/
theorem genFalse_sound : ∀ (p : GP) (g : G), genFalse p = some g → okF p = true →
    ∀ v, Outs g v → evalG p v = .ok false := by
  intro p
  induction p with
  | tt => intro g hg _ v h; simp only [genFalse, Option.some.injEq] at hg; subst hg; simp [Outs] at h
  | ff => intro g hg _ v h; simp [evalG]
  | eq w =>
    intro g hg _ v h
    simp only [genFalse, Option.some.injEq] at hg; subst hg
    simpa using h.2
  | ne w =>
    intro g hg _ v h
    simp only [genFalse, Option.some.injEq] at hg; subst hg
    simp only [Outs, List.mem_singleton] at h; subst h
    simp [evalG, GVal.pyEq_refl]
  | ge w =>
    intro g hg hk v h
    simp only [genFalse, Option.some.injEq] at hg; subst hg
    rcases cmpGen_outs _ _ _ _ _ _ _ _ (by intro k; left; rfl) h with ⟨a, rfl, hx⟩ | ⟨k, a, rfl, rfl, _, h1⟩ | ⟨n, a, hn, rfl, _, h1⟩ | h
    · obtain ⟨d, rfl⟩ := mem_dayList hx
      simp only [evalG, pyGe, pyCmp_dt, ofCmp, cmpInt_isGe, dayUs]
      simp; omega
    · have hne : k ≠ .inf true := by rintro rfl; simp [okF, isNegInf, XF.val] at hk
      have := XF.lt_of_le_of_lt (h1 _ rfl) (nextDownX_lt k hne)
      simp only [XF.lt, Bool.not_eq_eq_eq_not, Bool.not_true] at this
      simp only [evalG, pyGe_val, this]
    · have := h1 _ rfl
      simp only [evalG, pyGe, pyCmp_int_asInt hn, ofCmp, cmpInt_isGe]; simp [scale_le]; omega
    · simpa using h
  | gt w =>
    intro g hg _ v h
    simp only [genFalse, Option.some.injEq] at hg; subst hg
    rcases cmpGen_outs _ _ _ _ _ _ _ _ (by intro k; left; rfl) h with ⟨a, rfl, hx⟩ | ⟨k, a, rfl, rfl, _, h1⟩ | ⟨n, a, hn, rfl, _, h1⟩ | h
    · obtain ⟨d, rfl⟩ := mem_dayList hx
      simp only [evalG, pyGt, pyCmp_dt, ofCmp, cmpInt_isGt, dayUs]
      simp; omega
    · have := h1 _ rfl
      simp only [evalG, pyGt_val, XF.lt, this, Bool.not_true]
    · have := h1 _ rfl
      simp only [evalG, pyGt, pyCmp_int_asInt hn, ofCmp, cmpInt_isGt]; simp [scale_lt]; omega
    · simpa using h
  | le w => intro g hg; simp [genFalse] at hg
  | lt w => intro g hg; simp [genFalse] at hg
  | isin s =>
    intro g hg _ v h
    simp only [genFalse, Option.some.injEq] at hg; subst hg
    simpa using byFirstMember_outs _ _ _ h
  | notin s => intro g hg; simp [genFalse] at hg
  | subset s => intro g hg; simp [genFalse] at hg
  | rsubset s => intro g hg; simp [genFalse] at hg
  | isNone =>
    intro g hg _ v h
    simp only [genFalse, Option.some.injEq] at hg; subst hg
    have := h.2
    cases v <;> simp_all [evalG]
  | isNotNone =>
    intro g hg _ v h
    simp only [genFalse, Option.some.injEq] at hg; subst hg
    simp only [Outs, List.mem_singleton] at h; subst h; simp [evalG]
  | truthy =>
    intro g hg _ v h
    simp only [genFalse, Option.some.injEq] at hg; subst hg
    simp only [Outs, List.mem_cons, List.not_mem_nil, or_false] at h
    rcases h with rfl | rfl | rfl | rfl | rfl <;> simp [evalG, truthy]
  | falsy =>
    intro g hg _ v h
    simp only [genFalse, Option.some.injEq] at hg; subst hg
    have := h.2
    simp only [evalG, Bool.not_false, Outcome.ok.injEq] at this
    simp [evalG, this]
  | isEmpty =>
    intro g hg _ v h
    simp only [genFalse, Option.some.injEq] at hg; subst hg
    simp only [Outs, List.mem_cons, List.not_mem_nil, or_false] at h
    rcases h with rfl | rfl | rfl | rfl <;> simp [evalG, iterElems]
  | inst ks =>
    intro g hg _ v h
    simp only [genFalse, Option.some.injEq] at hg; subst hg
    simpa using h.2
  | hasKey k => intro g hg; simp [genFalse] at hg
  | and u gf l r ihl ihr =>
    intro g hg hk v h
    simp only [okF, Bool.and_eq_true] at hk
    simp only [genFalse] at hg
    split at hg
    · cases hl : genFalse l with
      | none => simp [hl] at hg
      | some a =>
        cases hr : genFalse r with
        | none => simp [hl, hr] at hg
        | some b =>
          simp only [hl, hr, Option.some.injEq] at hg; subst hg
          simp only [evalG]
          rcases h with h | h
          · simp [ihl a hl hk.1.1 v h, Outcome.andThen]
          · obtain ⟨c, hc⟩ := total_ok l hk.2 v
            cases c <;> simp [hc, Outcome.andThen, ihr b hr hk.1.2 v h]
    · simp only [Option.some.injEq] at hg; subst hg; simp [Outs] at h
  | or l r ihl ihr =>
    intro g hg hk v h
    simp only [okF, Bool.and_eq_true] at hk
    simp only [genFalse] at hg
    cases hl : genFalse l with
    | none => simp [hl] at hg
    | some a =>
      cases hr : genFalse r with
      | none => simp [hl, hr] at hg
      | some b =>
        simp only [hl, hr, Option.some.injEq] at hg; subst hg
        simp only [evalG]
        simp only [Outs, Bool.not_true] at h
        rcases h with ⟨h1, h2⟩ | ⟨h1, h2⟩
        · simp [ihl a hl hk.1 v h1, h2, Outcome.orElse]
        · simp [ihr b hr hk.2 v h1, h2, Outcome.orElse]
  | all q ih =>
    intro g hg hk v h
    simp only [okF] at hk
    simp only [genFalse, Option.map_eq_some_iff] at hg
    obtain ⟨a, ha, rfl⟩ := hg
    obtain ⟨xs, hne, hxs, rfl⟩ := h
    simp only [evalG, iterElems]
    exact allO_false_of_head _ _ hne (fun x hx => ih a ha hk x (hxs x hx))
  | any q ih => intro g hg; simp [genFalse] at hg
  | setOf q ih =>
    intro g hg hk v h
    simp only [okF] at hk
    simp only [genFalse, Option.map_eq_some_iff] at hg
    obtain ⟨a, ha, rfl⟩ := hg
    obtain ⟨xs, hne, hxs, rfl⟩ := h
    simp only [evalG, iterElems]
    exact allO_false_of_head _ _ hne (fun x hx => ih a ha hk x (hxs x hx))
  | tupleOf ps ih => intro g hg; simp [genFalse] at hg
  | dictOf kvs ih => intro g hg; simp [genFalse] at hg
  | pnil => intro g hg; simp [genFalse] at hg
  | pcons hd tl ihh iht => intro g hg; simp [genFalse] at hg

/-- **C10.**  For every predicate with a `generate_false` clause, in the guard region, every
tape, fuel and prefix length, each value of the stream makes `p` evaluate to `False`. -/
theorem C10_generate_false_sound (p : GP) (g : G) (hg : genFalse p = some g) (hp : okF p = true)
    (raws : List Int) (fuel want : Nat) :
    ∀ v ∈ (takeN fuel want g ⟨raws, []⟩).values, evalG p v = .ok false :=
  fun v hv => genFalse_sound p g hg hp v (takeN_outs fuel want _ _ v hv)

theorem C10_every_position (p : GP) (g : G) (hg : genFalse p = some g) (hp : okF p = true)
    (raws : List Int) (fuel want i : Nat) (v : GVal)
    (h : (takeN fuel want g ⟨raws, []⟩).values[i]? = some v) : evalG p v = .ok false :=
  C10_generate_false_sound p g hg hp raws fuel want v (List.mem_of_getElem? h)


/-! ### Outside the guard: `l & r` with a left operand that can raise (KF-gen-and-raises) -/

/-- `generate_false(ge_p(datetime) & is_none_p)`: after the five earlier datetimes come the values
that falsify `is_none_p` (ints, strs, floats), unfiltered … -/
def andRaises : GP := .and false true (.ge (.dt 0)) .isNone
theorem C10_and_left_raises_stream :
    ((genFalse andRaises).map fun g => ((takeN 9 6 g ⟨[], []⟩).values.drop 5)) = some [.int 0] := by rfl
/-- … on which `ge_p(datetime)` raises `TypeError` instead of the conjunction returning `False`. -/
theorem C10_and_left_raises : evalG andRaises (.int 0) = .raised .typeError := by decide
theorem C10_and_left_raises_guard : okF andRaises = false := by decide

/-! ### The edge of the double range -/

/-- **Boundary case `generate_false(ge_p(-sys.float_info.max))`.**  On every tape, at every position the
value is `-inf` (`math.nextafter(-max, -inf)`), and it falsifies the predicate. -/
theorem C10_ge_neg_maxF (g : G) (hg : genFalse (.ge (.flt (-maxF))) = some g) (raws : List Int) (fuel want : Nat) :
    ∀ v ∈ (takeN fuel want g ⟨raws, []⟩).values, v = .inf true ∧ evalG (.ge (.flt (-maxF))) v = .ok false := by
  intro v hv
  have hs := C10_generate_false_sound _ g hg rfl raws fuel want v hv
  have ho := takeN_outs fuel want _ _ v hv
  simp only [genFalse, Option.some.injEq] at hg; subst hg
  simp only [cmpGen, nextDownX_neg_maxF, floatsFrom_ninf] at ho
  exact ⟨outs_floats_inf ho, hs⟩

/-- Non-vacuity: the stream is `-inf, -inf, …`, without a draw. -/
theorem C10_ge_neg_maxF_stream (raws : List Int) :
    ((genFalse (.ge (.flt (-maxF)))).map fun g => (takeN 1 3 g ⟨raws, []⟩).values) = some [.inf true, .inf true, .inf true] := by
  simp [genFalse, cmpGen, nextDownX_neg_maxF, floatsFrom_ninf, takeN, pull, XF.val, XF.lt_irrefl]

/-- An infinite bound is outside the guard: nothing falsifies `ge_p(-math.inf)` among the floats, yet the
float arm yields `-inf`. -/
theorem C10_ge_ninf_outside :
    okF (.ge (.inf true)) = false
    ∧ (∀ raws, ((genFalse (.ge (.inf true))).map fun g => (takeN 1 1 g ⟨raws, []⟩).values) = some [.inf true])
    ∧ evalG (.ge (.inf true)) (.inf true) = .ok true := by
  refine ⟨rfl, fun raws => ?_, by decide⟩
  simp [genFalse, cmpGen, nextDownX, nextUpX, XF.neg, floatsFrom_ninf, takeN, pull, XF.val]

example : okF (.ge (.flt (-maxF))) = true := rfl
example : okF (.gt (.inf false)) = true := rfl

/-! ### Non-vacuity -/

example : ((genFalse (.ge (.int (-100)))).map fun g => (takeN 5 3 g ⟨[0, -500, 7], []⟩).values)
    = some [.int (-101), .int (-111), .int (-101)] := by rfl
example : okF (.ge (.int (-100))) = true := by decide
example : ((genFalse (.ne (.str [102]))).map fun g => (takeN 5 3 g ⟨[], []⟩).values) = some [.str [102]] := by rfl
example : ((genFalse (.eq (.int 0))).map fun g => (takeN 9 2 g ⟨[], []⟩).values.length) = some 2 := by rfl


/-- **C10 in C08's terms** (see `C09_judged_by_C08_evaluator`). -/
theorem C10_judged_by_C08_evaluator (p : P) (g : GP) (hg : trP p = some g) (hfree : pObjFree p = true)
    (gen : G) (hgen : genFalse g = some gen) (hok : okF g = true) (raws : List Int) (fuel want : Nat)
    (x : PyVal) (hx : objFree x = true)
    (hmem : embed x ∈ (takeN fuel want gen ⟨raws, []⟩).values) : evalPy p x = .ok false := by
  rw [← evalG_embed p g hg hfree x hx]
  exact C10_generate_false_sound g gen hgen hok raws fuel want _ hmem

end Gen
end PyPred
