/-
C08  Every built-in atomic predicate computes the relation it is named after.

`atomSem` (PyPred.Model.PyVal) is the reference semantics of the atoms — a
specification written from the classes' `__call__` bodies over the `PyVal`
universe, with exceptions as explicit outcomes.  This file proves the laws the
property states *about that semantics*, for every parameter and every value of the
universe: opposites are complementary, real-subset is nested in subset and they
differ exactly at equality, the four ranges are conjunctions of the one-sided atoms
with their strictness, behaviour at the bounds, the `of` forms, has_length,
has_key, literal regex.  That the classes compute `atomSem` is the correspondence
check (harness/props/c08.py), which also compares the classes with an independent
plain-Python definition of each named relation.
-/
import PyPred.Model.EvalTrace
import PyPred.Lemmas.PyValOrder
import PyPred.Props.C07

namespace PyPred
open PyVal

/-! ### Opposites are complementary -/

/-- `q` is the opposite of `p`: where one returns, the other returns the negation; where one raises, so does the other. -/
def Opposite (p q : Atom) : Prop := ∀ x, atomSem q x = (atomSem p x).not

theorem Opposite.complementary {p q : Atom} (h : Opposite p q) (x : PyVal) (b : Bool) :
    atomSem p x = .ok b ↔ atomSem q x = .ok (!b) := by
  rw [h x]
  cases atomSem p x with
  | ok c => cases b <;> cases c <;> simp [Outcome.not]
  | raised e => simp [Outcome.not]

theorem C08_eq_ne (v : PyVal) : Opposite (.eq v) (.ne v) := fun _ => rfl
theorem C08_in_not_in (s : List PyVal) : Opposite (.isin s) (.notin s) := fun _ => rfl
theorem C08_none_not_none : Opposite .isNone .isNotNone := by
  intro x; cases x <;> rfl
theorem C08_truthy_falsy : Opposite .truthy .falsy := fun _ => rfl
theorem C08_empty_not_empty : Opposite .isEmpty .isNotEmpty := by
  intro x
  simp only [atomSem]
  cases iterElems x <;> rfl

/-- `eq`/`ne`, `none`/`not-none`, `truthy`/`falsy` are defined on every value, so exactly one of each pair holds. -/
theorem C08_total_opposites (v x : PyVal) :
    (∃ b, atomSem (.eq v) x = .ok b ∧ atomSem (.ne v) x = .ok (!b)) ∧
    (∃ b, atomSem .isNone x = .ok b ∧ atomSem .isNotNone x = .ok (!b)) ∧
    (∃ b, atomSem .truthy x = .ok b ∧ atomSem .falsy x = .ok (!b)) := by
  refine ⟨⟨pyEq x v, rfl, rfl⟩, ?_, ⟨truthy x, rfl, rfl⟩⟩
  cases x <;> exact ⟨_, rfl, rfl⟩

/-! ### `==` and membership -/

/-- `eq_p(v)` is Python `==`: reflexive, symmetric, and `True == 1 == 1.0`. -/
theorem C08_eq_is_pyEq (v x : PyVal) :
    atomSem (.eq v) x = .ok (pyEq x v) ∧ atomSem (.eq v) v = .ok true ∧ atomSem (.eq v) x = atomSem (.eq x) v := by
  refine ⟨rfl, ?_, ?_⟩
  · simp [atomSem, pyEq_refl]
  · simp [atomSem, pyEq_symm x v]

theorem C08_numeric_tower (n : Int) :
    pyEq (.int n) (.flt (2 * n)) = true ∧ pyEq (.bool true) (.int 1) = true ∧ pyEq (.bool false) (.flt 0) = true ∧
    pyEq (.int 1) (.str [49]) = false ∧ pyEq (.tuple [.int 1]) (.list [.int 1]) = false := by
  simp [pyEq, num2]

/-- `in_p(*s)` is membership up to `==` for hashable values, `TypeError` for unhashable ones
(except sets, which are looked up as frozensets). -/
theorem C08_in_is_membership (s : List PyVal) (x : PyVal) (h : hashable x = true) :
    atomSem (.isin s) x = .ok (s.any (fun y => pyEq x y)) ∧
    atomSem (.notin s) x = .ok (!s.any (fun y => pyEq x y)) := by
  cases x <;> simp_all [atomSem, setContains, Outcome.not, hashable]

theorem C08_in_unhashable (s xs : List PyVal) :
    atomSem (.isin s) (.list xs) = .raised .typeError ∧ atomSem (.isin s) (.dict xs) = .raised .typeError := by
  simp [atomSem, setContains, hashable]

/-! ### Order atoms -/

/-- `ge/gt/le/lt` are the four readings of one three-way comparison; `x >= v` is `v <= x`. -/
theorem C08_order_atoms (v x : PyVal) :
    atomSem (.ge v) x = pyLe v x ∧ atomSem (.gt v) x = pyLt v x ∧
    atomSem (.le v) x = pyLe x v ∧ atomSem (.lt v) x = pyLt x v := by
  simp [atomSem, pyGe_eq_pyLe, pyGt_eq_pyLt]

/-- They are defined together: if one of the four raises on `x`, all do. -/
theorem C08_order_defined_together (v x : PyVal) :
    (atomSem (.ge v) x).isOk = (atomSem (.lt v) x).isOk ∧ (atomSem (.gt v) x).isOk = (atomSem (.le v) x).isOk ∧
    (atomSem (.ge v) x).isOk = (atomSem (.gt v) x).isOk := by
  simp only [atomSem, pyGe, pyGt, pyLe, pyLt]
  cases pyCmp x v <;> simp [ofCmp, Outcome.isOk]

/-- Where defined, `lt` is the complement of `ge` and `gt` the complement of `le`, except on
incomparable sets (neither includes the other), where all four are `False`. -/
theorem C08_order_complements (v x : PyVal) (c : Cmp) (h : pyCmp x v = some c) (hc : c ≠ .un) :
    atomSem (.lt v) x = (atomSem (.ge v) x).not ∧ atomSem (.gt v) x = (atomSem (.le v) x).not := by
  simp only [atomSem, pyGe, pyGt, pyLe, pyLt, h]
  cases c <;> simp_all [ofCmp, Outcome.not, Cmp.isLt, Cmp.isGe, Cmp.isGt, Cmp.isLe]

/-- On numbers (bool, int, float mixed) the atoms are the usual order of the numeric values. -/
theorem C08_numeric_order (v x : PyVal) (p q : Int) (hv : num2 v = some p) (hx : num2 x = some q) :
    atomSem (.ge v) x = .ok (decide (p ≤ q)) ∧ atomSem (.gt v) x = .ok (decide (p < q)) ∧
    atomSem (.le v) x = .ok (decide (q ≤ p)) ∧ atomSem (.lt v) x = .ok (decide (q < p)) ∧
    atomSem (.eq v) x = .ok (decide (q = p)) ∧ atomSem (.ne v) x = .ok (decide (q ≠ p)) := by
  have hc : pyCmp x v = some (cmpInt q p) := by
    cases x <;> simp_all [num2, pyCmp] <;> (try (split at hx <;> simp_all))
  have he : pyEq x v = decide (q = p) := by
    have h1 : pyEq x v = (num2 v == some q) := by
      cases x <;> simp_all [num2, pyEq]
    rw [h1, hv]
    by_cases hqp : q = p <;> simp [hqp]
    exact fun h => hqp h.symm
  simp only [atomSem, pyGe, pyGt, pyLe, pyLt, hc, he, ofCmp]
  unfold cmpInt
  refine ⟨?_, ?_, ?_, ?_, ?_, ?_⟩ <;> (try split) <;> (try split) <;>
    simp [Cmp.isGe, Cmp.isGt, Cmp.isLe, Cmp.isLt] <;> omega

/-- Cross-type comparisons raise `TypeError` (they do not return `False`). -/
theorem C08_cross_type_raises (n : Int) (s : List Nat) (xs : List PyVal) :
    atomSem (.ge (.int n)) .none = .raised .typeError ∧ atomSem (.ge (.int n)) (.str s) = .raised .typeError ∧
    atomSem (.lt (.str s)) (.int n) = .raised .typeError ∧ atomSem (.le (.int n)) (.list xs) = .raised .typeError ∧
    atomSem (.gt (.list xs)) (.tuple xs) = .raised .typeError ∧ atomSem (.ge .none) .none = .raised .typeError := by
  simp [atomSem, pyGe, pyGt, pyLe, pyLt, pyCmp, num2, ofCmp]

/-! ### Ranges -/

/-- The four two-sided forms are the (short-circuit) conjunctions of the one-sided atoms, each end
with its own strictness, for all bounds and all values — no side condition. -/
theorem C08_range_is_conj (lo hi x : PyVal) :
    atomSem (.gele lo hi) x = (atomSem (.ge lo) x).andThen (atomSem (.le hi) x) ∧
    atomSem (.gelt lo hi) x = (atomSem (.ge lo) x).andThen (atomSem (.lt hi) x) ∧
    atomSem (.gtle lo hi) x = (atomSem (.gt lo) x).andThen (atomSem (.le hi) x) ∧
    atomSem (.gtlt lo hi) x = (atomSem (.gt lo) x).andThen (atomSem (.lt hi) x) := by
  simp [atomSem, pyGe_eq_pyLe, pyGt_eq_pyLt]

/-- As predicate trees: `ge_le_p(lo, hi)` and `ge_p(lo) & le_p(hi)` are the same function (same for the other three). -/
theorem C08_range_is_and (T : Table) (lo hi x : PyVal) :
    value T (.atom (.gele lo hi)) x = value T (.and (.atom (.ge lo)) (.atom (.le hi))) x ∧
    value T (.atom (.gelt lo hi)) x = value T (.and (.atom (.ge lo)) (.atom (.lt hi))) x ∧
    value T (.atom (.gtle lo hi)) x = value T (.and (.atom (.gt lo)) (.atom (.le hi))) x ∧
    value T (.atom (.gtlt lo hi)) x = value T (.and (.atom (.gt lo)) (.atom (.lt hi))) x := by
  have h := C08_range_is_conj lo hi x
  simp only [C07_and_value]
  simp only [value, evalE]
  exact h

theorem pyLe_self {a : PyVal} (h : orderable a = true) : pyLe a a = .ok true ∧ pyLt a a = .ok false := by
  simp [pyLe, pyLt, pyCmp_self, h, ofCmp, Cmp.isLe, Cmp.isLt]

/-- One-sided atoms exactly at the bound: the non-strict ones and `eq` hold, the strict ones and `ne` do not. -/
theorem C08_at_the_bound (v : PyVal) (h : orderable v = true) :
    atomSem (.ge v) v = .ok true ∧ atomSem (.le v) v = .ok true ∧ atomSem (.eq v) v = .ok true ∧
    atomSem (.gt v) v = .ok false ∧ atomSem (.lt v) v = .ok false ∧ atomSem (.ne v) v = .ok false := by
  simp [atomSem, pyGe, pyGt, pyLe, pyLt, pyCmp_self, h, ofCmp, Cmp.isLe, Cmp.isLt, Cmp.isGe, Cmp.isGt, pyEq_refl]

/-- A proper interval `lo < hi` at its two ends: closed ends are in, open ends are out. -/
theorem C08_range_at_bounds (lo hi : PyVal) (h : pyLt lo hi = .ok true) :
    atomSem (.gele lo hi) lo = .ok true ∧ atomSem (.gele lo hi) hi = .ok true ∧
    atomSem (.gelt lo hi) lo = .ok true ∧ atomSem (.gelt lo hi) hi = .ok false ∧
    atomSem (.gtle lo hi) lo = .ok false ∧ atomSem (.gtle lo hi) hi = .ok true ∧
    atomSem (.gtlt lo hi) lo = .ok false ∧ atomSem (.gtlt lo hi) hi = .ok false := by
  have hc : pyCmp lo hi = some .lt := by
    unfold pyLt at h
    cases hh : pyCmp lo hi with
    | none => simp [hh, ofCmp] at h
    | some c => cases c <;> simp_all [ofCmp, Cmp.isLt]
  have hlo := pyLe_self (orderable_of_cmp_left hc)
  have hhi := pyLe_self (orderable_of_cmp_right hc)
  have hle : pyLe lo hi = .ok true := by simp [pyLe, hc, ofCmp, Cmp.isLe]
  simp [atomSem, hlo.1, hlo.2, hhi.1, hhi.2, hle, h, Outcome.andThen]

/-- The degenerate interval `lo = hi = v`: only the closed form contains the point. -/
theorem C08_range_point (v : PyVal) (h : orderable v = true) :
    atomSem (.gele v v) v = .ok true ∧ atomSem (.gelt v v) v = .ok false ∧
    atomSem (.gtle v v) v = .ok false ∧ atomSem (.gtlt v v) v = .ok false := by
  have hv := pyLe_self h
  simp [atomSem, hv.1, hv.2, Outcome.andThen]

/-- The left comparison guards the right one (`lo <= x <= hi` is a chain): below `lo` the upper
bound is not looked at, even if comparing with it would raise. -/
theorem C08_range_chain_guard (lo hi x : PyVal) (h : pyLe lo x = .ok false) :
    atomSem (.gele lo hi) x = .ok false ∧ atomSem (.gelt lo hi) x = .ok false := by
  simp [atomSem, h, Outcome.andThen]

/-! ### The subset family -/

/-- On sets, the four predicates are inclusion tests up to `==` of the members. -/
theorem C08_subset_is_inclusion (xs s : List PyVal) :
    atomSem (.subset (.set s)) (.set xs) = .ok (subL xs s) ∧
    atomSem (.superset (.set s)) (.set xs) = .ok (supL xs s) ∧
    atomSem (.rsubset (.set s)) (.set xs) = .ok (subL xs s && !supL xs s) ∧
    atomSem (.rsuperset (.set s)) (.set xs) = .ok (supL xs s && !subL xs s) := by
  simp only [atomSem, pyLe, pyGe, pyLt, pyGt, pyCmp, ofCmp]
  cases subL xs s <;> cases supL xs s <;> simp [cmpIncl, Cmp.isLe, Cmp.isGe, Cmp.isLt, Cmp.isGt]

/-- `subL` / `supL` are what they are named: every member has an `==` partner on the other side. -/
theorem C08_inclusion_spec (xs s : List PyVal) :
    (subL xs s = true ↔ ∀ x ∈ xs, ∃ y ∈ s, pyEq x y = true) ∧
    (supL xs s = true ↔ ∀ y ∈ s, ∃ x ∈ xs, pyEq x y = true) := by
  simp [subL_eq, supL_eq]

/-- Real subset is nested in subset (and real superset in superset) — for every parameter and every value. -/
theorem C08_real_subset_nested (s x : PyVal) :
    (atomSem (.rsubset s) x = .ok true → atomSem (.subset s) x = .ok true) ∧
    (atomSem (.rsuperset s) x = .ok true → atomSem (.superset s) x = .ok true) := by
  simp only [atomSem, pyLe, pyGe, pyLt, pyGt]
  cases pyCmp x s with
  | none => simp [ofCmp]
  | some c => cases c <;> simp [ofCmp, Cmp.isLe, Cmp.isGe, Cmp.isLt, Cmp.isGt]

/-- … and they are defined on the same inputs. -/
theorem C08_subset_defined_together (s x : PyVal) :
    (atomSem (.rsubset s) x).isOk = (atomSem (.subset s) x).isOk ∧
    (atomSem (.rsuperset s) x).isOk = (atomSem (.superset s) x).isOk := by
  simp only [atomSem, pyLe, pyGe, pyLt, pyGt]
  cases pyCmp x s <;> simp [ofCmp, Outcome.isOk]

/-- They differ exactly at equality: on sets, "subset but not real subset" is `x == s`. -/
theorem C08_subset_differ_at_equality (xs s : List PyVal) :
    (atomSem (.subset (.set s)) (.set xs) = .ok true ∧ atomSem (.rsubset (.set s)) (.set xs) = .ok false ↔
      pyEq (.set xs) (.set s) = true) ∧
    (atomSem (.superset (.set s)) (.set xs) = .ok true ∧ atomSem (.rsuperset (.set s)) (.set xs) = .ok false ↔
      pyEq (.set xs) (.set s) = true) := by
  have h := C08_subset_is_inclusion xs s
  rw [h.1, h.2.1, h.2.2.1, h.2.2.2]
  have : pyEq (.set xs) (.set s) = (subL xs s && supL xs s) := by simp [pyEq, supL]
  rw [this]
  cases subL xs s <;> cases supL xs s <;> simp

/-- At equality itself: `is_subset_p(s)(s)` and `is_superset_p(s)(s)` hold, the real forms do not. -/
theorem C08_subset_at_equality (s : List PyVal) :
    atomSem (.subset (.set s)) (.set s) = .ok true ∧ atomSem (.rsubset (.set s)) (.set s) = .ok false ∧
    atomSem (.superset (.set s)) (.set s) = .ok true ∧ atomSem (.rsuperset (.set s)) (.set s) = .ok false := by
  have h := C08_subset_is_inclusion s s
  have hi := incl_self s
  rw [h.1, h.2.1, h.2.2.1, h.2.2.2, hi.1, hi.2]
  simp

/-! ### Type tests -/

/-- Each `is_X_p` holds exactly on the values of its constructor; `bool` is a subclass of `int`. -/
theorem C08_type_tests (x : PyVal) :
    (atomSem (.inst [.str]) x = .ok true ↔ ∃ s, x = .str s) ∧
    (atomSem (.inst [.list]) x = .ok true ↔ ∃ s, x = .list s) ∧
    (atomSem (.inst [.tuple]) x = .ok true ↔ ∃ s, x = .tuple s) ∧
    (atomSem (.inst [.set]) x = .ok true ↔ ∃ s, x = .set s) ∧
    (atomSem (.inst [.dict]) x = .ok true ↔ ∃ s, x = .dict s) ∧
    (atomSem (.inst [.float]) x = .ok true ↔ ∃ t, x = .flt t) ∧
    (atomSem (.inst [.bool]) x = .ok true ↔ ∃ b, x = .bool b) ∧
    (atomSem (.inst [.int]) x = .ok true ↔ (∃ b, x = .bool b) ∨ ∃ n, x = .int n) := by
  cases x <;> simp [atomSem, isInst]

/-- `is_instance_p(k1, …, kn)` is the disjunction of the single tests; it never raises. -/
theorem C08_instance_tuple (ks : List Klass) (x : PyVal) :
    atomSem (.inst ks) x = .ok (ks.any (fun k => isInst k x)) := rfl

theorem C08_abc_lattice (x : PyVal) :
    (isInst .bool x = true → isInst .int x = true) ∧
    (isInst .iterable x = isInst .container x) ∧
    (isInst .iterable x = (iterElems x).isSome) ∧
    (isInst .list x = true → isInst .hashable x = false) ∧
    (isInst .callable x = true → ∃ c i, x = .obj c i) ∧
    isInst .object x = true := by
  cases x <;> simp [isInst, iterElems]

/-! ### Emptiness, truthiness, length, keys -/

theorem C08_empty_is_len_zero (x : PyVal) (xs : List PyVal) (h : iterElems x = some xs) :
    atomSem .isEmpty x = .ok (xs.length == 0) ∧ atomSem .isNotEmpty x = .ok (xs.length != 0) := by
  simp only [atomSem, h]
  cases xs <;> simp

/-- For the sized built-ins, truthy = not empty; numbers are truthy iff non-zero; `None` is falsy. -/
theorem C08_truthy_spec :
    (∀ xs, atomSem .truthy (.list xs) = .ok (!xs.isEmpty)) ∧ (∀ s, atomSem .truthy (.str s) = .ok (!s.isEmpty)) ∧
    (∀ n, atomSem .truthy (.int n) = .ok (n != 0)) ∧ (∀ t, atomSem .truthy (.flt t) = .ok (t != 0)) ∧
    (∀ b, atomSem .truthy (.bool b) = .ok b) ∧ atomSem .truthy .none = .ok false := by
  simp [atomSem, truthy]

/-- `has_length_p(n)` compares the number of items produced by iterating `x` with `n`. -/
theorem C08_has_length (x : PyVal) (xs : List PyVal) (n : Int) (h : iterElems x = some xs) :
    atomSem (.hasLength (.int n)) x = .ok (decide ((xs.length : Int) = n)) := by
  simp only [atomSem, h, pyEq, num2]
  congr 1
  by_cases hh : (xs.length : Int) = n
  · simp [hh]
  · simp only [hh, decide_false]
    apply Bool.eq_false_iff.mpr
    intro hc
    simp at hc
    omega

theorem C08_has_length_not_iterable (x n : PyVal) (h : iterElems x = Option.none) :
    atomSem (.hasLength n) x = .raised .typeError := by
  simp [atomSem, h]

/-- `has_key_p(k)` on a dict is membership of `k` among the keys (up to `==`); on anything
else there is no `.keys()`: `AttributeError`. -/
theorem C08_has_key (k : PyVal) (items : List PyVal) (h : hashable k = true) :
    atomSem (.hasKey k) (.dict items) = .ok ((items.map itemKey).any (fun y => pyEq k y)) := by
  simp [atomSem, keysContain, h]

theorem C08_has_key_not_dict (k : PyVal) (xs : List PyVal) (n : Int) :
    atomSem (.hasKey k) (.list xs) = .raised .attributeError ∧ atomSem (.hasKey k) (.int n) = .raised .attributeError ∧
    atomSem (.hasKey k) .none = .raised .attributeError := by
  simp [atomSem]

/-! ### Strings -/

theorem isPrefix_iff (pat s : List Nat) : isPrefix pat s = true ↔ ∃ rest, s = pat ++ rest := by
  induction pat generalizing s with
  | nil => simp [isPrefix]
  | cons a as ih =>
    cases s with
    | nil => simp [isPrefix]
    | cons b bs =>
      simp only [isPrefix, Bool.and_eq_true, beq_iff_eq, ih bs, List.cons_append, List.cons.injEq]
      constructor
      · rintro ⟨rfl, rest, rfl⟩; exact ⟨rest, rfl, rfl⟩
      · rintro ⟨rest, rfl, rfl⟩; exact ⟨rfl, rest, rfl⟩

/-- A literal `regex_p` matches at the start: it is the prefix test (so `regex_p("")` accepts every string). -/
theorem C08_regex_literal_is_prefix (pat s : List Nat) :
    atomSem (.regex pat) (.str s) = .ok (isPrefix pat s) ∧
    (atomSem (.regex pat) (.str s) = .ok true ↔ ∃ rest, s = pat ++ rest) ∧
    atomSem (.regex []) (.str s) = .ok true ∧
    atomSem (.startsWith pat) (.str s) = atomSem (.regex pat) (.str s) := by
  simp [atomSem, isPrefix_iff, isPrefix]

theorem C08_regex_not_str (pat : List Nat) (n : Int) : atomSem (.regex pat) (.int n) = .raised .typeError ∧
    atomSem (.regex pat) .none = .raised .typeError := by
  simp [atomSem]

/-- The ASCII classification tests, e.g. `isalpha` = non-empty and all letters; `isupper` = some
upper-case letter and no lower-case one. -/
theorem C08_str_tests (s : List Nat) :
    atomSem (.strTest .alpha) (.str s) = .ok (!s.isEmpty && s.all Ascii.isAlpha) ∧
    atomSem (.strTest .digit) (.str s) = .ok (!s.isEmpty && s.all Ascii.isDigit) ∧
    atomSem (.strTest .upper) (.str s) = .ok (s.any Ascii.isUpper && !s.any Ascii.isLower) ∧
    atomSem (.strTest .lower) (.str s) = .ok (s.any Ascii.isLower && !s.any Ascii.isUpper) ∧
    atomSem (.strTest .alnum) (.str []) = .ok false ∧ atomSem (.strTest .ascii) (.str []) = .ok true := by
  simp [atomSem, Ascii.classify]

/-! ### The `of` forms -/

/-- A Python list of predicates as a `pcons` chain. -/
def P.ofList : List P → P
  | [] => .pnil
  | p :: ps => .pcons p (P.ofList ps)

theorem P.chainLen_ofList (ps : List P) : (P.ofList ps).chainLen = ps.length := by
  induction ps with
  | nil => rfl
  | cons p ps ih => simp [P.ofList, P.chainLen, ih]; omega

theorem evalTupE_cons (T : Table) (h t : P) (y : PyVal) (ys : List PyVal) :
    (evalTupE T (.pcons h t) (y :: ys)).1 = (value T h y).andThen (evalTupE T t ys).1 := by
  simp [evalTupE, Res.andThen_fst, value]

/-- `is_tuple_of_p(p1, …, pn)` on a tuple: wrong length → `False` (no predicate is called);
right length → `p1(x1) and … and pn(xn)`, left to right. -/
theorem C08_tuple_of (T : Table) (ps : List P) (xs : List PyVal) :
    (xs.length ≠ ps.length → evalE T (.tupleOf (P.ofList ps)) (.tuple xs) = (.ok false, [])) ∧
    (xs.length = ps.length → evalE T (.tupleOf (P.ofList ps)) (.tuple xs) = evalTupE T (P.ofList ps) xs) ∧
    (evalTupE T (P.ofList []) [] = (.ok true, [])) ∧
    (∀ p ps' y ys, (evalTupE T (P.ofList (p :: ps')) (y :: ys)).1 =
      (value T p y).andThen (evalTupE T (P.ofList ps') ys).1) := by
  refine ⟨?_, ?_, ?_, ?_⟩
  · intro h; simp [evalE, iterElems, P.chainLen_ofList, h]
  · intro h; simp [evalE, iterElems, P.chainLen_ofList, h]
  · simp [P.ofList, evalTupE]
  · intro p ps' y ys; simp [P.ofList, evalTupE_cons]

/-- In the total Boolean reading: same length ∧ pointwise. -/
theorem C08_tuple_of_pointwise (T : Table) (ps : List P) (xs : List PyVal) :
    evalB T (.tupleOf (P.ofList ps)) (.tuple xs) =
      (xs.length == ps.length && (List.zipWith (fun p x => evalB T p x) ps xs).all id) := by
  simp only [evalB, iterElems, Option.getD_some, P.chainLen_ofList]
  congr 1
  induction ps generalizing xs with
  | nil => simp [P.ofList, evalTupB]
  | cons p ps ih =>
    cases xs with
    | nil => simp [P.ofList, evalTupB]
    | cons y ys => simp [P.ofList, evalTupB, ih ys]

/-- `is_set_of_p(p)` is `all_p(p)` over the members (in particular on every set). -/
theorem C08_set_of (T : Table) (p : P) (x : PyVal) : evalE T (.setOf p) x = evalE T (.all p) x := by
  simp [evalE]

theorem C08_set_of_on_sets (T : Table) (p : P) (xs : List PyVal) (h : ∀ y ∈ xs, (value T p y).isOk = true) :
    value T (.setOf p) (.set xs) = .ok (xs.all (fun y => value T p y == .ok true)) := by
  simp only [value, C08_set_of]
  exact (C07_all_any_quantifiers T p (.set xs) xs rfl h).1

/-- `is_list_of_p(p)` = `is_list_p & all_p(p)` and `is_iterable_of_p(p)` = `is_iterable_p & all_p(p)`:
type guard ∧ for-all, on arbitrary values; a value of the wrong type gives `False` and `p` is never called. -/
def listOf (p : P) : P := .and (.atom (.inst [.list])) (.all p)
def iterableOf (p : P) : P := .and (.atom (.inst [.iterable])) (.all p)

theorem C08_list_of (T : Table) (p : P) (x : PyVal) :
    (∀ xs, x = .list xs → evalE T (listOf p) x = allE (fun y => evalE T p y) xs) ∧
    ((∀ xs, x ≠ .list xs) → evalE T (listOf p) x = (.ok false, [])) := by
  constructor
  · rintro xs rfl
    simp [listOf, evalE, atomSem, isInst, Res.andThen, iterElems]
  · intro h
    have : value T (.atom (.inst [.list])) x = .ok false := by
      cases x <;> simp_all [value, evalE, atomSem, isInst]
    have := C07_guard_protects T _ (.all p) x this
    simpa [listOf, trace, evalE] using this

theorem C08_iterable_of (T : Table) (p : P) (x : PyVal) :
    (∀ xs, iterElems x = some xs → evalE T (iterableOf p) x = allE (fun y => evalE T p y) xs) ∧
    (iterElems x = Option.none → evalE T (iterableOf p) x = (.ok false, [])) := by
  constructor
  · intro xs h
    have hi : isInst .iterable x = true := by rw [(C08_abc_lattice x).2.2.1, h]; rfl
    simp [iterableOf, evalE, atomSem, hi, Res.andThen, h]
  · intro h
    have hi : isInst .iterable x = false := by rw [(C08_abc_lattice x).2.2.1, h]; rfl
    have : value T (.atom (.inst [.iterable])) x = .ok false := by simp [value, evalE, atomSem, hi]
    have := C07_guard_protects T _ (.all p) x this
    simpa [iterableOf, trace, evalE] using this

/-! ### Non-vacuity: concrete instances inside the hypotheses above -/

example : atomSem (.gelt (.int 0) (.flt 3)) (.bool true) = .ok true := by decide
example : atomSem (.gelt (.int 0) (.flt 3)) (.flt 3) = .ok false := by decide
example : atomSem (.gtle (.int 0) (.int 2)) (.int 0) = .ok false := by decide
example : atomSem (.gele (.int 1) (.str [97])) (.int 0) = .ok false := by decide
example : atomSem (.gele (.int 1) (.str [97])) (.int 2) = .raised .typeError := by decide
example : pyLt (.flt 1) (.int 1) = .ok true := by decide
example : atomSem (.rsubset (.set [.int 1, .int 2])) (.set [.flt 2]) = .ok true := by decide
example : atomSem (.subset (.set [.int 1, .int 2])) (.set [.flt 4, .bool true]) = .ok true := by decide
example : atomSem (.rsubset (.set [.int 1, .int 2])) (.set [.flt 4, .bool true]) = .ok false := by decide
example : atomSem (.isin [.int 1, .str [97]]) (.bool true) = .ok true := by decide
example : atomSem (.isin [.int 1]) (.list []) = .raised .typeError := by decide
example : atomSem (.hasKey (.int 1)) (.dict [.tuple [.bool true, .none]]) = .ok true := by decide
example : atomSem (.hasLength (.flt 4)) (.str [97, 98]) = .ok true := by decide
example : atomSem (.regex [102, 111]) (.str [102, 111, 111]) = .ok true := by decide
example : atomSem (.regex [111]) (.str [102, 111, 111]) = .ok false := by decide
example : atomSem (.strTest .title) (.str [70, 111, 111, 32, 66, 97, 114]) = .ok true := by decide
example : evalPy (.tupleOf (P.ofList [.atom (.inst [.int]), .atom (.inst [.str])])) (.tuple [.int 1, .str [97]]) = .ok true := by decide
example : evalPy (listOf (.atom (.ge (.int 1)))) (.list [.int 1, .flt 3]) = .ok true := by decide
example : evalPy (listOf (.atom (.ge (.int 1)))) (.str [97]) = .ok false := by decide
example : evalPy (.all (.atom (.ge (.int 1)))) (.str [97]) = .raised .typeError := by decide
example : orderable (.int 3) = true ∧ orderable (.str [97]) = true ∧ orderable (.set []) = true := by decide

end PyPred
