/-
C12  optimize() always terminates, and analysis functions never mutate their input.

What is proved here (unbounded): the fuelled model is monotone and deterministic
in its fuel — a result, once produced, is the result for every larger fuel — so
"out of fuel" is the only way the model can fail to answer, and the answer never
depends on how much fuel was given.  `negate`, `implies`, `Pred.beq`, `optimize`
are pure total functions of the model, so history independence is definitional
on the Lean side; its content for the code is the correspondence (snapshots).

Termination itself — `C12_terminates`, with the explicit linear bound on the
recursion depth `C12_depth_linear` / `C12_depth_le_size`, the weight theorem and
the cost model — is in `Props/C12T.lean`.  What is NOT proved: a polynomial bound
on the number of invocations (proved: finite, exponential bound; linear on the
and/or/not fragment; measured: quadratic).  See DESIGN.md §12.6.
-/
import PyPred.Lemmas.Mono
import PyPred.Lemmas.Laws

set_option linter.unusedSectionVars false

namespace PyPred
variable {V : Type} [DecidableEq V] [LT V] [LE V] [DecidableLT V] [DecidableLE V]

theorem C12_fuel_mono (cfg : Cfg) (fnc : Nat → V → Bool) {n m : Nat} (hnm : n ≤ m) {p : Pred V}
    {res : Pred V × List Quirk} (h : optimizeT cfg fnc n p = some res) : optimizeT cfg fnc m p = some res :=
  optimizeT_fuel_mono cfg fnc hnm h

theorem C12_deterministic (cfg : Cfg) (fnc : Nat → V → Bool) {n m : Nat} {p : Pred V}
    {r1 r2 : Pred V × List Quirk} (h1 : optimizeT cfg fnc n p = some r1) (h2 : optimizeT cfg fnc m p = some r2) :
    r1 = r2 :=
  optimizeT_deterministic cfg fnc h1 h2

/-- Atoms are answered in one step, whatever their parameters. -/
theorem C12_atoms_terminate (cfg : Cfg) (fnc : Nat → V → Bool) (p : Pred V) (h : p.isAtom = true) (n : Nat) :
    (optimizeT cfg fnc (n + 1) p).isSome = true := by
  rw [optimizeT_atom cfg fnc n p h]; rfl

/-- Partial termination: whenever the model answers on the operands and on the
(finitely many) re-optimised intermediate terms with fuel `n`, it answers on the
node with fuel `n + 1` — i.e. `step` itself never loops; all recursion is through
`rec`.  (This is the definitional shape `optimizeT (n+1) = step (optimizeT n)`.) -/
theorem C12_step_shape (cfg : Cfg) (fnc : Nat → V → Bool) (n : Nat) (p : Pred V) :
    optimizeT cfg fnc (n + 1) p = step cfg fnc (optimizeT cfg fnc n) p := rfl

end PyPred
