/-
C14  parse_expression accepts exactly the expression language and reads it faithfully.

Property theorems only; helper lemmas are in PyPred/Lemmas/Parser*.lean.  The
statements are about the model of Model/Parser.lean:

  text --lexChars--> tokens --parse--> tree          (`parseChars`)

`Spells ts cs`   the text `cs` spells the tokens `ts` (blanks anywhere, a word is a maximal run of letters)
`Reading ts t`   `t` is a bracketing of exactly the tokens `ts` in which every group is a sub-tree
                 and every `~` governs exactly the operand that follows it
`Tg 0 ts t`      … and in which `|` is loosest in every group (`&` against `^`, associativity: free)
`Faithful ts t`  `Reading ts t` and some tight reading has the truth table of `t`
`Pr 0 ts t`      the unambiguous precedence grammar of the reference parser

The tie to /repo (after fixes/parser-names.diff) is the correspondence run by
`./check C14`: accept / reject, the implementation's tree against `parse` up to
`assocNorm`, and `isReading` / `isTight` evaluated on the implementation's tree.
Lark's Earley engine itself is not modelled.
-/
import PyPred.Lemmas.ParserReassoc
import PyPred.Lemmas.ParserTable
import PyPred.Lemmas.ParserScan

namespace PyPred
open Parser

/-! ### The language that is accepted -/

/-- the expression language over texts -/
def InLanguage (cs : List Char) : Prop := ∃ ts t, Spells ts cs ∧ Reading ts t

/-- **Soundness**: whatever the reference parser returns is a reading of the tokens. -/
theorem C14_parse_sound {ts : List Token} {t : Tree} (h : parse ts = some t) : Reading ts t :=
  tg_rd (pr_tg (parse_pr h))

/-- **Completeness**: every token list that has a reading is accepted. -/
theorem C14_parse_complete {ts : List Token} {t : Tree} (h : Reading ts t) : ∃ t', parse ts = some t' :=
  parse_complete h

/-- accepts exactly the token lists of the language -/
theorem C14_accepts_iff_reading (ts : List Token) : (parse ts).isSome = true ↔ ∃ t, Reading ts t := by
  constructor
  · intro h
    cases hp : parse ts with
    | none => simp [hp] at h
    | some t => exact ⟨t, C14_parse_sound hp⟩
  · rintro ⟨t, h⟩
    obtain ⟨t', h'⟩ := parse_complete h
    simp [h']

/-- **accepts exactly the strings of the expression language** -/
theorem C14_accepts_iff_language (cs : List Char) : (parseChars cs).isSome = true ↔ InLanguage cs := by
  unfold parseChars InLanguage
  constructor
  · intro h
    cases hl : lexChars cs with
    | none => simp [hl] at h
    | some ts =>
      simp only [hl, Option.bind_some] at h
      obtain ⟨t, ht⟩ := (C14_accepts_iff_reading ts).1 h
      exact ⟨ts, t, lex_iff_spells.1 hl, ht⟩
  · rintro ⟨ts, t, hs, hr⟩
    rw [lex_iff_spells.2 hs]
    simpa using (C14_accepts_iff_reading ts).2 ⟨t, hr⟩

/-- a local characterisation of the language: an operand is expected / has ended, parentheses are counted -/
theorem C14_language_iff_wellFormed (ts : List Token) : (∃ t, Reading ts t) ↔ wellFormed ts = true := wellFormed_iff.symm

theorem C14_accepts_iff_wellFormed (ts : List Token) : (parse ts).isSome = true ↔ wellFormed ts = true :=
  (C14_accepts_iff_reading ts).trans wellFormed_iff.symm

/-- the reference parser is exactly the unambiguous precedence grammar
(`|` loosest, then `&`, then `^`, then `~`; chains bracketed to the left) -/
theorem C14_parse_iff_precedence {ts : List Token} {t : Tree} : parse ts = some t ↔ Pr 0 ts t := parse_iff_pr

/-! ### The tree is a faithful reading -/

/-- leaves and operators in source order, every name verbatim -/
theorem C14_reading_inorder {ts : List Token} {t : Tree} (h : Reading ts t) : inorder t = noParens ts :=
  rd_inorder h

/-- the variables of the tree are exactly the name tokens of the text -/
theorem C14_reading_names {ts : List Token} {t : Tree} (h : Reading ts t) (s : List Char) :
    s ∈ names t ↔ Token.name s ∈ ts := rd_names h s

/-- `~` applies only to the operand that follows it: an operand that starts with `~` is the negation of
the operand formed by the rest (in `~a & b` the operand after `~` is `a`, and `a & b` is not an operand) -/
theorem C14_not_scope {ts : List Token} {t : Tree} (h : Rd true (.not :: ts) t) : ∃ u, t = .not u ∧ Rd true ts u := by
  cases h with
  | not h' => exact ⟨_, rfl, h'⟩

/-- every parenthesised group is a sub-tree: an operand that starts with `(` is the reading of what the
matching `)` encloses, and that `)` is its last token -/
theorem C14_group_subtree {ts : List Token} {t : Tree} (h : Rd true (.lp :: ts) t) :
    ∃ mid, ts = mid ++ [.rp] ∧ Rd false mid t := by
  cases h with
  | grp h' => exact ⟨_, rfl, h'⟩

/-- the reference parser's tree is tight: `|` is loosest in every group -/
theorem C14_parse_tight {ts : List Token} {t : Tree} (h : parse ts = some t) : Tg 0 ts t := pr_tg (parse_pr h)

theorem C14_parse_faithful {ts : List Token} {t : Tree} (h : parse ts = some t) : Faithful ts t :=
  ⟨C14_parse_sound h, t, C14_parse_tight h, fun _ => rfl⟩

/-- the whole pipeline on a text -/
theorem C14_parseChars_faithful {cs : List Char} {t : Tree} (h : parseChars cs = some t) :
    ∃ ts, Spells ts cs ∧ Faithful ts t := by
  unfold parseChars at h
  cases hl : lexChars cs with
  | none => simp [hl] at h
  | some ts =>
    simp only [hl, Option.bind_some] at h
    exact ⟨ts, lex_iff_spells.1 hl, C14_parse_faithful h⟩

/-! ### What the driver's answers on the implementation's tree mean -/

/-- `isReading` (evaluated on the implementation's tree) decides the specification -/
theorem C14_isReading_iff {ts : List Token} {t : Tree} : isReading ts t = true ↔ Reading ts t := isReading_iff

theorem C14_isTight_sound {ts : List Token} {t : Tree} (h : isTight ts t = true) : Tg 0 ts t := isTight_sound h

/-- answer `T` of the driver: the implementation's tree is faithful -/
theorem C14_faithful_of_checks {ts : List Token} {t : Tree} (h1 : isReading ts t = true) (h2 : isTight ts t = true) :
    Faithful ts t :=
  ⟨isReading_iff.1 h1, t, isTight_sound h2, fun _ => rfl⟩

/-- answer `N` plus a witness accepted by `tightsame` -/
theorem C14_faithful_of_witness {ts : List Token} {t t' : Tree} (h1 : isReading ts t = true)
    (h2 : isTight ts t' = true) (h3 : sameTable t t' = true) : Faithful ts t :=
  ⟨isReading_iff.1 h1, t', isTight_sound h2, fun σ => (sameTable_sound h3 σ).symm⟩

/-- the structural tie is modulo re-association of equal operators, which keeps the truth table:
a reading that equals the reference parser's tree up to `assocNorm` is faithful -/
theorem C14_faithful_of_sameModAssoc {ts : List Token} {t m : Tree} (hm : parse ts = some m)
    (h1 : isReading ts t = true) (h2 : sameModAssoc t m = true) : Faithful ts t :=
  ⟨isReading_iff.1 h1, m, C14_parse_tight hm, fun σ => (sameModAssoc_eval h2 σ).symm⟩

theorem C14_assocNorm_table (σ : List Char → Bool) (t : Tree) : eval σ (assocNorm t) = eval σ t := eval_assocNorm σ t

/-! ### Every tree has an accepted text -/

theorem C14_parse_print (t : Tree) : parse (printFull t) = some t := parse_printFull t

theorem C14_parse_print_text (t : Tree) (hv : t.valid) : parseChars (renderSp (printFull t)) = some t := by
  unfold parseChars
  rw [lex_renderSp (printFull_valid t hv)]
  exact parse_printFull t

theorem C14_parse_print_text_min (t : Tree) (hv : t.valid) : parseChars (renderMin (printFull t)) = some t := by
  unfold parseChars
  rw [lex_renderMin (printFull_valid t hv)]
  exact parse_printFull t

/-! ### The lexer -/

/-- the lexer returns `ts` exactly for the texts that spell `ts` -/
theorem C14_lex_iff_spells {cs : List Char} {ts : List Token} : lexChars cs = some ts ↔ Spells ts cs := lex_iff_spells

/-- blanks are irrelevant -/
theorem C14_lex_blank (cs : List Char) : lexChars (' ' :: cs) = lexChars cs := lex_space cs

/-- a word token is exactly a maximal run of letters -/
theorem C14_lex_word_maximal {w : List Char} (hne : w ≠ []) (hw : ∀ c ∈ w, isLetter c = true)
    {rest : List Char} (hr : startsWithLetter rest = false) :
    lexChars (w ++ rest) = (lexChars rest).map (fun ts => word w :: ts) := lex_word hne hw hr

/-- `true` / `false` are constants only as whole words -/
theorem C14_keywords (w : List Char) :
    word w = (if w = ['t', 'r', 'u', 'e'] then Token.tt else if w = ['f', 'a', 'l', 's', 'e'] then Token.ff else Token.name w) := rfl

/-- any character other than a letter, one of the six symbols and the blank rejects the text -/
theorem C14_lex_reject_foreign {c : Char} (hc : okChar c = false) {cs : List Char} (h : c ∈ cs) :
    parseChars cs = none := by
  unfold parseChars; rw [lex_reject hc h]; rfl

theorem C14_lex_names_valid {cs : List Char} {ts : List Token} (h : lexChars cs = some ts) : ∀ t ∈ ts, t.valid := lex_valid h

/-! ### What is rejected -/

theorem C14_reject_of_no_reading {ts : List Token} (h : ¬ ∃ t, Reading ts t) : parse ts = none := by
  cases hp : parse ts with
  | none => rfl
  | some t => exact absurd ⟨t, C14_parse_sound hp⟩ h

theorem C14_reject_empty : parse [] = none :=
  C14_reject_of_no_reading (fun ⟨_, h⟩ => rd_ne_nil h rfl)

theorem C14_reject_unbalanced {ts : List Token} (h : ts.count .lp ≠ ts.count .rp) : parse ts = none :=
  C14_reject_of_no_reading (fun ⟨_, hr⟩ => h (rd_balanced hr))

/-- the first token must start an operand (name, constant, `~`, `(`) -/
theorem C14_reject_bad_start {x : Token} {r : List Token} (h : startsOperand x = false) : parse (x :: r) = none :=
  C14_reject_of_no_reading (fun ⟨_, hr⟩ => by
    obtain ⟨y, r', e, hy⟩ := rd_head hr
    injection e with e1 _; subst e1; rw [h] at hy; cases hy)

/-- the last token must end an operand (name, constant, `)`) -/
theorem C14_reject_bad_end {x : Token} {r : List Token} (h : endsOperand x = false) : parse (r ++ [x]) = none :=
  C14_reject_of_no_reading (fun ⟨_, hr⟩ => by
    obtain ⟨r', y, e, hy⟩ := rd_last hr
    have := List.append_inj' e rfl
    obtain ⟨_, e2⟩ := this
    injection e2 with e3 _; subst e3; rw [h] at hy; cases hy)

/-- blank-only and empty texts are rejected -/
theorem C14_reject_blank_text : ∀ n : Nat, parseChars (List.replicate n ' ') = none := by
  intro n
  have : lexChars (List.replicate n ' ') = some [] := by
    induction n with
    | zero => exact lex_nil
    | succ n ih => rw [List.replicate_succ, lex_space]; exact ih
  unfold parseChars; rw [this]; exact C14_reject_empty

/-! ### Concrete readings (non-vacuity; `decide` runs the model) -/

section Examples

private def a : Tree := .var ['a']
private def b : Tree := .var ['b']
private def c : Tree := .var ['c']

-- after the repair of F3 multi-letter names are variables, keywords stay constants
example : parseChars ['f','o','o',' ','&',' ','b','a','r'] = some (.and (.var ['f','o','o']) (.var ['b','a','r'])) := by decide
example : parseChars ['t','r','u','e','x',' ','|',' ','t','r','u','e'] = some (.or (.var ['t','r','u','e','x']) .tt) := by decide
example : parseChars ['a','|','b','&','c'] = some (.or a (.and b c)) := by decide
example : parseChars ['a','&','b','|','c'] = some (.or (.and a b) c) := by decide
example : parseChars ['~','a','&','b'] = some (.and (.not a) b) := by decide
example : parseChars ['~','(','a','&','b',')','|','c'] = some (.or (.not (.and a b)) c) := by decide
example : parseChars ['a','&','b','^','c'] = some (.and a (.xor b c)) := by decide
example : parseChars ['a',' ','b'] = none := by decide
example : parseChars ['a','1'] = none := by decide
example : parseChars ['a','\t'] = none := by decide
example : parseChars ['(','a'] = none := by decide
example : parseChars ['a','&'] = none := by decide
example : parseChars ['é'] = none := by decide

/-- the relation evaluated on the implementation's tree can say no: a torn group -/
theorem C14_witness_group : isReading [.lp, .name ['a'], .or, .name ['b'], .rp, .and, .name ['c']] (.or a (.and b c)) = false := by decide
/-- … a `~` that takes more than its operand -/
theorem C14_witness_not_scope : isReading [.not, .name ['a'], .and, .name ['b']] (.not (.and a b)) = false := by decide
/-- … a changed name -/
theorem C14_witness_name : isReading [.name ['f','o','o']] (.var ['f']) = false := by decide
/-- … `|` not loosest: a reading, but not tight -/
theorem C14_witness_not_tight :
    isReading [.name ['a'], .or, .name ['b'], .and, .name ['c']] (.and (.or a b) c) = true ∧
    isTight [.name ['a'], .or, .name ['b'], .and, .name ['c']] (.and (.or a b) c) = false := by decide
/-- the property leaves `&` against `^` and associativity open: both bracketings are tight -/
theorem C14_witness_open :
    isTight [.name ['a'], .and, .name ['b'], .xor, .name ['c']] (.and a (.xor b c)) = true ∧
    isTight [.name ['a'], .and, .name ['b'], .xor, .name ['c']] (.xor (.and a b) c) = true := by decide

end Examples

end PyPred
